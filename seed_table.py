#!/usr/bin/env python3
"""Print the DESIGN.md §11.6 table from /verif/seeded/*/meta.json."""
import json, os, re
D = "/verif/seeded"
print("| change | property | caught by `./check <property>` | first reported reason |")
print("|---|---|---|---|")
for name in sorted(os.listdir(D)):
    p = os.path.join(D, name, "meta.json")
    if not os.path.exists(p):
        continue
    m = json.load(open(p))
    cr = m.get("check_result", {})
    rep = cr.get("replay") or {}
    why = (rep.get("oracle") or "")
    if not why and rep.get("broken_theorems"):
        why = "broken theorems: " + ", ".join(rep["broken_theorems"][:3])
    if not why:
        why = rep.get("kind") or ""
    why = why.replace("|", "\\|").replace("\n", " ")[:110]
    caught = "yes, with failing input" if m.get("detected_with_failing_input") else ("yes (no-failing-input-found)" if m.get("detected") else "NO")
    print("| %s | %s | %s | %s |" % (name, m["property"], caught, why))
