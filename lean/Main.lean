/-
  Main.lean — line-protocol driver for the executable model (`elfmodel`).
  One request per line on stdin, one reply line on stdout.  See harness/src/main.rs for the
  implementation side printing the same format.
-/
import ElfVerif.Model.Show
import ElfVerif.Model.Stream
import ElfVerif.Model.CfgEval
open Elf

def hexVal (c : Char) : Nat :=
  if '0' ≤ c ∧ c ≤ '9' then c.toNat - 48
  else if 'a' ≤ c ∧ c ≤ 'f' then c.toNat - 87
  else if 'A' ≤ c ∧ c ≤ 'F' then c.toNat - 55 else 0

def parseHex (s : String) : Array UInt8 :=
  if s == "-" then #[] else
  let rec go (cs : List Char) (acc : Array UInt8) : Array UInt8 :=
    match cs with
    | a :: b :: rest => go rest (acc.push (UInt8.ofNat (hexVal a * 16 + hexVal b)))
    | _ => acc
  go s.toList (Array.mkEmpty (s.length / 2))

def sliceOfHex (s : String) : Slice := Slice.ofArray (parseHex s)

def parseTy : String → Option Ty
  | "u8" => some .u8 | "u16" => some .u16 | "u32" => some .u32 | "u64" => some .u64
  | "i32" => some .i32 | "i64" => some .i64 | _ => none

def parseCls : String → Class
  | "32" => .ELF32
  | _ => .ELF64

def parseSpec : String → Spec
  | "little" => .little
  | "big" => .big
  | "native" => .little   -- modelled target is little-endian (cross-checked by the harness)
  | _ => .any

def nat! (s : String) : Nat := s.toNat?.getD 0

def showPM {α} (f : α → String) (r : Out α × Nat) : String :=
  showOut f r.1 ++ " " ++ toString r.2

/-- A type-erased entry kind for the `parse` / `table` streams. -/
structure AnyEP where
  run : Bool → Class → Slice → Nat → String               -- parse_at
  size : Class → Nat
  tableOps : Bool → Class → Slice → List String → String  -- table transcript

def tableTranscript {α} (ep : EntryParser α) (sh : α → String) (le : Bool) (c : Class)
    (d : Slice) (ops : List String) : String :=
  let t : Table α := ⟨ep, le, c, d⟩
  let one (op : String) : String :=
    if op == "len" then s!"len={t.len}"
    else if op == "empty" then s!"empty={showBool t.isEmpty}"
    else if op.startsWith "g" then
      let i := nat! (op.drop 1).toString
      s!"g{i}=" ++ showOut sh (t.get i)
    else if op == "iter" then
      let (r, it) := t.iter.collect
      -- poll three more times after the first None
      let (p1, it1) := it.next
      let (p2, it2) := it1.next
      let (p3, _) := it2.next
      "iter=" ++ showOut (fun l => "[" ++ " ".intercalate (l.map sh) ++ "]") r ++
        " post=" ++ showOut (showOpt sh) p1 ++ "/" ++ showOut (showOpt sh) p2 ++ "/" ++ showOut (showOpt sh) p3
    else "bad-op"
  ";".intercalate (ops.map one)

def mkAny {α} (ep : EntryParser α) (sh : α → String) : AnyEP :=
  { run := fun le c d off => showPM sh (ep.parse le c d off),
    size := ep.size,
    tableOps := tableTranscript ep sh }

def anyEP : String → Option AnyEP
  | "SectionHeader" => some (mkAny SectionHeader.ep SectionHeader.show)
  | "ProgramHeader" => some (mkAny ProgramHeader.ep ProgramHeader.show)
  | "Symbol" => some (mkAny Symbol.ep Symbol.show)
  | "Rel" => some (mkAny Rel.ep Rel.show)
  | "Rela" => some (mkAny Rela.ep Rela.show)
  | "Dyn" => some (mkAny Dyn.ep Dyn.show)
  | "CompressionHeader" => some (mkAny CompressionHeader.ep CompressionHeader.show)
  | "NoteGnuAbiTag" => some (mkAny NoteGnuAbiTag.ep NoteGnuAbiTag.show)
  | "SysVHashHeader" => some (mkAny SysVHashHeader.ep SysVHashHeader.show)
  | "GnuHashHeader" => some (mkAny GnuHashHeader.ep GnuHashHeader.show)
  | "VersionIndex" => some (mkAny VersionIndex.ep toString)
  | "VerDef" => some (mkAny VerDef.ep VerDef.show)
  | "VerDefAux" => some (mkAny VerDefAux.ep VerDefAux.show)
  | "VerNeed" => some (mkAny VerNeed.ep VerNeed.show)
  | "VerNeedAux" => some (mkAny VerNeedAux.ep VerNeedAux.show)
  | "u32" => some (mkAny U32.ep toString)
  | "u64" => some (mkAny U64.ep toString)
  | _ => none

def notesTranscript (it : NoteIter) : String :=
  let (r, it0) := it.collect
  let (p1, it1) := it0.next
  let (p2, it2) := it1.next
  let (p3, _) := it2.next
  showOut (fun l => "[" ++ " ".intercalate (l.map Note.show) ++ "]") r ++
    " post=" ++ showOut (showOpt Note.show) p1 ++ "/" ++ showOut (showOpt Note.show) p2 ++ "/" ++
    showOut (showOpt Note.show) p3

def showFound (r : Out (Option (Nat × Symbol))) : String :=
  showOut (showOpt fun (p : Nat × Symbol) => s!"{p.1} {p.2.show}") r

def iterTranscript {α} (sh : α → String) (it : Iter α) : String :=
  let (r, it0) := it.collect
  let (p1, _) := it0.next
  showOut (fun l => "[" ++ " ".intercalate (l.map sh) ++ "]") r ++ " post=" ++ showOut (showOpt sh) p1

/-- Dump a record iterator with nested aux iterators; polls once more after the end. -/
def verRecTranscript {α β} (next : VerIter → Out (Option (α × VerIter)) × VerIter)
    (auxNext : VerIter → Out (Option β) × VerIter) (sh : α → String) (shAux : β → String)
    (it : VerIter) : String :=
  let auxDump (ai : VerIter) : String :=
    let (r, a0) := drainFuel auxNext (ai.count + 1) ai []
    let (p, _) := auxNext a0
    showOut (fun l => "[" ++ " ".intercalate (l.map shAux) ++ "]") r ++ "+" ++ showOut (showOpt shAux) p
  let (r, it0) := drainFuel next (it.count + 1) it []
  let (p, _) := next it0
  showOut (fun l => "[" ++ " ".intercalate (l.map fun (x : α × VerIter) => sh x.1 ++ ":" ++ auxDump x.2) ++ "]") r ++
    " post=" ++ showOut (showOpt fun (x : α × VerIter) => sh x.1) p

def verAuxTranscript {β} (auxNext : VerIter → Out (Option β) × VerIter) (shAux : β → String)
    (ai : VerIter) : String :=
  let (r, a0) := drainFuel auxNext (ai.count + 1) ai []
  let (p1, a1) := auxNext a0
  let (p2, _) := auxNext a1
  showOut (fun l => "[" ++ " ".intercalate (l.map shAux) ++ "]") r ++ " post=" ++
    showOut (showOpt shAux) p1 ++ "/" ++ showOut (showOpt shAux) p2

def showReq (r : Out (Option SymbolRequirement)) : String :=
  showOut (showOpt fun q => s!"req({showLoc q.file},{showLoc q.name},{q.hash},{q.flags},{showBool q.hidden})") r

def showDef (r : Out (Option SymbolDefinition)) : String :=
  showOut (showOpt fun q =>
    s!"def({q.hash},{q.flags},{showBool q.hidden},names=" ++
      showOut (fun l => "[" ++ " ".intercalate (l.map (showOut showLoc)) ++ "]") q.collectNames ++ ")") r

def symverQueries (t : SymbolVersionTable) (idxs : List Nat) : String :=
  ";".intercalate (idxs.map fun i =>
    s!"r{i}=" ++ showReq (t.getRequirement i) ++ s!";d{i}=" ++ showDef (t.getDefinition i))

/-- content rendering of a window (stream parser results are copies, location is meaningless) -/
def fnvBytes (s : Slice) : UInt64 :=
  (List.range s.len).foldl (fun h i => (h ^^^ (UInt8.ofNat (s.byte i)).toUInt64) * 0x100000001b3) 0xcbf29ce484222325

def showContent (s : Slice) : String := s!"#{s.len}:{fnvBytes s}"

def Note.showC : Note → String
  | .gnuAbiTag t => "note:" ++ t.show
  | .gnuBuildId d => "note:buildid(" ++ showContent d ++ ")"
  | .unknown ty name desc =>
    s!"note:any({ty},{showContent name},{showContent desc},str=" ++
      showOut showContent (noteNameStr name) ++ ")"

def notesTranscriptC (it : NoteIter) : String :=
  let (r, it0) := it.collect
  let (p1, _) := it0.next
  showOut (fun l => "[" ++ " ".intercalate (l.map Note.showC) ++ "]") r ++
    " post=" ++ showOut (showOpt Note.showC) p1

def showStrtabC (t : Slice) : String :=
  "strtab(" ++ showContent t ++ "," ++ showOut showContent (strGetRaw t 0) ++ "/" ++ showOut showContent (strGetRaw t 1) ++ "/" ++
    showOut showContent (strGetRaw t t.len) ++ "/" ++ showOut showContent (strGetRaw t (t.len + 1)) ++ ")"

def showReqC (r : Out (Option SymbolRequirement)) : String :=
  showOut (showOpt fun q => s!"req({showContent q.file},{showContent q.name},{q.hash},{q.flags},{showBool q.hidden})") r

def showDefC (r : Out (Option SymbolDefinition)) : String :=
  showOut (showOpt fun q =>
    s!"def({q.hash},{q.flags},{showBool q.hidden},names=" ++
      showOut (fun l => "[" ++ " ".intercalate (l.map (showOut showContent)) ++ "]") q.collectNames ++ ")") r

def symverQueriesC (t : SymbolVersionTable) (idxs : List Nat) : String :=
  ";".intercalate (idxs.map fun i =>
    s!"r{i}=" ++ showReqC (t.getRequirement i) ++ s!";d{i}=" ++ showDefC (t.getDefinition i))

def splitNats (s : String) : List Nat :=
  if s == "-" || s == "" then [] else (s.splitOn ".").map nat!

def fnvAdd (h : UInt64) (s : String) : UInt64 :=
  s.toUTF8.foldl (fun h b => (h ^^^ b.toUInt64) * 0x100000001b3) h

def fnv (s : String) : UInt64 := fnvAdd 0xcbf29ce484222325 s

/-- FNV digest of the text `ok [e0 e1 …]` of an iterator's items, computed incrementally with the
    model's own `Iter.next` (no quadratic list appends for 65k-entry tables). -/
def digestLoop {α} (sh : α → String) : Nat → Iter α → UInt64 → Bool → Option UInt64
  | 0, _, h, _ => some h
  | n + 1, it, h, first =>
    match it.next with
    | (.ok (some a), it') => digestLoop sh n it' (fnvAdd (if first then h else fnvAdd h " ") (sh a)) false
    | (.ok none, _) => some h
    | _ => none

/-- a table's byte location is not observable through the crate's API: digest of the entries -/
def tableDigest {α} (sh : α → String) (t : Table α) : String :=
  match digestLoop sh (t.data.len + 1) t.iter (fnv "ok [") true with
  | some h => s!"n={t.len} h={fnvAdd h "]"}"
  | none => s!"n={t.len} h=panic"

def showStrtab (t : Slice) : String :=
  "strtab(" ++ showOut showLoc (strGetRaw t 0) ++ "/" ++ showOut showLoc (strGetRaw t 1) ++ ")"

/-- The `file` stream: open + a list of queries. -/
def fileQuery (f : ElfBytes) (q : String) : String :=
  let body := (q.drop 1).toString
  match q.front with
  | 'T' =>
    "T=" ++ showOut (fun (r : Option (Table SectionHeader) × Option Slice) =>
      showOpt (tableDigest SectionHeader.show) r.1 ++ "," ++ showOpt showStrtab r.2) f.sectionHeadersWithStrtab
  | 'S' =>
    let i := nat! body
    match f.shdrs with
    | none => s!"S{i}=noshdrs"
    | some shdrs =>
      match shdrs.get i with
      | .ok sh =>
        s!"S{i}=" ++ sh.show ++
        " data=" ++ showOut (fun (r : Slice × Option CompressionHeader) =>
            showLoc r.1 ++ "," ++ showOpt CompressionHeader.show r.2) (f.sectionData sh) ++
        " strtab=" ++ showOut showStrtab (f.sectionDataAsStrtab sh) ++
        " rels=" ++ showOut (iterTranscript Rel.show) (f.sectionDataAsRels sh) ++
        " relas=" ++ showOut (iterTranscript Rela.show) (f.sectionDataAsRelas sh) ++
        " notes=" ++ showOut notesTranscript (f.sectionDataAsNotes sh)
      | r => s!"S{i}=" ++ showOut (fun _ => "") r
  | 'P' =>
    let i := nat! body
    match f.phdrs with
    | none => s!"P{i}=nophdrs"
    | some phdrs =>
      match phdrs.get i with
      | .ok ph =>
        s!"P{i}=" ++ ph.show ++ " data=" ++ showOut showLoc (f.segmentData ph) ++
        " notes=" ++ showOut notesTranscript (f.segmentDataAsNotes ph)
      | r => s!"P{i}=" ++ showOut (fun _ => "") r
  | 'N' =>
    "N=" ++ showOut (showOpt SectionHeader.show) (f.sectionHeaderByName (sliceOfHex body))
  | 'Y' =>
    "Y=" ++ showOut (showOpt fun (r : Table Symbol × Slice) => tableDigest Symbol.show r.1 ++ "," ++ showStrtab r.2) f.symbolTable
  | 'D' =>
    "D=" ++ showOut (showOpt fun (r : Table Symbol × Slice) => tableDigest Symbol.show r.1 ++ "," ++ showStrtab r.2) f.dynamicSymbolTable
  | 'd' => "d=" ++ showOut (showOpt (tableDigest Dyn.show)) f.dynamic
  | 'C' =>
    "C=" ++ showOut (fun (c : ElfBytes.CommonElfData) =>
      "symtab=" ++ showOpt (tableDigest Symbol.show) c.symtab ++ "," ++ showOpt showStrtab c.symtabStrs ++
      " dynsyms=" ++ showOpt (tableDigest Symbol.show) c.dynsyms ++ "," ++ showOpt showStrtab c.dynsymsStrs ++
      " dynamic=" ++ showOpt (tableDigest Dyn.show) c.dynamic ++
      " sysv=" ++ showOpt (fun (_ : SysVHashTable) => "y") c.sysvHash ++
      " gnu=" ++ showOpt (fun (t : GnuHashTable) => t.hdr.show) c.gnuHash) f.findCommonData
  | 'H' =>
    -- hash lookups of a name through find_common_data's tables (dynsyms)
    let name := sliceOfHex body
    match f.findCommonData with
    | .ok c =>
      let sysv := match c.sysvHash, c.dynsyms, c.dynsymsStrs with
        | some t, some syms, some strs => showFound (t.find name syms strs)
        | _, _, _ => "n/a"
      let gnu := match c.gnuHash, c.dynsyms, c.dynsymsStrs with
        | some t, some syms, some strs => showFound (t.find name syms strs)
        | _, _, _ => "n/a"
      "H=sysv:" ++ sysv ++ " gnu:" ++ gnu
    | r => "H=" ++ showOut (fun _ => "") r
  | 'V' =>
    "V=" ++ showOut (showOpt fun t => symverQueries t (splitNats body)) f.symbolVersionTable
  | _ => "bad-query"

def parseFault (s : String) : Fault :=
  if s == "i" then .interrupted
  else if s == "e" then .eof
  else if s.startsWith "f" then .fail      -- `f`, `f1`, …: the harness varies the ErrorKind; every kind is a failure
  else if s.startsWith "s" then .short (nat! (s.drop 1).toString)
  else .none

/-- a schedule may start with `p<N>`: the reader's cursor at hand-over -/
def splitInitPos (s : String) : Nat × String :=
  if s.front == 'p' then
    match ((s.drop 1).toString.splitOn ",") with
    | [n] => (n.toNat?.getD 0, "-")
    | n :: rest => (n.toNat?.getD 0, ",".intercalate rest)
    | [] => (0, "-")
  else (0, s)

def parseSched (s0 : String) : List Fault :=
  let s := (splitInitPos s0).2
  if s == "-" then [] else (s.splitOn ",").map parseFault

/-- per seek: `pos:bytes read until the next seek` (coalesced, deterministic) -/
def ioSummary (tr : List IoEvent) : String :=
  let rec go (evs : List IoEvent) (cur : Option (Nat × Nat)) (acc : List String) : List String :=
    match evs with
    | [] => (match cur with | some (p, b) => acc ++ [s!"{p}:{b}"] | none => acc)
    | .seekEnd :: rest => go rest (some (0, 0)) ((match cur with | some (p, b) => acc ++ [s!"{p}:{b}"] | none => acc) ++ ["end"])
    | .seek p :: rest => go rest (some (p, 0)) (match cur with | some (q, b) => acc ++ [s!"{q}:{b}"] | none => acc)
    | .read _ got :: rest => go rest (match cur with | some (p, b) => some (p, b + got) | none => some (0, got)) acc
    | _ :: rest => go rest cur acc
  ",".intercalate (go tr none [])

def iterTranscriptC {α} (sh : α → String) (it : Iter α) : String := iterTranscript sh it

def streamOp (s : ElfStream) (q : String) : String × ElfStream :=
  let body := (q.drop 1).toString
  match q.front with
  | 'T' =>
    let (r, s') := s.sectionHeadersWithStrtab
    ("T=" ++ showOut (showOpt showStrtabC) r, s')
  | 'S' =>
    let i := nat! body
    match s.shdrs[i]? with
    | none => (s!"S{i}=oob", s)
    | some sh =>
      let (d, s1) := s.sectionData sh
      let (st, s2) := s1.sectionDataAsStrtab sh
      let (rl, s3) := s2.sectionDataAsRels sh
      let (ra, s4) := s3.sectionDataAsRelas sh
      let (nt, s5) := s4.sectionDataAsNotes sh
      (s!"S{i}=" ++ sh.show ++
        " data=" ++ showOut (fun (r : Slice × Option CompressionHeader) =>
            showContent r.1 ++ "," ++ showOpt CompressionHeader.show r.2) d ++
        " strtab=" ++ showOut showStrtabC st ++
        " rels=" ++ showOut (iterTranscript Rel.show) rl ++
        " relas=" ++ showOut (iterTranscript Rela.show) ra ++
        " notes=" ++ showOut notesTranscriptC nt, s5)
  | 'P' =>
    let i := nat! body
    match s.phdrs[i]? with
    | none => (s!"P{i}=oob", s)
    | some ph =>
      let (nt, s1) := s.segmentDataAsNotes ph
      (s!"P{i}=" ++ ph.show ++ " notes=" ++ showOut notesTranscriptC nt, s1)
  | 'N' =>
    let (r, s') := s.sectionHeaderByName (sliceOfHex body)
    ("N=" ++ showOut (showOpt SectionHeader.show) r, s')
  | 'Y' =>
    let (r, s') := s.symbolTable
    ("Y=" ++ showOut (showOpt fun (r : Table Symbol × Slice) => tableDigest Symbol.show r.1 ++ "," ++ showStrtabC r.2) r, s')
  | 'D' =>
    let (r, s') := s.dynamicSymbolTable
    ("D=" ++ showOut (showOpt fun (r : Table Symbol × Slice) => tableDigest Symbol.show r.1 ++ "," ++ showStrtabC r.2) r, s')
  | 'd' =>
    let (r, s') := s.dynamic
    ("d=" ++ showOut (showOpt (tableDigest Dyn.show)) r, s')
  | 'V' =>
    let (r, s') := s.symbolVersionTable
    ("V=" ++ showOut (showOpt fun t => symverQueriesC t (splitNats body)) r, s')
  | _ => ("bad-query", s)

def listDigest {α} (sh : α → String) (l : List α) : String :=
  let h := l.foldl (fun (st : UInt64 × Bool) a => (fnvAdd (if st.2 then st.1 else fnvAdd st.1 " ") (sh a), false)) (fnv "ok [", true)
  s!"n={l.length} h={fnvAdd h.1 "]"}"

def handleStream (sp sched ops : String) (content : Array UInt8) : String :=
  let dev : Device := ⟨content, (splitInitPos sched).1, parseSched sched, []⟩
  match openStream (parseSpec sp) dev with
  | (.ok s, _) =>
    let head := "open=ok " ++ s.ehdr.show ++ " shdrs=" ++ listDigest SectionHeader.show s.shdrs ++
      " phdrs=" ++ listDigest ProgramHeader.show s.phdrs
    let (outs, sfin) := (if ops == "-" then [] else ops.splitOn ",").foldl
      (fun (acc : List String × ElfStream) q => let (o, s') := streamOp acc.2 q; (acc.1 ++ [o], s')) ([], s)
    ";".intercalate ([head] ++ outs ++ ["io=" ++ ioSummary sfin.reader.dev.trace])
  | (r, d) => "open=" ++ showOut (fun _ => "") r ++ ";io=" ++ ioSummary d.trace

def handle (line0 : String) : String :=
  let line := (line0.splitOn "\t").headD ""
  match line.trimAscii.toString.splitOn " " with
  | ["int", le, ty, off, hex] =>
    match parseTy ty with
    | some t => showPM toString (readTy (le == "1") t (sliceOfHex hex) (nat! off))
    | none => "bad-op"
  | ["parse", tn, le, cls, off, hex] =>
    match anyEP tn with
    | some ep => ep.run (le == "1") (parseCls cls) (sliceOfHex hex) (nat! off)
    | none => "bad-op"
  | ["table", tn, le, cls, ops, hex] =>
    match anyEP tn with
    | some ep => ep.tableOps (le == "1") (parseCls cls) (sliceOfHex hex) (ops.splitOn ",")
    | none => "bad-op"
  | ["strtab", off, hex] =>
    let t := sliceOfHex hex
    "raw=" ++ showOut showLoc (strGetRaw t (nat! off)) ++ ";str=" ++ showOut showLoc (strGet t (nat! off))
  | ["utf8", hex] => showBool (validUtf8 (sliceOfHex hex))
  | ["acc", "versym", v] =>
    let v := nat! v
    s!"{VersionIndex.index v},{showBool (VersionIndex.isLocal v)},{showBool (VersionIndex.isGlobal v)},{showBool (VersionIndex.isHidden v)}"
  | ["acc", "sym", info, other, shndx] =>
    let s : Symbol := ⟨0, nat! shndx, nat! info, nat! other, 0, 0⟩
    s!"{showBool s.isUndefined},{s.stSymtype},{s.stBind},{s.stVis}"
  | ["acc", "symf", name, shndx, info, other, value, size] =>
    let s : Symbol := ⟨nat! name, nat! shndx, nat! info, nat! other, nat! value, nat! size⟩
    s!"{showBool s.isUndefined},{s.stSymtype},{s.stBind},{s.stVis}"
  | ["ident", sp, hex] =>
    showOut (fun (r : Bool × Class × Nat × Nat) => s!"{showBool r.1},{showClass r.2.1},{r.2.2.1},{r.2.2.2}")
      (parseIdent (parseSpec sp) (sliceOfHex hex))
  | ["ehdr", sp, hex] =>
    let d := sliceOfHex hex
    let idEnd := min d.len 16
    (match parseIdent (parseSpec sp) ⟨d.buf, d.start, d.start + idEnd⟩ with
     | .ok ident => showOut FileHeader.show (parseTail ident ⟨d.buf, d.start + idEnd, d.stop⟩)
     | .err e => "err " ++ toString e
     | .panic => "panic")
  | ["eidata", sp, v] => showOut showBool (fromEiData (parseSpec sp) (nat! v))
  | ["notes", le, cls, align, hex] =>
    notesTranscript ⟨le == "1", parseCls cls, nat! align, sliceOfHex hex, 0⟩
  | ["hashfn", "sysv", hex] => toString (sysvHash (sliceOfHex hex))
  | ["hashfn", "gnu", hex] => toString (gnuHash (sliceOfHex hex))
  | ["sysv", le, cls, symhex, strhex, namehex, hashhex] =>
    let le := le == "1"; let c := parseCls cls
    match SysVHashTable.new le c (sliceOfHex hashhex) with
    | .ok t =>
      let r := t.findSteps (sliceOfHex namehex) (symTable le c (sliceOfHex symhex)) (sliceOfHex strhex)
      showFound r.1
    | r => "new:" ++ showOut (fun _ => "") r
  | ["gnu", le, cls, symhex, strhex, namehex, hashhex] =>
    let le := le == "1"; let c := parseCls cls
    match GnuHashTable.new le c (sliceOfHex hashhex) with
    | .ok t =>
      let r := t.findSteps (sliceOfHex namehex) (symTable le c (sliceOfHex symhex)) (sliceOfHex strhex)
      showFound r.1
    | r => "new:" ++ showOut (fun _ => "") r
  | ["sysvm", le, cls, symhex, strhex, nameshex, hashhex] =>
    let le := le == "1"; let c := parseCls cls
    match SysVHashTable.new le c (sliceOfHex hashhex) with
    | .ok t =>
      " | ".intercalate ((nameshex.splitOn ".").map fun n =>
        showFound (t.findSteps (sliceOfHex n) (symTable le c (sliceOfHex symhex)) (sliceOfHex strhex)).1)
    | r => "new:" ++ showOut (fun _ => "") r
  | ["gnum", le, cls, symhex, strhex, nameshex, hashhex] =>
    let le := le == "1"; let c := parseCls cls
    match GnuHashTable.new le c (sliceOfHex hashhex) with
    | .ok t =>
      " | ".intercalate ((nameshex.splitOn ".").map fun n =>
        showFound (t.findSteps (sliceOfHex n) (symTable le c (sliceOfHex symhex)) (sliceOfHex strhex)).1)
    | r => "new:" ++ showOut (fun _ => "") r
  | ["verit", kind, le, cls, count, off, hex] =>
    let it : VerIter := ⟨le == "1", parseCls cls, nat! count, sliceOfHex hex, nat! off⟩
    match kind with
    | "def" => verRecTranscript verDefNext verDefAuxNext VerDef.show VerDefAux.show it
    | "need" => verRecTranscript verNeedNext verNeedAuxNext VerNeed.show VerNeedAux.show it
    | "defaux" => verAuxTranscript verDefAuxNext VerDefAux.show { it with count := it.count % 65536 }
    | "needaux" => verAuxTranscript verNeedAuxNext VerNeedAux.show { it with count := it.count % 65536 }
    | _ => "bad-op"
  | ["symver", le, cls, idxs, needcnt, defcnt, versymhex, needhex, needstrhex, defhex, defstrhex] =>
    let le := le == "1"; let c := parseCls cls
    let needs := if needcnt == "-" then none
      else some ((⟨le, c, nat! needcnt, sliceOfHex needhex, 0⟩ : VerIter), sliceOfHex needstrhex)
    let defs := if defcnt == "-" then none
      else some ((⟨le, c, nat! defcnt, sliceOfHex defhex, 0⟩ : VerIter), sliceOfHex defstrhex)
    let t : SymbolVersionTable := ⟨⟨VersionIndex.ep, le, c, sliceOfHex versymhex⟩, needs, defs⟩
    symverQueries t (splitNats idxs)
  | ["prefix", sp, queries, k, hex] =>
    let arr := parseHex hex
    handleFile sp queries (Slice.ofArray (arr.extract 0 (nat! k)))
  | ["cfg", a, st, t] =>
    let f : Cfg.FS := ⟨a == "1", st == "1", t == "1"⟩
    s!"nostd={showBool (Cfg.noStd f)} externalloc={showBool (Cfg.externAlloc f)} std={showBool (Cfg.hasStd f)}"
  | ["file", sp, queries, hex] => handleFile sp queries (sliceOfHex hex)
  | ["stream", sp, sched, ops, hex] => handleStream sp sched ops (parseHex hex)
  | ["sprefix", sp, ops, k, hex] => handleStream sp "-" ops ((parseHex hex).extract 0 (nat! k))
  | _ => "bad-op"
where
  handleFile (sp queries : String) (d : Slice) : String :=
    match minimalParse (parseSpec sp) d with
    | .ok f =>
      let head := "open=ok " ++ f.ehdr.show ++ " shdrs=" ++ showOpt (tableDigest SectionHeader.show) f.shdrs ++
        " phdrs=" ++ showOpt (tableDigest ProgramHeader.show) f.phdrs
      if queries == "-" then head
      else head ++ ";" ++ ";".intercalate ((queries.splitOn ",").map (fileQuery f))
    | r => "open=" ++ showOut (fun _ => "") r

partial def loop (h : IO.FS.Stream) (out : IO.FS.Stream) : IO Unit := do
  let line ← h.getLine
  if line.isEmpty then return ()
  out.putStrLn (handle line)
  loop h out

def main : IO Unit := do
  let out ← IO.getStdout
  loop (← IO.getStdin) out
