/-
  Lemmas/AccVersion.lean — the generated `VersionIndex` accessors (`Gen.acc_VersionIndex_*`, translated from the Rust
  bodies on every run) evaluated by the kernel on **every** halfword against the GNU ABI macros (`VERSYM_VERSION` 0x7fff,
  `VERSYM_HIDDEN` 0x8000, `VER_NDX_LOCAL` 0, `VER_NDX_GLOBAL` 1), and the specification lemmas that follow for every value.
-/
import ElfVerif.Model.Structs
import ElfVerif.Lemmas.Domain
namespace Elf

/-- `VERSYM_VERSION`, `VERSYM_HIDDEN`, local/global on every halfword. -/
theorem versym_table :
    allBelow 65536 (fun v => Gen.acc_VersionIndex_index (v0 := v) == v % 32768 &&
                             Gen.acc_VersionIndex_is_hidden (v0 := v) == decide (32768 ≤ v) &&
                             Gen.acc_VersionIndex_is_local (v0 := v) == (v % 32768 == 0) &&
                             Gen.acc_VersionIndex_is_global (v0 := v) == (v % 32768 == 1)) = true := by
  decide +kernel

theorem VersionIndex.index_eq (v : Nat) : VersionIndex.index v = v % 2 ^ 15 := by
  have := allBelow_spec _ _ versym_table (v % 65536) (Nat.mod_lt _ (by decide))
  simp only [Bool.and_eq_true, beq_iff_eq] at this
  unfold VersionIndex.index; rw [this.1.1.1]; omega

theorem VersionIndex.isHidden_eq (v : Nat) : VersionIndex.isHidden v = decide (32768 ≤ v % 65536) := by
  have := allBelow_spec _ _ versym_table (v % 65536) (Nat.mod_lt _ (by decide))
  simp only [Bool.and_eq_true, beq_iff_eq] at this
  exact this.1.1.2

theorem VersionIndex.isLocal_eq (v : Nat) : VersionIndex.isLocal v = (v % 2 ^ 15 == 0) := by
  have := allBelow_spec _ _ versym_table (v % 65536) (Nat.mod_lt _ (by decide))
  simp only [Bool.and_eq_true, beq_iff_eq] at this
  unfold VersionIndex.isLocal; rw [this.1.2]
  have : v % 65536 % 32768 = v % 2 ^ 15 := by omega
  rw [this]

theorem VersionIndex.isGlobal_eq (v : Nat) : VersionIndex.isGlobal v = (v % 2 ^ 15 == 1) := by
  have := allBelow_spec _ _ versym_table (v % 65536) (Nat.mod_lt _ (by decide))
  simp only [Bool.and_eq_true, beq_iff_eq] at this
  unfold VersionIndex.isGlobal; rw [this.2]
  have : v % 65536 % 32768 = v % 2 ^ 15 := by omega
  rw [this]

end Elf
