/-
  Lemmas/StreamIdent.lean — the stream parser reports identification defects exactly as the slice
  parser does: under a legal reader, `open_stream` fails with `parse_ident`'s error on the first 16
  bytes whenever there is one (and with `BadOffset(16)` when the stream is shorter than 16 bytes,
  where the slice parser says `SliceReadError(0, 16)`).
-/
import ElfVerif.Lemmas.OpenBase
namespace Elf

/-- the first sixteen bytes of the contents, as a window -/
def identWindow (c : Array UInt8) : Slice := ⟨c, 0, Abi.EI_NIDENT⟩

theorem open_stream_ident_error (sp : Spec) (dev : Device) (hl : Legal dev.sched) (h16 : 16 ≤ dev.content.size)
    (e : Err) (he : parseIdent sp (identWindow dev.content) = .err e) :
    ∃ d, openStream sp dev = (.err e, d) := by
  obtain ⟨cr, d0, hnew, hinv0⟩ := new_legal dev hl
  unfold openStream
  rw [hnew]
  simp only
  have hId := read_equiv cr dev.content hinv0 0 Abi.EI_NIDENT
  rcases hId with ⟨b, r1, g1, s1, sb1, hr1⟩ | ⟨e1, e', r1, g1, s1, hr1⟩
  · have s1' : cr.readBytes 0 Abi.EI_NIDENT = (.ok b, r1) := by simpa using s1
    rw [s1']
    simp only [rbind, rlift]
    rw [parseIdent_congr sb1]
    have : (⟨dev.content, 0 + 0, 0 + (0 + Abi.EI_NIDENT)⟩ : Slice) = identWindow dev.content := by
      unfold identWindow; simp
    rw [this, he]
    exact ⟨_, rfl⟩
  · -- the range [0,16) fits: the slice-side read cannot fail
    exfalso
    rw [C03.getBytes_eq] at g1
    have hlen : (Slice.ofArray dev.content).len = dev.content.size := by simp [Slice.ofArray, Slice.len]
    rw [hlen] at g1
    have : Abi.EI_NIDENT ≤ dev.content.size := by simp [Abi.EI_NIDENT]; omega
    simp [this] at g1

theorem open_stream_too_short (sp : Spec) (dev : Device) (hl : Legal dev.sched) (h16 : dev.content.size < 16) :
    ∃ d, openStream sp dev = (.err (.BadOffset 16), d) := by
  obtain ⟨cr, d0, hnew, hinv0⟩ := new_legal dev hl
  unfold openStream
  rw [hnew]
  simp only
  obtain ⟨_, hno⟩ := readBytes_legal cr dev.content 0 Abi.EI_NIDENT hinv0 (by simp [Abi.EI_NIDENT])
  obtain ⟨r', h1, _⟩ := hno (by simp [Abi.EI_NIDENT]; omega)
  rw [h1]
  simp only [rbind, Abi.EI_NIDENT]
  exact ⟨_, rfl⟩

end Elf
