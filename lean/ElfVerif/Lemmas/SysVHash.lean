/-
  Lemmas/SysVHash.lean — the crate's `sysv_hash` equals the gABI `elf_hash` (32-bit form).

  Crate:      h = h*16 + c (wrapping); h ^= (h >> 24) & 0xf0;          … finally h & 0x0fffffff
  gABI:       h = (h << 4) + c; if (g = h & 0xf0000000) h ^= g >> 24; h &= ~g;
  Invariant:  the reference state is the crate state modulo 2^28 (the crate does not clear the top
              nibble each round, the reference does; the top nibble never feeds back below bit 4 of
              the next round except through the same `(h >> 24) & 0xf0` term).
-/
import ElfVerif.Model.Hash
namespace Elf

/-- One round of the gABI reference on a 32-bit `unsigned long`. -/
def elfHashStep (h c : Nat) : Nat :=
  let h1 := (h * 16 + c) % M32
  let g := h1 &&& 0xf0000000
  let h2 := if g ≠ 0 then h1 ^^^ (g >>> 24) else h1
  h2 &&& (0xffffffff - g)

def elfHashAux (name : Slice) : Nat → Nat → Nat → Nat
  | _, 0, h => h
  | i, n + 1, h => elfHashAux name (i + 1) n (elfHashStep h (name.byte i))

/-- The gABI `elf_hash` of the bytes of `name`. -/
def elfHash (name : Slice) : Nat := elfHashAux name 0 name.len 0

/-- decomposition of a 32-bit word into top nibble and low 28 bits -/
theorem split28 (x : Nat) : x = (x / 2 ^ 28) * 2 ^ 28 + x % 2 ^ 28 := by
  have := Nat.div_add_mod x (2 ^ 28); omega

theorem nibble_and_compl (t : Nat) (ht : t < 16) : t &&& (15 - t) = 0 := by
  have : ∀ t : Fin 16, t.val &&& (15 - t.val) = 0 := by decide
  exact this ⟨t, ht⟩

/-- `(x >> 24) & 0xf0` is the top nibble moved to bits 4..7 -/
theorem top_nibble_term (x : Nat) (hx : x < 2 ^ 32) : (x >>> 24) &&& 0xf0 = (x / 2 ^ 28) * 16 := by
  rw [Nat.shiftRight_eq_div_pow]
  have hy : x / 2 ^ 24 < 256 := by omega
  have h1 : (x / 2 ^ 24 &&& 0xf0) / 2 ^ 4 = x / 2 ^ 28 := by
    rw [Nat.and_div_two_pow]
    have : (0xf0 : Nat) / 2 ^ 4 = 2 ^ 4 - 1 := by decide
    rw [this, Nat.and_two_pow_sub_one_of_lt_two_pow (by omega)]
    omega
  have h2 : (x / 2 ^ 24 &&& 0xf0) % 2 ^ 4 = 0 := by
    rw [Nat.and_mod_two_pow]
    have : (0xf0 : Nat) % 2 ^ 4 = 0 := by decide
    rw [this]; simp
  have := Nat.div_add_mod (x / 2 ^ 24 &&& 0xf0) (2 ^ 4)
  omega

theorem and_top_mask (x : Nat) (hx : x < 2 ^ 32) : x &&& 0xf0000000 = (x / 2 ^ 28) * 2 ^ 28 := by
  have h1 : (x &&& 0xf0000000) / 2 ^ 28 = x / 2 ^ 28 := by
    rw [Nat.and_div_two_pow]
    have : (0xf0000000 : Nat) / 2 ^ 28 = 2 ^ 4 - 1 := by decide
    rw [this, Nat.and_two_pow_sub_one_of_lt_two_pow (by omega)]
  have h2 : (x &&& 0xf0000000) % 2 ^ 28 = 0 := by
    rw [Nat.and_mod_two_pow]
    have : (0xf0000000 : Nat) % 2 ^ 28 = 0 := by decide
    rw [this]; simp
  have := Nat.div_add_mod (x &&& 0xf0000000) (2 ^ 28)
  omega

/-- xor with a value below 2^8 leaves everything from bit 8 up alone -/
theorem xor_small (x s : Nat) (hs : s < 2 ^ 8) :
    (x ^^^ s) / 2 ^ 28 = x / 2 ^ 28 ∧ (x ^^^ s) % 2 ^ 28 = (x % 2 ^ 28) ^^^ s := by
  constructor
  · rw [Nat.xor_div_two_pow]
    have : s / 2 ^ 28 = 0 := by omega
    rw [this]; simp
  · rw [Nat.xor_mod_two_pow]
    have : s % 2 ^ 28 = s := by omega
    rw [this]

theorem xor_lt28 (l s : Nat) (hl : l < 2 ^ 28) (hs : s < 2 ^ 8) : l ^^^ s < 2 ^ 28 :=
  Nat.xor_lt_two_pow hl (by omega)

/-- clearing the top nibble with `h &= ~g` -/
theorem and_not_top (t m : Nat) (ht : t < 16) (hm : m < 2 ^ 28) :
    (t * 2 ^ 28 + m) &&& (0xffffffff - t * 2 ^ 28) = m := by
  have p28 : (2 : Nat) ^ 28 = 268435456 := by decide
  have hm' : m < 268435456 := by rw [← p28]; exact hm
  have hmask : 0xffffffff - t * 2 ^ 28 = (15 - t) * 2 ^ 28 + 268435455 := by rw [p28]; omega
  rw [hmask]
  have h1 : ((t * 2 ^ 28 + m) &&& ((15 - t) * 2 ^ 28 + 268435455)) / 2 ^ 28 = 0 := by
    rw [Nat.and_div_two_pow]
    have e1 : (t * 2 ^ 28 + m) / 2 ^ 28 = t := by rw [p28]; omega
    have e2 : ((15 - t) * 2 ^ 28 + 268435455) / 2 ^ 28 = 15 - t := by
      rw [Nat.add_comm, Nat.add_mul_div_right _ _ (by decide : 0 < 2 ^ 28), Nat.div_eq_of_lt (by decide), Nat.zero_add]
    rw [e1, e2]; exact nibble_and_compl t ht
  have h2 : ((t * 2 ^ 28 + m) &&& ((15 - t) * 2 ^ 28 + 268435455)) % 2 ^ 28 = m := by
    rw [Nat.and_mod_two_pow]
    have e1 : (t * 2 ^ 28 + m) % 2 ^ 28 = m := by rw [p28]; omega
    have e2 : ((15 - t) * 2 ^ 28 + 268435455) % 2 ^ 28 = 2 ^ 28 - 1 := by
      rw [Nat.add_comm, Nat.add_mul_mod_self_right]
    rw [e1, e2]; exact Nat.and_two_pow_sub_one_of_lt_two_pow hm
  have := Nat.div_add_mod ((t * 2 ^ 28 + m) &&& ((15 - t) * 2 ^ 28 + 268435455)) (2 ^ 28)
  rw [h1, h2] at this
  omega

/-- the gABI round on the freshly shifted-and-added word -/
def elfRound (x : Nat) : Nat :=
  let g := x &&& 0xf0000000
  (if g ≠ 0 then x ^^^ (g >>> 24) else x) &&& (0xffffffff - g)

/-- the crate's round on the same word -/
def sysvRound (x : Nat) : Nat := x ^^^ ((x >>> 24) &&& 0xf0)

theorem elfHashStep_eq (h c : Nat) : elfHashStep h c = elfRound ((h * 16 + c) % M32) := rfl
theorem sysvStep_eq (h c : Nat) : sysvStep h c = sysvRound ((h * 16 % M32 + c) % M32) := rfl

set_option maxRecDepth 4096 in
theorem round_invariant (x : Nat) (hx32 : x < 2 ^ 32) :
    sysvRound x < 2 ^ 32 ∧ elfRound x = sysvRound x % 2 ^ 28 := by
  unfold sysvRound elfRound
  have ht : x / 2 ^ 28 < 16 := by omega
  have hterm := top_nibble_term x hx32
  have hmask := and_top_mask x hx32
  have hs8 : x / 2 ^ 28 * 16 < 2 ^ 8 := by omega
  obtain ⟨hd, hm⟩ := xor_small x (x / 2 ^ 28 * 16) hs8
  have hl : x % 2 ^ 28 < 2 ^ 28 := Nat.mod_lt _ (by decide)
  have hlt := xor_lt28 (x % 2 ^ 28) (x / 2 ^ 28 * 16) hl hs8
  simp only
  rw [hterm, hmask]
  constructor
  · have := Nat.div_add_mod (x ^^^ x / 2 ^ 28 * 16) (2 ^ 28)
    omega
  · rw [hm]
    have hshift : (x / 2 ^ 28 * 2 ^ 28) >>> 24 = x / 2 ^ 28 * 16 := by
      rw [Nat.shiftRight_eq_div_pow]; omega
    by_cases hg : x / 2 ^ 28 * 2 ^ 28 ≠ 0
    · simp only [hg, if_true, hshift, ne_eq, not_false_eq_true]
      have hdecomp : x ^^^ x / 2 ^ 28 * 16 = x / 2 ^ 28 * 2 ^ 28 + (x % 2 ^ 28 ^^^ x / 2 ^ 28 * 16) := by
        have := Nat.div_add_mod (x ^^^ x / 2 ^ 28 * 16) (2 ^ 28)
        omega
      rw [hdecomp]
      exact and_not_top _ _ ht hlt
    · have ht0 : x / 2 ^ 28 = 0 := by omega
      simp only [ht0, Nat.zero_mul, ne_eq, not_true_eq_false, if_false, Nat.sub_zero, Nat.xor_zero]
      have : x < 2 ^ 28 := by omega
      have e : (0xffffffff : Nat) = 2 ^ 32 - 1 := by decide
      rw [e, Nat.and_two_pow_sub_one_of_lt_two_pow hx32]
      omega

/-- **Round lemma**: if the reference state is the crate state mod 2^28, it still is after one
    more byte. -/
theorem sysv_step_invariant (H c : Nat) (_hH : H < M32) (_hc : c < 256) :
    sysvStep H c < M32 ∧ elfHashStep (H % 2 ^ 28) c = sysvStep H c % 2 ^ 28 := by
  rw [elfHashStep_eq, sysvStep_eq]
  have hsame : ((H % 2 ^ 28) * 16 + c) % M32 = (H * 16 % M32 + c) % M32 := by
    simp only [M32]; omega
  rw [hsame]
  have hx : (H * 16 % M32 + c) % M32 < 2 ^ 32 := by simp only [M32]; omega
  have := round_invariant _ hx
  simp only [M32] at *
  exact this

theorem sysv_aux_invariant (name : Slice) (i n H : Nat) (hH : H < M32) :
    sysvHashAux name i n H < M32 ∧
    elfHashAux name i n (H % 2 ^ 28) = sysvHashAux name i n H % 2 ^ 28 := by
  induction n generalizing i H with
  | zero => exact ⟨hH, rfl⟩
  | succ n ih =>
    have hb : name.byte i < 256 := by unfold Slice.byte; exact UInt8.toNat_lt _
    obtain ⟨h1, h2⟩ := sysv_step_invariant H (name.byte i) hH hb
    simp only [sysvHashAux, elfHashAux]
    rw [h2]
    exact ih (i + 1) (sysvStep H (name.byte i)) h1

/-- **The exported SysV hash function equals the gABI `elf_hash` reference, for every byte string.** -/
theorem sysv_hash_eq_elf_hash (name : Slice) : sysvHash name = elfHash name := by
  unfold sysvHash elfHash
  obtain ⟨h1, h2⟩ := sysv_aux_invariant name 0 name.len 0 (by decide)
  simp only [Nat.zero_mod] at h2
  rw [h2, show (0xfffffff : Nat) = 2 ^ 28 - 1 from rfl, Nat.and_two_pow_sub_one_eq_mod]

end Elf
