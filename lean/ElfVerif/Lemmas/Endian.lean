/-
  Lemmas/Endian.lean — facts about `decodeLE/BE`, `readN`, `readTy`.
-/
import ElfVerif.Model.Endian
namespace Elf

theorem Slice.byte_lt (s : Slice) (i : Nat) : s.byte i < 256 := by
  unfold Slice.byte
  exact UInt8.toNat_lt _

theorem decodeLE_lt (s : Slice) (off w : Nat) : decodeLE s off w < 256 ^ w := by
  induction w generalizing off with
  | zero => simp [decodeLE]
  | succ w ih =>
    have h1 := s.byte_lt off
    have h2 := ih (off + 1)
    simp only [decodeLE, Nat.pow_succ]
    omega

theorem decodeBE_lt (s : Slice) (off w : Nat) : decodeBE s off w < 256 ^ w := by
  induction w generalizing off with
  | zero => simp [decodeBE]
  | succ w ih =>
    have h1 := s.byte_lt off
    have h2 := ih (off + 1)
    simp only [decodeBE, Nat.pow_succ]
    have : s.byte off * 256 ^ w ≤ 255 * 256 ^ w := Nat.mul_le_mul_right _ (by omega)
    omega

theorem decode_lt (le : Bool) (s : Slice) (off w : Nat) : decode le s off w < 256 ^ w := by
  unfold decode; split
  · exact decodeLE_lt s off w
  · exact decodeBE_lt s off w

/-- Base-256 digit `i` of the little-endian value is byte `off + i`. -/
theorem decodeLE_digit (s : Slice) (off w i : Nat) (hi : i < w) :
    decodeLE s off w / 256 ^ i % 256 = s.byte (off + i) := by
  induction w generalizing off i with
  | zero => omega
  | succ w ih =>
    have hb := s.byte_lt off
    cases i with
    | zero =>
      simp only [decodeLE, Nat.pow_zero, Nat.div_one, Nat.add_zero]
      omega
    | succ j =>
      have := ih (off + 1) j (by omega)
      simp only [decodeLE, Nat.pow_succ]
      rw [Nat.mul_comm (256 ^ j) 256, ← Nat.div_div_eq_div_mul]
      have h3 : (s.byte off + 256 * decodeLE s (off + 1) w) / 256 = decodeLE s (off + 1) w := by omega
      rw [h3, this]
      congr 1; omega

/-- Base-256 digit `w-1-i` of the big-endian value is byte `off + i`. -/
theorem decodeBE_digit (s : Slice) (off w i : Nat) (hi : i < w) :
    decodeBE s off w / 256 ^ (w - 1 - i) % 256 = s.byte (off + i) := by
  induction w generalizing off i with
  | zero => omega
  | succ w ih =>
    have hb := s.byte_lt off
    have hlt := decodeBE_lt s (off + 1) w
    cases i with
    | zero =>
      simp only [decodeBE, Nat.add_sub_cancel, Nat.sub_zero, Nat.add_zero]
      have hpos : 0 < 256 ^ w := Nat.pow_pos (by omega)
      rw [Nat.add_comm, Nat.add_mul_div_right _ _ hpos, Nat.div_eq_of_lt hlt]
      simp; omega
    | succ j =>
      have := ih (off + 1) j (by omega)
      simp only [decodeBE]
      have e1 : w + 1 - 1 - (j + 1) = w - 1 - j := by omega
      rw [e1]
      have hjw : j < w := by omega
      -- 256^w = 256^(w-1-j) * 256^(j+1)
      have hsplit : 256 ^ w = 256 ^ (w - 1 - j) * 256 ^ (j + 1) := by
        rw [← Nat.pow_add]; congr 1; omega
      have hpos : 0 < 256 ^ (w - 1 - j) := Nat.pow_pos (by omega)
      rw [hsplit, ← Nat.mul_assoc, Nat.mul_comm (s.byte off) _, Nat.mul_assoc,
          Nat.mul_add_div hpos]
      rw [Nat.add_mod, Nat.pow_succ, ← Nat.mul_assoc, Nat.mul_mod_left, Nat.zero_add, Nat.mod_mod, this]
      congr 1; omega

/-- A number below `256^w` is determined by its `w` base-256 digits. -/
theorem eq_of_digits (w a b : Nat) (ha : a < 256 ^ w) (hb : b < 256 ^ w)
    (h : ∀ i, i < w → a / 256 ^ i % 256 = b / 256 ^ i % 256) : a = b := by
  induction w generalizing a b with
  | zero => simp at ha hb; omega
  | succ w ih =>
    have h0 := h 0 (by omega)
    simp at h0
    have hq : a / 256 = b / 256 := by
      apply ih
      · rw [Nat.pow_succ] at ha; omega
      · rw [Nat.pow_succ] at hb; omega
      · intro i hi
        have := h (i + 1) (by omega)
        rw [Nat.pow_succ, Nat.mul_comm, ← Nat.div_div_eq_div_mul, ← Nat.div_div_eq_div_mul] at this
        exact this
    omega

theorem checkedAdd_some (a b c : Nat) : checkedAdd a b = some c ↔ a + b < USZ ∧ c = a + b := by
  unfold checkedAdd; split <;> simp_all <;> omega

theorem checkedAdd_none (a b : Nat) : checkedAdd a b = none ↔ USZ ≤ a + b := by
  unfold checkedAdd; split <;> simp_all <;> omega

theorem readN_ok (le : Bool) (w : Nat) (d : Slice) (off : Nat)
    (h1 : off + w < USZ) (h2 : off + w ≤ d.len) :
    readN le w d off = (.ok (decode le d off w), off + w) := by
  unfold readN checkedAdd Slice.get?
  simp [h1, h2]

theorem readN_overflow (le : Bool) (w : Nat) (d : Slice) (off : Nat) (h1 : USZ ≤ off + w) :
    readN le w d off = (.err .IntegerOverflow, off) := by
  unfold readN checkedAdd
  have : ¬ off + w < USZ := by omega
  simp [this]

theorem readN_short (le : Bool) (w : Nat) (d : Slice) (off : Nat)
    (h1 : off + w < USZ) (h2 : d.len < off + w) :
    readN le w d off = (.err (.SliceReadError off (off + w)), off) := by
  unfold readN checkedAdd Slice.get?
  have : ¬ off + w ≤ d.len := by omega
  simp [h1, this]

/-- The three cases are exhaustive: the outcome of a read is fully determined. -/
theorem readN_cases (le : Bool) (w : Nat) (d : Slice) (off : Nat) :
    (off + w < USZ ∧ off + w ≤ d.len ∧ readN le w d off = (.ok (decode le d off w), off + w)) ∨
    (USZ ≤ off + w ∧ readN le w d off = (.err .IntegerOverflow, off)) ∨
    (off + w < USZ ∧ d.len < off + w ∧
      readN le w d off = (.err (.SliceReadError off (off + w)), off)) := by
  by_cases h1 : off + w < USZ
  · by_cases h2 : off + w ≤ d.len
    · exact Or.inl ⟨h1, h2, readN_ok le w d off h1 h2⟩
    · exact Or.inr (Or.inr ⟨h1, by omega, readN_short le w d off h1 (by omega)⟩)
  · exact Or.inr (Or.inl ⟨by omega, readN_overflow le w d off (by omega)⟩)

theorem readN_ne_panic (le : Bool) (w : Nat) (d : Slice) (off : Nat) :
    (readN le w d off).1 ≠ .panic := by
  rcases readN_cases le w d off with ⟨_, _, h⟩ | ⟨_, h⟩ | ⟨_, _, h⟩ <;> simp [h]

theorem readTy_ne_panic (le : Bool) (t : Ty) (d : Slice) (off : Nat) :
    (readTy le t d off).1 ≠ .panic := by
  unfold readTy
  rcases readN_cases le t.width d off with ⟨_, _, h⟩ | ⟨_, h⟩ | ⟨_, _, h⟩ <;> simp [h]

/-- What a `readTy` evaluates to, in the three cases. -/
theorem readTy_ok (le : Bool) (t : Ty) (d : Slice) (off : Nat)
    (h1 : off + t.width < USZ) (h2 : off + t.width ≤ d.len) :
    readTy le t d off =
      (.ok (if t.signed then toSigned t.width (decode le d off t.width)
            else (decode le d off t.width : Int)), off + t.width) := by
  unfold readTy; rw [readN_ok le _ d off h1 h2]

theorem readTy_overflow (le : Bool) (t : Ty) (d : Slice) (off : Nat) (h1 : USZ ≤ off + t.width) :
    readTy le t d off = (.err .IntegerOverflow, off) := by
  unfold readTy; rw [readN_overflow le _ d off h1]

theorem readTy_short (le : Bool) (t : Ty) (d : Slice) (off : Nat)
    (h1 : off + t.width < USZ) (h2 : d.len < off + t.width) :
    readTy le t d off = (.err (.SliceReadError off (off + t.width)), off) := by
  unfold readTy; rw [readN_short le _ d off h1 h2]

theorem Ty.width_pos (t : Ty) : 0 < t.width := by cases t <;> decide
theorem Ty.width_le (t : Ty) : t.width ≤ 8 := by cases t <;> decide

end Elf
