/-
  Lemmas/TableList.lean — a lazy table of a regular entry kind and the list of its entries.

  `Lists t l`: `l` is what draining the table's iterator yields.  Then `get`, `next`, `find` and
  the fuel-driven scans over the iterator are the corresponding list operations on `l`.  This is
  the bridge between the slice parser (lazy `ParsingTable`s) and the stream parser (`Vec`s of
  parsed headers).
-/
import ElfVerif.Props.C09
import ElfVerif.Lemmas.NoPanic
import ElfVerif.Model.Stream
namespace Elf
open C09
variable {α : Type}

/-- the iterator of `t` positioned at entry `k` -/
def Table.iterAt (t : Table α) (k : Nat) : Iter α := ⟨t.ep, t.little, t.cls, t.data, k * t.ep.size t.cls⟩

theorem Table.iterAt_zero (t : Table α) : t.iterAt 0 = t.iter := by
  unfold Table.iterAt Table.iter; simp

structure Lists (t : Table α) (l : List α) : Prop where
  len : l.length = t.len
  step : ∀ k (hk : k < l.length), (t.iterAt k).next = (.ok (some l[k]), t.iterAt (k + 1))
  stop : ∃ it', (t.iterAt l.length).next = (.ok none, it')
  get : ∀ k (hk : k < l.length), t.get k = .ok l[k]
  beyond : ∀ k, l.length ≤ k → ∃ e, t.get k = .err e

theorem next_end (t : Table α) (hr : Regular t.ep t.cls) (k : Nat) (hk : t.len ≤ k) :
    ∃ it', (t.iterAt k).next = (.ok none, it') := by
  have hs := hr.sizePos
  have hnofit : ¬ (k * t.ep.size t.cls + t.ep.size t.cls ≤ t.data.len) := by
    rw [fits_iff _ _ _ hs]; show ¬ k < t.data.len / t.ep.size t.cls
    have : t.len = t.data.len / t.ep.size t.cls := rfl
    omega
  unfold Table.iterAt Iter.next
  by_cases hE : t.data.isEmpty
  · simp [hE]
  · simp only [hE]
    have hnone : ¬ ∃ a, (t.ep.parse t.little t.cls t.data (k * t.ep.size t.cls)).1 = .ok a := by
      rw [EntryParser.parse_ok_iff t.ep hr.total t.little t.cls hr.noGuard hr.nonEmpty, ← hr.sizeEq]
      intro h; exact hnofit h.1
    have hnp := EntryParser.parse_no_panic t.ep hr.total t.little t.cls t.data (k * t.ep.size t.cls)
    generalize t.ep.parse t.little t.cls t.data (k * t.ep.size t.cls) = q at hnone hnp
    obtain ⟨q1, q2⟩ := q
    cases q1 with
    | ok a => exact absurd ⟨a, rfl⟩ hnone
    | panic => simp at hnp
    | err e => exact ⟨_, rfl⟩

theorem gets_getElem? (t : Table α) (k n i : Nat) (hi : i < n) : (gets t k n)[i]? = some (t.get (k + i)) := by
  induction n generalizing k i with
  | zero => omega
  | succ n ih =>
    cases i with
    | zero => simp [gets]
    | succ i =>
      simp only [gets, List.getElem?_cons_succ]
      rw [ih (k + 1) i (by omega)]
      congr 2; omega

/-- **Draining a regular table yields the list of its `get`s, and the iterator walks that list.** -/
theorem lists_of_collect (t : Table α) (hr : Regular t.ep t.cls) (hwf : t.data.len < 2 ^ 63) (l : List α)
    (h : t.iter.collect.1 = .ok l) : Lists t l := by
  obtain ⟨items, h1, h2, h3⟩ := collect_eq_gets t hr hwf
  rw [h] at h1; injection h1 with h1; subst h1
  have hget : ∀ k (hk : k < l.length), t.get k = .ok l[k] := by
    intro k hk
    have e1 : (l.map Out.ok)[k]? = (gets t 0 t.len)[k]? := by rw [h3]
    rw [gets_getElem? t 0 t.len k (by omega)] at e1
    simp only [List.getElem?_map, Nat.zero_add] at e1
    rw [List.getElem?_eq_getElem hk] at e1
    simp only [Option.map_some] at e1
    injection e1 with e1
    exact e1.symm
  refine ⟨h2, ?_, ?_, hget, ?_⟩
  · intro k hk
    obtain ⟨a, ha, hn⟩ := next_at t hr hwf k (by omega)
    rw [hget k hk] at ha; injection ha with ha; subst ha
    exact hn
  · exact next_end t hr l.length (by omega)
  · intro k hk
    have hno : ¬ ∃ a, t.get k = .ok a := by rw [get_ok_iff t hr hwf]; omega
    have hnp := Table.get_ne_panic t hr.total k
    cases hg : t.get k with
    | ok a => exact absurd ⟨a, hg⟩ hno
    | err e => exact ⟨e, rfl⟩
    | panic => exact absurd hg hnp

theorem Lists.getElem? {t : Table α} {l : List α} (h : Lists t l) (k : Nat) :
    (∃ a, l[k]? = some a ∧ t.get k = .ok a) ∨ (l[k]? = none ∧ ∃ e, t.get k = .err e) := by
  by_cases hk : k < l.length
  · exact Or.inl ⟨l[k], List.getElem?_eq_getElem hk, h.get k hk⟩
  · exact Or.inr ⟨by simp; omega, h.beyond k (by omega)⟩

theorem Lists.findFuel {t : Table α} {l : List α} (h : Lists t l) (p : α → Bool) (n k fuel : Nat)
    (hk : k + n = l.length) (hf : n < fuel) :
    Iter.findFuel p fuel (t.iterAt k) = .ok ((l.drop k).find? p) := by
  induction n generalizing k fuel with
  | zero =>
    cases fuel with
    | zero => omega
    | succ fuel =>
      have : k = l.length := by omega
      subst this
      obtain ⟨it', hs⟩ := h.stop
      unfold Iter.findFuel; rw [hs]; simp
  | succ n ih =>
    cases fuel with
    | zero => omega
    | succ fuel =>
      have hkl : k < l.length := by omega
      unfold Iter.findFuel
      rw [h.step k hkl, List.drop_eq_getElem_cons hkl]
      simp only [List.find?_cons]
      cases p l[k] with
      | true => rfl
      | false => exact ih (k + 1) fuel (by omega) (by omega)

/-- `iter().find(p)` on the table = `find` on the list -/
theorem Lists.find {t : Table α} {l : List α} (h : Lists t l) (p : α → Bool) :
    t.iter.find p = .ok (l.find? p) := by
  unfold Iter.find
  have hle : t.len ≤ t.data.len := Nat.div_le_self _ _
  have := h.findFuel p l.length 0 (t.iter.data.len + 1) (by omega) (by
    have : t.iter.data = t.data := rfl
    rw [this, h.len]; omega)
  rw [Table.iterAt_zero] at this
  rw [this]; simp

theorem Lists.verScan {t : Table SectionHeader} {l : List SectionHeader} (h : Lists t l)
    (n k fuel : Nat) (vs nd df : Option SectionHeader) (hk : k + n = l.length) (hf : n < fuel) :
    ElfBytes.verScan fuel (t.iterAt k) vs nd df = .ok (ElfStream.verScanList (l.drop k) vs nd df) := by
  induction n generalizing k fuel vs nd df with
  | zero =>
    cases fuel with
    | zero => omega
    | succ fuel =>
      have : k = l.length := by omega
      subst this
      obtain ⟨it', hs⟩ := h.stop
      unfold ElfBytes.verScan; rw [hs]; simp [ElfStream.verScanList]
  | succ n ih =>
    cases fuel with
    | zero => omega
    | succ fuel =>
      have hkl : k < l.length := by omega
      unfold ElfBytes.verScan
      rw [h.step k hkl, List.drop_eq_getElem_cons hkl]
      simp only [ElfStream.verScanList]
      split
      · rfl
      · exact ih (k + 1) fuel _ _ _ (by omega) (by omega)

end Elf
