/-
  Lemmas/Stream.lean — the device, `read_exact` and the caching reader.
-/
import ElfVerif.Model.Stream
import ElfVerif.Lemmas.NoPanic
namespace Elf

/-- The part of a device that I/O calls never change. -/
theorem Device.nextFault_content (d : Device) : d.nextFault.2.content = d.content ∧
    d.nextFault.2.pos = d.pos ∧ d.nextFault.2.trace = d.trace := by
  unfold Device.nextFault; cases d.sched <;> simp

theorem Device.nextFault_eq (d : Device) (f : Fault) (d1 : Device) (h : d.nextFault = (f, d1)) :
    d1.content = d.content ∧ d1.pos = d.pos ∧ d1.trace = d.trace := by
  have := d.nextFault_content; rw [h] at this; exact this

theorem Device.read_content (d : Device) (n : Nat) : (d.read n).2.content = d.content := by
  unfold Device.read
  generalize hq : d.nextFault = r
  obtain ⟨f, d1⟩ := r
  have hc := d.nextFault_eq f d1 hq
  cases f <;> simp [hc.1]

/-- a successful `read` delivers `k ≤ want` consecutive bytes and advances by `k` -/
theorem Device.read_got (d : Device) (n k : Nat) (d' : Device) (h : d.read n = (.got k, d')) :
    d'.pos = d.pos + k ∧ k ≤ n ∧ d.pos + k ≤ max d.pos d.content.size := by
  unfold Device.read at h
  generalize hq : d.nextFault = r at h
  obtain ⟨f, d1⟩ := r
  obtain ⟨h1, h2, _⟩ := d.nextFault_eq f d1 hq
  cases f <;> simp at h <;> (obtain ⟨ha, hb⟩ := h; subst ha; rw [← hb]; simp only [h1, h2]; refine ⟨by simp, by omega, by omega⟩)

theorem Device.readExact_ok (fuel : Nat) (d : Device) (n : Nat) (d' : Device)
    (h : Device.readExact fuel d n = (.ok (), d')) :
    d'.content = d.content ∧ d'.pos = d.pos + n ∧ (n > 0 → d.pos + n ≤ d.content.size) := by
  induction fuel generalizing d n with
  | zero =>
    unfold Device.readExact at h
    split at h
    · rename_i h0; simp at h; subst h; subst h0; simp
    · simp at h
  | succ f ih =>
    unfold Device.readExact at h
    split at h
    · rename_i h0; simp at h; subst h; subst h0; simp
    · rename_i hn
      have hcont := d.read_content n
      generalize hr : d.read n = r at h hcont
      obtain ⟨r1, d1⟩ := r
      cases r1 with
      | got k =>
        cases k with
        | zero => simp at h
        | succ k =>
          simp only at h
          have hg := d.read_got n (k + 1) d1 hr
          obtain ⟨i1, i2, i3⟩ := ih d1 (n - (k + 1)) h
          simp only at hcont
          refine ⟨by rw [i1, hcont], by rw [i2, hg.1]; omega, fun _ => ?_⟩
          by_cases hrem : n - (k + 1) > 0
          · have := i3 hrem; rw [hcont, hg.1] at this; omega
          · have : n = k + 1 := by omega
            have := hg.2.2
            omega
      | interrupted =>
        simp only at h
        obtain ⟨i1, i2, i3⟩ := ih d1 n h
        have hp : d1.pos = d.pos := by
          unfold Device.read at hr
          generalize hq : d.nextFault = q at hr
          obtain ⟨f, d2⟩ := q
          have hc := d.nextFault_eq f d2 hq
          cases f <;> simp at hr
          rw [← hr]; exact hc.2.1
        simp only at hcont
        refine ⟨by rw [i1, hcont], by rw [i2, hp], fun hh => ?_⟩
        have := i3 hh; rw [hcont, hp] at this; exact this
      | error => simp at h

/-- A hard fault at the head of the schedule makes `read_exact` fail (never fabricates data). -/
theorem Device.readExact_fail_head (fuel : Nat) (d : Device) (n : Nat) (rest : List Fault) (hn : 0 < n)
    (hs : d.sched = .fail :: rest ∨ d.sched = .eof :: rest) :
    (Device.readExact (fuel + 1) d n).1 = .err .IOError := by
  unfold Device.readExact
  have : ¬ n = 0 := by omega
  simp only [this, if_false]
  unfold Device.read Device.nextFault
  rcases hs with hs | hs <;> simp [hs]

theorem Device.seekTo_fail (d : Device) (p : Nat) (rest : List Fault) (hs : d.sched = .fail :: rest) :
    (d.seekTo p).1 = .err .IOError := by
  unfold Device.seekTo Device.nextFault; simp [hs]

theorem Device.seekTo_ok (d d' : Device) (p : Nat) (h : d.seekTo p = (.ok (), d')) :
    d'.pos = p ∧ d'.content = d.content := by
  unfold Device.seekTo at h
  generalize hq : d.nextFault = r at h
  obtain ⟨f, d1⟩ := r
  have hc := d.nextFault_eq f d1 hq
  cases f <;> simp at h <;> (rw [← h]; simp [hc.1])

/-- Cache invariant: every cached buffer is exactly the stream's bytes of its key range, and
    no key reaches past the end of the stream. -/
def CacheOK (r : CachingReader) : Prop :=
  r.streamLen = r.dev.content.size ∧
  ∀ kv, kv ∈ r.bufs → kv.1.2 ≤ r.streamLen ∧
    kv.2 = Slice.ofArray (r.dev.content.extract kv.1.1 (kv.1.1 + (kv.1.2 - kv.1.1)))

theorem CachingReader.lookup_some (r : CachingReader) (s e : Nat) (b : Slice) (h : r.lookup s e = some b) :
    ((s, e), b) ∈ r.bufs := by
  unfold CachingReader.lookup at h
  cases hf : r.bufs.find? (fun kv => kv.1.1 == s && kv.1.2 == e) with
  | none => simp [hf] at h
  | some kv =>
    simp [hf] at h
    have hm := List.mem_of_find?_eq_some hf
    have hp := List.find?_some hf
    simp at hp
    obtain ⟨⟨a, b'⟩, c⟩ := kv
    simp at hp h
    obtain ⟨rfl, rfl⟩ := hp
    subst h
    exact hm

/-- **The invariant is preserved by `load_bytes` under every reader schedule**: a buffer is
    inserted only after `read_exact` succeeded, and then holds the stream's own bytes. -/
theorem loadBytes_inv (r : CachingReader) (s e : Nat) (h : CacheOK r) : CacheOK (r.loadBytes s e).2 := by
  unfold CachingReader.loadBytes
  split
  · exact h
  · split
    · exact h
    · rename_i hle
      generalize hsk : r.dev.seekTo s = sk
      obtain ⟨sk1, d1⟩ := sk
      have hc1 : d1.content = r.dev.content := by
        unfold Device.seekTo at hsk
        generalize hq : r.dev.nextFault = q at hsk
        obtain ⟨f, d2⟩ := q
        have hc := r.dev.nextFault_eq f d2 hq
        cases f <;> simp at hsk <;> (rw [← hsk.2]; simp [hc.1])
      cases sk1 with
      | err er => exact ⟨by simp [h.1, hc1], fun kv hkv => by simpa [hc1] using h.2 kv hkv⟩
      | panic => exact ⟨by simp [h.1, hc1], fun kv hkv => by simpa [hc1] using h.2 kv hkv⟩
      | ok u =>
        simp only
        generalize hre : Device.readExact (e - s + d1.sched.length + 1)
          { d1 with trace := d1.trace ++ [IoEvent.alloc (e - s)] } (e - s) = re
        obtain ⟨re1, d2⟩ := re
        cases re1 with
        | err er =>
          have : d2.content = r.dev.content := by
            have := readExact_content _ _ _ _ _ hre; simpa [hc1] using this
          exact ⟨by simp [h.1, this], fun kv hkv => by simpa [this] using h.2 kv hkv⟩
        | panic =>
          have : d2.content = r.dev.content := by
            have := readExact_content _ _ _ _ _ hre; simpa [hc1] using this
          exact ⟨by simp [h.1, this], fun kv hkv => by simpa [this] using h.2 kv hkv⟩
        | ok u2 =>
          obtain ⟨k1, k2, _⟩ := Device.readExact_ok _ _ _ _ hre
          have hpos := (Device.seekTo_ok _ _ _ hsk).1
          simp only at k1 k2
          have hcont : d2.content = r.dev.content := by rw [k1, hc1]
          refine ⟨by simp [h.1, hcont], ?_⟩
          intro kv hkv
          simp only [List.mem_append, List.mem_singleton] at hkv
          rcases hkv with hkv | hkv
          · simpa [hcont] using h.2 kv hkv
          · subst hkv
            simp only [hcont, hpos]
            exact ⟨by omega, trivial⟩
where
  readExact_content (fuel : Nat) (d : Device) (n : Nat) (o : Out Unit) (d' : Device)
      (h : Device.readExact fuel d n = (o, d')) : d'.content = d.content := by
    induction fuel generalizing d n with
    | zero => unfold Device.readExact at h; split at h <;> (simp at h; rw [← h.2])
    | succ f ih =>
      unfold Device.readExact at h
      split at h
      · simp at h; rw [← h.2]
      · have hcont := d.read_content n
        generalize d.read n = q at h hcont
        obtain ⟨q1, d1⟩ := q
        cases q1 with
        | got k =>
          cases k with
          | zero => simp at h; rw [← h.2]; exact hcont
          | succ k => simp only at h; rw [ih _ _ h]; exact hcont
        | interrupted => simp only at h; rw [ih _ _ h]; exact hcont
        | error => simp at h; rw [← h.2]; exact hcont

theorem Device.seekTo_ne_panic (d : Device) (p : Nat) : (d.seekTo p).1 ≠ .panic := by
  unfold Device.seekTo
  generalize d.nextFault = r
  obtain ⟨f, d1⟩ := r
  cases f <;> simp

theorem Device.seekEnd_ne_panic (d : Device) : d.seekEnd.1 ≠ .panic := by
  unfold Device.seekEnd
  generalize d.nextFault = r
  obtain ⟨f, d1⟩ := r
  cases f <;> simp

theorem Device.readExact_ne_panic (fuel : Nat) (d : Device) (n : Nat) :
    (Device.readExact fuel d n).1 ≠ .panic := by
  induction fuel generalizing d n with
  | zero => unfold Device.readExact; split <;> simp
  | succ f ih =>
    unfold Device.readExact
    split
    · simp
    · generalize d.read n = q
      obtain ⟨q1, d1⟩ := q
      cases q1 with
      | got k => cases k <;> simp [ih]
      | interrupted => simp [ih]
      | error => simp

/-- after `load_bytes` returned Ok the key is in the cache -/
theorem loadBytes_ok_lookup (r r' : CachingReader) (s e : Nat) (h : r.loadBytes s e = (.ok (), r')) :
    (r'.lookup s e).isSome := by
  unfold CachingReader.loadBytes at h
  split at h
  · rename_i hl; simp at h; subst h; exact hl
  · split at h
    · simp at h
    · generalize r.dev.seekTo s = sk at h
      obtain ⟨sk1, d1⟩ := sk
      cases sk1 with
      | err er => simp at h
      | panic => simp at h
      | ok u =>
        simp only at h
        generalize Device.readExact (e - s + d1.sched.length + 1)
          { d1 with trace := d1.trace ++ [IoEvent.alloc (e - s)] } (e - s) = re at h
        obtain ⟨re1, d2⟩ := re
        cases re1 with
        | err er => simp at h
        | panic => simp at h
        | ok u2 =>
          simp at h; subst h
          unfold CachingReader.lookup
          simp only [List.find?_append]
          cases hf : r.bufs.find? (fun kv => kv.1.1 == s && kv.1.2 == e) with
          | some x => simp
          | none => simp

theorem loadBytes_ne_panic (r : CachingReader) (s e : Nat) : (r.loadBytes s e).1 ≠ .panic := by
  unfold CachingReader.loadBytes
  split
  · simp
  · split
    · simp
    · have h1 := r.dev.seekTo_ne_panic s
      generalize r.dev.seekTo s = sk at h1
      obtain ⟨sk1, d1⟩ := sk
      cases sk1 with
      | err er => simp
      | panic => simp at h1
      | ok u =>
        simp only
        have h2 := Device.readExact_ne_panic (e - s + d1.sched.length + 1)
          { d1 with trace := d1.trace ++ [IoEvent.alloc (e - s)] } (e - s)
        generalize Device.readExact (e - s + d1.sched.length + 1)
          { d1 with trace := d1.trace ++ [IoEvent.alloc (e - s)] } (e - s) = re at h2
        obtain ⟨re1, d2⟩ := re
        cases re1 with
        | err er => simp
        | panic => simp at h2
        | ok u2 => simp

/-- `get_bytes` after a successful `load_bytes` of the same key never hits its `expect`. -/
theorem readBytes_ne_panic (r : CachingReader) (s e : Nat) : (r.readBytes s e).1 ≠ .panic := by
  unfold CachingReader.readBytes
  have hnp := loadBytes_ne_panic r s e
  generalize hl : r.loadBytes s e = l at hnp
  obtain ⟨l1, r'⟩ := l
  cases l1 with
  | err er => simp
  | panic => simp at hnp
  | ok u =>
    have := loadBytes_ok_lookup r r' s e hl
    unfold CachingReader.getBytes
    cases hlk : r'.lookup s e with
    | none => simp [hlk] at this
    | some b => simp [hlk]

/-- **Whatever `read_bytes` returns Ok is the stream's own bytes of that range** — under every
    schedule and after any history (given the invariant). -/
theorem readBytes_value (r : CachingReader) (s e : Nat) (h : CacheOK r) (b : Slice) (r' : CachingReader)
    (hb : r.readBytes s e = (.ok b, r')) :
    e ≤ r.dev.content.size ∧ b = Slice.ofArray (r.dev.content.extract s (s + (e - s))) ∧ CacheOK r' ∧
    r'.dev.content = r.dev.content := by
  unfold CachingReader.readBytes at hb
  have hinv := loadBytes_inv r s e h
  generalize hl : r.loadBytes s e = l at hb hinv
  obtain ⟨l1, r1⟩ := l
  cases l1 with
  | err er => simp at hb
  | panic => simp at hb
  | ok u =>
    simp only at hb hinv
    injection hb with hb1 hb2
    subst hb2
    unfold CachingReader.getBytes at hb1
    cases hlk : r1.lookup s e with
    | none => simp [hlk] at hb1
    | some b' =>
      simp [hlk] at hb1; subst hb1
      have hm := CachingReader.lookup_some r1 s e b' hlk
      obtain ⟨h1, h2⟩ := hinv.2 _ hm
      have hcont : r1.dev.content = r.dev.content := loadBytes_content r s e _ _ hl
      simp only at h1 h2
      refine ⟨by rw [← hcont, ← hinv.1]; exact h1, by rw [h2, hcont], hinv, hcont⟩
where
  loadBytes_content (r : CachingReader) (s e : Nat) (o : Out Unit) (r' : CachingReader)
      (h : r.loadBytes s e = (o, r')) : r'.dev.content = r.dev.content := by
    unfold CachingReader.loadBytes at h
    split at h
    · simp at h; rw [← h.2]
    · split at h
      · simp at h; rw [← h.2]
      · generalize hsk : r.dev.seekTo s = sk at h
        obtain ⟨sk1, d1⟩ := sk
        have hc1 : d1.content = r.dev.content := by
          unfold Device.seekTo at hsk
          generalize hq : r.dev.nextFault = q at hsk
          obtain ⟨f, d2⟩ := q
          have hc := r.dev.nextFault_eq f d2 hq
          cases f <;> simp at hsk <;> (rw [← hsk.2]; simp [hc.1])
        cases sk1 with
        | err er => simp at h; rw [← h.2]; exact hc1
        | panic => simp at h; rw [← h.2]; exact hc1
        | ok u =>
          simp only at h
          generalize hre : Device.readExact (e - s + d1.sched.length + 1)
            { d1 with trace := d1.trace ++ [IoEvent.alloc (e - s)] } (e - s) = re at h
          obtain ⟨re1, d2⟩ := re
          have hc2 : d2.content = r.dev.content := by
            have := loadBytes_inv.readExact_content _ _ _ _ _ hre; simpa [hc1] using this
          cases re1 <;> simp at h <;> (rw [← h.2]; exact hc2)

end Elf
