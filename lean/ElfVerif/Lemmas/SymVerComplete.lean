/-
  Lemmas/SymVerComplete.lean — completeness of the GNU symbol-version queries on well-formed
  record chains in ANY forward layout.

  `RecChain` / `AuxChain` describe what the bytes say: a chain of `count` records, each readable,
  linked by its `next` offset (non-zero except possibly on the last one), each pointing to its
  auxiliary chain by its `aux` offset — no assumption on where the records sit relative to each
  other (interleaved, headers first, gaps), only that offsets stay below 2^64.  On such chains the
  iterators yield exactly the chain, and `get_requirement` / `get_definition` return the FIRST
  record in traversal order whose index matches — `None` when none does.
-/
import ElfVerif.Model.SymVer
import ElfVerif.Lemmas.Prog
namespace Elf

/-- what `advance` does on a well-linked record: one record consumed, cursor at `off + next` -/
theorem VerIter.advance_linked (it : VerIter) (next n : Nat) (hc : it.count = n + 1)
    (hoff : it.offset + next < USZ) (hlink : n = 0 ∨ next ≠ 0) :
    it.advance next = .ok { it with offset := it.offset + next, count := n } := by
  unfold VerIter.advance checkedAdd usub
  simp only [hoff, if_true, hc]
  have h1 : (1 : Nat) ≤ n + 1 := by omega
  simp only [h1, if_true, Out.bind, Nat.add_sub_cancel]
  have : ¬ (n > 0 ∧ next = 0) := by
    rcases hlink with h | h
    · omega
    · exact fun hh => h hh.2
  simp only [this, if_false]

/-- an auxiliary chain of `count` records starting at `off` -/
inductive AuxChain {α} (ep : EntryParser α) (nextOf : α → Nat) (le : Bool) (cls : Class) (data : Slice) :
    Nat → Nat → List α → Prop
  | done (off : Nat) : AuxChain ep nextOf le cls data 0 off []
  | step (count off : Nat) (a : α) (rest : List α)
      (hp : (ep.parse le cls data off).1 = .ok a)
      (hoff : off + nextOf a < USZ)
      (hlink : count = 0 ∨ nextOf a ≠ 0)
      (hr : AuxChain ep nextOf le cls data count (off + nextOf a) rest) :
      AuxChain ep nextOf le cls data (count + 1) off (a :: rest)

theorem AuxChain.next {α} {ep : EntryParser α} {nextOf : α → Nat} {le : Bool} {cls : Class} {data : Slice}
    {count off : Nat} {a : α} {rest : List α} (hne : data.isEmpty = false)
    (h : AuxChain ep nextOf le cls data (count + 1) off (a :: rest)) :
    VerIter.nextAux ep nextOf ⟨le, cls, count + 1, data, off⟩ =
      (.ok (some a), ⟨le, cls, count, data, off + nextOf a⟩) := by
  cases h with
  | step _ _ _ _ hp hoff hlink hr =>
    unfold VerIter.nextAux
    simp only [hne, Bool.false_or]
    have hc : ((count + 1 == 0) = false) := by simp
    simp only [hc, Bool.false_eq_true, if_false, hp]
    rw [VerIter.advance_linked ⟨le, cls, count + 1, data, off⟩ (nextOf a) count rfl hoff hlink]

theorem nextAux_zero {α} (ep : EntryParser α) (nextOf : α → Nat) (le : Bool) (cls : Class) (data : Slice)
    (off : Nat) : VerIter.nextAux ep nextOf ⟨le, cls, 0, data, off⟩ = (.ok none, ⟨le, cls, 0, data, off⟩) := by
  unfold VerIter.nextAux; simp

/-- **The inner search of `get_requirement` returns the first aux record of the chain with the
    wanted index.** -/
theorem findAux_complete (idx : Nat) (le : Bool) (cls : Class) (data : Slice) (hne : data.isEmpty = false)
    (count off fuel : Nat) (auxs : List VerNeedAux)
    (h : AuxChain VerNeedAux.ep VerNeedAux.vna_next le cls data count off auxs) (hf : count < fuel) :
    findAux idx fuel ⟨le, cls, count, data, off⟩ = .ok (auxs.find? fun a => a.vna_other == idx) := by
  induction h generalizing fuel with
  | done off =>
    cases fuel with
    | zero => omega
    | succ f =>
      unfold findAux verNeedAuxNext
      rw [nextAux_zero]; simp
  | step count off a rest hp hoff hlink hr ih =>
    cases fuel with
    | zero => omega
    | succ f =>
      unfold findAux verNeedAuxNext
      rw [AuxChain.next hne (AuxChain.step count off a rest hp hoff hlink hr)]
      simp only [List.find?_cons]
      by_cases hm : a.vna_other = idx
      · simp [hm]
      · have : (a.vna_other == idx) = false := by simp [hm]
        simp only [hm, if_false, this]
        exact ih f (by omega)

/-- the names of a definition: draining the aux chain yields the chain -/
theorem drainAux_complete {α} (ep : EntryParser α) (nextOf : α → Nat) (le : Bool) (cls : Class) (data : Slice)
    (hne : data.isEmpty = false) (count off fuel : Nat) (auxs acc : List α)
    (h : AuxChain ep nextOf le cls data count off auxs) (hf : count < fuel) :
    (drainFuel (VerIter.nextAux ep nextOf) fuel ⟨le, cls, count, data, off⟩ acc).1 = .ok (acc ++ auxs) := by
  induction h generalizing fuel acc with
  | done off =>
    cases fuel with
    | zero => omega
    | succ f => unfold drainFuel; rw [nextAux_zero]; simp
  | step count off a rest hp hoff hlink hr ih =>
    cases fuel with
    | zero => omega
    | succ f =>
      unfold drainFuel
      rw [AuxChain.next hne (AuxChain.step count off a rest hp hoff hlink hr)]
      simp only
      rw [ih f (acc ++ [a]) (by omega)]
      simp

/-- a chain of `count` records, each with the state of its aux iterator -/
inductive RecChain {α} (ep : EntryParser α) (cntOf auxOf nextOf : α → Nat) (le : Bool) (cls : Class)
    (data : Slice) : Nat → Nat → List (α × VerIter) → Prop
  | done (off : Nat) : RecChain ep cntOf auxOf nextOf le cls data 0 off []
  | step (count off : Nat) (a : α) (rest : List (α × VerIter))
      (hp : (ep.parse le cls data off).1 = .ok a)
      (haux : off + auxOf a < USZ)
      (hoff : off + nextOf a < USZ)
      (hlink : count = 0 ∨ nextOf a ≠ 0)
      (hr : RecChain ep cntOf auxOf nextOf le cls data count (off + nextOf a) rest) :
      RecChain ep cntOf auxOf nextOf le cls data (count + 1) off
        ((a, ⟨le, cls, cntOf a, data, off + auxOf a⟩) :: rest)

theorem RecChain.next {α} {ep : EntryParser α} {cntOf auxOf nextOf : α → Nat} {le : Bool} {cls : Class}
    {data : Slice} {count off : Nat} {x : α × VerIter} {rest : List (α × VerIter)} (hne : data.isEmpty = false)
    (h : RecChain ep cntOf auxOf nextOf le cls data (count + 1) off (x :: rest)) :
    VerIter.nextRec ep cntOf auxOf nextOf ⟨le, cls, count + 1, data, off⟩ =
      (.ok (some x), ⟨le, cls, count, data, off + nextOf x.1⟩) := by
  cases h with
  | step _ _ a _ hp haux hoff hlink hr =>
    unfold VerIter.nextRec
    simp only [hne, Bool.false_or]
    have hc : ((count + 1 == 0) = false) := by simp
    simp only [hc, Bool.false_eq_true, if_false, hp]
    unfold uadd
    simp only [haux, if_true]
    rw [VerIter.advance_linked ⟨le, cls, count + 1, data, off⟩ (nextOf a) count rfl hoff hlink]

theorem nextRec_zero {α} (ep : EntryParser α) (cntOf auxOf nextOf : α → Nat) (le : Bool) (cls : Class)
    (data : Slice) (off : Nat) :
    VerIter.nextRec ep cntOf auxOf nextOf ⟨le, cls, 0, data, off⟩ = (.ok none, ⟨le, cls, 0, data, off⟩) := by
  unfold VerIter.nextRec; simp

/-- first definition record with the wanted index -/
def firstDef (idx : Nat) : List (VerDef × VerIter) → Option (VerDef × VerIter)
  | [] => none
  | x :: rest => if x.1.vd_ndx = idx then some x else firstDef idx rest

/-- **`get_definition`'s loop returns the first definition in traversal order whose `vd_ndx` is the
    symbol's version index, handing out that record's aux chain; `None` when there is none.** -/
theorem defLoop_complete (strs : Slice) (verNdx : Nat) (le : Bool) (cls : Class) (data : Slice)
    (hne : data.isEmpty = false) (count off fuel : Nat) (recs : List (VerDef × VerIter))
    (h : RecChain VerDef.ep VerDef.vd_cnt VerDef.vd_aux VerDef.vd_next le cls data count off recs)
    (hf : count < fuel) :
    defLoop strs verNdx fuel ⟨le, cls, count, data, off⟩ =
      .ok ((firstDef (VersionIndex.index verNdx) recs).map fun x =>
        ⟨x.1.vd_hash, x.1.vd_flags, x.2, strs, VersionIndex.isHidden verNdx⟩) := by
  induction h generalizing fuel with
  | done off =>
    cases fuel with
    | zero => omega
    | succ f => unfold defLoop verDefNext; rw [nextRec_zero]; simp [firstDef]
  | step count off a rest hp haux hoff hlink hr ih =>
    cases fuel with
    | zero => omega
    | succ f =>
      unfold defLoop verDefNext
      rw [RecChain.next hne (RecChain.step count off a rest hp haux hoff hlink hr)]
      simp only [firstDef]
      by_cases hm : a.vd_ndx = VersionIndex.index verNdx
      · simp [hm]
      · simp only [hm, ne_eq, not_false_eq_true, if_true, if_false]
        exact ih f (by omega)

/-- a Verneed chain with, for every record, the decoded aux chain -/
inductive NeedChain (le : Bool) (cls : Class) (data : Slice) : Nat → Nat → List (VerNeed × List VerNeedAux) → Prop
  | done (off : Nat) : NeedChain le cls data 0 off []
  | step (count off : Nat) (vn : VerNeed) (auxs : List VerNeedAux) (rest : List (VerNeed × List VerNeedAux))
      (hp : (VerNeed.ep.parse le cls data off).1 = .ok vn)
      (haux : off + vn.vn_aux < USZ)
      (hoff : off + vn.vn_next < USZ)
      (hlink : count = 0 ∨ vn.vn_next ≠ 0)
      (ha : AuxChain VerNeedAux.ep VerNeedAux.vna_next le cls data vn.vn_cnt (off + vn.vn_aux) auxs)
      (hr : NeedChain le cls data count (off + vn.vn_next) rest) :
      NeedChain le cls data (count + 1) off ((vn, auxs) :: rest)

/-- first (record, aux) pair in traversal order whose `vna_other` is the wanted index -/
def firstReq (idx : Nat) : List (VerNeed × List VerNeedAux) → Option (VerNeed × VerNeedAux)
  | [] => none
  | (vn, auxs) :: rest =>
    match auxs.find? (fun a => a.vna_other == idx) with
    | some vna => some (vn, vna)
    | none => firstReq idx rest

/-- **`get_requirement`'s loop returns the first auxiliary record in traversal order whose
    `vna_other` is the symbol's version index, with its Verneed record's file; `None` when no
    record matches.** -/
theorem reqLoop_complete (strs : Slice) (verNdx : Nat) (le : Bool) (cls : Class) (data : Slice)
    (hne : data.isEmpty = false) (count off fuel : Nat) (recs : List (VerNeed × List VerNeedAux))
    (h : NeedChain le cls data count off recs) (hf : count < fuel) :
    reqLoop strs verNdx fuel ⟨le, cls, count, data, off⟩ =
      match firstReq (VersionIndex.index verNdx) recs with
      | none => .ok none
      | some (vn, vna) =>
        (strGet strs vn.vn_file).bind fun file =>
        (strGet strs vna.vna_name).bind fun name =>
        .ok (some ⟨file, name, vna.vna_hash, vna.vna_flags, VersionIndex.isHidden verNdx⟩) := by
  induction h generalizing fuel with
  | done off =>
    cases fuel with
    | zero => omega
    | succ f => unfold reqLoop verNeedNext; rw [nextRec_zero]; simp [firstReq]
  | step count off vn auxs rest hp haux hoff hlink ha hr ih =>
    cases fuel with
    | zero => omega
    | succ f =>
      unfold reqLoop verNeedNext
      have hnext : VerIter.nextRec VerNeed.ep VerNeed.vn_cnt VerNeed.vn_aux VerNeed.vn_next
          ⟨le, cls, count + 1, data, off⟩ =
          (.ok (some (vn, ⟨le, cls, vn.vn_cnt, data, off + vn.vn_aux⟩)), ⟨le, cls, count, data, off + vn.vn_next⟩) := by
        unfold VerIter.nextRec
        simp only [hne, Bool.false_or]
        have hc : ((count + 1 == 0) = false) := by simp
        simp only [hc, Bool.false_eq_true, if_false, hp]
        unfold uadd
        simp only [haux, if_true]
        rw [VerIter.advance_linked ⟨le, cls, count + 1, data, off⟩ vn.vn_next count rfl hoff hlink]
      rw [hnext]
      simp only
      rw [findAux_complete (VersionIndex.index verNdx) le cls data hne vn.vn_cnt (off + vn.vn_aux)
        (vn.vn_cnt + 1) auxs ha (by omega)]
      simp only [firstReq]
      cases hfind : auxs.find? (fun a => a.vna_other == VersionIndex.index verNdx) with
      | some vna => rfl
      | none => exact ih f (by omega)

end Elf
