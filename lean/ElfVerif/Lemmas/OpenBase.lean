/-
  Lemmas/OpenBase.lean — the pieces of the open equivalence that do not need the totality results:
  `parse_ident`/`parse_tail` depend only on the bytes of their window; a fresh reader over a legal
  device satisfies `RInv`; one ranged read on both sides.
-/
import ElfVerif.Lemmas.StreamLegal
import ElfVerif.Lemmas.Congr
import ElfVerif.Props.C03
namespace Elf

theorem indexByte_congr {a b : Slice} (h : SameBytes a b) (i : Nat) : indexByte a i = indexByte b i := by
  unfold indexByte
  rw [← h.1]
  by_cases hi : i < a.len
  · simp only [hi, if_true]; rw [h.2 i hi]
  · simp only [hi, if_false]


theorem verifyIdent_congr {a b : Slice} (h : SameBytes a b) : verifyIdent a = verifyIdent b := by
  unfold verifyIdent
  rw [← h.1, indexByte_congr h]
  by_cases hl : a.len < Abi.EI_CLASS
  · simp only [hl, if_true]
  · simp only [hl, if_false]
    have hl' : 4 ≤ a.len := by simp only [Abi.EI_CLASS] at hl; omega
    rw [h.2 0 (by omega), h.2 1 (by omega), h.2 2 (by omega), h.2 3 (by omega)]


theorem parseIdent_congr {a b : Slice} (h : SameBytes a b) (sp : Spec) : parseIdent sp a = parseIdent sp b := by
  unfold parseIdent
  rw [← h.1, verifyIdent_congr h]
  simp only [indexByte_congr h]


theorem parseTail_congr {a b : Slice} (h : SameBytes a b) (id : Bool × Class × Nat × Nat) :
    parseTail id a = parseTail id b := by
  unfold parseTail
  rw [parse_congr h]


theorem new_legal (dev : Device) (hl : Legal dev.sched) :
    ∃ cr d, CachingReader.new dev = (.ok cr, d) ∧ RInv cr dev.content := by
  unfold CachingReader.new Device.seekEnd
  obtain ⟨h1, ⟨h2, _⟩, _, _⟩ := Device.nextFault_legal dev hl
  have hcont : dev.nextFault.2.content = dev.content := by
    unfold Device.nextFault; cases dev.sched <;> rfl
  generalize dev.nextFault = nf at h1 h2 hcont
  obtain ⟨f, d⟩ := nf
  simp only at h1 h2 hcont ⊢
  cases f with
  | fail => exact absurd rfl h2
  | none => exact ⟨_, _, rfl, ⟨⟨by simp, by intro kv hkv; cases hkv⟩, by simpa using hcont, by simpa using h1⟩⟩
  | short k => exact ⟨_, _, rfl, ⟨⟨by simp, by intro kv hkv; cases hkv⟩, by simpa using hcont, by simpa using h1⟩⟩
  | interrupted => exact ⟨_, _, rfl, ⟨⟨by simp, by intro kv hkv; cases hkv⟩, by simpa using hcont, by simpa using h1⟩⟩
  | eof => exact ⟨_, _, rfl, ⟨⟨by simp, by intro kv hkv; cases hkv⟩, by simpa using hcont, by simpa using h1⟩⟩


theorem clearCache_inv (r : CachingReader) (c : Array UInt8) (h : RInv r c) : RInv r.clearCache c :=
  ⟨⟨h.cache.1, by intro kv hkv; cases hkv⟩, h.content, h.legal⟩


/-- one range read, both sides: the in-place window and the stream's copy hold the same bytes, or
    both fail -/
theorem read_equiv (r : CachingReader) (c : Array UInt8) (hinv : RInv r c) (a n : Nat) :
    (∃ b r', (Slice.ofArray c).getBytes a (a + n) = .ok ⟨c, 0 + a, 0 + (a + n)⟩ ∧
        r.readBytes a (a + n) = (.ok b, r') ∧ SameBytes b ⟨c, 0 + a, 0 + (a + n)⟩ ∧ RInv r' c) ∨
    (∃ e e' r', (Slice.ofArray c).getBytes a (a + n) = .err e' ∧ r.readBytes a (a + n) = (.err e, r') ∧ RInv r' c) := by
  obtain ⟨hfit, hnofit⟩ := readBytes_legal r c a (a + n) hinv (by omega)
  rw [C03.getBytes_eq]
  have hlen : (Slice.ofArray c).len = c.size := by simp [Slice.ofArray, Slice.len]
  by_cases hle : a + n ≤ c.size
  · obtain ⟨b, r', e1, e2, e3⟩ := hfit hle
    refine Or.inl ⟨b, r', ?_, e1, e2, e3⟩
    rw [hlen]; simp only [hle, if_true]; rfl
  · obtain ⟨r', e1, e2⟩ := hnofit (by omega)
    refine Or.inr ⟨_, .SliceReadError a (a + n), r', ?_, e1, e2⟩
    rw [hlen]; simp only [hle, if_false]


end Elf
