/-
  Lemmas/OpenLazyAny.lean — laziness of `open_stream` **whatever it returns** (success, a parse error, an I/O
  failure at any call, under any schedule): every I/O event after the stream's length was measured lies in

    * the 16 identification bytes, or
    * — only if those bytes are an acceptable identification for the spec — the rest of the file header, or
    * — only if that header tail parses — `shdr[0]` / the section header table at `e_shoff`, the program header
      table at `e_phoff` (`OpenRange`, whole entries),

  where identification and header are the ones the *stream's contents* hold (`identOf`, `tailOf`): under any schedule a
  read that succeeds hands out the contents' bytes (`readBytes_ok_value`, from the cache invariant `WInv`), so the
  ranges a failing open may have touched are determined by the file, not by what went wrong.
-/
import ElfVerif.Lemmas.LazyIO
import ElfVerif.Lemmas.FaultEquiv
namespace Elf

/-- what a successful `read_bytes(s, e)` hands out is a function of the contents -/
theorem readBytes_ok_value (r : CachingReader) (c : Array UInt8) (hw : WInv r c) (s e : Nat) (b : Slice)
    (r' : CachingReader) (h : r.readBytes s e = (.ok b, r')) :
    b = Slice.ofArray (c.extract s (s + (e - s))) ∧ WInv r' c := by
  have hw' := readBytes_winv r c s e hw
  rw [h] at hw'
  refine ⟨?_, hw'⟩
  unfold CachingReader.readBytes at h
  generalize hl : r.loadBytes s e = l at h
  obtain ⟨l1, l2⟩ := l
  cases l1 with
  | err er => simp at h
  | panic => simp at h
  | ok u =>
    simp only [Prod.mk.injEq] at h
    obtain ⟨hg, hr⟩ := h
    subst hr
    unfold CachingReader.getBytes at hg
    cases hlk : l2.lookup s e with
    | none => simp [hlk] at hg
    | some b' =>
      simp only [hlk, Out.ok.injEq] at hg
      subst hg
      exact (lookup_value l2 c hw' s e b' hlk).2

/-- the identification bytes the contents hold, as `read_bytes(0, 16)` hands them out -/
def identOf (c : Array UInt8) : Slice := Slice.ofArray (c.extract 0 (0 + (Abi.EI_NIDENT - 0)))

/-- the rest of the file header the contents hold, as `read_bytes(16, tailEnd)` hands it out -/
def tailOf (c : Array UInt8) (tailEnd : Nat) : Slice :=
  Slice.ofArray (c.extract Abi.EI_NIDENT (Abi.EI_NIDENT + (tailEnd - Abi.EI_NIDENT)))

/-- the ranges `open_stream` may touch on contents `c`, whatever it returns -/
def OpenRangeOf (sp : Spec) (c : Array UInt8) (s e : Nat) : Prop :=
  (s = 0 ∧ e = Abi.EI_NIDENT) ∨
  ∃ ident, parseIdent sp (identOf c) = .ok ident ∧
    ((s = Abi.EI_NIDENT ∧ e = Abi.EI_NIDENT + Gen.size_FileHeaderTail ident.2.1) ∨
     ∃ h, parseTail ident (tailOf c (Abi.EI_NIDENT + Gen.size_FileHeaderTail ident.2.1)) = .ok h ∧ OpenRange h s e)

/-- `AllC.rbind` whose continuation may use that its argument is what the first stage returned -/
theorem AllC.rbind' {α β} {A : Nat → Nat → Prop} {d0 : Device} {x : Out α × CachingReader}
    {f : α → CachingReader → Out β × CachingReader}
    (hx : AllC A d0 x) (hf : ∀ a r, x = (.ok a, r) → Ext A d0 r.dev → AllC A d0 (f a r)) :
    AllC A d0 (Elf.rbind x f) := by
  obtain ⟨x1, x2⟩ := x
  cases x1 with
  | ok a => exact hf a x2 rfl hx
  | err e => exact hx
  | panic => exact hx

/-- the section-header stage of open touches `OpenRange h` only — stated for any larger range predicate -/
theorem parseSectionHeaders_allC' (h : FileHeader) (A : Nat → Nat → Prop) (hsub : ∀ s e, OpenRange h s e → A s e)
    (d0 : Device) (r : CachingReader) (hc : Ext A d0 r.dev) : AllC A d0 (parseSectionHeaders h r) := by
  unfold parseSectionHeaders
  split
  · exact AllC.pure _ _ hc
  · unfold EntryParser.validateEntsize
    split
    · rename_i hes
      simp only [rlift, rbind]
      refine AllC.rbind ?_ fun shnum r hc => ?_
      · split
        · exact streamShdr0_allC h _ _ _ _ r (hsub _ _ (Or.inr (Or.inr (Or.inl ⟨rfl, 1, by rw [hes]; simp⟩)))) hc
        · exact AllC.pure _ _ hc
      · exact streamTable_allC _ _ _ _ _ _ r (hsub _ _ (Or.inr (Or.inr (Or.inl ⟨rfl, shnum, by rw [hes]⟩)))) hc
    · exact AllC.pure _ _ hc

theorem parseProgramHeaders_allC' (h : FileHeader) (A : Nat → Nat → Prop) (hsub : ∀ s e, OpenRange h s e → A s e)
    (d0 : Device) (r : CachingReader) (hc : Ext A d0 r.dev) : AllC A d0 (parseProgramHeaders h r) := by
  unfold parseProgramHeaders
  split
  · exact AllC.pure _ _ hc
  · refine AllC.rbind ?_ fun phnum r hc => ?_
    · split
      · exact streamShdr0_allC h _ _ _ _ r (hsub _ _ (Or.inr (Or.inr (Or.inl ⟨rfl, 1, by simp⟩)))) hc
      · exact AllC.pure _ _ hc
    · unfold EntryParser.validateEntsize
      split
      · rename_i hes
        simp only [rlift, rbind]
        exact streamTable_allC _ _ _ _ _ _ r (hsub _ _ (Or.inr (Or.inr (Or.inr ⟨rfl, phnum, by rw [hes]⟩)))) hc
      · exact AllC.pure _ _ hc

theorem rlift_ok {α} {v : Out α} {r r' : CachingReader} {a : α} (h : rlift v r = (.ok a, r')) : v = .ok a ∧ r' = r := by
  unfold rlift at h
  simp only [Prod.mk.injEq] at h
  exact ⟨h.1, h.2.symm⟩

/-- **Opening is lazy whatever it returns.** -/
theorem openStream_lazy_any (sp : Spec) (dev : Device) :
    Ext (OpenRangeOf sp dev.content) dev.seekEnd.2 (openStream sp dev).2 := by
  unfold openStream
  have hnew : ∀ r d, CachingReader.new dev = (.ok r, d) → WInv r dev.content := new_winv dev
  unfold CachingReader.new at hnew ⊢
  generalize hq : dev.seekEnd = q at hnew ⊢
  obtain ⟨q1, d1⟩ := q
  cases q1 with
  | err e => exact Ext.refl _ _
  | panic => exact Ext.refl _ _
  | ok n =>
    simp only
    have hw0 : WInv (⟨d1, n, []⟩ : CachingReader) dev.content := hnew _ _ rfl
    show AllC (OpenRangeOf sp dev.content) d1 _
    refine AllC.rbind' (AllC.read _ 0 Abi.EI_NIDENT (Or.inl ⟨rfl, rfl⟩) (Ext.refl _ _)) fun identBuf r1 h1 hE1 => ?_
    obtain ⟨hib, hw1⟩ := readBytes_ok_value _ _ hw0 0 Abi.EI_NIDENT identBuf _ h1
    refine AllC.rbind' (AllC.rlift _ _ hE1) fun ident r2 h2 hE2 => ?_
    obtain ⟨hid, hr2⟩ := rlift_ok h2
    subst hr2
    have hid' : parseIdent sp (identOf dev.content) = .ok ident := by rw [← hid, hib]; rfl
    refine AllC.rbind' (AllC.rlift _ _ hE2) fun tailEnd r3 h3 hE3 => ?_
    obtain ⟨hu, hr3⟩ := rlift_ok h3
    subst hr3
    have hte : tailEnd = Abi.EI_NIDENT + Gen.size_FileHeaderTail ident.2.1 := by
      unfold uadd at hu; split at hu <;> simp at hu; exact hu.symm
    refine AllC.rbind' (AllC.read _ Abi.EI_NIDENT tailEnd (Or.inr ⟨ident, hid', Or.inl ⟨rfl, hte⟩⟩) hE3)
      fun tailBuf r4 h4 hE4 => ?_
    obtain ⟨htb, hw4⟩ := readBytes_ok_value _ _ hw1 Abi.EI_NIDENT tailEnd tailBuf _ h4
    refine AllC.rbind' (AllC.rlift _ _ hE4) fun ehdr r5 h5 hE5 => ?_
    obtain ⟨hpt, hr5⟩ := rlift_ok h5
    subst hr5
    have hpt' : parseTail ident (tailOf dev.content (Abi.EI_NIDENT + Gen.size_FileHeaderTail ident.2.1)) = .ok ehdr := by
      rw [← hpt, htb, hte]; rfl
    have hsub : ∀ s e, OpenRange ehdr s e → OpenRangeOf sp dev.content s e :=
      fun s e hse => Or.inr ⟨ident, hid', Or.inr ⟨ehdr, hpt', hse⟩⟩
    refine AllC.rbind (parseSectionHeaders_allC' ehdr _ hsub d1 _ hE5) fun shdrs r6 hE6 => ?_
    refine AllC.rbind (parseProgramHeaders_allC' ehdr _ hsub d1 _ hE6) fun phdrs r7 hE7 => ?_
    exact hE7

end Elf
