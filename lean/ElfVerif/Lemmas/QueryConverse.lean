/-
  Lemmas/QueryConverse.lean — the converse of the refinement for the queries whose success and
  failure must coincide exactly (section data, segment notes, both symbol tables): on a legal reader,
  when the stream parser answers, the slice parser answers too (with the same content).
-/
import ElfVerif.Lemmas.QueryEquiv
namespace Elf

/-- **`section_data`, converse** (section not flagged SHF_COMPRESSED): a stream answer implies a slice
    answer with the same bytes. -/
theorem sectionData_converse (s : ElfStream) (f : ElfBytes) (c : Array UInt8) (hs : Sim s f c) (sh : SectionHeader)
    (hnc : sh.sh_flags &&& Abi.SHF_COMPRESSED = 0) (b : Slice) (ch : Option CompressionHeader) (s' : ElfStream)
    (h : s.sectionData sh = (.ok (b, ch), s')) :
    ∃ w, f.sectionData sh = .ok (w, ch) ∧ SameBytes b w := by
  unfold ElfBytes.sectionData
  unfold ElfStream.sectionData at h
  by_cases hnb : sh.sh_type = Abi.SHT_NOBITS
  · simp only [hnb, if_true] at h ⊢
    injection h with h1 _; injection h1 with h1; injection h1 with h1 h2; subst h1; subst h2
    exact ⟨_, rfl, SameBytes.refl _⟩
  · simp only [hnb, if_false] at h ⊢
    cases hrg : dataRange sh.sh_offset sh.sh_size with
    | err e => simp [hrg] at h
    | panic => simp [hrg] at h
    | ok rg =>
      simp only [hrg, Out.bind, hs.data, hnc, if_true] at h ⊢
      obtain ⟨_, hrd⟩ := range_read s.reader c hs.rinv _ _ rg hrg
      rcases hrd with ⟨w', b', r', g1, g2, g3, g4⟩ | ⟨e, e', r', g1, g2, g3⟩
      · rw [g2] at h
        simp only [ElfStream.withReader, rbind] at h
        injection h with h1 _; injection h1 with h1; injection h1 with h1 h2; subst h1; subst h2
        rw [g1]; exact ⟨w', rfl, g3⟩
      · rw [g2] at h
        simp [ElfStream.withReader, rbind] at h

/-- **`segment_data_as_notes`, converse**. -/
theorem segment_notes_converse (s : ElfStream) (f : ElfBytes) (c : Array UInt8) (hs : Sim s f c) (ph : ProgramHeader)
    (it' : NoteIter) (s' : ElfStream) (h : s.segmentDataAsNotes ph = (.ok it', s')) :
    ∃ it, f.segmentDataAsNotes ph = .ok it ∧ NoteSim it' it := by
  unfold ElfBytes.segmentDataAsNotes ElfBytes.segmentData
  unfold ElfStream.segmentDataAsNotes at h
  by_cases ht : ph.p_type = Abi.PT_NOTE
  · have hne : ¬ ph.p_type ≠ Abi.PT_NOTE := by simp [ht]
    simp only [hne, if_false] at h ⊢
    cases hrg : dataRange ph.p_offset ph.p_filesz with
    | err e => simp [hrg] at h
    | panic => simp [hrg] at h
    | ok rg =>
      simp only [hrg, Out.bind, hs.data] at h ⊢
      obtain ⟨_, hrd⟩ := range_read s.reader c hs.rinv _ _ rg hrg
      rcases hrd with ⟨w', b', r', g1, g2, g3, g4⟩ | ⟨e, e', r', g1, g2, g3⟩
      · rw [g2] at h
        simp only [ElfStream.withReader, rbind] at h
        injection h with h1 _; injection h1 with h1; subst h1
        rw [g1]
        exact ⟨_, rfl, ⟨by rw [hs.ehdr], by rw [hs.ehdr], rfl, rfl, g3⟩⟩
      · rw [g2] at h
        simp [ElfStream.withReader, rbind] at h
  · have hne : ph.p_type ≠ Abi.PT_NOTE := ht
    simp [hne] at h

/-- one ranged load, both outcomes: it succeeds exactly when the slice read does -/
theorem range_load_cases (r : CachingReader) (c : Array UInt8) (hinv : RInv r c) (off size : Nat) (rg : Nat × Nat)
    (hrg : dataRange off size = .ok rg) :
    (∃ w r', (Slice.ofArray c).getBytes rg.1 rg.2 = .ok w ∧ r.loadBytes rg.1 rg.2 = (.ok (), r') ∧ RInv r' c ∧
        (∃ b, r'.lookup rg.1 rg.2 = some b ∧ SameBytes b w) ∧
        (∀ s2 e2 b2, r.lookup s2 e2 = some b2 → r'.lookup s2 e2 = some b2)) ∨
    (∃ e r', (∀ w, (Slice.ofArray c).getBytes rg.1 rg.2 ≠ .ok w) ∧ r.loadBytes rg.1 rg.2 = (.err e, r') ∧ RInv r' c) := by
  have hrg' := hrg
  rw [C03.dataRange_eq] at hrg
  split at hrg
  · injection hrg with hrg; subst hrg
    simp only
    have hlen : (Slice.ofArray c).len = c.size := by simp [Slice.ofArray, Slice.len]
    by_cases hfit : off + size ≤ c.size
    · have hw : (Slice.ofArray c).getBytes off (off + size) = .ok ⟨(Slice.ofArray c).buf, (Slice.ofArray c).start + off, (Slice.ofArray c).start + (off + size)⟩ := by
        rw [C03.getBytes_eq, hlen]; simp [hfit]
      obtain ⟨r', h1, h2, h3, h4⟩ := range_load r c hinv off size _ hrg' _ hw
      exact Or.inl ⟨_, r', hw, h1, h2, h3, h4⟩
    · obtain ⟨er, r', h1, h2⟩ := loadBytes_legal_nofit r c off (off + size) hinv (by omega) (by omega)
      refine Or.inr ⟨er, r', fun w hw => ?_, h1, h2⟩
      rw [C03.getBytes_eq, hlen] at hw
      simp [hfit] at hw
  · cases hrg

/-- **`symbol_table` / `dynamic_symbol_table`, converse**: a stream answer implies a slice answer with
    the same symbol bytes and string-table bytes (or `None` on both sides). -/
theorem symtab_converse (s : ElfStream) (f : ElfBytes) (c : Array UInt8) (hs : Sim s f c) (ty : Nat)
    (o' : Option (Table Symbol × Slice)) (s' : ElfStream) (h : s.symbolTableOfType ty = (.ok o', s')) :
    ∃ o, f.symbolTableOfType ty = .ok o ∧
      (match o, o' with
       | none, none => True
       | some (t, st), some (t', st') => TableSim t' t ∧ SameBytes st' st
       | _, _ => False) := by
  unfold ElfBytes.symbolTableOfType
  unfold ElfStream.symbolTableOfType at h
  cases hsh : f.shdrs with
  | none =>
    have hnil := hs.sh.none_nil hsh
    simp only [hnil, List.isEmpty_nil, if_true] at h
    injection h with h1 _; injection h1 with h1; subst h1
    exact ⟨none, rfl, trivial⟩
  | some t =>
    obtain ⟨hl, _, _, _⟩ := hs.sh.lists t hsh
    simp only
    rw [hl.find]
    simp only [Out.bind]
    cases hfind : s.shdrs.find? (fun sh => sh.sh_type == ty) with
    | none =>
      simp only [hfind] at h
      have : o' = none := by
        by_cases hE : s.shdrs.isEmpty = true
        · simp only [hE, if_true] at h; injection h with h1 _; injection h1 with h1; exact h1.symm
        · simp only [hE] at h; injection h with h1 _; injection h1 with h1; exact h1.symm
      subst this
      exact ⟨none, rfl, trivial⟩
    | some symShdr =>
      have hE : s.shdrs.isEmpty = false := by
        cases hq : s.shdrs with
        | nil => rw [hq] at hfind; simp at hfind
        | cons a b => rfl
      simp only [hfind, hE, Bool.false_eq_true, if_false] at h ⊢
      cases hrg : dataRange symShdr.sh_offset symShdr.sh_size with
      | err e => simp [hrg] at h
      | panic => simp [hrg] at h
      | ok rg =>
        simp only [hrg, ElfStream.withReader] at h
        rcases range_load_cases s.reader c hs.rinv _ _ rg hrg with
          ⟨symBuf, r1, gb1, l1, inv1, ⟨b1, lk1, sb1⟩, _⟩ | ⟨e, r1, _, l1, _⟩
        · rw [l1] at h
          simp only [rbind] at h
          rcases hl.getElem? symShdr.sh_link with ⟨strShdr, ha1, ha2⟩ | ⟨hnone, _⟩
          · simp only [ha1] at h
            rw [ha2]; simp only
            cases hrg2 : dataRange strShdr.sh_offset strShdr.sh_size with
            | err e => simp [hrg2] at h
            | panic => simp [hrg2] at h
            | ok rg2 =>
              simp only [hrg2] at h
              rcases range_load_cases r1 c inv1 _ _ rg2 hrg2 with
                ⟨strBuf, r2, gb2, l2, inv2, ⟨b2, lk2, sb2⟩, mono2⟩ | ⟨e, r2, _, l2, _⟩
              · rw [l2] at h
                simp only [rlift, hs.ehdr] at h
                cases hv : Symbol.ep.validateEntsize f.ehdr.cls symShdr.sh_entsize with
                | err e => simp [hv] at h
                | panic => simp [hv] at h
                | ok v =>
                  have lk1' := mono2 _ _ _ lk1
                  simp only [hv, CachingReader.getBytes, lk1', lk2] at h
                  injection h with h1 _; injection h1 with h1; subst h1
                  unfold ElfBytes.sectionDataAsSymbolTable
                  simp only [Out.bind, hv, hrg, hs.data, gb1, hrg2, gb2]
                  exact ⟨_, rfl, ⟨rfl, rfl, rfl, sb1⟩, sb2⟩
              · rw [l2] at h; simp at h
          · simp [hnone] at h
        · rw [l1] at h; simp [rbind] at h

/-- `ver_load`, converse: when the stream side loads a version section and its strings, the slice side
    reads them too -/
theorem verLoad_converse (s : ElfStream) (f : ElfBytes) (c : Array UInt8) (hd : f.data = Slice.ofArray c)
    (t : Table SectionHeader) (hl : Lists t s.shdrs) (o : Option SectionHeader) (r : CachingReader)
    (hinv : RInv r c) (lo : Option (SectionHeader × (Nat × Nat) × (Nat × Nat))) (r' : CachingReader)
    (h : s.verLoad o r = (.ok lo, r')) :
    ∃ res, f.verRecords t o = .ok res ∧ RInv r' c ∧ VerLoaded f r' lo res ∧
      (∀ s2 e2 b2, r.lookup s2 e2 = some b2 → r'.lookup s2 e2 = some b2) := by
  unfold ElfBytes.verRecords
  unfold ElfStream.verLoad at h
  cases o with
  | none =>
    simp only at h ⊢
    injection h with h1 h2; injection h1 with h1; subst h1; subst h2
    exact ⟨none, rfl, hinv, trivial, fun _ _ _ hb => hb⟩
  | some shdr =>
    simp only [Out.bind, hd]
    simp only [rbind, rlift] at h
    cases hrg : dataRange shdr.sh_offset shdr.sh_size with
    | err e => simp [hrg] at h
    | panic => simp [hrg] at h
    | ok rg =>
      simp only [hrg] at h ⊢
      rcases range_load_cases r c hinv _ _ rg hrg with
        ⟨buf, r1, gb1, l1, inv1, ⟨b1, lk1, sb1⟩, mono1⟩ | ⟨e, r1, _, l1, _⟩
      · rw [l1] at h; simp only at h
        rw [gb1]; simp only
        rcases hl.getElem? shdr.sh_link with ⟨strs, ha1, ha2⟩ | ⟨hnone, _⟩
        · simp only [ha1] at h
          rw [ha2]; simp only
          cases hrg2 : dataRange strs.sh_offset strs.sh_size with
          | err e => simp [hrg2] at h
          | panic => simp [hrg2] at h
          | ok rg2 =>
            simp only [hrg2] at h ⊢
            rcases range_load_cases r1 c inv1 _ _ rg2 hrg2 with
              ⟨strsBuf, r2, gb2, l2, inv2, ⟨b2, lk2, sb2⟩, mono2⟩ | ⟨e, r2, _, l2, _⟩
            · rw [l2] at h; simp only at h
              injection h with h1 h2; injection h1 with h1; subst h1; subst h2
              rw [gb2]
              exact ⟨_, rfl, inv2, ⟨rfl, rfl, rfl, rfl, b1, b2, mono2 _ _ _ lk1, sb1, lk2, sb2⟩,
                fun _ _ _ hb => mono2 _ _ _ (mono1 _ _ _ hb)⟩
            · rw [l2] at h; simp at h
        · simp [hnone] at h
      · rw [l1] at h; simp at h

/-- **`symbol_version_table`, converse**: a stream answer implies a slice answer with the same
    `.gnu.version` bytes, the same VERNEED/VERDEF bytes and counts and the same string-table bytes. -/
theorem symver_converse (s : ElfStream) (f : ElfBytes) (c : Array UInt8) (hs : Sim s f c)
    (o' : Option SymbolVersionTable) (s' : ElfStream) (h : s.symbolVersionTable = (.ok o', s')) :
    ∃ o, f.symbolVersionTable = .ok o ∧
      (match o, o' with
       | none, none => True
       | some t, some t' => SymVerSim t' t
       | _, _ => False) := by
  unfold ElfBytes.symbolVersionTable
  unfold ElfStream.symbolVersionTable at h
  cases hsh : f.shdrs with
  | none =>
    have hnil := hs.sh.none_nil hsh
    simp only [hnil, List.isEmpty_nil, if_true] at h
    injection h with h1 _; injection h1 with h1; subst h1
    exact ⟨none, rfl, trivial⟩
  | some t =>
    obtain ⟨hl, _, _, _⟩ := hs.sh.lists t hsh
    simp only
    have hle : t.len ≤ t.data.len := Nat.div_le_self _ _
    have hscan := hl.verScan s.shdrs.length 0 (t.data.len + 1) none none none (by omega) (by rw [hl.len]; omega)
    rw [Table.iterAt_zero] at hscan
    rw [hscan]
    simp only [Out.bind, List.drop_zero]
    by_cases hE : s.shdrs.isEmpty = true
    · have hnil : s.shdrs = [] := List.isEmpty_iff.mp hE
      simp only [hE, if_true] at h
      injection h with h1 _; injection h1 with h1; subst h1
      simp only [hnil, ElfStream.verScanList]
      exact ⟨none, rfl, trivial⟩
    · simp only [hE] at h
      generalize ElfStream.verScanList s.shdrs none none none = sc at h ⊢
      obtain ⟨vs, nd, df⟩ := sc
      simp only at h ⊢
      cases vs with
      | none =>
        simp only at h ⊢
        injection h with h1 _; injection h1 with h1; subst h1
        exact ⟨none, rfl, trivial⟩
      | some versym =>
        simp only [hs.data] at h ⊢
        simp only [ElfStream.withReader, rbind, rlift, hs.ehdr] at h
        cases hv : VersionIndex.ep.validateEntsize f.ehdr.cls versym.sh_entsize with
        | err e => simp [hv] at h
        | panic => simp [hv] at h
        | ok v =>
          simp only [hv] at h ⊢
          cases hrg : dataRange versym.sh_offset versym.sh_size with
          | err e => simp [hrg] at h
          | panic => simp [hrg] at h
          | ok vrg =>
            simp only [hrg] at h ⊢
            rcases range_load_cases s.reader c hs.rinv _ _ vrg hrg with
              ⟨vbuf, r1, gb1, l1, inv1, ⟨bv, lkv, sbv⟩, _⟩ | ⟨e, r1, _, l1, _⟩
            · rw [l1] at h; simp only at h
              rw [gb1]; simp only
              generalize hq1 : s.verLoad nd r1 = q1 at h
              obtain ⟨q1a, r2⟩ := q1
              cases q1a with
              | err e => simp at h
              | panic => simp at h
              | ok lo1 =>
                simp only at h
                obtain ⟨verneeds, hn, inv2, vl1, mono1⟩ := verLoad_converse s f c hs.data t hl nd r1 inv1 lo1 r2 hq1
                rw [hn]; simp only
                generalize hq2 : s.verLoad df r2 = q2 at h
                obtain ⟨q2a, r3⟩ := q2
                cases q2a with
                | err e => simp at h
                | panic => simp at h
                | ok lo2 =>
                  simp only at h
                  obtain ⟨verdefs, hdf, inv3, vl2, mono2⟩ := verLoad_converse s f c hs.data t hl df r2 inv2 lo2 r3 hq2
                  rw [hdf]; simp only
                  obtain ⟨vn', w1, vs1⟩ := verWrap_refines s f hs.ehdr r3 lo1 verneeds (vl1.mono mono2)
                  obtain ⟨vd', w2, vs2⟩ := verWrap_refines s f hs.ehdr r3 lo2 verdefs vl2
                  have lkv' := mono2 _ _ _ (mono1 _ _ _ lkv)
                  rw [w1] at h; simp only at h
                  rw [w2] at h; simp only [CachingReader.getBytes, lkv'] at h
                  injection h with h1 _; injection h1 with h1; subst h1
                  exact ⟨_, rfl, ⟨⟨rfl, rfl, rfl, sbv⟩, vs1, vs2⟩⟩
            · rw [l1] at h; simp at h

end Elf
