/-
  Lemmas/FaultEquiv.lean — under ANY reader schedule (errors, premature EOF, short and interrupted
  reads), whatever a stream query answers with `Ok` is exactly — as a value, not merely up to
  content — what the same query answers on a fault-free reader over the same contents.

  `WInv r c`: the weak invariant that survives every schedule (cache = the file's bytes; contents
  unchanged).  `Twin r r₀ c`: `r` is any reader with `WInv`, `r₀` a legal reader with `RInv` over
  the same contents.  Each `*_twin` theorem: the query's `Ok` answer on `r` is its answer on `r₀`.
-/
import ElfVerif.Lemmas.QueryEquiv
namespace Elf

theorem Device.readExact_content (fuel : Nat) (d : Device) (n : Nat) :
    (Device.readExact fuel d n).2.content = d.content := by
  induction fuel generalizing d n with
  | zero => unfold Device.readExact; split <;> rfl
  | succ f ih =>
    unfold Device.readExact
    split
    · rfl
    · have hc := d.read_content n
      generalize d.read n = r at hc
      obtain ⟨r1, d1⟩ := r
      simp only at hc
      cases r1 with
      | got k =>
        cases k with
        | zero => exact hc
        | succ k => simp only; rw [ih, hc]
      | interrupted => simp only; rw [ih, hc]
      | error => exact hc

theorem Device.seekTo_content (d : Device) (p : Nat) : (d.seekTo p).2.content = d.content := by
  unfold Device.seekTo
  have := d.nextFault_content
  generalize d.nextFault = q at this
  obtain ⟨f, d1⟩ := q
  have h1 : d1.content = d.content := this.1
  cases f <;> simp [h1]

theorem loadBytes_content (r : CachingReader) (s e : Nat) :
    (r.loadBytes s e).2.dev.content = r.dev.content := by
  unfold CachingReader.loadBytes
  split
  · rfl
  · split
    · rfl
    · have hs := r.dev.seekTo_content s
      generalize r.dev.seekTo s = sk at hs
      obtain ⟨sk1, d1⟩ := sk
      simp only at hs
      cases sk1 with
      | err er => exact hs
      | panic => exact hs
      | ok u =>
        simp only
        have hre := Device.readExact_content (e - s + d1.sched.length + 1)
          { d1 with trace := d1.trace ++ [IoEvent.alloc (e - s)] } (e - s)
        generalize Device.readExact _ _ _ = re at hre
        obtain ⟨re1, d2⟩ := re
        simp only at hre
        cases re1 with
        | err er => simp only; rw [hre, hs]
        | panic => simp only; rw [hre, hs]
        | ok u2 => simp only; rw [hre, hs]

/-- the invariant every schedule preserves -/
def WInv (r : CachingReader) (c : Array UInt8) : Prop := CacheOK r ∧ r.dev.content = c

theorem loadBytes_winv (r : CachingReader) (c : Array UInt8) (s e : Nat) (h : WInv r c) :
    WInv (r.loadBytes s e).2 c :=
  ⟨loadBytes_inv r s e h.1, by rw [loadBytes_content]; exact h.2⟩

theorem readBytes_winv (r : CachingReader) (c : Array UInt8) (s e : Nat) (h : WInv r c) :
    WInv (r.readBytes s e).2 c := by
  have := loadBytes_winv r c s e h
  unfold CachingReader.readBytes
  generalize r.loadBytes s e = l at this
  obtain ⟨l1, l2⟩ := l
  cases l1 <;> exact this

theorem RInv.winv {r : CachingReader} {c : Array UInt8} (h : RInv r c) : WInv r c := ⟨h.cache, h.content⟩

/-- a cached buffer is a function of its key and the contents -/
theorem lookup_value (r : CachingReader) (c : Array UInt8) (h : WInv r c) (s e : Nat) (b : Slice)
    (hb : r.lookup s e = some b) :
    e ≤ c.size ∧ b = Slice.ofArray (c.extract s (s + (e - s))) := by
  have hm := CachingReader.lookup_some r s e b hb
  obtain ⟨h1, h2⟩ := h.1.2 _ hm
  simp only at h1 h2
  rw [h.1.1, h.2] at h1
  rw [h.2] at h2
  exact ⟨h1, h2⟩

/-- `p` is `c` cut after `p.size` bytes -/
def PrefixOf (p c : Array UInt8) : Prop := p = c.extract 0 p.size ∧ p.size ≤ c.size

theorem PrefixOf.refl (c : Array UInt8) : PrefixOf c c := ⟨by simp, Nat.le_refl _⟩

theorem PrefixOf.extract {p c : Array UInt8} (h : PrefixOf p c) (s t : Nat) (ht : t ≤ p.size) :
    p.extract s t = c.extract s t := by
  have h1 := h.1
  conv => lhs; rw [h1, Array.extract_extract]
  simp only [Nat.zero_add]
  congr 1
  omega

/-- `r` is ANY reader (any schedule, `WInv` over contents `p`), `r₀` a fault-free reader over contents
    `c`, and `p` is `c` or a truncation of `c`. -/
def Twin (r r₀ : CachingReader) (c : Array UInt8) : Prop :=
  ∃ p, WInv r p ∧ RInv r₀ c ∧ PrefixOf p c

theorem Twin.mk' {r r₀ : CachingReader} {c : Array UInt8} (w : WInv r c) (t : RInv r₀ c) : Twin r r₀ c :=
  ⟨c, w, t, PrefixOf.refl c⟩

/-- **`load_bytes`**: if it succeeds under faults (and on a possibly truncated stream), it succeeds
    on the fault-free twin over the whole contents, and both caches then hold the same buffer. -/
theorem loadBytes_twin (r r₀ : CachingReader) (c : Array UInt8) (ht : Twin r r₀ c) (s e : Nat) (hse : s ≤ e)
    (r' : CachingReader) (h : r.loadBytes s e = (.ok (), r')) :
    ∃ r₀', r₀.loadBytes s e = (.ok (), r₀') ∧ Twin r' r₀' c ∧
      (∃ b, r'.lookup s e = some b ∧ r₀'.lookup s e = some b) ∧
      (∀ s2 e2 b2, r.lookup s2 e2 = some b2 → r'.lookup s2 e2 = some b2) ∧
      (∀ s2 e2 b2, r₀.lookup s2 e2 = some b2 → r₀'.lookup s2 e2 = some b2) := by
  obtain ⟨p, hw, ht0, hp⟩ := ht
  have hw' : WInv r' p := by have := loadBytes_winv r p s e hw; rw [h] at this; exact this
  have hlk := loadBytes_ok_lookup r r' s e h
  cases hb : r'.lookup s e with
  | none => rw [hb] at hlk; cases hlk
  | some b =>
    obtain ⟨hfit, hval⟩ := lookup_value r' p hw' s e b hb
    have hfit' : e ≤ c.size := Nat.le_trans hfit hp.2
    obtain ⟨r₀', g1, g2, ⟨b₀, g3, _⟩, g4⟩ := loadBytes_legal r₀ c s e ht0 hse hfit'
    obtain ⟨_, hval₀⟩ := lookup_value r₀' c g2.winv s e b₀ g3
    have hsame : p.extract s (s + (e - s)) = c.extract s (s + (e - s)) :=
      hp.extract s (s + (e - s)) (by omega)
    refine ⟨r₀', g1, ⟨p, hw', g2, hp⟩, ⟨b, rfl, by rw [g3, hval₀, hval, hsame]⟩, ?_, g4⟩
    intro s2 e2 b2 hb2
    obtain ⟨extra, hx⟩ := loadBytes_bufs r s e
    rw [h] at hx
    exact lookup_mono r r' extra hx s2 e2 b2 hb2

/-- **`read_bytes`**: an `Ok` answer under faults is, as a value, the fault-free answer. -/
theorem readBytes_twin (r r₀ : CachingReader) (c : Array UInt8) (ht : Twin r r₀ c) (s e : Nat) (hse : s ≤ e)
    (b : Slice) (r' : CachingReader) (h : r.readBytes s e = (.ok b, r')) :
    ∃ r₀', r₀.readBytes s e = (.ok b, r₀') ∧ Twin r' r₀' c := by
  unfold CachingReader.readBytes at h ⊢
  generalize hl : r.loadBytes s e = l at h
  obtain ⟨l1, l2⟩ := l
  cases l1 with
  | err er => simp at h
  | panic => simp at h
  | ok u =>
    simp only at h
    injection h with h1 h2; subst h2
    obtain ⟨r₀', g1, g2, ⟨b', g3, g4⟩, _⟩ := loadBytes_twin r r₀ c ht s e hse l2 hl
    rw [g1]; simp only
    unfold CachingReader.getBytes at h1 ⊢
    rw [g3] at h1; injection h1 with h1; subst h1
    rw [g4]
    exact ⟨r₀', rfl, g2⟩

/-! ### queries that make one ranged read -/

/-- the fault-free twin of a stream parser state: same parsed headers, the twin reader -/
def ElfStream.twin (s : ElfStream) (r₀ : CachingReader) : ElfStream := { s with reader := r₀ }

theorem withReader_pure_twin {α} (s : ElfStream) (r₀ : CachingReader) (c : Array UInt8)
    (ht : Twin s.reader r₀ c) (a b : Nat) (hab : a ≤ b) (g : Slice → Out α) (v : α) (s' : ElfStream)
    (h : s.withReader (rbind (s.reader.readBytes a b) fun buf r => (g buf, r)) = (.ok v, s')) :
    ∃ s₀', (s.twin r₀).withReader (rbind (r₀.readBytes a b) fun buf r => (g buf, r)) = (.ok v, s₀') ∧
      Twin s'.reader s₀'.reader c ∧ s₀' = s'.twin s₀'.reader := by
  unfold ElfStream.withReader rbind at h ⊢
  generalize hq : s.reader.readBytes a b = q at h
  obtain ⟨q1, q2⟩ := q
  cases q1 with
  | err e => simp at h
  | panic => simp at h
  | ok buf =>
    simp only at h
    injection h with h1 h2
    obtain ⟨r₀', g1, g2⟩ := readBytes_twin s.reader r₀ c ht a b hab buf q2 hq
    rw [g1]
    simp only
    subst h2
    exact ⟨_, by rw [h1], g2, rfl⟩

theorem rbind_pure_id {α} (x : Out α × CachingReader) : rbind x (fun a r => (Out.ok a, r)) = x := by
  obtain ⟨x1, x2⟩ := x
  cases x1 <;> rfl

/-- the pure tail of `section_data` after the range has been read -/
def sectionDataPost (h : FileHeader) (sh : SectionHeader) (buf : Slice) : Out (Slice × Option CompressionHeader) :=
  if sh.sh_flags &&& Abi.SHF_COMPRESSED = 0 then .ok (buf, none) else
  match CompressionHeader.ep.parse h.little h.cls buf 0 with
  | (.err e, _) => .err e
  | (.panic, _) => .panic
  | (.ok chdr, offset) =>
    match buf.getFrom? offset with
    | some cbuf => .ok (cbuf, some chdr)
    | none => .err (.SliceReadError offset sh.sh_size)

theorem sectionData_eq (s : ElfStream) (sh : SectionHeader) :
    s.sectionData sh =
      if sh.sh_type = Abi.SHT_NOBITS then (.ok (Slice.empty, none), s) else
      match dataRange sh.sh_offset sh.sh_size with
      | .err e => (.err e, s)
      | .panic => (.panic, s)
      | .ok rg => s.withReader (rbind (s.reader.readBytes rg.1 rg.2) fun buf r => (sectionDataPost s.ehdr sh buf, r)) := by
  unfold ElfStream.sectionData
  by_cases hnb : sh.sh_type = Abi.SHT_NOBITS
  · simp only [hnb, if_true]
  · simp only [hnb, if_false]
    cases hrg : dataRange sh.sh_offset sh.sh_size with
    | err e => rfl
    | panic => rfl
    | ok rg =>
      simp only
      congr 2
      funext buf r
      unfold sectionDataPost
      split
      · rfl
      · generalize CompressionHeader.ep.parse s.ehdr.little s.ehdr.cls buf 0 = q
        obtain ⟨q1, q2⟩ := q
        cases q1 with
        | err e => rfl
        | panic => rfl
        | ok ch => simp only; cases buf.getFrom? q2 <;> rfl

theorem dataRange_le' {off size : Nat} {rg : Nat × Nat} (h : dataRange off size = .ok rg) : rg.1 ≤ rg.2 :=
  dataRange_le off size rg h

/-- **`section_data`** (compressed sections included): an `Ok` answer under any schedule is the
    fault-free answer. -/
theorem sectionData_twin (s : ElfStream) (r₀ : CachingReader) (c : Array UInt8) (ht : Twin s.reader r₀ c)
    (sh : SectionHeader) (v : Slice × Option CompressionHeader) (s' : ElfStream)
    (h : s.sectionData sh = (.ok v, s')) :
    ∃ s₀', (s.twin r₀).sectionData sh = (.ok v, s₀') ∧ Twin s'.reader s₀'.reader c := by
  rw [sectionData_eq] at h ⊢
  by_cases hnb : sh.sh_type = Abi.SHT_NOBITS
  · simp only [hnb, if_true] at h ⊢
    injection h with h1 h2; subst h2
    exact ⟨_, by rw [h1], ht⟩
  · simp only [hnb, if_false] at h ⊢
    cases hrg : dataRange sh.sh_offset sh.sh_size with
    | err e => simp [hrg] at h
    | panic => simp [hrg] at h
    | ok rg =>
      simp only [hrg] at h ⊢
      obtain ⟨s₀', g1, g2, _⟩ := withReader_pure_twin s r₀ c ht rg.1 rg.2 (dataRange_le' hrg) _ v s' h
      exact ⟨s₀', g1, g2⟩

theorem typedRange_twin (s : ElfStream) (r₀ : CachingReader) (c : Array UInt8) (ht : Twin s.reader r₀ c)
    (sh : SectionHeader) (want : Nat) (v : Slice) (s' : ElfStream)
    (h : s.typedRange sh want = (.ok v, s')) :
    ∃ s₀', (s.twin r₀).typedRange sh want = (.ok v, s₀') ∧ Twin s'.reader s₀'.reader c ∧
      s₀' = s'.twin s₀'.reader := by
  unfold ElfStream.typedRange at h ⊢
  by_cases hty : sh.sh_type = want
  · have hne : ¬ sh.sh_type ≠ want := by simp [hty]
    simp only [hne, if_false] at h ⊢
    cases hrg : dataRange sh.sh_offset sh.sh_size with
    | err e => simp [hrg] at h
    | panic => simp [hrg] at h
    | ok rg =>
      simp only [hrg] at h ⊢
      rw [← rbind_pure_id (s.reader.readBytes rg.1 rg.2)] at h
      have := withReader_pure_twin s r₀ c ht rg.1 rg.2 (dataRange_le' hrg) Out.ok v s' h
      rw [rbind_pure_id] at this
      exact this
  · simp [hty] at h

/-- the typed views: `Ok` under faults = the fault-free iterator / bytes -/
theorem strtab_twin (s : ElfStream) (r₀ : CachingReader) (c : Array UInt8) (ht : Twin s.reader r₀ c)
    (sh : SectionHeader) (v : Slice) (s' : ElfStream) (h : s.sectionDataAsStrtab sh = (.ok v, s')) :
    ∃ s₀', (s.twin r₀).sectionDataAsStrtab sh = (.ok v, s₀') ∧ Twin s'.reader s₀'.reader c := by
  obtain ⟨s₀', g1, g2, _⟩ := typedRange_twin s r₀ c ht sh _ v s' h
  exact ⟨s₀', g1, g2⟩

theorem rels_twin (s : ElfStream) (r₀ : CachingReader) (c : Array UInt8) (ht : Twin s.reader r₀ c)
    (sh : SectionHeader) (v : Iter Rel) (s' : ElfStream) (h : s.sectionDataAsRels sh = (.ok v, s')) :
    ∃ s₀', (s.twin r₀).sectionDataAsRels sh = (.ok v, s₀') ∧ Twin s'.reader s₀'.reader c := by
  unfold ElfStream.sectionDataAsRels at h ⊢
  generalize hq : s.typedRange sh Abi.SHT_REL = q at h
  obtain ⟨q1, q2⟩ := q
  cases q1 with
  | err e => simp at h
  | panic => simp at h
  | ok buf =>
    simp only at h
    injection h with h1 h2; subst h2
    obtain ⟨s₀', g1, g2, _⟩ := typedRange_twin s r₀ c ht sh _ buf q2 hq
    rw [g1]
    exact ⟨s₀', by rw [← h1]; rfl, g2⟩

theorem relas_twin (s : ElfStream) (r₀ : CachingReader) (c : Array UInt8) (ht : Twin s.reader r₀ c)
    (sh : SectionHeader) (v : Iter Rela) (s' : ElfStream) (h : s.sectionDataAsRelas sh = (.ok v, s')) :
    ∃ s₀', (s.twin r₀).sectionDataAsRelas sh = (.ok v, s₀') ∧ Twin s'.reader s₀'.reader c := by
  unfold ElfStream.sectionDataAsRelas at h ⊢
  generalize hq : s.typedRange sh Abi.SHT_RELA = q at h
  obtain ⟨q1, q2⟩ := q
  cases q1 with
  | err e => simp at h
  | panic => simp at h
  | ok buf =>
    simp only at h
    injection h with h1 h2; subst h2
    obtain ⟨s₀', g1, g2, _⟩ := typedRange_twin s r₀ c ht sh _ buf q2 hq
    rw [g1]
    exact ⟨s₀', by rw [← h1]; rfl, g2⟩

theorem section_notes_twin (s : ElfStream) (r₀ : CachingReader) (c : Array UInt8) (ht : Twin s.reader r₀ c)
    (sh : SectionHeader) (v : NoteIter) (s' : ElfStream) (h : s.sectionDataAsNotes sh = (.ok v, s')) :
    ∃ s₀', (s.twin r₀).sectionDataAsNotes sh = (.ok v, s₀') ∧ Twin s'.reader s₀'.reader c := by
  unfold ElfStream.sectionDataAsNotes at h ⊢
  generalize hq : s.typedRange sh Abi.SHT_NOTE = q at h
  obtain ⟨q1, q2⟩ := q
  cases q1 with
  | err e => simp at h
  | panic => simp at h
  | ok buf =>
    simp only at h
    injection h with h1 h2; subst h2
    obtain ⟨s₀', g1, g2, _⟩ := typedRange_twin s r₀ c ht sh _ buf q2 hq
    rw [g1]
    exact ⟨s₀', by rw [← h1]; rfl, g2⟩

theorem segment_notes_twin (s : ElfStream) (r₀ : CachingReader) (c : Array UInt8) (ht : Twin s.reader r₀ c)
    (ph : ProgramHeader) (v : NoteIter) (s' : ElfStream) (h : s.segmentDataAsNotes ph = (.ok v, s')) :
    ∃ s₀', (s.twin r₀).segmentDataAsNotes ph = (.ok v, s₀') ∧ Twin s'.reader s₀'.reader c := by
  unfold ElfStream.segmentDataAsNotes at h ⊢
  by_cases hty : ph.p_type = Abi.PT_NOTE
  · have hne : ¬ ph.p_type ≠ Abi.PT_NOTE := by simp [hty]
    simp only [hne, if_false] at h ⊢
    cases hrg : dataRange ph.p_offset ph.p_filesz with
    | err e => simp [hrg] at h
    | panic => simp [hrg] at h
    | ok rg =>
      simp only [hrg] at h ⊢
      obtain ⟨s₀', g1, g2, _⟩ := withReader_pure_twin s r₀ c ht rg.1 rg.2 (dataRange_le' hrg)
        (fun buf => Out.ok (⟨s.ehdr.little, s.ehdr.cls, ph.p_align, buf, 0⟩ : NoteIter)) v s' h
      exact ⟨s₀', g1, g2⟩
  · simp [hty] at h

theorem strtabAt_twin (s : ElfStream) (r₀ : CachingReader) (c : Array UInt8) (ht : Twin s.reader r₀ c)
    (idx : Nat) (v : Option Slice) (s' : ElfStream) (h : s.strtabAt idx = (.ok v, s')) :
    ∃ s₀', (s.twin r₀).strtabAt idx = (.ok v, s₀') ∧ Twin s'.reader s₀'.reader c ∧ s₀' = s'.twin s₀'.reader := by
  unfold ElfStream.strtabAt at h ⊢
  have hsh : (s.twin r₀).shdrs = s.shdrs := rfl
  rw [hsh]
  cases hidx : s.shdrs[idx]? with
  | none => simp [hidx] at h
  | some strtab =>
    simp only [hidx] at h ⊢
    cases hrg : dataRange strtab.sh_offset strtab.sh_size with
    | err e => simp [hrg] at h
    | panic => simp [hrg] at h
    | ok rg =>
      simp only [hrg] at h ⊢
      exact withReader_pure_twin s r₀ c ht rg.1 rg.2 (dataRange_le' hrg) (fun buf => Out.ok (some buf)) v s' h

theorem shstrtab_twin (s : ElfStream) (r₀ : CachingReader) (c : Array UInt8) (ht : Twin s.reader r₀ c)
    (v : Option Slice) (s' : ElfStream) (h : s.sectionHeadersWithStrtab = (.ok v, s')) :
    ∃ s₀', (s.twin r₀).sectionHeadersWithStrtab = (.ok v, s₀') ∧ Twin s'.reader s₀'.reader c ∧
      s₀' = s'.twin s₀'.reader := by
  unfold ElfStream.sectionHeadersWithStrtab at h ⊢
  have hsh : (s.twin r₀).shdrs = s.shdrs := rfl
  have heh : (s.twin r₀).ehdr = s.ehdr := rfl
  rw [hsh, heh]
  by_cases hE : s.shdrs.isEmpty = true
  · simp only [hE, if_true] at h ⊢
    injection h with h1 h2; subst h2
    exact ⟨_, by rw [h1], ht, rfl⟩
  · simp only [hE] at h ⊢
    show ∃ s₀', (if s.ehdr.t.e_shstrndx = Abi.SHN_UNDEF then _ else _) = _ ∧ _
    by_cases hu : s.ehdr.t.e_shstrndx = Abi.SHN_UNDEF
    · simp only [hu, if_true] at h ⊢
      injection h with h1 h2; subst h2
      exact ⟨_, by rw [h1], ht, rfl⟩
    · simp only [hu, if_false] at h ⊢
      show ∃ s₀', (if s.ehdr.t.e_shstrndx = Abi.SHN_XINDEX then _ else _) = _ ∧ _
      by_cases hx : s.ehdr.t.e_shstrndx = Abi.SHN_XINDEX
      · simp only [hx, if_true] at h ⊢
        cases h0 : s.shdrs[0]? with
        | none => simp [h0] at h
        | some s0 =>
          simp only [h0] at h ⊢
          exact strtabAt_twin s r₀ c ht _ v s' h
      · simp only [hx, if_false] at h ⊢
        exact strtabAt_twin s r₀ c ht _ v s' h

theorem byName_twin (s : ElfStream) (r₀ : CachingReader) (c : Array UInt8) (ht : Twin s.reader r₀ c)
    (name : Slice) (v : Option SectionHeader) (s' : ElfStream) (h : s.sectionHeaderByName name = (.ok v, s')) :
    ∃ s₀', (s.twin r₀).sectionHeaderByName name = (.ok v, s₀') ∧ Twin s'.reader s₀'.reader c := by
  unfold ElfStream.sectionHeaderByName at h ⊢
  generalize hq : s.sectionHeadersWithStrtab = q at h
  obtain ⟨q1, q2⟩ := q
  cases q1 with
  | err e => simp at h
  | panic => simp at h
  | ok o =>
    obtain ⟨s₀', g1, g2, g3⟩ := shstrtab_twin s r₀ c ht o q2 hq
    rw [g1]
    cases o with
    | none =>
      simp only at h ⊢
      injection h with h1 h2; subst h2
      exact ⟨s₀', by rw [h1], g2⟩
    | some strtab =>
      simp only at h ⊢
      injection h with h1 h2; subst h2
      refine ⟨s₀', ?_, g2⟩
      rw [g3]; simp only [ElfStream.twin]; rw [h1]

/-! ### dynamic table, symbol tables, symbol version table -/

theorem dynamic_twin (s : ElfStream) (r₀ : CachingReader) (c : Array UInt8) (ht : Twin s.reader r₀ c)
    (v : Option (Table Dyn)) (s' : ElfStream) (h : s.dynamic = (.ok v, s')) :
    ∃ s₀', (s.twin r₀).dynamic = (.ok v, s₀') ∧ Twin s'.reader s₀'.reader c := by
  unfold ElfStream.dynamic at h ⊢
  have hsh : (s.twin r₀).shdrs = s.shdrs := rfl
  have hph : (s.twin r₀).phdrs = s.phdrs := rfl
  rw [hsh, hph]
  have key : ∀ off size, ∀ v s',
      (match dataRange off size with
        | .err e => ((.err e : Out (Option (Table Dyn))), s)
        | .panic => (.panic, s)
        | .ok rg => s.withReader (rbind (s.reader.readBytes rg.1 rg.2) fun buf r => (.ok (some (s.dynTable buf)), r)))
        = (.ok v, s') →
      ∃ s₀', (match dataRange off size with
        | .err e => ((.err e : Out (Option (Table Dyn))), s.twin r₀)
        | .panic => (.panic, s.twin r₀)
        | .ok rg => (s.twin r₀).withReader (rbind ((s.twin r₀).reader.readBytes rg.1 rg.2)
            fun buf r => (.ok (some ((s.twin r₀).dynTable buf)), r))) = (.ok v, s₀') ∧
        Twin s'.reader s₀'.reader c := by
    intro off size v s' hk
    cases hrg : dataRange off size with
    | err e => simp [hrg] at hk
    | panic => simp [hrg] at hk
    | ok rg =>
      simp only [hrg] at hk ⊢
      obtain ⟨s₀', g1, g2, _⟩ := withReader_pure_twin s r₀ c ht rg.1 rg.2 (dataRange_le' hrg)
        (fun buf => Out.ok (some (s.dynTable buf))) v s' hk
      exact ⟨s₀', g1, g2⟩
  by_cases hE : (!s.shdrs.isEmpty) = true
  · simp only [hE, if_true] at h ⊢
    cases hf : s.shdrs.find? (fun sh => sh.sh_type == Abi.SHT_DYNAMIC) with
    | none =>
      simp only [hf] at h ⊢
      injection h with h1 h2; subst h2
      exact ⟨_, by rw [h1], ht⟩
    | some shdr =>
      simp only [hf] at h ⊢
      exact key _ _ v s' h
  · simp only [hE, Bool.false_eq_true, if_false] at h ⊢
    by_cases hP : (!s.phdrs.isEmpty) = true
    · simp only [hP, if_true] at h ⊢
      cases hf : s.phdrs.find? (fun ph => ph.p_type == Abi.PT_DYNAMIC) with
      | none =>
        simp only [hf] at h ⊢
        injection h with h1 h2; subst h2
        exact ⟨_, by rw [h1], ht⟩
      | some phdr =>
        simp only [hf] at h ⊢
        exact key _ _ v s' h
    · simp only [hP, Bool.false_eq_true, if_false] at h ⊢
      injection h with h1 h2; subst h2
      exact ⟨_, by rw [h1], ht⟩

theorem symtab_twin (s : ElfStream) (r₀ : CachingReader) (c : Array UInt8) (ht : Twin s.reader r₀ c)
    (ty : Nat) (v : Option (Table Symbol × Slice)) (s' : ElfStream)
    (h : s.symbolTableOfType ty = (.ok v, s')) :
    ∃ s₀', (s.twin r₀).symbolTableOfType ty = (.ok v, s₀') ∧ Twin s'.reader s₀'.reader c := by
  unfold ElfStream.symbolTableOfType at h ⊢
  have hsh : (s.twin r₀).shdrs = s.shdrs := rfl
  have heh : (s.twin r₀).ehdr = s.ehdr := rfl
  have hrd : (s.twin r₀).reader = r₀ := rfl
  rw [hsh, heh, hrd]
  by_cases hE : s.shdrs.isEmpty = true
  · simp only [hE, if_true] at h ⊢
    injection h with h1 h2; subst h2
    exact ⟨_, by rw [h1], ht⟩
  · simp only [hE, Bool.false_eq_true, if_false] at h ⊢
    cases hf : s.shdrs.find? (fun sh => sh.sh_type == ty) with
    | none =>
      simp only [hf] at h ⊢
      injection h with h1 h2; subst h2
      exact ⟨_, by rw [h1], ht⟩
    | some shdr =>
      simp only [hf] at h ⊢
      cases hrg : dataRange shdr.sh_offset shdr.sh_size with
      | err e => simp [hrg] at h
      | panic => simp [hrg] at h
      | ok rg =>
        simp only [hrg, ElfStream.withReader, rbind] at h ⊢
        generalize hl1 : s.reader.loadBytes rg.1 rg.2 = l1 at h
        obtain ⟨l1a, r1⟩ := l1
        cases l1a with
        | err e => simp at h
        | panic => simp at h
        | ok u1 =>
          obtain ⟨r₀1, g1, t1, ⟨b1, k1, k1'⟩, _, _⟩ :=
            loadBytes_twin s.reader r₀ c ht rg.1 rg.2 (dataRange_le' hrg) r1 hl1
          rw [g1]
          simp only at h ⊢
          cases hlink : s.shdrs[shdr.sh_link]? with
          | none => simp [hlink] at h
          | some strtab =>
            simp only [hlink] at h ⊢
            cases hrg2 : dataRange strtab.sh_offset strtab.sh_size with
            | err e => simp [hrg2] at h
            | panic => simp [hrg2] at h
            | ok rg2 =>
              simp only [hrg2] at h ⊢
              generalize hl2 : r1.loadBytes rg2.1 rg2.2 = l2 at h
              obtain ⟨l2a, r2⟩ := l2
              cases l2a with
              | err e => simp at h
              | panic => simp at h
              | ok u2 =>
                obtain ⟨r₀2, g2, t2, ⟨b2, k2, k2'⟩, m2, m2'⟩ :=
                  loadBytes_twin r1 r₀1 c t1 rg2.1 rg2.2 (dataRange_le' hrg2) r2 hl2
                rw [g2]
                simp only [rlift] at h ⊢
                cases hv : Symbol.ep.validateEntsize s.ehdr.cls shdr.sh_entsize with
                | err e => simp [hv] at h
                | panic => simp [hv] at h
                | ok vv =>
                  simp only [hv, CachingReader.getBytes, m2 _ _ _ k1, m2' _ _ _ k1', k2, k2'] at h ⊢
                  injection h with h1 h2; subst h2
                  exact ⟨_, by rw [h1], t2⟩

/-- the two caches agree on the keys a `ver_load` result names -/
def LoAgree (r r₀ : CachingReader) : Option (SectionHeader × (Nat × Nat) × (Nat × Nat)) → Prop
  | none => True
  | some (_, rg, srg) =>
    (∃ b, r.lookup rg.1 rg.2 = some b ∧ r₀.lookup rg.1 rg.2 = some b) ∧
    (∃ b, r.lookup srg.1 srg.2 = some b ∧ r₀.lookup srg.1 srg.2 = some b)

/-- `ver_load` under faults vs on the twin: same result, and every key it leaves cached on the
    faulty side is cached with the same buffer on the twin -/
theorem verLoad_twin (s s₂ : ElfStream) (hs₂ : s₂.shdrs = s.shdrs) (r r₀ : CachingReader) (c : Array UInt8)
    (ht : Twin r r₀ c)
    (o : Option SectionHeader) (lo : Option (SectionHeader × (Nat × Nat) × (Nat × Nat))) (r' : CachingReader)
    (h : s.verLoad o r = (.ok lo, r')) :
    ∃ r₀', s₂.verLoad o r₀ = (.ok lo, r₀') ∧ Twin r' r₀' c ∧
      (∀ s2 e2 b2, r.lookup s2 e2 = some b2 → r'.lookup s2 e2 = some b2) ∧
      (∀ s2 e2 b2, r₀.lookup s2 e2 = some b2 → r₀'.lookup s2 e2 = some b2) ∧
      LoAgree r' r₀' lo := by
  unfold ElfStream.verLoad at h ⊢
  rw [hs₂]
  cases o with
  | none =>
    simp only at h ⊢
    injection h with h1 h2; subst h2
    injection h1 with h1; subst h1
    exact ⟨r₀, rfl, ht, fun _ _ _ hb => hb, fun _ _ _ hb => hb, trivial⟩
  | some shdr =>
    simp only [rbind, rlift] at h ⊢
    cases hrg : dataRange shdr.sh_offset shdr.sh_size with
    | err e => simp [hrg] at h
    | panic => simp [hrg] at h
    | ok rg =>
      simp only [hrg] at h ⊢
      generalize hl1 : r.loadBytes rg.1 rg.2 = l1 at h
      obtain ⟨l1a, r1⟩ := l1
      cases l1a with
      | err e => simp at h
      | panic => simp at h
      | ok u1 =>
        obtain ⟨r₀1, g1, t1, ⟨b1, k1, k1'⟩, m1, m1'⟩ :=
          loadBytes_twin r r₀ c ht rg.1 rg.2 (dataRange_le' hrg) r1 hl1
        rw [g1]
        simp only at h ⊢
        cases hlink : s.shdrs[shdr.sh_link]? with
        | none => simp [hlink] at h
        | some strs =>
          simp only [hlink] at h ⊢
          cases hrg2 : dataRange strs.sh_offset strs.sh_size with
          | err e => simp [hrg2] at h
          | panic => simp [hrg2] at h
          | ok rg2 =>
            simp only [hrg2] at h ⊢
            generalize hl2 : r1.loadBytes rg2.1 rg2.2 = l2 at h
            obtain ⟨l2a, r2⟩ := l2
            cases l2a with
            | err e => simp at h
            | panic => simp at h
            | ok u2 =>
              obtain ⟨r₀2, g2, t2, ⟨b2, k2, k2'⟩, m2, m2'⟩ :=
                loadBytes_twin r1 r₀1 c t1 rg2.1 rg2.2 (dataRange_le' hrg2) r2 hl2
              rw [g2]
              simp only at h ⊢
              injection h with h1 h2; subst h2
              injection h1 with h1; subst h1
              exact ⟨r₀2, rfl, t2, fun _ _ _ hb => m2 _ _ _ (m1 _ _ _ hb),
                fun _ _ _ hb => m2' _ _ _ (m1' _ _ _ hb),
                ⟨b1, m2 _ _ _ k1, m2' _ _ _ k1'⟩, ⟨b2, k2, k2'⟩⟩

/-- `ver_wrap` reads only keys on which the two caches agree -/
theorem verWrap_twin (s s₂ : ElfStream) (hs₂ : s₂.ehdr = s.ehdr) (r r₀ : CachingReader)
    (lo : Option (SectionHeader × (Nat × Nat) × (Nat × Nat)))
    (hagree : LoAgree r r₀ lo) :
    s₂.verWrap lo r₀ = s.verWrap lo r := by
  unfold ElfStream.verWrap
  rw [hs₂]
  cases lo with
  | none => rfl
  | some x =>
    obtain ⟨shdr, rg, srg⟩ := x
    obtain ⟨⟨b1, a1, a1'⟩, ⟨b2, a2, a2'⟩⟩ := hagree
    simp only [CachingReader.getBytes, a1, a1', a2, a2']

theorem symver_twin (s : ElfStream) (r₀ : CachingReader) (c : Array UInt8) (ht : Twin s.reader r₀ c)
    (v : Option SymbolVersionTable) (s' : ElfStream) (h : s.symbolVersionTable = (.ok v, s')) :
    ∃ s₀', (s.twin r₀).symbolVersionTable = (.ok v, s₀') ∧ Twin s'.reader s₀'.reader c := by
  unfold ElfStream.symbolVersionTable at h ⊢
  have hsh : (s.twin r₀).shdrs = s.shdrs := rfl
  have heh : (s.twin r₀).ehdr = s.ehdr := rfl
  have hrd : (s.twin r₀).reader = r₀ := rfl
  rw [hsh, heh, hrd]
  by_cases hE : s.shdrs.isEmpty = true
  · simp only [hE, if_true] at h ⊢
    injection h with h1 h2; subst h2
    exact ⟨_, by rw [h1], ht⟩
  · simp only [hE, Bool.false_eq_true, if_false] at h ⊢
    generalize ElfStream.verScanList s.shdrs none none none = sc at h ⊢
    obtain ⟨vs, nd, df⟩ := sc
    simp only at h ⊢
    cases vs with
    | none =>
      simp only at h ⊢
      injection h with h1 h2; subst h2
      exact ⟨_, by rw [h1], ht⟩
    | some versym =>
      simp only [ElfStream.withReader, rbind, rlift] at h ⊢
      cases hv : VersionIndex.ep.validateEntsize s.ehdr.cls versym.sh_entsize with
      | err e => simp [hv] at h
      | panic => simp [hv] at h
      | ok vv =>
        simp only [hv] at h ⊢
        cases hrg : dataRange versym.sh_offset versym.sh_size with
        | err e => simp [hrg] at h
        | panic => simp [hrg] at h
        | ok vrg =>
          simp only [hrg] at h ⊢
          generalize hl1 : s.reader.loadBytes vrg.1 vrg.2 = l1 at h
          obtain ⟨l1a, r1⟩ := l1
          cases l1a with
          | err e => simp at h
          | panic => simp at h
          | ok u1 =>
            obtain ⟨r₀1, g1, t1, ⟨bv, kv, kv'⟩, _, _⟩ :=
              loadBytes_twin s.reader r₀ c ht vrg.1 vrg.2 (dataRange_le' hrg) r1 hl1
            rw [g1]
            simp only at h ⊢
            generalize hn : s.verLoad nd r1 = ln at h
            obtain ⟨lna, r2⟩ := ln
            cases lna with
            | err e => simp at h
            | panic => simp at h
            | ok needs =>
              obtain ⟨r₀2, g2, t2, mn, mn', an⟩ := verLoad_twin s (s.twin r₀) rfl r1 r₀1 c t1 nd needs r2 hn
              rw [g2]
              simp only at h ⊢
              generalize hd : s.verLoad df r2 = ld at h
              obtain ⟨lda, r3⟩ := ld
              cases lda with
              | err e => simp at h
              | panic => simp at h
              | ok defs =>
                obtain ⟨r₀3, g3, t3, md, md', ad⟩ := verLoad_twin s (s.twin r₀) rfl r2 r₀2 c t2 df defs r3 hd
                rw [g3]
                simp only at h ⊢
                have an3 : LoAgree r3 r₀3 needs := by
                  cases needs with
                  | none => trivial
                  | some x =>
                    obtain ⟨sh, rg, srg⟩ := x
                    obtain ⟨⟨b1, a1, a1'⟩, ⟨b2, a2, a2'⟩⟩ := an
                    exact ⟨⟨b1, md _ _ _ a1, md' _ _ _ a1'⟩, ⟨b2, md _ _ _ a2, md' _ _ _ a2'⟩⟩
                rw [verWrap_twin s (s.twin r₀) rfl r3 r₀3 needs an3]
                cases hwn : s.verWrap needs r3 with
                | err e => simp [hwn] at h
                | panic => simp [hwn] at h
                | ok wn =>
                  simp only [hwn] at h ⊢
                  rw [verWrap_twin s (s.twin r₀) rfl r3 r₀3 defs ad]
                  cases hwd : s.verWrap defs r3 with
                  | err e => simp [hwd] at h
                  | panic => simp [hwd] at h
                  | ok wd =>
                    have kv3 := md _ _ _ (mn _ _ _ kv)
                    have kv3' := md' _ _ _ (mn' _ _ _ kv')
                    simp only [hwd, CachingReader.getBytes, kv3, kv3'] at h ⊢
                    injection h with h1 h2; subst h2
                    exact ⟨_, by rw [h1], t3⟩

/-! ### no residue: the weak invariant survives every query, whatever the schedule and outcome -/

theorem withReader_winv {α} (s : ElfStream) (c : Array UInt8) (x : Out α × CachingReader)
    (h : WInv x.2 c) : WInv (s.withReader x).2.reader c := h

theorem rbind_read_winv {α} (r : CachingReader) (c : Array UInt8) (hw : WInv r c) (a b : Nat)
    (k : Slice → CachingReader → Out α × CachingReader) (hk : ∀ buf r', (k buf r').2 = r') :
    WInv (rbind (r.readBytes a b) k).2 c := by
  have := readBytes_winv r c a b hw
  unfold rbind
  generalize r.readBytes a b = q at this
  obtain ⟨q1, q2⟩ := q
  cases q1 with
  | ok buf => simp only; rw [hk]; exact this
  | err e => exact this
  | panic => exact this

theorem sectionData_winv (s : ElfStream) (c : Array UInt8) (hw : WInv s.reader c) (sh : SectionHeader) :
    WInv (s.sectionData sh).2.reader c := by
  rw [sectionData_eq]
  split
  · exact hw
  · split
    · exact hw
    · exact hw
    · exact rbind_read_winv s.reader c hw _ _ _ (fun _ _ => rfl)

theorem typedRange_winv (s : ElfStream) (c : Array UInt8) (hw : WInv s.reader c) (sh : SectionHeader) (want : Nat) :
    WInv (s.typedRange sh want).2.reader c := by
  unfold ElfStream.typedRange
  split
  · exact hw
  · split
    · exact hw
    · exact hw
    · exact readBytes_winv s.reader c _ _ hw

theorem segmentNotes_winv (s : ElfStream) (c : Array UInt8) (hw : WInv s.reader c) (ph : ProgramHeader) :
    WInv (s.segmentDataAsNotes ph).2.reader c := by
  unfold ElfStream.segmentDataAsNotes
  split
  · exact hw
  · split
    · exact hw
    · exact hw
    · exact rbind_read_winv s.reader c hw _ _ _ (fun _ _ => rfl)

theorem strtabAt_winv (s : ElfStream) (c : Array UInt8) (hw : WInv s.reader c) (idx : Nat) :
    WInv (s.strtabAt idx).2.reader c := by
  unfold ElfStream.strtabAt
  split
  · exact hw
  · split
    · exact hw
    · exact hw
    · exact rbind_read_winv s.reader c hw _ _ _ (fun _ _ => rfl)

theorem shstrtab_winv (s : ElfStream) (c : Array UInt8) (hw : WInv s.reader c) :
    WInv s.sectionHeadersWithStrtab.2.reader c := by
  unfold ElfStream.sectionHeadersWithStrtab
  split
  · exact hw
  · split
    · exact hw
    · split
      · split
        · exact strtabAt_winv s c hw _
        · exact hw
      · exact strtabAt_winv s c hw _

theorem dynamic_winv (s : ElfStream) (c : Array UInt8) (hw : WInv s.reader c) :
    WInv s.dynamic.2.reader c := by
  unfold ElfStream.dynamic
  split
  · split
    · split
      · exact hw
      · exact hw
      · exact rbind_read_winv s.reader c hw _ _ _ (fun _ _ => rfl)
    · exact hw
  · split
    · split
      · split
        · exact hw
        · exact hw
        · exact rbind_read_winv s.reader c hw _ _ _ (fun _ _ => rfl)
      · exact hw
    · exact hw

theorem symtab_winv (s : ElfStream) (c : Array UInt8) (hw : WInv s.reader c) (ty : Nat) :
    WInv (s.symbolTableOfType ty).2.reader c := by
  unfold ElfStream.symbolTableOfType
  split
  · exact hw
  · split
    · exact hw
    · rename_i shdr _
      cases hrg : dataRange shdr.sh_offset shdr.sh_size with
      | err e => exact hw
      | panic => exact hw
      | ok rg =>
        simp only [ElfStream.withReader]
        have h1 := loadBytes_winv s.reader c rg.1 rg.2 hw
        unfold rbind
        generalize s.reader.loadBytes rg.1 rg.2 = q at h1
        obtain ⟨q1, q2⟩ := q
        cases q1 with
        | err e => exact h1
        | panic => exact h1
        | ok u =>
          simp only at h1 ⊢
          split
          · exact h1
          · rename_i strtab _
            cases hrg2 : dataRange strtab.sh_offset strtab.sh_size with
            | err e => exact h1
            | panic => exact h1
            | ok rg2 =>
              simp only
              have h2 := loadBytes_winv q2 c rg2.1 rg2.2 h1
              generalize q2.loadBytes rg2.1 rg2.2 = p at h2
              obtain ⟨p1, p2⟩ := p
              cases p1 with
              | err e => exact h2
              | panic => exact h2
              | ok u2 =>
                simp only [rlift] at h2 ⊢
                cases Symbol.ep.validateEntsize s.ehdr.cls shdr.sh_entsize with
                | err e => exact h2
                | panic => exact h2
                | ok v =>
                  simp only
                  cases p2.getBytes rg.1 rg.2 with
                  | err e => exact h2
                  | panic => exact h2
                  | ok b1 =>
                    simp only
                    cases p2.getBytes rg2.1 rg2.2 <;> exact h2

theorem verLoad_winv (s : ElfStream) (c : Array UInt8) (o : Option SectionHeader) (r : CachingReader)
    (h : WInv r c) : WInv (s.verLoad o r).2 c := by
  unfold ElfStream.verLoad
  cases o with
  | none => exact h
  | some shdr =>
    simp only [rbind, rlift]
    cases hrg : dataRange shdr.sh_offset shdr.sh_size with
    | err e => exact h
    | panic => exact h
    | ok rg =>
      simp only
      have h1 := loadBytes_winv r c rg.1 rg.2 h
      generalize r.loadBytes rg.1 rg.2 = q at h1
      obtain ⟨q1, q2⟩ := q
      cases q1 with
      | err e => exact h1
      | panic => exact h1
      | ok u =>
        simp only at h1 ⊢
        split
        · exact h1
        · rename_i strs _
          cases hrg2 : dataRange strs.sh_offset strs.sh_size with
          | err e => exact h1
          | panic => exact h1
          | ok rg2 =>
            simp only
            have h2 := loadBytes_winv q2 c rg2.1 rg2.2 h1
            generalize q2.loadBytes rg2.1 rg2.2 = p at h2
            obtain ⟨p1, p2⟩ := p
            cases p1 <;> exact h2

theorem symver_winv (s : ElfStream) (c : Array UInt8) (hw : WInv s.reader c) :
    WInv s.symbolVersionTable.2.reader c := by
  unfold ElfStream.symbolVersionTable
  split
  · exact hw
  · generalize ElfStream.verScanList s.shdrs none none none = sc
    obtain ⟨vs, nd, df⟩ := sc
    simp only
    cases vs with
    | none => exact hw
    | some versym =>
      simp only [ElfStream.withReader, rbind, rlift]
      cases VersionIndex.ep.validateEntsize s.ehdr.cls versym.sh_entsize with
      | err e => exact hw
      | panic => exact hw
      | ok v =>
        simp only
        cases hrg : dataRange versym.sh_offset versym.sh_size with
        | err e => exact hw
        | panic => exact hw
        | ok vrg =>
          simp only
          have h1 := loadBytes_winv s.reader c vrg.1 vrg.2 hw
          generalize s.reader.loadBytes vrg.1 vrg.2 = q at h1
          obtain ⟨q1, q2⟩ := q
          cases q1 with
          | err e => exact h1
          | panic => exact h1
          | ok u =>
            simp only at h1 ⊢
            have h2 := verLoad_winv s c nd q2 h1
            generalize s.verLoad nd q2 = p at h2
            obtain ⟨p1, p2⟩ := p
            cases p1 with
            | err e => exact h2
            | panic => exact h2
            | ok needs =>
              simp only at h2 ⊢
              have h3 := verLoad_winv s c df p2 h2
              generalize s.verLoad df p2 = w at h3
              obtain ⟨w1, w2⟩ := w
              cases w1 with
              | err e => exact h3
              | panic => exact h3
              | ok defs =>
                simp only at h3 ⊢
                cases s.verWrap needs w2 with
                | err e => exact h3
                | panic => exact h3
                | ok vn =>
                  simp only
                  cases s.verWrap defs w2 with
                  | err e => exact h3
                  | panic => exact h3
                  | ok vd =>
                    simp only
                    cases w2.getBytes vrg.1 vrg.2 <;> exact h3

/-- **No residue**: after any query, under any schedule and whatever the query returned, the
    reader still satisfies the invariant (its cache is the file's bytes; the contents are untouched). -/
theorem Query.after_winv (q : Query) (s : ElfStream) (c : Array UInt8) (hw : WInv s.reader c) :
    WInv (q.after s).reader c := by
  cases q with
  | sectionData sh => exact sectionData_winv s c hw sh
  | strtab sh => exact typedRange_winv s c hw sh _
  | rels sh =>
    have := typedRange_winv s c hw sh Abi.SHT_REL
    simp only [Query.after, ElfStream.sectionDataAsRels]
    generalize s.typedRange sh Abi.SHT_REL = q at this
    obtain ⟨q1, q2⟩ := q
    cases q1 <;> exact this
  | relas sh =>
    have := typedRange_winv s c hw sh Abi.SHT_RELA
    simp only [Query.after, ElfStream.sectionDataAsRelas]
    generalize s.typedRange sh Abi.SHT_RELA = q at this
    obtain ⟨q1, q2⟩ := q
    cases q1 <;> exact this
  | notes sh =>
    have := typedRange_winv s c hw sh Abi.SHT_NOTE
    simp only [Query.after, ElfStream.sectionDataAsNotes]
    generalize s.typedRange sh Abi.SHT_NOTE = q at this
    obtain ⟨q1, q2⟩ := q
    cases q1 <;> exact this
  | segmentNotes ph => exact segmentNotes_winv s c hw ph
  | shstrtab => exact shstrtab_winv s c hw
  | byName name =>
    have := shstrtab_winv s c hw
    simp only [Query.after, ElfStream.sectionHeaderByName]
    generalize s.sectionHeadersWithStrtab = q at this
    obtain ⟨q1, q2⟩ := q
    cases q1 with
    | ok o => cases o <;> exact this
    | err e => exact this
    | panic => exact this
  | symbolTable => exact symtab_winv s c hw _
  | dynamicSymbolTable => exact symtab_winv s c hw _
  | dynamic => exact dynamic_winv s c hw
  | symbolVersionTable => exact symver_winv s c hw

theorem history_winv (qs : List Query) (s : ElfStream) (c : Array UInt8) (hw : WInv s.reader c) :
    WInv (qs.foldl (fun s q => q.after s) s).reader c := by
  induction qs generalizing s with
  | nil => exact hw
  | cons q qs ih => exact ih _ (q.after_winv s c hw)

/-- queries never change the parsed headers -/
theorem Query.after_headers (q : Query) (s : ElfStream) :
    (q.after s).ehdr = s.ehdr ∧ (q.after s).shdrs = s.shdrs ∧ (q.after s).phdrs = s.phdrs := by
  cases q <;> simp only [Query.after]
  case sectionData sh =>
    rw [sectionData_eq]; split
    · exact ⟨rfl, rfl, rfl⟩
    · split <;> exact ⟨rfl, rfl, rfl⟩
  case strtab sh =>
    unfold ElfStream.sectionDataAsStrtab ElfStream.typedRange; split
    · exact ⟨rfl, rfl, rfl⟩
    · split <;> exact ⟨rfl, rfl, rfl⟩
  case rels sh =>
    unfold ElfStream.sectionDataAsRels
    have : (s.typedRange sh Abi.SHT_REL).2.ehdr = s.ehdr ∧ (s.typedRange sh Abi.SHT_REL).2.shdrs = s.shdrs ∧
        (s.typedRange sh Abi.SHT_REL).2.phdrs = s.phdrs := by
      unfold ElfStream.typedRange; split
      · exact ⟨rfl, rfl, rfl⟩
      · split <;> exact ⟨rfl, rfl, rfl⟩
    generalize s.typedRange sh Abi.SHT_REL = q at this
    obtain ⟨q1, q2⟩ := q
    cases q1 <;> exact this
  case relas sh =>
    unfold ElfStream.sectionDataAsRelas
    have : (s.typedRange sh Abi.SHT_RELA).2.ehdr = s.ehdr ∧ (s.typedRange sh Abi.SHT_RELA).2.shdrs = s.shdrs ∧
        (s.typedRange sh Abi.SHT_RELA).2.phdrs = s.phdrs := by
      unfold ElfStream.typedRange; split
      · exact ⟨rfl, rfl, rfl⟩
      · split <;> exact ⟨rfl, rfl, rfl⟩
    generalize s.typedRange sh Abi.SHT_RELA = q at this
    obtain ⟨q1, q2⟩ := q
    cases q1 <;> exact this
  case notes sh =>
    unfold ElfStream.sectionDataAsNotes
    have : (s.typedRange sh Abi.SHT_NOTE).2.ehdr = s.ehdr ∧ (s.typedRange sh Abi.SHT_NOTE).2.shdrs = s.shdrs ∧
        (s.typedRange sh Abi.SHT_NOTE).2.phdrs = s.phdrs := by
      unfold ElfStream.typedRange; split
      · exact ⟨rfl, rfl, rfl⟩
      · split <;> exact ⟨rfl, rfl, rfl⟩
    generalize s.typedRange sh Abi.SHT_NOTE = q at this
    obtain ⟨q1, q2⟩ := q
    cases q1 <;> exact this
  case segmentNotes ph =>
    unfold ElfStream.segmentDataAsNotes; split
    · exact ⟨rfl, rfl, rfl⟩
    · split <;> exact ⟨rfl, rfl, rfl⟩
  case shstrtab =>
    have hat : ∀ idx, (s.strtabAt idx).2.ehdr = s.ehdr ∧ (s.strtabAt idx).2.shdrs = s.shdrs ∧
        (s.strtabAt idx).2.phdrs = s.phdrs := by
      intro idx; unfold ElfStream.strtabAt; split
      · exact ⟨rfl, rfl, rfl⟩
      · split <;> exact ⟨rfl, rfl, rfl⟩
    unfold ElfStream.sectionHeadersWithStrtab
    split
    · exact ⟨rfl, rfl, rfl⟩
    · split
      · exact ⟨rfl, rfl, rfl⟩
      · split
        · split
          · exact hat _
          · exact ⟨rfl, rfl, rfl⟩
        · exact hat _
  case byName name =>
    have hat : ∀ idx, (s.strtabAt idx).2.ehdr = s.ehdr ∧ (s.strtabAt idx).2.shdrs = s.shdrs ∧
        (s.strtabAt idx).2.phdrs = s.phdrs := by
      intro idx; unfold ElfStream.strtabAt; split
      · exact ⟨rfl, rfl, rfl⟩
      · split <;> exact ⟨rfl, rfl, rfl⟩
    have : s.sectionHeadersWithStrtab.2.ehdr = s.ehdr ∧ s.sectionHeadersWithStrtab.2.shdrs = s.shdrs ∧
        s.sectionHeadersWithStrtab.2.phdrs = s.phdrs := by
      unfold ElfStream.sectionHeadersWithStrtab
      split
      · exact ⟨rfl, rfl, rfl⟩
      · split
        · exact ⟨rfl, rfl, rfl⟩
        · split
          · split
            · exact hat _
            · exact ⟨rfl, rfl, rfl⟩
          · exact hat _
    unfold ElfStream.sectionHeaderByName
    generalize s.sectionHeadersWithStrtab = q at this
    obtain ⟨q1, q2⟩ := q
    cases q1 with
    | ok o => cases o <;> exact this
    | err e => exact this
    | panic => exact this
  case symbolTable =>
    unfold ElfStream.symbolTable ElfStream.symbolTableOfType; split
    · exact ⟨rfl, rfl, rfl⟩
    · split
      · exact ⟨rfl, rfl, rfl⟩
      · split <;> exact ⟨rfl, rfl, rfl⟩
  case dynamicSymbolTable =>
    unfold ElfStream.dynamicSymbolTable ElfStream.symbolTableOfType; split
    · exact ⟨rfl, rfl, rfl⟩
    · split
      · exact ⟨rfl, rfl, rfl⟩
      · split <;> exact ⟨rfl, rfl, rfl⟩
  case dynamic =>
    unfold ElfStream.dynamic; split
    · split
      · split <;> exact ⟨rfl, rfl, rfl⟩
      · exact ⟨rfl, rfl, rfl⟩
    · split
      · split
        · split <;> exact ⟨rfl, rfl, rfl⟩
        · exact ⟨rfl, rfl, rfl⟩
      · exact ⟨rfl, rfl, rfl⟩
  case symbolVersionTable =>
    unfold ElfStream.symbolVersionTable; split
    · exact ⟨rfl, rfl, rfl⟩
    · generalize ElfStream.verScanList s.shdrs none none none = sc
      obtain ⟨vs, nd, df⟩ := sc
      cases vs <;> exact ⟨rfl, rfl, rfl⟩

/-! ### `open_stream` under any schedule leaves a reader satisfying the invariant -/

theorem streamShdr0_winv (h : FileHeader) (size : Nat) (proj : SectionHeader → Nat) (r : CachingReader)
    (c : Array UInt8) (hw : WInv r c) : WInv (streamShdr0 h size proj r).2 c := by
  unfold streamShdr0 rbind rlift
  cases Out.ofOption Err.IntegerOverflow (checkedAdd h.t.e_shoff size) with
  | err e => exact hw
  | panic => exact hw
  | ok end_ =>
    simp only
    have := readBytes_winv r c h.t.e_shoff end_ hw
    generalize r.readBytes h.t.e_shoff end_ = q at this
    obtain ⟨q1, q2⟩ := q
    cases q1 with
    | err e => exact this
    | panic => exact this
    | ok data =>
      simp only
      cases (SectionHeader.ep.parse h.little h.cls data 0).1 <;> exact this

theorem streamTable_winv {α} (mk : Slice → Table α) (off entsize n : Nat) (r : CachingReader)
    (c : Array UInt8) (hw : WInv r c) : WInv (streamTable mk off entsize n r).2 c := by
  unfold streamTable rbind rlift
  cases Out.ofOption Err.IntegerOverflow (checkedMul entsize n) with
  | err e => exact hw
  | panic => exact hw
  | ok size =>
    simp only
    cases Out.ofOption Err.IntegerOverflow (checkedAdd off size) with
    | err e => exact hw
    | panic => exact hw
    | ok end_ =>
      simp only
      have := readBytes_winv r c off end_ hw
      generalize r.readBytes off end_ = q at this
      obtain ⟨q1, q2⟩ := q
      cases q1 <;> exact this

theorem parseSectionHeaders_winv (h : FileHeader) (r : CachingReader) (c : Array UInt8) (hw : WInv r c) :
    WInv (parseSectionHeaders h r).2 c := by
  unfold parseSectionHeaders
  split
  · exact hw
  · unfold rbind rlift
    cases SectionHeader.ep.validateEntsize h.cls h.t.e_shentsize with
    | err e => exact hw
    | panic => exact hw
    | ok entsize =>
      simp only
      have h1 : WInv (if h.t.e_shnum = 0 then streamShdr0 h entsize SectionHeader.sh_size r
          else (Out.ok h.t.e_shnum, r)).2 c := by
        split
        · exact streamShdr0_winv h _ _ r c hw
        · exact hw
      generalize (if h.t.e_shnum = 0 then streamShdr0 h entsize SectionHeader.sh_size r
          else (Out.ok h.t.e_shnum, r)) = q at h1
      obtain ⟨q1, q2⟩ := q
      cases q1 with
      | err e => exact h1
      | panic => exact h1
      | ok n => exact streamTable_winv _ _ _ _ q2 c h1

theorem parseProgramHeaders_winv (h : FileHeader) (r : CachingReader) (c : Array UInt8) (hw : WInv r c) :
    WInv (parseProgramHeaders h r).2 c := by
  unfold parseProgramHeaders
  split
  · exact hw
  · unfold rbind rlift
    have h1 : WInv (if h.t.e_phnum = Abi.PN_XNUM then
        streamShdr0 h (SectionHeader.ep.size h.cls) SectionHeader.sh_info r else (Out.ok h.t.e_phnum, r)).2 c := by
      split
      · exact streamShdr0_winv h _ _ r c hw
      · exact hw
    generalize (if h.t.e_phnum = Abi.PN_XNUM then
        streamShdr0 h (SectionHeader.ep.size h.cls) SectionHeader.sh_info r else (Out.ok h.t.e_phnum, r)) = q at h1
    obtain ⟨q1, q2⟩ := q
    cases q1 with
    | err e => exact h1
    | panic => exact h1
    | ok n =>
      simp only
      cases ProgramHeader.ep.validateEntsize h.cls h.t.e_phentsize with
      | err e => exact h1
      | panic => exact h1
      | ok entsize => exact streamTable_winv _ _ _ _ q2 c h1

theorem new_winv (dev : Device) (r : CachingReader) (d : Device)
    (h : CachingReader.new dev = (.ok r, d)) : WInv r dev.content := by
  unfold CachingReader.new at h
  generalize hq : dev.seekEnd = q at h
  obtain ⟨q1, d1⟩ := q
  cases q1 with
  | panic => simp at h
  | err e => simp at h
  | ok n =>
    simp at h
    obtain ⟨rfl, _⟩ := h
    unfold Device.seekEnd at hq
    generalize hf : dev.nextFault = nf at hq
    obtain ⟨f, d2⟩ := nf
    have hc := dev.nextFault_eq f d2 hf
    cases f <;> simp at hq <;> (obtain ⟨rfl, rfl⟩ := hq; exact ⟨⟨rfl, by simp⟩, hc.1⟩)

theorem clearCache_winv (r : CachingReader) (c : Array UInt8) (h : WInv r c) : WInv r.clearCache c :=
  ⟨⟨h.1.1, by simp [CachingReader.clearCache]⟩, h.2⟩

/-- **A stream opened under any schedule starts with a sound, empty cache.** -/
theorem openStream_winv (sp : Spec) (dev : Device) (s : ElfStream) (d : Device)
    (h : openStream sp dev = (.ok s, d)) : WInv s.reader dev.content := by
  unfold openStream at h
  generalize hn : CachingReader.new dev = nw at h
  obtain ⟨nw1, nw2⟩ := nw
  cases nw1 with
  | err e => simp at h
  | panic => simp at h
  | ok cr =>
    have hcr := new_winv dev cr nw2 hn
    simp only [rbind, rlift] at h
    injection h with h _
    -- ident bytes
    have h1 := readBytes_winv cr dev.content 0 Abi.EI_NIDENT hcr
    generalize cr.readBytes 0 Abi.EI_NIDENT = q1 at h h1
    obtain ⟨q1a, r1⟩ := q1
    cases q1a with
    | err e => simp at h
    | panic => simp at h
    | ok identBuf =>
      simp only at h h1
      cases hid : parseIdent sp identBuf with
      | err e => simp [hid] at h
      | panic => simp [hid] at h
      | ok ident =>
        simp only [hid] at h
        cases hu : uadd Abi.EI_NIDENT (Gen.size_FileHeaderTail ident.2.1) with
        | err e => simp [hu] at h
        | panic => simp [hu] at h
        | ok tailEnd =>
          simp only [hu] at h
          have h2 := readBytes_winv r1 dev.content Abi.EI_NIDENT tailEnd h1
          generalize r1.readBytes Abi.EI_NIDENT tailEnd = q2 at h h2
          obtain ⟨q2a, r2⟩ := q2
          cases q2a with
          | err e => simp at h
          | panic => simp at h
          | ok tailBuf =>
            simp only at h h2
            cases hpt : parseTail ident tailBuf with
            | err e => simp [hpt] at h
            | panic => simp [hpt] at h
            | ok ehdr =>
              simp only [hpt] at h
              have h3 := parseSectionHeaders_winv ehdr r2 dev.content h2
              generalize parseSectionHeaders ehdr r2 = q3 at h h3
              obtain ⟨q3a, r3⟩ := q3
              cases q3a with
              | err e => simp at h
              | panic => simp at h
              | ok shdrs =>
                simp only at h h3
                have h4 := parseProgramHeaders_winv ehdr r3 dev.content h3
                generalize parseProgramHeaders ehdr r3 = q4 at h h4
                obtain ⟨q4a, r4⟩ := q4
                cases q4a with
                | err e => simp at h
                | panic => simp at h
                | ok phdrs =>
                  simp only at h h4
                  injection h with h
                  subst h
                  exact clearCache_winv r4 dev.content h4

end Elf

namespace Elf

/-! ### `open_stream` under faults / on a truncated stream vs the fault-free open of the whole stream -/

theorem streamShdr0_twin (h : FileHeader) (size : Nat) (proj : SectionHeader → Nat) (r r₀ : CachingReader)
    (c : Array UInt8) (ht : Twin r r₀ c) (n : Nat) (r' : CachingReader)
    (hk : streamShdr0 h size proj r = (.ok n, r')) :
    ∃ r₀', streamShdr0 h size proj r₀ = (.ok n, r₀') ∧ Twin r' r₀' c := by
  unfold streamShdr0 rbind rlift at hk ⊢
  cases ho : Out.ofOption Err.IntegerOverflow (checkedAdd h.t.e_shoff size) with
  | err e => simp [ho] at hk
  | panic => simp [ho] at hk
  | ok end_ =>
    simp only [ho] at hk ⊢
    have hle : h.t.e_shoff ≤ end_ := by
      unfold checkedAdd at ho
      by_cases hlt : h.t.e_shoff + size < USZ
      · simp only [hlt, if_true, Out.ofOption] at ho
        injection ho with ho; omega
      · simp [hlt, Out.ofOption] at ho
    generalize hq : r.readBytes h.t.e_shoff end_ = q at hk
    obtain ⟨q1, q2⟩ := q
    cases q1 with
    | err e => simp at hk
    | panic => simp at hk
    | ok data =>
      obtain ⟨r₀', g1, g2⟩ := readBytes_twin r r₀ c ht h.t.e_shoff end_ hle data q2 hq
      rw [g1]
      simp only at hk ⊢
      cases hp : (SectionHeader.ep.parse h.little h.cls data 0).1 with
      | ok sh =>
        simp only [hp] at hk ⊢
        injection hk with hk1 hk2; subst hk2
        exact ⟨r₀', by rw [hk1], g2⟩
      | err e => simp [hp] at hk
      | panic => simp [hp] at hk

theorem streamTable_twin {α} (mk : Slice → Table α) (off entsize n : Nat) (r r₀ : CachingReader)
    (c : Array UInt8) (ht : Twin r r₀ c) (l : List α) (r' : CachingReader)
    (hk : streamTable mk off entsize n r = (.ok l, r')) :
    ∃ r₀', streamTable mk off entsize n r₀ = (.ok l, r₀') ∧ Twin r' r₀' c := by
  unfold streamTable rbind rlift at hk ⊢
  cases hm : Out.ofOption Err.IntegerOverflow (checkedMul entsize n) with
  | err e => simp [hm] at hk
  | panic => simp [hm] at hk
  | ok size =>
    simp only [hm] at hk ⊢
    cases ho : Out.ofOption Err.IntegerOverflow (checkedAdd off size) with
    | err e => simp [ho] at hk
    | panic => simp [ho] at hk
    | ok end_ =>
      simp only [ho] at hk ⊢
      have hle : off ≤ end_ := by
        unfold checkedAdd at ho
        by_cases hlt : off + size < USZ
        · simp only [hlt, if_true, Out.ofOption] at ho
          injection ho with ho; omega
        · simp [hlt, Out.ofOption] at ho
      generalize hq : r.readBytes off end_ = q at hk
      obtain ⟨q1, q2⟩ := q
      cases q1 with
      | err e => simp at hk
      | panic => simp at hk
      | ok buf =>
        obtain ⟨r₀', g1, g2⟩ := readBytes_twin r r₀ c ht off end_ hle buf q2 hq
        rw [g1]
        simp only at hk ⊢
        injection hk with hk1 hk2; subst hk2
        exact ⟨r₀', by rw [hk1], g2⟩

theorem parseSectionHeaders_twin (h : FileHeader) (r r₀ : CachingReader) (c : Array UInt8) (ht : Twin r r₀ c)
    (l : List SectionHeader) (r' : CachingReader) (hk : parseSectionHeaders h r = (.ok l, r')) :
    ∃ r₀', parseSectionHeaders h r₀ = (.ok l, r₀') ∧ Twin r' r₀' c := by
  unfold parseSectionHeaders at hk ⊢
  by_cases h0 : h.t.e_shoff = 0
  · simp only [h0, if_true] at hk ⊢
    injection hk with hk1 hk2; subst hk2
    exact ⟨r₀, by rw [hk1], ht⟩
  · simp only [h0, if_false, rbind, rlift] at hk ⊢
    cases hv : SectionHeader.ep.validateEntsize h.cls h.t.e_shentsize with
    | err e => simp [hv] at hk
    | panic => simp [hv] at hk
    | ok entsize =>
      simp only [hv] at hk ⊢
      by_cases hz : h.t.e_shnum = 0
      · simp only [hz, if_true] at hk ⊢
        generalize hq : streamShdr0 h entsize SectionHeader.sh_size r = q at hk
        obtain ⟨q1, q2⟩ := q
        cases q1 with
        | err e => simp at hk
        | panic => simp at hk
        | ok n =>
          obtain ⟨r₀1, g1, g2⟩ := streamShdr0_twin h entsize _ r r₀ c ht n q2 hq
          rw [g1]
          simp only at hk ⊢
          exact streamTable_twin _ _ _ _ q2 r₀1 c g2 l r' hk
      · simp only [hz, if_false] at hk ⊢
        exact streamTable_twin _ _ _ _ r r₀ c ht l r' hk

theorem parseProgramHeaders_twin (h : FileHeader) (r r₀ : CachingReader) (c : Array UInt8) (ht : Twin r r₀ c)
    (l : List ProgramHeader) (r' : CachingReader) (hk : parseProgramHeaders h r = (.ok l, r')) :
    ∃ r₀', parseProgramHeaders h r₀ = (.ok l, r₀') ∧ Twin r' r₀' c := by
  unfold parseProgramHeaders at hk ⊢
  by_cases h0 : h.t.e_phoff = 0
  · simp only [h0, if_true] at hk ⊢
    injection hk with hk1 hk2; subst hk2
    exact ⟨r₀, by rw [hk1], ht⟩
  · simp only [h0, if_false, rbind, rlift] at hk ⊢
    by_cases hz : h.t.e_phnum = Abi.PN_XNUM
    · simp only [hz, if_true] at hk ⊢
      generalize hq : streamShdr0 h (SectionHeader.ep.size h.cls) SectionHeader.sh_info r = q at hk
      obtain ⟨q1, q2⟩ := q
      cases q1 with
      | err e => simp at hk
      | panic => simp at hk
      | ok n =>
        obtain ⟨r₀1, g1, g2⟩ := streamShdr0_twin h _ _ r r₀ c ht n q2 hq
        rw [g1]
        simp only at hk ⊢
        cases hv : ProgramHeader.ep.validateEntsize h.cls h.t.e_phentsize with
        | err e => simp [hv] at hk
        | panic => simp [hv] at hk
        | ok entsize =>
          simp only [hv] at hk ⊢
          exact streamTable_twin _ _ _ _ q2 r₀1 c g2 l r' hk
    · simp only [hz, if_false] at hk ⊢
      cases hv : ProgramHeader.ep.validateEntsize h.cls h.t.e_phentsize with
      | err e => simp [hv] at hk
      | panic => simp [hv] at hk
      | ok entsize =>
        simp only [hv] at hk ⊢
        exact streamTable_twin _ _ _ _ r r₀ c ht l r' hk

theorem Twin.clearCache {r r₀ : CachingReader} {c : Array UInt8} (h : Twin r r₀ c) :
    Twin r.clearCache r₀.clearCache c := by
  obtain ⟨p, hw, ht, hp⟩ := h
  exact ⟨p, clearCache_winv r p hw, clearCache_inv r₀ c ht, hp⟩

/-- **`open_stream`**: if it succeeds under ANY schedule on a stream whose contents are the whole
    file or a truncation of it, then the fault-free open of the whole file succeeds with the same
    file header, the same section headers and the same program headers. -/
theorem open_twin (sp : Spec) (devp dev : Device) (hl : Legal dev.sched)
    (hp : PrefixOf devp.content dev.content) (s : ElfStream) (d : Device)
    (h : openStream sp devp = (.ok s, d)) :
    ∃ s₀ d₀, openStream sp dev = (.ok s₀, d₀) ∧ s₀.ehdr = s.ehdr ∧ s₀.shdrs = s.shdrs ∧
      s₀.phdrs = s.phdrs ∧ Twin s.reader s₀.reader dev.content := by
  obtain ⟨cr₀, d0, hnew₀, hinv₀⟩ := new_legal dev hl
  unfold openStream at h ⊢
  rw [hnew₀]
  generalize hn : CachingReader.new devp = nw at h
  obtain ⟨nw1, nw2⟩ := nw
  cases nw1 with
  | err e => simp at h
  | panic => simp at h
  | ok cr =>
    have hcr := new_winv devp cr nw2 hn
    have t0 : Twin cr cr₀ dev.content := ⟨devp.content, hcr, hinv₀, hp⟩
    simp only [rbind, rlift] at h ⊢
    injection h with h _
    generalize hq1 : cr.readBytes 0 Abi.EI_NIDENT = q1 at h
    obtain ⟨q1a, r1⟩ := q1
    cases q1a with
    | err e => simp at h
    | panic => simp at h
    | ok identBuf =>
      obtain ⟨r₀1, g1, t1⟩ := readBytes_twin cr cr₀ _ t0 0 Abi.EI_NIDENT (by simp [Abi.EI_NIDENT]) identBuf r1 hq1
      rw [g1]
      simp only at h ⊢
      cases hid : parseIdent sp identBuf with
      | err e => simp [hid] at h
      | panic => simp [hid] at h
      | ok ident =>
        simp only [hid] at h ⊢
        cases hu : uadd Abi.EI_NIDENT (Gen.size_FileHeaderTail ident.2.1) with
        | err e => simp [hu] at h
        | panic => simp [hu] at h
        | ok tailEnd =>
          simp only [hu] at h ⊢
          have hle : Abi.EI_NIDENT ≤ tailEnd := by
            unfold uadd at hu
            split at hu
            · injection hu with hu; omega
            · cases hu
          generalize hq2 : r1.readBytes Abi.EI_NIDENT tailEnd = q2 at h
          obtain ⟨q2a, r2⟩ := q2
          cases q2a with
          | err e => simp at h
          | panic => simp at h
          | ok tailBuf =>
            obtain ⟨r₀2, g2, t2⟩ := readBytes_twin r1 r₀1 _ t1 Abi.EI_NIDENT tailEnd hle tailBuf r2 hq2
            rw [g2]
            simp only at h ⊢
            cases hpt : parseTail ident tailBuf with
            | err e => simp [hpt] at h
            | panic => simp [hpt] at h
            | ok ehdr =>
              simp only [hpt] at h ⊢
              generalize hq3 : parseSectionHeaders ehdr r2 = q3 at h
              obtain ⟨q3a, r3⟩ := q3
              cases q3a with
              | err e => simp at h
              | panic => simp at h
              | ok shdrs =>
                obtain ⟨r₀3, g3, t3⟩ := parseSectionHeaders_twin ehdr r2 r₀2 _ t2 shdrs r3 hq3
                rw [g3]
                simp only at h ⊢
                generalize hq4 : parseProgramHeaders ehdr r3 = q4 at h
                obtain ⟨q4a, r4⟩ := q4
                cases q4a with
                | err e => simp at h
                | panic => simp at h
                | ok phdrs =>
                  obtain ⟨r₀4, g4, t4⟩ := parseProgramHeaders_twin ehdr r3 r₀3 _ t3 phdrs r4 hq4
                  rw [g4]
                  simp only at h ⊢
                  injection h with h
                  subst h
                  exact ⟨_, _, rfl, rfl, rfl, rfl, t4.clearCache⟩

end Elf
