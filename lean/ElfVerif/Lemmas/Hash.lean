/-
  Lemmas/Hash.lean — byte-string equality, hash-table soundness shared by C11 and C12.
-/
import ElfVerif.Model.Hash
namespace Elf

theorem Slice.eqAux_iff (s t : Slice) (i n : Nat) :
    Slice.eqAux s t i n = true ↔ ∀ j, j < n → s.byte (i + j) = t.byte (i + j) := by
  induction n generalizing i with
  | zero => simp [Slice.eqAux]
  | succ n ih =>
    simp only [Slice.eqAux, Bool.and_eq_true, beq_iff_eq, ih]
    constructor
    · rintro ⟨h0, hr⟩ j hj
      cases j with
      | zero => simpa using h0
      | succ k => have := hr k (by omega); simpa [Nat.add_assoc, Nat.add_comm 1 k] using this
    · intro h
      refine ⟨by simpa using h 0 (by omega), fun j hj => ?_⟩
      have := h (j + 1) (by omega); simpa [Nat.add_assoc, Nat.add_comm 1 j] using this

/-- `&[u8] == &[u8]`: same length and same bytes. -/
theorem Slice.beqBytes_iff (s t : Slice) :
    s.beqBytes t = true ↔ s.len = t.len ∧ ∀ j, j < s.len → s.byte j = t.byte j := by
  unfold Slice.beqBytes
  simp only [Bool.and_eq_true, beq_iff_eq, Slice.eqAux_iff, Nat.zero_add]

/-- What a successful lookup certifies. -/
def FoundOK (name : Slice) (symtab : Table Symbol) (strtab : Slice) (r : Nat × Symbol) : Prop :=
  symtab.get r.1 = .ok r.2 ∧ ∃ w, strGetRaw strtab r.2.st_name = .ok w ∧ w.beqBytes name = true

theorem sysvLoop_sound (t : SysVHashTable) (name : Slice) (symtab : Table Symbol) (strtab : Slice)
    (fuel index steps : Nat) (r : Nat × Symbol)
    (h : (sysvLoop t name symtab strtab fuel index steps).1 = .ok (some r)) :
    FoundOK name symtab strtab r := by
  induction fuel generalizing index steps with
  | zero => simp [sysvLoop] at h
  | succ n ih =>
    unfold sysvLoop at h
    split at h
    · simp at h
    · cases hg : symtab.get index with
      | panic => simp [hg] at h
      | err e => simp [hg] at h
      | ok symbol =>
        simp only [hg] at h
        cases hr : strGetRaw strtab symbol.st_name with
        | panic => simp [hr] at h
        | err e => simp [hr] at h
        | ok s =>
          simp only [hr] at h
          split at h
          · rename_i hb
            simp at h; subst h
            exact ⟨hg, s, hr, hb⟩
          · cases hc : t.chains.get index with
            | panic => simp [hc] at h
            | err e => simp [hc] at h
            | ok nxt => simp only [hc] at h; exact ih nxt (steps + 1) h

theorem gnuLoop_sound (t : GnuHashTable) (name : Slice) (hash : Nat) (symtab : Table Symbol)
    (strtab : Slice) (fuel idx steps : Nat) (r : Nat × Symbol)
    (h : (gnuLoop t name hash symtab strtab fuel idx steps).1 = .ok (some r)) :
    FoundOK name symtab strtab r := by
  induction fuel generalizing idx steps with
  | zero => simp [gnuLoop] at h
  | succ n ih =>
    unfold gnuLoop at h
    cases hc : t.chains.get idx with
    | panic => simp [hc] at h
    | err e => simp [hc] at h
    | ok chainHash =>
      simp only [hc] at h
      have hcont : ∀ (x : Out (Option (Nat × Symbol)) × Nat),
          x = (if chainHash &&& 1 ≠ 0 then ((Out.ok none : Out (Option (Nat × Symbol))), steps + 1)
               else gnuLoop t name hash symtab strtab n (idx + 1) (steps + 1)) →
          x.1 = .ok (some r) → FoundOK name symtab strtab r := by
        intro x hx hx1
        subst hx
        split at hx1
        · simp at hx1
        · exact ih (idx + 1) (steps + 1) hx1
      split at h
      · split at h
        · simp at h
        · rename_i symIdx _
          cases hg : symtab.get symIdx with
          | panic => simp [hg] at h
          | err e => simp [hg] at h
          | ok symbol =>
            simp only [hg] at h
            cases hr : strGetRaw strtab symbol.st_name with
            | panic => simp [hr] at h
            | err e => simp [hr] at h
            | ok s =>
              simp only [hr] at h
              split at h
              · rename_i hb
                simp at h; subst h
                exact ⟨hg, s, hr, hb⟩
              · exact hcont _ rfl h
      · exact hcont _ rfl h

end Elf
