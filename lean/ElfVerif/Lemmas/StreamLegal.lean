/-
  Lemmas/StreamLegal.lean — the caching reader under a *legal* `Read + Seek` (short reads and
  `Interrupted` allowed; no errors, no premature EOF): `read_bytes(s, e)` succeeds exactly when
  the range fits the stream, and returns the stream's bytes.
-/
import ElfVerif.Lemmas.Stream
import ElfVerif.Lemmas.Congr
namespace Elf

/-- A legal reader: never an error, never a premature EOF. -/
def Legal (sched : List Fault) : Prop := ∀ f, f ∈ sched → f ≠ .fail ∧ f ≠ .eof

theorem Legal.tail {f : Fault} {rest : List Fault} (h : Legal (f :: rest)) : Legal rest :=
  fun g hg => h g (List.mem_cons_of_mem _ hg)

theorem Legal.nil : Legal [] := by intro f h; cases h

theorem Device.nextFault_legal (d : Device) (h : Legal d.sched) :
    Legal d.nextFault.2.sched ∧ (d.nextFault.1 ≠ .fail ∧ d.nextFault.1 ≠ .eof) ∧
    d.nextFault.2.sched.length ≤ d.sched.length ∧
    (d.nextFault.1 ≠ .none → d.nextFault.2.sched.length < d.sched.length) := by
  unfold Device.nextFault
  cases hs : d.sched with
  | nil => simp only; rw [hs]; exact ⟨Legal.nil, by simp, by simp, by simp⟩
  | cons f rest =>
    rw [hs] at h
    simp only
    exact ⟨h.tail, h f (List.mem_cons_self ..), by simp, by simp⟩

/-- with a legal reader `read_exact` delivers whenever the bytes exist, and leaves a legal reader -/
theorem Device.readExact_legal (fuel : Nat) (d : Device) (n : Nat) (hl : Legal d.sched)
    (hfit : d.pos + n ≤ d.content.size) (hf : n + d.sched.length < fuel) :
    ∃ d', Device.readExact fuel d n = (.ok (), d') ∧ Legal d'.sched := by
  induction fuel generalizing d n with
  | zero => omega
  | succ f ih =>
    unfold Device.readExact
    by_cases hn : n = 0
    · simp only [hn, if_true]; exact ⟨d, rfl, hl⟩
    · simp only [hn, if_false]
      unfold Device.read
      obtain ⟨hl', hne, hlen, hstrict⟩ := d.nextFault_legal hl
      have hc := d.nextFault_content
      generalize d.nextFault = q at hl' hne hlen hstrict hc
      obtain ⟨flt, d1⟩ := q
      obtain ⟨hc1, hc2, _⟩ := hc
      simp only at hl' hne hlen hstrict hc1 hc2
      cases flt with
      | fail => exact absurd rfl hne.1
      | eof => exact absurd rfl hne.2
      | none =>
        simp only
        have hav : min n (d1.content.size - d1.pos) = n := by rw [hc1, hc2]; omega
        rw [hav]
        cases n with
        | zero => omega
        | succ m =>
          simp only
          have := ih { d1 with pos := d1.pos + (m + 1), trace := d1.trace ++ [.read (m + 1) (m + 1)] } 0
            hl' (by simp [hc1, hc2]; omega) (by simp; omega)
          simpa using this
      | interrupted =>
        simp only
        have hlt := hstrict (by simp)
        exact ih { d1 with trace := d1.trace ++ [.read n 0] } n hl' (by simp [hc1, hc2]; exact hfit)
          (by simp; omega)
      | short k =>
        simp only
        have hpos : 0 < min (min n (d1.content.size - d1.pos)) (max 1 k) := by rw [hc1, hc2]; omega
        generalize hj : min (min n (d1.content.size - d1.pos)) (max 1 k) = j at hpos
        have hjn : j ≤ n := by omega
        have hja : j ≤ d1.content.size - d1.pos := by omega
        cases j with
        | zero => omega
        | succ j =>
          simp only
          have hlt := hstrict (by simp)
          exact ih { d1 with pos := d1.pos + (j + 1), trace := d1.trace ++ [.read n (j + 1)] }
            (n - (j + 1)) hl' (by simp [hc1, hc2] at hja ⊢; omega) (by simp; omega)

/-- the reader invariant used by the refinement: cache invariant, fixed contents, legal schedule -/
structure RInv (r : CachingReader) (c : Array UInt8) : Prop where
  cache : CacheOK r
  content : r.dev.content = c
  legal : Legal r.dev.sched

theorem extract_sameBytes (c : Array UInt8) (s e : Nat) (hse : s ≤ e) (he : e ≤ c.size) :
    SameBytes (Slice.ofArray (c.extract s (s + (e - s)))) ⟨c, 0 + s, 0 + e⟩ := by
  have hes : s + (e - s) = e := by omega
  constructor
  · simp [Slice.ofArray, Slice.len]; omega
  · intro i hi
    have hi' : i < e - s := by simp [Slice.ofArray, Slice.len] at hi; omega
    unfold Slice.byte Slice.ofArray
    simp only [Nat.zero_add]
    have h1 : i < (c.extract s (s + (e - s))).size := by simp; omega
    have h2 : s + i < c.size := by omega
    rw [Array.getD_eq_getD_getElem?, Array.getD_eq_getD_getElem?]
    simp [Array.getElem?_eq_getElem h1, Array.getElem?_eq_getElem h2]

/-- **Under a legal reader `read_bytes(s, e)` succeeds iff the range fits**, returns the file's
    bytes of that range, and keeps the invariant. -/
theorem readBytes_legal (r : CachingReader) (c : Array UInt8) (s e : Nat) (h : RInv r c) (hse : s ≤ e) :
    (e ≤ c.size → ∃ b r', r.readBytes s e = (.ok b, r') ∧ SameBytes b ⟨c, 0 + s, 0 + e⟩ ∧ RInv r' c) ∧
    (c.size < e → ∃ r', r.readBytes s e = (.err (.BadOffset e), r') ∧ RInv r' c) := by
  have hsl : r.streamLen = c.size := by rw [h.cache.1, h.content]
  constructor
  · intro he
    -- load_bytes succeeds
    have hload : ∃ r', r.loadBytes s e = (.ok (), r') ∧ RInv r' c := by
      unfold CachingReader.loadBytes
      by_cases hc : (r.lookup s e).isSome = true
      · simp only [hc, if_true]; exact ⟨r, rfl, h⟩
      · simp only [hc, Bool.false_eq_true, if_false]
        have hle : ¬ e > r.streamLen := by omega
        simp only [hle, if_false]
        -- the seek succeeds with a legal reader
        have hseek : ∃ d1, r.dev.seekTo s = (.ok (), d1) ∧ d1.content = c ∧ d1.pos = s ∧ Legal d1.sched := by
          unfold Device.seekTo
          obtain ⟨hl', hne, _, _⟩ := r.dev.nextFault_legal h.legal
          have hcn := r.dev.nextFault_content
          generalize r.dev.nextFault = q at hl' hne hcn
          obtain ⟨flt, d1⟩ := q
          obtain ⟨hc1, _, _⟩ := hcn
          simp only at hl' hne hc1
          cases flt with
          | fail => exact absurd rfl hne.1
          | none => exact ⟨_, rfl, by simp [hc1, h.content], rfl, hl'⟩
          | short k => exact ⟨_, rfl, by simp [hc1, h.content], rfl, hl'⟩
          | interrupted => exact ⟨_, rfl, by simp [hc1, h.content], rfl, hl'⟩
          | eof => exact ⟨_, rfl, by simp [hc1, h.content], rfl, hl'⟩
        obtain ⟨d1, hsk, hc1, hp1, hl1⟩ := hseek
        rw [hsk]
        simp only
        obtain ⟨d2, hre, hl2⟩ := Device.readExact_legal (e - s + d1.sched.length + 1)
          { d1 with trace := d1.trace ++ [IoEvent.alloc (e - s)] } (e - s)
          hl1 (by simp [hc1, hp1]; omega) (by simp)
        rw [hre]
        simp only
        obtain ⟨k1, k2, _⟩ := Device.readExact_ok _ _ _ _ hre
        simp only at k1 k2
        have hcont : d2.content = c := by rw [k1, hc1]
        refine ⟨_, rfl, ?_, ?_, ?_⟩
        · refine ⟨by simp [hcont, hsl], ?_⟩
          intro kv hkv
          simp only [List.mem_append, List.mem_singleton] at hkv
          rcases hkv with hkv | hkv
          · have := h.cache.2 kv hkv
            simpa [hcont, h.content] using this
          · subst hkv; simp only [hcont, hp1]; exact ⟨by omega, trivial⟩
        · exact hcont
        · exact hl2
    obtain ⟨r1, hl1, hinv1⟩ := hload
    have hlk := loadBytes_ok_lookup r r1 s e hl1
    unfold CachingReader.readBytes
    rw [hl1]
    simp only
    unfold CachingReader.getBytes
    cases hb : r1.lookup s e with
    | none => simp [hb] at hlk
    | some b =>
      simp only
      have hm := CachingReader.lookup_some r1 s e b hb
      obtain ⟨_, h2⟩ := hinv1.cache.2 _ hm
      simp only at h2
      refine ⟨b, r1, rfl, ?_, hinv1⟩
      rw [h2, hinv1.content]
      exact extract_sameBytes c s e hse he
  · intro hgt
    unfold CachingReader.readBytes CachingReader.loadBytes
    -- a key beyond the stream is never cached
    have hmiss : (r.lookup s e).isSome = false := by
      cases hb : r.lookup s e with
      | none => rfl
      | some b =>
        have hm := CachingReader.lookup_some r s e b hb
        have := (h.cache.2 _ hm).1
        simp only at this
        omega
    have hgt' : e > r.streamLen := by omega
    simp only [hmiss, Bool.false_eq_true, if_false, hgt', if_true]
    exact ⟨r, rfl, h⟩

end Elf
