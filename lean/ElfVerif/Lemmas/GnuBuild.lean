/-
  Lemmas/GnuBuild.lean — the layout linkers give a `.gnu.hash` section (hashed symbols sorted by
  bucket, one chain word per symbol carrying its hash with the stop bit on the last symbol of each
  bucket, bucket heads pointing at the first symbol of the bucket, both bloom bits of every symbol
  set) is well-formed, and the lookup finds every hashed symbol by name and answers `None` for
  every absent name.
-/
import ElfVerif.Lemmas.GnuComplete
namespace Elf.GnuBuild

/-- A parsed `.gnu.hash` section, symbol table and string table laid out the linker's way: `m`
    hashed symbols at symbol indices `symoffset … symoffset + m - 1` with names `w k`. -/
structure LaidOut (t : GnuHashTable) (symtab : Table Symbol) (strtab : Slice) (m : Nat)
    (sym : Nat → Symbol) (w : Nat → Slice) (c : Nat → Nat) (f : Nat → Nat) (s : Nat → Nat) : Prop where
  nbucket_pos : t.buckets.len ≠ 0
  nbloom_pos : t.hdr.nbloom ≠ 0
  shift_lt : t.hdr.nshift < 32
  nchain : t.chains.len = m
  fits : t.hdr.table_start_idx + m < USZ
  /-- every hashed symbol and its name can be read; its chain word carries its hash (bit 0 aside) -/
  syms : ∀ k, k < m → symtab.get (k + t.hdr.table_start_idx) = .ok (sym k) ∧
    strGetRaw strtab (sym k).st_name = .ok (w k) ∧ t.chains.get k = .ok (c k) ∧
    gnuHash (w k) ||| 1 = c k ||| 1
  /-- sorted by bucket -/
  sorted : ∀ k, k + 1 < m → gnuHash (w k) % t.buckets.len ≤ gnuHash (w (k + 1)) % t.buckets.len
  /-- stop bit exactly on the last symbol of each bucket -/
  stop : ∀ k, k < m → (c k &&& 1 ≠ 0 ↔
    (k + 1 = m ∨ gnuHash (w (k + 1)) % t.buckets.len ≠ gnuHash (w k) % t.buckets.len))
  /-- a bucket head is below `symoffset` for an empty bucket, else the first symbol of the bucket -/
  heads : ∀ b, b < t.buckets.len → t.buckets.get b = .ok (s b) ∧
    ((s b < t.hdr.table_start_idx ∧ ∀ k, k < m → gnuHash (w k) % t.buckets.len ≠ b) ∨
     (∃ k, k < m ∧ s b = k + t.hdr.table_start_idx ∧ gnuHash (w k) % t.buckets.len = b ∧
        ∀ k', k' < k → gnuHash (w k') % t.buckets.len ≠ b))
  /-- bloom words readable, both bits of every hashed symbol set -/
  bloom : ∀ i, i < t.hdr.nbloom → t.bloomTable.get i = .ok (f i)
  bits : ∀ k, k < m → bloomAccepts t (gnuHash (w k)) (f (gnuHash (w k) / bloomWidth t.cls % t.hdr.nbloom))

variable {t : GnuHashTable} {symtab : Table Symbol} {strtab : Slice} {m : Nat}
  {sym : Nat → Symbol} {w : Nat → Slice} {c f s : Nat → Nat}

/-- from every chain index the run decodes; its entries are hashed symbols of the table -/
theorem run_exists (h : LaidOut t symtab strtab m sym w c f s) (i : Nat) :
    ∃ path, GnuChain t symtab strtab i path ∧
      ∀ e, e ∈ path → ∃ k, k < m ∧ e = (k + t.hdr.table_start_idx, sym k, w k, c k) := by
  by_cases hi : m ≤ i
  · exact ⟨[], .atEnd i (by rw [h.nchain]; exact hi), fun e he => by cases he⟩
  · have hlt : i < m := by omega
    -- induction on the distance to the end
    generalize hd : m - i = d
    induction d generalizing i with
    | zero => omega
    | succ d ih =>
      obtain ⟨h1, h2, h3, _⟩ := h.syms i hlt
      have hfit := h.fits
      by_cases hs : c i &&& 1 ≠ 0
      · exact ⟨[(i + t.hdr.table_start_idx, sym i, w i, c i)],
          .last i (c i) (sym i) (w i) (by rw [h.nchain]; exact hlt) h3 hs (by omega) h1 h2,
          fun e he => ⟨i, hlt, by simpa using he⟩⟩
      · have hs' : c i &&& 1 = 0 := by simpa using hs
        have hnext : i + 1 < m := by
          apply Nat.lt_of_le_of_ne (by omega)
          intro he
          exact hs ((h.stop i hlt).mpr (Or.inl he))
        obtain ⟨rest, hr, hmem⟩ := ih (i + 1) (by omega) hnext (by omega)
        exact ⟨(i + t.hdr.table_start_idx, sym i, w i, c i) :: rest,
          .more i (c i) (sym i) (w i) rest (by rw [h.nchain]; exact hlt) h3 hs' (by omega) h1 h2 hr,
          fun e he => by
            rcases List.mem_cons.mp he with he | he
            · exact ⟨i, hlt, he⟩
            · exact hmem e he⟩

theorem wf (h : LaidOut t symtab strtab m sym w c f s) : WFGnu t symtab strtab := by
  refine ⟨h.nbucket_pos, h.nbloom_pos, h.shift_lt, fun i hi => ⟨f i, h.bloom i hi⟩, fun b hb => ?_⟩
  obtain ⟨hg, hcase⟩ := h.heads b hb
  refine ⟨s b, hg, ?_⟩
  rcases hcase with ⟨hlt, _⟩ | ⟨k, _, hk, _, _⟩
  · exact Or.inl hlt
  · obtain ⟨path, hp, _⟩ := run_exists h (s b - t.hdr.table_start_idx)
    exact Or.inr ⟨path, hp⟩

theorem sorted_le (h : LaidOut t symtab strtab m sym w c f s) (i j : Nat) (hij : i ≤ j) (hj : j < m) :
    gnuHash (w i) % t.buckets.len ≤ gnuHash (w j) % t.buckets.len := by
  induction j with
  | zero => have : i = 0 := by omega
            subst this; exact Nat.le_refl _
  | succ j ih =>
    by_cases he : i = j + 1
    · subst he; exact Nat.le_refl _
    · exact Nat.le_trans (ih (by omega) (by omega)) (h.sorted j hj)

/-- a symbol `k` of the same bucket as every index in `[i, k]` is in the run that starts at `i` -/
theorem mem_run (h : LaidOut t symtab strtab m sym w c f s) (i k : Nat) (hik : i ≤ k) (hk : k < m)
    (hb : ∀ j, i ≤ j → j ≤ k → gnuHash (w j) % t.buckets.len = gnuHash (w k) % t.buckets.len)
    (path : List (Nat × Symbol × Slice × Nat)) (hp : GnuChain t symtab strtab i path) :
    (k + t.hdr.table_start_idx, sym k, w k, c k) ∈ path := by
  generalize hd : k - i = d
  induction d generalizing i path with
  | zero =>
    have : i = k := by omega
    subst this
    obtain ⟨h1, h2, h3, _⟩ := h.syms i hk
    cases hp with
    | atEnd _ hge => rw [h.nchain] at hge; omega
    | last _ ch sy ww _ hc _ _ hs hn =>
      rw [h3] at hc; injection hc with hc; subst hc
      rw [h1] at hs; injection hs with hs; subst hs
      rw [h2] at hn; injection hn with hn; subst hn
      exact List.mem_cons_self ..
    | more _ ch sy ww rest _ hc _ _ hs hn _ =>
      rw [h3] at hc; injection hc with hc; subst hc
      rw [h1] at hs; injection hs with hs; subst hs
      rw [h2] at hn; injection hn with hn; subst hn
      exact List.mem_cons_self ..
  | succ d ih =>
    have hi : i < m := by omega
    obtain ⟨_, _, h3, _⟩ := h.syms i hi
    -- no stop bit at i: i + 1 ≤ k is in the same bucket
    have hns : ¬ (c i &&& 1 ≠ 0) := by
      rw [h.stop i hi]
      intro hor
      rcases hor with he | hne
      · omega
      · exact hne (by rw [hb (i + 1) (by omega) (by omega), hb i (Nat.le_refl _) hik])
    cases hp with
    | atEnd _ hge => rw [h.nchain] at hge; omega
    | last _ ch sy ww _ hc hstop _ _ _ =>
      rw [h3] at hc; injection hc with hc; subst hc
      exact absurd hstop hns
    | more _ ch sy ww rest _ hc _ _ _ _ hr =>
      exact List.mem_cons_of_mem _ (ih (i + 1) (by omega) (fun j hj1 hj2 => hb j (by omega) hj2) rest hr (by omega))

theorem gnuHashAux_congr (a b : Slice) (i n h : Nat) (hb : ∀ j, j < i + n → a.byte j = b.byte j) :
    gnuHashAux a i n h = gnuHashAux b i n h := by
  induction n generalizing i h with
  | zero => rfl
  | succ n ih =>
    simp only [gnuHashAux]
    rw [hb i (by omega)]
    exact ih (i + 1) _ (fun j hj => hb j (by omega))

/-- equal byte strings hash alike -/
theorem gnuHash_congr (a b : Slice) (h : a.beqBytes b = true) : gnuHash a = gnuHash b := by
  obtain ⟨hl, hb⟩ := (Slice.beqBytes_iff a b).mp h
  unfold gnuHash
  rw [← hl, gnuHashAux_congr a b 0 a.len 5381 (fun j hj => hb j (by omega))]

/-- **The lookup finds every hashed symbol of a table laid out the linker's way.** -/
theorem finds_every_symbol (h : LaidOut t symtab strtab m sym w c f s)
    (k : Nat) (hk : k < m) (name : Slice) (hname : (w k).beqBytes name = true) :
    ∃ j sy, t.find name symtab strtab = .ok (some (j, sy)) ∧
      ∃ w', symtab.get j = .ok sy ∧ strGetRaw strtab sy.st_name = .ok w' ∧ w'.beqBytes name = true := by
  have hH : gnuHash (w k) = gnuHash name := gnuHash_congr _ _ hname
  have hbi : gnuHash name % t.buckets.len < t.buckets.len := Nat.mod_lt _ (Nat.pos_of_ne_zero h.nbucket_pos)
  have hwi : gnuHash name / bloomWidth t.cls % t.hdr.nbloom < t.hdr.nbloom :=
    Nat.mod_lt _ (Nat.pos_of_ne_zero h.nbloom_pos)
  obtain ⟨hg, hcase⟩ := h.heads _ hbi
  have hacc := h.bits k hk
  rw [hH] at hacc
  rcases hcase with ⟨_, hnone⟩ | ⟨k0, hk0, hs0, hb0, hfirst⟩
  · exact absurd (by rw [hH]) (hnone k hk)
  · -- k0 is the first symbol of the bucket; k is in its run
    have hge : ¬ s (gnuHash name % t.buckets.len) < t.hdr.table_start_idx := by omega
    have hsub : s (gnuHash name % t.buckets.len) - t.hdr.table_start_idx = k0 := by omega
    obtain ⟨path, hp, hmem⟩ := run_exists h k0
    have hle : k0 ≤ k := by
      apply Nat.le_of_not_lt
      intro hlt
      exact hfirst k hlt (by rw [hH])
    have hall : ∀ j, k0 ≤ j → j ≤ k → gnuHash (w j) % t.buckets.len = gnuHash (w k) % t.buckets.len := by
      intro j hj1 hj2
      have a := sorted_le h k0 j hj1 (by omega)
      have b := sorted_le h j k hj2 hk
      rw [hH] at b ⊢
      omega
    have hin := mem_run h k0 k hle hk hall path hp
    obtain ⟨_, _, _, hs4⟩ := h.syms k hk
    obtain ⟨filter', start', e1, e2, _, e4⟩ := gnu_find_wf t name symtab strtab (wf h)
    rw [h.bloom _ hwi] at e1; injection e1 with e1; subst e1
    rw [hg] at e2; injection e2 with e2; subst e2
    obtain ⟨path', hp', hfind⟩ := e4 hacc hge
    rw [hsub] at hp'
    have : path' = path := GnuChain.unique hp' hp
    subst this
    obtain ⟨j, sy, hfg, e', he', hj, hsy, hn'⟩ :=
      firstGnu_some name (gnuHash name) path' (k + t.hdr.table_start_idx, sym k, w k, c k) hin
        (by rw [← hH]; exact hs4) hname
    obtain ⟨k', hk', hek⟩ := hmem e' he'
    obtain ⟨t1, t2, _, _⟩ := h.syms k' hk'
    subst hek
    simp only at hj hsy hn'
    subst hj; subst hsy
    exact ⟨_, _, by rw [hfind, hfg], w k', t1, t2, hn'⟩

/-- **…and answers `None` for every name no hashed symbol carries** (whatever it collides with). -/
theorem absent_is_none (h : LaidOut t symtab strtab m sym w c f s)
    (name : Slice) (habs : ∀ k, k < m → (w k).beqBytes name = false) :
    t.find name symtab strtab = .ok none := by
  obtain ⟨filter', start', _, e2, e3, e4⟩ := gnu_find_wf t name symtab strtab (wf h)
  by_cases hrej : ¬ bloomAccepts t (gnuHash name) filter' ∨ start' < t.hdr.table_start_idx
  · exact e3 hrej
  · have hacc : bloomAccepts t (gnuHash name) filter' := by
      by_cases hh : bloomAccepts t (gnuHash name) filter'
      · exact hh
      · exact absurd (Or.inl hh) hrej
    have hge : ¬ start' < t.hdr.table_start_idx := fun hh => hrej (Or.inr hh)
    obtain ⟨path', hp', hfind⟩ := e4 hacc hge
    obtain ⟨path, hp, hmem⟩ := run_exists h (start' - t.hdr.table_start_idx)
    have : path' = path := GnuChain.unique hp' hp
    subst this
    rw [hfind]
    congr 1
    apply firstGnu_none
    intro e he
    obtain ⟨k, hk, hek⟩ := hmem e he
    subst hek
    exact habs k hk

end Elf.GnuBuild
