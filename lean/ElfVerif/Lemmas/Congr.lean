/-
  Lemmas/Congr.lean — the model's parsers depend only on the bytes of a window, not on where
  the window lives: two windows with the same bytes give the same answers.  (The stream parser
  hands the same parsers *copies* of the file's ranges.)
-/
import ElfVerif.Lemmas.Prog
import ElfVerif.Model.Table
namespace Elf

/-- same length and same bytes -/
def SameBytes (a b : Slice) : Prop := a.len = b.len ∧ ∀ i, i < a.len → a.byte i = b.byte i

theorem SameBytes.refl (a : Slice) : SameBytes a a := ⟨rfl, fun _ _ => rfl⟩
theorem SameBytes.symm {a b : Slice} (h : SameBytes a b) : SameBytes b a :=
  ⟨h.1.symm, fun i hi => (h.2 i (by rw [h.1]; exact hi)).symm⟩

theorem decodeLE_congr {a b : Slice} (h : SameBytes a b) (w off : Nat) (hfit : off + w ≤ a.len) :
    decodeLE a off w = decodeLE b off w := by
  induction w generalizing off with
  | zero => rfl
  | succ n ih =>
    simp only [decodeLE]
    rw [h.2 off (by omega), ih (off + 1) (by omega)]

theorem decodeBE_congr {a b : Slice} (h : SameBytes a b) (w off : Nat) (hfit : off + w ≤ a.len) :
    decodeBE a off w = decodeBE b off w := by
  induction w generalizing off with
  | zero => rfl
  | succ n ih =>
    simp only [decodeBE]
    rw [h.2 off (by omega), ih (off + 1) (by omega)]

theorem decode_congr {a b : Slice} (h : SameBytes a b) (le : Bool) (w off : Nat) (hfit : off + w ≤ a.len) :
    decode le a off w = decode le b off w := by
  unfold decode; rw [decodeLE_congr h w off hfit, decodeBE_congr h w off hfit]

theorem readTy_congr {a b : Slice} (h : SameBytes a b) (le : Bool) (t : Ty) (off : Nat) :
    readTy le t a off = readTy le t b off := by
  rcases readTy_trichotomy le t a off with ⟨h1, h2, hr⟩ | ⟨e, hr, hn⟩
  · rw [hr, readTy_ok le t b off h2 (by rw [← h.1]; exact h1)]
    unfold tyVal; rw [decode_congr h le t.width off h1]
  · -- the failing read fails identically: the outcome depends only on len
    by_cases hu : off + t.width < USZ
    · have hs : a.len < off + t.width := by
        by_cases hh : off + t.width ≤ a.len
        · exact absurd ⟨hh, hu⟩ hn
        · omega
      rw [readTy_short le t a off hu hs, readTy_short le t b off hu (by rw [← h.1]; exact hs)]
    · rw [readTy_overflow le t a off (by omega), readTy_overflow le t b off (by omega)]

theorem runReads_congr {a b : Slice} (h : SameBytes a b) (le : Bool) (g : Option Guard) (ts : List Ty)
    (i : Nat) (acc : List Int) (off : Nat) :
    runReads le a g ts i acc off = runReads le b g ts i acc off := by
  induction ts generalizing i acc off with
  | nil => rfl
  | cons t ts ih =>
    unfold runReads
    rw [readTy_congr h le t off]
    generalize readTy le t b off = r
    obtain ⟨r1, r2⟩ := r
    cases r1 with
    | ok v =>
      cases g with
      | none => exact ih _ _ _
      | some gd =>
        simp only
        split
        · rfl
        · exact ih _ _ _
    | err e => rfl
    | panic => rfl

theorem parse_congr {α} {a b : Slice} (h : SameBytes a b) (ep : EntryParser α) (le : Bool) (c : Class)
    (off : Nat) : ep.parse le c a off = ep.parse le c b off := by
  unfold EntryParser.parse interp
  rw [runReads_congr h]

theorem Table.get_congr {α} {a b : Slice} (h : SameBytes a b) (ep : EntryParser α) (le : Bool) (c : Class)
    (i : Nat) : (⟨ep, le, c, a⟩ : Table α).get i = (⟨ep, le, c, b⟩ : Table α).get i := by
  unfold Table.get Slice.isEmpty
  simp only [h.1, parse_congr h]

theorem Table.len_congr {α} {a b : Slice} (h : SameBytes a b) (ep : EntryParser α) (le : Bool) (c : Class) :
    (⟨ep, le, c, a⟩ : Table α).len = (⟨ep, le, c, b⟩ : Table α).len := by
  unfold Table.len; simp only [h.1]

/-- iterator states over same-bytes windows at the same cursor -/
def IterSim {α} (x y : Iter α) : Prop :=
  x.ep = y.ep ∧ x.little = y.little ∧ x.cls = y.cls ∧ x.offset = y.offset ∧ SameBytes x.data y.data

theorem Iter.next_congr {α} (x y : Iter α) (h : IterSim x y) :
    x.next.1 = y.next.1 ∧ IterSim x.next.2 y.next.2 := by
  obtain ⟨h1, h2, h3, h4, h5⟩ := h
  unfold Iter.next Slice.isEmpty
  rw [h5.1]
  split
  · exact ⟨rfl, h1, h2, h3, h4, h5⟩
  · rw [h1, h2, h3, h4, parse_congr h5]
    generalize y.ep.parse y.little y.cls y.data y.offset = r
    obtain ⟨r1, r2⟩ := r
    cases r1 <;> exact ⟨rfl, rfl, rfl, rfl, rfl, h5⟩

theorem Iter.collectFuel_congr {α} (n : Nat) (x y : Iter α) (acc : List α) (h : IterSim x y) :
    (x.collectFuel n acc).1 = (y.collectFuel n acc).1 := by
  induction n generalizing x y acc with
  | zero => rfl
  | succ n ih =>
    unfold Iter.collectFuel
    obtain ⟨e1, e2⟩ := Iter.next_congr x y h
    generalize hx : x.next = rx at e1 e2
    generalize hy : y.next = ry at e1 e2
    obtain ⟨x1, x2⟩ := rx
    obtain ⟨y1, y2⟩ := ry
    simp only at e1 e2
    subst e1
    cases x1 with
    | ok o =>
      cases o with
      | none => rfl
      | some a => exact ih x2 y2 _ e2
    | err e => rfl
    | panic => rfl

theorem Iter.collect_congr {α} (x y : Iter α) (h : IterSim x y) : x.collect.1 = y.collect.1 := by
  rw [Iter.collect_eq, Iter.collect_eq, h.2.2.2.2.1]
  exact Iter.collectFuel_congr _ x y [] h

theorem Iter.findFuel_congr {α} (p : α → Bool) (n : Nat) (x y : Iter α) (h : IterSim x y) :
    Iter.findFuel p n x = Iter.findFuel p n y := by
  induction n generalizing x y with
  | zero => rfl
  | succ n ih =>
    unfold Iter.findFuel
    obtain ⟨e1, e2⟩ := Iter.next_congr x y h
    generalize hx : x.next = rx at e1 e2
    generalize hy : y.next = ry at e1 e2
    obtain ⟨x1, x2⟩ := rx
    obtain ⟨y1, y2⟩ := ry
    simp only at e1 e2
    subst e1
    cases x1 with
    | ok o =>
      cases o with
      | none => rfl
      | some a => simp only; split; rfl; exact ih x2 y2 e2
    | err e => rfl
    | panic => rfl

end Elf
