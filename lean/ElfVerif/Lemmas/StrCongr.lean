/-
  Lemmas/StrCongr.lean — string-table lookups and name comparison depend only on the bytes of the
  window (not on where the window lives): congruence under `SameBytes`.
-/
import ElfVerif.Lemmas.Congr
import ElfVerif.Model.StrTab
import ElfVerif.Model.ElfBytes
namespace Elf

theorem utf8From_congr {a b : Slice} (fuel i n : Nat) (h : ∀ j, j < i + n → a.byte j = b.byte j) :
    utf8From a fuel i n = utf8From b fuel i n := by
  induction fuel generalizing i n with
  | zero => cases n <;> rfl
  | succ fuel ih =>
    cases n with
    | zero => rfl
    | succ n =>
      simp only [utf8From]
      rw [h i (by omega)]
      have ih1 := ih (i + 1) n (fun j hj => h j (by omega))
      rw [ih1]
      by_cases h1 : n ≥ 1
      · rw [h (i + 1) (by omega), ih (i + 2) (n - 1) (fun j hj => h j (by omega))]
        by_cases h2 : n ≥ 2
        · rw [h (i + 2) (by omega), ih (i + 3) (n - 2) (fun j hj => h j (by omega))]
          by_cases h3 : n ≥ 3
          · rw [h (i + 3) (by omega), ih (i + 4) (n - 3) (fun j hj => h j (by omega))]
          · simp [h3]
        · have h3 : ¬ n ≥ 3 := by omega
          simp [h2, h3]
      · have h2 : ¬ n ≥ 2 := by omega
        have h3 : ¬ n ≥ 3 := by omega
        simp [h1, h2, h3]

theorem validUtf8_congr {a b : Slice} (h : SameBytes a b) : validUtf8 a = validUtf8 b := by
  unfold validUtf8
  rw [← h.1]
  exact utf8From_congr _ 0 _ (fun j hj => h.2 j (by omega))

theorem findNul_congr {a b : Slice} (i n : Nat) (h : ∀ j, j < i + n → a.byte j = b.byte j) :
    findNul a i n = findNul b i n := by
  induction n generalizing i with
  | zero => rfl
  | succ n ih =>
    simp only [findNul]
    rw [h i (by omega), ih (i + 1) (fun j hj => h j (by omega))]

theorem byte_shift (s : Slice) (a i : Nat) : (⟨s.buf, s.start + a, s.stop⟩ : Slice).byte i = s.byte (a + i) := by
  unfold Slice.byte; simp only [Nat.add_assoc]

/-- the raw string at `off`: same success, same error, same bytes -/
theorem strGetRaw_congr {a b : Slice} (h : SameBytes a b) (off : Nat) :
    (∃ x y, strGetRaw a off = .ok x ∧ strGetRaw b off = .ok y ∧ SameBytes x y) ∨
    (∃ e, strGetRaw a off = .err e ∧ strGetRaw b off = .err e) := by
  unfold strGetRaw Slice.isEmpty Slice.getFrom?
  rw [← h.1]
  by_cases hE : a.len = 0
  · simp [hE]
  · simp only [hE, beq_iff_eq, if_false]
    by_cases ho : off ≤ a.len
    · simp only [ho, if_true]
      have hla : (⟨a.buf, a.start + off, a.stop⟩ : Slice).len = a.len - off := by
        unfold Slice.len; simp; omega
      have hlb : (⟨b.buf, b.start + off, b.stop⟩ : Slice).len = a.len - off := by
        rw [h.1]; unfold Slice.len; simp; omega
      rw [hla, hlb]
      have hb : ∀ j, j < 0 + (a.len - off) →
          (⟨a.buf, a.start + off, a.stop⟩ : Slice).byte j = (⟨b.buf, b.start + off, b.stop⟩ : Slice).byte j := by
        intro j hj
        rw [byte_shift, byte_shift]
        exact h.2 _ (by omega)
      rw [findNul_congr 0 (a.len - off) hb]
      cases hf : findNul ⟨b.buf, b.start + off, b.stop⟩ 0 (a.len - off) with
      | none => exact Or.inr ⟨_, rfl, rfl⟩
      | some k =>
        refine Or.inl ⟨_, _, rfl, rfl, ?_⟩
        have hk : k < 0 + (a.len - off) := by
          clear hb hla hlb
          generalize (0 : Nat) = i0 at hf ⊢
          generalize a.len - off = n at hf ⊢
          induction n generalizing i0 with
          | zero => simp [findNul] at hf
          | succ n ih =>
            simp only [findNul] at hf
            split at hf
            · injection hf with hf; omega
            · have := ih (i0 + 1) hf; omega
        constructor
        · unfold Slice.len; simp
        · intro j hj
          have hj' : j < k := by unfold Slice.len at hj; simp at hj; omega
          have := hb j (by omega)
          unfold Slice.byte at this ⊢
          exact this
    · simp [ho]

theorem strGet_congr {a b : Slice} (h : SameBytes a b) (off : Nat) :
    (∃ x y, strGet a off = .ok x ∧ strGet b off = .ok y ∧ SameBytes x y) ∨
    (∃ e, strGet a off = .err e ∧ strGet b off = .err e) := by
  unfold strGet
  rcases strGetRaw_congr h off with ⟨x, y, h1, h2, h3⟩ | ⟨e, h1, h2⟩
  · rw [h1, h2]; simp only
    rw [validUtf8_congr h3]
    by_cases hv : validUtf8 y = true
    · simp only [hv, if_true]; exact Or.inl ⟨x, y, rfl, rfl, h3⟩
    · simp only [hv]; exact Or.inr ⟨_, rfl, rfl⟩
  · rw [h1, h2]; exact Or.inr ⟨e, rfl, rfl⟩

theorem eqAux_congr {a b n : Slice} (i k : Nat) (h : ∀ j, j < i + k → a.byte j = b.byte j) :
    Slice.eqAux a n i k = Slice.eqAux b n i k := by
  induction k generalizing i with
  | zero => rfl
  | succ k ih =>
    simp only [Slice.eqAux]
    rw [h i (by omega), ih (i + 1) (fun j hj => h j (by omega))]

theorem beqBytes_congr {a b : Slice} (h : SameBytes a b) (n : Slice) : a.beqBytes n = b.beqBytes n := by
  unfold Slice.beqBytes
  rw [← h.1, eqAux_congr 0 a.len (fun j hj => h.2 j (by omega))]

/-- `name == strtab.get(sh_name)` depends only on the string table's bytes -/
theorem nameMatches_congr {a b : Slice} (h : SameBytes a b) (name : Slice) (sh : SectionHeader) :
    ElfBytes.nameMatches a name sh = ElfBytes.nameMatches b name sh := by
  unfold ElfBytes.nameMatches
  rcases strGet_congr h sh.sh_name with ⟨x, y, h1, h2, h3⟩ | ⟨e, h1, h2⟩
  · rw [h1, h2]; exact beqBytes_congr h3 name
  · rw [h1, h2]

end Elf
