/-
  Lemmas/SysVComplete.lean — completeness of the SysV hash lookup on well-formed tables.
-/
import ElfVerif.Lemmas.Hash
namespace Elf

/-- The chain that starts at symbol index `start`, as the table, symbol table and string table
    decode it: every link is a non-zero index whose symbol and name can be read and whose chain
    entry can be read; it ends at index 0. -/
inductive SysVChain (t : SysVHashTable) (symtab : Table Symbol) (strtab : Slice) : Nat → List (Nat × Symbol × Slice) → Prop
  | nil : SysVChain t symtab strtab 0 []
  | cons (i : Nat) (sym : Symbol) (w : Slice) (nxt : Nat) (rest : List (Nat × Symbol × Slice))
      (hi : i ≠ 0) (hs : symtab.get i = .ok sym) (hn : strGetRaw strtab sym.st_name = .ok w)
      (hc : t.chains.get i = .ok nxt) (hr : SysVChain t symtab strtab nxt rest) :
      SysVChain t symtab strtab i ((i, sym, w) :: rest)

/-- first chain element whose name equals the query -/
def firstNamed (name : Slice) : List (Nat × Symbol × Slice) → Option (Nat × Symbol)
  | [] => none
  | (i, sym, w) :: rest => if w.beqBytes name then some (i, sym) else firstNamed name rest

/-- **The chain walk returns the first chain element with the queried name** (or `None`),
    provided the chain is no longer than the step bound `nchain`. -/
theorem sysvLoop_complete (t : SysVHashTable) (name : Slice) (symtab : Table Symbol) (strtab : Slice)
    (fuel index steps : Nat) (path : List (Nat × Symbol × Slice))
    (hp : SysVChain t symtab strtab index path) (hf : path.length ≤ fuel) :
    (sysvLoop t name symtab strtab fuel index steps).1 = .ok (firstNamed name path) := by
  induction hp generalizing fuel steps with
  | nil =>
    cases fuel with
    | zero => simp [sysvLoop, firstNamed]
    | succ n => simp [sysvLoop, firstNamed]
  | cons i sym w nxt rest hi hs hn hc hr ih =>
    cases fuel with
    | zero => simp at hf
    | succ n =>
      unfold sysvLoop
      simp only [hi, if_false, hs, hn, hc, firstNamed]
      split
      · rfl
      · exact ih n (steps + 1) (by simpa using hf)

/-- A well-formed `.hash` section for `(symtab, strtab)`: at least one bucket, and from every
    bucket the chain decodes, ends at 0 and is no longer than `nchain`. -/
structure WFSysV (t : SysVHashTable) (symtab : Table Symbol) (strtab : Slice) : Prop where
  nbucket_pos : t.buckets.len ≠ 0
  chains : ∀ b, b < t.buckets.len → ∃ start path, t.buckets.get b = .ok start ∧
    SysVChain t symtab strtab start path ∧ path.length ≤ t.chains.len

/-- **On a well-formed table the lookup is the first symbol of the name's bucket chain with that
    name** — hence it finds every symbol that is on the chain of its bucket, and returns `None`
    for a name no chain element carries (colliding hash or bucket or not). -/
theorem sysv_find_wf (t : SysVHashTable) (name : Slice) (symtab : Table Symbol) (strtab : Slice)
    (hw : WFSysV t symtab strtab) :
    ∃ start path, t.buckets.get (sysvHash name % t.buckets.len) = .ok start ∧
      SysVChain t symtab strtab start path ∧
      t.find name symtab strtab = .ok (firstNamed name path) := by
  have hb : sysvHash name % t.buckets.len < t.buckets.len := Nat.mod_lt _ (Nat.pos_of_ne_zero hw.nbucket_pos)
  obtain ⟨start, path, h1, h2, h3⟩ := hw.chains _ hb
  refine ⟨start, path, h1, h2, ?_⟩
  unfold SysVHashTable.find SysVHashTable.findSteps
  have hne : t.buckets.isEmpty = false := by simp [Table.isEmpty, hw.nbucket_pos]
  simp only [hne, Bool.false_eq_true, if_false, umod, hw.nbucket_pos, h1]
  exact sysvLoop_complete t name symtab strtab _ start 0 path h2 h3

theorem firstNamed_some (name : Slice) (path : List (Nat × Symbol × Slice)) (i : Nat) (sym : Symbol) (w : Slice)
    (hm : (i, sym, w) ∈ path) (hw : w.beqBytes name = true) :
    ∃ j s, firstNamed name path = some (j, s) ∧ ∃ w', (j, s, w') ∈ path ∧ w'.beqBytes name = true := by
  induction path with
  | nil => cases hm
  | cons a rest ih =>
    obtain ⟨a1, a2, a3⟩ := a
    simp only [firstNamed]
    by_cases ha : a3.beqBytes name = true
    · exact ⟨a1, a2, by simp [ha], a3, List.mem_cons_self .., ha⟩
    · simp only [ha, Bool.false_eq_true, if_false]
      rcases List.mem_cons.mp hm with he | hm'
      · injection he with _ he2; injection he2 with _ he3; subst he3; exact absurd hw ha
      · obtain ⟨j, s, h1, w', h2, h3⟩ := ih hm'
        exact ⟨j, s, h1, w', List.mem_cons_of_mem _ h2, h3⟩

theorem firstNamed_none (name : Slice) (path : List (Nat × Symbol × Slice))
    (h : ∀ e, e ∈ path → e.2.2.beqBytes name = false) : firstNamed name path = none := by
  induction path with
  | nil => rfl
  | cons a rest ih =>
    obtain ⟨a1, a2, a3⟩ := a
    have := h (a1, a2, a3) (List.mem_cons_self ..)
    simp only at this
    simp only [firstNamed, this, Bool.false_eq_true, if_false]
    exact ih (fun e he => h e (List.mem_cons_of_mem _ he))

/-- the decoded chain from a given start is unique -/
theorem SysVChain.unique {t : SysVHashTable} {symtab : Table Symbol} {strtab : Slice} {i : Nat}
    {p q : List (Nat × Symbol × Slice)} (hp : SysVChain t symtab strtab i p)
    (hq : SysVChain t symtab strtab i q) : p = q := by
  induction hp generalizing q with
  | nil =>
    cases hq with
    | nil => rfl
    | cons i sym w nxt rest hi _ _ _ _ => exact absurd rfl hi
  | cons i sym w nxt rest hi hs hn hc hr ih =>
    cases hq with
    | nil => exact absurd rfl hi
    | cons _ sym' w' nxt' rest' _ hs' hn' hc' hr' =>
      rw [hs] at hs'; injection hs' with hs'; subst hs'
      rw [hn] at hn'; injection hn' with hn'; subst hn'
      rw [hc] at hc'; injection hc' with hc'; subst hc'
      rw [ih hr']

end Elf
