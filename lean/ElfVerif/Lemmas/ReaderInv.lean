/-
  Lemmas/ReaderInv.lean — any predicate on the caching reader that `load_bytes` preserves is
  preserved by `open_stream`'s reads and by every query (whatever the schedule and the outcome).
  (The `RInv` and `WInv` instances were proved directly in QueryEquiv / FaultEquiv; this generic
  version is used for further invariants such as the allocation bound of C08.)
-/
import ElfVerif.Lemmas.FaultEquiv
namespace Elf

section
variable {P : CachingReader → Prop} (hP : ∀ r s e, P r → P (r.loadBytes s e).2)
include hP

theorem loadBytes_pinv (r : CachingReader) (s e : Nat) (h : P r) : P (r.loadBytes s e).2 := hP r s e h

theorem readBytes_pinv (r : CachingReader) (s e : Nat) (h : P r) : P (r.readBytes s e).2 := by
  have := hP r s e h
  unfold CachingReader.readBytes
  generalize r.loadBytes s e = l at this
  obtain ⟨l1, l2⟩ := l
  cases l1 <;> exact this

theorem withReader_pinv {α} (s : ElfStream) (x : Out α × CachingReader)
    (h : P x.2) : P (s.withReader x).2.reader := h

theorem rbind_read_pinv {α} (r : CachingReader) (hw : P r) (a b : Nat)
    (k : Slice → CachingReader → Out α × CachingReader) (hk : ∀ buf r', (k buf r').2 = r') :
    P (rbind (r.readBytes a b) k).2 := by
  have := readBytes_pinv hP r a b hw
  unfold rbind
  generalize r.readBytes a b = q at this
  obtain ⟨q1, q2⟩ := q
  cases q1 with
  | ok buf => simp only; rw [hk]; exact this
  | err e => exact this
  | panic => exact this

theorem sectionData_pinv (s : ElfStream) (hw : P s.reader) (sh : SectionHeader) :
    P (s.sectionData sh).2.reader := by
  rw [sectionData_eq]
  split
  · exact hw
  · split
    · exact hw
    · exact hw
    · exact rbind_read_pinv hP s.reader hw _ _ _ (fun _ _ => rfl)

theorem typedRange_pinv (s : ElfStream) (hw : P s.reader) (sh : SectionHeader) (want : Nat) :
    P (s.typedRange sh want).2.reader := by
  unfold ElfStream.typedRange
  split
  · exact hw
  · split
    · exact hw
    · exact hw
    · exact readBytes_pinv hP s.reader _ _ hw

theorem segmentNotes_pinv (s : ElfStream) (hw : P s.reader) (ph : ProgramHeader) :
    P (s.segmentDataAsNotes ph).2.reader := by
  unfold ElfStream.segmentDataAsNotes
  split
  · exact hw
  · split
    · exact hw
    · exact hw
    · exact rbind_read_pinv hP s.reader hw _ _ _ (fun _ _ => rfl)

theorem strtabAt_pinv (s : ElfStream) (hw : P s.reader) (idx : Nat) :
    P (s.strtabAt idx).2.reader := by
  unfold ElfStream.strtabAt
  split
  · exact hw
  · split
    · exact hw
    · exact hw
    · exact rbind_read_pinv hP s.reader hw _ _ _ (fun _ _ => rfl)

theorem shstrtab_pinv (s : ElfStream) (hw : P s.reader) :
    P s.sectionHeadersWithStrtab.2.reader := by
  unfold ElfStream.sectionHeadersWithStrtab
  split
  · exact hw
  · split
    · exact hw
    · split
      · split
        · exact strtabAt_pinv hP s hw _
        · exact hw
      · exact strtabAt_pinv hP s hw _

theorem dynamic_pinv (s : ElfStream) (hw : P s.reader) :
    P s.dynamic.2.reader := by
  unfold ElfStream.dynamic
  split
  · split
    · split
      · exact hw
      · exact hw
      · exact rbind_read_pinv hP s.reader hw _ _ _ (fun _ _ => rfl)
    · exact hw
  · split
    · split
      · split
        · exact hw
        · exact hw
        · exact rbind_read_pinv hP s.reader hw _ _ _ (fun _ _ => rfl)
      · exact hw
    · exact hw

theorem symtab_pinv (s : ElfStream) (hw : P s.reader) (ty : Nat) :
    P (s.symbolTableOfType ty).2.reader := by
  unfold ElfStream.symbolTableOfType
  split
  · exact hw
  · split
    · exact hw
    · rename_i shdr _
      cases hrg : dataRange shdr.sh_offset shdr.sh_size with
      | err e => exact hw
      | panic => exact hw
      | ok rg =>
        simp only [ElfStream.withReader]
        have h1 := loadBytes_pinv hP s.reader rg.1 rg.2 hw
        unfold rbind
        generalize s.reader.loadBytes rg.1 rg.2 = q at h1
        obtain ⟨q1, q2⟩ := q
        cases q1 with
        | err e => exact h1
        | panic => exact h1
        | ok u =>
          simp only at h1 ⊢
          split
          · exact h1
          · rename_i strtab _
            cases hrg2 : dataRange strtab.sh_offset strtab.sh_size with
            | err e => exact h1
            | panic => exact h1
            | ok rg2 =>
              simp only
              have h2 := loadBytes_pinv hP q2 rg2.1 rg2.2 h1
              generalize q2.loadBytes rg2.1 rg2.2 = p at h2
              obtain ⟨p1, p2⟩ := p
              cases p1 with
              | err e => exact h2
              | panic => exact h2
              | ok u2 =>
                simp only [rlift] at h2 ⊢
                cases Symbol.ep.validateEntsize s.ehdr.cls shdr.sh_entsize with
                | err e => exact h2
                | panic => exact h2
                | ok v =>
                  simp only
                  cases p2.getBytes rg.1 rg.2 with
                  | err e => exact h2
                  | panic => exact h2
                  | ok b1 =>
                    simp only
                    cases p2.getBytes rg2.1 rg2.2 <;> exact h2

theorem verLoad_pinv (s : ElfStream) (o : Option SectionHeader) (r : CachingReader)
    (h : P r) : P (s.verLoad o r).2 := by
  unfold ElfStream.verLoad
  cases o with
  | none => exact h
  | some shdr =>
    simp only [rbind, rlift]
    cases hrg : dataRange shdr.sh_offset shdr.sh_size with
    | err e => exact h
    | panic => exact h
    | ok rg =>
      simp only
      have h1 := loadBytes_pinv hP r rg.1 rg.2 h
      generalize r.loadBytes rg.1 rg.2 = q at h1
      obtain ⟨q1, q2⟩ := q
      cases q1 with
      | err e => exact h1
      | panic => exact h1
      | ok u =>
        simp only at h1 ⊢
        split
        · exact h1
        · rename_i strs _
          cases hrg2 : dataRange strs.sh_offset strs.sh_size with
          | err e => exact h1
          | panic => exact h1
          | ok rg2 =>
            simp only
            have h2 := loadBytes_pinv hP q2 rg2.1 rg2.2 h1
            generalize q2.loadBytes rg2.1 rg2.2 = p at h2
            obtain ⟨p1, p2⟩ := p
            cases p1 <;> exact h2

theorem symver_pinv (s : ElfStream) (hw : P s.reader) :
    P s.symbolVersionTable.2.reader := by
  unfold ElfStream.symbolVersionTable
  split
  · exact hw
  · generalize ElfStream.verScanList s.shdrs none none none = sc
    obtain ⟨vs, nd, df⟩ := sc
    simp only
    cases vs with
    | none => exact hw
    | some versym =>
      simp only [ElfStream.withReader, rbind, rlift]
      cases VersionIndex.ep.validateEntsize s.ehdr.cls versym.sh_entsize with
      | err e => exact hw
      | panic => exact hw
      | ok v =>
        simp only
        cases hrg : dataRange versym.sh_offset versym.sh_size with
        | err e => exact hw
        | panic => exact hw
        | ok vrg =>
          simp only
          have h1 := loadBytes_pinv hP s.reader vrg.1 vrg.2 hw
          generalize s.reader.loadBytes vrg.1 vrg.2 = q at h1
          obtain ⟨q1, q2⟩ := q
          cases q1 with
          | err e => exact h1
          | panic => exact h1
          | ok u =>
            simp only at h1 ⊢
            have h2 := verLoad_pinv hP s nd q2 h1
            generalize s.verLoad nd q2 = p at h2
            obtain ⟨p1, p2⟩ := p
            cases p1 with
            | err e => exact h2
            | panic => exact h2
            | ok needs =>
              simp only at h2 ⊢
              have h3 := verLoad_pinv hP s df p2 h2
              generalize s.verLoad df p2 = w at h3
              obtain ⟨w1, w2⟩ := w
              cases w1 with
              | err e => exact h3
              | panic => exact h3
              | ok defs =>
                simp only at h3 ⊢
                cases s.verWrap needs w2 with
                | err e => exact h3
                | panic => exact h3
                | ok vn =>
                  simp only
                  cases s.verWrap defs w2 with
                  | err e => exact h3
                  | panic => exact h3
                  | ok vd =>
                    simp only
                    cases w2.getBytes vrg.1 vrg.2 <;> exact h3

/-- **No residue**: after any query, under any schedule and whatever the query returned, the
    reader still satisfies the invariant (its cache is the file's bytes; the contents are untouched). -/
theorem Query.after_pinv (q : Query) (s : ElfStream) (hw : P s.reader) :
    P (q.after s).reader := by
  cases q with
  | sectionData sh => exact sectionData_pinv hP s hw sh
  | strtab sh => exact typedRange_pinv hP s hw sh _
  | rels sh =>
    have := typedRange_pinv hP s hw sh Abi.SHT_REL
    simp only [Query.after, ElfStream.sectionDataAsRels]
    generalize s.typedRange sh Abi.SHT_REL = q at this
    obtain ⟨q1, q2⟩ := q
    cases q1 <;> exact this
  | relas sh =>
    have := typedRange_pinv hP s hw sh Abi.SHT_RELA
    simp only [Query.after, ElfStream.sectionDataAsRelas]
    generalize s.typedRange sh Abi.SHT_RELA = q at this
    obtain ⟨q1, q2⟩ := q
    cases q1 <;> exact this
  | notes sh =>
    have := typedRange_pinv hP s hw sh Abi.SHT_NOTE
    simp only [Query.after, ElfStream.sectionDataAsNotes]
    generalize s.typedRange sh Abi.SHT_NOTE = q at this
    obtain ⟨q1, q2⟩ := q
    cases q1 <;> exact this
  | segmentNotes ph => exact segmentNotes_pinv hP s hw ph
  | shstrtab => exact shstrtab_pinv hP s hw
  | byName name =>
    have := shstrtab_pinv hP s hw
    simp only [Query.after, ElfStream.sectionHeaderByName]
    generalize s.sectionHeadersWithStrtab = q at this
    obtain ⟨q1, q2⟩ := q
    cases q1 with
    | ok o => cases o <;> exact this
    | err e => exact this
    | panic => exact this
  | symbolTable => exact symtab_pinv hP s hw _
  | dynamicSymbolTable => exact symtab_pinv hP s hw _
  | dynamic => exact dynamic_pinv hP s hw
  | symbolVersionTable => exact symver_pinv hP s hw

theorem history_pinv (qs : List Query) (s : ElfStream) (hw : P s.reader) :
    P (qs.foldl (fun s q => q.after s) s).reader := by
  induction qs generalizing s with
  | nil => exact hw
  | cons q qs ih => exact ih _ (q.after_pinv hP s hw)


theorem streamShdr0_pinv (h : FileHeader) (size : Nat) (proj : SectionHeader → Nat) (r : CachingReader)
    (hw : P r) : P (streamShdr0 h size proj r).2 := by
  unfold streamShdr0 rbind rlift
  cases Out.ofOption Err.IntegerOverflow (checkedAdd h.t.e_shoff size) with
  | err e => exact hw
  | panic => exact hw
  | ok end_ =>
    simp only
    have := readBytes_pinv hP r h.t.e_shoff end_ hw
    generalize r.readBytes h.t.e_shoff end_ = q at this
    obtain ⟨q1, q2⟩ := q
    cases q1 with
    | err e => exact this
    | panic => exact this
    | ok data =>
      simp only
      cases (SectionHeader.ep.parse h.little h.cls data 0).1 <;> exact this

theorem streamTable_pinv {α} (mk : Slice → Table α) (off entsize n : Nat) (r : CachingReader)
    (hw : P r) : P (streamTable mk off entsize n r).2 := by
  unfold streamTable rbind rlift
  cases Out.ofOption Err.IntegerOverflow (checkedMul entsize n) with
  | err e => exact hw
  | panic => exact hw
  | ok size =>
    simp only
    cases Out.ofOption Err.IntegerOverflow (checkedAdd off size) with
    | err e => exact hw
    | panic => exact hw
    | ok end_ =>
      simp only
      have := readBytes_pinv hP r off end_ hw
      generalize r.readBytes off end_ = q at this
      obtain ⟨q1, q2⟩ := q
      cases q1 <;> exact this

theorem parseSectionHeaders_pinv (h : FileHeader) (r : CachingReader) (hw : P r) :
    P (parseSectionHeaders h r).2 := by
  unfold parseSectionHeaders
  split
  · exact hw
  · unfold rbind rlift
    cases SectionHeader.ep.validateEntsize h.cls h.t.e_shentsize with
    | err e => exact hw
    | panic => exact hw
    | ok entsize =>
      simp only
      have h1 : P (if h.t.e_shnum = 0 then streamShdr0 h entsize SectionHeader.sh_size r
          else (Out.ok h.t.e_shnum, r)).2 := by
        split
        · exact streamShdr0_pinv hP h _ _ r hw
        · exact hw
      generalize (if h.t.e_shnum = 0 then streamShdr0 h entsize SectionHeader.sh_size r
          else (Out.ok h.t.e_shnum, r)) = q at h1
      obtain ⟨q1, q2⟩ := q
      cases q1 with
      | err e => exact h1
      | panic => exact h1
      | ok n => exact streamTable_pinv hP _ _ _ _ q2 h1

theorem parseProgramHeaders_pinv (h : FileHeader) (r : CachingReader) (hw : P r) :
    P (parseProgramHeaders h r).2 := by
  unfold parseProgramHeaders
  split
  · exact hw
  · unfold rbind rlift
    have h1 : P (if h.t.e_phnum = Abi.PN_XNUM then
        streamShdr0 h (SectionHeader.ep.size h.cls) SectionHeader.sh_info r else (Out.ok h.t.e_phnum, r)).2 := by
      split
      · exact streamShdr0_pinv hP h _ _ r hw
      · exact hw
    generalize (if h.t.e_phnum = Abi.PN_XNUM then
        streamShdr0 h (SectionHeader.ep.size h.cls) SectionHeader.sh_info r else (Out.ok h.t.e_phnum, r)) = q at h1
    obtain ⟨q1, q2⟩ := q
    cases q1 with
    | err e => exact h1
    | panic => exact h1
    | ok n =>
      simp only
      cases ProgramHeader.ep.validateEntsize h.cls h.t.e_phentsize with
      | err e => exact h1
      | panic => exact h1
      | ok entsize => exact streamTable_pinv hP _ _ _ _ q2 h1


/-- the invariant after `open_stream`, given that a fresh reader has it and clearing the cache keeps it -/
theorem openStream_pinv (sp : Spec) (dev : Device)
    (hnew : ∀ cr d, CachingReader.new dev = (.ok cr, d) → P cr)
    (hclear : ∀ r, P r → P r.clearCache) (s : ElfStream) (d : Device)
    (h : openStream sp dev = (.ok s, d)) : P s.reader := by
  unfold openStream at h
  generalize hn : CachingReader.new dev = nw at h
  obtain ⟨nw1, nw2⟩ := nw
  cases nw1 with
  | err e => simp at h
  | panic => simp at h
  | ok cr =>
    have hcr := hnew cr nw2 hn
    simp only [rbind, rlift] at h
    injection h with h _
    have h1 := readBytes_pinv hP cr 0 Abi.EI_NIDENT hcr
    generalize cr.readBytes 0 Abi.EI_NIDENT = q1 at h h1
    obtain ⟨q1a, r1⟩ := q1
    cases q1a with
    | err e => simp at h
    | panic => simp at h
    | ok identBuf =>
      simp only at h h1
      cases hid : parseIdent sp identBuf with
      | err e => simp [hid] at h
      | panic => simp [hid] at h
      | ok ident =>
        simp only [hid] at h
        cases hu : uadd Abi.EI_NIDENT (Gen.size_FileHeaderTail ident.2.1) with
        | err e => simp [hu] at h
        | panic => simp [hu] at h
        | ok tailEnd =>
          simp only [hu] at h
          have h2 := readBytes_pinv hP r1 Abi.EI_NIDENT tailEnd h1
          generalize r1.readBytes Abi.EI_NIDENT tailEnd = q2 at h h2
          obtain ⟨q2a, r2⟩ := q2
          cases q2a with
          | err e => simp at h
          | panic => simp at h
          | ok tailBuf =>
            simp only at h h2
            cases hpt : parseTail ident tailBuf with
            | err e => simp [hpt] at h
            | panic => simp [hpt] at h
            | ok ehdr =>
              simp only [hpt] at h
              have h3 := parseSectionHeaders_pinv hP ehdr r2 h2
              generalize parseSectionHeaders ehdr r2 = q3 at h h3
              obtain ⟨q3a, r3⟩ := q3
              cases q3a with
              | err e => simp at h
              | panic => simp at h
              | ok shdrs =>
                simp only at h h3
                have h4 := parseProgramHeaders_pinv hP ehdr r3 h3
                generalize parseProgramHeaders ehdr r3 = q4 at h h4
                obtain ⟨q4a, r4⟩ := q4
                cases q4a with
                | err e => simp at h
                | panic => simp at h
                | ok phdrs =>
                  simp only at h h4
                  injection h with h
                  subst h
                  exact hclear r4 h4

end
end Elf
