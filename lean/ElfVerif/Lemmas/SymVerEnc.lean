/-
  Lemmas/SymVerEnc.lean — from bytes to chains: a window that holds the GNU-ABI encodings of version
  records, linked by their next/aux offsets in any forward layout, satisfies the chain predicates of
  SymVerComplete (so the completeness theorems apply to every such byte layout).
-/
import ElfVerif.Lemmas.SymVerComplete
import ElfVerif.Props.C02
namespace Elf

open C04 (HoldsAt)
open C02 (encodeFields InRange parse_of_encoding fieldVal)

theorem parse_VerDefAux_enc (le : Bool) (cls : Class) (d : Slice) (off : Nat) (a : VerDefAux)
    (hfit : off + 8 ≤ d.len) (husz : off + 8 < USZ) (hr : a.vda_name < 2 ^ 32 ∧ a.vda_next < 2 ^ 32)
    (h : HoldsAt d off (encodeFields le [.u32, .u32] [a.vda_name, a.vda_next])) :
    (VerDefAux.ep.parse le cls d off).1 = .ok a := by
  have hp : (VerDefAux.ep.prog cls) = { reads := [.u32, .u32], guard := none, fields := [(.rd 0), (.rd 1)] } := by
    cases cls <;> rfl
  have := parse_of_encoding VerDefAux.ep le cls d off [a.vda_name, a.vda_next]
    (by rw [hp]; simpa [Prog.size, Ty.width] using hfit) (by rw [hp]; simpa [Prog.size, Ty.width] using husz)
    (by rw [hp]; simp [InRange, Ty.width]; omega) (by rw [hp]; exact h) (by rw [hp]; simp [guardAccepts])
  rw [this, hp]
  simp [VerDefAux.ep, VerDefAux.ofVals, fieldVal, Ty.signed, Expr.eval]

theorem parse_VerNeedAux_enc (le : Bool) (cls : Class) (d : Slice) (off : Nat) (a : VerNeedAux)
    (hfit : off + 16 ≤ d.len) (husz : off + 16 < USZ)
    (hr : a.vna_hash < 2 ^ 32 ∧ a.vna_flags < 2 ^ 16 ∧ a.vna_other < 2 ^ 16 ∧ a.vna_name < 2 ^ 32 ∧ a.vna_next < 2 ^ 32)
    (h : HoldsAt d off (encodeFields le [.u32, .u16, .u16, .u32, .u32]
      [a.vna_hash, a.vna_flags, a.vna_other, a.vna_name, a.vna_next])) :
    (VerNeedAux.ep.parse le cls d off).1 = .ok a := by
  have hp : (VerNeedAux.ep.prog cls) = { reads := [.u32, .u16, .u16, .u32, .u32], guard := none, fields := [(.rd 0), (.rd 1), (.rd 2), (.rd 3), (.rd 4)] } := by
    cases cls <;> rfl
  have := parse_of_encoding VerNeedAux.ep le cls d off [a.vna_hash, a.vna_flags, a.vna_other, a.vna_name, a.vna_next]
    (by rw [hp]; simpa [Prog.size, Ty.width] using hfit) (by rw [hp]; simpa [Prog.size, Ty.width] using husz)
    (by rw [hp]; simp [InRange, Ty.width]; omega) (by rw [hp]; exact h) (by rw [hp]; simp [guardAccepts])
  rw [this, hp]
  simp [VerNeedAux.ep, VerNeedAux.ofVals, fieldVal, Ty.signed, Expr.eval]

theorem parse_VerNeed_enc (le : Bool) (cls : Class) (d : Slice) (off : Nat) (a : VerNeed)
    (hfit : off + 16 ≤ d.len) (husz : off + 16 < USZ)
    (hr : a.vn_cnt < 2 ^ 16 ∧ a.vn_file < 2 ^ 32 ∧ a.vn_aux < 2 ^ 32 ∧ a.vn_next < 2 ^ 32)
    (h : HoldsAt d off (encodeFields le [.u16, .u16, .u32, .u32, .u32]
      [1, a.vn_cnt, a.vn_file, a.vn_aux, a.vn_next])) :
    (VerNeed.ep.parse le cls d off).1 = .ok a := by
  have hp : (VerNeed.ep.prog cls) = { reads := [.u16, .u16, .u32, .u32, .u32], guard := some ⟨0, 1, 1⟩, fields := [(.rd 1), (.rd 2), (.rd 3), (.rd 4)] } := by
    cases cls <;> rfl
  have := parse_of_encoding VerNeed.ep le cls d off [1, a.vn_cnt, a.vn_file, a.vn_aux, a.vn_next]
    (by rw [hp]; simpa [Prog.size, Ty.width] using hfit) (by rw [hp]; simpa [Prog.size, Ty.width] using husz)
    (by rw [hp]; simp [InRange, Ty.width]; omega) (by rw [hp]; exact h)
    (by rw [hp]; simp [guardAccepts, fieldVal, Ty.signed]; intro j _ hj; subst hj; simp)
  rw [this, hp]
  simp [VerNeed.ep, VerNeed.ofVals, fieldVal, Ty.signed, Expr.eval]

theorem parse_VerDef_enc (le : Bool) (cls : Class) (d : Slice) (off : Nat) (a : VerDef)
    (hfit : off + 20 ≤ d.len) (husz : off + 20 < USZ)
    (hr : a.vd_flags < 2 ^ 16 ∧ a.vd_ndx < 2 ^ 16 ∧ a.vd_cnt < 2 ^ 16 ∧ a.vd_hash < 2 ^ 32 ∧ a.vd_aux < 2 ^ 32 ∧ a.vd_next < 2 ^ 32)
    (h : HoldsAt d off (encodeFields le [.u16, .u16, .u16, .u16, .u32, .u32, .u32]
      [1, a.vd_flags, a.vd_ndx, a.vd_cnt, a.vd_hash, a.vd_aux, a.vd_next])) :
    (VerDef.ep.parse le cls d off).1 = .ok a := by
  have hp : (VerDef.ep.prog cls) = { reads := [.u16, .u16, .u16, .u16, .u32, .u32, .u32], guard := some ⟨0, 1, 1⟩, fields := [(.rd 1), (.rd 2), (.rd 3), (.rd 4), (.rd 5), (.rd 6)] } := by
    cases cls <;> rfl
  have := parse_of_encoding VerDef.ep le cls d off [1, a.vd_flags, a.vd_ndx, a.vd_cnt, a.vd_hash, a.vd_aux, a.vd_next]
    (by rw [hp]; simpa [Prog.size, Ty.width] using hfit) (by rw [hp]; simpa [Prog.size, Ty.width] using husz)
    (by rw [hp]; simp [InRange, Ty.width]; omega) (by rw [hp]; exact h)
    (by rw [hp]; simp [guardAccepts, fieldVal, Ty.signed]; intro j _ hj; subst hj; simp)
  rw [this, hp]
  simp [VerDef.ep, VerDef.ofVals, fieldVal, Ty.signed, Expr.eval]

/-! ## Byte-level chains -/

def encNeedAux (le : Bool) (a : VerNeedAux) : List Nat :=
  encodeFields le [.u32, .u16, .u16, .u32, .u32] [a.vna_hash, a.vna_flags, a.vna_other, a.vna_name, a.vna_next]
def encDefAux (le : Bool) (a : VerDefAux) : List Nat :=
  encodeFields le [.u32, .u32] [a.vda_name, a.vda_next]
def encNeed (le : Bool) (a : VerNeed) : List Nat :=
  encodeFields le [.u16, .u16, .u32, .u32, .u32] [1, a.vn_cnt, a.vn_file, a.vn_aux, a.vn_next]
def encDef (le : Bool) (a : VerDef) : List Nat :=
  encodeFields le [.u16, .u16, .u16, .u16, .u32, .u32, .u32]
    [1, a.vd_flags, a.vd_ndx, a.vd_cnt, a.vd_hash, a.vd_aux, a.vd_next]

def VerNeedAux.InRange (a : VerNeedAux) : Prop :=
  a.vna_hash < 2 ^ 32 ∧ a.vna_flags < 2 ^ 16 ∧ a.vna_other < 2 ^ 16 ∧ a.vna_name < 2 ^ 32 ∧ a.vna_next < 2 ^ 32
def VerDefAux.InRange (a : VerDefAux) : Prop := a.vda_name < 2 ^ 32 ∧ a.vda_next < 2 ^ 32
def VerNeed.InRange (a : VerNeed) : Prop :=
  a.vn_cnt < 2 ^ 16 ∧ a.vn_file < 2 ^ 32 ∧ a.vn_aux < 2 ^ 32 ∧ a.vn_next < 2 ^ 32
def VerDef.InRange (a : VerDef) : Prop :=
  a.vd_flags < 2 ^ 16 ∧ a.vd_ndx < 2 ^ 16 ∧ a.vd_cnt < 2 ^ 16 ∧ a.vd_hash < 2 ^ 32 ∧ a.vd_aux < 2 ^ 32 ∧ a.vd_next < 2 ^ 32

/-- `count` Vernaux records laid out per the GNU ABI: the first at `off`, each next one `vna_next`
    bytes after its predecessor (non-zero except possibly on the last) -/
inductive EncNeedAuxs (le : Bool) (data : Slice) : Nat → Nat → List VerNeedAux → Prop
  | done (off : Nat) : EncNeedAuxs le data 0 off []
  | step (count off : Nat) (a : VerNeedAux) (rest : List VerNeedAux)
      (hfit : off + 16 ≤ data.len) (hr : a.InRange) (h : HoldsAt data off (encNeedAux le a))
      (hlink : count = 0 ∨ a.vna_next ≠ 0)
      (hrest : EncNeedAuxs le data count (off + a.vna_next) rest) :
      EncNeedAuxs le data (count + 1) off (a :: rest)

inductive EncDefAuxs (le : Bool) (data : Slice) : Nat → Nat → List VerDefAux → Prop
  | done (off : Nat) : EncDefAuxs le data 0 off []
  | step (count off : Nat) (a : VerDefAux) (rest : List VerDefAux)
      (hfit : off + 8 ≤ data.len) (hr : a.InRange) (h : HoldsAt data off (encDefAux le a))
      (hlink : count = 0 ∨ a.vda_next ≠ 0)
      (hrest : EncDefAuxs le data count (off + a.vda_next) rest) :
      EncDefAuxs le data (count + 1) off (a :: rest)

/-- `count` Verneed records laid out per the GNU ABI, each with its `vn_cnt` Vernaux records at
    `vn_aux` bytes from its own start — in any forward layout -/
inductive EncNeeds (le : Bool) (data : Slice) : Nat → Nat → List (VerNeed × List VerNeedAux) → Prop
  | done (off : Nat) : EncNeeds le data 0 off []
  | step (count off : Nat) (vn : VerNeed) (auxs : List VerNeedAux) (rest : List (VerNeed × List VerNeedAux))
      (hfit : off + 16 ≤ data.len) (hr : vn.InRange) (h : HoldsAt data off (encNeed le vn))
      (hlink : count = 0 ∨ vn.vn_next ≠ 0)
      (ha : EncNeedAuxs le data vn.vn_cnt (off + vn.vn_aux) auxs)
      (hrest : EncNeeds le data count (off + vn.vn_next) rest) :
      EncNeeds le data (count + 1) off ((vn, auxs) :: rest)

/-- `count` Verdef records laid out per the GNU ABI (the aux chain of each is described by `EncDefAuxs`) -/
inductive EncDefs (le : Bool) (cls : Class) (data : Slice) : Nat → Nat → List (VerDef × VerIter) → Prop
  | done (off : Nat) : EncDefs le cls data 0 off []
  | step (count off : Nat) (vd : VerDef) (rest : List (VerDef × VerIter))
      (hfit : off + 20 ≤ data.len) (hr : vd.InRange) (h : HoldsAt data off (encDef le vd))
      (hlink : count = 0 ∨ vd.vd_next ≠ 0)
      (hrest : EncDefs le cls data count (off + vd.vd_next) rest) :
      EncDefs le cls data (count + 1) off ((vd, ⟨le, cls, vd.vd_cnt, data, off + vd.vd_aux⟩) :: rest)

theorem EncNeedAuxs.toChain {le : Bool} {data : Slice} (cls : Class) (hlen : data.len < 2 ^ 63)
    {count off : Nat} {auxs : List VerNeedAux} (h : EncNeedAuxs le data count off auxs) :
    AuxChain VerNeedAux.ep VerNeedAux.vna_next le cls data count off auxs := by
  induction h with
  | done off => exact .done off
  | step count off a rest hfit hr h hlink _ ih =>
    have hu := USZ_eq
    refine .step count off a rest (parse_VerNeedAux_enc le cls data off a hfit (by omega) hr h) ?_ hlink ih
    have := hr.2.2.2.2
    omega

theorem EncDefAuxs.toChain {le : Bool} {data : Slice} (cls : Class) (hlen : data.len < 2 ^ 63)
    {count off : Nat} {auxs : List VerDefAux} (h : EncDefAuxs le data count off auxs) :
    AuxChain VerDefAux.ep VerDefAux.vda_next le cls data count off auxs := by
  induction h with
  | done off => exact .done off
  | step count off a rest hfit hr h hlink _ ih =>
    have hu := USZ_eq
    refine .step count off a rest (parse_VerDefAux_enc le cls data off a hfit (by omega) hr h) ?_ hlink ih
    have := hr.2
    omega

theorem EncNeeds.toChain {le : Bool} {data : Slice} (cls : Class) (hlen : data.len < 2 ^ 63)
    {count off : Nat} {recs : List (VerNeed × List VerNeedAux)} (h : EncNeeds le data count off recs) :
    NeedChain le cls data count off recs := by
  induction h with
  | done off => exact .done off
  | step count off vn auxs rest hfit hr h hlink ha _ ih =>
    have hu := USZ_eq
    obtain ⟨_, _, h3, h4⟩ := hr
    exact .step count off vn auxs rest (parse_VerNeed_enc le cls data off vn hfit (by omega) ⟨by assumption, by assumption, h3, h4⟩ h)
      (by omega) (by omega) hlink (ha.toChain cls hlen) ih

theorem EncDefs.toChain {le : Bool} {cls : Class} {data : Slice} (hlen : data.len < 2 ^ 63)
    {count off : Nat} {recs : List (VerDef × VerIter)} (h : EncDefs le cls data count off recs) :
    RecChain VerDef.ep VerDef.vd_cnt VerDef.vd_aux VerDef.vd_next le cls data count off recs := by
  induction h with
  | done off => exact .done off
  | step count off vd rest hfit hr h hlink _ ih =>
    have hu := USZ_eq
    have h5 := hr.2.2.2.2.1
    have h6 := hr.2.2.2.2.2
    exact .step count off vd rest (parse_VerDef_enc le cls data off vd hfit (by omega) hr h)
      (by omega) (by omega) hlink ih

end Elf
