/-
  Lemmas/Accessors.lean — the generated accessors (`Gen.acc_*`, translated from the Rust bodies on every run)
  evaluated by the kernel on **every** value of the field they read (`u8`: 256 values, `u16`: 65536 values) against
  the ABI macros, and the specification lemmas that follow for every record.  Nothing here depends on the syntactic
  form of a translated body: a rewrite that computes the same function leaves the tables true.
-/
import ElfVerif.Model.Structs
import ElfVerif.Lemmas.Domain
namespace Elf

/-- `ELF_ST_BIND`, `ELF_ST_TYPE`, `ELF_ST_VISIBILITY` on every byte. -/
theorem st_byte_table :
    allBelow 256 (fun i => Gen.acc_Symbol_st_bind (st_info := i) == i / 16 &&
                           Gen.acc_Symbol_st_symtype (st_info := i) == i % 16 &&
                           Gen.acc_Symbol_st_vis (st_other := i) == i % 4) = true := by decide +kernel

/-- `st_shndx == SHN_UNDEF`, `VERSYM_VERSION`, `VERSYM_HIDDEN`, local/global on every halfword. -/
theorem halfword_table :
    allBelow 65536 (fun v => Gen.acc_Symbol_is_undefined (st_shndx := v) == (v == 0) &&
                             Gen.acc_VersionIndex_index (v0 := v) == v % 32768 &&
                             Gen.acc_VersionIndex_is_hidden (v0 := v) == decide (32768 ≤ v) &&
                             Gen.acc_VersionIndex_is_local (v0 := v) == (v % 32768 == 0) &&
                             Gen.acc_VersionIndex_is_global (v0 := v) == (v % 32768 == 1)) = true := by
  decide +kernel

theorem Symbol.stBind_eq (s : Symbol) : s.stBind = s.st_info % 256 / 16 := by
  have := allBelow_spec _ _ st_byte_table (s.st_info % 256) (Nat.mod_lt _ (by decide))
  simp only [Bool.and_eq_true, beq_iff_eq] at this
  exact this.1.1

theorem Symbol.stSymtype_eq (s : Symbol) : s.stSymtype = s.st_info % 16 := by
  have := allBelow_spec _ _ st_byte_table (s.st_info % 256) (Nat.mod_lt _ (by decide))
  simp only [Bool.and_eq_true, beq_iff_eq] at this
  unfold Symbol.stSymtype; rw [this.1.2]; omega

theorem Symbol.stVis_eq (s : Symbol) : s.stVis = s.st_other % 4 := by
  have := allBelow_spec _ _ st_byte_table (s.st_other % 256) (Nat.mod_lt _ (by decide))
  simp only [Bool.and_eq_true, beq_iff_eq] at this
  unfold Symbol.stVis; rw [this.2]; omega

theorem Symbol.isUndefined_eq (s : Symbol) : s.isUndefined = (s.st_shndx % 65536 == 0) := by
  have := allBelow_spec _ _ halfword_table (s.st_shndx % 65536) (Nat.mod_lt _ (by decide))
  simp only [Bool.and_eq_true, beq_iff_eq] at this
  exact this.1.1.1.1

theorem VersionIndex.index_eq (v : Nat) : VersionIndex.index v = v % 2 ^ 15 := by
  have := allBelow_spec _ _ halfword_table (v % 65536) (Nat.mod_lt _ (by decide))
  simp only [Bool.and_eq_true, beq_iff_eq] at this
  unfold VersionIndex.index; rw [this.1.1.1.2]; omega

theorem VersionIndex.isHidden_eq (v : Nat) : VersionIndex.isHidden v = decide (32768 ≤ v % 65536) := by
  have := allBelow_spec _ _ halfword_table (v % 65536) (Nat.mod_lt _ (by decide))
  simp only [Bool.and_eq_true, beq_iff_eq] at this
  exact this.1.1.2

theorem VersionIndex.isLocal_eq (v : Nat) : VersionIndex.isLocal v = (v % 2 ^ 15 == 0) := by
  have := allBelow_spec _ _ halfword_table (v % 65536) (Nat.mod_lt _ (by decide))
  simp only [Bool.and_eq_true, beq_iff_eq] at this
  unfold VersionIndex.isLocal; rw [this.1.2]
  have : v % 65536 % 32768 = v % 2 ^ 15 := by omega
  rw [this]

theorem VersionIndex.isGlobal_eq (v : Nat) : VersionIndex.isGlobal v = (v % 2 ^ 15 == 1) := by
  have := allBelow_spec _ _ halfword_table (v % 65536) (Nat.mod_lt _ (by decide))
  simp only [Bool.and_eq_true, beq_iff_eq] at this
  unfold VersionIndex.isGlobal; rw [this.2]
  have : v % 65536 % 32768 = v % 2 ^ 15 := by omega
  rw [this]

end Elf
