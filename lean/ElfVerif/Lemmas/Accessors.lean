/-
  Lemmas/Accessors.lean — both families of generated accessors (see AccSymbol.lean, AccVersion.lean).
-/
import ElfVerif.Lemmas.AccSymbol
import ElfVerif.Lemmas.AccVersion
