/-
  Lemmas/NoPanic.lean — building blocks for totality (no-panic) proofs.
-/
import ElfVerif.Lemmas.Prog
import ElfVerif.Model.ElfBytes
namespace Elf

theorem Out.bind_ne_panic {α β} (x : Out α) (f : α → Out β)
    (hx : x ≠ .panic) (hf : ∀ a, x = .ok a → f a ≠ .panic) : x.bind f ≠ .panic := by
  cases x with
  | ok a => simpa [Out.bind] using hf a rfl
  | err e => simp [Out.bind]
  | panic => exact absurd rfl hx

theorem Out.ofOption_ne_panic {α} (e : Err) (o : Option α) : Out.ofOption e o ≠ .panic := by
  cases o <;> simp [Out.ofOption]

theorem Slice.getBytes_ne_panic (s : Slice) (a b : Nat) : s.getBytes a b ≠ .panic :=
  Out.ofOption_ne_panic _ _

theorem dataRange_ne_panic (a b : Nat) : dataRange a b ≠ .panic := by
  unfold dataRange; split <;> simp

theorem validateEntsize_ne_panic {α} (ep : EntryParser α) (c : Class) (n : Nat) :
    ep.validateEntsize c n ≠ .panic := by
  unfold EntryParser.validateEntsize; split <;> simp

/-- the window returned by `get?` has the same buffer, lies inside, and has the stated length -/
theorem Slice.get?_some (s : Slice) (a b : Nat) (w : Slice) (h : s.get? a b = some w) :
    a ≤ b ∧ b ≤ s.len ∧ w = ⟨s.buf, s.start + a, s.start + b⟩ := by
  unfold Slice.get? at h
  split at h
  · rename_i hc; injection h with h; exact ⟨hc.1, hc.2, h.symm⟩
  · cases h

theorem Slice.get?_len (s : Slice) (a b : Nat) (w : Slice) (h : s.get? a b = some w) :
    w.len = b - a := by
  obtain ⟨h1, h2, rfl⟩ := Slice.get?_some s a b w h
  simp [Slice.len]; omega

theorem Slice.getBytes_ok (s : Slice) (a b : Nat) (w : Slice) (h : s.getBytes a b = .ok w) :
    a ≤ b ∧ b ≤ s.len ∧ w = ⟨s.buf, s.start + a, s.start + b⟩ := by
  unfold Slice.getBytes Out.ofOption at h
  cases hg : s.get? a b with
  | none => simp [hg] at h
  | some w' => simp [hg] at h; subst h; exact Slice.get?_some s a b w' hg

theorem Slice.getFrom?_some (s : Slice) (a : Nat) (w : Slice) (h : s.getFrom? a = some w) :
    a ≤ s.len ∧ w = ⟨s.buf, s.start + a, s.stop⟩ := by
  unfold Slice.getFrom? at h
  split at h
  · rename_i hc; injection h with h; exact ⟨hc, h.symm⟩
  · cases h

/-- Sub-windows of a well-formed window are well-formed. -/
theorem Slice.WF_get? (s : Slice) (hs : s.WF) (a b : Nat) (w : Slice) (h : s.get? a b = some w) :
    w.WF := by
  obtain ⟨h1, h2, rfl⟩ := Slice.get?_some s a b w h
  unfold Slice.WF Slice.len at *
  simp; omega

theorem Slice.WF_getFrom? (s : Slice) (hs : s.WF) (a : Nat) (w : Slice) (h : s.getFrom? a = some w) :
    w.WF := by
  obtain ⟨h1, rfl⟩ := Slice.getFrom?_some s a w h
  unfold Slice.WF Slice.len at *
  simp; omega

theorem Slice.WF_len (s : Slice) (hs : s.WF) : s.len < 2 ^ 63 := by
  unfold Slice.WF Slice.len at *; omega

theorem Table.get_ne_panic {α} (t : Table α) (ht : t.ep.Total) (i : Nat) : t.get i ≠ .panic := by
  unfold Table.get
  split
  · simp
  · split
    · simp
    · split
      · simp
      · exact EntryParser.parse_no_panic t.ep ht t.little t.cls t.data _

theorem Iter.next_ne_panic {α} (it : Iter α) (ht : it.ep.Total) : it.next.1 ≠ .panic := by
  unfold Iter.next
  split
  · simp
  · have := EntryParser.parse_no_panic it.ep ht it.little it.cls it.data it.offset
    generalize it.ep.parse it.little it.cls it.data it.offset = r at this
    obtain ⟨r1, r2⟩ := r
    cases r1 <;> simp_all

theorem Iter.next_ep {α} (it : Iter α) : it.next.2.ep = it.ep ∧ it.next.2.data = it.data ∧
    it.next.2.cls = it.cls ∧ it.next.2.little = it.little := by
  unfold Iter.next
  split
  · simp
  · generalize it.ep.parse it.little it.cls it.data it.offset = r
    obtain ⟨r1, r2⟩ := r
    cases r1 <;> simp

theorem Iter.findFuel_ne_panic {α} (p : α → Bool) (n : Nat) (it : Iter α) (ht : it.ep.Total) :
    Iter.findFuel p n it ≠ .panic := by
  induction n generalizing it with
  | zero => simp [Iter.findFuel]
  | succ n ih =>
    unfold Iter.findFuel
    have h1 := Iter.next_ne_panic it ht
    have h2 := Iter.next_ep it
    generalize it.next = r at h1 h2
    obtain ⟨r1, r2⟩ := r
    cases r1 with
    | panic => simp at h1
    | err e => simp
    | ok o =>
      cases o with
      | none => simp
      | some a =>
        simp only
        split
        · simp
        · exact ih r2 (by rw [h2.1]; exact ht)

theorem Iter.find_ne_panic {α} (it : Iter α) (ht : it.ep.Total) (p : α → Bool) :
    it.find p ≠ .panic := Iter.findFuel_ne_panic p _ it ht

theorem strGetRaw_ne_panic (t : Slice) (off : Nat) : strGetRaw t off ≠ .panic := by
  unfold strGetRaw
  split
  · simp
  · split
    · simp
    · split <;> simp

theorem strGet_ne_panic (t : Slice) (off : Nat) : strGet t off ≠ .panic := by
  unfold strGet
  have := strGetRaw_ne_panic t off
  cases h : strGetRaw t off with
  | ok w => simp; split <;> simp
  | err e => simp
  | panic => exact absurd h this

end Elf
