/-
  Lemmas/OpenEquiv.lean — the stream parser's table locators against the slice parser's.
-/
import ElfVerif.Lemmas.StreamLegal
import ElfVerif.Lemmas.Shift
import ElfVerif.Props.C05
namespace Elf
open Elf.C05

/-- a window of the file, as a window of `Slice.ofArray c` -/
theorem window_shift (c : Array UInt8) (b : Slice) (s e : Nat) (hb : SameBytes b ⟨c, 0 + s, 0 + e⟩)
    (hse : s ≤ e) (he : e ≤ c.size) : ShiftBytes b (Slice.ofArray c) s := by
  have hlen : b.len = e - s := by rw [hb.1]; simp [Slice.len]
  constructor
  · rw [hlen]; simp [Slice.ofArray, Slice.len]; omega
  · intro i hi
    rw [hb.2 i hi]
    simp [Slice.byte, Slice.ofArray]

theorem sameBytes_window (c : Array UInt8) (b : Slice) (s e : Nat) (hb : SameBytes b ⟨c, 0 + s, 0 + e⟩) :
    SameBytes b ⟨(Slice.ofArray c).buf, (Slice.ofArray c).start + s, (Slice.ofArray c).start + e⟩ := by
  simpa [Slice.ofArray] using hb

/-- the collected headers of an optional table -/
def headersOf {α} : Option (Table α) → Out (List α)
  | none => .ok []
  | some t => t.iter.collect.1

/-- reading `shdr[0]` through the stream = parsing it in place -/
theorem shdr0_equiv (h : FileHeader) (r : CachingReader) (c : Array UInt8) (hinv : RInv r c)
    (hc63 : c.size < 2 ^ 63) (off : Nat) (hoff : off < 2 ^ 64) :
    let size := Gen.size_SectionHeader h.cls
    (off + size ≤ c.size →
      ∃ b r', r.readBytes off (off + size) = (.ok b, r') ∧ RInv r' c ∧
        (SectionHeader.ep.parse h.little h.cls b 0).1 =
          (SectionHeader.ep.parse h.little h.cls (Slice.ofArray c) off).1) ∧
    (c.size < off + size →
      (∃ r', r.readBytes off (off + size) = (.err (.BadOffset (off + size)), r') ∧ RInv r' c) ∧
      ∃ e, (SectionHeader.ep.parse h.little h.cls (Slice.ofArray c) off).1 = .err e) := by
  have hsz : (SectionHeader.ep.prog h.cls).size = Gen.size_SectionHeader h.cls := by cases h.cls <;> rfl
  intro size
  obtain ⟨hfit, hnofit⟩ := readBytes_legal r c off (off + size) hinv (by omega)
  constructor
  · intro hle
    obtain ⟨b, r', h1, h2, h3⟩ := hfit hle
    refine ⟨b, r', h1, h3, ?_⟩
    have hsh := window_shift c b off (off + size) h2 (by omega) hle
    have hblen : b.len = size := by rw [h2.1]; simp [Slice.len]
    have := parse_shift hsh SectionHeader.ep h.little h.cls 0 (by rw [hsz, hblen]; omega)
      (by simp [Slice.ofArray, Slice.len]; exact hc63) (by cases h.cls <;> rfl)
    simpa using this
  · intro hgt
    refine ⟨hnofit hgt, ?_⟩
    have hnp := EntryParser.parse_no_panic SectionHeader.ep total_SectionHeader h.little h.cls (Slice.ofArray c) off
    have hno : ¬ ∃ a, (SectionHeader.ep.parse h.little h.cls (Slice.ofArray c) off).1 = .ok a := by
      rw [EntryParser.parse_ok_iff SectionHeader.ep total_SectionHeader h.little h.cls
        (by cases h.cls <;> rfl) (by cases h.cls <;> decide)]
      intro hh; rw [hsz] at hh
      have : (Slice.ofArray c).len = c.size := by simp [Slice.ofArray, Slice.len]
      omega
    cases hp : (SectionHeader.ep.parse h.little h.cls (Slice.ofArray c) off).1 with
    | ok a => exact absurd ⟨a, hp⟩ hno
    | err e => exact ⟨e, rfl⟩
    | panic => exact absurd hp hnp

end Elf

namespace Elf

/-- the located table, read through the stream vs in place: same collected headers -/
theorem table_read_equiv {α} (ep : EntryParser α) (le : Bool) (cls : Class) (r : CachingReader)
    (c : Array UInt8) (hinv : RInv r c) (off size n : Nat) :
    (∀ w, C05.tableWindow (Slice.ofArray c) off size n = .ok w →
      ∃ b r', r.readBytes off (off + size * n) = (.ok b, r') ∧ RInv r' c ∧
        (⟨ep, le, cls, b⟩ : Table α).iter.collect.1 = (⟨ep, le, cls, w⟩ : Table α).iter.collect.1) ∧
    (size * n < USZ → off + size * n < USZ →
      ∀ b r', r.readBytes off (off + size * n) = (.ok b, r') →
        ∃ w, C05.tableWindow (Slice.ofArray c) off size n = .ok w ∧ RInv r' c ∧
          (⟨ep, le, cls, b⟩ : Table α).iter.collect.1 = (⟨ep, le, cls, w⟩ : Table α).iter.collect.1) := by
  have hFlen : (Slice.ofArray c).len = c.size := by simp [Slice.ofArray, Slice.len]
  obtain ⟨hfit, hnofit⟩ := readBytes_legal r c off (off + size * n) hinv (by omega)
  have hcol : ∀ b, SameBytes b ⟨c, 0 + off, 0 + (off + size * n)⟩ →
      (⟨ep, le, cls, b⟩ : Table α).iter.collect.1 =
      (⟨ep, le, cls, ⟨(Slice.ofArray c).buf, (Slice.ofArray c).start + off,
        (Slice.ofArray c).start + (off + size * n)⟩⟩ : Table α).iter.collect.1 := by
    intro b hb
    apply Iter.collect_congr
    exact ⟨rfl, rfl, rfl, rfl, sameBytes_window c b off (off + size * n) hb⟩
  constructor
  · intro w hw
    unfold C05.tableWindow at hw
    split at hw
    · split at hw
      · rename_i hle
        injection hw with hw; subst hw
        obtain ⟨b, r', h1, h2, h3⟩ := hfit (by rw [← hFlen]; exact hle)
        exact ⟨b, r', h1, h3, hcol b h2⟩
      · cases hw
    · cases hw
  · intro h1 h2 b r' hb
    by_cases hle : off + size * n ≤ c.size
    · obtain ⟨b2, r2, e1, e2, e3⟩ := hfit hle
      rw [hb] at e1
      injection e1 with e1a e1b
      injection e1a with e1a
      subst e1a e1b
      refine ⟨_, ?_, e3, hcol b e2⟩
      unfold C05.tableWindow
      simp [h1, h2, hFlen, hle]
    · obtain ⟨r2, e1, _⟩ := hnofit (by omega)
      rw [hb] at e1
      injection e1 with e1a _
      cases e1a

end Elf

namespace Elf

/-- **Section header table: stream locator ≡ slice locator** under any legal reader: one succeeds
    iff the other does, and the stream's `Vec` holds exactly the headers of the slice parser's
    table (validation order differs between the two; the success sets do not). -/
theorem section_headers_equiv (h : FileHeader) (r : CachingReader) (c : Array UInt8) (hinv : RInv r c)
    (hc63 : c.size < 2 ^ 63) (hoff : h.t.e_shoff < 2 ^ 64) :
    (∀ tbl, findShdrs h (Slice.ofArray c) = .ok tbl →
      ∃ l r', parseSectionHeaders h r = (.ok l, r') ∧ RInv r' c ∧ headersOf tbl = .ok l) ∧
    (∀ l r', parseSectionHeaders h r = (.ok l, r') →
      ∃ tbl, findShdrs h (Slice.ofArray c) = .ok tbl ∧ RInv r' c ∧ headersOf tbl = .ok l) := by
  have husz := USZ_eq
  have hsz : SectionHeader.ep.size h.cls = Gen.size_SectionHeader h.cls := rfl
  have hsz64 : Gen.size_SectionHeader h.cls ≤ 64 := by cases h.cls <;> decide
  rw [C05.find_shdrs_spec]
  unfold parseSectionHeaders
  by_cases h0 : h.t.e_shoff = 0
  · simp only [h0, if_true]
    constructor
    · intro tbl ht; injection ht with ht; subst ht
      exact ⟨[], r, rfl, hinv, rfl⟩
    · intro l r' hl; injection hl with hl1 hl2; injection hl1 with hl1; subst hl1 hl2
      exact ⟨none, rfl, hinv, rfl⟩
  · simp only [h0, if_false]
    unfold EntryParser.validateEntsize rlift rbind
    rw [hsz]
    by_cases he : h.t.e_shentsize = Gen.size_SectionHeader h.cls
    · simp only [he, if_true, ne_eq, not_true_eq_false, if_false]
      -- resolve the section count on both sides
      have hshnum : ∀ (k : Nat → CachingReader → Out (List SectionHeader) × CachingReader)
          (P : Out (List SectionHeader) × CachingReader → Prop),
          (∀ n r1, RInv r1 c → C05.shnumSpec h (Slice.ofArray c) = .ok n → P (k n r1)) →
          (∀ e r1, RInv r1 c → (∃ e', C05.shnumSpec h (Slice.ofArray c) = .err e') → P (.err e, r1)) →
          P (match (if h.t.e_shnum = 0 then
              match (match Out.ofOption Err.IntegerOverflow (checkedAdd h.t.e_shoff (Gen.size_SectionHeader h.cls)) with
                | .ok a => (match r.readBytes h.t.e_shoff a with
                    | (.ok data, r) => (match (SectionHeader.ep.parse h.little h.cls data 0).1 with
                        | .ok shdr0 => (Out.ok shdr0.sh_size, r)
                        | .err e => (.err e, r)
                        | .panic => (.panic, r))
                    | (.err e, r) => (.err e, r)
                    | (.panic, r) => (.panic, r))
                | .err e => (.err e, r)
                | .panic => (.panic, r)) with
              | x => x
            else (Out.ok h.t.e_shnum, r)) with
            | (.ok a, r) => k a r
            | (.err e, r) => (.err e, r)
            | (.panic, r) => (.panic, r)) := by
        intro k P hok herr
        by_cases hz : h.t.e_shnum = 0
        · simp only [hz, if_true]
          obtain ⟨hfit, hnofit⟩ := shdr0_equiv h r c hinv hc63 h.t.e_shoff hoff
          unfold checkedAdd
          by_cases hov : h.t.e_shoff + Gen.size_SectionHeader h.cls < USZ
          · simp only [hov, if_true, Out.ofOption]
            by_cases hle : h.t.e_shoff + Gen.size_SectionHeader h.cls ≤ c.size
            · obtain ⟨b, r1, e1, e2, e3⟩ := hfit hle
              rw [e1]; simp only
              rw [e3]
              have hspec : C05.shnumSpec h (Slice.ofArray c) =
                  (match (SectionHeader.ep.parse h.little h.cls (Slice.ofArray c) h.t.e_shoff).1 with
                   | .ok shdr0 => .ok shdr0.sh_size | .err e => .err e | .panic => .panic) := by
                unfold C05.shnumSpec; simp [hz]
              cases hp : (SectionHeader.ep.parse h.little h.cls (Slice.ofArray c) h.t.e_shoff).1 with
              | ok s0 => simp only; exact hok _ _ e2 (by rw [hspec, hp])
              | err e => simp only; exact herr _ _ e2 ⟨e, by rw [hspec, hp]⟩
              | panic =>
                exact absurd hp (EntryParser.parse_no_panic SectionHeader.ep total_SectionHeader _ _ _ _)
            · obtain ⟨⟨r1, e1, e2⟩, e', he'⟩ := hnofit (by omega)
              rw [e1]; simp only
              exact herr _ _ e2 ⟨e', by unfold C05.shnumSpec; simp [hz, he']⟩
          · simp only [hov, if_false, Out.ofOption]
            obtain ⟨_, e', he'⟩ := (shdr0_equiv h r c hinv hc63 h.t.e_shoff hoff).2 (by omega)
            exact herr _ _ hinv ⟨e', by unfold C05.shnumSpec; simp [hz, he']⟩
        · simp only [hz, if_false]
          exact hok _ _ hinv (by unfold C05.shnumSpec; simp [hz])
      constructor
      · -- slice ok ⇒ stream ok
        intro tbl ht
        apply hshnum _ (fun x => ∃ l r', x = (.ok l, r') ∧ RInv r' c ∧ headersOf tbl = .ok l)
        · intro n r1 hr1 hn
          rw [hn] at ht
          simp only [Out.bind] at ht
          cases hw : C05.tableWindow (Slice.ofArray c) h.t.e_shoff (Gen.size_SectionHeader h.cls) n with
          | panic => simp [hw] at ht
          | err e => simp [hw] at ht
          | ok w =>
            simp only [hw] at ht
            injection ht with ht; subst ht
            obtain ⟨b, r2, e1, e2, e3⟩ := (table_read_equiv SectionHeader.ep h.little h.cls r1 c hr1
              h.t.e_shoff (Gen.size_SectionHeader h.cls) n).1 w hw
            -- the window exists, so the checked arithmetic succeeds
            have harith : Gen.size_SectionHeader h.cls * n < USZ ∧
                h.t.e_shoff + Gen.size_SectionHeader h.cls * n < USZ := by
              unfold C05.tableWindow at hw
              split at hw
              · rename_i hh; exact hh
              · cases hw
            unfold checkedMul checkedAdd
            simp only [harith.1, harith.2, if_true, Out.ofOption, e1]
            exact ⟨_, r2, rfl, e2, by simp only [headersOf, collectAll, shdrTable]; rw [← e3]⟩
        · intro e r1 _ hne
          obtain ⟨e', he'⟩ := hne
          rw [he'] at ht; simp [Out.bind] at ht
      · -- stream ok ⇒ slice ok
        intro l r'
        apply hshnum _ (fun x => x = (.ok l, r') →
          ∃ tbl, ((C05.shnumSpec h (Slice.ofArray c)).bind fun shnum =>
              (C05.tableWindow (Slice.ofArray c) h.t.e_shoff (Gen.size_SectionHeader h.cls) shnum).bind fun w =>
                Out.ok (some (shdrTable h w))) = .ok tbl ∧ RInv r' c ∧ headersOf tbl = .ok l)
        · intro n r1 hr1 hn hx
          rw [hn]; simp only [Out.bind]
          unfold checkedMul checkedAdd at hx
          by_cases hm : Gen.size_SectionHeader h.cls * n < USZ
          · by_cases ha : h.t.e_shoff + Gen.size_SectionHeader h.cls * n < USZ
            · simp only [hm, ha, if_true, Out.ofOption] at hx
              generalize hrb : r1.readBytes h.t.e_shoff (h.t.e_shoff + Gen.size_SectionHeader h.cls * n) = q at hx
              obtain ⟨q1, q2⟩ := q
              cases q1 with
              | panic => simp at hx
              | err e => simp at hx
              | ok b =>
                simp only at hx
                obtain ⟨w, e1, e2, e3⟩ := (table_read_equiv SectionHeader.ep h.little h.cls r1 c hr1
                  h.t.e_shoff (Gen.size_SectionHeader h.cls) n).2 hm ha b q2 hrb
                injection hx with hx1 hx2
                subst hx2
                refine ⟨some (shdrTable h w), by rw [e1], e2, ?_⟩
                simp only [headersOf, shdrTable]
                rw [← e3]; exact hx1
            · simp [hm, ha, Out.ofOption] at hx
          · simp [hm, Out.ofOption] at hx
        · intro e r1 _ _ hx
          injection hx with hx _; cases hx
    · -- wrong e_shentsize: both fail
      have he' : ¬ h.t.e_shentsize = Gen.size_SectionHeader h.cls := he
      simp only [he', if_false, ne_eq, not_false_eq_true, if_true]
      constructor
      · intro tbl ht
        cases hs : C05.shnumSpec h (Slice.ofArray c) <;> simp [hs, Out.bind] at ht
      · intro l r' hx
        injection hx with hx _; cases hx

end Elf
