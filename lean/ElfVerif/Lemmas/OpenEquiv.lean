/-
  Lemmas/OpenEquiv.lean — the stream parser's table locators against the slice parser's.
-/
import ElfVerif.Lemmas.StreamLegal
import ElfVerif.Lemmas.Shift
import ElfVerif.Lemmas.OpenBase
import ElfVerif.Props.C05
import ElfVerif.Props.C01
namespace Elf
open Elf.C05

/-- a window of the file, as a window of `Slice.ofArray c` -/
theorem window_shift (c : Array UInt8) (b : Slice) (s e : Nat) (hb : SameBytes b ⟨c, 0 + s, 0 + e⟩)
    (hse : s ≤ e) (he : e ≤ c.size) : ShiftBytes b (Slice.ofArray c) s := by
  have hlen : b.len = e - s := by rw [hb.1]; simp [Slice.len]
  constructor
  · rw [hlen]; simp [Slice.ofArray, Slice.len]; omega
  · intro i hi
    rw [hb.2 i hi]
    simp [Slice.byte, Slice.ofArray]

theorem sameBytes_window (c : Array UInt8) (b : Slice) (s e : Nat) (hb : SameBytes b ⟨c, 0 + s, 0 + e⟩) :
    SameBytes b ⟨(Slice.ofArray c).buf, (Slice.ofArray c).start + s, (Slice.ofArray c).start + e⟩ := by
  simpa [Slice.ofArray] using hb

/-- the collected headers of an optional table -/
def headersOf {α} : Option (Table α) → Out (List α)
  | none => .ok []
  | some t => t.iter.collect.1

/-- reading `shdr[0]` through the stream = parsing it in place -/
theorem shdr0_equiv (h : FileHeader) (r : CachingReader) (c : Array UInt8) (hinv : RInv r c)
    (hc63 : c.size < 2 ^ 63) (off : Nat) :
    let size := Gen.size_SectionHeader h.cls
    (off + size ≤ c.size →
      ∃ b r', r.readBytes off (off + size) = (.ok b, r') ∧ RInv r' c ∧
        (SectionHeader.ep.parse h.little h.cls b 0).1 =
          (SectionHeader.ep.parse h.little h.cls (Slice.ofArray c) off).1) ∧
    (c.size < off + size →
      (∃ r', r.readBytes off (off + size) = (.err (.BadOffset (off + size)), r') ∧ RInv r' c) ∧
      ∃ e, (SectionHeader.ep.parse h.little h.cls (Slice.ofArray c) off).1 = .err e) := by
  have hsz : (SectionHeader.ep.prog h.cls).size = Gen.size_SectionHeader h.cls := by cases h.cls <;> rfl
  intro size
  obtain ⟨hfit, hnofit⟩ := readBytes_legal r c off (off + size) hinv (by omega)
  constructor
  · intro hle
    obtain ⟨b, r', h1, h2, h3⟩ := hfit hle
    refine ⟨b, r', h1, h3, ?_⟩
    have hsh := window_shift c b off (off + size) h2 (by omega) hle
    have hblen : b.len = size := by rw [h2.1]; simp [Slice.len]
    have := parse_shift hsh SectionHeader.ep h.little h.cls 0 (by rw [hsz, hblen]; omega)
      (by simp [Slice.ofArray, Slice.len]; exact hc63) (by cases h.cls <;> rfl)
    simpa using this
  · intro hgt
    refine ⟨hnofit hgt, ?_⟩
    have hnp := EntryParser.parse_no_panic SectionHeader.ep total_SectionHeader h.little h.cls (Slice.ofArray c) off
    have hno : ¬ ∃ a, (SectionHeader.ep.parse h.little h.cls (Slice.ofArray c) off).1 = .ok a := by
      rw [EntryParser.parse_ok_iff SectionHeader.ep total_SectionHeader h.little h.cls
        (by cases h.cls <;> rfl) (by cases h.cls <;> decide)]
      intro hh; rw [hsz] at hh
      have : (Slice.ofArray c).len = c.size := by simp [Slice.ofArray, Slice.len]
      omega
    cases hp : (SectionHeader.ep.parse h.little h.cls (Slice.ofArray c) off).1 with
    | ok a => exact absurd ⟨a, hp⟩ hno
    | err e => exact ⟨e, rfl⟩
    | panic => exact absurd hp hnp

end Elf

namespace Elf

/-- the located table, read through the stream vs in place: same collected headers -/
theorem table_read_equiv {α} (ep : EntryParser α) (le : Bool) (cls : Class) (r : CachingReader)
    (c : Array UInt8) (hinv : RInv r c) (off size n : Nat) :
    (∀ w, C05.tableWindow (Slice.ofArray c) off size n = .ok w →
      ∃ b r', r.readBytes off (off + size * n) = (.ok b, r') ∧ RInv r' c ∧
        (⟨ep, le, cls, b⟩ : Table α).iter.collect.1 = (⟨ep, le, cls, w⟩ : Table α).iter.collect.1) ∧
    (size * n < USZ → off + size * n < USZ →
      ∀ b r', r.readBytes off (off + size * n) = (.ok b, r') →
        ∃ w, C05.tableWindow (Slice.ofArray c) off size n = .ok w ∧ RInv r' c ∧
          (⟨ep, le, cls, b⟩ : Table α).iter.collect.1 = (⟨ep, le, cls, w⟩ : Table α).iter.collect.1) := by
  have hFlen : (Slice.ofArray c).len = c.size := by simp [Slice.ofArray, Slice.len]
  obtain ⟨hfit, hnofit⟩ := readBytes_legal r c off (off + size * n) hinv (by omega)
  have hcol : ∀ b, SameBytes b ⟨c, 0 + off, 0 + (off + size * n)⟩ →
      (⟨ep, le, cls, b⟩ : Table α).iter.collect.1 =
      (⟨ep, le, cls, ⟨(Slice.ofArray c).buf, (Slice.ofArray c).start + off,
        (Slice.ofArray c).start + (off + size * n)⟩⟩ : Table α).iter.collect.1 := by
    intro b hb
    apply Iter.collect_congr
    exact ⟨rfl, rfl, rfl, rfl, sameBytes_window c b off (off + size * n) hb⟩
  constructor
  · intro w hw
    unfold C05.tableWindow at hw
    split at hw
    · split at hw
      · rename_i hle
        injection hw with hw; subst hw
        obtain ⟨b, r', h1, h2, h3⟩ := hfit (by rw [← hFlen]; exact hle)
        exact ⟨b, r', h1, h3, hcol b h2⟩
      · cases hw
    · cases hw
  · intro h1 h2 b r' hb
    by_cases hle : off + size * n ≤ c.size
    · obtain ⟨b2, r2, e1, e2, e3⟩ := hfit hle
      rw [hb] at e1
      injection e1 with e1a e1b
      injection e1a with e1a
      subst e1a e1b
      refine ⟨_, ?_, e3, hcol b e2⟩
      unfold C05.tableWindow
      simp [h1, h2, hFlen, hle]
    · obtain ⟨r2, e1, _⟩ := hnofit (by omega)
      rw [hb] at e1
      injection e1 with e1a _
      cases e1a

end Elf

namespace Elf

/-- in-place reading of a field of `shdr[0]` by the slice parser -/
def shdr0InPlace (h : FileHeader) (d : Slice) (proj : SectionHeader → Nat) : Out Nat :=
  match (SectionHeader.ep.parse h.little h.cls d h.t.e_shoff).1 with
  | .ok s0 => .ok (proj s0)
  | .err e => .err e
  | .panic => .panic

theorem streamShdr0_equiv (h : FileHeader) (r : CachingReader) (c : Array UInt8) (hinv : RInv r c)
    (hc63 : c.size < 2 ^ 63) (proj : SectionHeader → Nat) :
    ∃ r', RInv r' c ∧
      ((∃ n, streamShdr0 h (Gen.size_SectionHeader h.cls) proj r = (.ok n, r') ∧
             shdr0InPlace h (Slice.ofArray c) proj = .ok n) ∨
       (∃ e e', streamShdr0 h (Gen.size_SectionHeader h.cls) proj r = (.err e, r') ∧
             shdr0InPlace h (Slice.ofArray c) proj = .err e')) := by
  have husz := USZ_eq
  have hsz64 : Gen.size_SectionHeader h.cls ≤ 64 := by cases h.cls <;> decide
  obtain ⟨hfit, hnofit⟩ := shdr0_equiv h r c hinv hc63 h.t.e_shoff
  unfold streamShdr0 shdr0InPlace rbind rlift checkedAdd
  by_cases hov : h.t.e_shoff + Gen.size_SectionHeader h.cls < USZ
  · simp only [hov, if_true, Out.ofOption]
    by_cases hle : h.t.e_shoff + Gen.size_SectionHeader h.cls ≤ c.size
    · obtain ⟨b, r1, e1, e2, e3⟩ := hfit hle
      rw [e1]; simp only; rw [e3]
      refine ⟨r1, e2, ?_⟩
      cases hp : (SectionHeader.ep.parse h.little h.cls (Slice.ofArray c) h.t.e_shoff).1 with
      | ok s0 => exact Or.inl ⟨_, rfl, rfl⟩
      | err e => exact Or.inr ⟨e, e, rfl, rfl⟩
      | panic => exact absurd hp (EntryParser.parse_no_panic SectionHeader.ep total_SectionHeader _ _ _ _)
    · obtain ⟨⟨r1, e1, e2⟩, e', he'⟩ := hnofit (by omega)
      rw [e1]; simp only
      exact ⟨r1, e2, Or.inr ⟨_, e', rfl, by rw [he']⟩⟩
  · simp only [hov, if_false, Out.ofOption]
    obtain ⟨_, e', he'⟩ := hnofit (by omega)
    exact ⟨r, hinv, Or.inr ⟨_, e', rfl, by rw [he']⟩⟩

theorem streamTable_equiv {α} (ep : EntryParser α) (le : Bool) (cls : Class) (r : CachingReader)
    (c : Array UInt8) (hinv : RInv r c) (off size n : Nat) :
    ∃ r', RInv r' c ∧
      ((∃ w, C05.tableWindow (Slice.ofArray c) off size n = .ok w ∧
          streamTable (fun b => (⟨ep, le, cls, b⟩ : Table α)) off size n r =
            ((⟨ep, le, cls, w⟩ : Table α).iter.collect.1, r')) ∨
       (∃ e e', C05.tableWindow (Slice.ofArray c) off size n = .err e' ∧
          streamTable (fun b => (⟨ep, le, cls, b⟩ : Table α)) off size n r = (.err e, r'))) := by
  obtain ⟨hA, hB⟩ := table_read_equiv ep le cls r c hinv off size n
  unfold streamTable rbind rlift checkedMul checkedAdd collectAll
  by_cases hm : size * n < USZ
  · by_cases ha : off + size * n < USZ
    · simp only [hm, ha, if_true, Out.ofOption]
      cases hw : C05.tableWindow (Slice.ofArray c) off size n with
      | ok w =>
        obtain ⟨b, r1, e1, e2, e3⟩ := hA w hw
        rw [e1]; simp only
        exact ⟨r1, e2, Or.inl ⟨w, rfl, by rw [e3]⟩⟩
      | err e' =>
        generalize hrb : r.readBytes off (off + size * n) = q
        obtain ⟨q1, q2⟩ := q
        cases q1 with
        | ok b =>
          obtain ⟨w, e1, _, _⟩ := hB hm ha b q2 hrb
          rw [hw] at e1; cases e1
        | err e =>
          simp only
          -- the reader state after a failed read still satisfies the invariant
          obtain ⟨_, hno⟩ := readBytes_legal r c off (off + size * n) hinv (by omega)
          by_cases hle : off + size * n ≤ c.size
          · obtain ⟨b2, r2, e1, _, _⟩ := (readBytes_legal r c off (off + size * n) hinv (by omega)).1 hle
            rw [hrb] at e1; injection e1 with e1 _; cases e1
          · obtain ⟨r2, e1, e2⟩ := hno (by omega)
            rw [hrb] at e1; injection e1 with _ e1b; subst e1b
            exact ⟨q2, e2, Or.inr ⟨e, e', rfl, rfl⟩⟩
        | panic => exact absurd (by rw [hrb]) (readBytes_ne_panic r off (off + size * n))
      | panic =>
        unfold C05.tableWindow at hw
        split at hw
        · split at hw <;> cases hw
        · cases hw
    · simp only [hm, ha, if_true, if_false, Out.ofOption]
      refine ⟨r, hinv, Or.inr ⟨_, .IntegerOverflow, ?_, rfl⟩⟩
      unfold C05.tableWindow; simp [ha]
  · simp only [hm, if_false, Out.ofOption]
    refine ⟨r, hinv, Or.inr ⟨_, .IntegerOverflow, ?_, rfl⟩⟩
    unfold C05.tableWindow; simp [hm]

/-- **Section header table: stream locator ≡ slice locator** under any legal reader: one succeeds
    iff the other does, and the stream's `Vec` holds exactly the headers of the slice parser's
    table (validation order differs between the two; the success sets do not). -/
theorem section_headers_equiv (h : FileHeader) (r : CachingReader) (c : Array UInt8) (hinv : RInv r c)
    (hc63 : c.size < 2 ^ 63) :
    ∃ r', RInv r' c ∧
      ((∃ tbl, findShdrs h (Slice.ofArray c) = .ok tbl ∧ parseSectionHeaders h r = (headersOf tbl, r')) ∨
       (∃ e e', findShdrs h (Slice.ofArray c) = .err e' ∧ parseSectionHeaders h r = (.err e, r'))) := by
  rw [C05.find_shdrs_spec]
  unfold parseSectionHeaders
  by_cases h0 : h.t.e_shoff = 0
  · simp only [h0, if_true]
    exact ⟨r, hinv, Or.inl ⟨none, rfl, rfl⟩⟩
  · simp only [h0, if_false]
    unfold EntryParser.validateEntsize
    have hsz : SectionHeader.ep.size h.cls = Gen.size_SectionHeader h.cls := rfl
    rw [hsz]
    by_cases he : h.t.e_shentsize = Gen.size_SectionHeader h.cls
    · simp only [he, if_true, ne_eq, not_true_eq_false, if_false, rbind, rlift]
      -- the section count, on both sides
      have hcount : ∃ r1, RInv r1 c ∧
          ((∃ n, (if h.t.e_shnum = 0 then streamShdr0 h (Gen.size_SectionHeader h.cls) SectionHeader.sh_size r
                  else (Out.ok h.t.e_shnum, r)) = (.ok n, r1) ∧ C05.shnumSpec h (Slice.ofArray c) = .ok n) ∨
           (∃ e e', (if h.t.e_shnum = 0 then streamShdr0 h (Gen.size_SectionHeader h.cls) SectionHeader.sh_size r
                  else (Out.ok h.t.e_shnum, r)) = (.err e, r1) ∧ C05.shnumSpec h (Slice.ofArray c) = .err e')) := by
        by_cases hz : h.t.e_shnum = 0
        · simp only [hz, if_true]
          have hspec : C05.shnumSpec h (Slice.ofArray c) = shdr0InPlace h (Slice.ofArray c) SectionHeader.sh_size := by
            unfold C05.shnumSpec shdr0InPlace; simp only [hz, if_true]
            cases (SectionHeader.ep.parse h.little h.cls (Slice.ofArray c) h.t.e_shoff).1 <;> rfl
          rw [hspec]
          exact streamShdr0_equiv h r c hinv hc63 _
        · simp only [hz, if_false]
          exact ⟨r, hinv, Or.inl ⟨_, rfl, by unfold C05.shnumSpec; simp [hz]⟩⟩
      obtain ⟨r1, hr1, hcases⟩ := hcount
      rcases hcases with ⟨n, e1, e2⟩ | ⟨e, e', e1, e2⟩
      · rw [e1, e2]
        simp only [Out.bind]
        obtain ⟨r2, hr2, hcases2⟩ := streamTable_equiv SectionHeader.ep h.little h.cls r1 c hr1
          h.t.e_shoff (Gen.size_SectionHeader h.cls) n
        refine ⟨r2, hr2, ?_⟩
        rcases hcases2 with ⟨w, f1, f2⟩ | ⟨e, e', f1, f2⟩
        · exact Or.inl ⟨some (shdrTable h w), by rw [f1], by rw [show shdrTable h = fun b => (⟨SectionHeader.ep, h.little, h.cls, b⟩ : Table SectionHeader) from rfl, f2]; rfl⟩
        · exact Or.inr ⟨e, e', by rw [f1], by rw [show shdrTable h = fun b => (⟨SectionHeader.ep, h.little, h.cls, b⟩ : Table SectionHeader) from rfl, f2]⟩
      · rw [e1, e2]
        exact ⟨r1, hr1, Or.inr ⟨e, e', rfl, rfl⟩⟩
    · simp only [he, if_false, ne_eq, not_false_eq_true, if_true, rbind, rlift]
      refine ⟨r, hinv, Or.inr ⟨_, ?_, ?_, rfl⟩⟩
      · exact (match C05.shnumSpec h (Slice.ofArray c) with
          | .ok _ => .BadEntsize h.t.e_shentsize (Gen.size_SectionHeader h.cls)
          | .err e => e
          | .panic => .IOError)
      · cases hs : C05.shnumSpec h (Slice.ofArray c) with
        | ok n => simp [Out.bind]
        | err e => simp [Out.bind]
        | panic =>
          exfalso
          unfold C05.shnumSpec at hs
          split at hs
          · cases hs
          · have := EntryParser.parse_no_panic SectionHeader.ep total_SectionHeader h.little h.cls (Slice.ofArray c) h.t.e_shoff
            split at hs <;> simp_all

/-- **Program header table: stream locator ≡ slice locator** under any legal reader. -/
theorem program_headers_equiv (h : FileHeader) (r : CachingReader) (c : Array UInt8) (hinv : RInv r c)
    (hc63 : c.size < 2 ^ 63) :
    ∃ r', RInv r' c ∧
      ((∃ tbl, findPhdrs h (Slice.ofArray c) = .ok tbl ∧ parseProgramHeaders h r = (headersOf tbl, r')) ∨
       (∃ e e', findPhdrs h (Slice.ofArray c) = .err e' ∧ parseProgramHeaders h r = (.err e, r'))) := by
  rw [C05.find_phdrs_spec]
  unfold parseProgramHeaders
  by_cases h0 : h.t.e_phoff = 0
  · simp only [h0, if_true]
    exact ⟨r, hinv, Or.inl ⟨none, rfl, rfl⟩⟩
  · simp only [h0, if_false]
    have hsz : SectionHeader.ep.size h.cls = Gen.size_SectionHeader h.cls := rfl
    rw [hsz]
    have hcount : ∃ r1, RInv r1 c ∧
        ((∃ n, (if h.t.e_phnum = Abi.PN_XNUM then streamShdr0 h (Gen.size_SectionHeader h.cls) SectionHeader.sh_info r
                else (Out.ok h.t.e_phnum, r)) = (.ok n, r1) ∧ C05.phnumSpec h (Slice.ofArray c) = .ok n) ∨
         (∃ e e', (if h.t.e_phnum = Abi.PN_XNUM then streamShdr0 h (Gen.size_SectionHeader h.cls) SectionHeader.sh_info r
                else (Out.ok h.t.e_phnum, r)) = (.err e, r1) ∧ C05.phnumSpec h (Slice.ofArray c) = .err e')) := by
      by_cases hz : h.t.e_phnum = Abi.PN_XNUM
      · simp only [hz, if_true]
        have hspec : C05.phnumSpec h (Slice.ofArray c) = shdr0InPlace h (Slice.ofArray c) SectionHeader.sh_info := by
          unfold C05.phnumSpec shdr0InPlace
          have : h.t.e_phnum = 0xffff := hz
          simp only [this, ne_eq, not_true_eq_false, if_false]
          cases (SectionHeader.ep.parse h.little h.cls (Slice.ofArray c) h.t.e_shoff).1 <;> rfl
        rw [hspec]
        exact streamShdr0_equiv h r c hinv hc63 _
      · simp only [hz, if_false]
        have : ¬ h.t.e_phnum = 0xffff := hz
        exact ⟨r, hinv, Or.inl ⟨_, rfl, by unfold C05.phnumSpec; simp [this]⟩⟩
    obtain ⟨r1, hr1, hcases⟩ := hcount
    unfold rbind
    rcases hcases with ⟨n, e1, e2⟩ | ⟨e, e', e1, e2⟩
    · rw [e1, e2]
      simp only [Out.bind]
      unfold EntryParser.validateEntsize
      have hpsz : ProgramHeader.ep.size h.cls = Gen.size_ProgramHeader h.cls := rfl
      rw [hpsz]
      by_cases he : h.t.e_phentsize = Gen.size_ProgramHeader h.cls
      · simp only [he, if_true, ne_eq, not_true_eq_false, if_false, rlift]
        obtain ⟨r2, hr2, hcases2⟩ := streamTable_equiv ProgramHeader.ep h.little h.cls r1 c hr1
          h.t.e_phoff (Gen.size_ProgramHeader h.cls) n
        refine ⟨r2, hr2, ?_⟩
        rcases hcases2 with ⟨w, f1, f2⟩ | ⟨e, e', f1, f2⟩
        · exact Or.inl ⟨some (phdrTable h w), by rw [f1], by rw [show phdrTable h = fun b => (⟨ProgramHeader.ep, h.little, h.cls, b⟩ : Table ProgramHeader) from rfl, f2]; rfl⟩
        · exact Or.inr ⟨e, e', by rw [f1], by rw [show phdrTable h = fun b => (⟨ProgramHeader.ep, h.little, h.cls, b⟩ : Table ProgramHeader) from rfl, f2]⟩
      · simp only [he, if_false, ne_eq, not_false_eq_true, if_true, rlift]
        exact ⟨r1, hr1, Or.inr ⟨_, _, rfl, rfl⟩⟩
    · rw [e1, e2]
      exact ⟨r1, hr1, Or.inr ⟨e, e', rfl, rfl⟩⟩

/-! ### `open_stream` ≡ `minimal_parse` -/

theorem Iter.next_ne_err {α} (it : Iter α) (e : Err) : it.next.1 ≠ .err e := by
  unfold Iter.next
  split
  · simp
  · generalize it.ep.parse it.little it.cls it.data it.offset = r
    obtain ⟨r1, r2⟩ := r
    cases r1 <;> simp

theorem Iter.collectFuel_ok {α} (n : Nat) (it : Iter α) (acc : List α) (ht : it.ep.Total) :
    ∃ l, (it.collectFuel n acc).1 = .ok l := by
  induction n generalizing it acc with
  | zero => exact ⟨acc, rfl⟩
  | succ n ih =>
    unfold Iter.collectFuel
    have hp := Iter.next_ne_panic it ht
    have he := Iter.next_ne_err it
    have hep := (Iter.next_ep it).1
    generalize it.next = r at hp he hep
    obtain ⟨r1, r2⟩ := r
    cases r1 with
    | ok o =>
      cases o with
      | none => exact ⟨acc, rfl⟩
      | some a => exact ih r2 _ (by simp only at hep; rw [hep]; exact ht)
    | err e => exact absurd rfl (he e)
    | panic => exact absurd rfl hp

/-- draining a table of a total parser always yields a list -/
theorem headersOf_ok {α} (t : Option (Table α)) (ht : ∀ x, t = some x → x.ep.Total) :
    ∃ l, headersOf t = .ok l := by
  cases t with
  | none => exact ⟨[], rfl⟩
  | some x =>
    show ∃ l, x.iter.collect.1 = .ok l
    rw [Iter.collect_eq]
    exact Iter.collectFuel_ok _ _ _ (ht x rfl)

/-- **`ElfStream::open_stream` ≡ `ElfBytes::minimal_parse`** over any legal reader (short and
    interrupted reads allowed, no failures) whose content is the slice's bytes: either both
    succeed, with the same file header and with the stream's header vectors holding exactly the
    entries of the slice parser's lazy tables, or both fail. -/
theorem open_equiv (sp : Spec) (dev : Device) (hl : Legal dev.sched) (hc63 : dev.content.size < 2 ^ 63) :
    (∃ f s d, minimalParse sp (Slice.ofArray dev.content) = .ok f ∧ openStream sp dev = (.ok s, d) ∧
        s.ehdr = f.ehdr ∧ headersOf f.shdrs = .ok s.shdrs ∧ headersOf f.phdrs = .ok s.phdrs ∧
        RInv s.reader dev.content) ∨
    (∃ e e' d, minimalParse sp (Slice.ofArray dev.content) = .err e' ∧ openStream sp dev = (.err e, d)) := by
  obtain ⟨cr, d0, hnew, hinv0⟩ := new_legal dev hl
  unfold openStream minimalParse
  rw [hnew]
  simp only
  generalize dev.content = c at *
  -- ident bytes
  have hId := read_equiv cr c hinv0 0 Abi.EI_NIDENT
  simp only [Nat.zero_add] at hId
  rcases hId with ⟨b, r1, g1, s1, sb1, hr1⟩ | ⟨e, e', r1, g1, s1, hr1⟩
  · rw [g1, s1]
    simp only [rbind, rlift, Out.bind]
    rw [parseIdent_congr sb1]
    cases hid : parseIdent sp ⟨c, 0, Abi.EI_NIDENT⟩ with
    | panic =>
      exfalso
      exact C01.parse_ident_total sp _ hid
    | err e => exact Or.inr ⟨e, e, _, rfl, rfl⟩
    | ok ident =>
      simp only
      have hu : uadd Abi.EI_NIDENT (Gen.size_FileHeaderTail ident.2.1) =
          .ok (Abi.EI_NIDENT + Gen.size_FileHeaderTail ident.2.1) := by
        unfold uadd; cases ident.2.1 <;> rfl
      rw [hu]; simp only
      rcases read_equiv r1 c hr1 Abi.EI_NIDENT (Gen.size_FileHeaderTail ident.2.1) with
        ⟨b2, r2, g2, s2, sb2, hr2⟩ | ⟨e, e', r2, g2, s2, hr2⟩
      · rw [g2, s2]; simp only
        rw [parseTail_congr sb2]
        cases ht : parseTail ident ⟨c, 0 + Abi.EI_NIDENT, 0 + (Abi.EI_NIDENT + Gen.size_FileHeaderTail ident.2.1)⟩ with
        | panic =>
          exfalso
          unfold parseTail at ht
          have := EntryParser.parse_no_panic FileHeaderTail.ep total_FileHeaderTail ident.1 ident.2.1
            ⟨c, 0 + Abi.EI_NIDENT, 0 + (Abi.EI_NIDENT + Gen.size_FileHeaderTail ident.2.1)⟩ 0
          split at ht <;> simp_all
        | err e => exact Or.inr ⟨e, e, _, rfl, rfl⟩
        | ok ehdr =>
          simp only
          obtain ⟨r3, hr3, hsh⟩ := section_headers_equiv ehdr r2 c hr2 hc63
          rcases hsh with ⟨tbl, f1, f2⟩ | ⟨e, e', f1, f2⟩
          · rw [f1, f2]
            obtain ⟨ls, hls⟩ := headersOf_ok tbl (by
              intro x hx
              rw [C05.find_shdrs_spec] at f1
              have : x.ep = SectionHeader.ep := by
                subst hx
                split at f1
                · cases f1
                · cases hn : C05.shnumSpec ehdr (Slice.ofArray c) with
                  | ok n =>
                    simp only [hn, Out.bind] at f1
                    split at f1
                    · cases f1
                    · split at f1
                      · injection f1 with f1; injection f1 with f1; rw [← f1]; rfl
                      · cases f1
                      · cases f1
                  | err e => simp [hn, Out.bind] at f1
                  | panic => simp [hn, Out.bind] at f1
              rw [this]; exact total_SectionHeader)
            rw [hls]; simp only
            obtain ⟨r4, hr4, hph⟩ := program_headers_equiv ehdr r3 c hr3 hc63
            rcases hph with ⟨ptbl, p1, p2⟩ | ⟨e, e', p1, p2⟩
            · rw [p1, p2]
              obtain ⟨lp, hlp⟩ := headersOf_ok ptbl (by
                intro x hx
                rw [C05.find_phdrs_spec] at p1
                have : x.ep = ProgramHeader.ep := by
                  subst hx
                  split at p1
                  · cases p1
                  · cases hn : C05.phnumSpec ehdr (Slice.ofArray c) with
                    | ok n =>
                      simp only [hn, Out.bind] at p1
                      split at p1
                      · cases p1
                      · split at p1
                        · injection p1 with p1; injection p1 with p1; rw [← p1]; rfl
                        · cases p1
                        · cases p1
                    | err e => simp [hn, Out.bind] at p1
                    | panic => simp [hn, Out.bind] at p1
                rw [this]; exact total_ProgramHeader)
              rw [hlp]; simp only
              exact Or.inl ⟨_, _, _, rfl, rfl, rfl, hls, hlp, clearCache_inv r4 c hr4⟩
            · rw [p1, p2]; simp only
              exact Or.inr ⟨e, e', _, rfl, rfl⟩
          · rw [f1, f2]; simp only
            exact Or.inr ⟨e, e', _, rfl, rfl⟩
      · rw [g2, s2]; simp only
        exact Or.inr ⟨e, e', _, rfl, rfl⟩
  · rw [g1, s1]
    simp only [rbind, rlift, Out.bind]
    exact Or.inr ⟨e, e', _, rfl, rfl⟩

end Elf
