/-
  Lemmas/Domain.lean — whole-domain checks evaluated by the kernel: `allBelow n p` runs `p` on every
  `i < n`; `allBelow_spec` lifts `allBelow n p = true` (closed by `decide +kernel`) to `∀ i < n, p i`.
  Used for the byte- and halfword-domain accessors, so that the theorems about them do not depend on the
  syntactic form of the translated Rust body.
-/
namespace Elf

def allBelow : Nat → (Nat → Bool) → Bool
  | 0, _ => true
  | k + 1, p => p k && allBelow k p

theorem allBelow_spec (n : Nat) (p : Nat → Bool) (h : allBelow n p = true) : ∀ i, i < n → p i = true := by
  induction n with
  | zero => intro i hi; omega
  | succ k ih =>
    simp only [allBelow, Bool.and_eq_true] at h
    intro i hi
    by_cases hik : i = k
    · subst hik; exact h.1
    · exact ih h.2 i (by omega)

end Elf
