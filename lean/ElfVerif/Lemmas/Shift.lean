/-
  Lemmas/Shift.lean — parsing inside a copy of a range equals parsing in the file at the shifted
  offset, as long as the entry lies inside the range.
-/
import ElfVerif.Lemmas.Congr
namespace Elf

/-- `w` holds the bytes of `d` from offset `a` on -/
def ShiftBytes (w d : Slice) (a : Nat) : Prop := a + w.len ≤ d.len ∧ ∀ i, i < w.len → w.byte i = d.byte (a + i)

theorem decodeLE_shift {w d : Slice} {a : Nat} (h : ShiftBytes w d a) (n off : Nat) (hfit : off + n ≤ w.len) :
    decodeLE w off n = decodeLE d (a + off) n := by
  induction n generalizing off with
  | zero => rfl
  | succ k ih =>
    simp only [decodeLE]
    rw [h.2 off (by omega), ih (off + 1) (by omega)]
    rfl

theorem decodeBE_shift {w d : Slice} {a : Nat} (h : ShiftBytes w d a) (n off : Nat) (hfit : off + n ≤ w.len) :
    decodeBE w off n = decodeBE d (a + off) n := by
  induction n generalizing off with
  | zero => rfl
  | succ k ih =>
    simp only [decodeBE]
    rw [h.2 off (by omega), ih (off + 1) (by omega)]
    rfl

theorem tyVal_shift {w d : Slice} {a : Nat} (h : ShiftBytes w d a) (le : Bool) (t : Ty) (off : Nat)
    (hfit : off + t.width ≤ w.len) : tyVal le t w off = tyVal le t d (a + off) := by
  unfold tyVal decode
  rw [decodeLE_shift h _ _ hfit, decodeBE_shift h _ _ hfit]

theorem valsAt_shift {w d : Slice} {a : Nat} (h : ShiftBytes w d a) (le : Bool) (ts : List Ty) (off : Nat)
    (hfit : off + sizeOf ts ≤ w.len) : valsAt le w ts off = valsAt le d ts (a + off) := by
  induction ts generalizing off with
  | nil => rfl
  | cons t ts ih =>
    rw [sizeOf_cons] at hfit
    simp only [valsAt]
    rw [tyVal_shift h le t off (by omega), ih (off + t.width) (by omega), Nat.add_assoc]

/-- An entry that fits the copy parses there exactly as it does in the file at the shifted
    offset (same record; cursor shifted by `a`). -/
theorem parse_shift {α} {w d : Slice} {a : Nat} (h : ShiftBytes w d a) (ep : EntryParser α) (le : Bool)
    (c : Class) (off : Nat) (hfit : off + (ep.prog c).size ≤ w.len) (hd : d.len < 2 ^ 63)
    (hg : (ep.prog c).guard = none) :
    (ep.parse le c w off).1 = (ep.parse le c d (a + off)).1 := by
  have husz := USZ_eq
  have h1 : off + (ep.prog c).size < USZ := by have := h.1; omega
  have h2 : a + off + (ep.prog c).size ≤ d.len := by have := h.1; omega
  have h3 : a + off + (ep.prog c).size < USZ := by omega
  unfold EntryParser.parse
  rw [interp_ok (ep.prog c) le w off hfit h1 (by rw [hg]; trivial),
      interp_ok (ep.prog c) le d (a + off) h2 h3 (by rw [hg]; trivial)]
  rw [valsAt_shift h le _ off (by rw [← Prog.size_eq]; exact hfit)]
  simp only
  cases ep.build (List.map (Expr.eval (valsAt le d (ep.prog c).reads (a + off))) (ep.prog c).fields) <;> rfl

end Elf
