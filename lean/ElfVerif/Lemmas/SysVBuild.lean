/-
  Lemmas/SysVBuild.lean — the standard construction of a SysV `.hash` section (insert every symbol
  at the head of its bucket's chain) yields a well-formed table on which every symbol is on the
  chain of its name's bucket.  Together with SysVComplete this gives: the lookup finds every symbol
  of any table laid out by that construction, and answers `None` for every absent name.
-/
import ElfVerif.Lemmas.SysVComplete
namespace Elf.SysVBuild

/-- bucket heads and chain links, as functions of the index -/
structure Arr where
  bucket : Nat → Nat
  chain : Nat → Nat

/-- insert symbol `i` (bucket `h i`) at the head of its chain -/
def insert (h : Nat → Nat) (a : Arr) (i : Nat) : Arr :=
  { bucket := fun b => if b = h i then i else a.bucket b,
    chain := fun j => if j = i then a.bucket (h i) else a.chain j }

/-- the construction: symbols 1, 2, …, n inserted in that order -/
def build (h : Nat → Nat) : Nat → Arr
  | 0 => ⟨fun _ => 0, fun _ => 0⟩
  | n + 1 => insert h (build h n) (n + 1)

/-- `j` is met when following the links from `s` (0 ends a chain) -/
inductive Reach (c : Nat → Nat) : Nat → Nat → Prop
  | here (j : Nat) (hj : j ≠ 0) : Reach c j j
  | step (s j : Nat) (hs : s ≠ 0) (h : Reach c (c s) j) : Reach c s j

theorem build_bucket_le (h : Nat → Nat) (n b : Nat) : (build h n).bucket b ≤ n := by
  induction n with
  | zero => simp [build]
  | succ n ih => simp only [build, insert]; split <;> omega

theorem build_chain_lt (h : Nat → Nat) (n j : Nat) (hj : j ≠ 0) : (build h n).chain j < j := by
  induction n with
  | zero => simp only [build]; omega
  | succ n ih =>
    simp only [build, insert]
    split
    · have := build_bucket_le h n (h (n + 1)); omega
    · exact ih

/-- links that agree on all indices `≤ n` reach the same things from a start `≤ n`, when links decrease -/
theorem Reach.mono {c c' : Nat → Nat} (n : Nat) (hc : ∀ j, j ≤ n → c' j = c j) (hdec : ∀ j, j ≠ 0 → c j < j)
    {s j : Nat} (hs : s ≤ n) (hr : Reach c s j) : Reach c' s j := by
  induction hr with
  | here j hj => exact .here j hj
  | step s j hs0 _ ih =>
    refine .step s j hs0 ?_
    rw [hc s hs]
    exact ih (by have := hdec s hs0; omega)

/-- **every inserted symbol is on the chain of its bucket** -/
theorem build_reach (h : Nat → Nat) (n j : Nat) (hj0 : j ≠ 0) (hjn : j ≤ n) :
    Reach (build h n).chain ((build h n).bucket (h j)) j := by
  induction n with
  | zero => omega
  | succ n ih =>
    have hagree : ∀ k, k ≤ n → (build h (n + 1)).chain k = (build h n).chain k := by
      intro k hk; simp only [build, insert]; split
      · omega
      · rfl
    have hdec := build_chain_lt h n
    by_cases hjl : j = n + 1
    · subst hjl
      have : (build h (n + 1)).bucket (h (n + 1)) = n + 1 := by simp [build, insert]
      rw [this]; exact .here _ hj0
    · have hj' : j ≤ n := by omega
      have old := ih hj'
      by_cases hb : h j = h (n + 1)
      · -- the new symbol is the new head; its link is the old head
        have h1 : (build h (n + 1)).bucket (h j) = n + 1 := by simp [build, insert, hb]
        have h2 : (build h (n + 1)).chain (n + 1) = (build h n).bucket (h j) := by simp [build, insert, hb]
        rw [h1]
        refine .step _ _ (by omega) ?_
        rw [h2]
        exact Reach.mono n hagree hdec (build_bucket_le h n _) old
      · have h1 : (build h (n + 1)).bucket (h j) = (build h n).bucket (h j) := by simp [build, insert, hb]
        rw [h1]
        exact Reach.mono n hagree hdec (build_bucket_le h n _) old

/-- everything on the chain of bucket `b` hashes to `b` -/
theorem build_reach_bucket (h : Nat → Nat) (n b j : Nat) (hr : Reach (build h n).chain ((build h n).bucket b) j) :
    h j = b := by
  induction n generalizing j with
  | zero =>
    simp only [build] at hr
    cases hr with
    | here _ hj => exact absurd rfl hj
    | step _ _ hs _ => exact absurd rfl hs
  | succ n ih =>
    have hagree : ∀ k, k ≤ n → (build h n).chain k = (build h (n + 1)).chain k := by
      intro k hk; simp only [build, insert]; split
      · omega
      · rfl
    have hdec : ∀ k, k ≠ 0 → (build h (n + 1)).chain k < k := build_chain_lt h (n + 1)
    by_cases hb : b = h (n + 1)
    · have h1 : (build h (n + 1)).bucket b = n + 1 := by simp [build, insert, hb]
      rw [h1] at hr
      cases hr with
      | here _ _ => exact hb.symm
      | step _ _ _ hr' =>
        have h2 : (build h (n + 1)).chain (n + 1) = (build h n).bucket b := by simp [build, insert, hb]
        rw [h2] at hr'
        exact ih j (Reach.mono n hagree hdec (build_bucket_le h n _) hr')
    · have h1 : (build h (n + 1)).bucket b = (build h n).bucket b := by simp [build, insert, hb]
      rw [h1] at hr
      exact ih j (Reach.mono n hagree hdec (build_bucket_le h n _) hr)

/-! ## From the arrays to the parsed table -/

/-- A parsed `.hash` section, symbol table and string table that decode to the construction's arrays:
    `n` named symbols (1…n; symbol 0 is the reserved null symbol), `nchain = n + 1`. -/
structure Decodes (t : SysVHashTable) (symtab : Table Symbol) (strtab : Slice) (n : Nat)
    (sym : Nat → Symbol) (w : Nat → Slice) : Prop where
  nbucket_pos : t.buckets.len ≠ 0
  nchain : t.chains.len = n + 1
  syms : ∀ j, j ≠ 0 → j ≤ n → symtab.get j = .ok (sym j) ∧ strGetRaw strtab (sym j).st_name = .ok (w j)
  buckets : ∀ b, b < t.buckets.len →
    t.buckets.get b = .ok ((build (fun j => sysvHash (w j) % t.buckets.len) n).bucket b)
  chains : ∀ j, j ≤ n → t.chains.get j = .ok ((build (fun j => sysvHash (w j) % t.buckets.len) n).chain j)

/-- the decoded chain from any start `≤ n`: it exists, is no longer than its start, and contains
    exactly what `Reach` reaches -/
theorem chain_exists {t : SysVHashTable} {symtab : Table Symbol} {strtab : Slice} {n : Nat}
    {sym : Nat → Symbol} {w : Nat → Slice} (hd : Decodes t symtab strtab n sym w) (s : Nat) (hs : s ≤ n) :
    ∃ path, SysVChain t symtab strtab s path ∧ path.length ≤ s ∧
      ∀ j, Reach (build (fun j => sysvHash (w j) % t.buckets.len) n).chain s j ↔ (j, sym j, w j) ∈ path := by
  induction s using Nat.strongRecOn with
  | _ s ih =>
    by_cases h0 : s = 0
    · subst h0
      refine ⟨[], .nil, by simp, fun j => ?_⟩
      constructor
      · intro hr
        cases hr with
        | here _ hj => exact absurd rfl hj
        | step _ _ hs0 _ => exact absurd rfl hs0
      · intro hm; cases hm
    · have hlt := build_chain_lt (fun j => sysvHash (w j) % t.buckets.len) n s h0
      obtain ⟨rest, hr, hl, hmem⟩ := ih _ hlt (by omega)
      obtain ⟨hsym, hname⟩ := hd.syms s h0 hs
      refine ⟨(s, sym s, w s) :: rest, .cons s (sym s) (w s) _ rest h0 hsym hname (hd.chains s hs) hr,
        by simp only [List.length_cons]; omega, fun j => ?_⟩
      constructor
      · intro hreach
        cases hreach with
        | here _ _ => exact List.mem_cons_self ..
        | step _ _ _ h' => exact List.mem_cons_of_mem _ ((hmem j).mp h')
      · intro hm
        rcases List.mem_cons.mp hm with he | hm'
        · injection he with he1 _; subst he1; exact .here _ h0
        · exact .step _ _ h0 ((hmem j).mpr hm')

/-- **The construction's tables are well-formed.** -/
theorem wf {t : SysVHashTable} {symtab : Table Symbol} {strtab : Slice} {n : Nat}
    {sym : Nat → Symbol} {w : Nat → Slice} (hd : Decodes t symtab strtab n sym w) : WFSysV t symtab strtab := by
  refine ⟨hd.nbucket_pos, fun b hb => ?_⟩
  have hle := build_bucket_le (fun j => sysvHash (w j) % t.buckets.len) n b
  obtain ⟨path, hp, hl, _⟩ := chain_exists hd _ hle
  exact ⟨_, path, hd.buckets b hb, hp, by rw [hd.nchain]; omega⟩

theorem sysvHashAux_congr (a b : Slice) (i n h : Nat) (hb : ∀ j, j < i + n → a.byte j = b.byte j) :
    sysvHashAux a i n h = sysvHashAux b i n h := by
  induction n generalizing i h with
  | zero => rfl
  | succ n ih =>
    simp only [sysvHashAux]
    rw [hb i (by omega)]
    exact ih (i + 1) _ (fun j hj => hb j (by omega))

/-- equal byte strings hash alike -/
theorem sysvHash_congr (a b : Slice) (h : a.beqBytes b = true) : sysvHash a = sysvHash b := by
  obtain ⟨hl, hb⟩ := (Slice.beqBytes_iff a b).mp h
  unfold sysvHash
  rw [← hl, sysvHashAux_congr a b 0 a.len 0 (fun j hj => hb j (by omega))]

/-- **The lookup finds every symbol of a table laid out by the standard construction**: querying
    the bytes of symbol `i`'s name returns a symbol of the table whose name has exactly those bytes. -/
theorem finds_every_symbol {t : SysVHashTable} {symtab : Table Symbol} {strtab : Slice} {n : Nat}
    {sym : Nat → Symbol} {w : Nat → Slice} (hd : Decodes t symtab strtab n sym w)
    (i : Nat) (hi0 : i ≠ 0) (hin : i ≤ n) (name : Slice) (hname : (w i).beqBytes name = true) :
    ∃ j s, t.find name symtab strtab = .ok (some (j, s)) ∧
      ∃ w', symtab.get j = .ok s ∧ strGetRaw strtab s.st_name = .ok w' ∧ w'.beqBytes name = true := by
  let hf := fun j => sysvHash (w j) % t.buckets.len
  have hb : sysvHash name % t.buckets.len < t.buckets.len := Nat.mod_lt _ (Nat.pos_of_ne_zero hd.nbucket_pos)
  have hle := build_bucket_le hf n (sysvHash name % t.buckets.len)
  obtain ⟨path, hp, _, hmem⟩ := chain_exists hd _ hle
  have hreach := build_reach hf n i hi0 hin
  have hhi : hf i = sysvHash name % t.buckets.len := by
    show sysvHash (w i) % t.buckets.len = _
    rw [sysvHash_congr _ _ hname]
  rw [hhi] at hreach
  have hm := (hmem i).mp hreach
  obtain ⟨start', path', h1, h2, h3⟩ := sysv_find_wf t name symtab strtab (wf hd)
  rw [hd.buckets _ hb] at h1; injection h1 with h1; subst h1
  have hpe : path' = path := SysVChain.unique h2 hp
  subst hpe
  obtain ⟨j, s, hfn, w', hm', hw'⟩ := firstNamed_some name path' i (sym i) (w i) hm hname
  refine ⟨j, s, by rw [h3, hfn], w', ?_⟩
  -- the found element is a decoded chain element
  have : ∀ (st : Nat) (p : List (Nat × Symbol × Slice)), SysVChain t symtab strtab st p → (j, s, w') ∈ p →
      symtab.get j = .ok s ∧ strGetRaw strtab s.st_name = .ok w' := by
    intro st p hc
    induction hc with
    | nil => intro h; cases h
    | cons i sy ww nxt rest _ hs hn _ _ ih =>
      intro hmm
      rcases List.mem_cons.mp hmm with he | hr
      · injection he with e1 e2; injection e2 with e2 e3; subst e1; subst e2; subst e3; exact ⟨hs, hn⟩
      · exact ih hr
  obtain ⟨a1, a2⟩ := this _ _ h2 hm'
  exact ⟨a1, a2, hw'⟩

/-- **…and answers `None` for every name no symbol carries** (whatever it collides with). -/
theorem absent_is_none {t : SysVHashTable} {symtab : Table Symbol} {strtab : Slice} {n : Nat}
    {sym : Nat → Symbol} {w : Nat → Slice} (hd : Decodes t symtab strtab n sym w)
    (name : Slice) (habs : ∀ j, j ≠ 0 → j ≤ n → (w j).beqBytes name = false) :
    t.find name symtab strtab = .ok none := by
  obtain ⟨start', path', h1, h2, h3⟩ := sysv_find_wf t name symtab strtab (wf hd)
  rw [h3]
  congr 1
  apply firstNamed_none
  -- every chain element is a symbol 1…n with its own name
  have : ∀ (st : Nat) (p : List (Nat × Symbol × Slice)), st ≤ n → SysVChain t symtab strtab st p →
      ∀ e, e ∈ p → e.2.2.beqBytes name = false := by
    intro st p hst hc
    induction hc with
    | nil => intro e h; cases h
    | cons i sy ww nxt rest hi0 hs hn hcn _ ih =>
      have ⟨e1, e2⟩ := hd.syms i hi0 hst
      rw [hs] at e1; injection e1 with e1; subst e1
      rw [hn] at e2; injection e2 with e2; subst e2
      have hnx : nxt ≤ n := by
        have := hd.chains i hst; rw [hcn] at this; injection this with this
        have := build_chain_lt (fun j => sysvHash (w j) % t.buckets.len) n i hi0
        omega
      intro e he
      rcases List.mem_cons.mp he with he | hr
      · subst he; exact habs i hi0 hst
      · exact ih hnx e hr
  have hb : sysvHash name % t.buckets.len < t.buckets.len := Nat.mod_lt _ (Nat.pos_of_ne_zero hd.nbucket_pos)
  rw [hd.buckets _ hb] at h1; injection h1 with h1
  exact this start' path' (by rw [← h1]; exact build_bucket_le _ n _) h2

end Elf.SysVBuild
