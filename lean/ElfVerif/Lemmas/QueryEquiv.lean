/-
  Lemmas/QueryEquiv.lean — query-level refinement: every `ElfStream` query, issued in any state
  reachable from `open_stream` over a legal reader, succeeds whenever the same `ElfBytes` query
  succeeds on the same bytes, with the same content.

  `Sim s f c`: the simulation relation between a stream parser state `s`, the slice parser `f`
  and the file contents `c`.  `open_equiv` establishes it; every query preserves it (whatever the
  query's outcome), which is what makes the statement hold "in any order and any number of times".
-/
import ElfVerif.Lemmas.OpenEquiv
import ElfVerif.Lemmas.TableList
import ElfVerif.Lemmas.StrCongr
namespace Elf
open C09

/-! ### reader facts -/

theorem loadBytes_bufs (r : CachingReader) (s e : Nat) :
    ∃ extra, (r.loadBytes s e).2.bufs = r.bufs ++ extra := by
  unfold CachingReader.loadBytes
  split
  · exact ⟨[], by simp⟩
  · split
    · exact ⟨[], by simp⟩
    · generalize r.dev.seekTo s = sk
      obtain ⟨sk1, d1⟩ := sk
      cases sk1 with
      | err er => exact ⟨[], by simp⟩
      | panic => exact ⟨[], by simp⟩
      | ok u =>
        simp only
        generalize Device.readExact _ _ _ = re
        obtain ⟨re1, d2⟩ := re
        cases re1 with
        | err er => exact ⟨[], by simp⟩
        | panic => exact ⟨[], by simp⟩
        | ok u2 => exact ⟨_, rfl⟩

theorem lookup_mono (r r' : CachingReader) (extra : List ((Nat × Nat) × Slice))
    (h : r'.bufs = r.bufs ++ extra) (s e : Nat) (b : Slice) (hb : r.lookup s e = some b) :
    r'.lookup s e = some b := by
  unfold CachingReader.lookup at hb ⊢
  rw [h, List.find?_append]
  cases hf : r.bufs.find? (fun kv => kv.1.1 == s && kv.1.2 == e) with
  | none => rw [hf] at hb; cases hb
  | some kv => rw [hf] at hb; simpa using hb

/-- **`load_bytes` on a legal reader**: a range that fits is loaded, afterwards cached with the
    file's bytes, and everything cached before stays cached. -/
theorem loadBytes_legal (r : CachingReader) (c : Array UInt8) (s e : Nat) (h : RInv r c) (hse : s ≤ e)
    (he : e ≤ c.size) :
    ∃ r', r.loadBytes s e = (.ok (), r') ∧ RInv r' c ∧
      (∃ b, r'.lookup s e = some b ∧ SameBytes b ⟨c, 0 + s, 0 + e⟩) ∧
      (∀ s2 e2 b2, r.lookup s2 e2 = some b2 → r'.lookup s2 e2 = some b2) := by
  obtain ⟨b, r', h1, h2, h3⟩ := (readBytes_legal r c s e h hse).1 he
  unfold CachingReader.readBytes at h1
  generalize hl : r.loadBytes s e = l at h1
  obtain ⟨l1, l2⟩ := l
  cases l1 with
  | err er => simp at h1
  | panic => simp at h1
  | ok u =>
    simp only at h1
    injection h1 with h1a h1b
    subst h1b
    refine ⟨l2, rfl, h3, ?_, ?_⟩
    · unfold CachingReader.getBytes at h1a
      cases hlk : l2.lookup s e with
      | none => rw [hlk] at h1a; cases h1a
      | some b' => rw [hlk] at h1a; injection h1a with h1a; subst h1a; exact ⟨b', rfl, h2⟩
    · intro s2 e2 b2 hb2
      obtain ⟨extra, hx⟩ := loadBytes_bufs r s e
      rw [hl] at hx
      exact lookup_mono r l2 extra hx s2 e2 b2 hb2

theorem loadBytes_legal_nofit (r : CachingReader) (c : Array UInt8) (s e : Nat) (h : RInv r c)
    (hse : s ≤ e) (he : c.size < e) :
    ∃ er r', r.loadBytes s e = (.err er, r') ∧ RInv r' c := by
  obtain ⟨r', h1, h2⟩ := (readBytes_legal r c s e h hse).2 he
  unfold CachingReader.readBytes at h1
  generalize hl : r.loadBytes s e = l at h1
  obtain ⟨l1, l2⟩ := l
  cases l1 with
  | err er => simp only at h1; injection h1 with _ h1b; subst h1b; exact ⟨er, l2, rfl, h2⟩
  | panic => simp at h1
  | ok u =>
    simp only at h1
    injection h1 with h1a h1b
    subst h1b
    -- loaded although it does not fit: impossible, the lookup would be beyond the stream
    have hlk := loadBytes_ok_lookup r l2 s e hl
    cases hb : l2.lookup s e with
    | none => simp [hb] at hlk
    | some b =>
      have hm := CachingReader.lookup_some l2 s e b hb
      have := (h2.cache.2 _ hm).1
      have hsl : l2.streamLen = c.size := by rw [h2.cache.1, h2.content]
      simp only at this
      omega

/-- the reader invariant survives `read_bytes` whatever its outcome -/
theorem readBytes_inv (r : CachingReader) (c : Array UInt8) (s e : Nat) (h : RInv r c) (hse : s ≤ e) :
    RInv (r.readBytes s e).2 c := by
  by_cases he : e ≤ c.size
  · obtain ⟨b, r', h1, _, h3⟩ := (readBytes_legal r c s e h hse).1 he
    rw [h1]; exact h3
  · obtain ⟨r', h1, h3⟩ := (readBytes_legal r c s e h hse).2 (by omega)
    rw [h1]; exact h3

theorem loadBytes_inv' (r : CachingReader) (c : Array UInt8) (s e : Nat) (h : RInv r c) (hse : s ≤ e) :
    RInv (r.loadBytes s e).2 c := by
  by_cases he : e ≤ c.size
  · obtain ⟨r', h1, h3, _⟩ := loadBytes_legal r c s e h hse he
    rw [h1]; exact h3
  · obtain ⟨er, r', h1, h3⟩ := loadBytes_legal_nofit r c s e h hse (by omega)
    rw [h1]; exact h3

/-! ### the simulation relation -/

/-- a lazy table of the slice parser and the `Vec` of the stream parser hold the same entries -/
structure TblSim {α} (ep : EntryParser α) (h : FileHeader) (o : Option (Table α)) (l : List α) : Prop where
  none_nil : o = none → l = []
  lists : ∀ t, o = some t → Lists t l ∧ t.ep = ep ∧ t.little = h.little ∧ t.cls = h.cls

structure Sim (s : ElfStream) (f : ElfBytes) (c : Array UInt8) : Prop where
  data : f.data = Slice.ofArray c
  size : c.size < 2 ^ 63
  ehdr : s.ehdr = f.ehdr
  sh : TblSim SectionHeader.ep f.ehdr f.shdrs s.shdrs
  ph : TblSim ProgramHeader.ep f.ehdr f.phdrs s.phdrs
  rinv : RInv s.reader c

theorem Sim.withReader {s : ElfStream} {f : ElfBytes} {c : Array UInt8} (h : Sim s f c) (r : CachingReader)
    (hr : RInv r c) : Sim { s with reader := r } f c :=
  ⟨h.data, h.size, h.ehdr, h.sh, h.ph, hr⟩

/-- one ranged read on both sides, phrased with `dataRange` as every accessor uses it -/
theorem range_read (r : CachingReader) (c : Array UInt8) (hinv : RInv r c) (off size : Nat) (rg : Nat × Nat)
    (hrg : dataRange off size = .ok rg) :
    rg.1 ≤ rg.2 ∧
    ((∃ w b r', (Slice.ofArray c).getBytes rg.1 rg.2 = .ok w ∧ r.readBytes rg.1 rg.2 = (.ok b, r') ∧
        SameBytes b w ∧ RInv r' c) ∨
     (∃ e e' r', (Slice.ofArray c).getBytes rg.1 rg.2 = .err e' ∧ r.readBytes rg.1 rg.2 = (.err e, r') ∧
        RInv r' c)) := by
  rw [C03.dataRange_eq] at hrg
  split at hrg
  · injection hrg with hrg; subst hrg
    refine ⟨by simp, ?_⟩
    rcases read_equiv r c hinv off size with ⟨b, r', h1, h2, h3, h4⟩ | ⟨e, e', r', h1, h2, h3⟩
    · exact Or.inl ⟨_, b, r', h1, h2, h3, h4⟩
    · exact Or.inr ⟨e, e', r', h1, h2, h3⟩
  · cases hrg

/-! ### `section_data` and the typed views -/

theorem sectionData_sim (s : ElfStream) (f : ElfBytes) (c : Array UInt8) (hs : Sim s f c) (sh : SectionHeader) :
    Sim (s.sectionData sh).2 f c := by
  unfold ElfStream.sectionData
  split
  · exact hs
  · cases hrg : dataRange sh.sh_offset sh.sh_size with
    | err e => exact hs
    | panic => exact hs
    | ok rg =>
      simp only [ElfStream.withReader]
      obtain ⟨hle, _⟩ := range_read s.reader c hs.rinv _ _ rg hrg
      have hinv := readBytes_inv s.reader c rg.1 rg.2 hs.rinv hle
      refine hs.withReader _ ?_
      unfold rbind
      generalize s.reader.readBytes rg.1 rg.2 = q at hinv
      obtain ⟨q1, q2⟩ := q
      cases q1 with
      | err e => exact hinv
      | panic => exact hinv
      | ok b =>
        simp only
        split
        · exact hinv
        · split
          · exact hinv
          · exact hinv
          · split <;> exact hinv

/-- **`section_data`** for a section that is not flagged `SHF_COMPRESSED`: whenever the slice
    parser answers, the stream parser answers with the same bytes (and no compression header). -/
theorem sectionData_refines (s : ElfStream) (f : ElfBytes) (c : Array UInt8) (hs : Sim s f c) (sh : SectionHeader)
    (hnc : sh.sh_flags &&& Abi.SHF_COMPRESSED = 0) (w : Slice) (ch : Option CompressionHeader)
    (h : f.sectionData sh = .ok (w, ch)) :
    ∃ b s', s.sectionData sh = (.ok (b, ch), s') ∧ SameBytes b w ∧ Sim s' f c := by
  have hsim := sectionData_sim s f c hs sh
  unfold ElfBytes.sectionData at h
  unfold ElfStream.sectionData at hsim ⊢
  by_cases hnb : sh.sh_type = Abi.SHT_NOBITS
  · simp only [hnb, if_true] at h hsim ⊢
    injection h with h; injection h with h1 h2; subst h1; subst h2
    exact ⟨_, _, rfl, SameBytes.refl _, hsim⟩
  · simp only [hnb, if_false] at h hsim ⊢
    cases hrg : dataRange sh.sh_offset sh.sh_size with
    | err e => simp [hrg, Out.bind] at h
    | panic => simp [hrg, Out.bind] at h
    | ok rg =>
      simp only [hrg, Out.bind, hs.data, hnc, if_true] at h hsim ⊢
      obtain ⟨_, hrd⟩ := range_read s.reader c hs.rinv _ _ rg hrg
      rcases hrd with ⟨w', b, r', g1, g2, g3, g4⟩ | ⟨e, e', r', g1, g2, g3⟩
      · rw [g1] at h; simp only at h
        injection h with h; injection h with h1 h2; subst h1; subst h2
        rw [g2] at hsim ⊢
        simp only [ElfStream.withReader, rbind] at hsim ⊢
        exact ⟨b, _, rfl, g3, hsim⟩
      · rw [g1] at h; cases h

theorem typedRange_sim (s : ElfStream) (f : ElfBytes) (c : Array UInt8) (hs : Sim s f c) (sh : SectionHeader)
    (want : Nat) : Sim (s.typedRange sh want).2 f c := by
  unfold ElfStream.typedRange
  split
  · exact hs
  · cases hrg : dataRange sh.sh_offset sh.sh_size with
    | err e => exact hs
    | panic => exact hs
    | ok rg =>
      simp only [ElfStream.withReader]
      obtain ⟨hle, _⟩ := range_read s.reader c hs.rinv _ _ rg hrg
      exact hs.withReader _ (readBytes_inv s.reader c rg.1 rg.2 hs.rinv hle)

/-- the typed views (`section_data_as_strtab/rels/relas/notes`): the slice parser goes through
    `section_data`, the stream parser reads the section's range directly; for a section of the
    wanted type that is not `SHF_COMPRESSED` they deliver the same bytes.  (`want ≠ SHT_NOBITS`
    holds for each of the four views.) -/
theorem typedRange_refines (s : ElfStream) (f : ElfBytes) (c : Array UInt8) (hs : Sim s f c) (sh : SectionHeader)
    (want : Nat) (hw : want ≠ Abi.SHT_NOBITS)
    (hnc : sh.sh_flags &&& Abi.SHF_COMPRESSED = 0) (w : Slice) (h : f.typedSection sh want = .ok w) :
    ∃ b s', s.typedRange sh want = (.ok b, s') ∧ SameBytes b w ∧ Sim s' f c := by
  have hsim := typedRange_sim s f c hs sh want
  unfold ElfBytes.typedSection at h
  unfold ElfStream.typedRange at hsim ⊢
  by_cases ht : sh.sh_type = want
  · have hne : ¬ sh.sh_type ≠ want := by simp [ht]
    simp only [hne, if_false] at h hsim ⊢
    cases hsd : f.sectionData sh with
    | err e => simp [hsd, Out.bind] at h
    | panic => simp [hsd, Out.bind] at h
    | ok r =>
      simp only [hsd, Out.bind] at h
      injection h with h; subst h
      obtain ⟨b, s', g1, g2, _⟩ := sectionData_refines s f c hs sh hnc r.1 r.2 (by rw [hsd])
      -- unfold the stream's section_data to read off the same range read
      unfold ElfStream.sectionData at g1
      have hnb : ¬ sh.sh_type = Abi.SHT_NOBITS := by rw [ht]; exact hw
      simp only [hnb, if_false] at g1
      cases hrg : dataRange sh.sh_offset sh.sh_size with
      | err e => simp [hrg] at g1
      | panic => simp [hrg] at g1
      | ok rg =>
        simp only [hrg] at g1 hsim ⊢
        simp only [ElfStream.withReader, rbind, hnc, if_true] at g1 hsim ⊢
        generalize s.reader.readBytes rg.1 rg.2 = q at g1 hsim ⊢
        obtain ⟨q1, q2⟩ := q
        cases q1 with
        | err e => simp at g1
        | panic => simp at g1
        | ok b' =>
          simp only at g1 hsim ⊢
          injection g1 with g1a g1b
          injection g1a with g1a; injection g1a with g1a _; subst g1a
          exact ⟨b', _, rfl, g2, hsim⟩
  · simp [ht] at h

/-! ### `Sim` holds after `open_stream` -/

theorem tableWindow_len (d : Slice) (off size n : Nat) (w : Slice) (h : C05.tableWindow d off size n = .ok w) :
    w.len ≤ d.len := by
  unfold C05.tableWindow at h
  split at h
  · split at h
    · injection h with h; subst h; unfold Slice.len at *; simp only; omega
    · cases h
  · cases h

theorem findShdrs_shape (h : FileHeader) (d : Slice) (t : Table SectionHeader)
    (hf : findShdrs h d = .ok (some t)) : ∃ w, t = shdrTable h w ∧ w.len ≤ d.len := by
  rw [C05.find_shdrs_spec] at hf
  split at hf
  · cases hf
  · cases hn : C05.shnumSpec h d with
    | ok n =>
      simp only [hn, Out.bind] at hf
      split at hf
      · cases hf
      · cases hw : C05.tableWindow d h.t.e_shoff (Gen.size_SectionHeader h.cls) n with
        | ok w =>
          simp only [hw] at hf
          injection hf with hf; injection hf with hf
          exact ⟨w, hf.symm, tableWindow_len _ _ _ _ _ hw⟩
        | err e => simp [hw] at hf
        | panic => simp [hw] at hf
    | err e => simp [hn, Out.bind] at hf
    | panic => simp [hn, Out.bind] at hf

theorem findPhdrs_shape (h : FileHeader) (d : Slice) (t : Table ProgramHeader)
    (hf : findPhdrs h d = .ok (some t)) : ∃ w, t = phdrTable h w ∧ w.len ≤ d.len := by
  rw [C05.find_phdrs_spec] at hf
  split at hf
  · cases hf
  · cases hn : C05.phnumSpec h d with
    | ok n =>
      simp only [hn, Out.bind] at hf
      split at hf
      · cases hf
      · cases hw : C05.tableWindow d h.t.e_phoff (Gen.size_ProgramHeader h.cls) n with
        | ok w =>
          simp only [hw] at hf
          injection hf with hf; injection hf with hf
          exact ⟨w, hf.symm, tableWindow_len _ _ _ _ _ hw⟩
        | err e => simp [hw] at hf
        | panic => simp [hw] at hf
    | err e => simp [hn, Out.bind] at hf
    | panic => simp [hn, Out.bind] at hf

theorem minimalParse_parts (sp : Spec) (d : Slice) (f : ElfBytes) (h : minimalParse sp d = .ok f) :
    f.data = d ∧ findShdrs f.ehdr d = .ok f.shdrs ∧ findPhdrs f.ehdr d = .ok f.phdrs := by
  unfold minimalParse at h
  cases h1 : d.getBytes 0 Abi.EI_NIDENT with
  | err e => simp [h1, Out.bind] at h
  | panic => simp [h1, Out.bind] at h
  | ok ib =>
    simp only [h1, Out.bind] at h
    cases h2 : parseIdent sp ib with
    | err e => simp [h2] at h
    | panic => simp [h2] at h
    | ok ident =>
      simp only [h2] at h
      cases h3 : uadd Abi.EI_NIDENT (Gen.size_FileHeaderTail ident.2.1) with
      | err e => simp [h3] at h
      | panic => simp [h3] at h
      | ok te =>
        simp only [h3] at h
        cases h4 : d.getBytes Abi.EI_NIDENT te with
        | err e => simp [h4] at h
        | panic => simp [h4] at h
        | ok tb =>
          simp only [h4] at h
          cases h5 : parseTail ident tb with
          | err e => simp [h5] at h
          | panic => simp [h5] at h
          | ok ehdr =>
            simp only [h5] at h
            cases h6 : findShdrs ehdr d with
            | err e => simp [h6] at h
            | panic => simp [h6] at h
            | ok shdrs =>
              simp only [h6] at h
              cases h7 : findPhdrs ehdr d with
              | err e => simp [h7] at h
              | panic => simp [h7] at h
              | ok phdrs =>
                simp only [h7] at h
                injection h with h; subst h
                exact ⟨rfl, h6, h7⟩

theorem tblSim_of_headers {α} (ep : EntryParser α) (h : FileHeader) (o : Option (Table α)) (l : List α)
    (hreg : ∀ c, Regular ep c)
    (hh : headersOf o = .ok l)
    (hshape : ∀ t, o = some t → t.ep = ep ∧ t.little = h.little ∧ t.cls = h.cls ∧ t.data.len < 2 ^ 63) :
    TblSim ep h o l := by
  constructor
  · intro ho; subst ho
    have : headersOf (none : Option (Table α)) = .ok [] := rfl
    rw [this] at hh; injection hh with hh; exact hh.symm
  · intro t ho; subst ho
    obtain ⟨e1, e2, e3, e4⟩ := hshape t rfl
    have hc : t.iter.collect.1 = .ok l := hh
    exact ⟨lists_of_collect t (by rw [e1]; exact hreg _) e4 l hc, e1, e2, e3⟩

/-- **`open_stream` establishes the simulation** (from `open_equiv`). -/
theorem open_sim (sp : Spec) (dev : Device) (hl : Legal dev.sched) (hc63 : dev.content.size < 2 ^ 63)
    (f : ElfBytes) (hf : minimalParse sp (Slice.ofArray dev.content) = .ok f) :
    ∃ s d, openStream sp dev = (.ok s, d) ∧ Sim s f dev.content := by
  rcases open_equiv sp dev hl hc63 with ⟨f', s, d, h1, h2, h3, h4, h5, h6⟩ | ⟨e, e', d, h1, _⟩
  · rw [hf] at h1; injection h1 with h1; subst h1
    obtain ⟨p1, p2, p3⟩ := minimalParse_parts sp _ f hf
    have hlen : (Slice.ofArray dev.content).len = dev.content.size := by simp [Slice.ofArray, Slice.len]
    refine ⟨s, d, h2, ⟨p1, hc63, h3, ?_, ?_, h6⟩⟩
    · refine tblSim_of_headers _ _ _ _ regular_SectionHeader h4 ?_
      intro t ht
      rw [ht] at p2
      obtain ⟨w, hw, hwl⟩ := findShdrs_shape _ _ _ p2
      subst hw
      exact ⟨rfl, rfl, rfl, by show w.len < 2 ^ 63; omega⟩
    · refine tblSim_of_headers _ _ _ _ regular_ProgramHeader h5 ?_
      intro t ht
      rw [ht] at p3
      obtain ⟨w, hw, hwl⟩ := findPhdrs_shape _ _ _ p3
      subst hw
      exact ⟨rfl, rfl, rfl, by show w.len < 2 ^ 63; omega⟩
  · rw [hf] at h1; cases h1

/-! ### the four typed views, and segment notes -/

def NoteSim (x y : NoteIter) : Prop :=
  x.little = y.little ∧ x.cls = y.cls ∧ x.align = y.align ∧ x.offset = y.offset ∧ SameBytes x.data y.data

def TableSim {α} (x y : Table α) : Prop :=
  x.ep = y.ep ∧ x.little = y.little ∧ x.cls = y.cls ∧ SameBytes x.data y.data

theorem strtab_refines (s : ElfStream) (f : ElfBytes) (c : Array UInt8) (hs : Sim s f c) (sh : SectionHeader)
    (hnc : sh.sh_flags &&& Abi.SHF_COMPRESSED = 0) (w : Slice) (h : f.sectionDataAsStrtab sh = .ok w) :
    ∃ b s', s.sectionDataAsStrtab sh = (.ok b, s') ∧ SameBytes b w ∧ Sim s' f c :=
  typedRange_refines s f c hs sh Abi.SHT_STRTAB (by decide) hnc w h

theorem rels_refines (s : ElfStream) (f : ElfBytes) (c : Array UInt8) (hs : Sim s f c) (sh : SectionHeader)
    (hnc : sh.sh_flags &&& Abi.SHF_COMPRESSED = 0) (it : Iter Rel) (h : f.sectionDataAsRels sh = .ok it) :
    ∃ it' s', s.sectionDataAsRels sh = (.ok it', s') ∧ IterSim it' it ∧ Sim s' f c := by
  unfold ElfBytes.sectionDataAsRels at h
  cases ht : f.typedSection sh Abi.SHT_REL with
  | err e => simp [ht, Out.bind] at h
  | panic => simp [ht, Out.bind] at h
  | ok w =>
    simp only [ht, Out.bind] at h
    injection h with h; subst h
    obtain ⟨b, s', g1, g2, g3⟩ := typedRange_refines s f c hs sh Abi.SHT_REL (by decide) hnc w ht
    unfold ElfStream.sectionDataAsRels
    rw [g1]
    exact ⟨_, s', rfl, ⟨rfl, by rw [hs.ehdr], by rw [hs.ehdr], rfl, g2⟩, g3⟩

theorem relas_refines (s : ElfStream) (f : ElfBytes) (c : Array UInt8) (hs : Sim s f c) (sh : SectionHeader)
    (hnc : sh.sh_flags &&& Abi.SHF_COMPRESSED = 0) (it : Iter Rela) (h : f.sectionDataAsRelas sh = .ok it) :
    ∃ it' s', s.sectionDataAsRelas sh = (.ok it', s') ∧ IterSim it' it ∧ Sim s' f c := by
  unfold ElfBytes.sectionDataAsRelas at h
  cases ht : f.typedSection sh Abi.SHT_RELA with
  | err e => simp [ht, Out.bind] at h
  | panic => simp [ht, Out.bind] at h
  | ok w =>
    simp only [ht, Out.bind] at h
    injection h with h; subst h
    obtain ⟨b, s', g1, g2, g3⟩ := typedRange_refines s f c hs sh Abi.SHT_RELA (by decide) hnc w ht
    unfold ElfStream.sectionDataAsRelas
    rw [g1]
    exact ⟨_, s', rfl, ⟨rfl, by rw [hs.ehdr], by rw [hs.ehdr], rfl, g2⟩, g3⟩

theorem section_notes_refines (s : ElfStream) (f : ElfBytes) (c : Array UInt8) (hs : Sim s f c) (sh : SectionHeader)
    (hnc : sh.sh_flags &&& Abi.SHF_COMPRESSED = 0) (it : NoteIter) (h : f.sectionDataAsNotes sh = .ok it) :
    ∃ it' s', s.sectionDataAsNotes sh = (.ok it', s') ∧ NoteSim it' it ∧ Sim s' f c := by
  unfold ElfBytes.sectionDataAsNotes at h
  cases ht : f.typedSection sh Abi.SHT_NOTE with
  | err e => simp [ht, Out.bind] at h
  | panic => simp [ht, Out.bind] at h
  | ok w =>
    simp only [ht, Out.bind] at h
    injection h with h; subst h
    obtain ⟨b, s', g1, g2, g3⟩ := typedRange_refines s f c hs sh Abi.SHT_NOTE (by decide) hnc w ht
    unfold ElfStream.sectionDataAsNotes
    rw [g1]
    exact ⟨_, s', rfl, ⟨by rw [hs.ehdr], by rw [hs.ehdr], rfl, rfl, g2⟩, g3⟩

theorem segmentNotes_sim (s : ElfStream) (f : ElfBytes) (c : Array UInt8) (hs : Sim s f c) (ph : ProgramHeader) :
    Sim (s.segmentDataAsNotes ph).2 f c := by
  unfold ElfStream.segmentDataAsNotes
  split
  · exact hs
  · cases hrg : dataRange ph.p_offset ph.p_filesz with
    | err e => exact hs
    | panic => exact hs
    | ok rg =>
      simp only [ElfStream.withReader]
      obtain ⟨hle, _⟩ := range_read s.reader c hs.rinv _ _ rg hrg
      have hinv := readBytes_inv s.reader c rg.1 rg.2 hs.rinv hle
      refine hs.withReader _ ?_
      unfold rbind
      generalize s.reader.readBytes rg.1 rg.2 = q at hinv
      obtain ⟨q1, q2⟩ := q
      cases q1 <;> exact hinv

theorem segment_notes_refines (s : ElfStream) (f : ElfBytes) (c : Array UInt8) (hs : Sim s f c) (ph : ProgramHeader)
    (it : NoteIter) (h : f.segmentDataAsNotes ph = .ok it) :
    ∃ it' s', s.segmentDataAsNotes ph = (.ok it', s') ∧ NoteSim it' it ∧ Sim s' f c := by
  have hsim := segmentNotes_sim s f c hs ph
  unfold ElfBytes.segmentDataAsNotes ElfBytes.segmentData at h
  unfold ElfStream.segmentDataAsNotes at hsim ⊢
  by_cases ht : ph.p_type = Abi.PT_NOTE
  · have hne : ¬ ph.p_type ≠ Abi.PT_NOTE := by simp [ht]
    simp only [hne, if_false] at h hsim ⊢
    cases hrg : dataRange ph.p_offset ph.p_filesz with
    | err e => simp [hrg, Out.bind] at h
    | panic => simp [hrg, Out.bind] at h
    | ok rg =>
      simp only [hrg, Out.bind, hs.data] at h hsim ⊢
      obtain ⟨_, hrd⟩ := range_read s.reader c hs.rinv _ _ rg hrg
      rcases hrd with ⟨w', b, r', g1, g2, g3, g4⟩ | ⟨e, e', r', g1, g2, g3⟩
      · rw [g1] at h; simp only at h
        injection h with h; subst h
        rw [g2] at hsim ⊢
        simp only [ElfStream.withReader, rbind] at hsim ⊢
        exact ⟨_, _, rfl, ⟨by rw [hs.ehdr], by rw [hs.ehdr], rfl, rfl, g3⟩, hsim⟩
      · rw [g1] at h; cases h
  · simp [ht] at h

/-! ### section-name string table and lookup by name -/

def OptSame : Option Slice → Option Slice → Prop
  | none, none => True
  | some a, some b => SameBytes a b
  | _, _ => False

theorem strtabAt_sim (s : ElfStream) (f : ElfBytes) (c : Array UInt8) (hs : Sim s f c) (idx : Nat) :
    Sim (s.strtabAt idx).2 f c := by
  unfold ElfStream.strtabAt
  split
  · exact hs
  · rename_i strtab _
    cases hrg : dataRange strtab.sh_offset strtab.sh_size with
    | err e => exact hs
    | panic => exact hs
    | ok rg =>
      simp only [ElfStream.withReader]
      obtain ⟨hle, _⟩ := range_read s.reader c hs.rinv _ _ rg hrg
      have hinv := readBytes_inv s.reader c rg.1 rg.2 hs.rinv hle
      refine hs.withReader _ ?_
      unfold rbind
      generalize s.reader.readBytes rg.1 rg.2 = q at hinv
      obtain ⟨q1, q2⟩ := q
      cases q1 <;> exact hinv

theorem strtabAt_shdrs (s : ElfStream) (idx : Nat) : (s.strtabAt idx).2.shdrs = s.shdrs := by
  unfold ElfStream.strtabAt
  split
  · rfl
  · split <;> rfl

theorem strtabLookup_sim (s : ElfStream) (f : ElfBytes) (c : Array UInt8) (hs : Sim s f c) :
    Sim s.sectionHeadersWithStrtab.2 f c := by
  unfold ElfStream.sectionHeadersWithStrtab
  split
  · exact hs
  · split
    · exact hs
    · split
      · split
        · exact strtabAt_sim s f c hs _
        · exact hs
      · exact strtabAt_sim s f c hs _

theorem strtabLookup_shdrs (s : ElfStream) : s.sectionHeadersWithStrtab.2.shdrs = s.shdrs := by
  unfold ElfStream.sectionHeadersWithStrtab
  split
  · rfl
  · split
    · rfl
    · split
      · split
        · exact strtabAt_shdrs s _
        · rfl
      · exact strtabAt_shdrs s _

/-- fetching section `idx` as the string table, both sides -/
theorem strtabAt_refines (s : ElfStream) (f : ElfBytes) (c : Array UInt8) (hs : Sim s f c)
    (t : Table SectionHeader) (hl : Lists t s.shdrs) (idx : Nat) (buf : Slice)
    (h : ((t.get idx).bind fun strtab =>
          (dataRange strtab.sh_offset strtab.sh_size).bind fun r =>
          (f.data.getBytes r.1 r.2).bind fun buf => Out.ok buf) = .ok buf) :
    ∃ b s', s.strtabAt idx = (.ok (some b), s') ∧ SameBytes b buf ∧ Sim s' f c := by
  have hsim := strtabAt_sim s f c hs idx
  unfold ElfStream.strtabAt at hsim ⊢
  rcases hl.getElem? idx with ⟨strtab, ha1, ha2⟩ | ⟨hnone, e, he⟩
  · rw [ha2] at h; simp only [Out.bind] at h
    simp only [ha1] at hsim ⊢
    cases hrg : dataRange strtab.sh_offset strtab.sh_size with
    | err e => simp [hrg] at h
    | panic => simp [hrg] at h
    | ok rg =>
      simp only [hrg, hs.data] at h hsim ⊢
      obtain ⟨_, hrd⟩ := range_read s.reader c hs.rinv _ _ rg hrg
      rcases hrd with ⟨w', b, r', g1, g2, g3, g4⟩ | ⟨e, e', r', g1, g2, g3⟩
      · rw [g1] at h; simp only at h
        injection h with h; subst h
        rw [g2] at hsim ⊢
        simp only [ElfStream.withReader, rbind] at hsim ⊢
        exact ⟨b, _, rfl, g3, hsim⟩
      · rw [g1] at h; cases h
  · rw [he] at h; cases h

/-- **`section_headers_with_strtab`**: whenever the slice parser finds (or finds no) section-name
    string table, the stream parser does the same, with the same bytes. -/
theorem strtabLookup_refines (s : ElfStream) (f : ElfBytes) (c : Array UInt8) (hs : Sim s f c)
    (ot : Option (Table SectionHeader)) (ostr : Option Slice)
    (h : f.sectionHeadersWithStrtab = .ok (ot, ostr)) :
    ∃ o' s', s.sectionHeadersWithStrtab = (.ok o', s') ∧ OptSame o' ostr ∧ Sim s' f c ∧ ot = f.shdrs := by
  have hsim := strtabLookup_sim s f c hs
  unfold ElfBytes.sectionHeadersWithStrtab at h
  unfold ElfStream.sectionHeadersWithStrtab at hsim ⊢
  cases hsh : f.shdrs with
  | none =>
    have hnil := hs.sh.none_nil hsh
    simp only [hsh] at h
    injection h with h; injection h with h1 h2; subst h1; subst h2
    simp only [hnil, List.isEmpty_nil, if_true] at hsim ⊢
    exact ⟨none, _, rfl, trivial, hsim, trivial⟩
  | some t =>
    obtain ⟨hl, _, _, _⟩ := hs.sh.lists t hsh
    simp only [hsh] at h
    rw [hs.ehdr] at hsim ⊢
    by_cases hu : f.ehdr.t.e_shstrndx = Abi.SHN_UNDEF
    · simp only [hu, if_true] at h hsim ⊢
      injection h with h; injection h with h1 h2; subst h1; subst h2
      by_cases hE : s.shdrs.isEmpty = true
      · simp only [hE, if_true] at hsim ⊢; exact ⟨none, _, rfl, trivial, hsim, trivial⟩
      · simp only [hE] at hsim ⊢; exact ⟨none, _, rfl, trivial, hsim, trivial⟩
    · simp only [hu, if_false] at h hsim ⊢
      -- a successful slice-side lookup reads some header, so the Vec is not empty
      have hne : s.shdrs.isEmpty = false := by
        cases hq : s.shdrs with
        | cons a b => rfl
        | nil =>
          exfalso
          have hb : ∀ k, ∃ e, t.get k = .err e := fun k => hl.beyond k (by rw [hq]; simp)
          by_cases hx : f.ehdr.t.e_shstrndx = Abi.SHN_XINDEX
          · simp only [hx, if_true] at h
            obtain ⟨e, he⟩ := hb 0
            rw [he] at h; simp [Out.bind] at h
          · simp only [hx, if_false, Out.bind] at h
            obtain ⟨e, he⟩ := hb f.ehdr.t.e_shstrndx
            rw [he] at h; simp at h
      simp only [hne, Bool.false_eq_true, if_false] at hsim ⊢
      by_cases hx : f.ehdr.t.e_shstrndx = Abi.SHN_XINDEX
      · simp only [hx, if_true] at h hsim ⊢
        rcases hl.getElem? 0 with ⟨a, ha1, ha2⟩ | ⟨_, e, he⟩
        · rw [ha2] at h
          simp only [ha1] at hsim ⊢
          cases hsl : ((t.get a.sh_link).bind fun strtab =>
              (dataRange strtab.sh_offset strtab.sh_size).bind fun r =>
              (f.data.getBytes r.1 r.2).bind fun buf => Out.ok buf) with
          | ok buf =>
            obtain ⟨b, s', g1, g2, g3⟩ := strtabAt_refines s f c hs t hl a.sh_link buf hsl
            have : ot = some t ∧ ostr = some buf := by
              simp only [Out.bind] at h hsl
              cases hg : t.get a.sh_link with
              | ok st =>
                simp only [hg] at h hsl
                cases hd : dataRange st.sh_offset st.sh_size with
                | ok r =>
                  simp only [hd] at h hsl
                  cases hgb : f.data.getBytes r.1 r.2 with
                  | ok bb =>
                    simp only [hgb] at h hsl
                    injection h with h; injection h with h1 h2
                    injection hsl with hsl
                    exact ⟨h1.symm, by rw [← h2, hsl]⟩
                  | err e => simp [hgb] at hsl
                  | panic => simp [hgb] at hsl
                | err e => simp [hd] at hsl
                | panic => simp [hd] at hsl
              | err e => simp [hg] at hsl
              | panic => simp [hg] at hsl
            obtain ⟨e1, e2⟩ := this
            subst e1; subst e2
            exact ⟨some b, s', g1, g2, g3, rfl⟩
          | err e =>
            exfalso
            simp only [Out.bind] at h hsl
            cases hg : t.get a.sh_link with
            | ok st =>
              simp only [hg] at h hsl
              cases hd : dataRange st.sh_offset st.sh_size with
              | ok r =>
                simp only [hd] at h hsl
                cases hgb : f.data.getBytes r.1 r.2 with
                | ok bb => simp [hgb] at hsl
                | err e => simp [hgb] at h
                | panic => simp [hgb] at h
              | err e => simp [hd] at h
              | panic => simp [hd] at h
            | err e => simp [hg] at h
            | panic => simp [hg] at h
          | panic =>
            exfalso
            simp only [Out.bind] at h hsl
            cases hg : t.get a.sh_link with
            | ok st =>
              simp only [hg] at h hsl
              cases hd : dataRange st.sh_offset st.sh_size with
              | ok r =>
                simp only [hd] at h hsl
                cases hgb : f.data.getBytes r.1 r.2 with
                | ok bb => simp [hgb] at hsl
                | err e => simp [hgb] at h
                | panic => simp [hgb] at h
              | err e => simp [hd] at h
              | panic => simp [hd] at h
            | err e => simp [hg] at h
            | panic => simp [hg] at h
        · rw [he] at h; simp [Out.bind] at h
      · simp only [hx, if_false] at h hsim ⊢
        cases hsl : ((t.get f.ehdr.t.e_shstrndx).bind fun strtab =>
            (dataRange strtab.sh_offset strtab.sh_size).bind fun r =>
            (f.data.getBytes r.1 r.2).bind fun buf => Out.ok buf) with
        | ok buf =>
          obtain ⟨b, s', g1, g2, g3⟩ := strtabAt_refines s f c hs t hl _ buf hsl
          have : ot = some t ∧ ostr = some buf := by
            simp only [Out.bind] at h hsl
            cases hg : t.get f.ehdr.t.e_shstrndx with
            | ok st =>
              simp only [hg] at h hsl
              cases hd : dataRange st.sh_offset st.sh_size with
              | ok r =>
                simp only [hd] at h hsl
                cases hgb : f.data.getBytes r.1 r.2 with
                | ok bb =>
                  simp only [hgb] at h hsl
                  injection h with h; injection h with h1 h2
                  injection hsl with hsl
                  exact ⟨h1.symm, by rw [← h2, hsl]⟩
                | err e => simp [hgb] at hsl
                | panic => simp [hgb] at hsl
              | err e => simp [hd] at hsl
              | panic => simp [hd] at hsl
            | err e => simp [hg] at hsl
            | panic => simp [hg] at hsl
          obtain ⟨e1, e2⟩ := this
          subst e1; subst e2
          exact ⟨some b, s', g1, g2, g3, rfl⟩
        | err e =>
          exfalso
          simp only [Out.bind] at h hsl
          cases hg : t.get f.ehdr.t.e_shstrndx with
          | ok st =>
            simp only [hg] at h hsl
            cases hd : dataRange st.sh_offset st.sh_size with
            | ok r =>
              simp only [hd] at h hsl
              cases hgb : f.data.getBytes r.1 r.2 with
              | ok bb => simp [hgb] at hsl
              | err e => simp [hgb] at h
              | panic => simp [hgb] at h
            | err e => simp [hd] at h
            | panic => simp [hd] at h
          | err e => simp [hg] at h
          | panic => simp [hg] at h
        | panic =>
          exfalso
          simp only [Out.bind] at h hsl
          cases hg : t.get f.ehdr.t.e_shstrndx with
          | ok st =>
            simp only [hg] at h hsl
            cases hd : dataRange st.sh_offset st.sh_size with
            | ok r =>
              simp only [hd] at h hsl
              cases hgb : f.data.getBytes r.1 r.2 with
              | ok bb => simp [hgb] at hsl
              | err e => simp [hgb] at h
              | panic => simp [hgb] at h
            | err e => simp [hd] at h
            | panic => simp [hd] at h
          | err e => simp [hg] at h
          | panic => simp [hg] at h

theorem nameMatches_funext {a b : Slice} (h : SameBytes a b) (name : Slice) :
    ElfBytes.nameMatches a name = ElfBytes.nameMatches b name :=
  funext fun sh => nameMatches_congr h name sh

/-- **`section_header_by_name`**: same header (or same `None`) whenever the slice parser answers. -/
theorem byName_refines (s : ElfStream) (f : ElfBytes) (c : Array UInt8) (hs : Sim s f c) (name : Slice)
    (o : Option SectionHeader) (h : f.sectionHeaderByName name = .ok o) :
    ∃ s', s.sectionHeaderByName name = (.ok o, s') ∧ Sim s' f c := by
  unfold ElfBytes.sectionHeaderByName at h
  cases hq : f.sectionHeadersWithStrtab with
  | err e => simp [hq, Out.bind] at h
  | panic => simp [hq, Out.bind] at h
  | ok r =>
    obtain ⟨ot, ostr⟩ := r
    obtain ⟨o', s', g1, g2, g3, g4⟩ := strtabLookup_refines s f c hs ot ostr hq
    simp only [hq, Out.bind] at h
    unfold ElfStream.sectionHeaderByName
    rw [g1]
    have hshd : s'.shdrs = s.shdrs := by
      have := congrArg Prod.snd g1
      simp only at this
      rw [← this]; exact strtabLookup_shdrs s
    cases o' with
    | none =>
      cases ostr with
      | none =>
        have : o = none := by
          cases ot <;> simp at h <;> exact h.symm
        subst this
        exact ⟨s', rfl, g3⟩
      | some b => exact absurd g2 (by simp [OptSame])
    | some a =>
      cases ostr with
      | none => exact absurd g2 (by simp [OptSame])
      | some b =>
        simp only
        subst g4
        cases hsh : f.shdrs with
        | none =>
          -- no table but a string table: impossible
          exfalso
          unfold ElfBytes.sectionHeadersWithStrtab at hq
          simp [hsh] at hq
        | some t =>
          simp only [hsh] at h
          obtain ⟨hl, _, _, _⟩ := hs.sh.lists t hsh
          rw [hl.find] at h
          injection h with h
          rw [hshd, nameMatches_funext g2 name, h]
          exact ⟨s', rfl, g3⟩

/-! ### symbol tables -/

/-- one ranged `load_bytes` on the stream side against a successful range read on the slice side -/
theorem range_load (r : CachingReader) (c : Array UInt8) (hinv : RInv r c) (off size : Nat) (rg : Nat × Nat)
    (hrg : dataRange off size = .ok rg) (w : Slice) (hw : (Slice.ofArray c).getBytes rg.1 rg.2 = .ok w) :
    ∃ r', r.loadBytes rg.1 rg.2 = (.ok (), r') ∧ RInv r' c ∧
      (∃ b, r'.lookup rg.1 rg.2 = some b ∧ SameBytes b w) ∧
      (∀ s2 e2 b2, r.lookup s2 e2 = some b2 → r'.lookup s2 e2 = some b2) := by
  rw [C03.dataRange_eq] at hrg
  split at hrg
  · injection hrg with hrg; subst hrg
    simp only at hw ⊢
    rw [C03.getBytes_eq] at hw
    have hlen : (Slice.ofArray c).len = c.size := by simp [Slice.ofArray, Slice.len]
    rw [hlen] at hw
    split at hw
    · rename_i hle
      injection hw with hw; subst hw
      obtain ⟨r', h1, h2, h3, h4⟩ := loadBytes_legal r c off (off + size) hinv (by omega) hle
      exact ⟨r', h1, h2, h3, h4⟩
    · cases hw
  · cases hrg

theorem dataRange_le (off size : Nat) (rg : Nat × Nat) (h : dataRange off size = .ok rg) : rg.1 ≤ rg.2 := by
  rw [C03.dataRange_eq] at h
  split at h
  · injection h with h; subst h; simp
  · cases h

theorem symtab_sim (s : ElfStream) (f : ElfBytes) (c : Array UInt8) (hs : Sim s f c) (ty : Nat) :
    Sim (s.symbolTableOfType ty).2 f c := by
  unfold ElfStream.symbolTableOfType
  split
  · exact hs
  · split
    · exact hs
    · rename_i shdr _
      cases hrg : dataRange shdr.sh_offset shdr.sh_size with
      | err e => exact hs
      | panic => exact hs
      | ok rg =>
        simp only [ElfStream.withReader]
        refine hs.withReader _ ?_
        have hinv1 := loadBytes_inv' s.reader c rg.1 rg.2 hs.rinv (dataRange_le _ _ _ hrg)
        unfold rbind
        generalize s.reader.loadBytes rg.1 rg.2 = q at hinv1
        obtain ⟨q1, q2⟩ := q
        cases q1 with
        | err e => exact hinv1
        | panic => exact hinv1
        | ok u =>
          simp only at hinv1 ⊢
          split
          · exact hinv1
          · rename_i strtab _
            cases hrg2 : dataRange strtab.sh_offset strtab.sh_size with
            | err e => exact hinv1
            | panic => exact hinv1
            | ok rg2 =>
              simp only
              have hinv2 := loadBytes_inv' q2 c rg2.1 rg2.2 hinv1 (dataRange_le _ _ _ hrg2)
              generalize q2.loadBytes rg2.1 rg2.2 = p at hinv2
              obtain ⟨p1, p2⟩ := p
              cases p1 with
              | err e => exact hinv2
              | panic => exact hinv2
              | ok u2 =>
                simp only [rlift] at hinv2 ⊢
                cases Symbol.ep.validateEntsize s.ehdr.cls shdr.sh_entsize with
                | err e => exact hinv2
                | panic => exact hinv2
                | ok v =>
                  simp only
                  cases p2.getBytes rg.1 rg.2 with
                  | err e => exact hinv2
                  | panic => exact hinv2
                  | ok b1 =>
                    simp only
                    cases p2.getBytes rg2.1 rg2.2 with
                    | err e => exact hinv2
                    | panic => exact hinv2
                    | ok b2 => exact hinv2

/-- **`symbol_table` / `dynamic_symbol_table`**: when the slice parser finds the table (or finds
    there is none), so does the stream parser, with the same symbol bytes and string-table bytes. -/
theorem symtab_refines (s : ElfStream) (f : ElfBytes) (c : Array UInt8) (hs : Sim s f c) (ty : Nat)
    (o : Option (Table Symbol × Slice)) (h : f.symbolTableOfType ty = .ok o) :
    ∃ o' s', s.symbolTableOfType ty = (.ok o', s') ∧ Sim s' f c ∧
      (match o, o' with
       | none, none => True
       | some (t, st), some (t', st') => TableSim t' t ∧ SameBytes st' st
       | _, _ => False) := by
  have hsim := symtab_sim s f c hs ty
  unfold ElfBytes.symbolTableOfType at h
  unfold ElfStream.symbolTableOfType at hsim ⊢
  cases hsh : f.shdrs with
  | none =>
    have hnil := hs.sh.none_nil hsh
    simp only [hsh] at h
    injection h with h; subst h
    simp only [hnil, List.isEmpty_nil, if_true] at hsim ⊢
    exact ⟨none, _, rfl, hsim, trivial⟩
  | some t =>
    obtain ⟨hl, _, _, _⟩ := hs.sh.lists t hsh
    simp only [hsh] at h
    rw [hl.find] at h
    simp only [Out.bind] at h
    cases hfind : s.shdrs.find? (fun sh => sh.sh_type == ty) with
    | none =>
      simp only [hfind] at h hsim ⊢
      injection h with h; subst h
      by_cases hE : s.shdrs.isEmpty = true
      · simp only [hE, if_true] at hsim ⊢; exact ⟨none, _, rfl, hsim, trivial⟩
      · simp only [hE] at hsim ⊢; exact ⟨none, _, rfl, hsim, trivial⟩
    | some symShdr =>
      have hE : s.shdrs.isEmpty = false := by
        cases hq : s.shdrs with
        | nil => rw [hq] at hfind; simp at hfind
        | cons a b => rfl
      simp only [hfind, hE, Bool.false_eq_true, if_false] at h hsim ⊢
      -- read the slice side step by step
      rcases hl.getElem? symShdr.sh_link with ⟨strShdr, ha1, ha2⟩ | ⟨_, e, he⟩
      · rw [ha2] at h; simp only at h
        unfold ElfBytes.sectionDataAsSymbolTable at h
        simp only [Out.bind] at h
        cases hv : Symbol.ep.validateEntsize f.ehdr.cls symShdr.sh_entsize with
        | err e => simp [hv] at h
        | panic => simp [hv] at h
        | ok v =>
          simp only [hv] at h
          cases hrg : dataRange symShdr.sh_offset symShdr.sh_size with
          | err e => simp [hrg] at h
          | panic => simp [hrg] at h
          | ok rg =>
            simp only [hrg, hs.data] at h hsim ⊢
            cases hgb : (Slice.ofArray c).getBytes rg.1 rg.2 with
            | err e => simp [hgb] at h
            | panic => simp [hgb] at h
            | ok symBuf =>
              simp only [hgb] at h
              cases hrg2 : dataRange strShdr.sh_offset strShdr.sh_size with
              | err e => simp [hrg2] at h
              | panic => simp [hrg2] at h
              | ok rg2 =>
                simp only [hrg2] at h
                cases hgb2 : (Slice.ofArray c).getBytes rg2.1 rg2.2 with
                | err e => simp [hgb2] at h
                | panic => simp [hgb2] at h
                | ok strBuf =>
                  simp only [hgb2] at h
                  injection h with h; subst h
                  -- the stream side
                  obtain ⟨r1, l1, inv1, ⟨b1, lk1, sb1⟩, _⟩ :=
                    range_load s.reader c hs.rinv _ _ rg hrg symBuf hgb
                  obtain ⟨r2, l2, inv2, ⟨b2, lk2, sb2⟩, mono2⟩ :=
                    range_load r1 c inv1 _ _ rg2 hrg2 strBuf hgb2
                  have lk1' := mono2 _ _ _ lk1
                  rw [l1] at hsim ⊢
                  simp only [ElfStream.withReader, rbind, ha1, hrg2] at hsim ⊢
                  rw [l2] at hsim ⊢
                  simp only [rlift, hs.ehdr, hv, CachingReader.getBytes, lk1', lk2] at hsim ⊢
                  exact ⟨_, _, rfl, hsim, ⟨rfl, rfl, rfl, sb1⟩, sb2⟩
      · rw [he] at h; cases h

/-! ### the dynamic table -/

theorem dynamic_sim (s : ElfStream) (f : ElfBytes) (c : Array UInt8) (hs : Sim s f c) :
    Sim s.dynamic.2 f c := by
  have key : ∀ off size, Sim (match dataRange off size with
      | .err e => ((.err e : Out (Option (Table Dyn))), s)
      | .panic => (.panic, s)
      | .ok rg => s.withReader (rbind (s.reader.readBytes rg.1 rg.2) fun buf r => (.ok (some (s.dynTable buf)), r))).2 f c := by
    intro off size
    cases hrg : dataRange off size with
    | err e => exact hs
    | panic => exact hs
    | ok rg =>
      simp only [ElfStream.withReader]
      have hinv := readBytes_inv s.reader c rg.1 rg.2 hs.rinv (dataRange_le _ _ _ hrg)
      refine hs.withReader _ ?_
      unfold rbind
      generalize s.reader.readBytes rg.1 rg.2 = q at hinv
      obtain ⟨q1, q2⟩ := q
      cases q1 <;> exact hinv
  unfold ElfStream.dynamic
  split
  · split
    · exact key _ _
    · exact hs
  · split
    · split
      · exact key _ _
      · exact hs
    · exact hs

/-- **`dynamic`**, for files whose section header table is absent or non-empty and whose
    `.dynamic` section (if any) is not flagged `SHF_COMPRESSED`: when the slice parser finds the
    table (or none), so does the stream parser, with the same bytes. -/
theorem dynamic_refines (s : ElfStream) (f : ElfBytes) (c : Array UInt8) (hs : Sim s f c)
    (hscope : f.shdrs = none ∨ s.shdrs ≠ [])
    (hnc : ∀ sh, s.shdrs.find? (fun sh => sh.sh_type == Abi.SHT_DYNAMIC) = some sh →
      sh.sh_flags &&& Abi.SHF_COMPRESSED = 0)
    (o : Option (Table Dyn)) (h : f.dynamic = .ok o) :
    ∃ o' s', s.dynamic = (.ok o', s') ∧ Sim s' f c ∧
      (match o, o' with
       | none, none => True
       | some t, some t' => TableSim t' t
       | _, _ => False) := by
  have hsim := dynamic_sim s f c hs
  unfold ElfBytes.dynamic at h
  unfold ElfStream.dynamic at hsim ⊢
  cases hsh : f.shdrs with
  | some t =>
    obtain ⟨hl, _, _, _⟩ := hs.sh.lists t hsh
    have hne : s.shdrs ≠ [] := by
      rcases hscope with h1 | h1
      · rw [hsh] at h1; cases h1
      · exact h1
    have hE : (!s.shdrs.isEmpty) = true := by
      cases hq : s.shdrs with
      | nil => exact absurd hq hne
      | cons a b => rfl
    simp only [hsh] at h
    rw [hl.find] at h
    simp only [Out.bind] at h
    simp only [hE, if_true] at hsim ⊢
    cases hfind : s.shdrs.find? (fun sh => sh.sh_type == Abi.SHT_DYNAMIC) with
    | none =>
      simp only [hfind] at h hsim ⊢
      injection h with h; subst h
      exact ⟨none, _, rfl, hsim, trivial⟩
    | some shdr =>
      have hty : shdr.sh_type = Abi.SHT_DYNAMIC := by
        have := List.find?_some hfind
        simpa using this
      have hncs := hnc shdr hfind
      simp only [hfind] at h hsim ⊢
      unfold ElfBytes.sectionDataAsDynamic ElfBytes.sectionData at h
      have hnb : ¬ shdr.sh_type = Abi.SHT_NOBITS := by rw [hty]; decide
      have hne2 : ¬ shdr.sh_type ≠ Abi.SHT_DYNAMIC := by simp [hty]
      simp only [hne2, hnb, if_false, Out.bind, hncs, if_true] at h
      cases hv : Dyn.ep.validateEntsize f.ehdr.cls shdr.sh_entsize with
      | err e => simp [hv] at h
      | panic => simp [hv] at h
      | ok v =>
        simp only [hv] at h
        cases hrg : dataRange shdr.sh_offset shdr.sh_size with
        | err e => simp [hrg] at h
        | panic => simp [hrg] at h
        | ok rg =>
          simp only [hrg, hs.data] at h hsim ⊢
          obtain ⟨_, hrd⟩ := range_read s.reader c hs.rinv _ _ rg hrg
          rcases hrd with ⟨w', b, r', g1, g2, g3, g4⟩ | ⟨e, e', r', g1, g2, g3⟩
          · rw [g1] at h; simp only at h
            injection h with h; subst h
            rw [g2] at hsim ⊢
            simp only [ElfStream.withReader, rbind] at hsim ⊢
            exact ⟨_, _, rfl, hsim, ⟨rfl, by simp [ElfStream.dynTable, ElfBytes.dynTable, hs.ehdr],
              by simp [ElfStream.dynTable, ElfBytes.dynTable, hs.ehdr], g3⟩⟩
          · rw [g1] at h; simp at h
  | none =>
    have hnil := hs.sh.none_nil hsh
    simp only [hsh] at h
    unfold ElfBytes.dynamicFromSegments at h
    simp only [hnil, List.isEmpty_nil, Bool.not_true, Bool.false_eq_true, if_false] at hsim ⊢
    cases hph : f.phdrs with
    | none =>
      have hpnil := hs.ph.none_nil hph
      simp only [hph] at h
      injection h with h; subst h
      simp only [hpnil, List.isEmpty_nil, Bool.not_true, Bool.false_eq_true, if_false] at hsim ⊢
      exact ⟨none, _, rfl, hsim, trivial⟩
    | some pt =>
      obtain ⟨hpl, _, _, _⟩ := hs.ph.lists pt hph
      simp only [hph] at h
      rw [hpl.find] at h
      simp only [Out.bind] at h
      cases hfind : s.phdrs.find? (fun ph => ph.p_type == Abi.PT_DYNAMIC) with
      | none =>
        simp only [hfind] at h hsim ⊢
        injection h with h; subst h
        by_cases hE : (!s.phdrs.isEmpty) = true
        · simp only [hE, if_true] at hsim ⊢; exact ⟨none, _, rfl, hsim, trivial⟩
        · simp only [hE] at hsim ⊢; exact ⟨none, _, rfl, hsim, trivial⟩
      | some phdr =>
        have hE : (!s.phdrs.isEmpty) = true := by
          cases hq : s.phdrs with
          | nil => rw [hq] at hfind; simp at hfind
          | cons a b => rfl
        simp only [hfind, hE, if_true] at h hsim ⊢
        cases hrg : dataRange phdr.p_offset phdr.p_filesz with
        | err e => simp [hrg] at h
        | panic => simp [hrg] at h
        | ok rg =>
          simp only [hrg, hs.data] at h hsim ⊢
          obtain ⟨_, hrd⟩ := range_read s.reader c hs.rinv _ _ rg hrg
          rcases hrd with ⟨w', b, r', g1, g2, g3, g4⟩ | ⟨e, e', r', g1, g2, g3⟩
          · rw [g1] at h; simp only at h
            injection h with h; subst h
            rw [g2] at hsim ⊢
            simp only [ElfStream.withReader, rbind] at hsim ⊢
            exact ⟨_, _, rfl, hsim, ⟨rfl, by simp [ElfStream.dynTable, ElfBytes.dynTable, hs.ehdr],
              by simp [ElfStream.dynTable, ElfBytes.dynTable, hs.ehdr], g3⟩⟩
          · rw [g1] at h; simp at h

/-! ### symbol version table -/

theorem verLoad_inv (s : ElfStream) (c : Array UInt8) (o : Option SectionHeader) (r : CachingReader)
    (h : RInv r c) : RInv (s.verLoad o r).2 c := by
  unfold ElfStream.verLoad
  cases o with
  | none => exact h
  | some shdr =>
    simp only [rbind, rlift]
    cases hrg : dataRange shdr.sh_offset shdr.sh_size with
    | err e => exact h
    | panic => exact h
    | ok rg =>
      simp only
      have h1 := loadBytes_inv' r c rg.1 rg.2 h (dataRange_le _ _ _ hrg)
      generalize r.loadBytes rg.1 rg.2 = q at h1
      obtain ⟨q1, q2⟩ := q
      cases q1 with
      | err e => exact h1
      | panic => exact h1
      | ok u =>
        simp only at h1 ⊢
        split
        · exact h1
        · rename_i strs _
          cases hrg2 : dataRange strs.sh_offset strs.sh_size with
          | err e => exact h1
          | panic => exact h1
          | ok rg2 =>
            simp only
            have h2 := loadBytes_inv' q2 c rg2.1 rg2.2 h1 (dataRange_le _ _ _ hrg2)
            generalize q2.loadBytes rg2.1 rg2.2 = p at h2
            obtain ⟨p1, p2⟩ := p
            cases p1 <;> exact h2

/-- what `ver_load` leaves in the cache, against what the slice parser's `verRecords` returned -/
def VerLoaded (f : ElfBytes) (r : CachingReader) :
    Option (SectionHeader × (Nat × Nat) × (Nat × Nat)) → Option (VerIter × Slice) → Prop
  | none, none => True
  | some (shdr, rg, srg), some (it, strs) =>
    it.little = f.ehdr.little ∧ it.cls = f.ehdr.cls ∧ it.count = shdr.sh_info ∧ it.offset = 0 ∧
    ∃ b1 b2, r.lookup rg.1 rg.2 = some b1 ∧ SameBytes b1 it.data ∧
             r.lookup srg.1 srg.2 = some b2 ∧ SameBytes b2 strs
  | _, _ => False

theorem VerLoaded.mono {f : ElfBytes} {r r' : CachingReader}
    (hm : ∀ s2 e2 b2, r.lookup s2 e2 = some b2 → r'.lookup s2 e2 = some b2)
    {lo : Option (SectionHeader × (Nat × Nat) × (Nat × Nat))} {res : Option (VerIter × Slice)}
    (h : VerLoaded f r lo res) : VerLoaded f r' lo res := by
  cases lo with
  | none => cases res <;> exact h
  | some x =>
    obtain ⟨shdr, rg, srg⟩ := x
    cases res with
    | none => exact h
    | some y =>
      obtain ⟨it, strs⟩ := y
      obtain ⟨h1, h2, h3, h4, b1, b2, h5, h6, h7, h8⟩ := h
      exact ⟨h1, h2, h3, h4, b1, b2, hm _ _ _ h5, h6, hm _ _ _ h7, h8⟩

theorem verLoad_refines (s : ElfStream) (f : ElfBytes) (c : Array UInt8) (hd : f.data = Slice.ofArray c)
    (t : Table SectionHeader) (hl : Lists t s.shdrs) (o : Option SectionHeader) (r : CachingReader)
    (hinv : RInv r c) (res : Option (VerIter × Slice)) (h : f.verRecords t o = .ok res) :
    ∃ lo r', s.verLoad o r = (.ok lo, r') ∧ RInv r' c ∧ VerLoaded f r' lo res ∧
      (∀ s2 e2 b2, r.lookup s2 e2 = some b2 → r'.lookup s2 e2 = some b2) := by
  unfold ElfBytes.verRecords at h
  unfold ElfStream.verLoad
  cases o with
  | none =>
    simp only at h ⊢
    injection h with h; subst h
    exact ⟨none, r, rfl, hinv, trivial, fun _ _ _ hb => hb⟩
  | some shdr =>
    simp only [Out.bind, hd] at h
    simp only [rbind, rlift]
    cases hrg : dataRange shdr.sh_offset shdr.sh_size with
    | err e => simp [hrg] at h
    | panic => simp [hrg] at h
    | ok rg =>
      simp only [hrg] at h ⊢
      cases hgb : (Slice.ofArray c).getBytes rg.1 rg.2 with
      | err e => simp [hgb] at h
      | panic => simp [hgb] at h
      | ok buf =>
        simp only [hgb] at h
        rcases hl.getElem? shdr.sh_link with ⟨strs, ha1, ha2⟩ | ⟨_, e, he⟩
        · rw [ha2] at h; simp only at h
          cases hrg2 : dataRange strs.sh_offset strs.sh_size with
          | err e => simp [hrg2] at h
          | panic => simp [hrg2] at h
          | ok rg2 =>
            simp only [hrg2] at h
            cases hgb2 : (Slice.ofArray c).getBytes rg2.1 rg2.2 with
            | err e => simp [hgb2] at h
            | panic => simp [hgb2] at h
            | ok strsBuf =>
              simp only [hgb2] at h
              injection h with h; subst h
              obtain ⟨r1, l1, inv1, ⟨b1, lk1, sb1⟩, mono1⟩ := range_load r c hinv _ _ rg hrg buf hgb
              obtain ⟨r2, l2, inv2, ⟨b2, lk2, sb2⟩, mono2⟩ := range_load r1 c inv1 _ _ rg2 hrg2 strsBuf hgb2
              rw [l1]; simp only [ha1, hrg2]
              rw [l2]
              exact ⟨_, r2, rfl, inv2, ⟨rfl, rfl, rfl, rfl, b1, b2, mono2 _ _ _ lk1, sb1, lk2, sb2⟩,
                fun _ _ _ hb => mono2 _ _ _ (mono1 _ _ _ hb)⟩
        · rw [he] at h; cases h

def VerSim : Option (VerIter × Slice) → Option (VerIter × Slice) → Prop
  | none, none => True
  | some (x, xs), some (y, ys) =>
    x.little = y.little ∧ x.cls = y.cls ∧ x.count = y.count ∧ x.offset = y.offset ∧
    SameBytes x.data y.data ∧ SameBytes xs ys
  | _, _ => False

theorem verWrap_refines (s : ElfStream) (f : ElfBytes) (he : s.ehdr = f.ehdr) (r : CachingReader)
    (lo : Option (SectionHeader × (Nat × Nat) × (Nat × Nat))) (res : Option (VerIter × Slice))
    (h : VerLoaded f r lo res) : ∃ res', s.verWrap lo r = .ok res' ∧ VerSim res' res := by
  unfold ElfStream.verWrap
  cases lo with
  | none =>
    cases res with
    | none => exact ⟨none, rfl, trivial⟩
    | some y => exact absurd h (by simp [VerLoaded])
  | some x =>
    obtain ⟨shdr, rg, srg⟩ := x
    cases res with
    | none => exact absurd h (by simp [VerLoaded])
    | some y =>
      obtain ⟨it, strs⟩ := y
      obtain ⟨h1, h2, h3, h4, b1, b2, h5, h6, h7, h8⟩ := h
      simp only [CachingReader.getBytes, h5, h7, Out.bind]
      exact ⟨_, rfl, ⟨by rw [he, h1], by rw [he, h2], h3.symm, h4.symm, h6, h8⟩⟩

def SymVerSim (x y : SymbolVersionTable) : Prop :=
  TableSim x.versionIds y.versionIds ∧ VerSim x.verneeds y.verneeds ∧ VerSim x.verdefs y.verdefs

theorem symver_sim (s : ElfStream) (f : ElfBytes) (c : Array UInt8) (hs : Sim s f c) :
    Sim s.symbolVersionTable.2 f c := by
  unfold ElfStream.symbolVersionTable
  split
  · exact hs
  · generalize ElfStream.verScanList s.shdrs none none none = sc
    obtain ⟨vs, nd, df⟩ := sc
    simp only
    cases vs with
    | none => exact hs
    | some versym =>
      simp only [ElfStream.withReader]
      refine hs.withReader _ ?_
      simp only [rbind, rlift]
      cases VersionIndex.ep.validateEntsize s.ehdr.cls versym.sh_entsize with
      | err e => exact hs.rinv
      | panic => exact hs.rinv
      | ok v =>
        simp only
        cases hrg : dataRange versym.sh_offset versym.sh_size with
        | err e => exact hs.rinv
        | panic => exact hs.rinv
        | ok vrg =>
          simp only
          have h1 := loadBytes_inv' s.reader c vrg.1 vrg.2 hs.rinv (dataRange_le _ _ _ hrg)
          generalize s.reader.loadBytes vrg.1 vrg.2 = q at h1
          obtain ⟨q1, q2⟩ := q
          cases q1 with
          | err e => exact h1
          | panic => exact h1
          | ok u =>
            simp only at h1 ⊢
            have h2 := verLoad_inv s c nd q2 h1
            generalize s.verLoad nd q2 = p at h2
            obtain ⟨p1, p2⟩ := p
            cases p1 with
            | err e => exact h2
            | panic => exact h2
            | ok needs =>
              simp only at h2 ⊢
              have h3 := verLoad_inv s c df p2 h2
              generalize s.verLoad df p2 = w at h3
              obtain ⟨w1, w2⟩ := w
              cases w1 with
              | err e => exact h3
              | panic => exact h3
              | ok defs =>
                simp only at h3 ⊢
                cases s.verWrap needs w2 with
                | err e => exact h3
                | panic => exact h3
                | ok vn =>
                  simp only
                  cases s.verWrap defs w2 with
                  | err e => exact h3
                  | panic => exact h3
                  | ok vd =>
                    simp only
                    cases w2.getBytes vrg.1 vrg.2 <;> exact h3

/-- **`symbol_version_table`**: when the slice parser assembles the version table (or finds there
    is none), so does the stream parser — same `.gnu.version` bytes, same VERNEED/VERDEF bytes and
    record counts, same string-table bytes. -/
theorem symver_refines (s : ElfStream) (f : ElfBytes) (c : Array UInt8) (hs : Sim s f c)
    (o : Option SymbolVersionTable) (h : f.symbolVersionTable = .ok o) :
    ∃ o' s', s.symbolVersionTable = (.ok o', s') ∧ Sim s' f c ∧
      (match o, o' with
       | none, none => True
       | some t, some t' => SymVerSim t' t
       | _, _ => False) := by
  have hsim := symver_sim s f c hs
  unfold ElfBytes.symbolVersionTable at h
  unfold ElfStream.symbolVersionTable at hsim ⊢
  cases hsh : f.shdrs with
  | none =>
    have hnil := hs.sh.none_nil hsh
    simp only [hsh] at h
    injection h with h; subst h
    simp only [hnil, List.isEmpty_nil, if_true] at hsim ⊢
    exact ⟨none, _, rfl, hsim, trivial⟩
  | some t =>
    obtain ⟨hl, _, _, _⟩ := hs.sh.lists t hsh
    simp only [hsh] at h
    have hle : t.len ≤ t.data.len := Nat.div_le_self _ _
    have hscan := hl.verScan s.shdrs.length 0 (t.data.len + 1) none none none (by omega) (by rw [hl.len]; omega)
    rw [Table.iterAt_zero] at hscan
    rw [hscan] at h
    simp only [Out.bind, List.drop_zero] at h
    by_cases hE : s.shdrs.isEmpty = true
    · -- empty Vec: the scan finds nothing
      have hnil : s.shdrs = [] := List.isEmpty_iff.mp hE
      simp only [hnil, ElfStream.verScanList] at h
      injection h with h; subst h
      simp only [hE, if_true] at hsim ⊢
      exact ⟨none, _, rfl, hsim, trivial⟩
    · simp only [hE] at hsim ⊢
      generalize ElfStream.verScanList s.shdrs none none none = sc at h hsim ⊢
      obtain ⟨vs, nd, df⟩ := sc
      simp only at h hsim ⊢
      cases vs with
      | none =>
        simp only at h hsim ⊢
        injection h with h; subst h
        exact ⟨none, _, rfl, hsim, trivial⟩
      | some versym =>
        simp only [hs.data] at h hsim ⊢
        cases hv : VersionIndex.ep.validateEntsize f.ehdr.cls versym.sh_entsize with
        | err e => simp [hv] at h
        | panic => simp [hv] at h
        | ok v =>
          simp only [hv] at h
          cases hrg : dataRange versym.sh_offset versym.sh_size with
          | err e => simp [hrg] at h
          | panic => simp [hrg] at h
          | ok vrg =>
            simp only [hrg] at h
            cases hgb : (Slice.ofArray c).getBytes vrg.1 vrg.2 with
            | err e => simp [hgb] at h
            | panic => simp [hgb] at h
            | ok vbuf =>
              simp only [hgb] at h
              cases hn : f.verRecords t nd with
              | err e => simp [hn] at h
              | panic => simp [hn] at h
              | ok verneeds =>
                simp only [hn] at h
                cases hdf : f.verRecords t df with
                | err e => simp [hdf] at h
                | panic => simp [hdf] at h
                | ok verdefs =>
                  simp only [hdf] at h
                  injection h with h; subst h
                  -- the stream side
                  obtain ⟨r1, l1, inv1, ⟨bv, lkv, sbv⟩, _⟩ := range_load s.reader c hs.rinv _ _ vrg hrg vbuf hgb
                  obtain ⟨lo1, r2, g1, inv2, vl1, mono1⟩ := verLoad_refines s f c hs.data t hl nd r1 inv1 verneeds hn
                  obtain ⟨lo2, r3, g2, inv3, vl2, mono2⟩ := verLoad_refines s f c hs.data t hl df r2 inv2 verdefs hdf
                  obtain ⟨vn', w1, vs1⟩ := verWrap_refines s f hs.ehdr r3 lo1 verneeds (vl1.mono mono2)
                  obtain ⟨vd', w2, vs2⟩ := verWrap_refines s f hs.ehdr r3 lo2 verdefs vl2
                  have lkv' := mono2 _ _ _ (mono1 _ _ _ lkv)
                  simp only [ElfStream.withReader, rbind, rlift, hs.ehdr, hv, hrg] at hsim ⊢
                  rw [l1] at hsim ⊢; simp only at hsim ⊢
                  rw [g1] at hsim ⊢; simp only at hsim ⊢
                  rw [g2] at hsim ⊢; simp only at hsim ⊢
                  rw [w1] at hsim ⊢; simp only at hsim ⊢
                  rw [w2] at hsim ⊢; simp only [CachingReader.getBytes, lkv'] at hsim ⊢
                  exact ⟨_, _, rfl, hsim, ⟨⟨rfl, rfl, rfl, sbv⟩, vs1, vs2⟩⟩

/-! ### any order, any number of times -/

/-- the stream parser's queries -/
inductive Query where
  | sectionData (sh : SectionHeader)
  | strtab (sh : SectionHeader)
  | rels (sh : SectionHeader)
  | relas (sh : SectionHeader)
  | notes (sh : SectionHeader)
  | segmentNotes (ph : ProgramHeader)
  | shstrtab
  | byName (name : Slice)
  | symbolTable
  | dynamicSymbolTable
  | dynamic
  | symbolVersionTable

/-- the state the stream parser is left in by a query (whatever the query's outcome) -/
def Query.after (q : Query) (s : ElfStream) : ElfStream :=
  match q with
  | .sectionData sh => (s.sectionData sh).2
  | .strtab sh => (s.sectionDataAsStrtab sh).2
  | .rels sh => (s.sectionDataAsRels sh).2
  | .relas sh => (s.sectionDataAsRelas sh).2
  | .notes sh => (s.sectionDataAsNotes sh).2
  | .segmentNotes ph => (s.segmentDataAsNotes ph).2
  | .shstrtab => s.sectionHeadersWithStrtab.2
  | .byName name => (s.sectionHeaderByName name).2
  | .symbolTable => s.symbolTable.2
  | .dynamicSymbolTable => s.dynamicSymbolTable.2
  | .dynamic => s.dynamic.2
  | .symbolVersionTable => s.symbolVersionTable.2

theorem Query.after_sim (q : Query) (s : ElfStream) (f : ElfBytes) (c : Array UInt8) (hs : Sim s f c) :
    Sim (q.after s) f c := by
  cases q with
  | sectionData sh => exact sectionData_sim s f c hs sh
  | strtab sh => exact typedRange_sim s f c hs sh _
  | rels sh =>
    have := typedRange_sim s f c hs sh Abi.SHT_REL
    simp only [Query.after, ElfStream.sectionDataAsRels]
    generalize s.typedRange sh Abi.SHT_REL = q at this
    obtain ⟨q1, q2⟩ := q
    cases q1 <;> exact this
  | relas sh =>
    have := typedRange_sim s f c hs sh Abi.SHT_RELA
    simp only [Query.after, ElfStream.sectionDataAsRelas]
    generalize s.typedRange sh Abi.SHT_RELA = q at this
    obtain ⟨q1, q2⟩ := q
    cases q1 <;> exact this
  | notes sh =>
    have := typedRange_sim s f c hs sh Abi.SHT_NOTE
    simp only [Query.after, ElfStream.sectionDataAsNotes]
    generalize s.typedRange sh Abi.SHT_NOTE = q at this
    obtain ⟨q1, q2⟩ := q
    cases q1 <;> exact this
  | segmentNotes ph => exact segmentNotes_sim s f c hs ph
  | shstrtab => exact strtabLookup_sim s f c hs
  | byName name =>
    have := strtabLookup_sim s f c hs
    simp only [Query.after, ElfStream.sectionHeaderByName]
    generalize s.sectionHeadersWithStrtab = q at this
    obtain ⟨q1, q2⟩ := q
    cases q1 with
    | ok o => cases o <;> exact this
    | err e => exact this
    | panic => exact this
  | symbolTable => exact symtab_sim s f c hs _
  | dynamicSymbolTable => exact symtab_sim s f c hs _
  | dynamic => exact dynamic_sim s f c hs
  | symbolVersionTable => exact symver_sim s f c hs

/-- **The simulation survives every history of queries** — any order, any repetition, whatever
    each query's outcome.  Since every `*_refines` theorem needs only `Sim`, each of them holds in
    every state reachable from `open_stream`. -/
theorem history_sim (qs : List Query) (s : ElfStream) (f : ElfBytes) (c : Array UInt8) (hs : Sim s f c) :
    Sim (qs.foldl (fun s q => q.after s) s) f c := by
  induction qs generalizing s with
  | nil => exact hs
  | cons q qs ih => exact ih _ (q.after_sim s f c hs)

end Elf
