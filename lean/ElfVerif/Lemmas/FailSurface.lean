/-
  Lemmas/FailSurface.lean — every I/O failure surfaces as an error: if `open_stream` or a query
  returns `Ok`, then none of the I/O calls it made failed and no read hit a premature end of file.
  Stated over the fault schedule: the schedule entries consumed by a successful operation contain no
  `fail`, and no `eof` consumed by a read.
-/
import ElfVerif.Lemmas.ReaderInv
namespace Elf

/-- `d'` is `d` after some I/O calls none of which failed: the consumed schedule entries (tagged
    with "consumed by a read") contain no `fail`, and no `eof` on a read. -/
def Clean (d d' : Device) : Prop :=
  ∃ used : List (Fault × Bool), d.sched = used.map (·.1) ++ d'.sched ∧
    ∀ x, x ∈ used → x.1 ≠ .fail ∧ (x.2 = true → x.1 ≠ .eof)

theorem Clean.refl (d : Device) : Clean d d := ⟨[], by simp, fun x hx => by cases hx⟩

theorem Clean.of_sched {d d' : Device} (h : d'.sched = d.sched) : Clean d d' :=
  ⟨[], by simp [h], fun x hx => by cases hx⟩

theorem Clean.trans {a b c : Device} (h1 : Clean a b) (h2 : Clean b c) : Clean a c := by
  obtain ⟨u1, e1, p1⟩ := h1
  obtain ⟨u2, e2, p2⟩ := h2
  refine ⟨u1 ++ u2, by rw [e1, e2]; simp, fun x hx => ?_⟩
  rcases List.mem_append.mp hx with h | h
  · exact p1 x h
  · exact p2 x h

/-- one consumed entry -/
theorem Clean.next (d : Device) (isRead : Bool) (hf : d.nextFault.1 ≠ .fail)
    (he : isRead = true → d.nextFault.1 ≠ .eof) : Clean d d.nextFault.2 := by
  cases hs : d.sched with
  | nil =>
    have : d.nextFault = (.none, d) := by unfold Device.nextFault; rw [hs]
    rw [this]; exact Clean.refl d
  | cons f rest =>
    have : d.nextFault = (f, { d with sched := rest }) := by unfold Device.nextFault; rw [hs]
    rw [this] at hf he ⊢
    exact ⟨[(f, isRead)], by simp [hs], fun x hx => by
      have : x = (f, isRead) := by simpa using hx
      subst this; exact ⟨hf, he⟩⟩

theorem seekTo_ok_clean (d : Device) (p : Nat) (h : (d.seekTo p).1 = .ok ()) : Clean d (d.seekTo p).2 := by
  unfold Device.seekTo at *
  generalize hq : d.nextFault = q at *
  obtain ⟨f, d1⟩ := q
  have hf : f ≠ .fail := by
    intro hh; subst hh; simp at h
  have hc : Clean d d1 := by
    have := Clean.next d false (by rw [hq]; exact hf) (by simp)
    rw [hq] at this; exact this
  simp only
  cases f <;> first | exact absurd rfl hf | exact hc.trans (Clean.of_sched rfl)

theorem seekEnd_ok_clean (d : Device) (n : Nat) (h : d.seekEnd.1 = .ok n) : Clean d d.seekEnd.2 := by
  unfold Device.seekEnd at *
  generalize hq : d.nextFault = q at *
  obtain ⟨f, d1⟩ := q
  have hf : f ≠ .fail := by
    intro hh; subst hh; simp at h
  have hc : Clean d d1 := by
    have := Clean.next d false (by rw [hq]; exact hf) (by simp)
    rw [hq] at this; exact this
  simp only
  cases f <;> first | exact absurd rfl hf | exact hc.trans (Clean.of_sched rfl)

/-- a read that delivers bytes, or is interrupted, consumed a harmless entry -/
theorem read_clean (d : Device) (want : Nat) :
    (∀ k d', d.read want = (.got k, d') → k ≠ 0 → Clean d d') ∧
    (∀ d', d.read want = (.interrupted, d') → Clean d d') := by
  unfold Device.read
  generalize hq : d.nextFault = q
  obtain ⟨f, d1⟩ := q
  have hc : f ≠ .fail → f ≠ .eof → Clean d d1 := by
    intro h1 h2
    have := Clean.next d true (by rw [hq]; exact h1) (by rw [hq]; intro _; exact h2)
    rw [hq] at this; exact this
  simp only
  cases f with
  | none =>
    refine ⟨fun k d' h _ => ?_, fun d' h => by simp at h⟩
    simp only [Prod.mk.injEq] at h; obtain ⟨_, h2⟩ := h; subst h2
    exact (hc (by simp) (by simp)).trans (Clean.of_sched rfl)
  | short j =>
    refine ⟨fun k d' h _ => ?_, fun d' h => by simp at h⟩
    simp only [Prod.mk.injEq] at h; obtain ⟨_, h2⟩ := h; subst h2
    exact (hc (by simp) (by simp)).trans (Clean.of_sched rfl)
  | eof =>
    refine ⟨fun k d' h hk => ?_, fun d' h => by simp at h⟩
    simp only [Prod.mk.injEq, Device.ReadRes.got.injEq] at h
    exact absurd h.1.symm hk
  | interrupted =>
    refine ⟨fun k d' h _ => by simp at h, fun d' h => ?_⟩
    simp only [Prod.mk.injEq, true_and] at h; subst h
    exact (hc (by simp) (by simp)).trans (Clean.of_sched rfl)
  | fail =>
    exact ⟨fun k d' h _ => by simp at h, fun d' h => by simp at h⟩

theorem readExact_ok_clean (fuel : Nat) (d : Device) (n : Nat) (h : (Device.readExact fuel d n).1 = .ok ()) :
    Clean d (Device.readExact fuel d n).2 := by
  induction fuel generalizing d n with
  | zero =>
    unfold Device.readExact at h ⊢
    split
    · exact Clean.refl d
    · rename_i hn; simp [hn] at h
  | succ fuel ih =>
    unfold Device.readExact at h ⊢
    by_cases hn : n = 0
    · simp only [hn, if_true]; exact Clean.refl d
    · simp only [hn, if_false] at h ⊢
      obtain ⟨hg, hi⟩ := read_clean d n
      generalize hq : d.read n = q at *
      obtain ⟨res, d'⟩ := q
      cases res with
      | got k =>
        cases k with
        | zero => simp at h
        | succ k =>
          simp only at h ⊢
          exact (hg (k + 1) d' rfl (by omega)).trans (ih d' _ h)
      | interrupted =>
        simp only at h ⊢
        exact (hi d' rfl).trans (ih d' _ h)
      | error => simp at h

/-- **`load_bytes` returning `Ok` made no failing I/O call.** -/
theorem loadBytes_ok_clean (r : CachingReader) (s e : Nat) (h : (r.loadBytes s e).1 = .ok ()) :
    Clean r.dev (r.loadBytes s e).2.dev := by
  unfold CachingReader.loadBytes at *
  split
  · exact Clean.refl _
  · split
    · rename_i h1 h2; simp [h1, h2] at h
    · rename_i h1 h2
      simp only [h1, h2, if_false] at h
      have hsk := seekTo_ok_clean r.dev s
      generalize hq : r.dev.seekTo s = q at *
      obtain ⟨q1, d⟩ := q
      cases q1 with
      | err er => simp at h
      | panic => simp at h
      | ok u =>
        simp only at h ⊢
        have hs := hsk rfl
        have hre := readExact_ok_clean (e - s + d.sched.length + 1) { d with trace := d.trace ++ [.alloc (e - s)] } (e - s)
        generalize hp : Device.readExact (e - s + d.sched.length + 1) { d with trace := d.trace ++ [.alloc (e - s)] } (e - s) = p at *
        obtain ⟨p1, d'⟩ := p
        cases p1 with
        | err er => simp at h
        | panic => simp at h
        | ok u2 =>
          simp only at h ⊢
          exact (hs.trans (Clean.of_sched rfl)).trans ((hre rfl).trans (Clean.of_sched rfl))

theorem readBytes_ok_clean (r : CachingReader) (s e : Nat) (b : Slice) (h : (r.readBytes s e).1 = .ok b) :
    Clean r.dev (r.readBytes s e).2.dev := by
  have hl := loadBytes_ok_clean r s e
  unfold CachingReader.readBytes at *
  generalize r.loadBytes s e = q at *
  obtain ⟨q1, q2⟩ := q
  cases q1 with
  | ok u => exact hl rfl
  | err er => simp at h
  | panic => simp at h

/-! ## Combinators -/

/-- a reader computation that, when it returns `Ok`, has only made non-failing I/O calls since `d0` -/
def OkC {α} (d0 : Device) (x : Out α × CachingReader) : Prop := x.1.isOk = true → Clean d0 x.2.dev

theorem OkC.rbind {α β} {d0 : Device} {x : Out α × CachingReader} {f : α → CachingReader → Out β × CachingReader}
    (hx : OkC d0 x) (hf : ∀ a r, Clean d0 r.dev → OkC d0 (f a r)) : OkC d0 (rbind x f) := by
  obtain ⟨x1, x2⟩ := x
  cases x1 with
  | ok a => exact hf a x2 (hx rfl)
  | err e => intro h; simp [_root_.Elf.rbind, Out.isOk] at h
  | panic => intro h; simp [_root_.Elf.rbind, Out.isOk] at h

theorem OkC.rlift {α} {d0 : Device} (v : Out α) (r : CachingReader) (h : Clean d0 r.dev) : OkC d0 (rlift v r) :=
  fun _ => h

theorem OkC.pure {α} {d0 : Device} (v : Out α) (r : CachingReader) (h : Clean d0 r.dev) : OkC d0 (v, r) :=
  fun _ => h

theorem OkC.load {d0 : Device} (r : CachingReader) (s e : Nat) (h : Clean d0 r.dev) : OkC d0 (r.loadBytes s e) := by
  intro hok
  have : (r.loadBytes s e).1 = .ok () := by
    cases hq : (r.loadBytes s e).1 with
    | ok u => rfl
    | err er => rw [hq] at hok; simp [Out.isOk] at hok
    | panic => rw [hq] at hok; simp [Out.isOk] at hok
  exact h.trans (loadBytes_ok_clean r s e this)

theorem OkC.read {d0 : Device} (r : CachingReader) (s e : Nat) (h : Clean d0 r.dev) : OkC d0 (r.readBytes s e) := by
  intro hok
  cases hq : (r.readBytes s e).1 with
  | ok b => exact h.trans (readBytes_ok_clean r s e b hq)
  | err er => rw [hq] at hok; simp [Out.isOk] at hok
  | panic => rw [hq] at hok; simp [Out.isOk] at hok

theorem OkC.err {α} {d0 : Device} (e : Err) (r : CachingReader) : OkC (α := α) d0 (.err e, r) := by
  intro h; simp [Out.isOk] at h

theorem OkC.panic {α} {d0 : Device} (r : CachingReader) : OkC (α := α) d0 (.panic, r) := by
  intro h; simp [Out.isOk] at h

/-! ## Queries -/

/-- a query that, when it returns `Ok`, has only made non-failing I/O calls -/
def OkS {α} (s : ElfStream) (x : ElfStream.Res α) : Prop := x.1.isOk = true → Clean s.reader.dev x.2.reader.dev

theorem OkS.same {α} (s : ElfStream) (v : Out α) : OkS s (v, s) := fun _ => Clean.refl _

theorem OkS.withReader {α} (s : ElfStream) (x : Out α × CachingReader) (h : OkC s.reader.dev x) :
    OkS s (s.withReader x) := h

theorem sectionData_okS (s : ElfStream) (sh : SectionHeader) : OkS s (s.sectionData sh) := by
  rw [sectionData_eq]
  split
  · exact OkS.same s _
  · split
    · exact OkS.same s _
    · exact OkS.same s _
    · exact OkS.withReader s _ (OkC.rbind (OkC.read _ _ _ (Clean.refl _)) fun a r h => OkC.pure _ _ h)

theorem typedRange_okS (s : ElfStream) (sh : SectionHeader) (want : Nat) : OkS s (s.typedRange sh want) := by
  unfold ElfStream.typedRange
  split
  · exact OkS.same s _
  · split
    · exact OkS.same s _
    · exact OkS.same s _
    · exact OkS.withReader s _ (OkC.read _ _ _ (Clean.refl _))

theorem rels_okS (s : ElfStream) (sh : SectionHeader) : OkS s (s.sectionDataAsRels sh) := by
  have := typedRange_okS s sh Abi.SHT_REL
  unfold ElfStream.sectionDataAsRels
  generalize s.typedRange sh Abi.SHT_REL = q at this
  obtain ⟨q1, q2⟩ := q
  cases q1 with
  | ok b => exact fun _ => this rfl
  | err e => intro h; simp [Out.isOk] at h
  | panic => intro h; simp [Out.isOk] at h

theorem relas_okS (s : ElfStream) (sh : SectionHeader) : OkS s (s.sectionDataAsRelas sh) := by
  have := typedRange_okS s sh Abi.SHT_RELA
  unfold ElfStream.sectionDataAsRelas
  generalize s.typedRange sh Abi.SHT_RELA = q at this
  obtain ⟨q1, q2⟩ := q
  cases q1 with
  | ok b => exact fun _ => this rfl
  | err e => intro h; simp [Out.isOk] at h
  | panic => intro h; simp [Out.isOk] at h

theorem notes_okS (s : ElfStream) (sh : SectionHeader) : OkS s (s.sectionDataAsNotes sh) := by
  have := typedRange_okS s sh Abi.SHT_NOTE
  unfold ElfStream.sectionDataAsNotes
  generalize s.typedRange sh Abi.SHT_NOTE = q at this
  obtain ⟨q1, q2⟩ := q
  cases q1 with
  | ok b => exact fun _ => this rfl
  | err e => intro h; simp [Out.isOk] at h
  | panic => intro h; simp [Out.isOk] at h

theorem segmentNotes_okS (s : ElfStream) (ph : ProgramHeader) : OkS s (s.segmentDataAsNotes ph) := by
  unfold ElfStream.segmentDataAsNotes
  split
  · exact OkS.same s _
  · split
    · exact OkS.same s _
    · exact OkS.same s _
    · exact OkS.withReader s _ (OkC.rbind (OkC.read _ _ _ (Clean.refl _)) fun a r h => OkC.pure _ _ h)

theorem strtabAt_okS (s : ElfStream) (idx : Nat) : OkS s (s.strtabAt idx) := by
  unfold ElfStream.strtabAt
  split
  · exact OkS.same s _
  · split
    · exact OkS.same s _
    · exact OkS.same s _
    · exact OkS.withReader s _ (OkC.rbind (OkC.read _ _ _ (Clean.refl _)) fun a r h => OkC.pure _ _ h)

theorem shstrtab_okS (s : ElfStream) : OkS s s.sectionHeadersWithStrtab := by
  unfold ElfStream.sectionHeadersWithStrtab
  split
  · exact OkS.same s _
  · split
    · exact OkS.same s _
    · split
      · split
        · exact strtabAt_okS s _
        · exact OkS.same s _
      · exact strtabAt_okS s _

theorem byName_okS (s : ElfStream) (name : Slice) : OkS s (s.sectionHeaderByName name) := by
  have := shstrtab_okS s
  unfold ElfStream.sectionHeaderByName
  generalize s.sectionHeadersWithStrtab = q at this
  obtain ⟨q1, q2⟩ := q
  cases q1 with
  | ok o => cases o <;> exact fun _ => this rfl
  | err e => intro h; simp [Out.isOk] at h
  | panic => intro h; simp [Out.isOk] at h

theorem dynamic_okS (s : ElfStream) : OkS s s.dynamic := by
  unfold ElfStream.dynamic
  split
  · split
    · split
      · exact OkS.same s _
      · exact OkS.same s _
      · exact OkS.withReader s _ (OkC.rbind (OkC.read _ _ _ (Clean.refl _)) fun a r h => OkC.pure _ _ h)
    · exact OkS.same s _
  · split
    · split
      · split
        · exact OkS.same s _
        · exact OkS.same s _
        · exact OkS.withReader s _ (OkC.rbind (OkC.read _ _ _ (Clean.refl _)) fun a r h => OkC.pure _ _ h)
      · exact OkS.same s _
    · exact OkS.same s _

theorem symtab_okS (s : ElfStream) (ty : Nat) : OkS s (s.symbolTableOfType ty) := by
  unfold ElfStream.symbolTableOfType
  split
  · exact OkS.same s _
  · split
    · exact OkS.same s _
    · split
      · exact OkS.same s _
      · exact OkS.same s _
      · apply OkS.withReader
        refine OkC.rbind (OkC.load _ _ _ (Clean.refl _)) fun _ r h => ?_
        split
        · exact OkC.err _ _
        · split
          · exact OkC.err _ _
          · exact OkC.panic _
          · refine OkC.rbind (OkC.load _ _ _ h) fun _ r h => ?_
            refine OkC.rbind (OkC.rlift _ _ h) fun _ r h => ?_
            refine OkC.rbind (OkC.rlift _ _ h) fun _ r h => ?_
            refine OkC.rbind (OkC.rlift _ _ h) fun _ r h => ?_
            exact OkC.pure _ _ h

theorem verLoad_okC (s : ElfStream) (o : Option SectionHeader) (d0 : Device) (r : CachingReader)
    (h : Clean d0 r.dev) : OkC d0 (s.verLoad o r) := by
  unfold ElfStream.verLoad
  cases o with
  | none => exact OkC.pure _ _ h
  | some shdr =>
    simp only
    refine OkC.rbind (OkC.rlift _ _ h) fun rg r h => ?_
    refine OkC.rbind (OkC.load _ _ _ h) fun _ r h => ?_
    split
    · exact OkC.err _ _
    · refine OkC.rbind (OkC.rlift _ _ h) fun srg r h => ?_
      refine OkC.rbind (OkC.load _ _ _ h) fun _ r h => ?_
      exact OkC.pure _ _ h

theorem symver_okS (s : ElfStream) : OkS s s.symbolVersionTable := by
  unfold ElfStream.symbolVersionTable
  split
  · exact OkS.same s _
  · generalize ElfStream.verScanList s.shdrs none none none = sc
    obtain ⟨vs, nd, df⟩ := sc
    simp only
    cases vs with
    | none => exact OkS.same s _
    | some versym =>
      simp only
      apply OkS.withReader
      refine OkC.rbind (OkC.rlift _ _ (Clean.refl _)) fun _ r h => ?_
      refine OkC.rbind (OkC.rlift _ _ h) fun vrg r h => ?_
      refine OkC.rbind (OkC.load _ _ _ h) fun _ r h => ?_
      refine OkC.rbind (verLoad_okC s nd _ r h) fun needs r h => ?_
      refine OkC.rbind (verLoad_okC s df _ r h) fun defs r h => ?_
      refine OkC.rbind (OkC.rlift _ _ h) fun _ r h => ?_
      refine OkC.rbind (OkC.rlift _ _ h) fun _ r h => ?_
      refine OkC.rbind (OkC.rlift _ _ h) fun _ r h => ?_
      exact OkC.pure _ _ h

/-- did the query return `Ok`? -/
def Query.isOk (q : Query) (s : ElfStream) : Bool :=
  match q with
  | .sectionData sh => (s.sectionData sh).1.isOk
  | .strtab sh => (s.sectionDataAsStrtab sh).1.isOk
  | .rels sh => (s.sectionDataAsRels sh).1.isOk
  | .relas sh => (s.sectionDataAsRelas sh).1.isOk
  | .notes sh => (s.sectionDataAsNotes sh).1.isOk
  | .segmentNotes ph => (s.segmentDataAsNotes ph).1.isOk
  | .shstrtab => s.sectionHeadersWithStrtab.1.isOk
  | .byName name => (s.sectionHeaderByName name).1.isOk
  | .symbolTable => s.symbolTable.1.isOk
  | .dynamicSymbolTable => s.dynamicSymbolTable.1.isOk
  | .dynamic => s.dynamic.1.isOk
  | .symbolVersionTable => s.symbolVersionTable.1.isOk

/-- **Every query that returns `Ok` made no failing I/O call**: the schedule entries it consumed
    contain no `fail` and no `eof` on a read — in any state, under any schedule. -/
theorem Query.ok_clean (q : Query) (s : ElfStream) (h : q.isOk s = true) :
    Clean s.reader.dev (q.after s).reader.dev := by
  cases q with
  | sectionData sh => exact sectionData_okS s sh h
  | strtab sh => exact typedRange_okS s sh _ h
  | rels sh => exact rels_okS s sh h
  | relas sh => exact relas_okS s sh h
  | notes sh => exact notes_okS s sh h
  | segmentNotes ph => exact segmentNotes_okS s ph h
  | shstrtab => exact shstrtab_okS s h
  | byName name => exact byName_okS s name h
  | symbolTable => exact symtab_okS s _ h
  | dynamicSymbolTable => exact symtab_okS s _ h
  | dynamic => exact dynamic_okS s h
  | symbolVersionTable => exact symver_okS s h

/-! ## Opening -/

theorem streamShdr0_okC (h : FileHeader) (size : Nat) (proj : SectionHeader → Nat) (d0 : Device) (r : CachingReader)
    (hc : Clean d0 r.dev) : OkC d0 (streamShdr0 h size proj r) := by
  unfold streamShdr0
  refine OkC.rbind (OkC.rlift _ _ hc) fun _ r hc => ?_
  refine OkC.rbind (OkC.read _ _ _ hc) fun data r hc => ?_
  split
  · exact OkC.pure _ _ hc
  · exact OkC.err _ _
  · exact OkC.panic _

theorem streamTable_okC {α} (mk : Slice → Table α) (off entsize n : Nat) (d0 : Device) (r : CachingReader)
    (hc : Clean d0 r.dev) : OkC d0 (streamTable mk off entsize n r) := by
  unfold streamTable
  refine OkC.rbind (OkC.rlift _ _ hc) fun _ r hc => ?_
  refine OkC.rbind (OkC.rlift _ _ hc) fun _ r hc => ?_
  refine OkC.rbind (OkC.read _ _ _ hc) fun _ r hc => ?_
  exact OkC.pure _ _ hc

theorem parseSectionHeaders_okC (h : FileHeader) (d0 : Device) (r : CachingReader)
    (hc : Clean d0 r.dev) : OkC d0 (parseSectionHeaders h r) := by
  unfold parseSectionHeaders
  split
  · exact OkC.pure _ _ hc
  · refine OkC.rbind (OkC.rlift _ _ hc) fun entsize r hc => ?_
    refine OkC.rbind ?_ fun shnum r hc => streamTable_okC _ _ _ _ _ r hc
    split
    · exact streamShdr0_okC _ _ _ _ r hc
    · exact OkC.pure _ _ hc

theorem parseProgramHeaders_okC (h : FileHeader) (d0 : Device) (r : CachingReader)
    (hc : Clean d0 r.dev) : OkC d0 (parseProgramHeaders h r) := by
  unfold parseProgramHeaders
  split
  · exact OkC.pure _ _ hc
  · refine OkC.rbind ?_ fun phnum r hc => ?_
    · split
      · exact streamShdr0_okC _ _ _ _ r hc
      · exact OkC.pure _ _ hc
    · refine OkC.rbind (OkC.rlift _ _ hc) fun entsize r hc => ?_
      exact streamTable_okC _ _ _ _ _ r hc

/-- general form: a post-condition on the value and reader of an `Ok` outcome -/
def OkQ {α} (Q : α → CachingReader → Prop) (x : Out α × CachingReader) : Prop := ∀ v, x.1 = .ok v → Q v x.2

theorem OkQ.rbind {α β} {Q1 : α → CachingReader → Prop} {Q : β → CachingReader → Prop}
    {x : Out α × CachingReader} {f : α → CachingReader → Out β × CachingReader}
    (hx : OkQ Q1 x) (hf : ∀ a r, Q1 a r → OkQ Q (f a r)) : OkQ Q (rbind x f) := by
  obtain ⟨x1, x2⟩ := x
  cases x1 with
  | ok a => exact hf a x2 (hx a rfl)
  | err e => intro v h; simp [_root_.Elf.rbind] at h
  | panic => intro v h; simp [_root_.Elf.rbind] at h

theorem OkC.toQ {α} {d0 : Device} {x : Out α × CachingReader} (h : OkC d0 x) :
    OkQ (fun _ r => Clean d0 r.dev) x := fun v hv => h (by rw [hv]; rfl)

/-- **`open_stream` returning `Ok` made no failing I/O call.** -/
theorem openStream_ok_clean (sp : Spec) (dev : Device) (s : ElfStream) (d : Device)
    (h : openStream sp dev = (.ok s, d)) : Clean dev s.reader.dev := by
  unfold openStream at h
  unfold CachingReader.new at h
  have hse := seekEnd_ok_clean dev
  generalize hq : dev.seekEnd = q at *
  obtain ⟨q1, d1⟩ := q
  cases q1 with
  | err e => simp at h
  | panic => simp at h
  | ok n =>
    simp only at h
    have h0 : Clean dev d1 := hse n rfl
    have key : OkQ (fun (s : ElfStream) r => Clean dev r.dev ∧ s.reader = r)
      (rbind ((⟨d1, n, []⟩ : CachingReader).readBytes 0 Abi.EI_NIDENT) fun identBuf r =>
        rbind (rlift (parseIdent sp identBuf) r) fun ident r =>
        rbind (rlift (uadd Abi.EI_NIDENT (Gen.size_FileHeaderTail ident.2.1)) r) fun tailEnd r =>
        rbind (r.readBytes Abi.EI_NIDENT tailEnd) fun tailBuf r =>
        rbind (rlift (parseTail ident tailBuf) r) fun ehdr r =>
        rbind (parseSectionHeaders ehdr r) fun shdrs r =>
        rbind (parseProgramHeaders ehdr r) fun phdrs r =>
        ((.ok ⟨ehdr, shdrs, phdrs, r.clearCache⟩ : Out ElfStream), r.clearCache)) := by
      refine OkQ.rbind (OkC.read _ _ _ h0).toQ fun _ r hc => ?_
      refine OkQ.rbind (OkC.rlift _ _ hc).toQ fun _ r hc => ?_
      refine OkQ.rbind (OkC.rlift _ _ hc).toQ fun _ r hc => ?_
      refine OkQ.rbind (OkC.read _ _ _ hc).toQ fun _ r hc => ?_
      refine OkQ.rbind (OkC.rlift _ _ hc).toQ fun _ r hc => ?_
      refine OkQ.rbind (parseSectionHeaders_okC _ _ r hc).toQ fun _ r hc => ?_
      refine OkQ.rbind (parseProgramHeaders_okC _ _ r hc).toQ fun _ r hc => ?_
      intro v hv
      simp only [Out.ok.injEq] at hv
      subst hv
      exact ⟨hc, rfl⟩
    injection h with h1 _
    obtain ⟨hc, hr⟩ := key s h1
    rw [hr]; exact hc

end Elf
