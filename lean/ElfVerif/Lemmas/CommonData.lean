/-
  Lemmas/CommonData.lean — `find_common_data` as a fold over the list of section headers, and what
  each field of its result is: the value computed from the *last* header of its kind.
-/
import ElfVerif.Lemmas.TableList
namespace Elf
open C09

def foldOut {α β} (step : β → α → Out β) : β → List α → Out β
  | acc, [] => .ok acc
  | acc, x :: xs => (step acc x).bind fun acc' => foldOut step acc' xs

theorem commonScan_list (f : ElfBytes) {t : Table SectionHeader} {l : List SectionHeader} (hl : Lists t l)
    (n k fuel : Nat) (acc : ElfBytes.CommonElfData) (hk : k + n = l.length) (hf : n < fuel) :
    f.commonScan t fuel (t.iterAt k) acc = foldOut (f.commonStep t) acc (l.drop k) := by
  induction n generalizing k fuel acc with
  | zero =>
    cases fuel with
    | zero => omega
    | succ fuel =>
      have : k = l.length := by omega
      subst this
      obtain ⟨it', hs⟩ := hl.stop
      unfold ElfBytes.commonScan; rw [hs]; simp [foldOut]
  | succ n ih =>
    cases fuel with
    | zero => omega
    | succ fuel =>
      have hkl : k < l.length := by omega
      unfold ElfBytes.commonScan
      rw [hl.step k hkl, List.drop_eq_getElem_cons hkl]
      simp only [foldOut]
      congr 1
      funext acc'
      exact ih (k + 1) fuel acc' (by omega) (by omega)

/-- the last header of type `K` in list order -/
def lastOfType (K : Nat) : List SectionHeader → Option SectionHeader
  | [] => none
  | x :: xs =>
    match lastOfType K xs with
    | some y => some y
    | none => if x.sh_type = K then some x else none

/-- with at most one header of type `K`, the last one is the first one -/
theorem lastOfType_eq_find (K : Nat) (l : List SectionHeader)
    (hu : (l.filter fun sh => sh.sh_type == K).length ≤ 1) :
    lastOfType K l = l.find? (fun sh => sh.sh_type == K) := by
  induction l with
  | nil => rfl
  | cons x xs ih =>
    simp only [lastOfType, List.find?_cons]
    by_cases hx : x.sh_type = K
    · have hb : (x.sh_type == K) = true := by simp [hx]
      simp only [List.filter_cons, hb, if_true, List.length_cons] at hu
      have hnone : (xs.filter fun sh => sh.sh_type == K) = [] := by
        cases hq : xs.filter (fun sh => sh.sh_type == K) with
        | nil => rfl
        | cons a b => rw [hq] at hu; simp at hu
      have hfind : xs.find? (fun sh => sh.sh_type == K) = none := by
        rw [List.find?_eq_none]
        intro y hy hp
        have : y ∈ xs.filter (fun sh => sh.sh_type == K) := List.mem_filter.mpr ⟨hy, hp⟩
        rw [hnone] at this; cases this
      have := ih (by rw [hnone]; simp)
      rw [this, hfind]; simp [hb, hx]
    · have hb : (x.sh_type == K) = false := by simp [hx]
      simp only [List.filter_cons, hb, Bool.false_eq_true, if_false] at hu
      rw [ih hu]
      simp only [hb, hx, if_false]
      cases xs.find? (fun sh => sh.sh_type == K) <;> rfl

/-- **Generic field lemma**: a field that only headers of type `K` write holds, after the fold,
    the value computed from the last header of type `K` (or its initial value). -/
theorem fold_field {γ} (f : ElfBytes) (t : Table SectionHeader) (π : ElfBytes.CommonElfData → γ) (K : Nat)
    (V : SectionHeader → γ → Prop)
    (hstep : ∀ acc x acc', f.commonStep t acc x = .ok acc' →
      (x.sh_type = K → V x (π acc')) ∧ (x.sh_type ≠ K → π acc' = π acc))
    (l : List SectionHeader) (acc cd : ElfBytes.CommonElfData)
    (h : foldOut (f.commonStep t) acc l = .ok cd) :
    match lastOfType K l with
    | none => π cd = π acc
    | some sh => V sh (π cd) := by
  induction l generalizing acc with
  | nil =>
    simp only [foldOut] at h; injection h with h; subst h
    simp [lastOfType]
  | cons x xs ih =>
    simp only [foldOut, Out.bind] at h
    cases hs : f.commonStep t acc x with
    | err e => simp [hs] at h
    | panic => simp [hs] at h
    | ok acc' =>
      simp only [hs] at h
      have := ih acc' h
      obtain ⟨h1, h2⟩ := hstep acc x acc' hs
      simp only [lastOfType]
      cases hlast : lastOfType K xs with
      | some y => simp only [hlast] at this ⊢; exact this
      | none =>
        simp only [hlast] at this ⊢
        by_cases hx : x.sh_type = K
        · simp only [hx, if_true]; rw [this]; exact h1 hx
        · simp only [hx, if_false]; rw [this]; exact h2 hx

/-! ### the five fields -/

theorem step_symtab (f : ElfBytes) (t : Table SectionHeader) (acc : ElfBytes.CommonElfData)
    (x : SectionHeader) (acc' : ElfBytes.CommonElfData) (h : f.commonStep t acc x = .ok acc') :
    (x.sh_type = Abi.SHT_SYMTAB →
      ∃ strShdr r, t.get x.sh_link = .ok strShdr ∧ f.sectionDataAsSymbolTable x strShdr = .ok r ∧
        (acc'.symtab, acc'.symtabStrs) = (some r.1, some r.2)) ∧
    (x.sh_type ≠ Abi.SHT_SYMTAB → (acc'.symtab, acc'.symtabStrs) = (acc.symtab, acc.symtabStrs)) := by
  unfold ElfBytes.commonStep at h
  constructor
  · intro hx
    rw [if_pos hx] at h
    simp only [Out.bind] at h
    cases hg : t.get x.sh_link with
    | err e => simp [hg] at h
    | panic => simp [hg] at h
    | ok strShdr =>
      simp only [hg] at h
      cases hr : f.sectionDataAsSymbolTable x strShdr with
      | err e => simp [hr] at h
      | panic => simp [hr] at h
      | ok r =>
        simp only [hr] at h
        injection h with h; subst h
        exact ⟨strShdr, r, rfl, hr, rfl⟩
  · intro hx
    simp only [hx, if_false] at h
    repeat' split at h
    all_goals
      try simp only [Out.bind] at h
      repeat' split at h
      all_goals first | (injection h with h; subst h; rfl) | cases h

theorem step_dynsym (f : ElfBytes) (t : Table SectionHeader) (acc : ElfBytes.CommonElfData)
    (x : SectionHeader) (acc' : ElfBytes.CommonElfData) (h : f.commonStep t acc x = .ok acc') :
    (x.sh_type = Abi.SHT_DYNSYM →
      ∃ strShdr r, t.get x.sh_link = .ok strShdr ∧ f.sectionDataAsSymbolTable x strShdr = .ok r ∧
        (acc'.dynsyms, acc'.dynsymsStrs) = (some r.1, some r.2)) ∧
    (x.sh_type ≠ Abi.SHT_DYNSYM → (acc'.dynsyms, acc'.dynsymsStrs) = (acc.dynsyms, acc.dynsymsStrs)) := by
  unfold ElfBytes.commonStep at h
  constructor
  · intro hx
    have hne : ¬ x.sh_type = Abi.SHT_SYMTAB := by rw [hx]; decide
    rw [if_neg hne, if_pos hx] at h
    simp only [Out.bind] at h
    cases hg : t.get x.sh_link with
    | err e => simp [hg] at h
    | panic => simp [hg] at h
    | ok strShdr =>
      simp only [hg] at h
      cases hr : f.sectionDataAsSymbolTable x strShdr with
      | err e => simp [hr] at h
      | panic => simp [hr] at h
      | ok r =>
        simp only [hr] at h
        injection h with h; subst h
        exact ⟨strShdr, r, rfl, hr, rfl⟩
  · intro hx
    simp only [hx, if_false] at h
    repeat' split at h
    all_goals
      try simp only [Out.bind] at h
      repeat' split at h
      all_goals first | (injection h with h; subst h; rfl) | cases h

theorem step_dynamic (f : ElfBytes) (t : Table SectionHeader) (acc : ElfBytes.CommonElfData)
    (x : SectionHeader) (acc' : ElfBytes.CommonElfData) (h : f.commonStep t acc x = .ok acc') :
    (x.sh_type = Abi.SHT_DYNAMIC → ∃ d, f.sectionDataAsDynamic x = .ok d ∧ acc'.dynamic = some d) ∧
    (x.sh_type ≠ Abi.SHT_DYNAMIC → acc'.dynamic = acc.dynamic) := by
  unfold ElfBytes.commonStep at h
  constructor
  · intro hx
    have hne1 : ¬ x.sh_type = Abi.SHT_SYMTAB := by rw [hx]; decide
    have hne2 : ¬ x.sh_type = Abi.SHT_DYNSYM := by rw [hx]; decide
    rw [if_neg hne1, if_neg hne2, if_pos hx] at h
    simp only [Out.bind] at h
    cases hr : f.sectionDataAsDynamic x with
    | err e => simp [hr] at h
    | panic => simp [hr] at h
    | ok d =>
      simp only [hr] at h
      injection h with h; subst h
      exact ⟨d, rfl, rfl⟩
  · intro hx
    simp only [hx, if_false] at h
    repeat' split at h
    all_goals
      try simp only [Out.bind] at h
      repeat' split at h
      all_goals first | (injection h with h; subst h; rfl) | cases h

theorem step_sysv (f : ElfBytes) (t : Table SectionHeader) (acc : ElfBytes.CommonElfData)
    (x : SectionHeader) (acc' : ElfBytes.CommonElfData) (h : f.commonStep t acc x = .ok acc') :
    (x.sh_type = Abi.SHT_HASH →
      ∃ r buf tbl, dataRange x.sh_offset x.sh_size = .ok r ∧ f.data.getBytes r.1 r.2 = .ok buf ∧
        SysVHashTable.new f.ehdr.little f.ehdr.cls buf = .ok tbl ∧ acc'.sysvHash = some tbl) ∧
    (x.sh_type ≠ Abi.SHT_HASH → acc'.sysvHash = acc.sysvHash) := by
  unfold ElfBytes.commonStep at h
  constructor
  · intro hx
    have hne1 : ¬ x.sh_type = Abi.SHT_SYMTAB := by rw [hx]; decide
    have hne2 : ¬ x.sh_type = Abi.SHT_DYNSYM := by rw [hx]; decide
    have hne3 : ¬ x.sh_type = Abi.SHT_DYNAMIC := by rw [hx]; decide
    rw [if_neg hne1, if_neg hne2, if_neg hne3, if_pos hx] at h
    simp only [Out.bind] at h
    cases hr : dataRange x.sh_offset x.sh_size with
    | err e => simp [hr] at h
    | panic => simp [hr] at h
    | ok r =>
      simp only [hr] at h
      cases hb : f.data.getBytes r.1 r.2 with
      | err e => simp [hb] at h
      | panic => simp [hb] at h
      | ok buf =>
        simp only [hb] at h
        cases hn : SysVHashTable.new f.ehdr.little f.ehdr.cls buf with
        | err e => simp [hn] at h
        | panic => simp [hn] at h
        | ok tbl =>
          simp only [hn] at h
          injection h with h; subst h
          exact ⟨r, buf, tbl, rfl, hb, hn, rfl⟩
  · intro hx
    simp only [hx, if_false] at h
    repeat' split at h
    all_goals
      try simp only [Out.bind] at h
      repeat' split at h
      all_goals first | (injection h with h; subst h; rfl) | cases h

theorem step_gnu (f : ElfBytes) (t : Table SectionHeader) (acc : ElfBytes.CommonElfData)
    (x : SectionHeader) (acc' : ElfBytes.CommonElfData) (h : f.commonStep t acc x = .ok acc') :
    (x.sh_type = Abi.SHT_GNU_HASH →
      ∃ r buf tbl, dataRange x.sh_offset x.sh_size = .ok r ∧ f.data.getBytes r.1 r.2 = .ok buf ∧
        GnuHashTable.new f.ehdr.little f.ehdr.cls buf = .ok tbl ∧ acc'.gnuHash = some tbl) ∧
    (x.sh_type ≠ Abi.SHT_GNU_HASH → acc'.gnuHash = acc.gnuHash) := by
  unfold ElfBytes.commonStep at h
  constructor
  · intro hx
    have hne1 : ¬ x.sh_type = Abi.SHT_SYMTAB := by rw [hx]; decide
    have hne2 : ¬ x.sh_type = Abi.SHT_DYNSYM := by rw [hx]; decide
    have hne3 : ¬ x.sh_type = Abi.SHT_DYNAMIC := by rw [hx]; decide
    have hne4 : ¬ x.sh_type = Abi.SHT_HASH := by rw [hx]; decide
    rw [if_neg hne1, if_neg hne2, if_neg hne3, if_neg hne4, if_pos hx] at h
    simp only [Out.bind] at h
    cases hr : dataRange x.sh_offset x.sh_size with
    | err e => simp [hr] at h
    | panic => simp [hr] at h
    | ok r =>
      simp only [hr] at h
      cases hb : f.data.getBytes r.1 r.2 with
      | err e => simp [hb] at h
      | panic => simp [hb] at h
      | ok buf =>
        simp only [hb] at h
        cases hn : GnuHashTable.new f.ehdr.little f.ehdr.cls buf with
        | err e => simp [hn] at h
        | panic => simp [hn] at h
        | ok tbl =>
          simp only [hn] at h
          injection h with h; subst h
          exact ⟨r, buf, tbl, rfl, hb, hn, rfl⟩
  · intro hx
    simp only [hx, if_false] at h
    repeat' split at h
    all_goals
      try simp only [Out.bind] at h
      repeat' split at h
      all_goals first | (injection h with h; subst h; rfl) | cases h

end Elf
