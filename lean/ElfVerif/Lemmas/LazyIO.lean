/-
  Lemmas/LazyIO.lean — lazy reads at trace level: every I/O event a query adds to the device's
  trace (seek, allocation, read call, completed load) belongs to a byte range designated by a header
  — whatever the schedule and whatever the outcome.
-/
import ElfVerif.Lemmas.FailSurface
import ElfVerif.Lemmas.StreamTotal
namespace Elf

/-- the I/O events of one `load_bytes(s, e)`: a seek to `s`, an allocation of `e - s` bytes, read
    calls asking for at most `e - s` bytes, the completed load of `[s, s + (e - s))` -/
def EvIn (s e : Nat) : IoEvent → Prop
  | .seekEnd => False
  | .seek p => p = s
  | .read want got => want ≤ e - s ∧ got ≤ want
  | .alloc n => n = e - s
  | .load s' len => s' = s ∧ len = e - s

/-- `d'` is `d` after I/O events each belonging to a range that satisfies `A` -/
def Ext (A : Nat → Nat → Prop) (d d' : Device) : Prop :=
  ∃ ext, d'.trace = d.trace ++ ext ∧ ∀ ev, ev ∈ ext → ∃ s e, A s e ∧ EvIn s e ev

theorem Ext.refl (A : Nat → Nat → Prop) (d : Device) : Ext A d d := ⟨[], by simp, fun ev h => by cases h⟩

theorem Ext.of_trace {A : Nat → Nat → Prop} {d d' : Device} (h : d'.trace = d.trace) : Ext A d d' :=
  ⟨[], by simp [h], fun ev h => by cases h⟩

theorem Ext.trans {A : Nat → Nat → Prop} {a b c : Device} (h1 : Ext A a b) (h2 : Ext A b c) : Ext A a c := by
  obtain ⟨x1, e1, p1⟩ := h1
  obtain ⟨x2, e2, p2⟩ := h2
  refine ⟨x1 ++ x2, by rw [e2, e1]; simp, fun ev h => ?_⟩
  rcases List.mem_append.mp h with h | h
  · exact p1 ev h
  · exact p2 ev h

theorem Ext.mono {A B : Nat → Nat → Prop} (hab : ∀ s e, A s e → B s e) {d d' : Device} (h : Ext A d d') : Ext B d d' := by
  obtain ⟨x, e, p⟩ := h
  exact ⟨x, e, fun ev hev => by obtain ⟨s, e', ha, hi⟩ := p ev hev; exact ⟨s, e', hab _ _ ha, hi⟩⟩

theorem Ext.one {A : Nat → Nat → Prop} {d d' : Device} (ev : IoEvent) (s e : Nat) (ha : A s e) (hi : EvIn s e ev)
    (h : d'.trace = d.trace ++ [ev]) : Ext A d d' :=
  ⟨[ev], h, fun x hx => by have : x = ev := by simpa using hx
                           subst this; exact ⟨s, e, ha, hi⟩⟩

theorem nextFault_trace' (d : Device) : d.nextFault.2.trace = d.trace := by
  unfold Device.nextFault; split <;> rfl

theorem seekTo_trace (d : Device) (p : Nat) : (d.seekTo p).2.trace = d.trace ++ [.seek p] := by
  unfold Device.seekTo
  generalize hq : d.nextFault = q
  obtain ⟨f, d1⟩ := q
  have : d1.trace = d.trace := by have := nextFault_trace' d; rw [hq] at this; exact this
  cases f <;> simp [this]

theorem read_trace (d : Device) (want : Nat) :
    ∃ got, got ≤ want ∧ (d.read want).2.trace = d.trace ++ [.read want got] := by
  unfold Device.read
  generalize hq : d.nextFault = q
  obtain ⟨f, d1⟩ := q
  have : d1.trace = d.trace := by have := nextFault_trace' d; rw [hq] at this; exact this
  cases f with
  | none => exact ⟨min want (d1.content.size - d1.pos), Nat.min_le_left _ _, by simp [this]⟩
  | short k => exact ⟨min (min want (d1.content.size - d1.pos)) (max 1 k),
      Nat.le_trans (Nat.min_le_left _ _) (Nat.min_le_left _ _), by simp [this]⟩
  | eof => exact ⟨0, Nat.zero_le _, by simp [this]⟩
  | interrupted => exact ⟨0, Nat.zero_le _, by simp [this]⟩
  | fail => exact ⟨0, Nat.zero_le _, by simp [this]⟩

/-- `read_exact(n)` adds only read calls asking for at most `n` bytes -/
theorem readExact_trace (fuel : Nat) (d : Device) (n : Nat) :
    ∃ ext, (Device.readExact fuel d n).2.trace = d.trace ++ ext ∧
      ∀ ev, ev ∈ ext → ∃ w g, ev = .read w g ∧ w ≤ n ∧ g ≤ w := by
  induction fuel generalizing d n with
  | zero =>
    refine ⟨[], ?_, fun ev h => by cases h⟩
    unfold Device.readExact; split <;> simp
  | succ fuel ih =>
    unfold Device.readExact
    by_cases hn : n = 0
    · exact ⟨[], by simp [hn], fun ev h => by cases h⟩
    · simp only [hn, if_false]
      obtain ⟨got, hg, ht⟩ := read_trace d n
      generalize hq : d.read n = q at ht
      obtain ⟨res, d'⟩ := q
      simp only at ht
      have one : ∀ ev, ev ∈ [IoEvent.read n got] → ∃ w g, ev = .read w g ∧ w ≤ n ∧ g ≤ w := by
        intro ev hev
        have : ev = .read n got := by simpa using hev
        exact ⟨n, got, this, Nat.le_refl _, hg⟩
      cases res with
      | got k =>
        cases k with
        | zero => exact ⟨[.read n got], ht, one⟩
        | succ k =>
          simp only
          obtain ⟨ext, he, hp⟩ := ih d' (n - (k + 1))
          refine ⟨[.read n got] ++ ext, by rw [he, ht]; simp, fun ev hev => ?_⟩
          rcases List.mem_append.mp hev with h | h
          · exact one ev h
          · obtain ⟨w, g, h1, h2, h3⟩ := hp ev h
            exact ⟨w, g, h1, by omega, h3⟩
      | interrupted =>
        simp only
        obtain ⟨ext, he, hp⟩ := ih d' n
        refine ⟨[.read n got] ++ ext, by rw [he, ht]; simp, fun ev hev => ?_⟩
        rcases List.mem_append.mp hev with h | h
        · exact one ev h
        · exact hp ev h
      | error => exact ⟨[.read n got], ht, one⟩

/-- **All I/O of a `load_bytes(s, e)` belongs to `[s, e)`** -/
theorem loadBytes_ext (A : Nat → Nat → Prop) (r : CachingReader) (s e : Nat) (ha : A s e) :
    Ext A r.dev (r.loadBytes s e).2.dev := by
  unfold CachingReader.loadBytes
  split
  · exact Ext.refl A _
  · split
    · exact Ext.refl A _
    · have hsk := seekTo_trace r.dev s
      generalize hq : r.dev.seekTo s = q at hsk
      obtain ⟨q1, d⟩ := q
      simp only at hsk
      have h1 : Ext A r.dev d := Ext.one (.seek s) s e ha rfl hsk
      cases q1 with
      | err er => exact h1
      | panic => exact h1
      | ok u =>
        simp only
        have h2 : Ext A d { d with trace := d.trace ++ [.alloc (e - s)] } := Ext.one (.alloc (e - s)) s e ha rfl rfl
        obtain ⟨ext, he, hp⟩ := readExact_trace (e - s + d.sched.length + 1) { d with trace := d.trace ++ [.alloc (e - s)] } (e - s)
        have h3 : Ext A { d with trace := d.trace ++ [.alloc (e - s)] }
            (Device.readExact (e - s + d.sched.length + 1) { d with trace := d.trace ++ [.alloc (e - s)] } (e - s)).2 :=
          ⟨ext, he, fun ev hev => by
            obtain ⟨w, g, h1, h2, h3⟩ := hp ev hev
            subst h1; exact ⟨s, e, ha, h2, h3⟩⟩
        generalize Device.readExact (e - s + d.sched.length + 1) { d with trace := d.trace ++ [.alloc (e - s)] } (e - s) = p at h3
        obtain ⟨p1, d'⟩ := p
        cases p1 with
        | err er => exact (h1.trans h2).trans h3
        | panic => exact (h1.trans h2).trans h3
        | ok u2 =>
          exact ((h1.trans h2).trans h3).trans (Ext.one (.load s (e - s)) s e ha ⟨rfl, rfl⟩ rfl)

theorem readBytes_ext (A : Nat → Nat → Prop) (r : CachingReader) (s e : Nat) (ha : A s e) :
    Ext A r.dev (r.readBytes s e).2.dev := by
  rw [readBytes_state]; exact loadBytes_ext A r s e ha

/-! ## Combinators (whatever the outcome) -/

def AllC {α} (A : Nat → Nat → Prop) (d0 : Device) (x : Out α × CachingReader) : Prop := Ext A d0 x.2.dev

theorem AllC.rbind {α β} {A : Nat → Nat → Prop} {d0 : Device} {x : Out α × CachingReader}
    {f : α → CachingReader → Out β × CachingReader}
    (hx : AllC A d0 x) (hf : ∀ a r, Ext A d0 r.dev → AllC A d0 (f a r)) : AllC A d0 (rbind x f) := by
  obtain ⟨x1, x2⟩ := x
  cases x1 with
  | ok a => exact hf a x2 hx
  | err e => exact hx
  | panic => exact hx

theorem AllC.pure {α} {A : Nat → Nat → Prop} {d0 : Device} (v : Out α) (r : CachingReader) (h : Ext A d0 r.dev) :
    AllC A d0 (v, r) := h

theorem AllC.rlift {α} {A : Nat → Nat → Prop} {d0 : Device} (v : Out α) (r : CachingReader) (h : Ext A d0 r.dev) :
    AllC A d0 (rlift v r) := h

theorem AllC.load {A : Nat → Nat → Prop} {d0 : Device} (r : CachingReader) (s e : Nat) (ha : A s e)
    (h : Ext A d0 r.dev) : AllC A d0 (r.loadBytes s e) := h.trans (loadBytes_ext A r s e ha)

theorem AllC.read {A : Nat → Nat → Prop} {d0 : Device} (r : CachingReader) (s e : Nat) (ha : A s e)
    (h : Ext A d0 r.dev) : AllC A d0 (r.readBytes s e) := h.trans (readBytes_ext A r s e ha)

/-- the range a section header designates -/
def ShRange (sh : SectionHeader) (s e : Nat) : Prop := s = sh.sh_offset ∧ e = sh.sh_offset + sh.sh_size
/-- the range a program header designates -/
def PhRange (ph : ProgramHeader) (s e : Nat) : Prop := s = ph.p_offset ∧ e = ph.p_offset + ph.p_filesz

theorem dataRange_ok (a n : Nat) (rg : Nat × Nat) (h : dataRange a n = .ok rg) : rg.1 = a ∧ rg.2 = a + n := by
  unfold dataRange checkedAdd at h
  by_cases hh : a + n < USZ
  · simp [hh] at h; subst h; exact ⟨rfl, rfl⟩
  · simp [hh] at h

def AllS {α} (A : Nat → Nat → Prop) (s : ElfStream) (x : ElfStream.Res α) : Prop := Ext A s.reader.dev x.2.reader.dev

theorem AllS.same {α} (A : Nat → Nat → Prop) (s : ElfStream) (v : Out α) : AllS A s (v, s) := Ext.refl A _

theorem sectionData_allS (s : ElfStream) (sh : SectionHeader) : AllS (ShRange sh) s (s.sectionData sh) := by
  rw [sectionData_eq]
  split
  · exact AllS.same _ s _
  · split
    · exact AllS.same _ s _
    · exact AllS.same _ s _
    · rename_i rg hrg
      obtain ⟨h1, h2⟩ := dataRange_ok _ _ _ hrg
      exact AllC.rbind (AllC.read _ _ _ ⟨h1, h2⟩ (Ext.refl _ _)) fun a r h => AllC.pure _ _ h

theorem typedRange_allS (s : ElfStream) (sh : SectionHeader) (want : Nat) :
    AllS (ShRange sh) s (s.typedRange sh want) := by
  unfold ElfStream.typedRange
  split
  · exact AllS.same _ s _
  · split
    · exact AllS.same _ s _
    · exact AllS.same _ s _
    · rename_i rg hrg
      obtain ⟨h1, h2⟩ := dataRange_ok _ _ _ hrg
      exact AllC.read _ _ _ ⟨h1, h2⟩ (Ext.refl _ _)

theorem rels_allS (s : ElfStream) (sh : SectionHeader) : AllS (ShRange sh) s (s.sectionDataAsRels sh) := by
  have := typedRange_allS s sh Abi.SHT_REL
  unfold ElfStream.sectionDataAsRels
  generalize s.typedRange sh Abi.SHT_REL = q at this
  obtain ⟨q1, q2⟩ := q
  cases q1 <;> exact this

theorem relas_allS (s : ElfStream) (sh : SectionHeader) : AllS (ShRange sh) s (s.sectionDataAsRelas sh) := by
  have := typedRange_allS s sh Abi.SHT_RELA
  unfold ElfStream.sectionDataAsRelas
  generalize s.typedRange sh Abi.SHT_RELA = q at this
  obtain ⟨q1, q2⟩ := q
  cases q1 <;> exact this

theorem notes_allS (s : ElfStream) (sh : SectionHeader) : AllS (ShRange sh) s (s.sectionDataAsNotes sh) := by
  have := typedRange_allS s sh Abi.SHT_NOTE
  unfold ElfStream.sectionDataAsNotes
  generalize s.typedRange sh Abi.SHT_NOTE = q at this
  obtain ⟨q1, q2⟩ := q
  cases q1 <;> exact this

theorem segmentNotes_allS (s : ElfStream) (ph : ProgramHeader) : AllS (PhRange ph) s (s.segmentDataAsNotes ph) := by
  unfold ElfStream.segmentDataAsNotes
  split
  · exact AllS.same _ s _
  · split
    · exact AllS.same _ s _
    · exact AllS.same _ s _
    · rename_i rg hrg
      obtain ⟨h1, h2⟩ := dataRange_ok _ _ _ hrg
      exact AllC.rbind (AllC.read _ _ _ ⟨h1, h2⟩ (Ext.refl _ _)) fun a r h => AllC.pure _ _ h

/-- designated by the section header at index `idx` of the stream's table -/
def IdxRange (st : ElfStream) (idx : Nat) (s e : Nat) : Prop := ∃ sh, st.shdrs[idx]? = some sh ∧ ShRange sh s e

theorem strtabAt_allS (s : ElfStream) (idx : Nat) : AllS (IdxRange s idx) s (s.strtabAt idx) := by
  unfold ElfStream.strtabAt
  split
  · exact AllS.same _ s _
  · rename_i sh hsh
    split
    · exact AllS.same _ s _
    · exact AllS.same _ s _
    · rename_i rg hrg
      obtain ⟨h1, h2⟩ := dataRange_ok _ _ _ hrg
      exact AllC.rbind (AllC.read _ _ _ ⟨sh, hsh, h1, h2⟩ (Ext.refl _ _)) fun a r h => AllC.pure _ _ h

/-- the index of the section-name string table as the headers give it (`e_shstrndx`, or
    `shdr[0].sh_link` under the SHN_XINDEX escape) -/
def shstrIndex (st : ElfStream) : Nat :=
  if st.ehdr.t.e_shstrndx = Abi.SHN_XINDEX then (match st.shdrs[0]? with | some s0 => s0.sh_link | none => 0)
  else st.ehdr.t.e_shstrndx

theorem shstrtab_allS (s : ElfStream) : AllS (IdxRange s (shstrIndex s)) s s.sectionHeadersWithStrtab := by
  unfold ElfStream.sectionHeadersWithStrtab
  split
  · exact AllS.same _ s _
  · split
    · exact AllS.same _ s _
    · split
      · rename_i hx
        split
        · rename_i s0 h0
          have : shstrIndex s = s0.sh_link := by unfold shstrIndex; simp [hx, h0]
          rw [this]; exact strtabAt_allS s _
        · exact AllS.same _ s _
      · rename_i hx
        have : shstrIndex s = s.ehdr.t.e_shstrndx := by unfold shstrIndex; simp [hx]
        rw [this]; exact strtabAt_allS s _

theorem byName_allS (s : ElfStream) (name : Slice) :
    AllS (IdxRange s (shstrIndex s)) s (s.sectionHeaderByName name) := by
  have := shstrtab_allS s
  unfold ElfStream.sectionHeaderByName
  generalize s.sectionHeadersWithStrtab = q at this
  obtain ⟨q1, q2⟩ := q
  cases q1 with
  | ok o => cases o <;> exact this
  | err e => exact this
  | panic => exact this

/-- designated by the first section header of type `ty`, or by the section its `sh_link` names -/
def TypeRange (st : ElfStream) (ty : Nat) (s e : Nat) : Prop :=
  ∃ sh, st.shdrs.find? (fun x => x.sh_type == ty) = some sh ∧
    (ShRange sh s e ∨ IdxRange st sh.sh_link s e)

theorem symtab_allS (s : ElfStream) (ty : Nat) : AllS (TypeRange s ty) s (s.symbolTableOfType ty) := by
  unfold ElfStream.symbolTableOfType
  split
  · exact AllS.same _ s _
  · split
    · exact AllS.same _ s _
    · rename_i shdr hfind
      split
      · exact AllS.same _ s _
      · exact AllS.same _ s _
      · rename_i rg hrg
        obtain ⟨h1, h2⟩ := dataRange_ok _ _ _ hrg
        refine AllC.rbind (AllC.load _ _ _ ⟨shdr, hfind, Or.inl ⟨h1, h2⟩⟩ (Ext.refl _ _)) fun _ r h => ?_
        split
        · exact AllC.pure _ _ h
        · rename_i strtab hst
          split
          · exact AllC.pure _ _ h
          · exact AllC.pure _ _ h
          · rename_i rg2 hrg2
            obtain ⟨g1, g2⟩ := dataRange_ok _ _ _ hrg2
            refine AllC.rbind (AllC.load _ _ _ ⟨shdr, hfind, Or.inr ⟨strtab, hst, g1, g2⟩⟩ h) fun _ r h => ?_
            refine AllC.rbind (AllC.rlift _ _ h) fun _ r h => ?_
            refine AllC.rbind (AllC.rlift _ _ h) fun _ r h => ?_
            refine AllC.rbind (AllC.rlift _ _ h) fun _ r h => ?_
            exact AllC.pure _ _ h

/-- designated by the SHT_DYNAMIC section header when there are section headers, else by the
    PT_DYNAMIC program header -/
def DynRange (st : ElfStream) (s e : Nat) : Prop :=
  (∃ sh, st.shdrs.find? (fun x => x.sh_type == Abi.SHT_DYNAMIC) = some sh ∧ ShRange sh s e) ∨
  (st.shdrs.isEmpty = true ∧ ∃ ph, st.phdrs.find? (fun x => x.p_type == Abi.PT_DYNAMIC) = some ph ∧ PhRange ph s e)

theorem dynamic_allS (s : ElfStream) : AllS (DynRange s) s s.dynamic := by
  unfold ElfStream.dynamic
  split
  · split
    · rename_i sh hf
      split
      · exact AllS.same _ s _
      · exact AllS.same _ s _
      · rename_i rg hrg
        obtain ⟨h1, h2⟩ := dataRange_ok _ _ _ hrg
        exact AllC.rbind (AllC.read _ _ _ (Or.inl ⟨sh, hf, h1, h2⟩) (Ext.refl _ _)) fun a r h => AllC.pure _ _ h
    · exact AllS.same _ s _
  · rename_i hne
    split
    · split
      · rename_i ph hf
        split
        · exact AllS.same _ s _
        · exact AllS.same _ s _
        · rename_i rg hrg
          obtain ⟨h1, h2⟩ := dataRange_ok _ _ _ hrg
          have hem : s.shdrs.isEmpty = true := by simpa using hne
          exact AllC.rbind (AllC.read _ _ _ (Or.inr ⟨hem, ph, hf, h1, h2⟩) (Ext.refl _ _)) fun a r h => AllC.pure _ _ h
      · exact AllS.same _ s _
    · exact AllS.same _ s _

/-- designated by a version section header found by the scan, or by the section its `sh_link` names -/
def VerRange (st : ElfStream) (s e : Nat) : Prop :=
  ∃ sh, (some sh = (ElfStream.verScanList st.shdrs none none none).1 ∨
         some sh = (ElfStream.verScanList st.shdrs none none none).2.1 ∨
         some sh = (ElfStream.verScanList st.shdrs none none none).2.2) ∧
    (ShRange sh s e ∨ IdxRange st sh.sh_link s e)

theorem verLoad_allC (s : ElfStream) (A : Nat → Nat → Prop) (o : Option SectionHeader) (d0 : Device) (r : CachingReader)
    (hA : ∀ sh, o = some sh → ∀ a b, (ShRange sh a b ∨ IdxRange s sh.sh_link a b) → A a b)
    (h : Ext A d0 r.dev) : AllC A d0 (s.verLoad o r) := by
  unfold ElfStream.verLoad
  cases o with
  | none => exact AllC.pure _ _ h
  | some shdr =>
    simp only
    cases hrg : dataRange shdr.sh_offset shdr.sh_size with
    | err e => exact AllC.pure _ _ h
    | panic => exact AllC.pure _ _ h
    | ok rg =>
      obtain ⟨h1, h2⟩ := dataRange_ok _ _ _ hrg
      simp only [rlift, rbind]
      refine AllC.rbind (AllC.load _ _ _ (hA shdr rfl _ _ (Or.inl ⟨h1, h2⟩)) h) fun _ r h => ?_
      split
      · exact AllC.pure _ _ h
      · rename_i strs hst
        cases hrg2 : dataRange strs.sh_offset strs.sh_size with
        | err e => exact AllC.pure _ _ h
        | panic => exact AllC.pure _ _ h
        | ok rg2 =>
          obtain ⟨g1, g2⟩ := dataRange_ok _ _ _ hrg2
          simp only
          refine AllC.rbind (AllC.load _ _ _ (hA shdr rfl _ _ (Or.inr ⟨strs, hst, g1, g2⟩)) h) fun _ r h => ?_
          exact AllC.pure _ _ h

theorem symver_allS (s : ElfStream) : AllS (VerRange s) s s.symbolVersionTable := by
  unfold ElfStream.symbolVersionTable
  split
  · exact AllS.same _ s _
  · generalize hsc : ElfStream.verScanList s.shdrs none none none = sc
    obtain ⟨vs, nd, df⟩ := sc
    simp only
    cases vs with
    | none => exact AllS.same _ s _
    | some versym =>
      simp only
      have hV : ∀ sh, (some sh = some versym ∨ some sh = nd ∨ some sh = df) → ∀ a b,
          (ShRange sh a b ∨ IdxRange s sh.sh_link a b) → VerRange s a b := by
        intro sh hsh a b hab
        refine ⟨sh, ?_, hab⟩
        rw [hsc]; exact hsh
      show AllC (VerRange s) s.reader.dev _
      refine AllC.rbind (AllC.rlift _ _ (Ext.refl _ _)) fun _ r h => ?_
      cases hrg : dataRange versym.sh_offset versym.sh_size with
      | err e => exact AllC.pure _ _ h
      | panic => exact AllC.pure _ _ h
      | ok vrg =>
        obtain ⟨h1, h2⟩ := dataRange_ok _ _ _ hrg
        simp only [rlift, rbind]
        refine AllC.rbind (AllC.load _ _ _ (hV versym (Or.inl rfl) _ _ (Or.inl ⟨h1, h2⟩)) h) fun _ r h => ?_
        refine AllC.rbind (verLoad_allC s _ nd _ r (fun sh hs => hV sh (Or.inr (Or.inl hs.symm))) h) fun needs r h => ?_
        refine AllC.rbind (verLoad_allC s _ df _ r (fun sh hs => hV sh (Or.inr (Or.inr hs.symm))) h) fun defs r h => ?_
        refine AllC.rbind (AllC.rlift _ _ h) fun _ r h => ?_
        refine AllC.rbind (AllC.rlift _ _ h) fun _ r h => ?_
        refine AllC.rbind (AllC.rlift _ _ h) fun _ r h => ?_
        exact AllC.pure _ _ h

/-- **the ranges a query designates** -/
def Query.designates (q : Query) (st : ElfStream) : Nat → Nat → Prop :=
  match q with
  | .sectionData sh | .strtab sh | .rels sh | .relas sh | .notes sh => ShRange sh
  | .segmentNotes ph => PhRange ph
  | .shstrtab | .byName _ => IdxRange st (shstrIndex st)
  | .symbolTable => TypeRange st Abi.SHT_SYMTAB
  | .dynamicSymbolTable => TypeRange st Abi.SHT_DYNSYM
  | .dynamic => DynRange st
  | .symbolVersionTable => VerRange st

/-- **Lazy reads, per query**: every I/O event a query performs — seek, allocation, read call,
    completed load — belongs to a byte range that query designates; under any schedule, in any
    state, whatever the outcome. -/
theorem Query.io_designated (q : Query) (s : ElfStream) :
    Ext (q.designates s) s.reader.dev (q.after s).reader.dev := by
  cases q with
  | sectionData sh => exact sectionData_allS s sh
  | strtab sh => exact typedRange_allS s sh _
  | rels sh => exact rels_allS s sh
  | relas sh => exact relas_allS s sh
  | notes sh => exact notes_allS s sh
  | segmentNotes ph => exact segmentNotes_allS s ph
  | shstrtab => exact shstrtab_allS s
  | byName name => exact byName_allS s name
  | symbolTable => exact symtab_allS s _
  | dynamicSymbolTable => exact symtab_allS s _
  | dynamic => exact dynamic_allS s
  | symbolVersionTable => exact symver_allS s


/-! ## Opening -/

/-- the ranges `open_stream` may touch, in terms of the file header it parsed: the 16 identification
    bytes, the rest of the file header, a whole number of section-header-sized entries at `e_shoff`
    (`shdr[0]` alone, or the table), a whole number of program-header-sized entries at `e_phoff` -/
def OpenRange (h : FileHeader) (s e : Nat) : Prop :=
  (s = 0 ∧ e = Abi.EI_NIDENT) ∨ (s = Abi.EI_NIDENT ∧ e = Abi.EI_NIDENT + Gen.size_FileHeaderTail h.cls) ∨
  (s = h.t.e_shoff ∧ ∃ n, e = h.t.e_shoff + SectionHeader.ep.size h.cls * n) ∨
  (s = h.t.e_phoff ∧ ∃ n, e = h.t.e_phoff + ProgramHeader.ep.size h.cls * n)

theorem checkedMul_val (a b c : Nat) (h : checkedMul a b = some c) : c = a * b := by
  unfold checkedMul at h; split at h <;> simp at h; exact h.symm

theorem streamShdr0_allC (h : FileHeader) (A : Nat → Nat → Prop) (size : Nat) (proj : SectionHeader → Nat)
    (d0 : Device) (r : CachingReader) (hA : A h.t.e_shoff (h.t.e_shoff + size))
    (hc : Ext A d0 r.dev) : AllC A d0 (streamShdr0 h size proj r) := by
  unfold streamShdr0
  cases hca : checkedAdd h.t.e_shoff size with
  | none => exact AllC.pure _ _ hc
  | some end_ =>
    have := ((checkedAdd_some _ _ _).mp hca).2
    subst this
    simp only [Out.ofOption, rlift, rbind]
    refine AllC.rbind (AllC.read _ _ _ hA hc) fun data r hc => ?_
    split <;> exact AllC.pure _ _ hc

theorem streamTable_allC {α} (mk : Slice → Table α) (A : Nat → Nat → Prop) (off entsize n : Nat)
    (d0 : Device) (r : CachingReader) (hA : A off (off + entsize * n))
    (hc : Ext A d0 r.dev) : AllC A d0 (streamTable mk off entsize n r) := by
  unfold streamTable
  cases hm : checkedMul entsize n with
  | none => exact AllC.pure _ _ hc
  | some size =>
    have := checkedMul_val _ _ _ hm
    subst this
    simp only [Out.ofOption, rlift, rbind]
    cases hca : checkedAdd off (entsize * n) with
    | none => exact AllC.pure _ _ hc
    | some end_ =>
      have := ((checkedAdd_some _ _ _).mp hca).2
      subst this
      simp only
      refine AllC.rbind (AllC.read _ _ _ hA hc) fun _ r hc => ?_
      exact AllC.pure _ _ hc

theorem parseSectionHeaders_allC (h : FileHeader) (d0 : Device) (r : CachingReader)
    (hc : Ext (OpenRange h) d0 r.dev) : AllC (OpenRange h) d0 (parseSectionHeaders h r) := by
  unfold parseSectionHeaders
  split
  · exact AllC.pure _ _ hc
  · unfold EntryParser.validateEntsize
    split
    · rename_i hes
      simp only [rlift, rbind]
      refine AllC.rbind ?_ fun shnum r hc => ?_
      · split
        · exact streamShdr0_allC h _ _ _ _ r (Or.inr (Or.inr (Or.inl ⟨rfl, 1, by rw [hes]; simp⟩))) hc
        · exact AllC.pure _ _ hc
      · exact streamTable_allC _ _ _ _ _ _ r (Or.inr (Or.inr (Or.inl ⟨rfl, shnum, by rw [hes]⟩))) hc
    · exact AllC.pure _ _ hc

theorem parseProgramHeaders_allC (h : FileHeader) (d0 : Device) (r : CachingReader)
    (hc : Ext (OpenRange h) d0 r.dev) : AllC (OpenRange h) d0 (parseProgramHeaders h r) := by
  unfold parseProgramHeaders
  split
  · exact AllC.pure _ _ hc
  · refine AllC.rbind ?_ fun phnum r hc => ?_
    · split
      · exact streamShdr0_allC h _ _ _ _ r (Or.inr (Or.inr (Or.inl ⟨rfl, 1, by simp⟩))) hc
      · exact AllC.pure _ _ hc
    · unfold EntryParser.validateEntsize
      split
      · rename_i hes
        simp only [rlift, rbind]
        exact streamTable_allC _ _ _ _ _ _ r (Or.inr (Or.inr (Or.inr ⟨rfl, phnum, by rw [hes]⟩))) hc
      · exact AllC.pure _ _ hc

/-- **Opening is lazy**: when `open_stream` succeeds, every I/O event it performed after measuring the
    stream's length belongs to the identification bytes, the rest of the file header, `shdr[0]`/the
    section header table at `e_shoff`, or the program header table at `e_phoff`. -/
theorem openStream_lazy (sp : Spec) (dev : Device) (s : ElfStream) (d : Device)
    (h : openStream sp dev = (.ok s, d)) :
    ∃ d1, dev.seekEnd.2 = d1 ∧ Ext (OpenRange s.ehdr) d1 s.reader.dev := by
  unfold openStream at h
  unfold CachingReader.new at h
  generalize hq : dev.seekEnd = q at *
  obtain ⟨q1, d1⟩ := q
  refine ⟨d1, rfl, ?_⟩
  cases q1 with
  | err e => simp at h
  | panic => simp at h
  | ok n =>
    simp only at h
    -- first stage: the file header, in terms of the class the identification bytes give
    have key : OkQ (fun (s : ElfStream) r => Ext (OpenRange s.ehdr) d1 r.dev ∧ s.reader = r)
      (rbind ((⟨d1, n, []⟩ : CachingReader).readBytes 0 Abi.EI_NIDENT) fun identBuf r =>
        rbind (rlift (parseIdent sp identBuf) r) fun ident r =>
        rbind (rlift (uadd Abi.EI_NIDENT (Gen.size_FileHeaderTail ident.2.1)) r) fun tailEnd r =>
        rbind (r.readBytes Abi.EI_NIDENT tailEnd) fun tailBuf r =>
        rbind (rlift (parseTail ident tailBuf) r) fun ehdr r =>
        rbind (parseSectionHeaders ehdr r) fun shdrs r =>
        rbind (parseProgramHeaders ehdr r) fun phdrs r =>
        ((.ok ⟨ehdr, shdrs, phdrs, r.clearCache⟩ : Out ElfStream), r.clearCache)) := by
      intro st hst
      -- unfold stage by stage
      simp only [rbind, rlift] at hst ⊢
      have e1 := readBytes_ext (fun a b => a = 0 ∧ b = Abi.EI_NIDENT) (⟨d1, n, []⟩ : CachingReader) 0 Abi.EI_NIDENT ⟨rfl, rfl⟩
      generalize (⟨d1, n, []⟩ : CachingReader).readBytes 0 Abi.EI_NIDENT = x1 at hst e1 ⊢
      obtain ⟨x1a, r1⟩ := x1
      cases x1a with
      | err e => simp at hst
      | panic => simp at hst
      | ok identBuf =>
        simp only at hst e1 ⊢
        cases hid : parseIdent sp identBuf with
        | err e => simp [hid] at hst
        | panic => simp [hid] at hst
        | ok ident =>
          simp only [hid] at hst ⊢
          cases hu : uadd Abi.EI_NIDENT (Gen.size_FileHeaderTail ident.2.1) with
          | err e => simp [hu] at hst
          | panic => simp [hu] at hst
          | ok tailEnd =>
            simp only [hu] at hst ⊢
            have hte : tailEnd = Abi.EI_NIDENT + Gen.size_FileHeaderTail ident.2.1 := by
              unfold uadd at hu; split at hu <;> simp at hu; exact hu.symm
            have e2 := readBytes_ext (fun a b => a = Abi.EI_NIDENT ∧ b = tailEnd) r1 Abi.EI_NIDENT tailEnd ⟨rfl, rfl⟩
            generalize r1.readBytes Abi.EI_NIDENT tailEnd = x2 at hst e2 ⊢
            obtain ⟨x2a, r2⟩ := x2
            cases x2a with
            | err e => simp at hst
            | panic => simp at hst
            | ok tailBuf =>
              simp only at hst e2 ⊢
              cases hpt : parseTail ident tailBuf with
              | err e => simp [hpt] at hst
              | panic => simp [hpt] at hst
              | ok ehdr =>
                simp only [hpt] at hst ⊢
                have hcls : ehdr.cls = ident.2.1 := by
                  unfold parseTail at hpt
                  split at hpt <;> simp at hpt
                  rw [← hpt]
                have hE : Ext (OpenRange ehdr) d1 r2.dev :=
                  (Ext.mono (fun a b hab => Or.inl hab) e1).trans
                    (Ext.mono (fun a b hab => Or.inr (Or.inl ⟨hab.1, by rw [hab.2, hte, hcls]⟩)) e2)
                have e3 := parseSectionHeaders_allC ehdr d1 r2 hE
                generalize parseSectionHeaders ehdr r2 = x3 at hst e3 ⊢
                obtain ⟨x3a, r3⟩ := x3
                cases x3a with
                | err e => simp at hst
                | panic => simp at hst
                | ok shdrs =>
                  simp only at hst ⊢
                  have e4 := parseProgramHeaders_allC ehdr d1 r3 e3
                  generalize parseProgramHeaders ehdr r3 = x4 at hst e4 ⊢
                  obtain ⟨x4a, r4⟩ := x4
                  cases x4a with
                  | err e => simp at hst
                  | panic => simp at hst
                  | ok phdrs =>
                    simp only [Out.ok.injEq] at hst ⊢
                    subst hst
                    exact ⟨e4, rfl⟩
    injection h with h1 _
    obtain ⟨hc, hr⟩ := key s h1
    rw [hr]; exact hc

end Elf
