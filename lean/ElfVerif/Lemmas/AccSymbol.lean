/-
  Lemmas/AccSymbol.lean — the generated `Symbol` accessors (`Gen.acc_Symbol_*`, translated from the Rust bodies on every
  run) evaluated by the kernel on **every** value of the field they read (`u8`: 256 values, `u16`: 65536 values) against
  the ABI macros, and the specification lemmas that follow for every record.  Nothing here depends on the syntactic form
  of a translated body: a rewrite that computes the same function leaves the tables true.  (Kept apart from the
  `VersionIndex` tables, Lemmas/AccVersion.lean, so that a change to one family does not touch the proofs about the other.)
-/
import ElfVerif.Model.Structs
import ElfVerif.Lemmas.Domain
namespace Elf

/-- `ELF_ST_BIND`, `ELF_ST_TYPE`, `ELF_ST_VISIBILITY` on every byte. -/
theorem st_byte_table :
    allBelow 256 (fun i => Gen.acc_Symbol_st_bind (st_info := i) == i / 16 &&
                           Gen.acc_Symbol_st_symtype (st_info := i) == i % 16 &&
                           Gen.acc_Symbol_st_vis (st_other := i) == i % 4) = true := by decide +kernel

/-- `st_shndx == SHN_UNDEF` on every halfword. -/
theorem undef_table :
    allBelow 65536 (fun v => Gen.acc_Symbol_is_undefined (st_shndx := v) == (v == 0)) = true := by
  decide +kernel

theorem Symbol.stBind_eq (s : Symbol) : s.stBind = s.st_info % 256 / 16 := by
  have := allBelow_spec _ _ st_byte_table (s.st_info % 256) (Nat.mod_lt _ (by decide))
  simp only [Bool.and_eq_true, beq_iff_eq] at this
  exact this.1.1

theorem Symbol.stSymtype_eq (s : Symbol) : s.stSymtype = s.st_info % 16 := by
  have := allBelow_spec _ _ st_byte_table (s.st_info % 256) (Nat.mod_lt _ (by decide))
  simp only [Bool.and_eq_true, beq_iff_eq] at this
  unfold Symbol.stSymtype; rw [this.1.2]; omega

theorem Symbol.stVis_eq (s : Symbol) : s.stVis = s.st_other % 4 := by
  have := allBelow_spec _ _ st_byte_table (s.st_other % 256) (Nat.mod_lt _ (by decide))
  simp only [Bool.and_eq_true, beq_iff_eq] at this
  unfold Symbol.stVis; rw [this.2]; omega

theorem Symbol.isUndefined_eq (s : Symbol) : s.isUndefined = (s.st_shndx % 65536 == 0) := by
  have := allBelow_spec _ _ undef_table (s.st_shndx % 65536) (Nat.mod_lt _ (by decide))
  simp only [beq_iff_eq] at this
  exact this

end Elf
