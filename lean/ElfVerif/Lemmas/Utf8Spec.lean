/-
  Lemmas/Utf8Spec.lean — the validator of Model/Utf8.lean (Unicode Standard Table 3-7, byte ranges)
  accepts exactly the concatenations of UTF-8 encodings of Unicode scalar values
  (U+0000..U+D7FF and U+E000..U+10FFFF): an independent, arithmetic definition of "valid UTF-8".
-/
import ElfVerif.Model.Utf8
namespace Elf
set_option maxRecDepth 8192

/-- Unicode scalar values: code points that are not surrogates -/
def IsScalar (c : Nat) : Prop := c < 0xD800 ∨ (0xE000 ≤ c ∧ c < 0x110000)

/-- the UTF-8 encoding of a code point (RFC 3629 §3) -/
def encodeScalar (c : Nat) : List Nat :=
  if c < 0x80 then [c]
  else if c < 0x800 then [0xC0 + c / 64, 0x80 + c % 64]
  else if c < 0x10000 then [0xE0 + c / 4096, 0x80 + c / 64 % 64, 0x80 + c % 64]
  else [0xF0 + c / 262144, 0x80 + c / 4096 % 64, 0x80 + c / 64 % 64, 0x80 + c % 64]

/-- bytes `i, …, i+n-1` of the window -/
def bytesFrom (s : Slice) (i : Nat) : Nat → List Nat
  | 0 => []
  | n + 1 => s.byte i :: bytesFrom s (i + 1) n

theorem bytesFrom_add (s : Slice) (i a b : Nat) :
    bytesFrom s i (a + b) = bytesFrom s i a ++ bytesFrom s (i + a) b := by
  induction a generalizing i with
  | zero => simp [bytesFrom]
  | succ a ih =>
    rw [Nat.succ_add]
    simp only [bytesFrom, List.cons_append]
    rw [ih (i + 1)]
    have : i + 1 + a = i + (a + 1) := by omega
    rw [this]

theorem isCont_iff (b : Nat) : isCont b = true ↔ 0x80 ≤ b ∧ b ≤ 0xBF := by
  unfold isCont; simp

/-- **Soundness of the validator**: accepted bytes are a concatenation of encodings of scalar values. -/
theorem utf8From_sound (s : Slice) (fuel i n : Nat) (h : utf8From s fuel i n = true) :
    ∃ cs : List Nat, (∀ c ∈ cs, IsScalar c) ∧ bytesFrom s i n = cs.flatMap encodeScalar := by
  induction fuel generalizing i n with
  | zero =>
    cases n with
    | zero => exact ⟨[], by simp, rfl⟩
    | succ n => simp [utf8From] at h
  | succ fuel ih =>
    cases n with
    | zero => exact ⟨[], by simp, rfl⟩
    | succ n =>
      simp only [utf8From] at h
      by_cases h1 : s.byte i ≤ 0x7F
      · simp only [h1, if_true] at h
        obtain ⟨cs, hcs, hb⟩ := ih (i + 1) n h
        refine ⟨s.byte i :: cs, ?_, ?_⟩
        · intro c hc
          rcases List.mem_cons.mp hc with rfl | hc
          · left; omega
          · exact hcs c hc
        · simp only [bytesFrom, List.flatMap_cons, hb]
          have : encodeScalar (s.byte i) = [s.byte i] := by unfold encodeScalar; simp; omega
          rw [this]; rfl
      · simp only [h1, if_false] at h
        by_cases h2 : (0xC2 ≤ s.byte i && s.byte i ≤ 0xDF) = true
        · simp only [h2, if_true, Bool.and_eq_true, decide_eq_true_eq] at h
          obtain ⟨⟨hn, hc1⟩, hrest⟩ := h
          rw [isCont_iff] at hc1
          simp only [Bool.and_eq_true, decide_eq_true_eq] at h2
          obtain ⟨cs, hcs, hb⟩ := ih (i + 2) (n - 1) hrest
          let c := (s.byte i - 0xC0) * 64 + (s.byte (i + 1) - 0x80)
          refine ⟨c :: cs, ?_, ?_⟩
          · intro x hx
            rcases List.mem_cons.mp hx with rfl | hx
            · left; show (s.byte i - 0xC0) * 64 + (s.byte (i + 1) - 0x80) < 0xD800; omega
            · exact hcs x hx
          · have hn' : n + 1 = 2 + (n - 1) := by omega
            rw [hn', bytesFrom_add, hb]
            simp only [List.flatMap_cons]
            congr 1
            have : encodeScalar c = [s.byte i, s.byte (i + 1)] := by
              show encodeScalar ((s.byte i - 0xC0) * 64 + (s.byte (i + 1) - 0x80)) = _
              unfold encodeScalar
              have a1 : ¬ (s.byte i - 0xC0) * 64 + (s.byte (i + 1) - 0x80) < 0x80 := by omega
              have a2 : (s.byte i - 0xC0) * 64 + (s.byte (i + 1) - 0x80) < 0x800 := by omega
              simp only [a1, a2, if_true, if_false]
              congr 1
              · omega
              · congr 1; omega
            rw [this]; simp [bytesFrom]
        · simp only [h2, Bool.false_eq_true, if_false] at h
          -- three-byte forms
          have three : ∀ (lo hi : Nat), 0x80 ≤ lo → hi ≤ 0xBF →
              (n ≥ 2 ∧ lo ≤ s.byte (i + 1) ∧ s.byte (i + 1) ≤ hi ∧ isCont (s.byte (i + 2)) = true ∧
                utf8From s fuel (i + 3) (n - 2) = true) →
              0xE0 ≤ s.byte i → s.byte i ≤ 0xEF →
              IsScalar ((s.byte i - 0xE0) * 4096 + (s.byte (i + 1) - 0x80) * 64 + (s.byte (i + 2) - 0x80)) →
              0x800 ≤ (s.byte i - 0xE0) * 4096 + (s.byte (i + 1) - 0x80) * 64 + (s.byte (i + 2) - 0x80) →
              ∃ cs : List Nat, (∀ c ∈ cs, IsScalar c) ∧ bytesFrom s i (n + 1) = cs.flatMap encodeScalar := by
            intro lo hi hlo hhi ⟨hn, hb1, hb1', hc2, hrest⟩ he0 hef hsc hmin
            rw [isCont_iff] at hc2
            obtain ⟨cs, hcs, hb⟩ := ih (i + 3) (n - 2) hrest
            refine ⟨((s.byte i - 0xE0) * 4096 + (s.byte (i + 1) - 0x80) * 64 + (s.byte (i + 2) - 0x80)) :: cs, ?_, ?_⟩
            · intro x hx
              rcases List.mem_cons.mp hx with rfl | hx
              · exact hsc
              · exact hcs x hx
            · have hn' : n + 1 = 3 + (n - 2) := by omega
              rw [hn', bytesFrom_add, hb]
              simp only [List.flatMap_cons]
              congr 1
              unfold encodeScalar
              have a1 : ¬ (s.byte i - 0xE0) * 4096 + (s.byte (i + 1) - 0x80) * 64 + (s.byte (i + 2) - 0x80) < 0x80 := by omega
              have a2 : ¬ (s.byte i - 0xE0) * 4096 + (s.byte (i + 1) - 0x80) * 64 + (s.byte (i + 2) - 0x80) < 0x800 := by omega
              have a3 : (s.byte i - 0xE0) * 4096 + (s.byte (i + 1) - 0x80) * 64 + (s.byte (i + 2) - 0x80) < 0x10000 := by omega
              simp only [a1, a2, a3, if_true, if_false, bytesFrom]
              rw [show i + 1 + 1 = i + 2 from rfl]
              congr 1
              · omega
              · congr 1
                · omega
                · congr 1; omega
          by_cases h3 : (s.byte i == 0xE0) = true
          · simp only [h3, if_true, Bool.and_eq_true, decide_eq_true_eq] at h
            have hb0 : s.byte i = 0xE0 := by simpa using h3
            obtain ⟨⟨⟨hn, hr1, hr2⟩, hc2⟩, hrest⟩ := h
            have hc2' := (isCont_iff _).mp hc2
            exact three 0xA0 0xBF (by omega) (by omega) ⟨hn, hr1, hr2, hc2, hrest⟩ (by omega) (by omega)
              (by left; omega) (by omega)
          · simp only [h3, Bool.false_eq_true, if_false] at h
            by_cases h4 : ((0xE1 ≤ s.byte i && s.byte i ≤ 0xEC) || s.byte i == 0xEE || s.byte i == 0xEF) = true
            · simp only [h4, if_true, Bool.and_eq_true, decide_eq_true_eq] at h
              obtain ⟨⟨⟨hn, hc1⟩, hc2⟩, hrest⟩ := h
              have hc1' := (isCont_iff _).mp hc1
              have hc2' := (isCont_iff _).mp hc2
              simp only [Bool.or_eq_true, Bool.and_eq_true, decide_eq_true_eq, beq_iff_eq] at h4
              have hrange : (0xE1 ≤ s.byte i ∧ s.byte i ≤ 0xEC) ∨ s.byte i = 0xEE ∨ s.byte i = 0xEF := by
                rcases h4 with (h4 | h4) | h4
                · exact Or.inl h4
                · exact Or.inr (Or.inl h4)
                · exact Or.inr (Or.inr h4)
              refine three 0x80 0xBF (by omega) (by omega) ⟨hn, hc1'.1, hc1'.2, hc2, hrest⟩ (by omega) (by omega) ?_ (by omega)
              rcases hrange with hr | hr | hr
              · left; omega
              · right; omega
              · right; omega
            · simp only [h4, Bool.false_eq_true, if_false] at h
              by_cases h5 : (s.byte i == 0xED) = true
              · simp only [h5, if_true, Bool.and_eq_true, decide_eq_true_eq] at h
                have hb0 : s.byte i = 0xED := by simpa using h5
                obtain ⟨⟨⟨hn, hr1, hr2⟩, hc2⟩, hrest⟩ := h
                have hc2' := (isCont_iff _).mp hc2
                exact three 0x80 0x9F (by omega) (by omega) ⟨hn, hr1, hr2, hc2, hrest⟩ (by omega) (by omega)
                  (by left; omega) (by omega)
              · simp only [h5, Bool.false_eq_true, if_false] at h
                -- four-byte forms
                have four : (n ≥ 3 ∧ 0x80 ≤ s.byte (i + 1) ∧ s.byte (i + 1) ≤ 0xBF ∧ isCont (s.byte (i + 2)) = true ∧
                      isCont (s.byte (i + 3)) = true ∧ utf8From s fuel (i + 4) (n - 3) = true) →
                    0xF0 ≤ s.byte i → s.byte i ≤ 0xF4 →
                    0x10000 ≤ (s.byte i - 0xF0) * 262144 + (s.byte (i + 1) - 0x80) * 4096 + (s.byte (i + 2) - 0x80) * 64 + (s.byte (i + 3) - 0x80) →
                    (s.byte i - 0xF0) * 262144 + (s.byte (i + 1) - 0x80) * 4096 + (s.byte (i + 2) - 0x80) * 64 + (s.byte (i + 3) - 0x80) < 0x110000 →
                    ∃ cs : List Nat, (∀ c ∈ cs, IsScalar c) ∧ bytesFrom s i (n + 1) = cs.flatMap encodeScalar := by
                  intro ⟨hn, hb1, hb1', hc2, hc3, hrest⟩ hf0 hf4 hmin hmax
                  rw [isCont_iff] at hc2 hc3
                  obtain ⟨cs, hcs, hb⟩ := ih (i + 4) (n - 3) hrest
                  refine ⟨((s.byte i - 0xF0) * 262144 + (s.byte (i + 1) - 0x80) * 4096 + (s.byte (i + 2) - 0x80) * 64 + (s.byte (i + 3) - 0x80)) :: cs, ?_, ?_⟩
                  · intro x hx
                    rcases List.mem_cons.mp hx with rfl | hx
                    · right; exact ⟨by omega, hmax⟩
                    · exact hcs x hx
                  · have hn' : n + 1 = 4 + (n - 3) := by omega
                    rw [hn', bytesFrom_add, hb]
                    simp only [List.flatMap_cons]
                    congr 1
                    unfold encodeScalar
                    have a1 : ¬ (s.byte i - 0xF0) * 262144 + (s.byte (i + 1) - 0x80) * 4096 + (s.byte (i + 2) - 0x80) * 64 + (s.byte (i + 3) - 0x80) < 0x80 := by omega
                    have a2 : ¬ (s.byte i - 0xF0) * 262144 + (s.byte (i + 1) - 0x80) * 4096 + (s.byte (i + 2) - 0x80) * 64 + (s.byte (i + 3) - 0x80) < 0x800 := by omega
                    have a3 : ¬ (s.byte i - 0xF0) * 262144 + (s.byte (i + 1) - 0x80) * 4096 + (s.byte (i + 2) - 0x80) * 64 + (s.byte (i + 3) - 0x80) < 0x10000 := by omega
                    simp only [a1, a2, a3, if_false, bytesFrom]
                    rw [show i + 1 + 1 + 1 = i + 3 from rfl, show i + 1 + 1 = i + 2 from rfl]
                    congr 1
                    · omega
                    · congr 1
                      · omega
                      · congr 1
                        · omega
                        · congr 1; omega
                by_cases h6 : (s.byte i == 0xF0) = true
                · simp only [h6, if_true, Bool.and_eq_true, decide_eq_true_eq] at h
                  have hb0 : s.byte i = 0xF0 := by simpa using h6
                  obtain ⟨⟨⟨⟨hn, hr1, hr2⟩, hc2⟩, hc3⟩, hrest⟩ := h
                  have hc2' := (isCont_iff _).mp hc2
                  have hc3' := (isCont_iff _).mp hc3
                  exact four ⟨hn, by omega, hr2, hc2, hc3, hrest⟩ (by omega) (by omega) (by omega) (by omega)
                · simp only [h6, Bool.false_eq_true, if_false] at h
                  by_cases h7 : (0xF1 ≤ s.byte i && s.byte i ≤ 0xF3) = true
                  · simp only [h7, if_true, Bool.and_eq_true, decide_eq_true_eq] at h
                    obtain ⟨⟨⟨⟨hn, hc1⟩, hc2⟩, hc3⟩, hrest⟩ := h
                    have hc1' := (isCont_iff _).mp hc1
                    have hc2' := (isCont_iff _).mp hc2
                    have hc3' := (isCont_iff _).mp hc3
                    simp only [Bool.and_eq_true, decide_eq_true_eq] at h7
                    exact four ⟨hn, hc1'.1, hc1'.2, hc2, hc3, hrest⟩ (by omega) (by omega) (by omega) (by omega)
                  · simp only [h7, Bool.false_eq_true, if_false] at h
                    by_cases h8 : (s.byte i == 0xF4) = true
                    · simp only [h8, if_true, Bool.and_eq_true, decide_eq_true_eq] at h
                      have hb0 : s.byte i = 0xF4 := by simpa using h8
                      obtain ⟨⟨⟨⟨hn, hr1, hr2⟩, hc2⟩, hc3⟩, hrest⟩ := h
                      have hc2' := (isCont_iff _).mp hc2
                      have hc3' := (isCont_iff _).mp hc3
                      exact four ⟨hn, hr1, by omega, hc2, hc3, hrest⟩ (by omega) (by omega) (by omega) (by omega)
                    · simp only [h8, Bool.false_eq_true, if_false] at h

theorem bytesFrom_cons (s : Slice) (i n a : Nat) (l : List Nat) (h : bytesFrom s i n = a :: l) :
    ∃ m, n = m + 1 ∧ s.byte i = a ∧ bytesFrom s (i + 1) m = l := by
  cases n with
  | zero => simp [bytesFrom] at h
  | succ m =>
    simp only [bytesFrom, List.cons.injEq] at h
    exact ⟨m, rfl, h.1, h.2⟩

theorem bytesFrom_nil (s : Slice) (i n : Nat) (h : bytesFrom s i n = []) : n = 0 := by
  cases n with
  | zero => rfl
  | succ m => simp [bytesFrom] at h

theorem utf8From_zero (s : Slice) (fuel i : Nat) : utf8From s fuel i 0 = true := by
  cases fuel <;> rfl

/-- **Completeness of the validator**: every concatenation of encodings of scalar values is accepted. -/
theorem utf8From_complete (cs : List Nat) (hcs : ∀ c ∈ cs, IsScalar c) (s : Slice) (i n fuel : Nat)
    (hb : bytesFrom s i n = cs.flatMap encodeScalar) (hf : n ≤ fuel) : utf8From s fuel i n = true := by
  induction cs generalizing i n fuel with
  | nil =>
    have := bytesFrom_nil s i n (by simpa using hb)
    subst this; exact utf8From_zero s fuel i
  | cons c cs ih =>
    have hsc := hcs c (List.mem_cons_self ..)
    have hrest : ∀ x ∈ cs, IsScalar x := fun x hx => hcs x (List.mem_cons_of_mem _ hx)
    simp only [List.flatMap_cons] at hb
    unfold encodeScalar at hb
    by_cases c1 : c < 0x80
    · simp only [c1, if_true, List.cons_append, List.nil_append] at hb
      obtain ⟨m, rfl, hb0, hd1⟩ := bytesFrom_cons s i n _ _ hb
      cases fuel with
      | zero => omega
      | succ f =>
        simp only [utf8From]
        have : s.byte i ≤ 0x7F := by omega
        simp only [this, if_true]
        exact ih hrest (i + 1) m f hd1 (by omega)
    · by_cases c2 : c < 0x800
      · simp only [c1, c2, if_true, if_false, List.cons_append, List.nil_append] at hb
        obtain ⟨m, rfl, hb0, hd1⟩ := bytesFrom_cons s i n _ _ hb
        obtain ⟨m2, rfl, hb1, hd2⟩ := bytesFrom_cons s (i + 1) m _ _ hd1
        cases fuel with
        | zero => omega
        | succ f =>
          simp only [utf8From]
          have a0 : ¬ s.byte i ≤ 0x7F := by omega
          have a1 : (0xC2 ≤ s.byte i && s.byte i ≤ 0xDF) = true := by
            simp only [Bool.and_eq_true, decide_eq_true_eq]; omega
          simp only [a0, if_false, a1, if_true, Bool.and_eq_true, decide_eq_true_eq]
          refine ⟨⟨by omega, (isCont_iff _).mpr (by omega)⟩, ?_⟩
          have := ih hrest (i + 2) m2 f hd2 (by omega)
          simpa using this
      · by_cases c3 : c < 0x10000
        · simp only [c1, c2, c3, if_true, if_false, List.cons_append, List.nil_append] at hb
          obtain ⟨m, rfl, hb0, hd1⟩ := bytesFrom_cons s i n _ _ hb
          obtain ⟨m2, rfl, hb1, hd2⟩ := bytesFrom_cons s (i + 1) m _ _ hd1
          obtain ⟨m3, rfl, hb2, hd3⟩ := bytesFrom_cons s (i + 1 + 1) m2 _ _ hd2
          rw [show i + 1 + 1 = i + 2 from rfl] at hb2
          rw [show i + 1 + 1 + 1 = i + 3 from rfl] at hd3
          have hrec := ih hrest (i + 3) m3
          cases fuel with
          | zero => omega
          | succ f =>
            have hr := hrec f hd3 (by omega)
            have hsc' : c < 0xD800 ∨ 0xE000 ≤ c := by
              rcases hsc with h | h
              · exact Or.inl h
              · exact Or.inr h.1
            simp only [utf8From]
            have a0 : ¬ s.byte i ≤ 0x7F := by omega
            have a1 : (0xC2 ≤ s.byte i && s.byte i ≤ 0xDF) = false := by
              simp only [Bool.and_eq_false_iff, decide_eq_false_iff_not]; omega
            simp only [a0, if_false, a1, Bool.false_eq_true]
            have k1 : isCont (s.byte (i + 2)) = true := (isCont_iff _).mpr (by omega)
            by_cases e0 : s.byte i = 0xE0
            · have b0 : (s.byte i == 0xE0) = true := by simp [e0]
              simp only [b0, if_true, Bool.and_eq_true, decide_eq_true_eq]
              refine ⟨⟨⟨by omega, by omega, by omega⟩, k1⟩, ?_⟩
              simpa using hr
            · have b0 : (s.byte i == 0xE0) = false := by simp [e0]
              simp only [b0, Bool.false_eq_true, if_false]
              by_cases e1 : (0xE1 ≤ s.byte i ∧ s.byte i ≤ 0xEC) ∨ s.byte i = 0xEE ∨ s.byte i = 0xEF
              · have b1 : ((0xE1 ≤ s.byte i && s.byte i ≤ 0xEC) || s.byte i == 0xEE || s.byte i == 0xEF) = true := by
                  simp only [Bool.or_eq_true, Bool.and_eq_true, decide_eq_true_eq, beq_iff_eq]
                  rcases e1 with h | h | h
                  · exact Or.inl (Or.inl h)
                  · exact Or.inl (Or.inr h)
                  · exact Or.inr h
                simp only [b1, if_true, Bool.and_eq_true, decide_eq_true_eq]
                refine ⟨⟨⟨by omega, (isCont_iff _).mpr (by omega)⟩, k1⟩, ?_⟩
                simpa using hr
              · have b1 : ((0xE1 ≤ s.byte i && s.byte i ≤ 0xEC) || s.byte i == 0xEE || s.byte i == 0xEF) = false := by
                  simp only [Bool.or_eq_false_iff, Bool.and_eq_false_iff, decide_eq_false_iff_not, beq_eq_false_iff_ne]
                  refine ⟨⟨?_, ?_⟩, ?_⟩ <;> omega
                have e2 : s.byte i = 0xED := by omega
                have b2 : (s.byte i == 0xED) = true := by simp [e2]
                simp only [b1, Bool.false_eq_true, if_false, b2, if_true, Bool.and_eq_true, decide_eq_true_eq]
                refine ⟨⟨⟨by omega, by omega, by omega⟩, k1⟩, ?_⟩
                simpa using hr
        · have c4 : c < 0x110000 := by
            rcases hsc with h | h
            · omega
            · exact h.2
          simp only [c1, c2, c3, if_false, List.cons_append, List.nil_append] at hb
          obtain ⟨m, rfl, hb0, hd1⟩ := bytesFrom_cons s i n _ _ hb
          obtain ⟨m2, rfl, hb1, hd2⟩ := bytesFrom_cons s (i + 1) m _ _ hd1
          obtain ⟨m3, rfl, hb2, hd3⟩ := bytesFrom_cons s (i + 1 + 1) m2 _ _ hd2
          obtain ⟨m4, rfl, hb3, hd4⟩ := bytesFrom_cons s (i + 1 + 1 + 1) m3 _ _ hd3
          rw [show i + 1 + 1 = i + 2 from rfl] at hb2
          rw [show i + 1 + 1 + 1 = i + 3 from rfl] at hb3
          rw [show i + 1 + 1 + 1 + 1 = i + 4 from rfl] at hd4
          have hrec := ih hrest (i + 4) m4
          cases fuel with
          | zero => omega
          | succ f =>
            have hr := hrec f hd4 (by omega)
            simp only [utf8From]
            have a0 : ¬ s.byte i ≤ 0x7F := by omega
            have a1 : (0xC2 ≤ s.byte i && s.byte i ≤ 0xDF) = false := by
              simp only [Bool.and_eq_false_iff, decide_eq_false_iff_not]; omega
            have a2 : (s.byte i == 0xE0) = false := by simp only [beq_eq_false_iff_ne]; omega
            have a3 : ((0xE1 ≤ s.byte i && s.byte i ≤ 0xEC) || s.byte i == 0xEE || s.byte i == 0xEF) = false := by
              simp only [Bool.or_eq_false_iff, Bool.and_eq_false_iff, decide_eq_false_iff_not, beq_eq_false_iff_ne]
              refine ⟨⟨?_, ?_⟩, ?_⟩ <;> omega
            have a4 : (s.byte i == 0xED) = false := by simp only [beq_eq_false_iff_ne]; omega
            simp only [a0, if_false, a1, a2, a3, a4, Bool.false_eq_true]
            have k2 : isCont (s.byte (i + 2)) = true := (isCont_iff _).mpr (by omega)
            have k3 : isCont (s.byte (i + 3)) = true := (isCont_iff _).mpr (by omega)
            by_cases e0 : s.byte i = 0xF0
            · have b0 : (s.byte i == 0xF0) = true := by simp [e0]
              simp only [b0, if_true, Bool.and_eq_true, decide_eq_true_eq]
              refine ⟨⟨⟨⟨by omega, by omega, by omega⟩, k2⟩, k3⟩, ?_⟩
              simpa using hr
            · have b0 : (s.byte i == 0xF0) = false := by simp [e0]
              simp only [b0, Bool.false_eq_true, if_false]
              by_cases e1 : 0xF1 ≤ s.byte i ∧ s.byte i ≤ 0xF3
              · have b1 : (0xF1 ≤ s.byte i && s.byte i ≤ 0xF3) = true := by
                  simp only [Bool.and_eq_true, decide_eq_true_eq]; exact e1
                simp only [b1, if_true, Bool.and_eq_true, decide_eq_true_eq]
                refine ⟨⟨⟨⟨by omega, (isCont_iff _).mpr (by omega)⟩, k2⟩, k3⟩, ?_⟩
                simpa using hr
              · have b1 : (0xF1 ≤ s.byte i && s.byte i ≤ 0xF3) = false := by
                  simp only [Bool.and_eq_false_iff, decide_eq_false_iff_not]; omega
                have e2 : s.byte i = 0xF4 := by omega
                have b2 : (s.byte i == 0xF4) = true := by simp [e2]
                simp only [b1, Bool.false_eq_true, if_false, b2, if_true, Bool.and_eq_true, decide_eq_true_eq]
                refine ⟨⟨⟨⟨by omega, by omega, by omega⟩, k2⟩, k3⟩, ?_⟩
                simpa using hr

/-- **`validUtf8` = "is a concatenation of UTF-8 encodings of Unicode scalar values"**. -/
theorem validUtf8_iff (s : Slice) :
    validUtf8 s = true ↔
      ∃ cs : List Nat, (∀ c ∈ cs, IsScalar c) ∧ bytesFrom s 0 s.len = cs.flatMap encodeScalar := by
  unfold validUtf8
  constructor
  · exact utf8From_sound s s.len 0 s.len
  · rintro ⟨cs, h1, h2⟩
    exact utf8From_complete cs h1 s 0 s.len s.len h2 (Nat.le_refl _)

end Elf
