/-
  Lemmas/Prog.lean — generic facts about the struct-program interpreter.
-/
import ElfVerif.Lemmas.Endian
import ElfVerif.Model.Structs
namespace Elf

def sizeOf (ts : List Ty) : Nat := (ts.map Ty.width).sum

theorem sizeOf_cons (t : Ty) (ts : List Ty) : sizeOf (t :: ts) = t.width + sizeOf ts := by
  simp [sizeOf]

theorem Prog.size_eq (p : Prog) : p.size = sizeOf p.reads := rfl

/-- The value a typed read yields when the bytes are there. -/
def tyVal (le : Bool) (t : Ty) (d : Slice) (off : Nat) : Int :=
  if t.signed then toSigned t.width (decode le d off t.width) else (decode le d off t.width : Int)

/-- Values at successive offsets. -/
def valsAt (le : Bool) (d : Slice) : List Ty → Nat → List Int
  | [], _ => []
  | t :: ts, off => tyVal le t d off :: valsAt le d ts (off + t.width)

theorem valsAt_length (le : Bool) (d : Slice) (ts : List Ty) (off : Nat) :
    (valsAt le d ts off).length = ts.length := by
  induction ts generalizing off with
  | nil => rfl
  | cons t ts ih => simp [valsAt, ih]

/-- Does the guard (if any) accept the values `vs` read starting at index `i`? -/
def guardAccepts (g : Option Guard) (i : Nat) (vs : List Int) : Prop :=
  match g with
  | none => True
  | some gd => ∀ j, j < vs.length → gd.k = i + j → vs.getD j 0 = gd.want

theorem runReads_ok (le : Bool) (d : Slice) (g : Option Guard) (ts : List Ty) (i : Nat)
    (acc : List Int) (off : Nat)
    (hfit : off + sizeOf ts ≤ d.len) (husz : off + sizeOf ts < USZ)
    (hg : guardAccepts g i (valsAt le d ts off)) :
    runReads le d g ts i acc off = (.ok (acc ++ valsAt le d ts off), off + sizeOf ts) := by
  induction ts generalizing i acc off with
  | nil => simp [runReads, valsAt, sizeOf, pure, ParseM.pure']
  | cons t ts ih =>
    rw [sizeOf_cons] at hfit husz
    have hr := readTy_ok le t d off (by omega) (by omega)
    unfold runReads
    rw [hr]
    have hrest : guardAccepts g (i + 1) (valsAt le d ts (off + t.width)) := by
      unfold guardAccepts at hg ⊢
      cases g with
      | none => trivial
      | some gd =>
        intro j hj hk
        have := hg (j + 1) (by simp [valsAt]; omega) (by omega)
        simpa [valsAt] using this
    have hstep := ih (i + 1) (acc ++ [tyVal le t d off]) (off + t.width) (by omega) (by omega) hrest
    cases g with
    | none =>
      simp only
      rw [show (if t.signed then toSigned t.width (decode le d off t.width)
                else (decode le d off t.width : Int)) = tyVal le t d off from rfl]
      rw [hstep]; simp [valsAt, sizeOf_cons, Nat.add_assoc]
    | some gd =>
      simp only
      rw [show (if t.signed then toSigned t.width (decode le d off t.width)
                else (decode le d off t.width : Int)) = tyVal le t d off from rfl]
      have hthis : ¬ (gd.k = i ∧ tyVal le t d off ≠ gd.want) := by
        rintro ⟨hk, hne⟩
        have := hg 0 (by simp [valsAt]) (by omega)
        simp [valsAt] at this
        exact hne this
      simp only [hthis, if_false]
      rw [hstep]; simp [valsAt, sizeOf_cons, Nat.add_assoc]

theorem readTy_trichotomy (le : Bool) (t : Ty) (d : Slice) (off : Nat) :
    (off + t.width ≤ d.len ∧ off + t.width < USZ ∧
      readTy le t d off = (.ok (tyVal le t d off), off + t.width)) ∨
    (∃ e, readTy le t d off = (.err e, off) ∧ ¬ (off + t.width ≤ d.len ∧ off + t.width < USZ)) := by
  by_cases h1 : off + t.width < USZ
  · by_cases h2 : off + t.width ≤ d.len
    · exact Or.inl ⟨h2, h1, readTy_ok le t d off h1 h2⟩
    · exact Or.inr ⟨_, readTy_short le t d off h1 (by omega), by omega⟩
  · exact Or.inr ⟨_, readTy_overflow le t d off (by omega), by omega⟩

/-- Whatever happens, the interpreter never panics and the cursor only moves forward, by at
    most the program's size. -/
theorem runReads_cursor (le : Bool) (d : Slice) (g : Option Guard) (ts : List Ty) (i : Nat)
    (acc : List Int) (off : Nat) :
    (runReads le d g ts i acc off).1 ≠ .panic ∧
    off ≤ (runReads le d g ts i acc off).2 ∧
    (runReads le d g ts i acc off).2 ≤ off + sizeOf ts := by
  induction ts generalizing i acc off with
  | nil => simp [runReads, pure, ParseM.pure', sizeOf]
  | cons t ts ih =>
    unfold runReads
    rw [sizeOf_cons]
    rcases readTy_trichotomy le t d off with ⟨_, _, h⟩ | ⟨e, h, _⟩
    · rw [h]
      obtain ⟨i1, i2, i3⟩ := ih (i + 1) (acc ++ [tyVal le t d off]) (off + t.width)
      cases g with
      | none => dsimp only; exact ⟨i1, by omega, by omega⟩
      | some gd =>
        dsimp only
        split
        · refine ⟨by simp, by simp, by simp⟩
        · exact ⟨i1, by omega, by omega⟩
    · rw [h]; simp

theorem runReads_ok_fits (le : Bool) (d : Slice) (g : Option Guard) (ts : List Ty) (i : Nat)
    (acc : List Int) (off : Nat) (vals : List Int) (off' : Nat) (hne : ts ≠ [])
    (h : runReads le d g ts i acc off = (.ok vals, off')) :
    off + sizeOf ts ≤ d.len ∧ off + sizeOf ts < USZ := by
  induction ts generalizing i acc off with
  | nil => exact absurd rfl hne
  | cons t ts ih =>
    unfold runReads at h
    rw [sizeOf_cons]
    rcases readTy_trichotomy le t d off with ⟨f1, f2, hr⟩ | ⟨e, hr, _⟩
    · rw [hr] at h
      by_cases hts : ts = []
      · subst hts; simp [sizeOf]; omega
      · have key : ∀ x, runReads le d g ts (i + 1) (acc ++ [tyVal le t d off]) (off + t.width) = x →
            x = (.ok vals, off') → off + t.width + sizeOf ts ≤ d.len ∧ off + t.width + sizeOf ts < USZ := by
          intro x hx hx'; rw [hx'] at hx; exact ih (i + 1) _ (off + t.width) hts hx
        cases g with
        | none =>
          simp only at h
          have := key _ rfl h; omega
        | some gd =>
          simp only at h
          split at h
          · injection h with h _; cases h
          · have := key _ rfl h; omega
    · rw [hr] at h; injection h with h _; cases h

/-- Without a guard, failure means the entry does not fit. -/
theorem runReads_err_nofit (le : Bool) (d : Slice) (ts : List Ty) (i : Nat)
    (acc : List Int) (off : Nat) (e : Err) (off' : Nat)
    (h : runReads le d none ts i acc off = (.err e, off')) :
    ¬ (off + sizeOf ts ≤ d.len ∧ off + sizeOf ts < USZ) := by
  rintro ⟨h1, h2⟩
  rw [runReads_ok le d none ts i acc off h1 h2 trivial] at h
  injection h with h _; cases h

theorem interp_ok (p : Prog) (le : Bool) (d : Slice) (off : Nat)
    (hfit : off + p.size ≤ d.len) (husz : off + p.size < USZ)
    (hg : guardAccepts p.guard 0 (valsAt le d p.reads off)) :
    interp p le d off =
      (.ok (p.fields.map (Expr.eval (valsAt le d p.reads off))), off + p.size) := by
  unfold interp
  rw [runReads_ok le d p.guard p.reads 0 [] off hfit husz hg]
  simp [Prog.size_eq]

theorem interp_cursor (p : Prog) (le : Bool) (d : Slice) (off : Nat) :
    (interp p le d off).1 ≠ .panic ∧ off ≤ (interp p le d off).2 ∧
    (interp p le d off).2 ≤ off + p.size := by
  have := runReads_cursor le d p.guard p.reads 0 [] off
  unfold interp
  generalize runReads le d p.guard p.reads 0 [] off = r at this
  obtain ⟨r1, r2⟩ := r
  cases r1 <;> simp_all [Prog.size_eq]

theorem interp_err_nofit (p : Prog) (hg : p.guard = none) (le : Bool) (d : Slice) (off : Nat)
    (e : Err) (off' : Nat) (h : interp p le d off = (.err e, off')) :
    ¬ (off + p.size ≤ d.len ∧ off + p.size < USZ) := by
  unfold interp at h
  rw [hg] at h
  generalize hr : runReads le d none p.reads 0 [] off = r at h
  obtain ⟨r1, r2⟩ := r
  cases r1 with
  | ok a => simp at h
  | panic => simp at h
  | err e' =>
    simp at h
    exact runReads_err_nofit le d p.reads 0 [] off e' r2 hr

/-- An entry kind whose constructor accepts exactly the program's field count. -/
def EntryParser.Total {α} (ep : EntryParser α) : Prop :=
  ∀ c (vs : List Int), vs.length = ((ep.prog c).fields).length → (ep.build vs).isSome

theorem EntryParser.parse_no_panic {α} (ep : EntryParser α) (ht : ep.Total) (le : Bool) (c : Class)
    (d : Slice) (off : Nat) : (ep.parse le c d off).1 ≠ .panic := by
  unfold EntryParser.parse
  have hc := interp_cursor (ep.prog c) le d off
  generalize hr : interp (ep.prog c) le d off = r at hc
  obtain ⟨r1, r2⟩ := r
  cases r1 with
  | panic => simp at hc
  | err e => simp
  | ok vs =>
    -- the value list has the program's field count
    have hlen : vs.length = ((ep.prog c).fields).length := by
      unfold interp at hr
      generalize runReads le d (ep.prog c).guard (ep.prog c).reads 0 [] off = q at hr
      obtain ⟨q1, q2⟩ := q
      cases q1 <;> simp at hr
      obtain ⟨h, _⟩ := hr
      rw [← h]; simp
    have := ht c vs hlen
    cases hb : ep.build vs with
    | none => simp [hb] at this
    | some a => simp [hb]

theorem EntryParser.parse_cursor {α} (ep : EntryParser α) (le : Bool) (c : Class)
    (d : Slice) (off : Nat) :
    off ≤ (ep.parse le c d off).2 ∧ (ep.parse le c d off).2 ≤ off + (ep.prog c).size := by
  unfold EntryParser.parse
  have hc := interp_cursor (ep.prog c) le d off
  generalize interp (ep.prog c) le d off = r at hc
  obtain ⟨r1, r2⟩ := r
  cases r1 with
  | panic => simp at hc
  | err e => simp at hc ⊢; omega
  | ok vs =>
    cases hb : ep.build vs <;> simp [hb] at hc ⊢ <;> omega

/-- `FixedLayout`: unguarded entry kinds parse successfully exactly when the entry fits, and
    then consume exactly their size. -/
theorem EntryParser.parse_ok_iff {α} (ep : EntryParser α) (ht : ep.Total) (le : Bool) (c : Class)
    (hg : (ep.prog c).guard = none) (hne : (ep.prog c).reads ≠ []) (d : Slice) (off : Nat) :
    (∃ a, (ep.parse le c d off).1 = .ok a) ↔
      (off + (ep.prog c).size ≤ d.len ∧ off + (ep.prog c).size < USZ) := by
  constructor
  · rintro ⟨a, ha⟩
    unfold EntryParser.parse at ha
    generalize hr : interp (ep.prog c) le d off = r at ha
    obtain ⟨r1, r2⟩ := r
    cases r1 with
    | panic => simp at ha
    | err e => simp at ha
    | ok vs =>
      unfold interp at hr
      generalize hq : runReads le d (ep.prog c).guard (ep.prog c).reads 0 [] off = q at hr
      obtain ⟨q1, q2⟩ := q
      cases q1 with
      | ok vals => exact runReads_ok_fits le d _ (ep.prog c).reads 0 [] off vals q2 hne hq
      | err e => simp at hr
      | panic => simp at hr
  · rintro ⟨h1, h2⟩
    have hi := interp_ok (ep.prog c) le d off h1 h2 (by rw [hg]; trivial)
    unfold EntryParser.parse
    rw [hi]
    have := ht c ((ep.prog c).fields.map (Expr.eval (valsAt le d (ep.prog c).reads off))) (by simp)
    cases hb : ep.build ((ep.prog c).fields.map (Expr.eval (valsAt le d (ep.prog c).reads off))) with
    | none => simp [hb] at this
    | some a => exact ⟨a, by simp [hb]⟩

/-- On success the cursor advances by exactly the entry size. -/
theorem EntryParser.parse_ok_cursor {α} (ep : EntryParser α) (le : Bool) (c : Class)
    (hne : (ep.prog c).reads ≠ []) (d : Slice) (off : Nat) (a : α)
    (h : (ep.parse le c d off).1 = .ok a) :
    (ep.parse le c d off).2 = off + (ep.prog c).size ∧ off + (ep.prog c).size ≤ d.len := by
  unfold EntryParser.parse at h ⊢
  generalize hr : interp (ep.prog c) le d off = r at h ⊢
  obtain ⟨r1, r2⟩ := r
  cases r1 with
  | panic => simp at h
  | err e => simp at h
  | ok vs =>
    unfold interp at hr
    generalize hq : runReads le d (ep.prog c).guard (ep.prog c).reads 0 [] off = q at hr
    obtain ⟨q1, q2⟩ := q
    cases q1 with
    | ok vals =>
      have hf := runReads_ok_fits le d _ (ep.prog c).reads 0 [] off vals q2 hne hq
      -- a successful run consumed exactly the size
      have hc := runReads_exact le d (ep.prog c).guard (ep.prog c).reads 0 [] off vals q2 hq
      simp at hr
      obtain ⟨_, h2⟩ := hr
      cases hb : ep.build vs <;> simp [hb] at h ⊢
      rw [← h2, hc, Prog.size_eq]; exact ⟨rfl, hf.1⟩
    | err e => simp at hr
    | panic => simp at hr
where
  runReads_exact (le : Bool) (d : Slice) (g : Option Guard) (ts : List Ty) (i : Nat)
      (acc : List Int) (off : Nat) (vals : List Int) (off' : Nat)
      (h : runReads le d g ts i acc off = (.ok vals, off')) : off' = off + sizeOf ts := by
    induction ts generalizing i acc off with
    | nil => simp [runReads, pure, ParseM.pure'] at h; simp [sizeOf, h.2]
    | cons t ts ih =>
      unfold runReads at h
      rw [sizeOf_cons]
      rcases readTy_trichotomy le t d off with ⟨_, _, hr⟩ | ⟨e, hr, _⟩
      · rw [hr] at h
        cases g with
        | none => simp only at h; have := ih _ _ _ h; omega
        | some gd =>
          simp only at h
          split at h
          · injection h with h _; cases h
          · have := ih _ _ _ h; omega
      · rw [hr] at h; injection h with h _; cases h

theorem runReads_ok_vals (le : Bool) (d : Slice) (g : Option Guard) (ts : List Ty) (i : Nat)
    (acc : List Int) (off : Nat) (vals : List Int) (off' : Nat)
    (h : runReads le d g ts i acc off = (.ok vals, off')) :
    vals = acc ++ valsAt le d ts off := by
  induction ts generalizing i acc off with
  | nil => simp [runReads, pure, ParseM.pure'] at h; simp [valsAt, h.1]
  | cons t ts ih =>
    unfold runReads at h
    rcases readTy_trichotomy le t d off with ⟨_, _, hr⟩ | ⟨e, hr, _⟩
    · rw [hr] at h
      cases g with
      | none =>
        simp only at h
        have := ih _ _ _ h
        rw [this]; simp [valsAt]
      | some gd =>
        simp only at h
        split at h
        · injection h with h _; cases h
        · have := ih _ _ _ h
          rw [this]; simp [valsAt]
    · rw [hr] at h; injection h with h _; cases h

/-- Shape of a successful parse: the entry fits, the cursor advances by its size, and the
    record is built from the field expressions over the values at successive offsets. -/
theorem EntryParser.parse_ok_shape {α} (ep : EntryParser α) (le : Bool) (c : Class)
    (hne : (ep.prog c).reads ≠ []) (d : Slice) (off : Nat) (a : α) (off' : Nat)
    (h : ep.parse le c d off = (.ok a, off')) :
    off + (ep.prog c).size ≤ d.len ∧ off' = off + (ep.prog c).size ∧
    ep.build ((ep.prog c).fields.map (Expr.eval (valsAt le d (ep.prog c).reads off))) = some a := by
  have h1 : (ep.parse le c d off).1 = .ok a := by rw [h]
  have hc := EntryParser.parse_ok_cursor ep le c hne d off a h1
  rw [h] at hc
  refine ⟨hc.2, hc.1, ?_⟩
  unfold EntryParser.parse at h
  generalize hr : interp (ep.prog c) le d off = r at h
  obtain ⟨r1, r2⟩ := r
  cases r1 with
  | panic => simp at h
  | err e => simp at h
  | ok vs =>
    unfold interp at hr
    generalize hq : runReads le d (ep.prog c).guard (ep.prog c).reads 0 [] off = q at hr
    obtain ⟨q1, q2⟩ := q
    cases q1 with
    | ok vals =>
      have hv := runReads_ok_vals le d _ _ 0 [] off vals q2 hq
      simp at hr hv
      obtain ⟨hr1, _⟩ := hr
      subst hv
      rw [hr1]
      cases hb : ep.build vs with
      | none => simp [hb] at h
      | some a' => simp [hb] at h; rw [h.1]
    | err e => simp at hr
    | panic => simp at hr

theorem len_succ {β} (vs : List β) (n : Nat) (h : vs.length = n + 1) :
    ∃ a t, vs = a :: t ∧ t.length = n := by
  cases vs with
  | nil => simp at h
  | cons a t => exact ⟨a, t, rfl, by simpa using h⟩

/-- proves `ep.Total` for a generated entry kind by destructuring the value list -/
macro "total_tac" : tactic => `(tactic|
  (intro c vs hl
   cases c <;>
   (repeat (have hx := len_succ _ _ hl
            clear hl
            obtain ⟨_, _, heq, hl⟩ := hx
            subst heq)
    have hnil := List.eq_nil_of_length_eq_zero hl
    subst hnil
    rfl)))

theorem total_SectionHeader : SectionHeader.ep.Total := by total_tac
theorem total_ProgramHeader : ProgramHeader.ep.Total := by total_tac
theorem total_Symbol : Symbol.ep.Total := by total_tac
theorem total_Rel : Rel.ep.Total := by total_tac
theorem total_Rela : Rela.ep.Total := by total_tac
theorem total_Dyn : Dyn.ep.Total := by total_tac
theorem total_CompressionHeader : CompressionHeader.ep.Total := by total_tac
theorem total_NoteHeader : NoteHeader.ep.Total := by total_tac
theorem total_NoteGnuAbiTag : NoteGnuAbiTag.ep.Total := by total_tac
theorem total_SysVHashHeader : SysVHashHeader.ep.Total := by total_tac
theorem total_GnuHashHeader : GnuHashHeader.ep.Total := by total_tac
theorem total_U32 : U32.ep.Total := by total_tac
theorem total_U64 : U64.ep.Total := by total_tac
theorem total_VersionIndex : VersionIndex.ep.Total := by total_tac
theorem total_VerDef : VerDef.ep.Total := by total_tac
theorem total_VerDefAux : VerDefAux.ep.Total := by total_tac
theorem total_VerNeed : VerNeed.ep.Total := by total_tac
theorem total_VerNeedAux : VerNeedAux.ep.Total := by total_tac
theorem total_FileHeaderTail : FileHeaderTail.ep.Total := by total_tac

end Elf
