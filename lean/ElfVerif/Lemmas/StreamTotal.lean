/-
  Lemmas/StreamTotal.lean — the stream parser never panics: `open_stream` and every query return
  `Ok` or `Err` on every contents, every parser state and every reader schedule.

  The model keeps Rust's panicking operations as `.panic` outcomes (`expect` in `get_bytes`, Vec
  indexing `shdrs[0]`, unchecked `+`); the theorems below show none of them is reachable.
-/
import ElfVerif.Lemmas.FaultEquiv
namespace Elf

/-- after a successful `load_bytes` the key is cached, and stays cached through later loads -/
theorem loadBytes_then_lookup (r r' : CachingReader) (s e : Nat) (h : r.loadBytes s e = (.ok (), r')) :
    ∃ b, r'.lookup s e = some b := by
  have := loadBytes_ok_lookup r r' s e h
  cases hb : r'.lookup s e with
  | none => rw [hb] at this; cases this
  | some b => exact ⟨b, rfl⟩

theorem loadBytes_keeps_lookup (r : CachingReader) (s e s2 e2 : Nat) (b : Slice)
    (h : r.lookup s2 e2 = some b) : (r.loadBytes s e).2.lookup s2 e2 = some b := by
  obtain ⟨extra, hx⟩ := loadBytes_bufs r s e
  exact lookup_mono r _ extra hx s2 e2 b h

theorem getBytes_of_lookup (r : CachingReader) (s e : Nat) (b : Slice) (h : r.lookup s e = some b) :
    r.getBytes s e = .ok b := by
  unfold CachingReader.getBytes; rw [h]

theorem rbind_ne_panic {α β} (x : Out α × CachingReader) (k : α → CachingReader → Out β × CachingReader)
    (hx : x.1 ≠ .panic) (hk : ∀ a r, x = (.ok a, r) → (k a r).1 ≠ .panic) : (rbind x k).1 ≠ .panic := by
  unfold rbind
  obtain ⟨x1, x2⟩ := x
  cases x1 with
  | ok a => exact hk a x2 rfl
  | err e => simp
  | panic => exact absurd rfl hx

theorem sectionDataPost_ne_panic (h : FileHeader) (sh : SectionHeader) (buf : Slice) :
    sectionDataPost h sh buf ≠ .panic := by
  unfold sectionDataPost
  split
  · simp
  · have := EntryParser.parse_no_panic CompressionHeader.ep total_CompressionHeader h.little h.cls buf 0
    generalize CompressionHeader.ep.parse h.little h.cls buf 0 = q at this
    obtain ⟨q1, q2⟩ := q
    cases q1 with
    | err e => simp
    | panic => exact absurd rfl this
    | ok c => simp only; cases buf.getFrom? q2 <;> simp

theorem withReader_fst {α} (s : ElfStream) (x : Out α × CachingReader) : (s.withReader x).1 = x.1 := rfl

theorem sectionData_ne_panic (s : ElfStream) (sh : SectionHeader) : (s.sectionData sh).1 ≠ .panic := by
  rw [sectionData_eq]
  split
  · simp
  · split
    · simp
    · rename_i hp; exact absurd hp (dataRange_ne_panic _ _)
    · rw [withReader_fst]
      exact rbind_ne_panic _ _ (readBytes_ne_panic _ _ _) (fun buf r _ => sectionDataPost_ne_panic _ _ _)

theorem typedRange_ne_panic (s : ElfStream) (sh : SectionHeader) (want : Nat) :
    (s.typedRange sh want).1 ≠ .panic := by
  unfold ElfStream.typedRange
  split
  · simp
  · split
    · simp
    · rename_i hp; exact absurd hp (dataRange_ne_panic _ _)
    · rw [withReader_fst]; exact readBytes_ne_panic _ _ _

theorem sectionDataAsStrtab_ne_panic (s : ElfStream) (sh : SectionHeader) :
    (s.sectionDataAsStrtab sh).1 ≠ .panic := typedRange_ne_panic s sh _

theorem sectionDataAsRels_ne_panic (s : ElfStream) (sh : SectionHeader) :
    (s.sectionDataAsRels sh).1 ≠ .panic := by
  unfold ElfStream.sectionDataAsRels
  have := typedRange_ne_panic s sh Abi.SHT_REL
  generalize s.typedRange sh Abi.SHT_REL = q at this
  obtain ⟨q1, q2⟩ := q
  cases q1 with
  | ok a => simp
  | err e => simp
  | panic => exact absurd rfl this

theorem sectionDataAsRelas_ne_panic (s : ElfStream) (sh : SectionHeader) :
    (s.sectionDataAsRelas sh).1 ≠ .panic := by
  unfold ElfStream.sectionDataAsRelas
  have := typedRange_ne_panic s sh Abi.SHT_RELA
  generalize s.typedRange sh Abi.SHT_RELA = q at this
  obtain ⟨q1, q2⟩ := q
  cases q1 with
  | ok a => simp
  | err e => simp
  | panic => exact absurd rfl this

theorem sectionDataAsNotes_ne_panic (s : ElfStream) (sh : SectionHeader) :
    (s.sectionDataAsNotes sh).1 ≠ .panic := by
  unfold ElfStream.sectionDataAsNotes
  have := typedRange_ne_panic s sh Abi.SHT_NOTE
  generalize s.typedRange sh Abi.SHT_NOTE = q at this
  obtain ⟨q1, q2⟩ := q
  cases q1 with
  | ok a => simp
  | err e => simp
  | panic => exact absurd rfl this

theorem segmentDataAsNotes_ne_panic (s : ElfStream) (ph : ProgramHeader) :
    (s.segmentDataAsNotes ph).1 ≠ .panic := by
  unfold ElfStream.segmentDataAsNotes
  split
  · simp
  · split
    · simp
    · rename_i hp; exact absurd hp (dataRange_ne_panic _ _)
    · rw [withReader_fst]
      exact rbind_ne_panic _ _ (readBytes_ne_panic _ _ _) (fun _ _ _ => by simp)

theorem strtabAt_ne_panic (s : ElfStream) (idx : Nat) : (s.strtabAt idx).1 ≠ .panic := by
  unfold ElfStream.strtabAt
  split
  · simp
  · split
    · simp
    · rename_i hp; exact absurd hp (dataRange_ne_panic _ _)
    · rw [withReader_fst]
      exact rbind_ne_panic _ _ (readBytes_ne_panic _ _ _) (fun _ _ _ => by simp)

/-- `self.shdrs[0]` is reached only with a non-empty `Vec` -/
theorem shstrtab_ne_panic (s : ElfStream) : s.sectionHeadersWithStrtab.1 ≠ .panic := by
  unfold ElfStream.sectionHeadersWithStrtab
  split
  · simp
  · rename_i hne
    split
    · simp
    · have h0 : ∃ s0, s.shdrs[0]? = some s0 := by
        cases hs : s.shdrs with
        | nil => simp [hs] at hne
        | cons a l => exact ⟨a, by simp⟩
      obtain ⟨s0, hs0⟩ := h0
      split
      · rw [hs0]; exact strtabAt_ne_panic s _
      · exact strtabAt_ne_panic s _

theorem byName_ne_panic (s : ElfStream) (name : Slice) : (s.sectionHeaderByName name).1 ≠ .panic := by
  unfold ElfStream.sectionHeaderByName
  have := shstrtab_ne_panic s
  generalize s.sectionHeadersWithStrtab = q at this
  obtain ⟨q1, q2⟩ := q
  cases q1 with
  | ok o => cases o <;> simp
  | err e => simp
  | panic => exact absurd rfl this

theorem dynamic_ne_panic (s : ElfStream) : s.dynamic.1 ≠ .panic := by
  have key : ∀ off size, (match dataRange off size with
      | .err e => ((.err e : Out (Option (Table Dyn))), s)
      | .panic => (.panic, s)
      | .ok rg => s.withReader (rbind (s.reader.readBytes rg.1 rg.2) fun buf r => (.ok (some (s.dynTable buf)), r))).1
        ≠ .panic := by
    intro off size
    split
    · simp
    · rename_i hp; exact absurd hp (dataRange_ne_panic _ _)
    · rw [withReader_fst]
      exact rbind_ne_panic _ _ (readBytes_ne_panic _ _ _) (fun _ _ _ => by simp)
  unfold ElfStream.dynamic
  split
  · split
    · exact key _ _
    · simp
  · split
    · split
      · exact key _ _
      · simp
    · simp

theorem symbolTableOfType_ne_panic (s : ElfStream) (ty : Nat) : (s.symbolTableOfType ty).1 ≠ .panic := by
  unfold ElfStream.symbolTableOfType
  split
  · simp
  · split
    · simp
    · rename_i shdr _
      cases hrg : dataRange shdr.sh_offset shdr.sh_size with
      | err e => simp
      | panic => exact absurd hrg (dataRange_ne_panic _ _)
      | ok rg =>
        simp only [withReader_fst]
        refine rbind_ne_panic _ _ (loadBytes_ne_panic _ _ _) (fun u r1 h1 => ?_)
        obtain ⟨b1, k1⟩ := loadBytes_then_lookup s.reader r1 rg.1 rg.2 (by cases u; exact h1)
        split
        · simp
        · rename_i strtab _
          cases hrg2 : dataRange strtab.sh_offset strtab.sh_size with
          | err e => simp
          | panic => exact absurd hrg2 (dataRange_ne_panic _ _)
          | ok rg2 =>
            simp only
            refine rbind_ne_panic _ _ (loadBytes_ne_panic _ _ _) (fun u2 r2 h2 => ?_)
            obtain ⟨b2, k2⟩ := loadBytes_then_lookup r1 r2 rg2.1 rg2.2 (by cases u2; exact h2)
            have k1' : r2.lookup rg.1 rg.2 = some b1 := by
              have := loadBytes_keeps_lookup r1 rg2.1 rg2.2 rg.1 rg.2 b1 k1
              rw [h2] at this; exact this
            refine rbind_ne_panic _ _ (by simp only [rlift]; exact validateEntsize_ne_panic _ _ _) (fun _ r3 h3 => ?_)
            have e3 : r3 = r2 := by simp only [rlift] at h3; injection h3 with _ h3; exact h3.symm
            subst e3
            simp only [rlift, rbind, getBytes_of_lookup _ _ _ _ k1', getBytes_of_lookup _ _ _ _ k2]
            simp

theorem verLoad_ne_panic (s : ElfStream) (o : Option SectionHeader) (r : CachingReader) :
    (s.verLoad o r).1 ≠ .panic := by
  unfold ElfStream.verLoad
  cases o with
  | none => simp
  | some shdr =>
    simp only
    refine rbind_ne_panic _ _ (by simp only [rlift]; exact dataRange_ne_panic _ _) (fun rg r1 _ => ?_)
    refine rbind_ne_panic _ _ (loadBytes_ne_panic _ _ _) (fun _ r2 _ => ?_)
    split
    · simp
    · refine rbind_ne_panic _ _ (by simp only [rlift]; exact dataRange_ne_panic _ _) (fun srg r3 _ => ?_)
      exact rbind_ne_panic _ _ (loadBytes_ne_panic _ _ _) (fun _ _ _ => by simp)

/-- what a successful `ver_load` leaves cached -/
def LoCached (r : CachingReader) : Option (SectionHeader × (Nat × Nat) × (Nat × Nat)) → Prop
  | none => True
  | some (_, rg, srg) => (∃ b, r.lookup rg.1 rg.2 = some b) ∧ (∃ b, r.lookup srg.1 srg.2 = some b)

theorem verLoad_cached (s : ElfStream) (o : Option SectionHeader) (r r' : CachingReader)
    (lo : Option (SectionHeader × (Nat × Nat) × (Nat × Nat))) (h : s.verLoad o r = (.ok lo, r')) :
    LoCached r' lo ∧ (∀ s2 e2 b2, r.lookup s2 e2 = some b2 → r'.lookup s2 e2 = some b2) := by
  unfold ElfStream.verLoad at h
  cases o with
  | none =>
    simp only at h
    injection h with h1 h2; injection h1 with h1; subst h1; subst h2
    exact ⟨trivial, fun _ _ _ hb => hb⟩
  | some shdr =>
    simp only [rbind, rlift] at h
    cases hrg : dataRange shdr.sh_offset shdr.sh_size with
    | err e => simp [hrg] at h
    | panic => simp [hrg] at h
    | ok rg =>
      simp only [hrg] at h
      generalize hl1 : r.loadBytes rg.1 rg.2 = l1 at h
      obtain ⟨l1a, r1⟩ := l1
      cases l1a with
      | err e => simp at h
      | panic => simp at h
      | ok u1 =>
        simp only at h
        obtain ⟨b1, k1⟩ := loadBytes_then_lookup r r1 rg.1 rg.2 (by cases u1; exact hl1)
        cases hlink : s.shdrs[shdr.sh_link]? with
        | none => simp [hlink] at h
        | some strs =>
          simp only [hlink] at h
          cases hrg2 : dataRange strs.sh_offset strs.sh_size with
          | err e => simp [hrg2] at h
          | panic => simp [hrg2] at h
          | ok rg2 =>
            simp only [hrg2] at h
            generalize hl2 : r1.loadBytes rg2.1 rg2.2 = l2 at h
            obtain ⟨l2a, r2⟩ := l2
            cases l2a with
            | err e => simp at h
            | panic => simp at h
            | ok u2 =>
              simp only at h
              injection h with h1 h2; injection h1 with h1; subst h1; subst h2
              obtain ⟨b2, k2⟩ := loadBytes_then_lookup r1 r2 rg2.1 rg2.2 (by cases u2; exact hl2)
              have m1 : ∀ s2 e2 b2, r.lookup s2 e2 = some b2 → r1.lookup s2 e2 = some b2 := by
                intro s2 e2 b hb
                have := loadBytes_keeps_lookup r rg.1 rg.2 s2 e2 b hb
                rw [hl1] at this; exact this
              have m2 : ∀ s2 e2 b2, r1.lookup s2 e2 = some b2 → r2.lookup s2 e2 = some b2 := by
                intro s2 e2 b hb
                have := loadBytes_keeps_lookup r1 rg2.1 rg2.2 s2 e2 b hb
                rw [hl2] at this; exact this
              exact ⟨⟨⟨b1, m2 _ _ _ k1⟩, ⟨b2, k2⟩⟩, fun _ _ _ hb => m2 _ _ _ (m1 _ _ _ hb)⟩

theorem LoCached.mono {r r' : CachingReader}
    (hm : ∀ s2 e2 b2, r.lookup s2 e2 = some b2 → r'.lookup s2 e2 = some b2)
    {lo : Option (SectionHeader × (Nat × Nat) × (Nat × Nat))} (h : LoCached r lo) : LoCached r' lo := by
  cases lo with
  | none => trivial
  | some x =>
    obtain ⟨sh, rg, srg⟩ := x
    obtain ⟨⟨b1, h1⟩, ⟨b2, h2⟩⟩ := h
    exact ⟨⟨b1, hm _ _ _ h1⟩, ⟨b2, hm _ _ _ h2⟩⟩

theorem verWrap_ne_panic (s : ElfStream) (lo : Option (SectionHeader × (Nat × Nat) × (Nat × Nat)))
    (r : CachingReader) (h : LoCached r lo) : s.verWrap lo r ≠ .panic := by
  unfold ElfStream.verWrap
  cases lo with
  | none => simp
  | some x =>
    obtain ⟨sh, rg, srg⟩ := x
    obtain ⟨⟨b1, h1⟩, ⟨b2, h2⟩⟩ := h
    simp [CachingReader.getBytes, h1, h2, Out.bind]

theorem symbolVersionTable_ne_panic (s : ElfStream) : s.symbolVersionTable.1 ≠ .panic := by
  unfold ElfStream.symbolVersionTable
  split
  · simp
  · generalize ElfStream.verScanList s.shdrs none none none = sc
    obtain ⟨vs, nd, df⟩ := sc
    simp only
    cases vs with
    | none => simp
    | some versym =>
      simp only [withReader_fst]
      refine rbind_ne_panic _ _ (by simp only [rlift]; exact validateEntsize_ne_panic _ _ _) (fun _ r0 h0 => ?_)
      refine rbind_ne_panic _ _ (by simp only [rlift]; exact dataRange_ne_panic _ _) (fun vrg r1 _ => ?_)
      refine rbind_ne_panic _ _ (loadBytes_ne_panic _ _ _) (fun u r2 h2 => ?_)
      obtain ⟨bv, kv⟩ := loadBytes_then_lookup r1 r2 vrg.1 vrg.2 (by cases u; exact h2)
      refine rbind_ne_panic _ _ (verLoad_ne_panic s nd r2) (fun needs r3 h3 => ?_)
      obtain ⟨c3, m3⟩ := verLoad_cached s nd r2 r3 needs h3
      refine rbind_ne_panic _ _ (verLoad_ne_panic s df r3) (fun defs r4 h4 => ?_)
      obtain ⟨c4, m4⟩ := verLoad_cached s df r3 r4 defs h4
      refine rbind_ne_panic _ _ (by simp only [rlift]; exact verWrap_ne_panic s needs r4 (c3.mono m4)) (fun vn r5 h5 => ?_)
      have e5 : r5 = r4 := by simp only [rlift] at h5; injection h5 with _ h5; exact h5.symm
      subst e5
      refine rbind_ne_panic _ _ (by simp only [rlift]; exact verWrap_ne_panic s defs r5 c4) (fun vd r6 h6 => ?_)
      have e6 : r6 = r5 := by simp only [rlift] at h6; injection h6 with _ h6; exact h6.symm
      subst e6
      have kv6 := m4 _ _ _ (m3 _ _ _ kv)
      simp only [rlift, rbind, getBytes_of_lookup _ _ _ _ kv6]
      simp

/-! ### `open_stream` -/

theorem ofOption_lift_ne_panic {α} (e : Err) (o : Option α) (r : CachingReader) :
    (rlift (Out.ofOption e o) r).1 ≠ .panic := by
  simp only [rlift]; exact Out.ofOption_ne_panic e o

theorem streamShdr0_ne_panic (h : FileHeader) (size : Nat) (proj : SectionHeader → Nat) (r : CachingReader) :
    (streamShdr0 h size proj r).1 ≠ .panic := by
  unfold streamShdr0
  refine rbind_ne_panic _ _ (ofOption_lift_ne_panic _ _ _) (fun end_ r1 _ => ?_)
  refine rbind_ne_panic _ _ (readBytes_ne_panic _ _ _) (fun data r2 _ => ?_)
  have := EntryParser.parse_no_panic SectionHeader.ep total_SectionHeader h.little h.cls data 0
  cases hp : (SectionHeader.ep.parse h.little h.cls data 0).1 with
  | ok a => simp
  | err e => simp
  | panic => exact absurd hp this

theorem collectAll_ne_panic {α} (t : Table α) (ht : t.ep.Total) : collectAll t ≠ .panic := by
  unfold collectAll
  rw [Iter.collect_eq]
  obtain ⟨l, hl⟩ := Iter.collectFuel_ok (t.iter.data.len + 1) t.iter [] ht
  rw [hl]; simp

theorem streamTable_ne_panic {α} (mk : Slice → Table α) (hmk : ∀ b, (mk b).ep.Total) (off entsize n : Nat)
    (r : CachingReader) : (streamTable mk off entsize n r).1 ≠ .panic := by
  unfold streamTable
  refine rbind_ne_panic _ _ (ofOption_lift_ne_panic _ _ _) (fun size r1 _ => ?_)
  refine rbind_ne_panic _ _ (ofOption_lift_ne_panic _ _ _) (fun end_ r2 _ => ?_)
  refine rbind_ne_panic _ _ (readBytes_ne_panic _ _ _) (fun buf r3 _ => ?_)
  exact collectAll_ne_panic (mk buf) (hmk buf)

theorem parseSectionHeaders_ne_panic (h : FileHeader) (r : CachingReader) :
    (parseSectionHeaders h r).1 ≠ .panic := by
  unfold parseSectionHeaders
  split
  · simp
  · refine rbind_ne_panic _ _ (by simp only [rlift]; exact validateEntsize_ne_panic _ _ _) (fun entsize r1 _ => ?_)
    refine rbind_ne_panic _ _ ?_ (fun shnum r2 _ => ?_)
    · split
      · exact streamShdr0_ne_panic h _ _ _
      · simp
    · exact streamTable_ne_panic _ (fun b => total_SectionHeader) _ _ _ _

theorem parseProgramHeaders_ne_panic (h : FileHeader) (r : CachingReader) :
    (parseProgramHeaders h r).1 ≠ .panic := by
  unfold parseProgramHeaders
  split
  · simp
  · refine rbind_ne_panic _ _ ?_ (fun phnum r1 _ => ?_)
    · split
      · exact streamShdr0_ne_panic h _ _ _
      · simp
    · refine rbind_ne_panic _ _ (by simp only [rlift]; exact validateEntsize_ne_panic _ _ _) (fun entsize r2 _ => ?_)
      exact streamTable_ne_panic _ (fun b => total_ProgramHeader) _ _ _ _

theorem parseTail_ne_panic (ident : Bool × Class × Nat × Nat) (buf : Slice) : parseTail ident buf ≠ .panic := by
  unfold parseTail
  have := EntryParser.parse_no_panic FileHeaderTail.ep total_FileHeaderTail ident.1 ident.2.1 buf 0
  cases hp : (FileHeaderTail.ep.parse ident.1 ident.2.1 buf 0).1 with
  | ok a => simp
  | err e => simp
  | panic => exact absurd hp this

/-- **`open_stream` never panics**: any contents, any reader schedule. -/
theorem openStream_ne_panic (sp : Spec) (dev : Device) : (openStream sp dev).1 ≠ .panic := by
  unfold openStream
  have hnew : (CachingReader.new dev).1 ≠ .panic := by
    unfold CachingReader.new
    have := dev.seekEnd_ne_panic
    generalize dev.seekEnd = q at this
    obtain ⟨q1, q2⟩ := q
    cases q1 with
    | ok n => simp
    | err e => simp
    | panic => exact absurd rfl this
  generalize CachingReader.new dev = nw at hnew
  obtain ⟨nw1, nw2⟩ := nw
  cases nw1 with
  | err e => simp
  | panic => exact absurd rfl hnew
  | ok cr =>
    simp only
    refine rbind_ne_panic _ _ (readBytes_ne_panic _ _ _) (fun identBuf r1 _ => ?_)
    refine rbind_ne_panic _ _ (by simp only [rlift]; exact C01.parse_ident_total sp identBuf) (fun ident r2 _ => ?_)
    refine rbind_ne_panic _ _ (by
      simp only [rlift]; unfold uadd; cases ident.2.1 <;> decide) (fun tailEnd r3 _ => ?_)
    refine rbind_ne_panic _ _ (readBytes_ne_panic _ _ _) (fun tailBuf r4 _ => ?_)
    refine rbind_ne_panic _ _ (by simp only [rlift]; exact parseTail_ne_panic _ _) (fun ehdr r5 _ => ?_)
    refine rbind_ne_panic _ _ (parseSectionHeaders_ne_panic _ _) (fun shdrs r6 _ => ?_)
    refine rbind_ne_panic _ _ (parseProgramHeaders_ne_panic _ _) (fun phdrs r7 _ => ?_)
    simp

/-! ### lazy I/O: a load touches only its own range -/

/-- `read_exact(n)` consumes at most `n` bytes, forward from the current position -/
theorem Device.readExact_extent (fuel : Nat) (d : Device) (n : Nat) :
    d.pos ≤ (Device.readExact fuel d n).2.pos ∧ (Device.readExact fuel d n).2.pos ≤ d.pos + n := by
  induction fuel generalizing d n with
  | zero => unfold Device.readExact; split <;> simp
  | succ f ih =>
    unfold Device.readExact
    split
    · simp
    · generalize hr : d.read n = r
      obtain ⟨r1, d1⟩ := r
      cases r1 with
      | got k =>
        have hg := d.read_got n k d1 hr
        cases k with
        | zero => simp only; omega
        | succ k =>
          simp only
          have := ih d1 (n - (k + 1))
          omega
      | interrupted =>
        simp only
        have hp : d1.pos = d.pos := by
          unfold Device.read at hr
          generalize hq : d.nextFault = q at hr
          obtain ⟨f, d2⟩ := q
          have hc := d.nextFault_eq f d2 hq
          cases f <;> simp at hr
          rw [← hr]; exact hc.2.1
        have := ih d1 n
        omega
      | error =>
        simp only
        have hp : d1.pos = d.pos := by
          unfold Device.read at hr
          generalize hq : d.nextFault = q at hr
          obtain ⟨f, d2⟩ := q
          have hc := d.nextFault_eq f d2 hq
          cases f <;> simp at hr
          rw [← hr]; exact hc.2.1
        omega

/-- **`load_bytes(s, e)` leaves the stream position where it was or inside `[s, e]`**: whatever the
    schedule, the bytes it consumes from the stream lie in its own range. -/
theorem loadBytes_extent (r : CachingReader) (s e : Nat) (hse : s ≤ e) :
    (r.loadBytes s e).2.dev.pos = r.dev.pos ∨
    (s ≤ (r.loadBytes s e).2.dev.pos ∧ (r.loadBytes s e).2.dev.pos ≤ e) := by
  unfold CachingReader.loadBytes
  split
  · exact Or.inl rfl
  · split
    · exact Or.inl rfl
    · generalize hsk : r.dev.seekTo s = sk
      obtain ⟨sk1, d1⟩ := sk
      cases sk1 with
      | err er =>
        simp only
        left
        unfold Device.seekTo at hsk
        generalize hq : r.dev.nextFault = q at hsk
        obtain ⟨f, d2⟩ := q
        have hc := r.dev.nextFault_eq f d2 hq
        cases f <;> simp at hsk <;> (rw [← hsk.2]; exact hc.2.1)
      | panic => exact absurd (by rw [hsk]) (r.dev.seekTo_ne_panic s)
      | ok u =>
        simp only
        have hpos : d1.pos = s := (r.dev.seekTo_ok d1 s (by cases u; exact hsk)).1
        have hx := Device.readExact_extent (e - s + d1.sched.length + 1)
          { d1 with trace := d1.trace ++ [IoEvent.alloc (e - s)] } (e - s)
        generalize Device.readExact _ _ _ = re at hx
        obtain ⟨re1, d2⟩ := re
        simp only at hx
        right
        cases re1 <;> simp only <;> omega

end Elf

namespace Elf

theorem readBytes_state (r : CachingReader) (s e : Nat) : (r.readBytes s e).2 = (r.loadBytes s e).2 := by
  unfold CachingReader.readBytes
  generalize r.loadBytes s e = l
  obtain ⟨l1, l2⟩ := l
  cases l1 <;> rfl

/-- **`section_data` reads nothing but the section's own range**: afterwards the stream position is
    where it was, or inside `[sh_offset, sh_offset + sh_size]` — under any schedule, whatever the outcome. -/
theorem sectionData_extent (s : ElfStream) (sh : SectionHeader) :
    (s.sectionData sh).2.reader.dev.pos = s.reader.dev.pos ∨
    (sh.sh_offset ≤ (s.sectionData sh).2.reader.dev.pos ∧
      (s.sectionData sh).2.reader.dev.pos ≤ sh.sh_offset + sh.sh_size) := by
  rw [sectionData_eq]
  split
  · exact Or.inl rfl
  · cases hrg : dataRange sh.sh_offset sh.sh_size with
    | err e => exact Or.inl rfl
    | panic => exact Or.inl rfl
    | ok rg =>
      simp only
      have hr : rg = (sh.sh_offset, sh.sh_offset + sh.sh_size) := by
        rw [C03.dataRange_eq] at hrg
        split at hrg
        · injection hrg with hrg; exact hrg.symm
        · cases hrg
      subst hr
      have hst : (s.withReader (rbind (s.reader.readBytes sh.sh_offset (sh.sh_offset + sh.sh_size))
          fun buf r => (sectionDataPost s.ehdr sh buf, r))).2.reader =
          (s.reader.loadBytes sh.sh_offset (sh.sh_offset + sh.sh_size)).2 := by
        unfold ElfStream.withReader rbind
        rw [← readBytes_state]
        generalize s.reader.readBytes sh.sh_offset (sh.sh_offset + sh.sh_size) = q
        obtain ⟨q1, q2⟩ := q
        cases q1 <;> rfl
      simp only at hst ⊢
      rw [hst]
      exact loadBytes_extent s.reader sh.sh_offset (sh.sh_offset + sh.sh_size) (by omega)

end Elf
