/-
  Lemmas/GnuComplete.lean — completeness of the GNU hash lookup on well-formed tables.
-/
import ElfVerif.Lemmas.Hash
namespace Elf

/-- The run of chain entries that starts at chain index `idx`, as the tables decode it: each
    entry's symbol (index `idx + symoffset`) and name can be read; the run ends at the first entry
    with the stop bit, or at the end of the chain array. -/
inductive GnuChain (t : GnuHashTable) (symtab : Table Symbol) (strtab : Slice) :
    Nat → List (Nat × Symbol × Slice × Nat) → Prop
  | atEnd (idx : Nat) (h : t.chains.len ≤ idx) : GnuChain t symtab strtab idx []
  | last (idx : Nat) (ch : Nat) (sym : Symbol) (w : Slice) (hlt : idx < t.chains.len)
      (hc : t.chains.get idx = .ok ch) (hstop : ch &&& 1 ≠ 0)
      (hadd : idx + t.hdr.table_start_idx < USZ)
      (hs : symtab.get (idx + t.hdr.table_start_idx) = .ok sym)
      (hn : strGetRaw strtab sym.st_name = .ok w) :
      GnuChain t symtab strtab idx [(idx + t.hdr.table_start_idx, sym, w, ch)]
  | more (idx : Nat) (ch : Nat) (sym : Symbol) (w : Slice) (rest : List (Nat × Symbol × Slice × Nat))
      (hlt : idx < t.chains.len)
      (hc : t.chains.get idx = .ok ch) (hstop : ch &&& 1 = 0)
      (hadd : idx + t.hdr.table_start_idx < USZ)
      (hs : symtab.get (idx + t.hdr.table_start_idx) = .ok sym)
      (hn : strGetRaw strtab sym.st_name = .ok w)
      (hr : GnuChain t symtab strtab (idx + 1) rest) :
      GnuChain t symtab strtab idx ((idx + t.hdr.table_start_idx, sym, w, ch) :: rest)

/-- first entry of the run whose chain hash matches (ignoring bit 0) and whose name equals the query -/
def firstGnu (name : Slice) (hash : Nat) : List (Nat × Symbol × Slice × Nat) → Option (Nat × Symbol)
  | [] => none
  | (i, sym, w, ch) :: rest =>
    if (hash ||| 1 = ch ||| 1) ∧ w.beqBytes name = true then some (i, sym) else firstGnu name hash rest

theorem gnuLoop_complete (t : GnuHashTable) (name : Slice) (hash : Nat) (symtab : Table Symbol)
    (strtab : Slice) (idx steps : Nat) (path : List (Nat × Symbol × Slice × Nat))
    (hp : GnuChain t symtab strtab idx path) :
    (gnuLoop t name hash symtab strtab (t.chains.len - idx) idx steps).1 = .ok (firstGnu name hash path) := by
  induction hp generalizing steps with
  | atEnd idx h =>
    have : t.chains.len - idx = 0 := by omega
    rw [this]; simp [gnuLoop, firstGnu]
  | last idx ch sym w hlt hc hstop hadd hs hn =>
    have hf : t.chains.len - idx = (t.chains.len - idx - 1) + 1 := by omega
    rw [hf]
    unfold gnuLoop
    simp only [hc, firstGnu]
    have hca : checkedAdd idx t.hdr.table_start_idx = some (idx + t.hdr.table_start_idx) := by
      unfold checkedAdd; simp [hadd]
    by_cases hm : hash ||| 1 = ch ||| 1
    · simp only [hm, if_true, hca, hs, hn, true_and]
      by_cases hb : w.beqBytes name = true
      · simp [hb]
      · simp only [hb, Bool.false_eq_true, if_false, hstop, ne_eq, not_false_eq_true, if_true]
    · simp only [hm, if_false, false_and, hstop, ne_eq, not_false_eq_true, if_true]
  | more idx ch sym w rest hlt hc hstop hadd hs hn hr ih =>
    have hf : t.chains.len - idx = (t.chains.len - (idx + 1)) + 1 := by omega
    rw [hf]
    unfold gnuLoop
    simp only [hc, firstGnu]
    have hca : checkedAdd idx t.hdr.table_start_idx = some (idx + t.hdr.table_start_idx) := by
      unfold checkedAdd; simp [hadd]
    have hstop' : ¬ (ch &&& 1 ≠ 0) := by simp [hstop]
    by_cases hm : hash ||| 1 = ch ||| 1
    · simp only [hm, if_true, hca, hs, hn, true_and]
      by_cases hb : w.beqBytes name = true
      · simp [hb]
      · simp only [hb, Bool.false_eq_true, if_false, hstop']
        exact ih (steps + 1)
    · simp only [hm, if_false, false_and, hstop']
      exact ih (steps + 1)

/-- the two bloom bits of a hash are set in its bloom word -/
def bloomAccepts (t : GnuHashTable) (hash filter : Nat) : Prop :=
  filter &&& (1 <<< (hash % bloomWidth t.cls)) ≠ 0 ∧
  filter &&& (1 <<< ((hash >>> t.hdr.nshift) % bloomWidth t.cls)) ≠ 0

/-- A well-formed `.gnu.hash` section for `(symtab, strtab)`. -/
structure WFGnu (t : GnuHashTable) (symtab : Table Symbol) (strtab : Slice) : Prop where
  nbucket_pos : t.buckets.len ≠ 0
  nbloom_pos : t.hdr.nbloom ≠ 0
  shift_lt : t.hdr.nshift < 32
  bloom_readable : ∀ w, w < t.hdr.nbloom → ∃ f, t.bloomTable.get w = .ok f
  buckets_ok : ∀ b, b < t.buckets.len → ∃ start, t.buckets.get b = .ok start ∧
    (start < t.hdr.table_start_idx ∨
      ∃ path, GnuChain t symtab strtab (start - t.hdr.table_start_idx) path)

/-- **On a well-formed table**: the lookup is `None` if the bloom filter rejects the hash or the
    bucket is empty, and otherwise the first entry of the bucket's run whose hash matches and
    whose name equals the query. -/
theorem gnu_find_wf (t : GnuHashTable) (name : Slice) (symtab : Table Symbol) (strtab : Slice)
    (hw : WFGnu t symtab strtab) :
    ∃ filter start,
      t.bloomTable.get (gnuHash name / bloomWidth t.cls % t.hdr.nbloom) = .ok filter ∧
      t.buckets.get (gnuHash name % t.buckets.len) = .ok start ∧
      ((¬ bloomAccepts t (gnuHash name) filter ∨ start < t.hdr.table_start_idx) →
        t.find name symtab strtab = .ok none) ∧
      (bloomAccepts t (gnuHash name) filter → ¬ start < t.hdr.table_start_idx →
        ∃ path, GnuChain t symtab strtab (start - t.hdr.table_start_idx) path ∧
          t.find name symtab strtab = .ok (firstGnu name (gnuHash name) path)) := by
  have hwi : gnuHash name / bloomWidth t.cls % t.hdr.nbloom < t.hdr.nbloom :=
    Nat.mod_lt _ (Nat.pos_of_ne_zero hw.nbloom_pos)
  obtain ⟨filter, hfil⟩ := hw.bloom_readable _ hwi
  have hbi : gnuHash name % t.buckets.len < t.buckets.len := Nat.mod_lt _ (Nat.pos_of_ne_zero hw.nbucket_pos)
  obtain ⟨start, hstart, hrun⟩ := hw.buckets_ok _ hbi
  refine ⟨filter, start, hfil, hstart, ?_, ?_⟩
  · intro hrej
    unfold GnuHashTable.find GnuHashTable.findSteps
    have hne : (t.buckets.isEmpty || t.hdr.nbloom == 0) = false := by
      simp [Table.isEmpty, hw.nbucket_pos, hw.nbloom_pos]
    simp only [hne, Bool.false_eq_true, if_false, umod, hw.nbloom_pos, hw.nbucket_pos, hfil, hstart]
    have hsh : ¬ t.hdr.nshift ≥ 32 := by have := hw.shift_lt; omega
    unfold bloomAccepts at hrej
    by_cases h1 : filter &&& 1 <<< (gnuHash name % bloomWidth t.cls) = 0
    · simp [h1]
    · simp only [h1, if_false, hsh]
      by_cases h2 : filter &&& 1 <<< (gnuHash name >>> t.hdr.nshift % bloomWidth t.cls) = 0
      · simp [h2]
      · simp only [h2, if_false]
        rcases hrej with hr | hr
        · exact absurd ⟨h1, h2⟩ hr
        · simp [hr]
  · intro hacc hge
    rcases hrun with hlt | ⟨path, hpath⟩
    · exact absurd hlt hge
    · refine ⟨path, hpath, ?_⟩
      unfold GnuHashTable.find GnuHashTable.findSteps
      have hne : (t.buckets.isEmpty || t.hdr.nbloom == 0) = false := by
        simp [Table.isEmpty, hw.nbucket_pos, hw.nbloom_pos]
      simp only [hne, Bool.false_eq_true, if_false, umod, hw.nbloom_pos, hw.nbucket_pos, hfil, hstart]
      have hsh : ¬ t.hdr.nshift ≥ 32 := by have := hw.shift_lt; omega
      obtain ⟨h1, h2⟩ := hacc
      have hle : t.hdr.table_start_idx ≤ start := by omega
      simp only [h1, if_false, hsh, h2, hge, usub, hle, if_true]
      exact gnuLoop_complete t name (gnuHash name) symtab strtab _ 0 path hpath

theorem firstGnu_some (name : Slice) (hash : Nat) (path : List (Nat × Symbol × Slice × Nat))
    (e : Nat × Symbol × Slice × Nat) (hm : e ∈ path)
    (hh : hash ||| 1 = e.2.2.2 ||| 1) (hn : e.2.2.1.beqBytes name = true) :
    ∃ j s, firstGnu name hash path = some (j, s) ∧
      ∃ e', e' ∈ path ∧ e'.1 = j ∧ e'.2.1 = s ∧ e'.2.2.1.beqBytes name = true := by
  induction path with
  | nil => cases hm
  | cons a rest ih =>
    obtain ⟨a1, a2, a3, a4⟩ := a
    simp only [firstGnu]
    by_cases ha : (hash ||| 1 = a4 ||| 1) ∧ a3.beqBytes name = true
    · exact ⟨a1, a2, by simp [ha], (a1, a2, a3, a4), List.mem_cons_self .., rfl, rfl, ha.2⟩
    · simp only [ha, if_false]
      rcases List.mem_cons.mp hm with he | hm'
      · subst he; exact absurd ⟨hh, hn⟩ ha
      · obtain ⟨j, s, h1, e', h2, h3⟩ := ih hm'
        exact ⟨j, s, h1, e', List.mem_cons_of_mem _ h2, h3⟩

theorem firstGnu_none (name : Slice) (hash : Nat) (path : List (Nat × Symbol × Slice × Nat))
    (h : ∀ e, e ∈ path → e.2.2.1.beqBytes name = false) : firstGnu name hash path = none := by
  induction path with
  | nil => rfl
  | cons a rest ih =>
    obtain ⟨a1, a2, a3, a4⟩ := a
    have := h (a1, a2, a3, a4) (List.mem_cons_self ..)
    simp only at this
    simp only [firstGnu, this, Bool.false_eq_true, and_false, if_false]
    exact ih (fun e he => h e (List.mem_cons_of_mem _ he))

/-- the decoded run from a given chain index is unique -/
theorem GnuChain.unique {t : GnuHashTable} {symtab : Table Symbol} {strtab : Slice} {i : Nat}
    {p q : List (Nat × Symbol × Slice × Nat)} (hp : GnuChain t symtab strtab i p)
    (hq : GnuChain t symtab strtab i q) : p = q := by
  induction hp generalizing q with
  | atEnd idx h =>
    cases hq with
    | atEnd _ _ => rfl
    | last _ ch sym w hlt _ _ _ _ _ => omega
    | more _ ch sym w rest hlt _ _ _ _ _ _ => omega
  | last idx ch sym w hlt hc hstop hadd hs hn =>
    cases hq with
    | atEnd _ h => omega
    | last _ ch' sym' w' _ hc' _ _ hs' hn' =>
      rw [hc] at hc'; injection hc' with hc'; subst hc'
      rw [hs] at hs'; injection hs' with hs'; subst hs'
      rw [hn] at hn'; injection hn' with hn'; subst hn'
      rfl
    | more _ ch' sym' w' rest' _ hc' hstop' _ _ _ _ =>
      rw [hc] at hc'; injection hc' with hc'; subst hc'
      exact absurd hstop' hstop
  | more idx ch sym w rest hlt hc hstop hadd hs hn hr ih =>
    cases hq with
    | atEnd _ h => omega
    | last _ ch' sym' w' _ hc' hstop' _ _ _ =>
      rw [hc] at hc'; injection hc' with hc'; subst hc'
      exact absurd hstop hstop'
    | more _ ch' sym' w' rest' _ hc' _ _ hs' hn' hr' =>
      rw [hc] at hc'; injection hc' with hc'; subst hc'
      rw [hs] at hs'; injection hs' with hs'; subst hs'
      rw [hn] at hn'; injection hn' with hn'; subst hn'
      rw [ih hr']

end Elf
