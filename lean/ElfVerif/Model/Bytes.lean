/-
  Model/Bytes.lean — a slice is a *window* into the caller's buffer, never a copy.
-/
import ElfVerif.Model.Basic
namespace Elf

structure Slice where
  buf : Array UInt8
  start : Nat
  stop : Nat
  deriving DecidableEq

namespace Slice

@[inline] def len (s : Slice) : Nat := s.stop - s.start

/-- Well-formed window; `buf.size < 2^63` is Rust's `len ≤ isize::MAX`. -/
def WF (s : Slice) : Prop := s.start ≤ s.stop ∧ s.stop ≤ s.buf.size ∧ s.buf.size < 2 ^ 63

@[inline] def ofArray (b : Array UInt8) : Slice := ⟨b, 0, b.size⟩

/-- The static empty slice `&[]`. -/
def empty : Slice := ⟨#[], 0, 0⟩

/-- Byte `i` of the window, as a natural.  Only meaningful for `i < len` (every use is guarded). -/
@[inline] def byte (s : Slice) (i : Nat) : Nat := (s.buf.getD (s.start + i) 0).toNat

@[inline] def isEmpty (s : Slice) : Bool := s.len == 0

/-- `slice.get(a..b)`. -/
@[inline] def get? (s : Slice) (a b : Nat) : Option Slice :=
  if a ≤ b ∧ b ≤ s.len then some ⟨s.buf, s.start + a, s.start + b⟩ else none

/-- `slice.get(a..)`. -/
@[inline] def getFrom? (s : Slice) (a : Nat) : Option Slice :=
  if a ≤ s.len then some ⟨s.buf, s.start + a, s.stop⟩ else none

/-- `ReadBytesExt::get_bytes(a..b)`. -/
@[inline] def getBytes (s : Slice) (a b : Nat) : Out Slice :=
  Out.ofOption (.SliceReadError a b) (s.get? a b)

/-- The window's content. -/
def toList (s : Slice) : List UInt8 := (s.buf.extract s.start s.stop).toList

/-- Byte-wise equality of contents (`&[u8] == &[u8]`). -/
def eqAux (s t : Slice) : Nat → Nat → Bool
  | _, 0 => true
  | i, n + 1 => s.byte i == t.byte i && eqAux s t (i + 1) n

def beqBytes (s t : Slice) : Bool :=
  s.len == t.len && eqAux s t 0 s.len

end Slice
end Elf
