/-
  Model/Cfg.lean — cargo features and `cfg` predicates (lib.rs, Cargo.toml).
-/
namespace Elf.Cfg

/-- a feature set as three booleans: alloc, std, to_str -/
structure FS where
  alloc : Bool
  std : Bool
  toStr : Bool
  deriving DecidableEq, Repr

def FS.get (f : FS) : Nat → Bool
  | 0 => f.alloc
  | 1 => f.std
  | _ => f.toStr

def FS.set (f : FS) : Nat → FS
  | 0 => { f with alloc := true }
  | 1 => { f with std := true }
  | _ => { f with toStr := true }

/-- one round of `[features]` implications -/
def implyOnce (imp : List (Nat × List Nat)) (f : FS) : FS :=
  imp.foldl (fun acc r => if acc.get r.1 then r.2.foldl FS.set acc else acc) f

/-- closure under the implications (three rounds suffice for three features) -/
def closure (imp : List (Nat × List Nat)) (f : FS) : FS := implyOnce imp (implyOnce imp (implyOnce imp f))

inductive Pred where
  | feat (i : Nat)
  | not (p : Pred)
  | all (ps : List Pred)
  | any (ps : List Pred)
  | test     -- `cfg(test)`: false in the builds the property speaks about
  | other
  deriving Repr, Inhabited

mutual
def Pred.eval (f : FS) : Pred → Bool
  | .feat i => f.get i
  | .not p => !(p.eval f)
  | .all ps => evalAll f ps
  | .any ps => evalAny f ps
  | .test => false
  | .other => true
def evalAll (f : FS) : List Pred → Bool
  | [] => true
  | p :: ps => p.eval f && evalAll f ps
def evalAny (f : FS) : List Pred → Bool
  | [] => false
  | p :: ps => p.eval f || evalAny f ps
end

def allSubsets : List FS :=
  [⟨false, false, false⟩, ⟨true, false, false⟩, ⟨false, true, false⟩, ⟨false, false, true⟩,
   ⟨true, true, false⟩, ⟨true, false, true⟩, ⟨false, true, true⟩, ⟨true, true, true⟩]

end Elf.Cfg
