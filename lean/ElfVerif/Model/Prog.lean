/-
  Model/Prog.lean — reflective straight-line struct programs and their interpreter.
  The translator emits one `Prog` per (`impl ParseAt`, class); see Generated/ParseProgs.lean.
-/
import ElfVerif.Model.Endian
namespace Elf

/-- Field expressions over the values read so far.  `cast` is Rust's integer `as`:
    reduce modulo `2^bits` and reinterpret in the target's signedness. -/
inductive Expr where
  | rd (k : Nat)
  | cast (t : Ty) (e : Expr)
  | shr (e : Expr) (n : Nat)
  | land (e : Expr) (m : Nat)
  deriving Repr, Inhabited, DecidableEq

/-- A guard `if read[k] != want { return Err(UnsupportedVersion((read[k], reported))) }`
    executed immediately after read `k`. -/
structure Guard where
  k : Nat
  want : Int
  reported : Nat
  deriving Repr, Inhabited, DecidableEq

structure Prog where
  reads : List Ty
  guard : Option Guard
  fields : List Expr
  deriving Repr, Inhabited, DecidableEq

def castInt (t : Ty) (v : Int) : Int :=
  let m : Int := (2 ^ (8 * t.width) : Nat)
  let u := v % m
  if t.signed then (if u < (2 ^ (8 * t.width - 1) : Nat) then u else u - m) else u

def Expr.eval (vals : List Int) : Expr → Int
  | .rd k => vals.getD k 0
  | .cast t e => castInt t (e.eval vals)
  | .shr e n => (e.eval vals) / ((2 ^ n : Nat) : Int)
  | .land e m => ((e.eval vals).toNat &&& m : Nat)

/-- Largest read index mentioned (for the well-scopedness check `Expr.scoped`). -/
def Expr.scoped (n : Nat) : Expr → Bool
  | .rd k => k < n
  | .cast _ e => e.scoped n
  | .shr e _ => e.scoped n
  | .land e _ => e.scoped n

def Prog.size (p : Prog) : Nat := (p.reads.map Ty.width).sum

/-- Perform the reads left to right; `i` is the index of the next read, `acc` the values so far
    (in order).  The guard fires right after its read, before any later read is attempted. -/
def runReads (little : Bool) (d : Slice) (g : Option Guard) :
    List Ty → Nat → List Int → ParseM (List Int)
  | [], _, acc => pure acc
  | t :: ts, i, acc => fun off =>
    match readTy little t d off with
    | (.ok v, off') =>
      match g with
      | some gd =>
        if gd.k = i ∧ v ≠ gd.want then (.err (.UnsupportedVersion v.toNat gd.reported), off')
        else runReads little d g ts (i + 1) (acc ++ [v]) off'
      | none => runReads little d g ts (i + 1) (acc ++ [v]) off'
    | (.err e, off') => (.err e, off')
    | (.panic, off') => (.panic, off')

/-- Interpreter: field values in the program's canonical field order. -/
def interp (p : Prog) (little : Bool) (d : Slice) : ParseM (List Int) := fun off =>
  match runReads little d p.guard p.reads 0 [] off with
  | (.ok vals, off') => (.ok (p.fields.map (Expr.eval vals)), off')
  | (.err e, off') => (.err e, off')
  | (.panic, off') => (.panic, off')

end Elf
