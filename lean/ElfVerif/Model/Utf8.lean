/-
  Model/Utf8.lean — well-formed UTF-8 byte sequences, Unicode Standard Table 3-7.
  `core::str::from_utf8` succeeds exactly on these (trusted base: that std does).
-/
import ElfVerif.Model.Bytes
namespace Elf

@[inline] def isCont (b : Nat) : Bool := 0x80 ≤ b && b ≤ 0xBF

/-- Validate `n` bytes of `s` from index `i`; `fuel` bounds the number of scalars (≤ n). -/
def utf8From (s : Slice) : Nat → Nat → Nat → Bool
  | _, _, 0 => true
  | 0, _, _ => false
  | fuel + 1, i, n + 1 =>
    let b0 := s.byte i
    if b0 ≤ 0x7F then utf8From s fuel (i + 1) n
    else if 0xC2 ≤ b0 && b0 ≤ 0xDF then
      n ≥ 1 && isCont (s.byte (i + 1)) && utf8From s fuel (i + 2) (n - 1)
    else if b0 == 0xE0 then
      n ≥ 2 && (0xA0 ≤ s.byte (i + 1) && s.byte (i + 1) ≤ 0xBF) && isCont (s.byte (i + 2))
        && utf8From s fuel (i + 3) (n - 2)
    else if (0xE1 ≤ b0 && b0 ≤ 0xEC) || b0 == 0xEE || b0 == 0xEF then
      n ≥ 2 && isCont (s.byte (i + 1)) && isCont (s.byte (i + 2))
        && utf8From s fuel (i + 3) (n - 2)
    else if b0 == 0xED then
      n ≥ 2 && (0x80 ≤ s.byte (i + 1) && s.byte (i + 1) ≤ 0x9F) && isCont (s.byte (i + 2))
        && utf8From s fuel (i + 3) (n - 2)
    else if b0 == 0xF0 then
      n ≥ 3 && (0x90 ≤ s.byte (i + 1) && s.byte (i + 1) ≤ 0xBF) && isCont (s.byte (i + 2))
        && isCont (s.byte (i + 3)) && utf8From s fuel (i + 4) (n - 3)
    else if 0xF1 ≤ b0 && b0 ≤ 0xF3 then
      n ≥ 3 && isCont (s.byte (i + 1)) && isCont (s.byte (i + 2))
        && isCont (s.byte (i + 3)) && utf8From s fuel (i + 4) (n - 3)
    else if b0 == 0xF4 then
      n ≥ 3 && (0x80 ≤ s.byte (i + 1) && s.byte (i + 1) ≤ 0x8F) && isCont (s.byte (i + 2))
        && isCont (s.byte (i + 3)) && utf8From s fuel (i + 4) (n - 3)
    else false

def validUtf8 (s : Slice) : Bool := utf8From s s.len 0 s.len

end Elf
