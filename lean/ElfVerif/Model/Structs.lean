/-
  Model/Structs.lean — typed records, built from the interpreter's output for the *generated*
  programs.  Field order of `ofVals` is the canonical order fixed in translator/translate.py
  (CANON); a length mismatch is modelled as `panic`, and `Props/C01` proves it unreachable.
-/
import ElfVerif.Model.Prog
import ElfVerif.Generated.ParseProgs
import ElfVerif.Generated.AbiConsts
import ElfVerif.Generated.Accessors
namespace Elf

/-- An entry kind: generated program, declared size, and record constructor. -/
structure EntryParser (α : Type) where
  prog : Class → Prog
  size : Class → Nat
  build : List Int → Option α

@[inline] def EntryParser.parse {α} (ep : EntryParser α) (little : Bool) (c : Class) (d : Slice) :
    ParseM α := fun off =>
  match interp (ep.prog c) little d off with
  | (.ok vs, off') =>
    (match ep.build vs with
     | some a => (.ok a, off')
     | none => (.panic, off'))
  | (.err e, off') => (.err e, off')
  | (.panic, off') => (.panic, off')

/-- `ParseAt::validate_entsize`. -/
def EntryParser.validateEntsize {α} (ep : EntryParser α) (c : Class) (entsize : Nat) : Out Nat :=
  if entsize = ep.size c then .ok entsize else .err (.BadEntsize entsize (ep.size c))

structure SectionHeader where
  sh_name : Nat
  sh_type : Nat
  sh_flags : Nat
  sh_addr : Nat
  sh_offset : Nat
  sh_size : Nat
  sh_link : Nat
  sh_info : Nat
  sh_addralign : Nat
  sh_entsize : Nat
  deriving Repr, DecidableEq, Inhabited

def SectionHeader.ofVals : List Int → Option SectionHeader
  | [a, b, c, d, e, f, g, h, i, j] =>
    some ⟨a.toNat, b.toNat, c.toNat, d.toNat, e.toNat, f.toNat, g.toNat, h.toNat, i.toNat, j.toNat⟩
  | _ => none

def SectionHeader.ep : EntryParser SectionHeader :=
  ⟨Gen.prog_SectionHeader, Gen.size_SectionHeader, SectionHeader.ofVals⟩

structure ProgramHeader where
  p_type : Nat
  p_offset : Nat
  p_vaddr : Nat
  p_paddr : Nat
  p_filesz : Nat
  p_memsz : Nat
  p_flags : Nat
  p_align : Nat
  deriving Repr, DecidableEq, Inhabited

def ProgramHeader.ofVals : List Int → Option ProgramHeader
  | [a, b, c, d, e, f, g, h] =>
    some ⟨a.toNat, b.toNat, c.toNat, d.toNat, e.toNat, f.toNat, g.toNat, h.toNat⟩
  | _ => none

def ProgramHeader.ep : EntryParser ProgramHeader :=
  ⟨Gen.prog_ProgramHeader, Gen.size_ProgramHeader, ProgramHeader.ofVals⟩

structure Symbol where
  st_name : Nat
  st_shndx : Nat
  st_info : Nat
  st_other : Nat
  st_value : Nat
  st_size : Nat
  deriving Repr, DecidableEq, Inhabited

def Symbol.ofVals : List Int → Option Symbol
  | [a, b, c, d, e, f] => some ⟨a.toNat, b.toNat, c.toNat, d.toNat, e.toNat, f.toNat⟩
  | _ => none

def Symbol.ep : EntryParser Symbol := ⟨Gen.prog_Symbol, Gen.size_Symbol, Symbol.ofVals⟩

/- The derived accessors are the *generated* translations of the Rust bodies (Generated/Accessors.lean), applied to
   exactly the fields the ABI macros are functions of — passed by name, so an accessor that starts to read another
   field no longer fits here.  Each argument is reduced to the width of the Rust field (`u8`, `u16`): the records the
   parsers build are already in range, so this changes no value, and it makes the specification lemmas hold for every
   record without a range premise. -/
def Symbol.isUndefined (s : Symbol) : Bool := Gen.acc_Symbol_is_undefined (st_shndx := s.st_shndx % 65536)
def Symbol.stSymtype (s : Symbol) : Nat := Gen.acc_Symbol_st_symtype (st_info := s.st_info % 256)
def Symbol.stBind (s : Symbol) : Nat := Gen.acc_Symbol_st_bind (st_info := s.st_info % 256)
def Symbol.stVis (s : Symbol) : Nat := Gen.acc_Symbol_st_vis (st_other := s.st_other % 256)

structure Rel where
  r_offset : Nat
  r_sym : Nat
  r_type : Nat
  deriving Repr, DecidableEq, Inhabited

def Rel.ofVals : List Int → Option Rel
  | [a, b, c] => some ⟨a.toNat, b.toNat, c.toNat⟩
  | _ => none

def Rel.ep : EntryParser Rel := ⟨Gen.prog_Rel, Gen.size_Rel, Rel.ofVals⟩

structure Rela where
  r_offset : Nat
  r_sym : Nat
  r_type : Nat
  r_addend : Int
  deriving Repr, DecidableEq, Inhabited

def Rela.ofVals : List Int → Option Rela
  | [a, b, c, d] => some ⟨a.toNat, b.toNat, c.toNat, d⟩
  | _ => none

def Rela.ep : EntryParser Rela := ⟨Gen.prog_Rela, Gen.size_Rela, Rela.ofVals⟩

structure Dyn where
  d_tag : Int
  d_un : Nat
  deriving Repr, DecidableEq, Inhabited

def Dyn.ofVals : List Int → Option Dyn
  | [a, b] => some ⟨a, b.toNat⟩
  | _ => none

def Dyn.dVal (d : Dyn) : Nat := Gen.acc_Dyn_d_val (d_un := d.d_un)
def Dyn.dPtr (d : Dyn) : Nat := Gen.acc_Dyn_d_ptr (d_un := d.d_un)

def Dyn.ep : EntryParser Dyn := ⟨Gen.prog_Dyn, Gen.size_Dyn, Dyn.ofVals⟩

structure CompressionHeader where
  ch_type : Nat
  ch_size : Nat
  ch_addralign : Nat
  deriving Repr, DecidableEq, Inhabited

def CompressionHeader.ofVals : List Int → Option CompressionHeader
  | [a, b, c] => some ⟨a.toNat, b.toNat, c.toNat⟩
  | _ => none

def CompressionHeader.ep : EntryParser CompressionHeader :=
  ⟨Gen.prog_CompressionHeader, Gen.size_CompressionHeader, CompressionHeader.ofVals⟩

structure NoteHeader where
  n_namesz : Nat
  n_descsz : Nat
  n_type : Nat
  deriving Repr, DecidableEq, Inhabited

def NoteHeader.ofVals : List Int → Option NoteHeader
  | [a, b, c] => some ⟨a.toNat, b.toNat, c.toNat⟩
  | _ => none

def NoteHeader.ep : EntryParser NoteHeader :=
  ⟨Gen.prog_NoteHeader, Gen.size_NoteHeader, NoteHeader.ofVals⟩

structure NoteGnuAbiTag where
  os : Nat
  major : Nat
  minor : Nat
  subminor : Nat
  deriving Repr, DecidableEq, Inhabited

def NoteGnuAbiTag.ofVals : List Int → Option NoteGnuAbiTag
  | [a, b, c, d] => some ⟨a.toNat, b.toNat, c.toNat, d.toNat⟩
  | _ => none

def NoteGnuAbiTag.ep : EntryParser NoteGnuAbiTag :=
  ⟨Gen.prog_NoteGnuAbiTag, Gen.size_NoteGnuAbiTag, NoteGnuAbiTag.ofVals⟩

structure SysVHashHeader where
  nbucket : Nat
  nchain : Nat
  deriving Repr, DecidableEq, Inhabited

def SysVHashHeader.ofVals : List Int → Option SysVHashHeader
  | [a, b] => some ⟨a.toNat, b.toNat⟩
  | _ => none

def SysVHashHeader.ep : EntryParser SysVHashHeader :=
  ⟨Gen.prog_SysVHashHeader, Gen.size_SysVHashHeader, SysVHashHeader.ofVals⟩

structure GnuHashHeader where
  nbucket : Nat
  table_start_idx : Nat
  nbloom : Nat
  nshift : Nat
  deriving Repr, DecidableEq, Inhabited

def GnuHashHeader.ofVals : List Int → Option GnuHashHeader
  | [a, b, c, d] => some ⟨a.toNat, b.toNat, c.toNat, d.toNat⟩
  | _ => none

def GnuHashHeader.ep : EntryParser GnuHashHeader :=
  ⟨Gen.prog_GnuHashHeader, Gen.size_GnuHashHeader, GnuHashHeader.ofVals⟩

/-- One-field entries (`u32`, `u64`, `VersionIndex`). -/
def natOfVals : List Int → Option Nat
  | [a] => some a.toNat
  | _ => none

def U32.ep : EntryParser Nat := ⟨Gen.prog_u32, Gen.size_u32, natOfVals⟩
def U64.ep : EntryParser Nat := ⟨Gen.prog_u64, Gen.size_u64, natOfVals⟩
def VersionIndex.ep : EntryParser Nat :=
  ⟨Gen.prog_VersionIndex, Gen.size_VersionIndex, natOfVals⟩

def VersionIndex.index (v : Nat) : Nat := Gen.acc_VersionIndex_index (v0 := v % 65536)
def VersionIndex.isLocal (v : Nat) : Bool := Gen.acc_VersionIndex_is_local (v0 := v % 65536)
def VersionIndex.isGlobal (v : Nat) : Bool := Gen.acc_VersionIndex_is_global (v0 := v % 65536)
def VersionIndex.isHidden (v : Nat) : Bool := Gen.acc_VersionIndex_is_hidden (v0 := v % 65536)

structure VerDef where
  vd_flags : Nat
  vd_ndx : Nat
  vd_cnt : Nat
  vd_hash : Nat
  vd_aux : Nat
  vd_next : Nat
  deriving Repr, DecidableEq, Inhabited

def VerDef.ofVals : List Int → Option VerDef
  | [a, b, c, d, e, f] => some ⟨a.toNat, b.toNat, c.toNat, d.toNat, e.toNat, f.toNat⟩
  | _ => none

def VerDef.ep : EntryParser VerDef := ⟨Gen.prog_VerDef, Gen.size_VerDef, VerDef.ofVals⟩

structure VerDefAux where
  vda_name : Nat
  vda_next : Nat
  deriving Repr, DecidableEq, Inhabited

def VerDefAux.ofVals : List Int → Option VerDefAux
  | [a, b] => some ⟨a.toNat, b.toNat⟩
  | _ => none

def VerDefAux.ep : EntryParser VerDefAux :=
  ⟨Gen.prog_VerDefAux, Gen.size_VerDefAux, VerDefAux.ofVals⟩

structure VerNeed where
  vn_cnt : Nat
  vn_file : Nat
  vn_aux : Nat
  vn_next : Nat
  deriving Repr, DecidableEq, Inhabited

def VerNeed.ofVals : List Int → Option VerNeed
  | [a, b, c, d] => some ⟨a.toNat, b.toNat, c.toNat, d.toNat⟩
  | _ => none

def VerNeed.ep : EntryParser VerNeed := ⟨Gen.prog_VerNeed, Gen.size_VerNeed, VerNeed.ofVals⟩

structure VerNeedAux where
  vna_hash : Nat
  vna_flags : Nat
  vna_other : Nat
  vna_name : Nat
  vna_next : Nat
  deriving Repr, DecidableEq, Inhabited

def VerNeedAux.ofVals : List Int → Option VerNeedAux
  | [a, b, c, d, e] => some ⟨a.toNat, b.toNat, c.toNat, d.toNat, e.toNat⟩
  | _ => none

def VerNeedAux.ep : EntryParser VerNeedAux :=
  ⟨Gen.prog_VerNeedAux, Gen.size_VerNeedAux, VerNeedAux.ofVals⟩

/-- The 13 read fields of the file header's tail (after `e_ident`). -/
structure FileHeaderTail where
  version : Nat
  e_type : Nat
  e_machine : Nat
  e_entry : Nat
  e_phoff : Nat
  e_shoff : Nat
  e_flags : Nat
  e_ehsize : Nat
  e_phentsize : Nat
  e_phnum : Nat
  e_shentsize : Nat
  e_shnum : Nat
  e_shstrndx : Nat
  deriving Repr, DecidableEq, Inhabited

def FileHeaderTail.ofVals : List Int → Option FileHeaderTail
  | [a, b, c, d, e, f, g, h, i, j, k, l, m] =>
    some ⟨a.toNat, b.toNat, c.toNat, d.toNat, e.toNat, f.toNat, g.toNat, h.toNat, i.toNat,
          j.toNat, k.toNat, l.toNat, m.toNat⟩
  | _ => none

def FileHeaderTail.ep : EntryParser FileHeaderTail :=
  ⟨Gen.prog_FileHeaderTail, Gen.size_FileHeaderTail, FileHeaderTail.ofVals⟩

end Elf
