/-
  Model/CfgEval.lean — what the generated gate table means for a feature set.
-/
import ElfVerif.Generated.Features
namespace Elf.Cfg

/-- the effective feature set cargo passes to rustc -/
def eff (f : FS) : FS := closure Gen.featureImplies f

/-- the crate is compiled `#![no_std]` -/
def noStd (f : FS) : Bool :=
  Gen.unconditionalNoStd || (match Gen.crateNoStd with | some p => p.eval (eff f) | none => false)

/-- `extern crate alloc` is in scope -/
def externAlloc (f : FS) : Bool :=
  Gen.externCrates.any fun e => e.1 == 0 && evalAll (eff f) e.2

def externStd (f : FS) : Bool :=
  Gen.externCrates.any fun e => e.1 == 1 && evalAll (eff f) e.2

/-- the standard library is available: not no_std, or explicitly linked -/
def hasStd (f : FS) : Bool := !noStd f || externStd f

end Elf.Cfg
