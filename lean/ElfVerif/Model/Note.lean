/-
  Model/Note.lean — `Note::parse_at`, `NoteIterator`, `NoteAny::name_str` (note.rs).
-/
import ElfVerif.Model.Table
import ElfVerif.Model.StrTab
namespace Elf

inductive Note where
  | gnuAbiTag (t : NoteGnuAbiTag)
  | gnuBuildId (desc : Slice)
  | unknown (n_type : Nat) (name : Slice) (desc : Slice)

/-- `if *offset % align > 0 { *offset = offset.checked_add(align - *offset % align)? }`.
    `%` and `-` are unchecked in Rust: modelled with `umod`/`usub`. -/
def notePad (align : Nat) (off : Nat) : Out Nat :=
  (umod off align).bind fun r =>
  if r > 0 then
    (usub align r).bind fun pad =>
    Out.ofOption .IntegerOverflow (checkedAdd off pad)
  else .ok off

/-- `data == b"GNU\0"`. -/
def isGnuName (name : Slice) : Bool :=
  name.len == Abi.ELF_NOTE_GNU.length &&
    (List.range name.len).all fun i => name.byte i == Abi.ELF_NOTE_GNU.getD i 256

def Note.parseAt (little : Bool) (cls : Class) (align : Nat) (data : Slice) : ParseM Note := fun off =>
  if align = 0 then (.err (.UnexpectedAlignment align), off) else
  match NoteHeader.ep.parse little .ELF32 data off with
  | (.err e, o) => (.err e, o)
  | (.panic, o) => (.panic, o)
  | (.ok nhdr, o1) =>
    -- name
    match checkedAdd o1 nhdr.n_namesz with
    | none => (.err .IntegerOverflow, o1)
    | some nameEnd =>
    match data.get? o1 nameEnd with
    | none => (.err (.SliceReadError o1 nameEnd), o1)
    | some name =>
    match notePad align nameEnd with
    | .err e => (.err e, nameEnd)
    | .panic => (.panic, nameEnd)
    | .ok o2 =>
    -- desc
    match checkedAdd o2 nhdr.n_descsz with
    | none => (.err .IntegerOverflow, o2)
    | some descEnd =>
    match data.get? o2 descEnd with
    | none => (.err (.SliceReadError o2 descEnd), o2)
    | some desc =>
    match notePad align descEnd with
    | .err e => (.err e, descEnd)
    | .panic => (.panic, descEnd)
    | .ok o3 =>
    if isGnuName name then
      if nhdr.n_type = Abi.NT_GNU_ABI_TAG then
        match (NoteGnuAbiTag.ep.parse little cls desc 0).1 with
        | .ok t => (.ok (.gnuAbiTag t), o3)
        | .err e => (.err e, o3)
        | .panic => (.panic, o3)
      else if nhdr.n_type = Abi.NT_GNU_BUILD_ID then (.ok (.gnuBuildId desc), o3)
      else (.ok (.unknown nhdr.n_type name desc), o3)
    else (.ok (.unknown nhdr.n_type name desc), o3)

structure NoteIter where
  little : Bool
  cls : Class
  align : Nat
  data : Slice
  offset : Nat

def NoteIter.next (it : NoteIter) : Out (Option Note) × NoteIter :=
  if it.data.isEmpty then (.ok none, it) else
  match Note.parseAt it.little it.cls it.align it.data it.offset with
  | (.ok n, o) => (.ok (some n), { it with offset := o })
  | (.err _, o) => (.ok none, { it with offset := o })
  | (.panic, o) => (.panic, { it with offset := o })

def NoteIter.collectFuel : Nat → NoteIter → List Note → Out (List Note) × NoteIter
  | 0, it, acc => (.ok acc, it)
  | n + 1, it, acc =>
    match it.next with
    | (.ok (some a), it') => collectFuel n it' (acc ++ [a])
    | (.ok none, it') => (.ok acc, it')
    | (.err e, it') => (.err e, it')
    | (.panic, it') => (.panic, it')

def NoteIter.collect (it : NoteIter) : Out (List Note) × NoteIter :=
  it.collectFuel (it.data.len + 1) []

/-- Length of the window after stripping all trailing NUL bytes. -/
def trimNulLen (s : Slice) : Nat → Nat
  | 0 => 0
  | n + 1 => if s.byte n = 0 then trimNulLen s n else n + 1

/-- `NoteAny::name_str`: UTF-8 check on the whole name, then `trim_end_matches('\0')`. -/
def noteNameStr (name : Slice) : Out Slice :=
  if validUtf8 name then .ok ⟨name.buf, name.start, name.start + trimNulLen name name.len⟩
  else .err .Utf8Error

end Elf
