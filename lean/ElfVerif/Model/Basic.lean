/-
  Model/Basic.lean — outcomes with an explicit panic, the cursor-threading parser monad and
  `usize` arithmetic of the modelled build target (64-bit `usize`, slices ≤ isize::MAX).

  Import-free on purpose: everything under Model/ is linked into the `elfmodel` driver.
-/
namespace Elf

/-- Mirror of `elf::parse::ParseError` (payloads as naturals; opaque std payloads dropped). -/
inductive Err where
  | BadMagic (a b c d : Nat)
  | UnsupportedElfClass (v : Nat)
  | UnsupportedElfEndianness (v : Nat)
  | UnsupportedVersion (found expected : Nat)
  | BadOffset (o : Nat)
  | StringTableMissingNul (o : Nat)
  | BadEntsize (found expected : Nat)
  | UnexpectedSectionType (found expected : Nat)
  | UnexpectedSegmentType (found expected : Nat)
  | UnexpectedAlignment (a : Nat)
  | SliceReadError (a b : Nat)
  | IntegerOverflow
  | Utf8Error
  | TryFromSliceError
  | TryFromIntError
  | IOError
  deriving DecidableEq, Repr, Inhabited

def Err.toString : Err → String
  | .BadMagic a b c d => s!"BadMagic({a},{b},{c},{d})"
  | .UnsupportedElfClass v => s!"UnsupportedElfClass({v})"
  | .UnsupportedElfEndianness v => s!"UnsupportedElfEndianness({v})"
  | .UnsupportedVersion f e => s!"UnsupportedVersion({f},{e})"
  | .BadOffset o => s!"BadOffset({o})"
  | .StringTableMissingNul o => s!"StringTableMissingNul({o})"
  | .BadEntsize f e => s!"BadEntsize({f},{e})"
  | .UnexpectedSectionType f e => s!"UnexpectedSectionType({f},{e})"
  | .UnexpectedSegmentType f e => s!"UnexpectedSegmentType({f},{e})"
  | .UnexpectedAlignment a => s!"UnexpectedAlignment({a})"
  | .SliceReadError a b => s!"SliceReadError({a},{b})"
  | .IntegerOverflow => "IntegerOverflow"
  | .Utf8Error => "Utf8Error"
  | .TryFromSliceError => "TryFromSliceError"
  | .TryFromIntError => "TryFromIntError"
  | .IOError => "IOError"

instance : ToString Err := ⟨Err.toString⟩

/-- Outcome of a modelled Rust call: a value, a `ParseError`, or a panic (index out of bounds,
    arithmetic overflow with overflow checks on, division by zero, `expect` on `None`). -/
inductive Out (α : Type) where
  | ok (a : α)
  | err (e : Err)
  | panic
  deriving Repr, DecidableEq

namespace Out

@[inline] def bind {α β} (x : Out α) (f : α → Out β) : Out β :=
  match x with
  | .ok a => f a
  | .err e => .err e
  | .panic => .panic

instance : Monad Out where
  pure := .ok
  bind := Out.bind

def isOk {α} : Out α → Bool
  | .ok _ => true
  | _ => false

def isPanic {α} : Out α → Bool
  | .panic => true
  | _ => false

/-- `Option → Out` with the error to report for `None` (Rust `ok_or(e)?`). -/
@[inline] def ofOption {α} (e : Err) : Option α → Out α
  | some a => .ok a
  | none => .err e

/-- Rust `.ok()` on a `Result`: a panic stays a panic. -/
@[inline] def toOption? {α} : Out α → Out (Option α)
  | .ok a => .ok (some a)
  | .err _ => .ok none
  | .panic => .panic

/-- Hoare-style: no panic, and the post-condition on success. -/
def sat {α} (x : Out α) (P : α → Prop) : Prop :=
  match x with
  | .ok a => P a
  | .err _ => True
  | .panic => False

end Out

/-- `usize::MAX + 1` for the modelled target. -/
def USZ : Nat := 18446744073709551616

theorem USZ_eq : USZ = 2 ^ 64 := by decide

/-- `usize::checked_add`. -/
@[inline] def checkedAdd (a b : Nat) : Option Nat :=
  if a + b < USZ then some (a + b) else none

/-- `usize::checked_mul`. -/
@[inline] def checkedMul (a b : Nat) : Option Nat :=
  if a * b < USZ then some (a * b) else none

/-- `u64 → usize` `try_into()?` on the modelled 64-bit target: fails only for values no `u64` holds. -/
@[inline] def tryIntoUsize (v : Nat) : Out Nat :=
  if v < USZ then .ok v else .err .TryFromIntError

/-- Unchecked `a + b` on `usize` compiled with overflow checks. -/
@[inline] def uadd (a b : Nat) : Out Nat :=
  if a + b < USZ then .ok (a + b) else .panic

/-- Unchecked `a - b` on an unsigned type compiled with overflow checks. -/
@[inline] def usub (a b : Nat) : Out Nat :=
  if b ≤ a then .ok (a - b) else .panic

/-- Unchecked `a % b`. -/
@[inline] def umod (a b : Nat) : Out Nat :=
  if b = 0 then .panic else .ok (a % b)

/-- Unchecked `a / b`. -/
@[inline] def udiv (a b : Nat) : Out Nat :=
  if b = 0 then .panic else .ok (a / b)

/-- A parser that threads a cursor which *survives failure* (Rust `offset: &mut usize`). -/
def ParseM (α : Type) : Type := Nat → Out α × Nat

namespace ParseM

@[inline] def pure' {α} (a : α) : ParseM α := fun off => (.ok a, off)

@[inline] def bind' {α β} (x : ParseM α) (f : α → ParseM β) : ParseM β := fun off =>
  match x off with
  | (.ok a, off') => f a off'
  | (.err e, off') => (.err e, off')
  | (.panic, off') => (.panic, off')

instance : Monad ParseM where
  pure := pure'
  bind := bind'

@[inline] def getOff : ParseM Nat := fun off => (.ok off, off)
@[inline] def setOff (n : Nat) : ParseM Unit := fun _ => (.ok (), n)
@[inline] def lift {α} (x : Out α) : ParseM α := fun off => (x, off)
@[inline] def fail {α} (e : Err) : ParseM α := fun off => (.err e, off)

end ParseM

inductive Class where
  | ELF32
  | ELF64
  deriving DecidableEq, Repr, Inhabited

end Elf
