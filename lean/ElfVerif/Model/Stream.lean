/-
  Model/Stream.lean — `CachingReader` and `ElfStream` (elf_stream.rs), on top of a `Device` that
  models any `Read + Seek` the caller may supply: every I/O call consumes one entry of a fault
  schedule (short reads, `Interrupted`, errors, premature EOF).  Separately written from the
  slice-parser model, as the Rust code is.
-/
import ElfVerif.Model.ElfBytes
namespace Elf

/-- What the underlying reader does on one I/O call. -/
inductive Fault where
  | none                 -- behaves ideally (reads as much as asked / available)
  | short (k : Nat)      -- a read returns at most `max 1 k` bytes
  | interrupted          -- a read fails with ErrorKind::Interrupted (a seek is unaffected)
  | fail                 -- the call fails with an I/O error
  | eof                  -- a read returns Ok(0) although bytes remain
  deriving Repr, DecidableEq, Inhabited

inductive IoEvent where
  | seekEnd
  | seek (pos : Nat)
  | read (want got : Nat)
  | alloc (size : Nat)
  | load (start len : Nat)        -- one completed `load_bytes` (coalesced view used by C08)
  deriving Repr, DecidableEq, Inhabited

structure Device where
  content : Array UInt8
  pos : Nat
  sched : List Fault
  trace : List IoEvent
  deriving Inhabited

namespace Device

def nextFault (d : Device) : Fault × Device :=
  match d.sched with
  | [] => (.none, d)
  | f :: rest => (f, { d with sched := rest })

/-- `seek(SeekFrom::End(0))`: the stream length. -/
def seekEnd (d : Device) : Out Nat × Device :=
  let (f, d) := d.nextFault
  let d := { d with trace := d.trace ++ [.seekEnd] }
  match f with
  | .fail => (.err .IOError, d)
  | _ => (.ok d.content.size, { d with pos := d.content.size })

/-- `seek(SeekFrom::Start(p))`. -/
def seekTo (d : Device) (p : Nat) : Out Unit × Device :=
  let (f, d) := d.nextFault
  let d := { d with trace := d.trace ++ [.seek p] }
  match f with
  | .fail => (.err .IOError, d)
  | _ => (.ok (), { d with pos := p })

inductive ReadRes where
  | got (k : Nat)
  | interrupted
  | error

/-- one `read(&mut buf[..want])` call -/
def read (d : Device) (want : Nat) : ReadRes × Device :=
  let (f, d) := d.nextFault
  let avail := d.content.size - d.pos
  let finish (k : Nat) : ReadRes × Device :=
    (.got k, { d with pos := d.pos + k, trace := d.trace ++ [.read want k] })
  match f with
  | .none => finish (min want avail)
  | .short k => finish (min (min want avail) (max 1 k))
  | .eof => finish 0
  | .interrupted => (.interrupted, { d with trace := d.trace ++ [.read want 0] })
  | .fail => (.error, { d with trace := d.trace ++ [.read want 0] })

/-- std's default `read_exact`: loop until the buffer is full; `Ok(0)` is `UnexpectedEof`;
    `Interrupted` is retried; other errors propagate.  Returns the bytes' start position. -/
def readExact : Nat → Device → Nat → Out Unit × Device
  | 0, d, remaining => if remaining = 0 then (.ok (), d) else (.err .IOError, d)
  | fuel + 1, d, remaining =>
    if remaining = 0 then (.ok (), d) else
    match d.read remaining with
    | (.got 0, d') => (.err .IOError, d')
    | (.got k, d') => readExact fuel d' (remaining - k)
    | (.interrupted, d') => readExact fuel d' remaining
    | (.error, d') => (.err .IOError, d')

end Device

structure CachingReader where
  dev : Device
  streamLen : Nat
  bufs : List ((Nat × Nat) × Slice)
  deriving Inhabited

namespace CachingReader

def new (dev : Device) : Out CachingReader × Device :=
  match dev.seekEnd with
  | (.ok n, d) => (.ok ⟨d, n, []⟩, d)
  | (.err e, d) => (.err e, d)
  | (.panic, d) => (.panic, d)

def lookup (r : CachingReader) (s e : Nat) : Option Slice :=
  (r.bufs.find? fun kv => kv.1.1 == s && kv.1.2 == e).map (·.2)

/-- `load_bytes(start..end)` -/
def loadBytes (r : CachingReader) (s e : Nat) : Out Unit × CachingReader :=
  if (r.lookup s e).isSome then (.ok (), r) else
  if e > r.streamLen then (.err (.BadOffset e), r) else
  match r.dev.seekTo s with
  | (.err er, d) => (.err er, { r with dev := d })
  | (.panic, d) => (.panic, { r with dev := d })
  | (.ok (), d) =>
    let len := e - s           -- `Range::len()` saturates at 0
    let d := { d with trace := d.trace ++ [.alloc len] }
    let startPos := d.pos
    match Device.readExact (len + d.sched.length + 1) d len with
    | (.err er, d') => (.err er, { r with dev := d' })
    | (.panic, d') => (.panic, { r with dev := d' })
    | (.ok (), d') =>
      let bytes := Slice.ofArray (d'.content.extract startPos (startPos + len))
      let d'' := { d' with trace := d'.trace ++ [.load s len] }
      (.ok (), { r with dev := d'', bufs := r.bufs ++ [((s, e), bytes)] })

/-- `get_bytes(range)`: `expect`s that the range was loaded. -/
def getBytes (r : CachingReader) (s e : Nat) : Out Slice :=
  match r.lookup s e with
  | some b => .ok b
  | none => .panic

def readBytes (r : CachingReader) (s e : Nat) : Out Slice × CachingReader :=
  match r.loadBytes s e with
  | (.ok (), r') => (r'.getBytes s e, r')
  | (.err er, r') => (.err er, r')
  | (.panic, r') => (.panic, r')

def clearCache (r : CachingReader) : CachingReader := { r with bufs := [] }

end CachingReader

structure ElfStream where
  ehdr : FileHeader
  shdrs : List SectionHeader
  phdrs : List ProgramHeader
  reader : CachingReader
  deriving Inhabited

/-- state-passing bind for reader operations -/
@[inline] def rbind {α β} (x : Out α × CachingReader) (f : α → CachingReader → Out β × CachingReader) :
    Out β × CachingReader :=
  match x with
  | (.ok a, r) => f a r
  | (.err e, r) => (.err e, r)
  | (.panic, r) => (.panic, r)

@[inline] def rlift {α} (x : Out α) (r : CachingReader) : Out α × CachingReader := (x, r)

/-- collect a whole table into a Vec (`.iter().collect()`) -/
def collectAll {α} (t : Table α) : Out (List α) := t.iter.collect.1

/-- read `shdr[0]` through the reader (range `[e_shoff, e_shoff + size)`) and project a field -/
def streamShdr0 (h : FileHeader) (size : Nat) (proj : SectionHeader → Nat) (r : CachingReader) :
    Out Nat × CachingReader :=
  rbind (rlift (Out.ofOption .IntegerOverflow (checkedAdd h.t.e_shoff size)) r) fun end_ r =>
  rbind (r.readBytes h.t.e_shoff end_) fun data r =>
  match (SectionHeader.ep.parse h.little h.cls data 0).1 with
  | .ok shdr0 => (.ok (proj shdr0), r)
  | .err e => (.err e, r)
  | .panic => (.panic, r)

/-- read the located table `[off, off + entsize·n)` through the reader and collect its entries -/
def streamTable {α} (mk : Slice → Table α) (off entsize n : Nat) (r : CachingReader) :
    Out (List α) × CachingReader :=
  rbind (rlift (Out.ofOption .IntegerOverflow (checkedMul entsize n)) r) fun size r =>
  rbind (rlift (Out.ofOption .IntegerOverflow (checkedAdd off size)) r) fun end_ r =>
  rbind (r.readBytes off end_) fun buf r =>
  (collectAll (mk buf), r)

def parseSectionHeaders (h : FileHeader) (r : CachingReader) : Out (List SectionHeader) × CachingReader :=
  if h.t.e_shoff = 0 then (.ok [], r) else
  rbind (rlift (SectionHeader.ep.validateEntsize h.cls h.t.e_shentsize) r) fun entsize r =>
  rbind (if h.t.e_shnum = 0 then streamShdr0 h entsize SectionHeader.sh_size r
         else (.ok h.t.e_shnum, r)) fun shnum r =>
  streamTable (shdrTable h) h.t.e_shoff entsize shnum r

def parseProgramHeaders (h : FileHeader) (r : CachingReader) : Out (List ProgramHeader) × CachingReader :=
  if h.t.e_phoff = 0 then (.ok [], r) else
  rbind (if h.t.e_phnum = Abi.PN_XNUM then streamShdr0 h (SectionHeader.ep.size h.cls) SectionHeader.sh_info r
         else (.ok h.t.e_phnum, r)) fun phnum r =>
  rbind (rlift (ProgramHeader.ep.validateEntsize h.cls h.t.e_phentsize) r) fun entsize r =>
  streamTable (phdrTable h) h.t.e_phoff entsize phnum r

/-- `ElfStream::open_stream`; on failure the (possibly advanced) device is returned for tracing. -/
def openStream (sp : Spec) (dev : Device) : Out ElfStream × Device :=
  match CachingReader.new dev with
  | (.err e, d) => (.err e, d)
  | (.panic, d) => (.panic, d)
  | (.ok cr, _) =>
    let res : Out ElfStream × CachingReader :=
      rbind (cr.readBytes 0 Abi.EI_NIDENT) fun identBuf r =>
      rbind (rlift (parseIdent sp identBuf) r) fun ident r =>
      rbind (rlift (uadd Abi.EI_NIDENT (Gen.size_FileHeaderTail ident.2.1)) r) fun tailEnd r =>
      rbind (r.readBytes Abi.EI_NIDENT tailEnd) fun tailBuf r =>
      rbind (rlift (parseTail ident tailBuf) r) fun ehdr r =>
      rbind (parseSectionHeaders ehdr r) fun shdrs r =>
      rbind (parseProgramHeaders ehdr r) fun phdrs r =>
      (.ok ⟨ehdr, shdrs, phdrs, r.clearCache⟩, r.clearCache)
    (res.1, res.2.dev)

namespace ElfStream

/-- results that mention the stream are returned with the updated stream -/
abbrev Res (α : Type) := Out α × ElfStream

@[inline] def withReader {α} (s : ElfStream) (x : Out α × CachingReader) : Res α :=
  (x.1, { s with reader := x.2 })

/-- the tail of `section_headers_with_strtab`: fetch the bytes of section `shstrndx` -/
def strtabAt (s : ElfStream) (shstrndx : Nat) : Res (Option Slice) :=
  match s.shdrs[shstrndx]? with
  | none => (.err (.BadOffset shstrndx), s)
  | some strtab =>
    match dataRange strtab.sh_offset strtab.sh_size with
    | .err e => (.err e, s)
    | .panic => (.panic, s)
    | .ok rg =>
      s.withReader (rbind (s.reader.readBytes rg.1 rg.2) fun buf r => (.ok (some buf), r))

def sectionHeadersWithStrtab (s : ElfStream) : Res (Option Slice) :=
  if s.shdrs.isEmpty then (.ok none, s) else
  if s.ehdr.t.e_shstrndx = Abi.SHN_UNDEF then (.ok none, s) else
  if s.ehdr.t.e_shstrndx = Abi.SHN_XINDEX then
    -- `self.shdrs[0]` — indexing; reached only when shdrs is non-empty
    match s.shdrs[0]? with
    | some s0 => s.strtabAt s0.sh_link
    | none => (.panic, s)
  else s.strtabAt s.ehdr.t.e_shstrndx

def sectionHeaderByName (s : ElfStream) (name : Slice) : Res (Option SectionHeader) :=
  match s.sectionHeadersWithStrtab with
  | (.ok (some strtab), s') => (.ok (s'.shdrs.find? (ElfBytes.nameMatches strtab name)), s')
  | (.ok none, s') => (.ok none, s')
  | (.err e, s') => (.err e, s')
  | (.panic, s') => (.panic, s')

def sectionData (s : ElfStream) (shdr : SectionHeader) : Res (Slice × Option CompressionHeader) :=
  if shdr.sh_type = Abi.SHT_NOBITS then (.ok (Slice.empty, none), s) else
  match dataRange shdr.sh_offset shdr.sh_size with
  | .err e => (.err e, s)
  | .panic => (.panic, s)
  | .ok rg =>
    s.withReader (rbind (s.reader.readBytes rg.1 rg.2) fun buf r =>
      if shdr.sh_flags &&& Abi.SHF_COMPRESSED = 0 then (.ok (buf, none), r) else
      match CompressionHeader.ep.parse s.ehdr.little s.ehdr.cls buf 0 with
      | (.err e, _) => (.err e, r)
      | (.panic, _) => (.panic, r)
      | (.ok chdr, offset) =>
        match buf.getFrom? offset with
        | some cbuf => (.ok (cbuf, some chdr), r)
        | none => (.err (.SliceReadError offset shdr.sh_size), r))

/-- the typed views read the section's range directly (no NOBITS / compression handling) -/
def typedRange (s : ElfStream) (shdr : SectionHeader) (want : Nat) : Res Slice :=
  if shdr.sh_type ≠ want then (.err (.UnexpectedSectionType shdr.sh_type want), s) else
  match dataRange shdr.sh_offset shdr.sh_size with
  | .err e => (.err e, s)
  | .panic => (.panic, s)
  | .ok rg => s.withReader (s.reader.readBytes rg.1 rg.2)

def sectionDataAsStrtab (s : ElfStream) (shdr : SectionHeader) : Res Slice := s.typedRange shdr Abi.SHT_STRTAB

def sectionDataAsRels (s : ElfStream) (shdr : SectionHeader) : Res (Iter Rel) :=
  match s.typedRange shdr Abi.SHT_REL with
  | (.ok buf, s') => (.ok ⟨Rel.ep, s.ehdr.little, s.ehdr.cls, buf, 0⟩, s')
  | (.err e, s') => (.err e, s')
  | (.panic, s') => (.panic, s')

def sectionDataAsRelas (s : ElfStream) (shdr : SectionHeader) : Res (Iter Rela) :=
  match s.typedRange shdr Abi.SHT_RELA with
  | (.ok buf, s') => (.ok ⟨Rela.ep, s.ehdr.little, s.ehdr.cls, buf, 0⟩, s')
  | (.err e, s') => (.err e, s')
  | (.panic, s') => (.panic, s')

def sectionDataAsNotes (s : ElfStream) (shdr : SectionHeader) : Res NoteIter :=
  match s.typedRange shdr Abi.SHT_NOTE with
  | (.ok buf, s') => (.ok ⟨s.ehdr.little, s.ehdr.cls, shdr.sh_addralign, buf, 0⟩, s')
  | (.err e, s') => (.err e, s')
  | (.panic, s') => (.panic, s')

def segmentDataAsNotes (s : ElfStream) (phdr : ProgramHeader) : Res NoteIter :=
  if phdr.p_type ≠ Abi.PT_NOTE then (.err (.UnexpectedSegmentType phdr.p_type Abi.PT_NOTE), s) else
  match dataRange phdr.p_offset phdr.p_filesz with
  | .err e => (.err e, s)
  | .panic => (.panic, s)
  | .ok rg =>
    s.withReader (rbind (s.reader.readBytes rg.1 rg.2) fun buf r =>
      (.ok ⟨s.ehdr.little, s.ehdr.cls, phdr.p_align, buf, 0⟩, r))

def symbolTableOfType (s : ElfStream) (ty : Nat) : Res (Option (Table Symbol × Slice)) :=
  if s.shdrs.isEmpty then (.ok none, s) else
  match s.shdrs.find? (fun sh => sh.sh_type == ty) with
  | none => (.ok none, s)
  | some shdr =>
    match dataRange shdr.sh_offset shdr.sh_size with
    | .err e => (.err e, s)
    | .panic => (.panic, s)
    | .ok symRg =>
      s.withReader (rbind (s.reader.loadBytes symRg.1 symRg.2) fun _ r =>
        match s.shdrs[shdr.sh_link]? with
        | none => (.err (.BadOffset shdr.sh_link), r)
        | some strtab =>
          match dataRange strtab.sh_offset strtab.sh_size with
          | .err e => (.err e, r)
          | .panic => (.panic, r)
          | .ok strRg =>
            rbind (r.loadBytes strRg.1 strRg.2) fun _ r =>
            rbind (rlift (Symbol.ep.validateEntsize s.ehdr.cls shdr.sh_entsize) r) fun _ r =>
            rbind (rlift (r.getBytes symRg.1 symRg.2) r) fun symBuf r =>
            rbind (rlift (r.getBytes strRg.1 strRg.2) r) fun strBuf r =>
            (.ok (some (symTable s.ehdr.little s.ehdr.cls symBuf, strBuf)), r))

def symbolTable (s : ElfStream) := s.symbolTableOfType Abi.SHT_SYMTAB
def dynamicSymbolTable (s : ElfStream) := s.symbolTableOfType Abi.SHT_DYNSYM

def dynTable (s : ElfStream) (buf : Slice) : Table Dyn := ⟨Dyn.ep, s.ehdr.little, s.ehdr.cls, buf⟩

def dynamic (s : ElfStream) : Res (Option (Table Dyn)) :=
  if !s.shdrs.isEmpty then
    match s.shdrs.find? (fun sh => sh.sh_type == Abi.SHT_DYNAMIC) with
    | some shdr =>
      match dataRange shdr.sh_offset shdr.sh_size with
      | .err e => (.err e, s)
      | .panic => (.panic, s)
      | .ok rg => s.withReader (rbind (s.reader.readBytes rg.1 rg.2) fun buf r => (.ok (some (s.dynTable buf)), r))
    | none => (.ok none, s)
  else if !s.phdrs.isEmpty then
    match s.phdrs.find? (fun ph => ph.p_type == Abi.PT_DYNAMIC) with
    | some phdr =>
      match dataRange phdr.p_offset phdr.p_filesz with
      | .err e => (.err e, s)
      | .panic => (.panic, s)
      | .ok rg => s.withReader (rbind (s.reader.readBytes rg.1 rg.2) fun buf r => (.ok (some (s.dynTable buf)), r))
    | none => (.ok none, s)
  else (.ok none, s)

/-- scan of `symbol_version_table` over the Vec of headers -/
def verScanList : List SectionHeader → Option SectionHeader → Option SectionHeader → Option SectionHeader →
    Option SectionHeader × Option SectionHeader × Option SectionHeader
  | [], vs, nd, df => (vs, nd, df)
  | shdr :: rest, vs, nd, df =>
    let u := ElfBytes.verUpdate shdr vs nd df
    if u.1.isSome && u.2.1.isSome && u.2.2.isSome then u else verScanList rest u.1 u.2.1 u.2.2

/-- load a VERNEED/VERDEF section and its string section; returns the two ranges -/
def verLoad (s : ElfStream) (o : Option SectionHeader) (r : CachingReader) :
    Out (Option (SectionHeader × (Nat × Nat) × (Nat × Nat))) × CachingReader :=
  match o with
  | none => (.ok none, r)
  | some shdr =>
    rbind (rlift (dataRange shdr.sh_offset shdr.sh_size) r) fun rg r =>
    rbind (r.loadBytes rg.1 rg.2) fun _ r =>
    match s.shdrs[shdr.sh_link]? with
    | none => (.err (.BadOffset shdr.sh_link), r)
    | some strs =>
      rbind (rlift (dataRange strs.sh_offset strs.sh_size) r) fun srg r =>
      rbind (r.loadBytes srg.1 srg.2) fun _ r =>
      (.ok (some (shdr, rg, srg)), r)

def verWrap (s : ElfStream) (o : Option (SectionHeader × (Nat × Nat) × (Nat × Nat))) (r : CachingReader) :
    Out (Option (VerIter × Slice)) :=
  match o with
  | none => .ok none
  | some (shdr, rg, srg) =>
    (r.getBytes srg.1 srg.2).bind fun strsBuf =>
    (r.getBytes rg.1 rg.2).bind fun buf =>
    .ok (some (⟨s.ehdr.little, s.ehdr.cls, shdr.sh_info, buf, 0⟩, strsBuf))

def symbolVersionTable (s : ElfStream) : Res (Option SymbolVersionTable) :=
  if s.shdrs.isEmpty then (.ok none, s) else
  let (vs, nd, df) := verScanList s.shdrs none none none
  match vs with
  | none => (.ok none, s)
  | some versym =>
    s.withReader (
      rbind (rlift (VersionIndex.ep.validateEntsize s.ehdr.cls versym.sh_entsize) s.reader) fun _ r =>
      rbind (rlift (dataRange versym.sh_offset versym.sh_size) r) fun vrg r =>
      rbind (r.loadBytes vrg.1 vrg.2) fun _ r =>
      rbind (s.verLoad nd r) fun needs r =>
      rbind (s.verLoad df r) fun defs r =>
      rbind (rlift (s.verWrap needs r) r) fun verneeds r =>
      rbind (rlift (s.verWrap defs r) r) fun verdefs r =>
      rbind (rlift (r.getBytes vrg.1 vrg.2) r) fun vbuf r =>
      (.ok (some ⟨⟨VersionIndex.ep, s.ehdr.little, s.ehdr.cls, vbuf⟩, verneeds, verdefs⟩), r))

end ElfStream
end Elf
