/-
  Model/Ident.lean — `verify_ident`, `parse_ident` (file.rs).  Indexing is modelled as the
  panicking operation it is in Rust; the length check at the top of `parse_ident` is what makes
  the panics unreachable (Props/C01).
-/
import ElfVerif.Model.Endian
import ElfVerif.Generated.AbiConsts
namespace Elf

/-- `buf[i]` — panics when out of bounds. -/
@[inline] def indexByte (d : Slice) (i : Nat) : Out Nat :=
  if i < d.len then .ok (d.byte i) else .panic

def verifyIdent (buf : Slice) : Out Unit :=
  -- `buf.split_at(EI_CLASS)` panics when `EI_CLASS > len`
  if buf.len < Abi.EI_CLASS then .panic else
  let m := [buf.byte 0, buf.byte 1, buf.byte 2, buf.byte 3]
  if m ≠ Abi.ELFMAGIC then .err (.BadMagic (buf.byte 0) (buf.byte 1) (buf.byte 2) (buf.byte 3)) else
  match indexByte buf Abi.EI_VERSION with
  | .ok version =>
    if version ≠ Abi.EV_CURRENT then .err (.UnsupportedVersion version Abi.EV_CURRENT)
    else .ok ()
  | .err e => .err e
  | .panic => .panic

/-- Result: (is little endian, class, osabi, abiversion). -/
def parseIdent (sp : Spec) (data : Slice) : Out (Bool × Class × Nat × Nat) :=
  if data.len < Abi.EI_NIDENT then .err (.SliceReadError 0 Abi.EI_NIDENT) else
  (verifyIdent data).bind fun _ =>
  (indexByte data Abi.EI_CLASS).bind fun e_class =>
  (if e_class = Abi.ELFCLASS32 then Out.ok Class.ELF32
   else if e_class = Abi.ELFCLASS64 then Out.ok Class.ELF64
   else Out.err (.UnsupportedElfClass e_class)).bind fun cls =>
  (indexByte data Abi.EI_DATA).bind fun ei_data =>
  (fromEiData sp ei_data).bind fun little =>
  (indexByte data Abi.EI_OSABI).bind fun osabi =>
  (indexByte data Abi.EI_ABIVERSION).bind fun abiversion =>
  .ok (little, cls, osabi, abiversion)

end Elf
