/-
  Model/Show.lean — canonical text form of model values, identical to what the Rust harness
  prints for the implementation (harness/src/show.rs).
-/
import ElfVerif.Model.ElfBytes
namespace Elf

def showNats (l : List Nat) : String := ",".intercalate (l.map toString)

def showLoc (s : Slice) : String :=
  if s.len = 0 then "@+0" else s!"@{s.start}+{s.len}"

def showOut {α} (f : α → String) : Out α → String
  | .ok a => "ok " ++ f a
  | .err e => "err " ++ toString e
  | .panic => "panic"

def showOpt {α} (f : α → String) : Option α → String
  | some a => "some " ++ f a
  | none => "none"

def showBool (b : Bool) : String := if b then "1" else "0"
def showClass : Class → String
  | .ELF32 => "32"
  | .ELF64 => "64"

def SectionHeader.show (s : SectionHeader) : String :=
  s!"shdr({s.sh_name},{s.sh_type},{s.sh_flags},{s.sh_addr},{s.sh_offset},{s.sh_size},{s.sh_link},{s.sh_info},{s.sh_addralign},{s.sh_entsize})"
def ProgramHeader.show (p : ProgramHeader) : String :=
  s!"phdr({p.p_type},{p.p_offset},{p.p_vaddr},{p.p_paddr},{p.p_filesz},{p.p_memsz},{p.p_flags},{p.p_align})"
def Symbol.show (s : Symbol) : String :=
  s!"sym({s.st_name},{s.st_shndx},{s.st_info},{s.st_other},{s.st_value},{s.st_size})"
def Rel.show (r : Rel) : String := s!"rel({r.r_offset},{r.r_sym},{r.r_type})"
def Rela.show (r : Rela) : String := s!"rela({r.r_offset},{r.r_sym},{r.r_type},{r.r_addend})"
def Dyn.show (d : Dyn) : String := s!"dyn({d.d_tag},{d.dVal})"
def CompressionHeader.show (c : CompressionHeader) : String :=
  s!"chdr({c.ch_type},{c.ch_size},{c.ch_addralign})"
def NoteHeader.show (n : NoteHeader) : String := s!"nhdr({n.n_namesz},{n.n_descsz},{n.n_type})"
def NoteGnuAbiTag.show (t : NoteGnuAbiTag) : String := s!"abitag({t.os},{t.major},{t.minor},{t.subminor})"
def SysVHashHeader.show (h : SysVHashHeader) : String := s!"sysvhdr({h.nbucket},{h.nchain})"
def GnuHashHeader.show (h : GnuHashHeader) : String :=
  s!"gnuhdr({h.nbucket},{h.table_start_idx},{h.nbloom},{h.nshift})"
def VerDef.show (v : VerDef) : String :=
  s!"verdef({v.vd_flags},{v.vd_ndx},{v.vd_cnt},{v.vd_hash},{v.vd_aux},{v.vd_next})"
def VerDefAux.show (v : VerDefAux) : String := s!"verdaux({v.vda_name},{v.vda_next})"
def VerNeed.show (v : VerNeed) : String := s!"verneed({v.vn_cnt},{v.vn_file},{v.vn_aux},{v.vn_next})"
def VerNeedAux.show (v : VerNeedAux) : String :=
  s!"vernaux({v.vna_hash},{v.vna_flags},{v.vna_other},{v.vna_name},{v.vna_next})"
def FileHeader.show (h : FileHeader) : String :=
  s!"ehdr({showClass h.cls},{showBool h.little},{h.t.version},{h.osabi},{h.abiversion},{h.t.e_type},{h.t.e_machine},{h.t.e_entry},{h.t.e_phoff},{h.t.e_shoff},{h.t.e_flags},{h.t.e_ehsize},{h.t.e_phentsize},{h.t.e_phnum},{h.t.e_shentsize},{h.t.e_shnum},{h.t.e_shstrndx})"

/-- hex of a window's content -/
def hexDigit (n : Nat) : Char := if n < 10 then Char.ofNat (48 + n) else Char.ofNat (87 + n)
def showHex (s : Slice) : String :=
  String.ofList ((List.range s.len).flatMap fun i => [hexDigit (s.byte i / 16), hexDigit (s.byte i % 16)])

def Note.show : Note → String
  | .gnuAbiTag t => "note:" ++ t.show
  | .gnuBuildId d => "note:buildid(" ++ showLoc d ++ ")"
  | .unknown ty name desc =>
    s!"note:any({ty},{showLoc name},{showLoc desc},str=" ++
      showOut showLoc (noteNameStr name) ++ ")"

end Elf
