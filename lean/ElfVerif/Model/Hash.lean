/-
  Model/Hash.lean — `sysv_hash`, `gnu_hash`, `SysVHashTable`, `GnuHashTable` (hash.rs).
-/
import ElfVerif.Model.Table
import ElfVerif.Model.StrTab
namespace Elf

def M32 : Nat := 4294967296

/-- One round of `sysv_hash`: `h = h.wrapping_mul(16).wrapping_add(b); h ^= (h >> 24) & 0xf0`. -/
@[inline] def sysvStep (h b : Nat) : Nat :=
  let h1 := (h * 16 % M32 + b) % M32
  h1 ^^^ ((h1 >>> 24) &&& 0xf0)

def sysvHashAux (name : Slice) : Nat → Nat → Nat → Nat
  | _, 0, h => h
  | i, n + 1, h => sysvHashAux name (i + 1) n (sysvStep h (name.byte i))

def sysvHash (name : Slice) : Nat := sysvHashAux name 0 name.len 0 &&& 0xfffffff

@[inline] def gnuStep (h b : Nat) : Nat := (h * 33 % M32 + b) % M32

def gnuHashAux (name : Slice) : Nat → Nat → Nat → Nat
  | _, 0, h => h
  | i, n + 1, h => gnuHashAux name (i + 1) n (gnuStep h (name.byte i))

def gnuHash (name : Slice) : Nat := gnuHashAux name 0 name.len 5381

def u32Table (little : Bool) (cls : Class) (d : Slice) : Table Nat := ⟨U32.ep, little, cls, d⟩
def u64Table (little : Bool) (cls : Class) (d : Slice) : Table Nat := ⟨U64.ep, little, cls, d⟩
def symTable (little : Bool) (cls : Class) (d : Slice) : Table Symbol := ⟨Symbol.ep, little, cls, d⟩

structure SysVHashTable where
  buckets : Table Nat
  chains : Table Nat

def SysVHashTable.new (little : Bool) (cls : Class) (data : Slice) : Out SysVHashTable :=
  match SysVHashHeader.ep.parse little cls data 0 with
  | (.err e, _) => .err e
  | (.panic, _) => .panic
  | (.ok hdr, offset) =>
    (Out.ofOption .IntegerOverflow (checkedMul 4 hdr.nbucket)).bind fun bucketsSize =>
    (Out.ofOption .IntegerOverflow (checkedAdd offset bucketsSize)).bind fun bucketsEnd =>
    (data.getBytes offset bucketsEnd).bind fun bucketsBuf =>
    (Out.ofOption .IntegerOverflow (checkedMul 4 hdr.nchain)).bind fun chainsSize =>
    (Out.ofOption .IntegerOverflow (checkedAdd bucketsEnd chainsSize)).bind fun chainsEnd =>
    (data.getBytes bucketsEnd chainsEnd).bind fun chainsBuf =>
    .ok ⟨u32Table little cls bucketsBuf, u32Table little cls chainsBuf⟩

/-- The `while index != 0 && i < chains.len()` loop; `fuel` is `chains.len() - i`.
    Returns the result and the number of chain steps taken (for C16). -/
def sysvLoop (t : SysVHashTable) (name : Slice) (symtab : Table Symbol) (strtab : Slice) :
    Nat → Nat → Nat → Out (Option (Nat × Symbol)) × Nat
  | 0, _, steps => (.ok none, steps)
  | fuel + 1, index, steps =>
    if index = 0 then (.ok none, steps) else
    match symtab.get index with
    | .err e => (.err e, steps)
    | .panic => (.panic, steps)
    | .ok symbol =>
      match strGetRaw strtab symbol.st_name with
      | .err e => (.err e, steps)
      | .panic => (.panic, steps)
      | .ok s =>
        if s.beqBytes name then (.ok (some (index, symbol)), steps) else
        match t.chains.get index with
        | .err e => (.err e, steps)
        | .panic => (.panic, steps)
        | .ok nxt => sysvLoop t name symtab strtab fuel nxt (steps + 1)

def SysVHashTable.findSteps (t : SysVHashTable) (name : Slice) (symtab : Table Symbol)
    (strtab : Slice) : Out (Option (Nat × Symbol)) × Nat :=
  if t.buckets.isEmpty then (.ok none, 0) else
  let hash := sysvHash name
  match umod hash t.buckets.len with
  | .panic => (.panic, 0)
  | .err e => (.err e, 0)
  | .ok start =>
    match t.buckets.get start with
    | .err e => (.err e, 0)
    | .panic => (.panic, 0)
    | .ok index => sysvLoop t name symtab strtab t.chains.len index 0

def SysVHashTable.find (t : SysVHashTable) (name : Slice) (symtab : Table Symbol)
    (strtab : Slice) : Out (Option (Nat × Symbol)) :=
  (t.findSteps name symtab strtab).1

structure GnuHashTable where
  hdr : GnuHashHeader
  little : Bool
  cls : Class
  bloom : Slice
  buckets : Table Nat
  chains : Table Nat

def GnuHashTable.new (little : Bool) (cls : Class) (data : Slice) : Out GnuHashTable :=
  match GnuHashHeader.ep.parse little cls data 0 with
  | (.err e, _) => .err e
  | (.panic, _) => .panic
  | (.ok hdr, offset) =>
    let wordSize := match cls with | .ELF32 => 4 | .ELF64 => 8
    (Out.ofOption .IntegerOverflow (checkedMul hdr.nbloom wordSize)).bind fun bloomSize =>
    (Out.ofOption .IntegerOverflow (checkedAdd offset bloomSize)).bind fun bloomEnd =>
    (data.getBytes offset bloomEnd).bind fun bloomBuf =>
    (Out.ofOption .IntegerOverflow (checkedMul 4 hdr.nbucket)).bind fun bucketsSize =>
    (Out.ofOption .IntegerOverflow (checkedAdd bloomEnd bucketsSize)).bind fun bucketsEnd =>
    (data.getBytes bloomEnd bucketsEnd).bind fun bucketsBuf =>
    (Out.ofOption (.SliceReadError bucketsEnd data.len) (data.getFrom? bucketsEnd)).bind fun chainsBuf =>
    .ok ⟨hdr, little, cls, bloomBuf, u32Table little cls bucketsBuf, u32Table little cls chainsBuf⟩

/-- `for chain_idx in start..chain_len`; `fuel = chain_len - chain_idx` (0 when start ≥ len). -/
def gnuLoop (t : GnuHashTable) (name : Slice) (hash : Nat) (symtab : Table Symbol)
    (strtab : Slice) : Nat → Nat → Nat → Out (Option (Nat × Symbol)) × Nat
  | 0, _, steps => (.ok none, steps)
  | fuel + 1, chainIdx, steps =>
    match t.chains.get chainIdx with
    | .err e => (.err e, steps)
    | .panic => (.panic, steps)
    | .ok chainHash =>
      let continue_ : Unit → Out (Option (Nat × Symbol)) × Nat := fun _ =>
        if chainHash &&& 1 ≠ 0 then (.ok none, steps + 1)
        else gnuLoop t name hash symtab strtab fuel (chainIdx + 1) (steps + 1)
      if hash ||| 1 = chainHash ||| 1 then
        match checkedAdd chainIdx t.hdr.table_start_idx with
        | none => (.err .IntegerOverflow, steps)
        | some symIdx =>
          match symtab.get symIdx with
          | .err e => (.err e, steps)
          | .panic => (.panic, steps)
          | .ok symbol =>
            match strGetRaw strtab symbol.st_name with
            | .err e => (.err e, steps)
            | .panic => (.panic, steps)
            | .ok s => if s.beqBytes name then (.ok (some (symIdx, symbol)), steps) else continue_ ()
      else continue_ ()

/-- bits per bloom word: 32 for ELF32, 64 for ELF64 -/
def bloomWidth : Class → Nat
  | .ELF32 => 32
  | .ELF64 => 64

/-- the bloom filter viewed as a table of class-sized words -/
def GnuHashTable.bloomTable (t : GnuHashTable) : Table Nat :=
  match t.cls with
  | .ELF32 => u32Table t.little t.cls t.bloom
  | .ELF64 => u64Table t.little t.cls t.bloom

def GnuHashTable.findSteps (t : GnuHashTable) (name : Slice) (symtab : Table Symbol)
    (strtab : Slice) : Out (Option (Nat × Symbol)) × Nat :=
  if t.buckets.isEmpty || t.hdr.nbloom == 0 then (.ok none, 0) else
  let hash := gnuHash name
  let bloomWidth : Nat := bloomWidth t.cls
  -- `(hash / bloom_width) % nbloom` — unchecked `%`
  match umod (hash / bloomWidth) t.hdr.nbloom with
  | .panic => (.panic, 0)
  | .err e => (.err e, 0)
  | .ok bloomIdx =>
    match t.bloomTable.get bloomIdx with
    | .err e => (.err e, 0)
    | .panic => (.panic, 0)
    | .ok filter =>
      if filter &&& (1 <<< (hash % bloomWidth)) = 0 then (.ok none, 0) else
      -- `hash.checked_shr(nshift)`
      if t.hdr.nshift ≥ 32 then (.err .IntegerOverflow, 0) else
      let hash2 := hash >>> t.hdr.nshift
      if filter &&& (1 <<< (hash2 % bloomWidth)) = 0 then (.ok none, 0) else
      match umod hash t.buckets.len with
      | .panic => (.panic, 0)
      | .err e => (.err e, 0)
      | .ok b =>
        match t.buckets.get b with
        | .err e => (.err e, 0)
        | .panic => (.panic, 0)
        | .ok chainStartIdx =>
          if chainStartIdx < t.hdr.table_start_idx then (.ok none, 0) else
          -- `chain_start_idx - table_start_idx` — unchecked `-`
          match usub chainStartIdx t.hdr.table_start_idx with
          | .panic => (.panic, 0)
          | .err e => (.err e, 0)
          | .ok first =>
            gnuLoop t name hash symtab strtab (t.chains.len - first) first 0

def GnuHashTable.find (t : GnuHashTable) (name : Slice) (symtab : Table Symbol)
    (strtab : Slice) : Out (Option (Nat × Symbol)) :=
  (t.findSteps name symtab strtab).1

end Elf
