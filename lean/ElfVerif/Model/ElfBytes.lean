/-
  Model/ElfBytes.lean — `ElfBytes::minimal_parse`, `find_shdrs`, `find_phdrs` and every accessor
  (elf_bytes.rs), written against windows of the caller's buffer.
-/
import ElfVerif.Model.Ident
import ElfVerif.Model.Note
import ElfVerif.Model.Hash
import ElfVerif.Model.SymVer
namespace Elf

structure FileHeader where
  cls : Class
  little : Bool
  osabi : Nat
  abiversion : Nat
  t : FileHeaderTail
  deriving Repr, DecidableEq, Inhabited

/-- `FileHeader::parse_tail` (the reads are the generated program). -/
def parseTail (ident : Bool × Class × Nat × Nat) (data : Slice) : Out FileHeader :=
  match (FileHeaderTail.ep.parse ident.1 ident.2.1 data 0).1 with
  | .ok t => .ok ⟨ident.2.1, ident.1, ident.2.2.1, ident.2.2.2, t⟩
  | .err e => .err e
  | .panic => .panic

/-- `u64 → usize` `try_into` on the modelled 64-bit target never fails. -/
@[inline] def toUsize (v : Nat) : Out Nat := .ok v

/-- `SectionHeader::get_data_range` / `ProgramHeader::get_file_data_range`. -/
def dataRange (offset size : Nat) : Out (Nat × Nat) :=
  match checkedAdd offset size with
  | some e => .ok (offset, e)
  | none => .err .IntegerOverflow

def shdrTable (h : FileHeader) (d : Slice) : Table SectionHeader := ⟨SectionHeader.ep, h.little, h.cls, d⟩
def phdrTable (h : FileHeader) (d : Slice) : Table ProgramHeader := ⟨ProgramHeader.ep, h.little, h.cls, d⟩

def findShdrs (h : FileHeader) (data : Slice) : Out (Option (Table SectionHeader)) :=
  if h.t.e_shoff = 0 then .ok none else
  let shoff := h.t.e_shoff
  (if h.t.e_shnum = 0 then
     match (SectionHeader.ep.parse h.little h.cls data shoff).1 with
     | .ok shdr0 => Out.ok shdr0.sh_size
     | .err e => .err e
     | .panic => .panic
   else .ok h.t.e_shnum).bind fun shnum =>
  (SectionHeader.ep.validateEntsize h.cls h.t.e_shentsize).bind fun entsize =>
  (Out.ofOption .IntegerOverflow (checkedMul entsize shnum)).bind fun size =>
  (Out.ofOption .IntegerOverflow (checkedAdd shoff size)).bind fun end_ =>
  (data.getBytes shoff end_).bind fun buf =>
  .ok (some (shdrTable h buf))

def findPhdrs (h : FileHeader) (data : Slice) : Out (Option (Table ProgramHeader)) :=
  if h.t.e_phoff = 0 then .ok none else
  (if h.t.e_phnum = Abi.PN_XNUM then
     match (SectionHeader.ep.parse h.little h.cls data h.t.e_shoff).1 with
     | .ok shdr0 => Out.ok shdr0.sh_info
     | .err e => .err e
     | .panic => .panic
   else .ok h.t.e_phnum).bind fun phnum =>
  (ProgramHeader.ep.validateEntsize h.cls h.t.e_phentsize).bind fun entsize =>
  let phoff := h.t.e_phoff
  (Out.ofOption .IntegerOverflow (checkedMul entsize phnum)).bind fun size =>
  (Out.ofOption .IntegerOverflow (checkedAdd phoff size)).bind fun end_ =>
  (data.getBytes phoff end_).bind fun buf =>
  .ok (some (phdrTable h buf))

structure ElfBytes where
  ehdr : FileHeader
  data : Slice
  shdrs : Option (Table SectionHeader)
  phdrs : Option (Table ProgramHeader)

def minimalParse (sp : Spec) (data : Slice) : Out ElfBytes :=
  (data.getBytes 0 Abi.EI_NIDENT).bind fun identBuf =>
  (parseIdent sp identBuf).bind fun ident =>
  let tailStart := Abi.EI_NIDENT
  -- `tail_start + TAILSIZE` is an unchecked add of two constants
  (uadd tailStart (Gen.size_FileHeaderTail ident.2.1)).bind fun tailEnd =>
  (data.getBytes tailStart tailEnd).bind fun tailBuf =>
  (parseTail ident tailBuf).bind fun ehdr =>
  (findShdrs ehdr data).bind fun shdrs =>
  (findPhdrs ehdr data).bind fun phdrs =>
  .ok ⟨ehdr, data, shdrs, phdrs⟩

namespace ElfBytes

def sectionHeadersWithStrtab (f : ElfBytes) :
    Out (Option (Table SectionHeader) × Option Slice) :=
  match f.shdrs with
  | none => .ok (none, none)
  | some shdrs =>
    if f.ehdr.t.e_shstrndx = Abi.SHN_UNDEF then .ok (some shdrs, none) else
    (if f.ehdr.t.e_shstrndx = Abi.SHN_XINDEX then
       (shdrs.get 0).bind fun shdr0 => Out.ok shdr0.sh_link
     else .ok f.ehdr.t.e_shstrndx).bind fun shstrndx =>
    (shdrs.get shstrndx).bind fun strtab =>
    (dataRange strtab.sh_offset strtab.sh_size).bind fun r =>
    (f.data.getBytes r.1 r.2).bind fun buf =>
    .ok (some shdrs, some buf)

/-- `name == sh_name` where `sh_name = strtab.get(shdr.sh_name)`; lookup errors count as no. -/
def nameMatches (strtab : Slice) (name : Slice) (shdr : SectionHeader) : Bool :=
  match strGet strtab shdr.sh_name with
  | .ok s => s.beqBytes name
  | _ => false

def sectionHeaderByName (f : ElfBytes) (name : Slice) : Out (Option SectionHeader) :=
  (f.sectionHeadersWithStrtab).bind fun r =>
  match r with
  | (some shdrs, some strtab) => shdrs.iter.find (nameMatches strtab name)
  | _ => .ok none

/-- `(buf, Some(chdr))` / `(buf, None)`. -/
def sectionData (f : ElfBytes) (shdr : SectionHeader) : Out (Slice × Option CompressionHeader) :=
  if shdr.sh_type = Abi.SHT_NOBITS then .ok (Slice.empty, none) else
  (dataRange shdr.sh_offset shdr.sh_size).bind fun r =>
  (f.data.getBytes r.1 r.2).bind fun buf =>
  if shdr.sh_flags &&& Abi.SHF_COMPRESSED = 0 then .ok (buf, none) else
  match CompressionHeader.ep.parse f.ehdr.little f.ehdr.cls buf 0 with
  | (.err e, _) => .err e
  | (.panic, _) => .panic
  | (.ok chdr, offset) =>
    (Out.ofOption (.SliceReadError offset shdr.sh_size) (buf.getFrom? offset)).bind fun cbuf =>
    .ok (cbuf, some chdr)

def typedSection (f : ElfBytes) (shdr : SectionHeader) (want : Nat) : Out Slice :=
  if shdr.sh_type ≠ want then .err (.UnexpectedSectionType shdr.sh_type want) else
  (f.sectionData shdr).bind fun r => .ok r.1

def sectionDataAsStrtab (f : ElfBytes) (shdr : SectionHeader) : Out Slice :=
  f.typedSection shdr Abi.SHT_STRTAB

def sectionDataAsRels (f : ElfBytes) (shdr : SectionHeader) : Out (Iter Rel) :=
  (f.typedSection shdr Abi.SHT_REL).bind fun buf => .ok ⟨Rel.ep, f.ehdr.little, f.ehdr.cls, buf, 0⟩

def sectionDataAsRelas (f : ElfBytes) (shdr : SectionHeader) : Out (Iter Rela) :=
  (f.typedSection shdr Abi.SHT_RELA).bind fun buf => .ok ⟨Rela.ep, f.ehdr.little, f.ehdr.cls, buf, 0⟩

def sectionDataAsNotes (f : ElfBytes) (shdr : SectionHeader) : Out NoteIter :=
  (f.typedSection shdr Abi.SHT_NOTE).bind fun buf =>
  .ok ⟨f.ehdr.little, f.ehdr.cls, shdr.sh_addralign, buf, 0⟩

def dynTable (f : ElfBytes) (buf : Slice) : Table Dyn := ⟨Dyn.ep, f.ehdr.little, f.ehdr.cls, buf⟩

def sectionDataAsDynamic (f : ElfBytes) (shdr : SectionHeader) : Out (Table Dyn) :=
  if shdr.sh_type ≠ Abi.SHT_DYNAMIC then .err (.UnexpectedSectionType shdr.sh_type Abi.SHT_DYNAMIC) else
  (Dyn.ep.validateEntsize f.ehdr.cls shdr.sh_entsize).bind fun _ =>
  (f.sectionData shdr).bind fun r => .ok (f.dynTable r.1)

def segmentData (f : ElfBytes) (phdr : ProgramHeader) : Out Slice :=
  (dataRange phdr.p_offset phdr.p_filesz).bind fun r => f.data.getBytes r.1 r.2

def segmentDataAsNotes (f : ElfBytes) (phdr : ProgramHeader) : Out NoteIter :=
  if phdr.p_type ≠ Abi.PT_NOTE then .err (.UnexpectedSegmentType phdr.p_type Abi.PT_NOTE) else
  (f.segmentData phdr).bind fun buf => .ok ⟨f.ehdr.little, f.ehdr.cls, phdr.p_align, buf, 0⟩

/-- the `PT_DYNAMIC` route to the dynamic table (shared by `dynamic()` when there is no section
    header table and by the fallback of `find_common_data`; the Rust code spells it out twice) -/
def dynamicFromSegments (f : ElfBytes) : Out (Option (Table Dyn)) :=
  match f.phdrs with
  | some phdrs =>
    (phdrs.iter.find fun p => p.p_type == Abi.PT_DYNAMIC).bind fun o =>
    match o with
    | some phdr =>
      (dataRange phdr.p_offset phdr.p_filesz).bind fun r =>
      (f.data.getBytes r.1 r.2).bind fun buf => .ok (some (f.dynTable buf))
    | none => .ok none
  | none => .ok none

def dynamic (f : ElfBytes) : Out (Option (Table Dyn)) :=
  match f.shdrs with
  | some shdrs =>
    (shdrs.iter.find fun s => s.sh_type == Abi.SHT_DYNAMIC).bind fun o =>
    match o with
    | some shdr => (f.sectionDataAsDynamic shdr).bind fun t => .ok (some t)
    | none => .ok none
  | none => f.dynamicFromSegments

def sectionDataAsSymbolTable (f : ElfBytes) (shdr strtabShdr : SectionHeader) :
    Out (Table Symbol × Slice) :=
  (Symbol.ep.validateEntsize f.ehdr.cls shdr.sh_entsize).bind fun _ =>
  (dataRange shdr.sh_offset shdr.sh_size).bind fun r =>
  (f.data.getBytes r.1 r.2).bind fun symBuf =>
  (dataRange strtabShdr.sh_offset strtabShdr.sh_size).bind fun r2 =>
  (f.data.getBytes r2.1 r2.2).bind fun strBuf =>
  .ok (symTable f.ehdr.little f.ehdr.cls symBuf, strBuf)

def symbolTableOfType (f : ElfBytes) (ty : Nat) : Out (Option (Table Symbol × Slice)) :=
  match f.shdrs with
  | none => .ok none
  | some shdrs =>
    (shdrs.iter.find fun s => s.sh_type == ty).bind fun o =>
    match o with
    | none => .ok none
    | some symShdr =>
      (shdrs.get symShdr.sh_link).bind fun strShdr =>
      (f.sectionDataAsSymbolTable symShdr strShdr).bind fun r => .ok (some r)

def symbolTable (f : ElfBytes) := f.symbolTableOfType Abi.SHT_SYMTAB
def dynamicSymbolTable (f : ElfBytes) := f.symbolTableOfType Abi.SHT_DYNSYM

/-- One step of the scan of `symbol_version_table`: remember the header under its kind. -/
def verUpdate (shdr : SectionHeader) (vs nd df : Option SectionHeader) :
    Option SectionHeader × Option SectionHeader × Option SectionHeader :=
  if shdr.sh_type = Abi.SHT_GNU_VERSYM then (some shdr, nd, df)
  else if shdr.sh_type = Abi.SHT_GNU_VERNEED then (vs, some shdr, df)
  else if shdr.sh_type = Abi.SHT_GNU_VERDEF then (vs, nd, some shdr)
  else (vs, nd, df)

/-- The scan of `symbol_version_table`: the *last* header of each kind seen before all three
    have been found. -/
def verScan : Nat → Iter SectionHeader →
    Option SectionHeader → Option SectionHeader → Option SectionHeader →
    Out (Option SectionHeader × Option SectionHeader × Option SectionHeader)
  | 0, _, vs, nd, df => .ok (vs, nd, df)
  | fuel + 1, it, vs, nd, df =>
    match it.next with
    | (.ok (some shdr), it') =>
      let u := verUpdate shdr vs nd df
      if u.1.isSome && u.2.1.isSome && u.2.2.isSome then .ok u
      else verScan fuel it' u.1 u.2.1 u.2.2
    | (.ok none, _) => .ok (vs, nd, df)
    | (.err e, _) => .err e
    | (.panic, _) => .panic

def verRecords (f : ElfBytes) (shdrs : Table SectionHeader) (o : Option SectionHeader) :
    Out (Option (VerIter × Slice)) :=
  match o with
  | none => .ok none
  | some shdr =>
    (dataRange shdr.sh_offset shdr.sh_size).bind fun r =>
    (f.data.getBytes r.1 r.2).bind fun buf =>
    (shdrs.get shdr.sh_link).bind fun strsShdr =>
    (dataRange strsShdr.sh_offset strsShdr.sh_size).bind fun r2 =>
    (f.data.getBytes r2.1 r2.2).bind fun strsBuf =>
    .ok (some (⟨f.ehdr.little, f.ehdr.cls, shdr.sh_info, buf, 0⟩, strsBuf))

def symbolVersionTable (f : ElfBytes) : Out (Option SymbolVersionTable) :=
  match f.shdrs with
  | none => .ok none
  | some shdrs =>
    (verScan (shdrs.data.len + 1) shdrs.iter none none none).bind fun (vs, nd, df) =>
    match vs with
    | none => .ok none
    | some versym =>
      (VersionIndex.ep.validateEntsize f.ehdr.cls versym.sh_entsize).bind fun _ =>
      (dataRange versym.sh_offset versym.sh_size).bind fun r =>
      (f.data.getBytes r.1 r.2).bind fun vbuf =>
      (f.verRecords shdrs nd).bind fun verneeds =>
      (f.verRecords shdrs df).bind fun verdefs =>
      .ok (some ⟨⟨VersionIndex.ep, f.ehdr.little, f.ehdr.cls, vbuf⟩, verneeds, verdefs⟩)

structure CommonElfData where
  symtab : Option (Table Symbol) := none
  symtabStrs : Option Slice := none
  dynsyms : Option (Table Symbol) := none
  dynsymsStrs : Option Slice := none
  dynamic : Option (Table Dyn) := none
  sysvHash : Option SysVHashTable := none
  gnuHash : Option GnuHashTable := none

/-- the body of the `for shdr in shdrs.iter()` loop of `find_common_data` -/
def commonStep (f : ElfBytes) (shdrs : Table SectionHeader) (acc : CommonElfData) (shdr : SectionHeader) :
    Out CommonElfData :=
  if shdr.sh_type = Abi.SHT_SYMTAB then
    (shdrs.get shdr.sh_link).bind fun strShdr =>
    (f.sectionDataAsSymbolTable shdr strShdr).bind fun r =>
    Out.ok { acc with symtab := some r.1, symtabStrs := some r.2 }
  else if shdr.sh_type = Abi.SHT_DYNSYM then
    (shdrs.get shdr.sh_link).bind fun strShdr =>
    (f.sectionDataAsSymbolTable shdr strShdr).bind fun r =>
    Out.ok { acc with dynsyms := some r.1, dynsymsStrs := some r.2 }
  else if shdr.sh_type = Abi.SHT_DYNAMIC then
    (f.sectionDataAsDynamic shdr).bind fun t => Out.ok { acc with dynamic := some t }
  else if shdr.sh_type = Abi.SHT_HASH then
    (dataRange shdr.sh_offset shdr.sh_size).bind fun r =>
    (f.data.getBytes r.1 r.2).bind fun buf =>
    (SysVHashTable.new f.ehdr.little f.ehdr.cls buf).bind fun t =>
    Out.ok { acc with sysvHash := some t }
  else if shdr.sh_type = Abi.SHT_GNU_HASH then
    (dataRange shdr.sh_offset shdr.sh_size).bind fun r =>
    (f.data.getBytes r.1 r.2).bind fun buf =>
    (GnuHashTable.new f.ehdr.little f.ehdr.cls buf).bind fun t =>
    Out.ok { acc with gnuHash := some t }
  else .ok acc

def commonScan (f : ElfBytes) (shdrs : Table SectionHeader) :
    Nat → Iter SectionHeader → CommonElfData → Out CommonElfData
  | 0, _, acc => .ok acc
  | fuel + 1, it, acc =>
    match it.next with
    | (.ok (some shdr), it') =>
      (f.commonStep shdrs acc shdr).bind fun acc' => commonScan f shdrs fuel it' acc'
    | (.ok none, _) => .ok acc
    | (.err e, _) => .err e
    | (.panic, _) => .panic

/-- the section pass of `find_common_data` -/
def sectionScan (f : ElfBytes) : Out CommonElfData :=
  match f.shdrs with
  | some shdrs => f.commonScan shdrs (shdrs.data.len + 1) shdrs.iter {}
  | none => .ok {}

def findCommonData (f : ElfBytes) : Out CommonElfData :=
  f.sectionScan.bind fun result =>
  if result.dynamic.isNone then
    f.dynamicFromSegments.bind fun o =>
    match o with
    | some t => .ok { result with dynamic := some t }
    | none => .ok result
  else .ok result

end ElfBytes
end Elf
