/-
  Model/SymVer.lean — version iterators and `SymbolVersionTable` queries (gnu_symver.rs).

  The four record iterators share one shape; `self.offset + aux as usize` and `self.count -= 1`
  are *unchecked* in Rust and are modelled with `uadd` / `usub` (Props/C01 shows they cannot
  panic on the modelled target).
-/
import ElfVerif.Model.Table
import ElfVerif.Model.StrTab
namespace Elf

/-- Common iterator state. -/
structure VerIter where
  little : Bool
  cls : Class
  count : Nat
  data : Slice
  offset : Nat

/-- The shared tail of every `next()`:
    ```
    match self.offset.checked_add(next as usize) { Some(o) => self.offset = o, None => self.count = 0 }
    self.count -= 1;
    if self.count > 0 && next == 0 { self.count = 0 }
    ``` -/
def VerIter.advance (it : VerIter) (next : Nat) : Out VerIter :=
  let (off1, cnt1) := match checkedAdd it.offset next with
    | some o => (o, it.count)
    | none => (it.offset, 0)
  (usub cnt1 1).bind fun cnt2 =>
  let cnt3 := if cnt2 > 0 ∧ next = 0 then 0 else cnt2
  .ok { it with offset := off1, count := cnt3 }

/-- VerDefAuxIterator / VerNeedAuxIterator -/
def VerIter.nextAux {α} (ep : EntryParser α) (nextOf : α → Nat) (it : VerIter) :
    Out (Option α) × VerIter :=
  if it.data.isEmpty || it.count == 0 then (.ok none, it) else
  match (ep.parse it.little it.cls it.data it.offset).1 with
  | .err _ => (.ok none, it)
  | .panic => (.panic, it)
  | .ok a =>
    match it.advance (nextOf a) with
    | .ok it' => (.ok (some a), it')
    | .err e => (.err e, it)
    | .panic => (.panic, it)

/-- VerDefIterator / VerNeedIterator: yields the record and its aux iterator. -/
def VerIter.nextRec {α} (ep : EntryParser α) (cntOf auxOf nextOf : α → Nat) (it : VerIter) :
    Out (Option (α × VerIter)) × VerIter :=
  if it.data.isEmpty || it.count == 0 then (.ok none, it) else
  match (ep.parse it.little it.cls it.data it.offset).1 with
  | .err _ => (.ok none, it)
  | .panic => (.panic, it)
  | .ok a =>
    -- `self.offset + vd.vd_aux as usize` — unchecked
    match uadd it.offset (auxOf a) with
    | .panic => (.panic, it)
    | .err e => (.err e, it)
    | .ok auxOff =>
      let auxIt : VerIter := ⟨it.little, it.cls, cntOf a, it.data, auxOff⟩
      match it.advance (nextOf a) with
      | .ok it' => (.ok (some (a, auxIt)), it')
      | .err e => (.err e, it)
      | .panic => (.panic, it)

def verDefAuxNext := VerIter.nextAux VerDefAux.ep VerDefAux.vda_next
def verNeedAuxNext := VerIter.nextAux VerNeedAux.ep VerNeedAux.vna_next
def verDefNext := VerIter.nextRec VerDef.ep VerDef.vd_cnt VerDef.vd_aux VerDef.vd_next
def verNeedNext := VerIter.nextRec VerNeed.ep VerNeed.vn_cnt VerNeed.vn_aux VerNeed.vn_next

/-- Generic drain with fuel (`Props/C16` shows `count`-many steps suffice and `count` strictly
    decreases on every yield, so `it.count + 1` fuel never runs out). -/
def drainFuel {σ β} (next : σ → Out (Option β) × σ) : Nat → σ → List β → Out (List β) × σ
  | 0, s, acc => (.ok acc, s)
  | n + 1, s, acc =>
    match next s with
    | (.ok (some b), s') => drainFuel next n s' (acc ++ [b])
    | (.ok none, s') => (.ok acc, s')
    | (.err e, s') => (.err e, s')
    | (.panic, s') => (.panic, s')

def VerIter.collectAux {α} (ep : EntryParser α) (nextOf : α → Nat) (it : VerIter) :
    Out (List α) × VerIter :=
  drainFuel (VerIter.nextAux ep nextOf) (it.count + 1) it []

structure SymbolVersionTable where
  versionIds : Table Nat
  verneeds : Option (VerIter × Slice)
  verdefs : Option (VerIter × Slice)

structure SymbolRequirement where
  file : Slice
  name : Slice
  hash : Nat
  flags : Nat
  hidden : Bool

structure SymbolDefinition where
  hash : Nat
  flags : Nat
  names : VerIter
  strtab : Slice
  hidden : Bool

/-- inner `for vna in vna_iter` of `get_requirement`: first aux with `vna_other == idx`. -/
def findAux (idx : Nat) : Nat → VerIter → Out (Option VerNeedAux)
  | 0, _ => .ok none
  | fuel + 1, it =>
    match verNeedAuxNext it with
    | (.ok (some vna), it') => if vna.vna_other = idx then .ok (some vna) else findAux idx fuel it'
    | (.ok none, _) => .ok none
    | (.err e, _) => .err e
    | (.panic, _) => .panic

def reqLoop (strs : Slice) (verNdx : Nat) : Nat → VerIter → Out (Option SymbolRequirement)
  | 0, _ => .ok none
  | fuel + 1, it =>
    match verNeedNext it with
    | (.ok (some (vn, vnaIt)), it') =>
      match findAux (VersionIndex.index verNdx) (vnaIt.count + 1) vnaIt with
      | .ok (some vna) =>
        (strGet strs vn.vn_file).bind fun file =>
        (strGet strs vna.vna_name).bind fun name =>
        .ok (some ⟨file, name, vna.vna_hash, vna.vna_flags, VersionIndex.isHidden verNdx⟩)
      | .ok none => reqLoop strs verNdx fuel it'
      | .err e => .err e
      | .panic => .panic
    | (.ok none, _) => .ok none
    | (.err e, _) => .err e
    | (.panic, _) => .panic

def SymbolVersionTable.getRequirement (t : SymbolVersionTable) (symIdx : Nat) :
    Out (Option SymbolRequirement) :=
  match t.verneeds with
  | none => .ok none
  | some (it, strs) =>
    (t.versionIds.get symIdx).bind fun verNdx =>
    reqLoop strs verNdx (it.count + 1) it

def defLoop (strs : Slice) (verNdx : Nat) : Nat → VerIter → Out (Option SymbolDefinition)
  | 0, _ => .ok none
  | fuel + 1, it =>
    match verDefNext it with
    | (.ok (some (vd, vdaIt)), it') =>
      if vd.vd_ndx ≠ VersionIndex.index verNdx then defLoop strs verNdx fuel it'
      else .ok (some ⟨vd.vd_hash, vd.vd_flags, vdaIt, strs, VersionIndex.isHidden verNdx⟩)
    | (.ok none, _) => .ok none
    | (.err e, _) => .err e
    | (.panic, _) => .panic

def SymbolVersionTable.getDefinition (t : SymbolVersionTable) (symIdx : Nat) :
    Out (Option SymbolDefinition) :=
  match t.verdefs with
  | none => .ok none
  | some (it, strs) =>
    (t.versionIds.get symIdx).bind fun verNdx =>
    defLoop strs verNdx (it.count + 1) it

/-- `SymbolNamesIterator`: each aux record's name looked up in the string table (`Result` per item). -/
def SymbolDefinition.collectNames (d : SymbolDefinition) : Out (List (Out Slice)) :=
  match VerIter.collectAux VerDefAux.ep VerDefAux.vda_next d.names with
  | (.ok auxs, _) => .ok (auxs.map fun a => strGet d.strtab a.vda_name)
  | (.err e, _) => .err e
  | (.panic, _) => .panic

end Elf
