/-
  Model/StrTab.lean — `StringTable::{get_raw, get}` (string_table.rs).
-/
import ElfVerif.Model.Utf8
namespace Elf

/-- Index (relative to the window) of the first NUL among bytes `i … i+n-1`. -/
def findNul (s : Slice) : Nat → Nat → Option Nat
  | _, 0 => none
  | i, n + 1 => if s.byte i = 0 then some i else findNul s (i + 1) n

def strGetRaw (t : Slice) (off : Nat) : Out Slice :=
  if t.isEmpty then .err (.BadOffset off) else
  match t.getFrom? off with
  | none => .err (.BadOffset off)
  | some s =>
    match findNul s 0 s.len with
    | none => .err (.StringTableMissingNul off)
    | some k => .ok ⟨s.buf, s.start, s.start + k⟩

def strGet (t : Slice) (off : Nat) : Out Slice :=
  match strGetRaw t off with
  | .ok w => if validUtf8 w then .ok w else .err .Utf8Error
  | .err e => .err e
  | .panic => .panic

end Elf
