/-
  Model/Endian.lean — `safe_from!` (endian.rs): checked end, `slice.get`, decode, advance.
-/
import ElfVerif.Model.Bytes
namespace Elf

inductive Ty where
  | u8 | u16 | u32 | u64 | i32 | i64
  deriving DecidableEq, Repr, Inhabited

def Ty.width : Ty → Nat
  | .u8 => 1 | .u16 => 2 | .u32 => 4 | .u64 => 8 | .i32 => 4 | .i64 => 8

def Ty.signed : Ty → Bool
  | .i32 | .i64 => true
  | _ => false

/-- Little-endian value of `w` bytes starting at `off`: byte `i` has weight `256^i`. -/
def decodeLE (s : Slice) (off : Nat) : Nat → Nat
  | 0 => 0
  | w + 1 => s.byte off + 256 * decodeLE s (off + 1) w

/-- Big-endian value of `w` bytes starting at `off`: byte `i` has weight `256^(w-1-i)`. -/
def decodeBE (s : Slice) (off : Nat) : Nat → Nat
  | 0 => 0
  | w + 1 => s.byte off * 256 ^ w + decodeBE s (off + 1) w

@[inline] def decode (little : Bool) (s : Slice) (off w : Nat) : Nat :=
  if little then decodeLE s off w else decodeBE s off w

/-- Two's-complement reading of an unsigned `8*w`-bit value. -/
@[inline] def toSigned (w : Nat) (v : Nat) : Int :=
  if v < 2 ^ (8 * w - 1) then (v : Int) else (v : Int) - (2 ^ (8 * w) : Nat)

/-- Unsigned read of `w` bytes (`w ≥ 1`), result and cursor.  On any failure the cursor is
    unchanged. -/
@[inline] def readN (little : Bool) (w : Nat) (d : Slice) : ParseM Nat := fun off =>
  match checkedAdd off w with
  | none => (.err .IntegerOverflow, off)
  | some e =>
    match d.get? off e with
    | none => (.err (.SliceReadError off e), off)
    | some _ => (.ok (decode little d off w), e)

/-- `EndianParse::parse_<ty>_at`; values as integers (signed for i32/i64). -/
@[inline] def readTy (little : Bool) (t : Ty) (d : Slice) : ParseM Int := fun off =>
  match readN little t.width d off with
  | (.ok v, off') => (.ok (if t.signed then toSigned t.width v else (v : Int)), off')
  | (.err e, off') => (.err e, off')
  | (.panic, off') => (.panic, off')

/-- `EndianParse::from_ei_data` for the three specs; result = "is little". -/
inductive Spec where
  | little | big | any
  deriving DecidableEq, Repr, Inhabited

def fromEiData (sp : Spec) (b : Nat) : Out Bool :=
  match sp with
  | .little => if b = 1 then .ok true else .err (.UnsupportedElfEndianness b)
  | .big => if b = 2 then .ok false else .err (.UnsupportedElfEndianness b)
  | .any => if b = 1 then .ok true else if b = 2 then .ok false
            else .err (.UnsupportedElfEndianness b)

end Elf
