/-
  Model/Table.lean — `ParsingTable` and `ParsingIterator` (parse.rs).
-/
import ElfVerif.Model.Structs
namespace Elf

structure Table (α : Type) where
  ep : EntryParser α
  little : Bool
  cls : Class
  data : Slice

namespace Table

/-- `len()`: `data.len() / size_for(class)`; `size_for` is a non-zero constant for every
    generated entry kind (`Props/C01.size_for_pos`). -/
@[inline] def len {α} (t : Table α) : Nat := t.data.len / t.ep.size t.cls

@[inline] def isEmpty {α} (t : Table α) : Bool := t.len == 0

def get {α} (t : Table α) (index : Nat) : Out α :=
  if t.data.isEmpty then .err (.BadOffset index) else
  match checkedMul index (t.ep.size t.cls) with
  | none => .err .IntegerOverflow
  | some start =>
    if start > t.data.len then .err (.BadOffset index)
    else (t.ep.parse t.little t.cls t.data start).1

end Table

/-- `ParsingIterator`: data plus a cursor that `parse_at` moves even when it fails. -/
structure Iter (α : Type) where
  ep : EntryParser α
  little : Bool
  cls : Class
  data : Slice
  offset : Nat

def Table.iter {α} (t : Table α) : Iter α := ⟨t.ep, t.little, t.cls, t.data, 0⟩

/-- `next()`: `.ok none` is Rust's `None`; the new state carries the (possibly advanced) cursor. -/
def Iter.next {α} (it : Iter α) : Out (Option α) × Iter α :=
  if it.data.isEmpty then (.ok none, it) else
  match it.ep.parse it.little it.cls it.data it.offset with
  | (.ok a, off') => (.ok (some a), { it with offset := off' })
  | (.err _, off') => (.ok none, { it with offset := off' })
  | (.panic, off') => (.panic, { it with offset := off' })

/-- Drain with fuel.  `Props/C09.collect_drained` shows `data.len + 1` fuel always suffices. -/
def Iter.collectFuel {α} : Nat → Iter α → List α → Out (List α) × Iter α
  | 0, it, acc => (.ok acc, it)
  | n + 1, it, acc =>
    match it.next with
    | (.ok (some a), it') => collectFuel n it' (acc ++ [a])
    | (.ok none, it') => (.ok acc, it')
    | (.err e, it') => (.err e, it')
    | (.panic, it') => (.panic, it')

/-- Same drain with a reversed accumulator (linear time; `collectFuel` is the specification). -/
def Iter.collectFast {α} : Nat → Iter α → List α → Out (List α) × Iter α
  | 0, it, acc => (.ok acc.reverse, it)
  | n + 1, it, acc =>
    match it.next with
    | (.ok (some a), it') => collectFast n it' (a :: acc)
    | (.ok none, it') => (.ok acc.reverse, it')
    | (.err e, it') => (.err e, it')
    | (.panic, it') => (.panic, it')

theorem Iter.collectFast_eq {α} (n : Nat) (it : Iter α) (acc : List α) :
    Iter.collectFast n it acc = Iter.collectFuel n it acc.reverse := by
  induction n generalizing it acc with
  | zero => simp [Iter.collectFast, Iter.collectFuel]
  | succ n ih =>
    unfold Iter.collectFast Iter.collectFuel
    generalize it.next = r
    obtain ⟨r1, r2⟩ := r
    cases r1 with
    | ok o =>
      cases o with
      | none => rfl
      | some a => simp only; rw [ih]; simp
    | err e => rfl
    | panic => rfl

def Iter.collect {α} (it : Iter α) : Out (List α) × Iter α :=
  it.collectFast (it.data.len + 1) []

theorem Iter.collect_eq {α} (it : Iter α) : it.collect = it.collectFuel (it.data.len + 1) [] := by
  unfold Iter.collect; rw [Iter.collectFast_eq]; rfl

/-- `Iterator::find`. -/
def Iter.findFuel {α} (p : α → Bool) : Nat → Iter α → Out (Option α)
  | 0, _ => .ok none
  | n + 1, it =>
    match it.next with
    | (.ok (some a), it') => if p a then .ok (some a) else findFuel p n it'
    | (.ok none, _) => .ok none
    | (.err e, _) => .err e
    | (.panic, _) => .panic

def Iter.find {α} (it : Iter α) (p : α → Bool) : Out (Option α) :=
  Iter.findFuel p (it.data.len + 1) it

end Elf
