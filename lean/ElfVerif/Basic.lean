def hello := "world"
