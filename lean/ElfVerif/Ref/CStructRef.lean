/-
  Ref/CStructRef.lean — REFERENCE (hand-vendored): size and field offsets of the C structures of
  the gABI (ELF header, section header, program header, symbol, Rel/Rela, Dyn, Chdr) for both
  classes, as the gABI figures and glibc's <elf.h> declare them.
  Names are given as strings and converted with `key` (base-256 of the ASCII bytes), the same
  encoding the translator uses.
-/
namespace Elf.Ref

def key (s : String) : Nat := s.toUTF8.foldl (fun n b => n * 256 + b.toNat) 0

/-- (struct, size, [(field, offset)]) -/
def cStructRef : List (String × Nat × List (String × Nat)) := [
  ("Elf32_Ehdr", 52, [("e_ident", 0), ("e_type", 16), ("e_machine", 18), ("e_version", 20), ("e_entry", 24),
    ("e_phoff", 28), ("e_shoff", 32), ("e_flags", 36), ("e_ehsize", 40), ("e_phentsize", 42), ("e_phnum", 44),
    ("e_shentsize", 46), ("e_shnum", 48), ("e_shstrndx", 50)]),
  ("Elf64_Ehdr", 64, [("e_ident", 0), ("e_type", 16), ("e_machine", 18), ("e_version", 20), ("e_entry", 24),
    ("e_phoff", 32), ("e_shoff", 40), ("e_flags", 48), ("e_ehsize", 52), ("e_phentsize", 54), ("e_phnum", 56),
    ("e_shentsize", 58), ("e_shnum", 60), ("e_shstrndx", 62)]),
  ("Elf32_Shdr", 40, [("sh_name", 0), ("sh_type", 4), ("sh_flags", 8), ("sh_addr", 12), ("sh_offset", 16),
    ("sh_size", 20), ("sh_link", 24), ("sh_info", 28), ("sh_addralign", 32), ("sh_entsize", 36)]),
  ("Elf64_Shdr", 64, [("sh_name", 0), ("sh_type", 4), ("sh_flags", 8), ("sh_addr", 16), ("sh_offset", 24),
    ("sh_size", 32), ("sh_link", 40), ("sh_info", 44), ("sh_addralign", 48), ("sh_entsize", 56)]),
  ("Elf32_Phdr", 32, [("p_type", 0), ("p_offset", 4), ("p_vaddr", 8), ("p_paddr", 12), ("p_filesz", 16),
    ("p_memsz", 20), ("p_flags", 24), ("p_align", 28)]),
  ("Elf64_Phdr", 56, [("p_type", 0), ("p_flags", 4), ("p_offset", 8), ("p_vaddr", 16), ("p_paddr", 24),
    ("p_filesz", 32), ("p_memsz", 40), ("p_align", 48)]),
  ("Elf32_Sym", 16, [("st_name", 0), ("st_value", 4), ("st_size", 8), ("st_info", 12), ("st_other", 13),
    ("st_shndx", 14)]),
  ("Elf64_Sym", 24, [("st_name", 0), ("st_info", 4), ("st_other", 5), ("st_shndx", 6), ("st_value", 8),
    ("st_size", 16)]),
  ("Elf32_Rel", 8, [("r_offset", 0), ("r_info", 4)]),
  ("Elf64_Rel", 16, [("r_offset", 0), ("r_info", 8)]),
  ("Elf32_Rela", 12, [("r_offset", 0), ("r_info", 4), ("r_addend", 8)]),
  ("Elf64_Rela", 24, [("r_offset", 0), ("r_info", 8), ("r_addend", 16)]),
  ("Elf32_Dyn", 8, [("d_tag", 0), ("d_un", 4)]),
  ("Elf64_Dyn", 16, [("d_tag", 0), ("d_un", 8)]),
  ("Elf32_Chdr", 12, [("ch_type", 0), ("ch_size", 4), ("ch_addralign", 8)]),
  ("Elf64_Chdr", 24, [("ch_type", 0), ("ch_reserved", 4), ("ch_size", 8), ("ch_addralign", 16)])
]

end Elf.Ref
