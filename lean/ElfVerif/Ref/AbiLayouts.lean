/-
  Ref/AbiLayouts.lean — REFERENCE (hand-vendored, never regenerated).

  On-disk layouts of the structures the crate parses, transcribed from:
    * System V gABI, ch. 4 "ELF Header", "Sections", "Symbol Table", "Relocation", ch. 5 "Program Header",
      "Dynamic Section", "Note Section", "Hash Table", compression header (gABI 2016 update);
    * GNU symbol versioning: LSB Core generic, "Symbol Versioning" (Elfxx_Verdef/Verdaux/Verneed/Vernaux);
    * GNU hash section: "GNU Hash ELF Sections" (Drepper / binutils documentation).
  Each native field of the crate's record says which ABI field it is and how it is widened:
  `same` (identical width), `zext` (unsigned → u64), `sext` (i32 → i64), and the four r_info
  splitters defined by the ABI macros ELF32_R_SYM/TYPE and ELF64_R_SYM/TYPE.
-/
import ElfVerif.Model.Prog
namespace Elf.Ref

inductive RefField where
  | same (k : Nat)
  | zext (k : Nat)
  | sext (k : Nat)
  | rsym32 (k : Nat)
  | rtype32 (k : Nat)
  | rsym64 (k : Nat)
  | rtype64 (k : Nat)
  deriving Repr, DecidableEq

def RefField.toExpr : RefField → Expr
  | .same k => .rd k
  | .zext k => .cast .u64 (.rd k)
  | .sext k => .cast .i64 (.rd k)
  | .rsym32 k => .shr (.rd k) 8
  | .rtype32 k => .land (.rd k) 255
  | .rsym64 k => .cast .u32 (.shr (.rd k) 32)
  | .rtype64 k => .cast .u32 (.land (.rd k) 4294967295)

structure Layout where
  abi : List Ty               -- ABI fields in on-disk order
  native : List RefField      -- the crate's record, canonical field order (translator CANON)
  guard : Option Guard := none

def Layout.toProg (l : Layout) : Prog := ⟨l.abi, l.guard, l.native.map RefField.toExpr⟩

open Ty RefField

-- Elf32_Shdr / Elf64_Shdr : name type flags addr offset size link info addralign entsize
def sectionHeader : Class → Layout
  | .ELF32 => ⟨[u32, u32, u32, u32, u32, u32, u32, u32, u32, u32],
               [same 0, same 1, zext 2, zext 3, zext 4, zext 5, same 6, same 7, zext 8, zext 9], none⟩
  | .ELF64 => ⟨[u32, u32, u64, u64, u64, u64, u32, u32, u64, u64],
               [same 0, same 1, same 2, same 3, same 4, same 5, same 6, same 7, same 8, same 9], none⟩

-- Elf32_Phdr: type offset vaddr paddr filesz memsz flags align
-- Elf64_Phdr: type flags offset vaddr paddr filesz memsz align
-- native: p_type p_offset p_vaddr p_paddr p_filesz p_memsz p_flags p_align
def programHeader : Class → Layout
  | .ELF32 => ⟨[u32, u32, u32, u32, u32, u32, u32, u32],
               [same 0, zext 1, zext 2, zext 3, zext 4, zext 5, same 6, zext 7], none⟩
  | .ELF64 => ⟨[u32, u32, u64, u64, u64, u64, u64, u64],
               [same 0, same 2, same 3, same 4, same 5, same 6, same 1, same 7], none⟩

-- Elf32_Sym: name value size info other shndx ; Elf64_Sym: name info other shndx value size
-- native: st_name st_shndx st_info st_other st_value st_size
def symbol : Class → Layout
  | .ELF32 => ⟨[u32, u32, u32, u8, u8, u16], [same 0, same 5, same 3, same 4, zext 1, zext 2], none⟩
  | .ELF64 => ⟨[u32, u8, u8, u16, u64, u64], [same 0, same 3, same 1, same 2, same 4, same 5], none⟩

-- Elf32_Rel / Elf64_Rel: offset info ; native: r_offset r_sym r_type
def rel : Class → Layout
  | .ELF32 => ⟨[u32, u32], [zext 0, rsym32 1, rtype32 1], none⟩
  | .ELF64 => ⟨[u64, u64], [same 0, rsym64 1, rtype64 1], none⟩

-- Elf32_Rela / Elf64_Rela: offset info addend(signed)
def rela : Class → Layout
  | .ELF32 => ⟨[u32, u32, i32], [zext 0, rsym32 1, rtype32 1, sext 2], none⟩
  | .ELF64 => ⟨[u64, u64, i64], [same 0, rsym64 1, rtype64 1, same 2], none⟩

-- Elf32_Dyn / Elf64_Dyn: d_tag (signed) d_un
def dyn : Class → Layout
  | .ELF32 => ⟨[i32, u32], [sext 0, zext 1], none⟩
  | .ELF64 => ⟨[i64, u64], [same 0, same 1], none⟩

-- Elf32_Chdr: type size addralign ; Elf64_Chdr: type reserved size addralign
def compressionHeader : Class → Layout
  | .ELF32 => ⟨[u32, u32, u32], [same 0, zext 1, zext 2], none⟩
  | .ELF64 => ⟨[u32, u32, u64, u64], [same 0, same 2, same 3], none⟩

-- Note header: three words (the crate's NoteHeader also has a 64-bit form it never uses)
def noteHeader : Class → Layout
  | .ELF32 => ⟨[u32, u32, u32], [zext 0, zext 1, zext 2], none⟩
  | .ELF64 => ⟨[u64, u64, u64], [same 0, same 1, same 2], none⟩

-- NT_GNU_ABI_TAG descriptor: os major minor subminor (four words), class independent
def noteGnuAbiTag : Class → Layout := fun _ => ⟨[u32, u32, u32, u32], [same 0, same 1, same 2, same 3], none⟩
-- .hash header: nbucket nchain
def sysvHashHeader : Class → Layout := fun _ => ⟨[u32, u32], [same 0, same 1], none⟩
-- .gnu.hash header: nbuckets symoffset bloom_size bloom_shift
def gnuHashHeader : Class → Layout := fun _ => ⟨[u32, u32, u32, u32], [same 0, same 1, same 2, same 3], none⟩
def word32 : Class → Layout := fun _ => ⟨[u32], [same 0], none⟩
def word64 : Class → Layout := fun _ => ⟨[u64], [same 0], none⟩
-- Elfxx_Versym = Elfxx_Half
def versionIndex : Class → Layout := fun _ => ⟨[u16], [same 0], none⟩
-- Elfxx_Verdef: vd_version vd_flags vd_ndx vd_cnt vd_hash vd_aux vd_next ; version must be 1
def verDef : Class → Layout := fun _ =>
  ⟨[u16, u16, u16, u16, u32, u32, u32], [same 1, same 2, same 3, same 4, same 5, same 6], some ⟨0, 1, 1⟩⟩
-- Elfxx_Verdaux: vda_name vda_next
def verDefAux : Class → Layout := fun _ => ⟨[u32, u32], [same 0, same 1], none⟩
-- Elfxx_Verneed: vn_version vn_cnt vn_file vn_aux vn_next ; version must be 1
def verNeed : Class → Layout := fun _ =>
  ⟨[u16, u16, u32, u32, u32], [same 1, same 2, same 3, same 4], some ⟨0, 1, 1⟩⟩
-- Elfxx_Vernaux: vna_hash vna_flags vna_other vna_name vna_next
def verNeedAux : Class → Layout := fun _ => ⟨[u32, u16, u16, u32, u32], [same 0, same 1, same 2, same 3, same 4], none⟩
-- ELF header after e_ident: type machine version entry phoff shoff flags ehsize phentsize phnum shentsize shnum shstrndx
-- native: version e_type e_machine e_entry e_phoff e_shoff e_flags e_ehsize e_phentsize e_phnum e_shentsize e_shnum e_shstrndx
def fileHeaderTail : Class → Layout
  | .ELF32 => ⟨[u16, u16, u32, u32, u32, u32, u32, u16, u16, u16, u16, u16, u16],
               [same 2, same 0, same 1, zext 3, zext 4, zext 5, same 6, same 7, same 8, same 9, same 10, same 11, same 12], none⟩
  | .ELF64 => ⟨[u16, u16, u32, u64, u64, u64, u32, u16, u16, u16, u16, u16, u16],
               [same 2, same 0, same 1, same 3, same 4, same 5, same 6, same 7, same 8, same 9, same 10, same 11, same 12], none⟩

/-- ABI structure sizes (bytes), from the same documents (sizeof of the C structures). -/
def abiSize : List (Class → Nat) := []

end Elf.Ref
