/-
  Props/C01 — the slice parser is total: arbitrary bytes give Ok/Err/None, never a panic.

  In the model every Rust operation that can panic (indexing, `split_at`, unchecked `+ - %`,
  `-=`) is written as an operation that returns `Out.panic` exactly when Rust compiled with
  overflow and debug assertions would panic.  The theorems below say `≠ .panic` for every public
  entry point, for all bytes and all caller-supplied indices, offsets, alignments and counts
  (every iterator theorem is over *every* iterator state, because the iterators' constructors
  are public).  Hypotheses are only those of the modelled target: windows are well-formed
  (`len ≤ isize::MAX`) and `usize` values are below 2^64.
-/
import ElfVerif.Lemmas.NoPanic
import ElfVerif.Props.C10
namespace Elf.C01

/-! ### struct parsers, tables, iterators, string tables, ident -/

theorem read_total (le : Bool) (t : Ty) (d : Slice) (off : Nat) : (readTy le t d off).1 ≠ .panic :=
  readTy_ne_panic le t d off

/-- `size_for` is a positive constant for every generated entry kind (divisor of `len()`). -/
theorem size_for_pos : Gen.allProgs.all (fun r => decide (0 < r.2.2.2)) = true := by decide

theorem parse_total_SectionHeader (le : Bool) (c : Class) (d : Slice) (off : Nat) :
    (SectionHeader.ep.parse le c d off).1 ≠ .panic := EntryParser.parse_no_panic SectionHeader.ep total_SectionHeader le c d off
theorem parse_total_ProgramHeader (le : Bool) (c : Class) (d : Slice) (off : Nat) :
    (ProgramHeader.ep.parse le c d off).1 ≠ .panic := EntryParser.parse_no_panic ProgramHeader.ep total_ProgramHeader le c d off
theorem parse_total_Symbol (le : Bool) (c : Class) (d : Slice) (off : Nat) :
    (Symbol.ep.parse le c d off).1 ≠ .panic := EntryParser.parse_no_panic Symbol.ep total_Symbol le c d off
theorem parse_total_Rel (le : Bool) (c : Class) (d : Slice) (off : Nat) :
    (Rel.ep.parse le c d off).1 ≠ .panic := EntryParser.parse_no_panic Rel.ep total_Rel le c d off
theorem parse_total_Rela (le : Bool) (c : Class) (d : Slice) (off : Nat) :
    (Rela.ep.parse le c d off).1 ≠ .panic := EntryParser.parse_no_panic Rela.ep total_Rela le c d off
theorem parse_total_Dyn (le : Bool) (c : Class) (d : Slice) (off : Nat) :
    (Dyn.ep.parse le c d off).1 ≠ .panic := EntryParser.parse_no_panic Dyn.ep total_Dyn le c d off
theorem parse_total_CompressionHeader (le : Bool) (c : Class) (d : Slice) (off : Nat) :
    (CompressionHeader.ep.parse le c d off).1 ≠ .panic := EntryParser.parse_no_panic CompressionHeader.ep total_CompressionHeader le c d off
theorem parse_total_NoteHeader (le : Bool) (c : Class) (d : Slice) (off : Nat) :
    (NoteHeader.ep.parse le c d off).1 ≠ .panic := EntryParser.parse_no_panic NoteHeader.ep total_NoteHeader le c d off
theorem parse_total_NoteGnuAbiTag (le : Bool) (c : Class) (d : Slice) (off : Nat) :
    (NoteGnuAbiTag.ep.parse le c d off).1 ≠ .panic := EntryParser.parse_no_panic NoteGnuAbiTag.ep total_NoteGnuAbiTag le c d off
theorem parse_total_SysVHashHeader (le : Bool) (c : Class) (d : Slice) (off : Nat) :
    (SysVHashHeader.ep.parse le c d off).1 ≠ .panic := EntryParser.parse_no_panic SysVHashHeader.ep total_SysVHashHeader le c d off
theorem parse_total_GnuHashHeader (le : Bool) (c : Class) (d : Slice) (off : Nat) :
    (GnuHashHeader.ep.parse le c d off).1 ≠ .panic := EntryParser.parse_no_panic GnuHashHeader.ep total_GnuHashHeader le c d off
theorem parse_total_U32 (le : Bool) (c : Class) (d : Slice) (off : Nat) :
    (U32.ep.parse le c d off).1 ≠ .panic := EntryParser.parse_no_panic U32.ep total_U32 le c d off
theorem parse_total_U64 (le : Bool) (c : Class) (d : Slice) (off : Nat) :
    (U64.ep.parse le c d off).1 ≠ .panic := EntryParser.parse_no_panic U64.ep total_U64 le c d off
theorem parse_total_VersionIndex (le : Bool) (c : Class) (d : Slice) (off : Nat) :
    (VersionIndex.ep.parse le c d off).1 ≠ .panic := EntryParser.parse_no_panic VersionIndex.ep total_VersionIndex le c d off
theorem parse_total_VerDef (le : Bool) (c : Class) (d : Slice) (off : Nat) :
    (VerDef.ep.parse le c d off).1 ≠ .panic := EntryParser.parse_no_panic VerDef.ep total_VerDef le c d off
theorem parse_total_VerDefAux (le : Bool) (c : Class) (d : Slice) (off : Nat) :
    (VerDefAux.ep.parse le c d off).1 ≠ .panic := EntryParser.parse_no_panic VerDefAux.ep total_VerDefAux le c d off
theorem parse_total_VerNeed (le : Bool) (c : Class) (d : Slice) (off : Nat) :
    (VerNeed.ep.parse le c d off).1 ≠ .panic := EntryParser.parse_no_panic VerNeed.ep total_VerNeed le c d off
theorem parse_total_VerNeedAux (le : Bool) (c : Class) (d : Slice) (off : Nat) :
    (VerNeedAux.ep.parse le c d off).1 ≠ .panic := EntryParser.parse_no_panic VerNeedAux.ep total_VerNeedAux le c d off
theorem parse_total_FileHeaderTail (le : Bool) (c : Class) (d : Slice) (off : Nat) :
    (FileHeaderTail.ep.parse le c d off).1 ≠ .panic := EntryParser.parse_no_panic FileHeaderTail.ep total_FileHeaderTail le c d off

theorem validate_entsize_total {α} (ep : EntryParser α) (c : Class) (n : Nat) :
    ep.validateEntsize c n ≠ .panic := validateEntsize_ne_panic ep c n

theorem table_get_total {α} (t : Table α) (ht : t.ep.Total) (i : Nat) : t.get i ≠ .panic :=
  Table.get_ne_panic t ht i

theorem iter_next_total {α} (it : Iter α) (ht : it.ep.Total) : it.next.1 ≠ .panic :=
  Iter.next_ne_panic it ht

theorem strtab_get_raw_total (t : Slice) (off : Nat) : strGetRaw t off ≠ .panic := strGetRaw_ne_panic t off
theorem strtab_get_total (t : Slice) (off : Nat) : strGet t off ≠ .panic := strGet_ne_panic t off

/-- `parse_ident` on *any* buffer, including buffers shorter than `EI_NIDENT`
    (this was false before the `fix:` commit recorded in known_findings.json). -/
theorem from_ei_data_total (sp : Spec) (b : Nat) : fromEiData sp b ≠ .panic := by
  cases sp <;> simp only [fromEiData] <;> (repeat' split) <;> simp

theorem parse_ident_total (sp : Spec) (d : Slice) : parseIdent sp d ≠ .panic := by
  rw [C10.parse_ident_spec]; unfold C10.identSpec
  split; · simp
  split; · simp
  split; · simp
  split; · simp
  have := from_ei_data_total sp (d.byte 5)
  cases h : fromEiData sp (d.byte 5) with
  | ok v => simp
  | err e => simp
  | panic => exact absurd h this

/-! ### notes: `%` and `-` in the padding code are unchecked in Rust -/

theorem note_pad_total (align off : Nat) (ha : align ≠ 0) : notePad align off ≠ .panic := by
  unfold notePad umod
  simp only [ha, if_false, Out.bind]
  split
  · unfold usub
    have : off % align ≤ align := Nat.le_of_lt (Nat.mod_lt _ (Nat.pos_of_ne_zero ha))
    simp only [this, if_true]
    exact Out.ofOption_ne_panic _ _
  · simp

theorem note_parse_total (le : Bool) (c : Class) (align : Nat) (d : Slice) (off : Nat) :
    (Note.parseAt le c align d off).1 ≠ .panic := by
  unfold Note.parseAt
  by_cases ha : align = 0
  · simp [ha]
  · simp only [ha, if_false]
    have hp := parse_total_NoteHeader le .ELF32 d off
    have hp1 : ∀ o, notePad align o ≠ .panic := fun o => note_pad_total align o ha
    have hp2 : ∀ desc, (NoteGnuAbiTag.ep.parse le c desc 0).1 ≠ .panic :=
      fun desc => parse_total_NoteGnuAbiTag le c desc 0
    generalize NoteHeader.ep.parse le .ELF32 d off = r at hp
    obtain ⟨r1, r2⟩ := r
    cases r1 with
    | panic => simp at hp
    | err e => simp
    | ok nhdr =>
      simp only
      repeat' split
      all_goals first
        | (simp; done)
        | (simp_all; done)

theorem note_iter_next_total (it : NoteIter) : it.next.1 ≠ .panic := by
  unfold NoteIter.next
  split
  · simp
  · have := note_parse_total it.little it.cls it.align it.data it.offset
    generalize Note.parseAt it.little it.cls it.align it.data it.offset = r at this
    obtain ⟨r1, r2⟩ := r
    cases r1 <;> simp_all

theorem note_name_str_total (name : Slice) : noteNameStr name ≠ .panic := by
  unfold noteNameStr; split <;> simp

/-! ### version-record iterators: `self.offset + aux as usize` and `self.count -= 1` are unchecked -/

theorem tyVal_u32_bound (le : Bool) (d : Slice) (o : Nat) : (tyVal le .u32 d o).toNat < 2 ^ 32 := by
  have := decode_lt le d o 4
  simp [tyVal, Ty.signed, Ty.width]
  omega

theorem tyVal_u16_bound (le : Bool) (d : Slice) (o : Nat) : (tyVal le .u16 d o).toNat < 2 ^ 16 := by
  have := decode_lt le d o 2
  simp [tyVal, Ty.signed, Ty.width]
  omega

theorem advance_total (it : VerIter) (next : Nat) (hc : it.count ≠ 0) (ho : it.offset + next < USZ) :
    it.advance next ≠ .panic := by
  unfold VerIter.advance checkedAdd usub
  simp only [ho, if_true, Out.bind]
  have : 1 ≤ it.count := Nat.pos_of_ne_zero hc
  simp [this]

/-- Every state of every aux iterator: no panic.  The proof is the arithmetic argument of the
    design note: the preceding parse succeeded, so `offset + size ≤ len < 2^63`, and `next < 2^32`,
    hence `offset + next` cannot overflow and the `count = 0; count -= 1` path is unreachable. -/
theorem verdefaux_next_total (it : VerIter) (hwf : it.data.len < 2 ^ 63) :
    (verDefAuxNext it).1 ≠ .panic := by
  unfold verDefAuxNext VerIter.nextAux
  split
  · simp
  · rename_i hguard
    have hp := parse_total_VerDefAux it.little it.cls it.data it.offset
    generalize hq : VerDefAux.ep.parse it.little it.cls it.data it.offset = r at hp
    obtain ⟨r1, r2⟩ := r
    cases r1 with
    | panic => simp at hp
    | err e => simp
    | ok a =>
      simp only
      have hs := EntryParser.parse_ok_shape VerDefAux.ep it.little it.cls (by cases it.cls <;> decide)
        it.data it.offset a r2 hq
      have hnext : a.vda_next < 2 ^ 32 := by
        obtain ⟨_, _, hb⟩ := hs
        cases hc : it.cls <;> rw [hc] at hb <;>
          simp [VerDefAux.ep, Gen.prog_VerDefAux, valsAt, Expr.eval, VerDefAux.ofVals, Ty.width] at hb <;>
          (rw [← hb]; exact tyVal_u32_bound _ _ _)
      have hsz : (VerDefAux.ep.prog it.cls).size = 8 := by cases it.cls <;> rfl
      have hcnt : it.count ≠ 0 := by
        intro h; apply hguard; simp [h]
      have hadv := advance_total it a.vda_next hcnt (by have := USZ_eq; omega)
      cases hv : it.advance a.vda_next with
      | ok x => simp
      | err e => simp
      | panic => exact absurd hv hadv

theorem verneedaux_next_total (it : VerIter) (hwf : it.data.len < 2 ^ 63) :
    (verNeedAuxNext it).1 ≠ .panic := by
  unfold verNeedAuxNext VerIter.nextAux
  split
  · simp
  · rename_i hguard
    have hp := parse_total_VerNeedAux it.little it.cls it.data it.offset
    generalize hq : VerNeedAux.ep.parse it.little it.cls it.data it.offset = r at hp
    obtain ⟨r1, r2⟩ := r
    cases r1 with
    | panic => simp at hp
    | err e => simp
    | ok a =>
      simp only
      have hs := EntryParser.parse_ok_shape VerNeedAux.ep it.little it.cls (by cases it.cls <;> decide)
        it.data it.offset a r2 hq
      have hnext : a.vna_next < 2 ^ 32 := by
        obtain ⟨_, _, hb⟩ := hs
        cases hc : it.cls <;> rw [hc] at hb <;>
          simp [VerNeedAux.ep, Gen.prog_VerNeedAux, valsAt, Expr.eval, VerNeedAux.ofVals, Ty.width] at hb <;>
          (rw [← hb]; exact tyVal_u32_bound _ _ _)
      have hsz : (VerNeedAux.ep.prog it.cls).size = 16 := by cases it.cls <;> rfl
      have hcnt : it.count ≠ 0 := by
        intro h; apply hguard; simp [h]
      have hadv := advance_total it a.vna_next hcnt (by have := USZ_eq; omega)
      cases hv : it.advance a.vna_next with
      | ok x => simp
      | err e => simp
      | panic => exact absurd hv hadv

theorem verdef_next_total (it : VerIter) (hwf : it.data.len < 2 ^ 63) :
    (verDefNext it).1 ≠ .panic := by
  unfold verDefNext VerIter.nextRec
  split
  · simp
  · rename_i hguard
    have hp := parse_total_VerDef it.little it.cls it.data it.offset
    generalize hq : VerDef.ep.parse it.little it.cls it.data it.offset = r at hp
    obtain ⟨r1, r2⟩ := r
    cases r1 with
    | panic => simp at hp
    | err e => simp
    | ok a =>
      simp only
      have hs := EntryParser.parse_ok_shape VerDef.ep it.little it.cls (by cases it.cls <;> decide)
        it.data it.offset a r2 hq
      have hb32 : a.vd_next < 2 ^ 32 ∧ a.vd_aux < 2 ^ 32 := by
        obtain ⟨_, _, hb⟩ := hs
        cases hc : it.cls <;> rw [hc] at hb <;>
          simp [VerDef.ep, Gen.prog_VerDef, valsAt, Expr.eval, VerDef.ofVals, Ty.width] at hb <;>
          (rw [← hb]; exact ⟨tyVal_u32_bound _ _ _, tyVal_u32_bound _ _ _⟩)
      have hsz : (VerDef.ep.prog it.cls).size = 20 := by cases it.cls <;> rfl
      have hcnt : it.count ≠ 0 := by
        intro h; apply hguard; simp [h]
      have husz := USZ_eq
      have hadd : uadd it.offset a.vd_aux = .ok (it.offset + a.vd_aux) := by
        unfold uadd; have : it.offset + a.vd_aux < USZ := by omega
        simp [this]
      rw [hadd]; simp only
      have hadv := advance_total it a.vd_next hcnt (by omega)
      cases hv : it.advance a.vd_next with
      | ok x => simp
      | err e => simp
      | panic => exact absurd hv hadv

theorem verneed_next_total (it : VerIter) (hwf : it.data.len < 2 ^ 63) :
    (verNeedNext it).1 ≠ .panic := by
  unfold verNeedNext VerIter.nextRec
  split
  · simp
  · rename_i hguard
    have hp := parse_total_VerNeed it.little it.cls it.data it.offset
    generalize hq : VerNeed.ep.parse it.little it.cls it.data it.offset = r at hp
    obtain ⟨r1, r2⟩ := r
    cases r1 with
    | panic => simp at hp
    | err e => simp
    | ok a =>
      simp only
      have hs := EntryParser.parse_ok_shape VerNeed.ep it.little it.cls (by cases it.cls <;> decide)
        it.data it.offset a r2 hq
      have hb32 : a.vn_next < 2 ^ 32 ∧ a.vn_aux < 2 ^ 32 := by
        obtain ⟨_, _, hb⟩ := hs
        cases hc : it.cls <;> rw [hc] at hb <;>
          simp [VerNeed.ep, Gen.prog_VerNeed, valsAt, Expr.eval, VerNeed.ofVals, Ty.width] at hb <;>
          (rw [← hb]; exact ⟨tyVal_u32_bound _ _ _, tyVal_u32_bound _ _ _⟩)
      have hsz : (VerNeed.ep.prog it.cls).size = 16 := by cases it.cls <;> rfl
      have hcnt : it.count ≠ 0 := by
        intro h; apply hguard; simp [h]
      have husz := USZ_eq
      have hadd : uadd it.offset a.vn_aux = .ok (it.offset + a.vn_aux) := by
        unfold uadd; have : it.offset + a.vn_aux < USZ := by omega
        simp [this]
      rw [hadd]; simp only
      have hadv := advance_total it a.vn_next hcnt (by omega)
      cases hv : it.advance a.vn_next with
      | ok x => simp
      | err e => simp
      | panic => exact absurd hv hadv

/-! ### hash tables: `%` by the bucket count / bloom size and `chain_start - table_start` are unchecked -/

theorem sysv_new_total (le : Bool) (c : Class) (d : Slice) : SysVHashTable.new le c d ≠ .panic := by
  unfold SysVHashTable.new
  have hp := parse_total_SysVHashHeader le c d 0
  generalize SysVHashHeader.ep.parse le c d 0 = r at hp
  obtain ⟨r1, r2⟩ := r
  cases r1 with
  | panic => simp at hp
  | err e => simp
  | ok hdr =>
    simp only
    refine Out.bind_ne_panic _ _ (Out.ofOption_ne_panic _ _) (fun _ _ => ?_)
    refine Out.bind_ne_panic _ _ (Out.ofOption_ne_panic _ _) (fun _ _ => ?_)
    refine Out.bind_ne_panic _ _ (Slice.getBytes_ne_panic _ _ _) (fun _ _ => ?_)
    refine Out.bind_ne_panic _ _ (Out.ofOption_ne_panic _ _) (fun _ _ => ?_)
    refine Out.bind_ne_panic _ _ (Out.ofOption_ne_panic _ _) (fun _ _ => ?_)
    refine Out.bind_ne_panic _ _ (Slice.getBytes_ne_panic _ _ _) (fun _ _ => ?_)
    simp

/-- a hash table as built by `new`: its word tables use the generated `u32` entry program -/
def SysVBuilt (t : SysVHashTable) : Prop := t.buckets.ep = U32.ep ∧ t.chains.ep = U32.ep

theorem sysv_loop_total (t : SysVHashTable) (hb : SysVBuilt t) (name : Slice) (symtab : Table Symbol)
    (hs : symtab.ep = Symbol.ep) (strtab : Slice) (fuel index steps : Nat) :
    (sysvLoop t name symtab strtab fuel index steps).1 ≠ .panic := by
  induction fuel generalizing index steps with
  | zero => simp [sysvLoop]
  | succ n ih =>
    unfold sysvLoop
    split
    · simp
    · have h1 := Table.get_ne_panic symtab (by rw [hs]; exact total_Symbol) index
      cases hg : symtab.get index with
      | panic => exact absurd hg h1
      | err e => simp
      | ok symbol =>
        simp only
        have h2 := strGetRaw_ne_panic strtab symbol.st_name
        cases hr : strGetRaw strtab symbol.st_name with
        | panic => exact absurd hr h2
        | err e => simp
        | ok s =>
          simp only
          split
          · simp
          · have h3 := Table.get_ne_panic t.chains (by rw [hb.2]; exact total_U32) index
            cases hc : t.chains.get index with
            | panic => exact absurd hc h3
            | err e => simp
            | ok nxt => exact ih nxt (steps + 1)

theorem sysv_find_total (t : SysVHashTable) (hb : SysVBuilt t) (name : Slice) (symtab : Table Symbol)
    (hs : symtab.ep = Symbol.ep) (strtab : Slice) : t.find name symtab strtab ≠ .panic := by
  unfold SysVHashTable.find SysVHashTable.findSteps
  split
  · simp
  · rename_i hne
    have hlen : t.buckets.len ≠ 0 := by
      intro h; apply hne; simp [Table.isEmpty, h]
    unfold umod
    simp only [hlen, if_false]
    have h1 := Table.get_ne_panic t.buckets (by rw [hb.1]; exact total_U32) (sysvHash name % t.buckets.len)
    cases hg : t.buckets.get (sysvHash name % t.buckets.len) with
    | panic => exact absurd hg h1
    | err e => simp
    | ok index => exact sysv_loop_total t hb name symtab hs strtab _ index 0

theorem gnu_new_total (le : Bool) (c : Class) (d : Slice) : GnuHashTable.new le c d ≠ .panic := by
  unfold GnuHashTable.new
  have hp := parse_total_GnuHashHeader le c d 0
  generalize GnuHashHeader.ep.parse le c d 0 = r at hp
  obtain ⟨r1, r2⟩ := r
  cases r1 with
  | panic => simp at hp
  | err e => simp
  | ok hdr =>
    simp only
    refine Out.bind_ne_panic _ _ (Out.ofOption_ne_panic _ _) (fun _ _ => ?_)
    refine Out.bind_ne_panic _ _ (Out.ofOption_ne_panic _ _) (fun _ _ => ?_)
    refine Out.bind_ne_panic _ _ (Slice.getBytes_ne_panic _ _ _) (fun _ _ => ?_)
    refine Out.bind_ne_panic _ _ (Out.ofOption_ne_panic _ _) (fun _ _ => ?_)
    refine Out.bind_ne_panic _ _ (Out.ofOption_ne_panic _ _) (fun _ _ => ?_)
    refine Out.bind_ne_panic _ _ (Slice.getBytes_ne_panic _ _ _) (fun _ _ => ?_)
    refine Out.bind_ne_panic _ _ (Out.ofOption_ne_panic _ _) (fun _ _ => ?_)
    simp

def GnuBuilt (t : GnuHashTable) : Prop := t.buckets.ep = U32.ep ∧ t.chains.ep = U32.ep

theorem gnu_loop_total (t : GnuHashTable) (hb : GnuBuilt t) (name : Slice) (hash : Nat)
    (symtab : Table Symbol) (hs : symtab.ep = Symbol.ep) (strtab : Slice) (fuel idx steps : Nat) :
    (gnuLoop t name hash symtab strtab fuel idx steps).1 ≠ .panic := by
  induction fuel generalizing idx steps with
  | zero => simp [gnuLoop]
  | succ n ih =>
    unfold gnuLoop
    have h1 := Table.get_ne_panic t.chains (by rw [hb.2]; exact total_U32) idx
    cases hc : t.chains.get idx with
    | panic => exact absurd hc h1
    | err e => simp
    | ok chainHash =>
      simp only
      have hcont : (if chainHash &&& 1 ≠ 0 then ((Out.ok none : Out (Option (Nat × Symbol))), steps + 1)
          else gnuLoop t name hash symtab strtab n (idx + 1) (steps + 1)).1 ≠ .panic := by
        split
        · simp
        · exact ih (idx + 1) (steps + 1)
      split
      · split
        · simp
        · rename_i symIdx _
          have h2 := Table.get_ne_panic symtab (by rw [hs]; exact total_Symbol) symIdx
          cases hg : symtab.get symIdx with
          | panic => exact absurd hg h2
          | err e => simp
          | ok symbol =>
            simp only
            have h3 := strGetRaw_ne_panic strtab symbol.st_name
            cases hr : strGetRaw strtab symbol.st_name with
            | panic => exact absurd hr h3
            | err e => simp
            | ok s =>
              simp only
              split
              · simp
              · exact hcont
      · exact hcont

theorem gnu_find_total (t : GnuHashTable) (hb : GnuBuilt t) (name : Slice) (symtab : Table Symbol)
    (hs : symtab.ep = Symbol.ep) (strtab : Slice) : t.find name symtab strtab ≠ .panic := by
  unfold GnuHashTable.find GnuHashTable.findSteps
  split
  · simp
  · rename_i hne
    simp only [Bool.or_eq_true, beq_iff_eq, not_or] at hne
    have hlen : t.buckets.len ≠ 0 := by
      intro h; apply hne.1; simp [Table.isEmpty, h]
    have hbloom : t.hdr.nbloom ≠ 0 := hne.2
    unfold umod
    simp only [hbloom, hlen, if_false]
    have hbt : ∀ i, t.bloomTable.get i ≠ .panic := by
      intro i
      unfold GnuHashTable.bloomTable
      cases t.cls
      · exact Table.get_ne_panic _ total_U32 i
      · exact Table.get_ne_panic _ total_U64 i
    generalize gnuHash name / bloomWidth t.cls % t.hdr.nbloom = bi
    have hb1 := hbt bi
    cases hf : t.bloomTable.get bi with
    | panic => exact absurd hf hb1
    | err e => simp
    | ok filter =>
      simp only
      split; · simp
      split; · simp
      split; · simp
      have h1 := Table.get_ne_panic t.buckets (by rw [hb.1]; exact total_U32) (gnuHash name % t.buckets.len)
      cases hg : t.buckets.get (gnuHash name % t.buckets.len) with
      | panic => exact absurd hg h1
      | err e => simp
      | ok chainStart =>
        simp only
        split
        · simp
        · rename_i hge
          unfold usub
          have : t.hdr.table_start_idx ≤ chainStart := by omega
          simp only [this, if_true]
          exact gnu_loop_total t hb name _ symtab hs strtab _ _ 0

/-! ### ElfBytes: opening a slice and every accessor -/

/-- An `ElfBytes` value as produced by `minimal_parse`: its tables use the generated section /
    program header programs (the fields are private in Rust; only `minimal_parse` builds one). -/
def Opened (f : ElfBytes) : Prop :=
  (∀ t, f.shdrs = some t → t.ep = SectionHeader.ep) ∧ (∀ t, f.phdrs = some t → t.ep = ProgramHeader.ep)

theorem parse_tail_total (ident : Bool × Class × Nat × Nat) (d : Slice) : parseTail ident d ≠ .panic := by
  unfold parseTail
  have := parse_total_FileHeaderTail ident.1 ident.2.1 d 0
  cases h : (FileHeaderTail.ep.parse ident.1 ident.2.1 d 0).1 with
  | ok t => simp
  | err e => simp
  | panic => exact absurd h this

theorem shdr0_total (h : FileHeader) (d : Slice) (off : Nat) (f : SectionHeader → Nat) :
    (match (SectionHeader.ep.parse h.little h.cls d off).1 with
      | .ok shdr0 => Out.ok (f shdr0)
      | .err e => .err e
      | .panic => .panic) ≠ .panic := by
  have := parse_total_SectionHeader h.little h.cls d off
  cases hp : (SectionHeader.ep.parse h.little h.cls d off).1 with
  | ok t => simp
  | err e => simp
  | panic => exact absurd hp this

theorem find_shdrs_total (h : FileHeader) (d : Slice) : findShdrs h d ≠ .panic := by
  unfold findShdrs
  split
  · simp
  · refine Out.bind_ne_panic _ _ ?_ (fun _ _ => ?_)
    · split
      · exact shdr0_total h d _ _
      · simp
    refine Out.bind_ne_panic _ _ (validateEntsize_ne_panic _ _ _) (fun _ _ => ?_)
    refine Out.bind_ne_panic _ _ (Out.ofOption_ne_panic _ _) (fun _ _ => ?_)
    refine Out.bind_ne_panic _ _ (Out.ofOption_ne_panic _ _) (fun _ _ => ?_)
    refine Out.bind_ne_panic _ _ (Slice.getBytes_ne_panic _ _ _) (fun _ _ => ?_)
    simp

theorem find_phdrs_total (h : FileHeader) (d : Slice) : findPhdrs h d ≠ .panic := by
  unfold findPhdrs
  split
  · simp
  · refine Out.bind_ne_panic _ _ ?_ (fun _ _ => ?_)
    · split
      · exact shdr0_total h d _ _
      · simp
    refine Out.bind_ne_panic _ _ (validateEntsize_ne_panic _ _ _) (fun _ _ => ?_)
    refine Out.bind_ne_panic _ _ (Out.ofOption_ne_panic _ _) (fun _ _ => ?_)
    refine Out.bind_ne_panic _ _ (Out.ofOption_ne_panic _ _) (fun _ _ => ?_)
    refine Out.bind_ne_panic _ _ (Slice.getBytes_ne_panic _ _ _) (fun _ _ => ?_)
    simp

/-- **Opening any byte slice never panics** (`tail_start + TAILSIZE` is an unchecked add of two
    generated constants, far below 2^64). -/
theorem minimal_parse_total (sp : Spec) (d : Slice) : minimalParse sp d ≠ .panic := by
  unfold minimalParse
  refine Out.bind_ne_panic _ _ (Slice.getBytes_ne_panic _ _ _) (fun _ _ => ?_)
  refine Out.bind_ne_panic _ _ (parse_ident_total _ _) (fun ident _ => ?_)
  refine Out.bind_ne_panic _ _ ?_ (fun _ _ => ?_)
  · unfold uadd; cases ident.2.1 <;> decide
  refine Out.bind_ne_panic _ _ (Slice.getBytes_ne_panic _ _ _) (fun _ _ => ?_)
  refine Out.bind_ne_panic _ _ (parse_tail_total _ _) (fun _ _ => ?_)
  refine Out.bind_ne_panic _ _ (find_shdrs_total _ _) (fun _ _ => ?_)
  refine Out.bind_ne_panic _ _ (find_phdrs_total _ _) (fun _ _ => ?_)
  simp

theorem find_shdrs_ep (h : FileHeader) (d : Slice) (t : Table SectionHeader)
    (hh : findShdrs h d = .ok (some t)) : t.ep = SectionHeader.ep := by
  unfold findShdrs at hh
  split at hh
  · simp at hh
  · simp only [Out.bind] at hh
    repeat' split at hh
    all_goals first
      | (simp at hh; done)
      | (simp [shdrTable] at hh; rw [← hh])

theorem find_phdrs_ep (h : FileHeader) (d : Slice) (t : Table ProgramHeader)
    (hh : findPhdrs h d = .ok (some t)) : t.ep = ProgramHeader.ep := by
  unfold findPhdrs at hh
  split at hh
  · simp at hh
  · simp only [Out.bind] at hh
    repeat' split at hh
    all_goals first
      | (simp at hh; done)
      | (simp [phdrTable] at hh; rw [← hh])

theorem minimal_parse_opened (sp : Spec) (d : Slice) (f : ElfBytes) (h : minimalParse sp d = .ok f) :
    Opened f := by
  unfold minimalParse at h
  simp only [Out.bind] at h
  repeat' split at h
  all_goals first
    | (simp at h; done)
    | skip
  all_goals
    simp at h
    subst h
    rename_i hs _ _ hp
    constructor
    · intro t ht; simp at ht; subst ht; exact find_shdrs_ep _ _ _ hs
    · intro t ht; simp at ht; subst ht; exact find_phdrs_ep _ _ _ hp

theorem section_headers_with_strtab_total (f : ElfBytes) (ho : Opened f) :
    f.sectionHeadersWithStrtab ≠ .panic := by
  unfold ElfBytes.sectionHeadersWithStrtab
  split
  · simp
  · rename_i shdrs hs
    have ht : shdrs.ep.Total := by rw [ho.1 shdrs hs]; exact total_SectionHeader
    split
    · simp
    · refine Out.bind_ne_panic _ _ ?_ (fun _ _ => ?_)
      · split
        · refine Out.bind_ne_panic _ _ (Table.get_ne_panic _ ht _) (fun _ _ => by simp)
        · simp
      refine Out.bind_ne_panic _ _ (Table.get_ne_panic _ ht _) (fun _ _ => ?_)
      refine Out.bind_ne_panic _ _ (dataRange_ne_panic _ _) (fun _ _ => ?_)
      refine Out.bind_ne_panic _ _ (Slice.getBytes_ne_panic _ _ _) (fun _ _ => ?_)
      simp

theorem section_header_by_name_total (f : ElfBytes) (ho : Opened f) (name : Slice) :
    f.sectionHeaderByName name ≠ .panic := by
  unfold ElfBytes.sectionHeaderByName
  refine Out.bind_ne_panic _ _ (section_headers_with_strtab_total f ho) (fun r hr => ?_)
  split
  · rename_i shdrs strtab
    -- the table returned is the file's own section table
    have : shdrs.ep = SectionHeader.ep := by
      unfold ElfBytes.sectionHeadersWithStrtab at hr
      split at hr
      · simp at hr
      · rename_i t hs
        have := ho.1 t hs
        simp only [Out.bind] at hr
        repeat' split at hr
        all_goals first
          | (simp at hr; done)
          | (simp at hr; rw [← hr.1]; exact this)
    exact Iter.find_ne_panic _ (by show shdrs.ep.Total; rw [this]; exact total_SectionHeader) _
  · simp

theorem section_data_total (f : ElfBytes) (shdr : SectionHeader) : f.sectionData shdr ≠ .panic := by
  unfold ElfBytes.sectionData
  split
  · simp
  · refine Out.bind_ne_panic _ _ (dataRange_ne_panic _ _) (fun _ _ => ?_)
    refine Out.bind_ne_panic _ _ (Slice.getBytes_ne_panic _ _ _) (fun buf _ => ?_)
    split
    · simp
    · have := parse_total_CompressionHeader f.ehdr.little f.ehdr.cls buf 0
      generalize CompressionHeader.ep.parse f.ehdr.little f.ehdr.cls buf 0 = r at this
      obtain ⟨r1, r2⟩ := r
      cases r1 with
      | panic => simp at this
      | err e => simp
      | ok chdr =>
        simp only
        refine Out.bind_ne_panic _ _ (Out.ofOption_ne_panic _ _) (fun _ _ => by simp)

theorem typed_section_total (f : ElfBytes) (shdr : SectionHeader) (want : Nat) :
    f.typedSection shdr want ≠ .panic := by
  unfold ElfBytes.typedSection
  split
  · simp
  · exact Out.bind_ne_panic _ _ (section_data_total f shdr) (fun _ _ => by simp)

theorem section_data_as_strtab_total (f : ElfBytes) (shdr : SectionHeader) :
    f.sectionDataAsStrtab shdr ≠ .panic := typed_section_total f shdr _

theorem section_data_as_rels_total (f : ElfBytes) (shdr : SectionHeader) :
    f.sectionDataAsRels shdr ≠ .panic :=
  Out.bind_ne_panic _ _ (typed_section_total f shdr _) (fun _ _ => by simp)

theorem section_data_as_relas_total (f : ElfBytes) (shdr : SectionHeader) :
    f.sectionDataAsRelas shdr ≠ .panic :=
  Out.bind_ne_panic _ _ (typed_section_total f shdr _) (fun _ _ => by simp)

theorem section_data_as_notes_total (f : ElfBytes) (shdr : SectionHeader) :
    f.sectionDataAsNotes shdr ≠ .panic :=
  Out.bind_ne_panic _ _ (typed_section_total f shdr _) (fun _ _ => by simp)

theorem section_data_as_dynamic_total (f : ElfBytes) (shdr : SectionHeader) :
    f.sectionDataAsDynamic shdr ≠ .panic := by
  unfold ElfBytes.sectionDataAsDynamic
  split
  · simp
  · refine Out.bind_ne_panic _ _ (validateEntsize_ne_panic _ _ _) (fun _ _ => ?_)
    exact Out.bind_ne_panic _ _ (section_data_total f shdr) (fun _ _ => by simp)

theorem segment_data_total (f : ElfBytes) (phdr : ProgramHeader) : f.segmentData phdr ≠ .panic := by
  unfold ElfBytes.segmentData
  exact Out.bind_ne_panic _ _ (dataRange_ne_panic _ _) (fun _ _ => Slice.getBytes_ne_panic _ _ _)

theorem segment_data_as_notes_total (f : ElfBytes) (phdr : ProgramHeader) :
    f.segmentDataAsNotes phdr ≠ .panic := by
  unfold ElfBytes.segmentDataAsNotes
  split
  · simp
  · exact Out.bind_ne_panic _ _ (segment_data_total f phdr) (fun _ _ => by simp)

theorem dynamic_from_segments_total (f : ElfBytes) (ho : Opened f) : f.dynamicFromSegments ≠ .panic := by
  unfold ElfBytes.dynamicFromSegments
  split
  · rename_i phdrs hp
    refine Out.bind_ne_panic _ _ (Iter.find_ne_panic _ (by
      show phdrs.ep.Total; rw [ho.2 phdrs hp]; exact total_ProgramHeader) _) (fun o _ => ?_)
    split
    · refine Out.bind_ne_panic _ _ (dataRange_ne_panic _ _) (fun _ _ => ?_)
      exact Out.bind_ne_panic _ _ (Slice.getBytes_ne_panic _ _ _) (fun _ _ => by simp)
    · simp
  · simp

theorem dynamic_total (f : ElfBytes) (ho : Opened f) : f.dynamic ≠ .panic := by
  unfold ElfBytes.dynamic
  split
  · rename_i shdrs hs
    refine Out.bind_ne_panic _ _ (Iter.find_ne_panic _ (by
      show shdrs.ep.Total; rw [ho.1 shdrs hs]; exact total_SectionHeader) _) (fun o _ => ?_)
    split
    · exact Out.bind_ne_panic _ _ (section_data_as_dynamic_total f _) (fun _ _ => by simp)
    · simp
  · exact dynamic_from_segments_total f ho

theorem section_data_as_symbol_table_total (f : ElfBytes) (a b : SectionHeader) :
    f.sectionDataAsSymbolTable a b ≠ .panic := by
  unfold ElfBytes.sectionDataAsSymbolTable
  refine Out.bind_ne_panic _ _ (validateEntsize_ne_panic _ _ _) (fun _ _ => ?_)
  refine Out.bind_ne_panic _ _ (dataRange_ne_panic _ _) (fun _ _ => ?_)
  refine Out.bind_ne_panic _ _ (Slice.getBytes_ne_panic _ _ _) (fun _ _ => ?_)
  refine Out.bind_ne_panic _ _ (dataRange_ne_panic _ _) (fun _ _ => ?_)
  refine Out.bind_ne_panic _ _ (Slice.getBytes_ne_panic _ _ _) (fun _ _ => ?_)
  simp

theorem symbol_table_of_type_total (f : ElfBytes) (ho : Opened f) (ty : Nat) :
    f.symbolTableOfType ty ≠ .panic := by
  unfold ElfBytes.symbolTableOfType
  split
  · simp
  · rename_i shdrs hs
    have ht : shdrs.ep.Total := by rw [ho.1 shdrs hs]; exact total_SectionHeader
    refine Out.bind_ne_panic _ _ (Iter.find_ne_panic _ ht _) (fun o _ => ?_)
    split
    · simp
    · refine Out.bind_ne_panic _ _ (Table.get_ne_panic _ ht _) (fun _ _ => ?_)
      exact Out.bind_ne_panic _ _ (section_data_as_symbol_table_total f _ _) (fun _ _ => by simp)

theorem symbol_table_total (f : ElfBytes) (ho : Opened f) : f.symbolTable ≠ .panic :=
  symbol_table_of_type_total f ho _
theorem dynamic_symbol_table_total (f : ElfBytes) (ho : Opened f) : f.dynamicSymbolTable ≠ .panic :=
  symbol_table_of_type_total f ho _

theorem ver_scan_total (fuel : Nat) (it : Iter SectionHeader) (ht : it.ep.Total)
    (a b c : Option SectionHeader) : ElfBytes.verScan fuel it a b c ≠ .panic := by
  induction fuel generalizing it a b c with
  | zero => simp [ElfBytes.verScan]
  | succ n ih =>
    unfold ElfBytes.verScan
    have h1 := Iter.next_ne_panic it ht
    have h2 := Iter.next_ep it
    generalize it.next = r at h1 h2
    obtain ⟨r1, r2⟩ := r
    cases r1 with
    | panic => simp at h1
    | err e => simp
    | ok o =>
      cases o with
      | none => simp
      | some shdr =>
        simp only
        generalize ElfBytes.verUpdate shdr a b c = u
        split
        · simp
        · exact ih r2 (by rw [h2.1]; exact ht) _ _ _

theorem ver_records_total (f : ElfBytes) (shdrs : Table SectionHeader) (ht : shdrs.ep.Total)
    (o : Option SectionHeader) : f.verRecords shdrs o ≠ .panic := by
  unfold ElfBytes.verRecords
  split
  · simp
  · refine Out.bind_ne_panic _ _ (dataRange_ne_panic _ _) (fun _ _ => ?_)
    refine Out.bind_ne_panic _ _ (Slice.getBytes_ne_panic _ _ _) (fun _ _ => ?_)
    refine Out.bind_ne_panic _ _ (Table.get_ne_panic _ ht _) (fun _ _ => ?_)
    refine Out.bind_ne_panic _ _ (dataRange_ne_panic _ _) (fun _ _ => ?_)
    refine Out.bind_ne_panic _ _ (Slice.getBytes_ne_panic _ _ _) (fun _ _ => ?_)
    simp

theorem symbol_version_table_total (f : ElfBytes) (ho : Opened f) : f.symbolVersionTable ≠ .panic := by
  unfold ElfBytes.symbolVersionTable
  split
  · simp
  · rename_i shdrs hs
    have ht : shdrs.ep.Total := by rw [ho.1 shdrs hs]; exact total_SectionHeader
    refine Out.bind_ne_panic _ _ (ver_scan_total _ _ ht _ _ _) (fun r _ => ?_)
    obtain ⟨vs, nd, df⟩ := r
    simp only
    split
    · simp
    · refine Out.bind_ne_panic _ _ (validateEntsize_ne_panic _ _ _) (fun _ _ => ?_)
      refine Out.bind_ne_panic _ _ (dataRange_ne_panic _ _) (fun _ _ => ?_)
      refine Out.bind_ne_panic _ _ (Slice.getBytes_ne_panic _ _ _) (fun _ _ => ?_)
      refine Out.bind_ne_panic _ _ (ver_records_total f shdrs ht _) (fun _ _ => ?_)
      refine Out.bind_ne_panic _ _ (ver_records_total f shdrs ht _) (fun _ _ => ?_)
      simp

theorem common_scan_total (f : ElfBytes) (shdrs : Table SectionHeader) (ht : shdrs.ep.Total)
    (fuel : Nat) (it : Iter SectionHeader) (hit : it.ep.Total) (acc : ElfBytes.CommonElfData) :
    f.commonScan shdrs fuel it acc ≠ .panic := by
  induction fuel generalizing it acc with
  | zero => simp [ElfBytes.commonScan]
  | succ n ih =>
    unfold ElfBytes.commonScan
    have h1 := Iter.next_ne_panic it hit
    have h2 := Iter.next_ep it
    generalize it.next = r at h1 h2
    obtain ⟨r1, r2⟩ := r
    cases r1 with
    | panic => simp at h1
    | err e => simp
    | ok o =>
      cases o with
      | none => simp
      | some shdr =>
        simp only
        refine Out.bind_ne_panic _ _ ?_ (fun acc' _ => ih r2 (by rw [h2.1]; exact hit) acc')
        unfold ElfBytes.commonStep
        split
        · refine Out.bind_ne_panic _ _ (Table.get_ne_panic _ ht _) (fun _ _ => ?_)
          exact Out.bind_ne_panic _ _ (section_data_as_symbol_table_total f _ _) (fun _ _ => by simp)
        · split
          · refine Out.bind_ne_panic _ _ (Table.get_ne_panic _ ht _) (fun _ _ => ?_)
            exact Out.bind_ne_panic _ _ (section_data_as_symbol_table_total f _ _) (fun _ _ => by simp)
          · split
            · exact Out.bind_ne_panic _ _ (section_data_as_dynamic_total f _) (fun _ _ => by simp)
            · split
              · refine Out.bind_ne_panic _ _ (dataRange_ne_panic _ _) (fun _ _ => ?_)
                refine Out.bind_ne_panic _ _ (Slice.getBytes_ne_panic _ _ _) (fun _ _ => ?_)
                exact Out.bind_ne_panic _ _ (sysv_new_total _ _ _) (fun _ _ => by simp)
              · split
                · refine Out.bind_ne_panic _ _ (dataRange_ne_panic _ _) (fun _ _ => ?_)
                  refine Out.bind_ne_panic _ _ (Slice.getBytes_ne_panic _ _ _) (fun _ _ => ?_)
                  exact Out.bind_ne_panic _ _ (gnu_new_total _ _ _) (fun _ _ => by simp)
                · simp

theorem find_common_data_total (f : ElfBytes) (ho : Opened f) : f.findCommonData ≠ .panic := by
  unfold ElfBytes.findCommonData
  refine Out.bind_ne_panic _ _ ?_ (fun result _ => ?_)
  · unfold ElfBytes.sectionScan
    split
    · rename_i shdrs hs
      have ht : shdrs.ep.Total := by rw [ho.1 shdrs hs]; exact total_SectionHeader
      exact common_scan_total f shdrs ht _ _ ht _
    · simp
  · split
    · refine Out.bind_ne_panic _ _ (dynamic_from_segments_total f ho) (fun o _ => ?_)
      split <;> simp
    · simp

/-! ### symbol-version queries -/

theorem advance_data (it it' : VerIter) (n : Nat) (h : it.advance n = .ok it') :
    it'.data = it.data ∧ it'.little = it.little ∧ it'.cls = it.cls := by
  unfold VerIter.advance at h
  simp only [Out.bind] at h
  split at h
  · simp at h; subst h; simp
  · simp at h
  · simp at h

theorem next_aux_data {α} (ep : EntryParser α) (nextOf : α → Nat) (it : VerIter) :
    (VerIter.nextAux ep nextOf it).2.data = it.data ∧ (VerIter.nextAux ep nextOf it).2.little = it.little ∧
    (VerIter.nextAux ep nextOf it).2.cls = it.cls := by
  unfold VerIter.nextAux
  split
  · simp
  · split
    · simp
    · simp
    · split
      · rename_i h; exact advance_data _ _ _ h
      · simp
      · simp

theorem next_rec_data {α} (ep : EntryParser α) (c a n : α → Nat) (it : VerIter) :
    (VerIter.nextRec ep c a n it).2.data = it.data ∧
    (∀ x ai, (VerIter.nextRec ep c a n it).1 = .ok (some (x, ai)) → ai.data = it.data) := by
  unfold VerIter.nextRec
  split
  · simp
  · split
    · simp
    · simp
    · split
      · simp
      · simp
      · split
        · rename_i h
          refine ⟨(advance_data _ _ _ h).1, ?_⟩
          intro x ai hx; simp at hx; rw [← hx.2]
        · simp
        · simp

theorem find_aux_total (idx fuel : Nat) (it : VerIter) (hwf : it.data.len < 2 ^ 63) :
    findAux idx fuel it ≠ .panic := by
  induction fuel generalizing it with
  | zero => simp [findAux]
  | succ n ih =>
    unfold findAux
    have h1 := verneedaux_next_total it hwf
    have h2 := next_aux_data VerNeedAux.ep VerNeedAux.vna_next it
    unfold verNeedAuxNext at h1 ⊢
    generalize VerIter.nextAux VerNeedAux.ep VerNeedAux.vna_next it = r at h1 h2
    obtain ⟨r1, r2⟩ := r
    cases r1 with
    | panic => simp at h1
    | err e => simp
    | ok o =>
      cases o with
      | none => simp
      | some vna =>
        simp only
        split
        · simp
        · exact ih r2 (by rw [h2.1]; exact hwf)

theorem req_loop_total (strs : Slice) (verNdx fuel : Nat) (it : VerIter) (hwf : it.data.len < 2 ^ 63) :
    reqLoop strs verNdx fuel it ≠ .panic := by
  induction fuel generalizing it with
  | zero => simp [reqLoop]
  | succ n ih =>
    unfold reqLoop
    have h1 := verneed_next_total it hwf
    have h2 := next_rec_data VerNeed.ep VerNeed.vn_cnt VerNeed.vn_aux VerNeed.vn_next it
    unfold verNeedNext at h1 ⊢
    generalize VerIter.nextRec VerNeed.ep VerNeed.vn_cnt VerNeed.vn_aux VerNeed.vn_next it = r at h1 h2
    obtain ⟨r1, r2⟩ := r
    cases r1 with
    | panic => simp at h1
    | err e => simp
    | ok o =>
      cases o with
      | none => simp
      | some p =>
        obtain ⟨vn, vnaIt⟩ := p
        simp only
        have hai : vnaIt.data.len < 2 ^ 63 := by rw [h2.2 vn vnaIt rfl]; exact hwf
        have hf := find_aux_total (VersionIndex.index verNdx) (vnaIt.count + 1) vnaIt hai
        cases hfa : findAux (VersionIndex.index verNdx) (vnaIt.count + 1) vnaIt with
        | panic => exact absurd hfa hf
        | err e => simp
        | ok o2 =>
          cases o2 with
          | none => exact ih r2 (by rw [h2.1]; exact hwf)
          | some vna =>
            simp only
            refine Out.bind_ne_panic _ _ (strGet_ne_panic _ _) (fun _ _ => ?_)
            exact Out.bind_ne_panic _ _ (strGet_ne_panic _ _) (fun _ _ => by simp)

theorem def_loop_total (strs : Slice) (verNdx fuel : Nat) (it : VerIter) (hwf : it.data.len < 2 ^ 63) :
    defLoop strs verNdx fuel it ≠ .panic := by
  induction fuel generalizing it with
  | zero => simp [defLoop]
  | succ n ih =>
    unfold defLoop
    have h1 := verdef_next_total it hwf
    have h2 := next_rec_data VerDef.ep VerDef.vd_cnt VerDef.vd_aux VerDef.vd_next it
    unfold verDefNext at h1 ⊢
    generalize VerIter.nextRec VerDef.ep VerDef.vd_cnt VerDef.vd_aux VerDef.vd_next it = r at h1 h2
    obtain ⟨r1, r2⟩ := r
    cases r1 with
    | panic => simp at h1
    | err e => simp
    | ok o =>
      cases o with
      | none => simp
      | some p =>
        obtain ⟨vd, vdaIt⟩ := p
        simp only
        split
        · exact ih r2 (by rw [h2.1]; exact hwf)
        · simp

/-- A version table as built by `symbol_version_table` / `SymbolVersionTable::new` on slices. -/
def VersionTableWF (t : SymbolVersionTable) : Prop :=
  t.versionIds.ep = VersionIndex.ep ∧
  (∀ it s, t.verneeds = some (it, s) → it.data.len < 2 ^ 63) ∧
  (∀ it s, t.verdefs = some (it, s) → it.data.len < 2 ^ 63)

theorem get_requirement_total (t : SymbolVersionTable) (hw : VersionTableWF t) (i : Nat) :
    t.getRequirement i ≠ .panic := by
  unfold SymbolVersionTable.getRequirement
  split
  · simp
  · rename_i it strs hn
    refine Out.bind_ne_panic _ _ (Table.get_ne_panic _ (by rw [hw.1]; exact total_VersionIndex) _)
      (fun _ _ => req_loop_total _ _ _ _ (hw.2.1 it strs hn))

theorem get_definition_total (t : SymbolVersionTable) (hw : VersionTableWF t) (i : Nat) :
    t.getDefinition i ≠ .panic := by
  unfold SymbolVersionTable.getDefinition
  split
  · simp
  · rename_i it strs hn
    refine Out.bind_ne_panic _ _ (Table.get_ne_panic _ (by rw [hw.1]; exact total_VersionIndex) _)
      (fun _ _ => def_loop_total _ _ _ _ (hw.2.2 it strs hn))

/-- Non-vacuity of the hypothesis's role: without the successful parse the unchecked add *can*
    overflow — the model exhibits the panic when asked to add directly. -/
example : uadd (USZ - 1) 1 = .panic := by decide
example : usub 0 1 = .panic := by decide

/-! ## `SymbolNamesIterator` (the `names` of a `SymbolDefinition`) -/

theorem drainFuel_total {σ β} (next : σ → Out (Option β) × σ) (P : σ → Prop)
    (hp : ∀ s, P s → (next s).1 ≠ .panic ∧ P (next s).2) (n : Nat) (s : σ) (acc : List β) (h : P s) :
    (drainFuel next n s acc).1 ≠ .panic := by
  induction n generalizing s acc with
  | zero => simp [drainFuel]
  | succ n ih =>
    unfold drainFuel
    obtain ⟨h1, h2⟩ := hp s h
    generalize hq : next s = q at h1 h2
    obtain ⟨q1, q2⟩ := q
    cases q1 with
    | panic => exact absurd rfl h1
    | err e => simp
    | ok o =>
      cases o with
      | none => simp
      | some b => exact ih q2 _ h2

/-- **Draining the names of a definition never panics, and no yielded item is a panic**: the aux
    walk is total in every iterator state and each name lookup is a total string-table read. -/
theorem symbol_names_total (d : SymbolDefinition) (hwf : d.names.data.len < 2 ^ 63) :
    d.collectNames ≠ .panic ∧ ∀ l, d.collectNames = .ok l → ∀ x, x ∈ l → x ≠ .panic := by
  have hdrain : (VerIter.collectAux VerDefAux.ep VerDefAux.vda_next d.names).1 ≠ .panic := by
    unfold VerIter.collectAux
    apply drainFuel_total _ (fun it => it.data.len < 2 ^ 63) _ _ _ _ hwf
    intro it hit
    refine ⟨verdefaux_next_total it hit, ?_⟩
    rw [(next_aux_data VerDefAux.ep VerDefAux.vda_next it).1]; exact hit
  unfold SymbolDefinition.collectNames
  generalize hq : VerIter.collectAux VerDefAux.ep VerDefAux.vda_next d.names = q at hdrain
  obtain ⟨q1, q2⟩ := q
  cases q1 with
  | panic => exact absurd rfl hdrain
  | err e => exact ⟨by simp, fun l h => by simp at h⟩
  | ok auxs =>
    refine ⟨by simp, fun l h x hx => ?_⟩
    simp only [Out.ok.injEq] at h
    subst h
    obtain ⟨a, _, ha⟩ := List.mem_map.mp hx
    subst ha
    exact strGet_ne_panic _ _

end Elf.C01
