/-
  Props/C05 — header tables are located exactly as the ELF header (and shdr[0]) declare.
-/
import ElfVerif.Props.C03
namespace Elf.C05
open Elf.C03

/-- gABI: the number of section headers is `e_shnum`, or `shdr[0].sh_size` when `e_shnum = 0`. -/
def shnumSpec (h : FileHeader) (d : Slice) : Out Nat :=
  if h.t.e_shnum ≠ 0 then .ok h.t.e_shnum
  else match (SectionHeader.ep.parse h.little h.cls d h.t.e_shoff).1 with
    | .ok shdr0 => .ok shdr0.sh_size
    | .err e => .err e
    | .panic => .panic

/-- gABI: the number of program headers is `e_phnum`, or `shdr[0].sh_info` when `e_phnum = PN_XNUM`. -/
def phnumSpec (h : FileHeader) (d : Slice) : Out Nat :=
  if h.t.e_phnum ≠ 0xffff then .ok h.t.e_phnum
  else match (SectionHeader.ep.parse h.little h.cls d h.t.e_shoff).1 with
    | .ok shdr0 => .ok shdr0.sh_info
    | .err e => .err e
    | .panic => .panic

/-- Locate a table of `n` entries of `size` bytes at `off`: the window `[off, off + n*size)` if it
    fits the file, an error otherwise (overflow of `usize` is an error too). -/
def tableWindow (d : Slice) (off size n : Nat) : Out Slice :=
  if size * n < USZ ∧ off + size * n < USZ then
    if off + size * n ≤ d.len then .ok ⟨d.buf, d.start + off, d.start + (off + size * n)⟩
    else .err (.SliceReadError off (off + size * n))
  else .err .IntegerOverflow

theorem table_window_eq (d : Slice) (off size n : Nat) :
    ((Out.ofOption .IntegerOverflow (checkedMul size n)).bind fun sz =>
     (Out.ofOption .IntegerOverflow (checkedAdd off sz)).bind fun e =>
     d.getBytes off e) = tableWindow d off size n := by
  unfold checkedMul checkedAdd tableWindow
  by_cases h1 : size * n < USZ
  · by_cases h2 : off + size * n < USZ
    · simp only [h1, h2, if_true, Out.ofOption, Out.bind, and_self]
      rw [getBytes_eq]
    · simp [h1, h2, Out.ofOption, Out.bind]
  · simp [h1, Out.ofOption, Out.bind]

/-- entry-size validation followed by the checked size arithmetic and the range read -/
theorem locate_tail {α} (ep : EntryParser α) (c : Class) (d : Slice) (entsize off n : Nat)
    (k : Slice → Out (Option (Table α))) :
    ((ep.validateEntsize c entsize).bind fun es =>
      (Out.ofOption .IntegerOverflow (checkedMul es n)).bind fun sz =>
      (Out.ofOption .IntegerOverflow (checkedAdd off sz)).bind fun e =>
      (d.getBytes off e).bind k) =
    if entsize ≠ ep.size c then .err (.BadEntsize entsize (ep.size c))
    else (tableWindow d off (ep.size c) n).bind k := by
  unfold EntryParser.validateEntsize
  by_cases he : entsize = ep.size c
  · simp only [he, if_true, ne_eq, not_true_eq_false, if_false]
    rw [← table_window_eq]
    simp only [Out.bind]
    cases checkedMul (ep.size c) n <;> simp [Out.ofOption]
    rename_i sz
    cases checkedAdd off sz <;> simp
  · simp [he, Out.bind]

/-- **The section header table is the window `[e_shoff, e_shoff + shnum·shentsize)`**, absent iff
    `e_shoff = 0`; opening fails if `e_shentsize` is not the class's header size or the table does
    not fit.  (A full equation for `find_shdrs`.) -/
theorem find_shdrs_spec (h : FileHeader) (d : Slice) :
    findShdrs h d =
      if h.t.e_shoff = 0 then .ok none else
      (shnumSpec h d).bind fun shnum =>
      if h.t.e_shentsize ≠ Gen.size_SectionHeader h.cls then
        .err (.BadEntsize h.t.e_shentsize (Gen.size_SectionHeader h.cls))
      else (tableWindow d h.t.e_shoff (Gen.size_SectionHeader h.cls) shnum).bind fun w =>
        .ok (some (shdrTable h w)) := by
  unfold findShdrs shnumSpec
  by_cases h0 : h.t.e_shoff = 0
  · simp [h0]
  · simp only [h0, if_false]
    have tail := fun n => locate_tail SectionHeader.ep h.cls d h.t.e_shentsize h.t.e_shoff n
      (fun buf => .ok (some (shdrTable h buf)))
    by_cases hz : h.t.e_shnum = 0
    · simp only [hz, if_true, ne_eq, not_true_eq_false, if_false]
      cases (SectionHeader.ep.parse h.little h.cls d h.t.e_shoff).1 with
      | ok s0 => simp only [Out.bind] at tail ⊢; exact tail s0.sh_size
      | err e => simp [Out.bind]
      | panic => simp [Out.bind]
    · simp only [hz, if_false, ne_eq, not_false_eq_true, if_true]
      simp only [Out.bind] at tail ⊢; exact tail h.t.e_shnum

theorem find_phdrs_spec (h : FileHeader) (d : Slice) :
    findPhdrs h d =
      if h.t.e_phoff = 0 then .ok none else
      (phnumSpec h d).bind fun phnum =>
      if h.t.e_phentsize ≠ Gen.size_ProgramHeader h.cls then
        .err (.BadEntsize h.t.e_phentsize (Gen.size_ProgramHeader h.cls))
      else (tableWindow d h.t.e_phoff (Gen.size_ProgramHeader h.cls) phnum).bind fun w =>
        .ok (some (phdrTable h w)) := by
  unfold findPhdrs phnumSpec
  by_cases h0 : h.t.e_phoff = 0
  · simp [h0]
  · simp only [h0, if_false]
    have tail := fun n => locate_tail ProgramHeader.ep h.cls d h.t.e_phentsize h.t.e_phoff n
      (fun buf => .ok (some (phdrTable h buf)))
    by_cases hz : h.t.e_phnum = 0xffff
    · simp only [hz, Abi.PN_XNUM, if_true, ne_eq, not_true_eq_false, if_false]
      cases (SectionHeader.ep.parse h.little h.cls d h.t.e_shoff).1 with
      | ok s0 => simp only [Out.bind] at tail ⊢; exact tail s0.sh_info
      | err e => simp [Out.bind]
      | panic => simp [Out.bind]
    · simp only [hz, Abi.PN_XNUM, if_false, ne_eq, not_false_eq_true, if_true]
      simp only [Out.bind] at tail ⊢; exact tail h.t.e_phnum

/-- The located table has **exactly the declared number of entries**. -/
theorem table_window_len (d : Slice) (off size n : Nat) (hs : 0 < size) (w : Slice)
    (h : tableWindow d off size n = .ok w) : w.len / size = n ∧ w.len = size * n := by
  unfold tableWindow at h
  split at h
  · split at h
    · injection h with h; subst h
      have : (⟨d.buf, d.start + off, d.start + (off + size * n)⟩ : Slice).len = size * n := by
        simp [Slice.len]; omega
      rw [this]; exact ⟨Nat.mul_div_cancel_left n hs, rfl⟩
    · cases h
  · cases h

theorem section_table_len (h : FileHeader) (d : Slice) (t : Table SectionHeader)
    (hh : findShdrs h d = .ok (some t)) :
    ∃ shnum, shnumSpec h d = .ok shnum ∧ t.len = shnum ∧ h.t.e_shoff ≠ 0 ∧
      h.t.e_shentsize = Gen.size_SectionHeader h.cls ∧
      t.data = ⟨d.buf, d.start + h.t.e_shoff, d.start + (h.t.e_shoff + Gen.size_SectionHeader h.cls * shnum)⟩ := by
  rw [find_shdrs_spec] at hh
  by_cases h0 : h.t.e_shoff = 0
  · simp [h0] at hh
  · simp only [h0, if_false] at hh
    cases hn : shnumSpec h d with
    | panic => simp [hn, Out.bind] at hh
    | err e => simp [hn, Out.bind] at hh
    | ok shnum =>
      simp only [hn, Out.bind] at hh
      by_cases he : h.t.e_shentsize = Gen.size_SectionHeader h.cls
      · simp only [he, ne_eq, not_true_eq_false, if_false] at hh
        cases hw : tableWindow d h.t.e_shoff (Gen.size_SectionHeader h.cls) shnum with
        | panic => simp [hw] at hh
        | err e => simp [hw] at hh
        | ok w =>
          simp [hw] at hh
          have hpos : 0 < Gen.size_SectionHeader h.cls := by cases h.cls <;> decide
          have hl := table_window_len d _ _ _ hpos w hw
          refine ⟨shnum, rfl, ?_, h0, he, ?_⟩
          · rw [← hh]; simp [Table.len, shdrTable, SectionHeader.ep]; exact hl.1
          · rw [← hh]
            unfold tableWindow at hw
            split at hw
            · split at hw
              · injection hw with hw; simp [shdrTable]; exact hw.symm
              · cases hw
            · cases hw
      · simp [he] at hh

/-- **Entry-size checks**: a symbol table is only returned when `sh_entsize` equals the class's
    symbol size … -/
theorem symbol_table_entsize (f : ElfBytes) (sh strsh : SectionHeader) (r : Table Symbol × Slice)
    (h : f.sectionDataAsSymbolTable sh strsh = .ok r) : sh.sh_entsize = Gen.size_Symbol f.ehdr.cls := by
  unfold ElfBytes.sectionDataAsSymbolTable EntryParser.validateEntsize at h
  by_cases he : sh.sh_entsize = Symbol.ep.size f.ehdr.cls
  · exact he
  · simp [he, Out.bind] at h

/-- … a dynamic table (slice parser) only when `sh_entsize` equals the class's `Dyn` size … -/
theorem dynamic_entsize (f : ElfBytes) (sh : SectionHeader) (t : Table Dyn)
    (h : f.sectionDataAsDynamic sh = .ok t) : sh.sh_entsize = Gen.size_Dyn f.ehdr.cls := by
  unfold ElfBytes.sectionDataAsDynamic EntryParser.validateEntsize at h
  split at h
  · simp at h
  · by_cases he : sh.sh_entsize = Dyn.ep.size f.ehdr.cls
    · exact he
    · simp [he, Out.bind] at h

/-- … and the error carries (found, expected). -/
theorem symbol_table_bad_entsize (f : ElfBytes) (sh strsh : SectionHeader)
    (h : sh.sh_entsize ≠ Gen.size_Symbol f.ehdr.cls) :
    f.sectionDataAsSymbolTable sh strsh = .err (.BadEntsize sh.sh_entsize (Gen.size_Symbol f.ehdr.cls)) := by
  unfold ElfBytes.sectionDataAsSymbolTable EntryParser.validateEntsize
  simp [h, Out.bind, Symbol.ep]

/-- **`.gnu.version`**: a version-index table whose `sh_entsize` is not 2 is rejected with
    `BadEntsize(found, 2)` — whichever `SHT_GNU_VERSYM` header the scan settled on. -/
theorem versym_bad_entsize (f : ElfBytes) (shdrs : Table SectionHeader) (hs : f.shdrs = some shdrs)
    (versym : SectionHeader) (nd df : Option SectionHeader)
    (hscan : ElfBytes.verScan (shdrs.data.len + 1) shdrs.iter none none none = .ok (some versym, nd, df))
    (hne : versym.sh_entsize ≠ 2) :
    f.symbolVersionTable = .err (.BadEntsize versym.sh_entsize 2) := by
  unfold ElfBytes.symbolVersionTable
  simp only [hs, hscan, Out.bind]
  unfold EntryParser.validateEntsize
  have : VersionIndex.ep.size f.ehdr.cls = 2 := by cases f.ehdr.cls <;> rfl
  simp [this, hne]

/-- The section-name string table is the section at `e_shstrndx`, or at `shdr[0].sh_link` when
    `e_shstrndx = SHN_XINDEX (0xffff)`; `SHN_UNDEF` means none. -/
theorem shstrndx_rule (f : ElfBytes) (shdrs : Table SectionHeader) (hs : f.shdrs = some shdrs) :
    f.sectionHeadersWithStrtab =
      if f.ehdr.t.e_shstrndx = 0 then .ok (some shdrs, none) else
      ((if f.ehdr.t.e_shstrndx = 0xffff then (shdrs.get 0).bind fun s0 => Out.ok s0.sh_link
        else .ok f.ehdr.t.e_shstrndx).bind fun idx =>
       (shdrs.get idx).bind fun st =>
       (f.sectionData { st with sh_type := Abi.SHT_STRTAB, sh_flags := 0 }).bind fun r =>
       .ok (some shdrs, some r.1)) := by
  unfold ElfBytes.sectionHeadersWithStrtab
  simp only [hs, Abi.SHN_UNDEF, Abi.SHN_XINDEX]
  by_cases h0 : f.ehdr.t.e_shstrndx = 0
  · simp [h0]
  · simp only [h0, if_false]
    congr 1; funext idx
    congr 1; funext st
    have hp := section_data_plain f { st with sh_type := Abi.SHT_STRTAB, sh_flags := 0 }
      (by simp [Abi.SHT_STRTAB, Abi.SHT_NOBITS]) (by simp)
    rw [hp]
    simp only [dataRange_eq]
    by_cases h1 : st.sh_offset + st.sh_size < USZ
    · simp only [h1, if_true, Out.bind, getBytes_eq]
      by_cases h2 : st.sh_offset + st.sh_size ≤ f.data.len <;> simp [h2, fileRange]
    · simp [h1, Out.bind]

/- Non-vacuity: a table of 3 entries of 64 bytes at offset 64 of a 256-byte file. -/
example : (tableWindow ⟨#[], 0, 256⟩ 64 64 3).isOk = true := by decide
example : (tableWindow ⟨#[], 0, 255⟩ 64 64 3).isOk = false := by decide

end Elf.C05
