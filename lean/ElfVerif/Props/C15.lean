/-
  Props/C15 — string-table lookup returns exactly the NUL-terminated string at the offset.
  Model: `strGetRaw`, `strGet` (Model/StrTab.lean) mirror string_table.rs.
-/
import ElfVerif.Model.StrTab
import ElfVerif.Lemmas.Utf8Spec
namespace Elf.C15

theorem findNul_some (s : Slice) (i n k : Nat) :
    findNul s i n = some k ↔
      i ≤ k ∧ k < i + n ∧ s.byte k = 0 ∧ ∀ j, i ≤ j → j < k → s.byte j ≠ 0 := by
  induction n generalizing i with
  | zero => simp [findNul]; intro h1 h2; omega
  | succ n ih =>
    unfold findNul
    split
    · rename_i h0
      constructor
      · intro h; injection h with h; subst h
        exact ⟨Nat.le_refl _, by omega, h0, fun j h1 h2 => by omega⟩
      · rintro ⟨h1, _, _, h4⟩
        by_cases hk : k = i
        · rw [hk]
        · exact absurd h0 (h4 i (Nat.le_refl _) (by omega))
    · rename_i h0
      rw [ih (i + 1)]
      constructor
      · rintro ⟨h1, h2, h3, h4⟩
        refine ⟨by omega, by omega, h3, fun j hj1 hj2 => ?_⟩
        by_cases hji : j = i
        · rw [hji]; exact h0
        · exact h4 j (by omega) hj2
      · rintro ⟨h1, h2, h3, h4⟩
        have : k ≠ i := fun e => h0 (e ▸ h3)
        exact ⟨by omega, by omega, h3, fun j hj1 hj2 => h4 j (by omega) hj2⟩

theorem findNul_none (s : Slice) (i n : Nat) :
    findNul s i n = none ↔ ∀ j, i ≤ j → j < i + n → s.byte j ≠ 0 := by
  induction n generalizing i with
  | zero => simp [findNul]; intro j h1 h2; omega
  | succ n ih =>
    unfold findNul
    split
    · rename_i h0
      simp only [reduceCtorEq, false_iff]
      intro h; exact h i (Nat.le_refl _) (by omega) h0
    · rename_i h0
      rw [ih (i + 1)]
      constructor
      · intro h j hj1 hj2
        by_cases hji : j = i
        · rw [hji]; exact h0
        · exact h j (by omega) (by omega)
      · intro h j hj1 hj2; exact h j (by omega) (by omega)

/-- Bytes of the tail window `t[off..]` are the bytes of `t` shifted by `off`. -/
theorem tail_byte (t : Slice) (off j : Nat) :
    (⟨t.buf, t.start + off, t.stop⟩ : Slice).byte j = t.byte (off + j) := by
  simp [Slice.byte, Nat.add_assoc]

/-- **get_raw succeeds exactly on a NUL-terminated run inside the table, and returns that run**:
    the window `[off, off+k)` of the table where `k` is the distance to the first NUL at or after
    `off`, that NUL lying inside the table. -/
theorem get_raw_ok_iff (t : Slice) (off : Nat) (w : Slice) (_hwf : t.start ≤ t.stop) :
    strGetRaw t off = .ok w ↔
      ∃ k, off + k < t.len ∧ t.byte (off + k) = 0 ∧ (∀ j, j < k → t.byte (off + j) ≠ 0) ∧
        w = ⟨t.buf, t.start + off, t.start + off + k⟩ := by
  unfold strGetRaw Slice.isEmpty Slice.getFrom?
  by_cases hE : t.len = 0
  · simp [hE]
  · by_cases hoff : off ≤ t.len
    · simp only [hE, beq_iff_eq, if_false, hoff, if_true]
      have hlen : (⟨t.buf, t.start + off, t.stop⟩ : Slice).len = t.len - off := by
        simp [Slice.len]; omega
      cases hf : findNul ⟨t.buf, t.start + off, t.stop⟩ 0 (⟨t.buf, t.start + off, t.stop⟩ : Slice).len with
      | none =>
        simp only [reduceCtorEq, false_iff]
        rintro ⟨k, hk1, hk2, _, _⟩
        rw [findNul_none] at hf
        have := hf k (Nat.zero_le _) (by rw [hlen]; omega)
        rw [tail_byte] at this; exact this hk2
      | some k =>
        rw [findNul_some] at hf
        obtain ⟨_, hk2, hk3, hk4⟩ := hf
        rw [tail_byte] at hk3
        rw [hlen] at hk2
        constructor
        · intro h; injection h with h
          refine ⟨k, by omega, hk3, fun j hj => ?_, h.symm⟩
          have := hk4 j (Nat.zero_le _) hj; rw [tail_byte] at this; exact this
        · rintro ⟨k', h1, h2, h3, rfl⟩
          have : k' = k := by
            rcases Nat.lt_trichotomy k' k with h | h | h
            · have := hk4 k' (Nat.zero_le _) h; rw [tail_byte] at this; exact absurd h2 this
            · exact h
            · exact absurd hk3 (h3 k h)
          rw [this]
    · simp only [hE, beq_iff_eq, if_false, hoff]
      simp only [reduceCtorEq, false_iff]
      rintro ⟨k, hk, _⟩; omega

/-- **Errors**: an empty table or an offset past the end is `BadOffset`; otherwise a missing NUL
    (including `off = len`) is `StringTableMissingNul`. -/
theorem get_raw_err (t : Slice) (off : Nat) (_hwf : t.start ≤ t.stop)
    (h : ¬ ∃ k, off + k < t.len ∧ t.byte (off + k) = 0) :
    strGetRaw t off =
      .err (if t.len = 0 ∨ t.len < off then .BadOffset off else .StringTableMissingNul off) := by
  unfold strGetRaw Slice.isEmpty Slice.getFrom?
  by_cases hE : t.len = 0
  · simp [hE]
  · by_cases hoff : off ≤ t.len
    · have hno : ¬ t.len < off := by omega
      simp only [hE, beq_iff_eq, if_false, hoff, if_true, hno, or_self]
      have hlen : (⟨t.buf, t.start + off, t.stop⟩ : Slice).len = t.len - off := by
        simp [Slice.len]; omega
      cases hf : findNul ⟨t.buf, t.start + off, t.stop⟩ 0 (⟨t.buf, t.start + off, t.stop⟩ : Slice).len with
      | none => rfl
      | some k =>
        rw [findNul_some] at hf
        obtain ⟨_, hk2, hk3, _⟩ := hf
        rw [tail_byte] at hk3; rw [hlen] at hk2
        exact absurd ⟨k, by omega, hk3⟩ h
    · have : t.len < off := by omega
      simp [hE, hoff, this]

/-- get_raw never panics. -/
theorem get_raw_no_panic (t : Slice) (off : Nat) : strGetRaw t off ≠ .panic := by
  unfold strGetRaw
  split
  · simp
  · split
    · simp
    · split <;> simp

/-- **get = get_raw + UTF-8 validation**: same window when the bytes are well-formed UTF-8
    (Unicode Table 3-7, `validUtf8`), `Utf8Error` otherwise; get_raw's errors pass through. -/
theorem get_spec (t : Slice) (off : Nat) :
    strGet t off =
      match strGetRaw t off with
      | .ok w => if validUtf8 w then .ok w else .err .Utf8Error
      | .err e => .err e
      | .panic => .panic := by
  unfold strGet; rfl

/-- The returned window lies inside the table window and starts exactly at `off`. -/
theorem get_raw_provenance (t : Slice) (off : Nat) (w : Slice) (hwf : t.start ≤ t.stop)
    (h : strGetRaw t off = .ok w) :
    w.buf = t.buf ∧ w.start = t.start + off ∧ w.stop < t.stop := by
  rw [get_raw_ok_iff t off w hwf] at h
  obtain ⟨k, hk, _, _, rfl⟩ := h
  simp [Slice.len] at hk ⊢; omega

/-! ## "valid UTF-8" stated independently of the validator -/

/-- **The validator accepts exactly the concatenations of UTF-8 encodings of Unicode scalar values**
    (U+0000..U+D7FF, U+E000..U+10FFFF; `encodeScalar` is RFC 3629's encoding): overlong forms,
    surrogates, values above U+10FFFF, stray continuation bytes and truncated sequences are all
    rejected, and nothing else is. -/
theorem valid_utf8_spec (s : Slice) :
    validUtf8 s = true ↔
      ∃ cs : List Nat, (∀ c ∈ cs, IsScalar c) ∧ bytesFrom s 0 s.len = cs.flatMap encodeScalar :=
  validUtf8_iff s

/-- **`get(off)`**: the raw string when its bytes are the encoding of a sequence of scalar values,
    `Utf8Error` otherwise (and `get_raw`'s error when there is no string at `off`). -/
theorem get_utf8_spec (t : Slice) (off : Nat) (w : Slice) (hraw : strGetRaw t off = .ok w) :
    ((∃ cs : List Nat, (∀ c ∈ cs, IsScalar c) ∧ bytesFrom w 0 w.len = cs.flatMap encodeScalar) →
      strGet t off = .ok w) ∧
    ((¬ ∃ cs : List Nat, (∀ c ∈ cs, IsScalar c) ∧ bytesFrom w 0 w.len = cs.flatMap encodeScalar) →
      strGet t off = .err .Utf8Error) := by
  unfold strGet
  rw [hraw]
  constructor
  · intro h
    have := (validUtf8_iff w).mpr h
    simp [this]
  · intro h
    have : validUtf8 w = false := by
      cases hv : validUtf8 w with
      | false => rfl
      | true => exact absurd ((validUtf8_iff w).mp hv) h
    simp [this]

/- Non-vacuity -/
example : strGetRaw (Slice.ofArray #[0, 97, 98, 0, 99]) 1 = .ok ⟨#[0, 97, 98, 0, 99], 1, 3⟩ := by decide
example : strGetRaw (Slice.ofArray #[0, 97, 98, 0, 99]) 4 = .err (.StringTableMissingNul 4) := by decide
example : strGetRaw (Slice.ofArray #[0, 97]) 2 = .err (.StringTableMissingNul 2) := by decide
example : strGetRaw (Slice.ofArray #[0, 97]) 3 = .err (.BadOffset 3) := by decide
example : strGet (Slice.ofArray #[0xC3, 0xA9, 0]) 0 = .ok ⟨#[0xC3, 0xA9, 0], 0, 2⟩ := by decide
example : strGet (Slice.ofArray #[0xC3, 0]) 0 = .err .Utf8Error := by decide

example : encodeScalar 0xE9 = [0xC3, 0xA9] := by decide
example : encodeScalar 0x20AC = [0xE2, 0x82, 0xAC] := by decide
example : encodeScalar 0x1F600 = [0xF0, 0x9F, 0x98, 0x80] := by decide

end Elf.C15
