/-
  Props/C18 — a truncated file yields errors or unchanged answers, never different answers.

  A prefix of a file is modelled as the same buffer with a smaller `stop` (every read of the
  model is bounds-checked against the window, so bytes past `stop` are never observed; the
  correspondence harness validates this by running the model on a genuinely truncated copy).
  Monotonicity: whatever a query returns `Ok` on the prefix, it returns on the whole file.  Hence on
  the prefix each query is an error or exactly the full file's answer; and appending bytes
  (the same statement read right-to-left) changes no `Ok` answer.
-/
import ElfVerif.Lemmas.NoPanic
import ElfVerif.Lemmas.FaultEquiv
namespace Elf.C18

/-- `p` is a prefix of `f`. -/
def Prefix (p f : Slice) : Prop := p.buf = f.buf ∧ p.start = f.start ∧ p.stop ≤ f.stop

theorem Prefix.len_le {p f : Slice} (h : Prefix p f) : p.len ≤ f.len := by
  unfold Slice.len; obtain ⟨_, h2, h3⟩ := h; omega

theorem Prefix.byte {p f : Slice} (h : Prefix p f) (i : Nat) : p.byte i = f.byte i := by
  unfold Slice.byte; rw [h.1, h.2.1]

theorem get?_mono {p f : Slice} (h : Prefix p f) (a b : Nat) (w : Slice)
    (hp : p.get? a b = some w) : f.get? a b = some w := by
  unfold Slice.get? at *
  have := h.len_le
  split at hp
  · rename_i hc
    injection hp with hp
    have : a ≤ b ∧ b ≤ f.len := ⟨hc.1, by omega⟩
    simp only [this, and_self, if_true]
    rw [← hp, h.1, h.2.1]
  · cases hp

theorem getBytes_mono {p f : Slice} (h : Prefix p f) (a b : Nat) (w : Slice)
    (hp : p.getBytes a b = .ok w) : f.getBytes a b = .ok w := by
  unfold Slice.getBytes Out.ofOption at *
  cases hg : p.get? a b with
  | none => simp [hg] at hp
  | some w' => simp [hg] at hp; subst hp; rw [get?_mono h a b w' hg]

theorem decodeLE_eq {p f : Slice} (h : Prefix p f) (w off : Nat) :
    decodeLE p off w = decodeLE f off w := by
  induction w generalizing off with
  | zero => rfl
  | succ n ih => simp [decodeLE, h.byte, ih]

theorem decodeBE_eq {p f : Slice} (h : Prefix p f) (w off : Nat) :
    decodeBE p off w = decodeBE f off w := by
  induction w generalizing off with
  | zero => rfl
  | succ n ih => simp [decodeBE, h.byte, ih]

theorem decode_eq {p f : Slice} (h : Prefix p f) (le : Bool) (off w : Nat) :
    decode le p off w = decode le f off w := by
  unfold decode; rw [decodeLE_eq h, decodeBE_eq h]

theorem readTy_mono {p f : Slice} (h : Prefix p f) (le : Bool) (t : Ty) (off : Nat) (v : Int) (o : Nat)
    (hp : readTy le t p off = (.ok v, o)) : readTy le t f off = (.ok v, o) := by
  rcases readTy_trichotomy le t p off with ⟨h1, h2, hr⟩ | ⟨e, hr, _⟩
  · rw [hr] at hp
    have := h.len_le
    rw [readTy_ok le t f off h2 (by omega)]
    rw [← hp]; unfold tyVal; rw [decode_eq h]
  · rw [hr] at hp; injection hp with hp _; cases hp

theorem runReads_mono {p f : Slice} (h : Prefix p f) (le : Bool) (g : Option Guard) (ts : List Ty)
    (i : Nat) (acc : List Int) (off : Nat) (vals : List Int) (o : Nat)
    (hp : runReads le p g ts i acc off = (.ok vals, o)) :
    runReads le f g ts i acc off = (.ok vals, o) := by
  induction ts generalizing i acc off with
  | nil => simpa [runReads] using hp
  | cons t ts ih =>
    unfold runReads at hp ⊢
    rcases readTy_trichotomy le t p off with ⟨_, _, hr⟩ | ⟨e, hr, _⟩
    · rw [readTy_mono h le t off _ _ hr]
      rw [hr] at hp
      cases g with
      | none => exact ih _ _ _ hp
      | some gd =>
        simp only at hp ⊢
        split
        · rename_i hc; simp [hc] at hp
        · rename_i hc; simp only [hc, if_false] at hp; exact ih _ _ _ hp
    · rw [hr] at hp; injection hp with hp _; cases hp

theorem parse_mono {α} {p f : Slice} (h : Prefix p f) (ep : EntryParser α) (le : Bool) (c : Class)
    (off : Nat) (a : α) (o : Nat) (hp : ep.parse le c p off = (.ok a, o)) :
    ep.parse le c f off = (.ok a, o) := by
  unfold EntryParser.parse interp at *
  generalize hq : runReads le p (ep.prog c).guard (ep.prog c).reads 0 [] off = q at hp
  obtain ⟨q1, q2⟩ := q
  cases q1 with
  | ok vals => rw [runReads_mono h le _ _ 0 [] off vals q2 hq]; exact hp
  | err e => simp at hp
  | panic => simp at hp

theorem bind_mono {α β} {x y : Out α} {k l : α → Out β} {r : β}
    (hx : ∀ a, x = .ok a → y = .ok a) (hk : ∀ a, k a = .ok r → l a = .ok r)
    (h : x.bind k = .ok r) : y.bind l = .ok r := by
  cases x with
  | ok a => rw [hx a rfl]; exact hk a h
  | err e => simp [Out.bind] at h
  | panic => simp [Out.bind] at h

/-- the opened file `g` re-pointed at the longer buffer `f` -/
def extend (g : ElfBytes) (f : Slice) : ElfBytes := { g with data := f }

theorem shdr0_mono {p f : Slice} (h : Prefix p f) (hd : FileHeader) (off : Nat) (k : SectionHeader → Nat)
    (n : Nat)
    (hp : (match (SectionHeader.ep.parse hd.little hd.cls p off).1 with
      | .ok s => Out.ok (k s) | .err e => .err e | .panic => .panic) = .ok n) :
    (match (SectionHeader.ep.parse hd.little hd.cls f off).1 with
      | .ok s => Out.ok (k s) | .err e => .err e | .panic => .panic) = .ok n := by
  generalize hq : SectionHeader.ep.parse hd.little hd.cls p off = q at hp
  obtain ⟨q1, q2⟩ := q
  cases q1 with
  | ok s => rw [parse_mono h _ _ _ _ s q2 hq]; exact hp
  | err e => simp at hp
  | panic => simp at hp

theorem find_shdrs_mono {p f : Slice} (h : Prefix p f) (hd : FileHeader) (r : Option (Table SectionHeader))
    (hp : findShdrs hd p = .ok r) : findShdrs hd f = .ok r := by
  unfold findShdrs at *
  split
  · rename_i h0; simpa [h0] using hp
  · rename_i h0
    simp only [h0, if_false] at hp
    refine bind_mono ?_ (fun shnum hk => ?_) hp
    · intro n hn
      split
      · rename_i hz; simp only [hz, if_true] at hn; exact shdr0_mono h hd _ _ n hn
      · rename_i hz; simpa [hz] using hn
    refine bind_mono (fun _ hx => hx) (fun es hk => ?_) hk
    refine bind_mono (fun _ hx => hx) (fun sz hk => ?_) hk
    refine bind_mono (fun _ hx => hx) (fun e hk => ?_) hk
    exact bind_mono (fun w hw => getBytes_mono h _ _ w hw) (fun _ hk => hk) hk

theorem find_phdrs_mono {p f : Slice} (h : Prefix p f) (hd : FileHeader) (r : Option (Table ProgramHeader))
    (hp : findPhdrs hd p = .ok r) : findPhdrs hd f = .ok r := by
  unfold findPhdrs at *
  split
  · rename_i h0; simpa [h0] using hp
  · rename_i h0
    simp only [h0, if_false] at hp
    refine bind_mono ?_ (fun phnum hk => ?_) hp
    · intro n hn
      split
      · rename_i hz; simp only [hz, if_true] at hn; exact shdr0_mono h hd _ _ n hn
      · rename_i hz; simpa [hz] using hn
    refine bind_mono (fun _ hx => hx) (fun es hk => ?_) hk
    refine bind_mono (fun _ hx => hx) (fun sz hk => ?_) hk
    refine bind_mono (fun _ hx => hx) (fun e hk => ?_) hk
    exact bind_mono (fun w hw => getBytes_mono h _ _ w hw) (fun _ hk => hk) hk

/-- **Opening**: if the prefix opens, the whole file opens to the same header and the same
    tables (same windows of the same buffer). -/
theorem minimal_parse_mono {p f : Slice} (h : Prefix p f) (sp : Spec) (g : ElfBytes)
    (hp : minimalParse sp p = .ok g) : minimalParse sp f = .ok (extend g f) := by
  unfold minimalParse at *
  -- peel the binds, carrying the continuation's result through `extend`
  cases h1 : p.getBytes 0 Abi.EI_NIDENT with
  | panic => simp [h1, Out.bind] at hp
  | err e => simp [h1, Out.bind] at hp
  | ok identBuf =>
    rw [getBytes_mono h _ _ _ h1]
    simp only [h1, Out.bind] at hp ⊢
    cases h2 : parseIdent sp identBuf with
    | panic => simp [h2] at hp
    | err e => simp [h2] at hp
    | ok ident =>
      simp only [h2] at hp ⊢
      cases h3 : uadd Abi.EI_NIDENT (Gen.size_FileHeaderTail ident.2.1) with
      | panic => simp [h3] at hp
      | err e => simp [h3] at hp
      | ok tailEnd =>
        simp only [h3] at hp ⊢
        cases h4 : p.getBytes Abi.EI_NIDENT tailEnd with
        | panic => simp [h4] at hp
        | err e => simp [h4] at hp
        | ok tailBuf =>
          rw [getBytes_mono h _ _ _ h4]
          simp only [h4] at hp ⊢
          cases h5 : parseTail ident tailBuf with
          | panic => simp [h5] at hp
          | err e => simp [h5] at hp
          | ok ehdr =>
            simp only [h5] at hp ⊢
            cases h6 : findShdrs ehdr p with
            | panic => simp [h6] at hp
            | err e => simp [h6] at hp
            | ok shdrs =>
              rw [find_shdrs_mono h ehdr shdrs h6]
              simp only [h6] at hp ⊢
              cases h7 : findPhdrs ehdr p with
              | panic => simp [h7] at hp
              | err e => simp [h7] at hp
              | ok phdrs =>
                rw [find_phdrs_mono h ehdr phdrs h7]
                simp only [h7] at hp ⊢
                injection hp with hp
                subst hp
                rfl

/-- **Section data**: what the prefix returns, the whole file returns. -/
theorem section_data_mono {p f : Slice} (h : Prefix p f) (g : ElfBytes) (hg : g.data = p)
    (sh : SectionHeader) (r : Slice × Option CompressionHeader)
    (hp : g.sectionData sh = .ok r) : (extend g f).sectionData sh = .ok r := by
  unfold ElfBytes.sectionData at *
  split
  · rename_i h0; simpa [h0] using hp
  · rename_i h0
    simp only [h0, if_false] at hp
    refine bind_mono (fun _ hx => hx) (fun rg hk => ?_) hp
    refine bind_mono (fun w hw => ?_) (fun buf hk => hk) hk
    show f.getBytes _ _ = _
    rw [hg] at hw; exact getBytes_mono h _ _ w hw

theorem segment_data_mono {p f : Slice} (h : Prefix p f) (g : ElfBytes) (hg : g.data = p)
    (ph : ProgramHeader) (w : Slice)
    (hp : g.segmentData ph = .ok w) : (extend g f).segmentData ph = .ok w := by
  unfold ElfBytes.segmentData at *
  refine bind_mono (fun _ hx => hx) (fun rg hk => ?_) hp
  show f.getBytes _ _ = _
  rw [hg] at hk; exact getBytes_mono h _ _ w hk

theorem typed_section_mono {p f : Slice} (h : Prefix p f) (g : ElfBytes) (hg : g.data = p)
    (sh : SectionHeader) (want : Nat) (w : Slice)
    (hp : g.typedSection sh want = .ok w) : (extend g f).typedSection sh want = .ok w := by
  unfold ElfBytes.typedSection at *
  split
  · rename_i h0; simp [h0] at hp
  · rename_i h0
    simp only [h0, if_false] at hp
    exact bind_mono (fun r hr => section_data_mono h g hg sh r hr) (fun _ hk => hk) hp

theorem section_headers_with_strtab_mono {p f : Slice} (h : Prefix p f) (g : ElfBytes) (hg : g.data = p)
    (r : Option (Table SectionHeader) × Option Slice)
    (hp : g.sectionHeadersWithStrtab = .ok r) : (extend g f).sectionHeadersWithStrtab = .ok r := by
  unfold ElfBytes.sectionHeadersWithStrtab at *
  show (match g.shdrs with | none => _ | some shdrs => _) = _
  cases hs : g.shdrs with
  | none => simpa [hs] using hp
  | some shdrs =>
    simp only [hs] at hp ⊢
    show (if g.ehdr.t.e_shstrndx = Abi.SHN_UNDEF then _ else _) = _
    split
    · rename_i h0; simpa [h0] using hp
    · rename_i h0
      simp only [h0, if_false] at hp
      refine bind_mono (fun _ hx => hx) (fun idx hk => ?_) hp
      refine bind_mono (fun _ hx => hx) (fun st hk => ?_) hk
      refine bind_mono (fun _ hx => hx) (fun rg hk => ?_) hk
      refine bind_mono (fun w hw => ?_) (fun _ hk => hk) hk
      show f.getBytes _ _ = _
      rw [hg] at hw; exact getBytes_mono h _ _ w hw

theorem section_data_as_symbol_table_mono {p f : Slice} (h : Prefix p f) (g : ElfBytes) (hg : g.data = p)
    (a b : SectionHeader) (r : Table Symbol × Slice)
    (hp : g.sectionDataAsSymbolTable a b = .ok r) : (extend g f).sectionDataAsSymbolTable a b = .ok r := by
  unfold ElfBytes.sectionDataAsSymbolTable at *
  refine bind_mono (fun _ hx => hx) (fun _ hk => ?_) hp
  refine bind_mono (fun _ hx => hx) (fun _ hk => ?_) hk
  refine bind_mono (fun w hw => by show f.getBytes _ _ = _; rw [hg] at hw; exact getBytes_mono h _ _ w hw)
    (fun _ hk => ?_) hk
  refine bind_mono (fun _ hx => hx) (fun _ hk => ?_) hk
  exact bind_mono (fun w hw => by show f.getBytes _ _ = _; rw [hg] at hw; exact getBytes_mono h _ _ w hw)
    (fun _ hk => hk) hk

theorem symbol_table_of_type_mono {p f : Slice} (h : Prefix p f) (g : ElfBytes) (hg : g.data = p)
    (ty : Nat) (r : Option (Table Symbol × Slice))
    (hp : g.symbolTableOfType ty = .ok r) : (extend g f).symbolTableOfType ty = .ok r := by
  unfold ElfBytes.symbolTableOfType at *
  show (match g.shdrs with | none => _ | some shdrs => _) = _
  cases hs : g.shdrs with
  | none => simpa [hs] using hp
  | some shdrs =>
    simp only [hs] at hp ⊢
    refine bind_mono (fun _ hx => hx) (fun o hk => ?_) hp
    cases o with
    | none => exact hk
    | some symShdr =>
      simp only at hk ⊢
      refine bind_mono (fun _ hx => hx) (fun st hk => ?_) hk
      exact bind_mono (fun r hr => section_data_as_symbol_table_mono h g hg _ _ r hr) (fun _ hk => hk) hk

/-- Corollary in the property's own words: on the prefix, `section_data` is an error or exactly
    the answer on the complete file. -/
theorem section_data_prefix_err_or_same {p f : Slice} (h : Prefix p f) (g : ElfBytes) (hg : g.data = p)
    (sh : SectionHeader) :
    (∃ e, g.sectionData sh = .err e) ∨ g.sectionData sh = (extend g f).sectionData sh := by
  cases hr : g.sectionData sh with
  | ok r => right; rw [section_data_mono h g hg sh r hr]
  | err e => left; exact ⟨e, rfl⟩
  | panic =>
    exact absurd hr (by
      unfold ElfBytes.sectionData
      split
      · simp
      · refine Out.bind_ne_panic _ _ (dataRange_ne_panic _ _) (fun _ _ => ?_)
        refine Out.bind_ne_panic _ _ (Slice.getBytes_ne_panic _ _ _) (fun buf _ => ?_)
        split
        · simp
        · have := EntryParser.parse_no_panic CompressionHeader.ep total_CompressionHeader
            g.ehdr.little g.ehdr.cls buf 0
          generalize CompressionHeader.ep.parse g.ehdr.little g.ehdr.cls buf 0 = q at this
          obtain ⟨q1, q2⟩ := q
          cases q1 with
          | panic => simp at this
          | err e => simp
          | ok c => exact Out.bind_ne_panic _ _ (Out.ofOption_ne_panic _ _) (fun _ _ => by simp))

/-! ### the remaining accessors -/

/-- `extend` changes nothing but the data -/
theorem extend_fields (g : ElfBytes) (f : Slice) :
    (extend g f).ehdr = g.ehdr ∧ (extend g f).shdrs = g.shdrs ∧ (extend g f).phdrs = g.phdrs ∧
    (extend g f).data = f := ⟨rfl, rfl, rfl, rfl⟩

theorem section_data_as_dynamic_mono {p f : Slice} (h : Prefix p f) (g : ElfBytes) (hg : g.data = p)
    (sh : SectionHeader) (t : Table Dyn)
    (hp : g.sectionDataAsDynamic sh = .ok t) : (extend g f).sectionDataAsDynamic sh = .ok t := by
  unfold ElfBytes.sectionDataAsDynamic at *
  split
  · rename_i h0; simp [h0] at hp
  · rename_i h0
    simp only [h0, if_false] at hp
    refine bind_mono (fun _ hx => hx) (fun _ hk => ?_) hp
    exact bind_mono (fun r hr => section_data_mono h g hg sh r hr) (fun _ hk => hk) hk

theorem dynamic_from_segments_mono {p f : Slice} (h : Prefix p f) (g : ElfBytes) (hg : g.data = p)
    (o : Option (Table Dyn))
    (hp : g.dynamicFromSegments = .ok o) : (extend g f).dynamicFromSegments = .ok o := by
  unfold ElfBytes.dynamicFromSegments at *
  show (match g.phdrs with | some phdrs => _ | none => _) = _
  cases hs : g.phdrs with
  | none => simpa [hs] using hp
  | some phdrs =>
    simp only [hs] at hp ⊢
    refine bind_mono (fun _ hx => hx) (fun o hk => ?_) hp
    cases o with
    | none => exact hk
    | some phdr =>
      simp only at hk ⊢
      refine bind_mono (fun _ hx => hx) (fun rg hk => ?_) hk
      exact bind_mono (fun w hw => by show f.getBytes _ _ = _; rw [hg] at hw; exact getBytes_mono h _ _ w hw)
        (fun _ hk => hk) hk

theorem dynamic_mono {p f : Slice} (h : Prefix p f) (g : ElfBytes) (hg : g.data = p)
    (o : Option (Table Dyn)) (hp : g.dynamic = .ok o) : (extend g f).dynamic = .ok o := by
  unfold ElfBytes.dynamic at *
  show (match g.shdrs with | some shdrs => _ | none => _) = _
  cases hs : g.shdrs with
  | none =>
    simp only [hs] at hp ⊢
    exact dynamic_from_segments_mono h g hg o hp
  | some shdrs =>
    simp only [hs] at hp ⊢
    refine bind_mono (fun _ hx => hx) (fun o hk => ?_) hp
    cases o with
    | none => exact hk
    | some shdr =>
      simp only at hk ⊢
      exact bind_mono (fun t ht => section_data_as_dynamic_mono h g hg _ t ht) (fun _ hk => hk) hk

theorem section_notes_mono {p f : Slice} (h : Prefix p f) (g : ElfBytes) (hg : g.data = p)
    (sh : SectionHeader) (it : NoteIter)
    (hp : g.sectionDataAsNotes sh = .ok it) : (extend g f).sectionDataAsNotes sh = .ok it := by
  unfold ElfBytes.sectionDataAsNotes at *
  exact bind_mono (fun w hw => typed_section_mono h g hg sh _ w hw) (fun _ hk => hk) hp

theorem section_rels_mono {p f : Slice} (h : Prefix p f) (g : ElfBytes) (hg : g.data = p)
    (sh : SectionHeader) (it : Iter Rel)
    (hp : g.sectionDataAsRels sh = .ok it) : (extend g f).sectionDataAsRels sh = .ok it := by
  unfold ElfBytes.sectionDataAsRels at *
  exact bind_mono (fun w hw => typed_section_mono h g hg sh _ w hw) (fun _ hk => hk) hp

theorem section_relas_mono {p f : Slice} (h : Prefix p f) (g : ElfBytes) (hg : g.data = p)
    (sh : SectionHeader) (it : Iter Rela)
    (hp : g.sectionDataAsRelas sh = .ok it) : (extend g f).sectionDataAsRelas sh = .ok it := by
  unfold ElfBytes.sectionDataAsRelas at *
  exact bind_mono (fun w hw => typed_section_mono h g hg sh _ w hw) (fun _ hk => hk) hp

theorem segment_notes_mono {p f : Slice} (h : Prefix p f) (g : ElfBytes) (hg : g.data = p)
    (ph : ProgramHeader) (it : NoteIter)
    (hp : g.segmentDataAsNotes ph = .ok it) : (extend g f).segmentDataAsNotes ph = .ok it := by
  unfold ElfBytes.segmentDataAsNotes at *
  split
  · rename_i h0; simp [h0] at hp
  · rename_i h0
    simp only [h0, if_false] at hp
    exact bind_mono (fun w hw => segment_data_mono h g hg ph w hw) (fun _ hk => hk) hp

theorem section_header_by_name_mono {p f : Slice} (h : Prefix p f) (g : ElfBytes) (hg : g.data = p)
    (name : Slice) (o : Option SectionHeader)
    (hp : g.sectionHeaderByName name = .ok o) : (extend g f).sectionHeaderByName name = .ok o := by
  unfold ElfBytes.sectionHeaderByName at *
  exact bind_mono (fun r hr => section_headers_with_strtab_mono h g hg r hr) (fun _ hk => hk) hp

theorem ver_records_mono {p f : Slice} (h : Prefix p f) (g : ElfBytes) (hg : g.data = p)
    (shdrs : Table SectionHeader) (o : Option SectionHeader) (r : Option (VerIter × Slice))
    (hp : g.verRecords shdrs o = .ok r) : (extend g f).verRecords shdrs o = .ok r := by
  unfold ElfBytes.verRecords at *
  cases o with
  | none => exact hp
  | some shdr =>
    simp only at hp ⊢
    refine bind_mono (fun _ hx => hx) (fun _ hk => ?_) hp
    refine bind_mono (fun w hw => by show f.getBytes _ _ = _; rw [hg] at hw; exact getBytes_mono h _ _ w hw)
      (fun _ hk => ?_) hk
    refine bind_mono (fun _ hx => hx) (fun _ hk => ?_) hk
    refine bind_mono (fun _ hx => hx) (fun _ hk => ?_) hk
    exact bind_mono (fun w hw => by show f.getBytes _ _ = _; rw [hg] at hw; exact getBytes_mono h _ _ w hw)
      (fun _ hk => hk) hk

theorem symbol_version_table_mono {p f : Slice} (h : Prefix p f) (g : ElfBytes) (hg : g.data = p)
    (o : Option SymbolVersionTable)
    (hp : g.symbolVersionTable = .ok o) : (extend g f).symbolVersionTable = .ok o := by
  unfold ElfBytes.symbolVersionTable at *
  show (match g.shdrs with | none => _ | some shdrs => _) = _
  cases hs : g.shdrs with
  | none => simpa [hs] using hp
  | some shdrs =>
    simp only [hs] at hp ⊢
    refine bind_mono (fun _ hx => hx) (fun sc hk => ?_) hp
    obtain ⟨vs, nd, df⟩ := sc
    simp only at hk ⊢
    cases vs with
    | none => exact hk
    | some versym =>
      simp only at hk ⊢
      refine bind_mono (fun _ hx => hx) (fun _ hk => ?_) hk
      refine bind_mono (fun _ hx => hx) (fun _ hk => ?_) hk
      refine bind_mono (fun w hw => by show f.getBytes _ _ = _; rw [hg] at hw; exact getBytes_mono h _ _ w hw)
        (fun _ hk => ?_) hk
      refine bind_mono (fun r hr => ver_records_mono h g hg shdrs _ r hr) (fun _ hk => ?_) hk
      exact bind_mono (fun r hr => ver_records_mono h g hg shdrs _ r hr) (fun _ hk => hk) hk

theorem common_step_mono {p f : Slice} (h : Prefix p f) (g : ElfBytes) (hg : g.data = p)
    (shdrs : Table SectionHeader) (acc : ElfBytes.CommonElfData) (sh : SectionHeader)
    (r : ElfBytes.CommonElfData)
    (hp : g.commonStep shdrs acc sh = .ok r) : (extend g f).commonStep shdrs acc sh = .ok r := by
  unfold ElfBytes.commonStep at *
  split
  · rename_i h0
    simp only [h0, if_true] at hp
    refine bind_mono (fun _ hx => hx) (fun _ hk => ?_) hp
    exact bind_mono (fun r hr => section_data_as_symbol_table_mono h g hg _ _ r hr) (fun _ hk => hk) hk
  · rename_i h0
    simp only [h0, if_false] at hp
    split
    · rename_i h1
      simp only [h1, if_true] at hp
      refine bind_mono (fun _ hx => hx) (fun _ hk => ?_) hp
      exact bind_mono (fun r hr => section_data_as_symbol_table_mono h g hg _ _ r hr) (fun _ hk => hk) hk
    · rename_i h1
      simp only [h1, if_false] at hp
      split
      · rename_i h2
        simp only [h2, if_true] at hp
        exact bind_mono (fun t ht => section_data_as_dynamic_mono h g hg _ t ht) (fun _ hk => hk) hp
      · rename_i h2
        simp only [h2, if_false] at hp
        split
        · rename_i h3
          simp only [h3, if_true] at hp
          refine bind_mono (fun _ hx => hx) (fun _ hk => ?_) hp
          exact bind_mono (fun w hw => by show f.getBytes _ _ = _; rw [hg] at hw; exact getBytes_mono h _ _ w hw)
            (fun _ hk => hk) hk
        · rename_i h3
          simp only [h3, if_false] at hp
          split
          · rename_i h4
            simp only [h4, if_true] at hp
            refine bind_mono (fun _ hx => hx) (fun _ hk => ?_) hp
            exact bind_mono (fun w hw => by show f.getBytes _ _ = _; rw [hg] at hw; exact getBytes_mono h _ _ w hw)
              (fun _ hk => hk) hk
          · rename_i h4
            simp only [h4, if_false] at hp
            exact hp

theorem common_scan_mono {p f : Slice} (h : Prefix p f) (g : ElfBytes) (hg : g.data = p)
    (shdrs : Table SectionHeader) (fuel : Nat) (it : Iter SectionHeader) (acc r : ElfBytes.CommonElfData)
    (hp : g.commonScan shdrs fuel it acc = .ok r) : (extend g f).commonScan shdrs fuel it acc = .ok r := by
  induction fuel generalizing it acc with
  | zero => simpa [ElfBytes.commonScan] using hp
  | succ n ih =>
    unfold ElfBytes.commonScan at hp ⊢
    generalize it.next = q at hp ⊢
    obtain ⟨q1, q2⟩ := q
    cases q1 with
    | err e => exact hp
    | panic => exact hp
    | ok o =>
      cases o with
      | none => exact hp
      | some sh =>
        simp only at hp ⊢
        exact bind_mono (fun a ha => common_step_mono h g hg shdrs acc sh a ha) (fun a hk => ih q2 a hk) hp

/-- **`find_common_data`**: on a prefix it is an error or exactly the answer on the complete file. -/
theorem find_common_data_mono {p f : Slice} (h : Prefix p f) (g : ElfBytes) (hg : g.data = p)
    (r : ElfBytes.CommonElfData)
    (hp : g.findCommonData = .ok r) : (extend g f).findCommonData = .ok r := by
  unfold ElfBytes.findCommonData at *
  refine bind_mono (fun a ha => ?_) (fun res hk => ?_) hp
  · unfold ElfBytes.sectionScan at *
    show (match g.shdrs with | some shdrs => _ | none => _) = _
    cases hs : g.shdrs with
    | none => simpa [hs] using ha
    | some shdrs =>
      simp only [hs] at ha ⊢
      exact common_scan_mono h g hg shdrs _ _ _ a ha
  · split
    · rename_i h0
      simp only [h0, if_true] at hk
      exact bind_mono (fun o ho => dynamic_from_segments_mono h g hg o ho) (fun _ hk => hk) hk
    · rename_i h0
      simp only [h0] at hk
      exact hk

/-- **Appending bytes changes no answer** is the same statement read the other way: `p` is a
    prefix of `f` exactly when `f` is `p` with bytes appended, and every `_mono` theorem says an
    answer on `p` is the answer on `f`. -/
theorem append_changes_nothing {p f : Slice} (h : Prefix p f) (g : ElfBytes) (hg : g.data = p)
    (o : Option (Table Dyn)) (hp : g.dynamic = .ok o) : (extend g f).dynamic = .ok o :=
  dynamic_mono h g hg o hp

/-! ## The stream parser on a truncated stream

  `PrefixOf p c`: the array `p` is `c` cut after `p.size` bytes (the file as left by a writer that
  stopped there; read the other way, `c` is `p` with bytes appended).  `Twin` (Lemmas/FaultEquiv.lean)
  relates a reader over `p` under ANY schedule to a fault-free reader over `c`. -/

theorem history_headers (qs : List Query) (s : ElfStream) :
    (qs.foldl (fun s q => q.after s) s).ehdr = s.ehdr ∧ (qs.foldl (fun s q => q.after s) s).shdrs = s.shdrs ∧
    (qs.foldl (fun s q => q.after s) s).phdrs = s.phdrs := by
  induction qs generalizing s with
  | nil => exact ⟨rfl, rfl, rfl⟩
  | cons q qs ih =>
    obtain ⟨h1, h2, h3⟩ := ih (q.after s)
    obtain ⟨g1, g2, g3⟩ := q.after_headers s
    exact ⟨h1.trans g1, h2.trans g2, h3.trans g3⟩

/-- **Opening a truncated stream**: if it succeeds, opening the complete stream succeeds with the
    same headers; and after any history of queries on the truncated stream (whatever they returned)
    its state is the complete stream's state with another reader — a `Twin` reader — so that every
    `*_fault_free` theorem of C17 applies: whatever a query answers with `Ok` on the truncated
    stream is what it answers on the complete one. -/
theorem stream_prefix_twin (sp : Spec) (devp dev : Device) (hl : Legal dev.sched)
    (hp : PrefixOf devp.content dev.content) (s : ElfStream) (d : Device)
    (h : openStream sp devp = (.ok s, d)) (qs : List Query) :
    ∃ s₀ d₀, openStream sp dev = (.ok s₀, d₀) ∧
      Twin (qs.foldl (fun s q => q.after s) s).reader s₀.reader dev.content ∧
      (qs.foldl (fun s q => q.after s) s).twin s₀.reader = s₀ := by
  obtain ⟨s₀, d₀, h1, e1, e2, e3, ht⟩ := open_twin sp devp dev hl hp s d h
  obtain ⟨p, hw, hr, hpp⟩ := ht
  obtain ⟨g1, g2, g3⟩ := history_headers qs s
  refine ⟨s₀, d₀, h1, ⟨p, history_winv qs s p hw, hr, hpp⟩, ?_⟩
  unfold ElfStream.twin
  cases s₀ with
  | mk a b c r =>
    simp only at e1 e2 e3
    simp only [g1, g2, g3, e1, e2, e3]

/-- instances: section data, symbol tables, the dynamic table, symbol versions, lookup by name -/
theorem stream_section_data_prefix (sp : Spec) (devp dev : Device) (hl : Legal dev.sched)
    (hp : PrefixOf devp.content dev.content) (s : ElfStream) (d : Device)
    (h : openStream sp devp = (.ok s, d)) (qs : List Query) (sh : SectionHeader)
    (v : Slice × Option CompressionHeader) (s' : ElfStream)
    (hq : (qs.foldl (fun s q => q.after s) s).sectionData sh = (.ok v, s')) :
    ∃ s₀ d₀ s₀', openStream sp dev = (.ok s₀, d₀) ∧ s₀.sectionData sh = (.ok v, s₀') := by
  obtain ⟨s₀, d₀, h1, ht, he⟩ := stream_prefix_twin sp devp dev hl hp s d h qs
  obtain ⟨s₀', g, _⟩ := sectionData_twin _ s₀.reader _ ht sh v s' hq
  rw [he] at g
  exact ⟨s₀, d₀, s₀', h1, g⟩

theorem stream_symbol_table_prefix (sp : Spec) (devp dev : Device) (hl : Legal dev.sched)
    (hp : PrefixOf devp.content dev.content) (s : ElfStream) (d : Device)
    (h : openStream sp devp = (.ok s, d)) (qs : List Query) (ty : Nat)
    (v : Option (Table Symbol × Slice)) (s' : ElfStream)
    (hq : (qs.foldl (fun s q => q.after s) s).symbolTableOfType ty = (.ok v, s')) :
    ∃ s₀ d₀ s₀', openStream sp dev = (.ok s₀, d₀) ∧ s₀.symbolTableOfType ty = (.ok v, s₀') := by
  obtain ⟨s₀, d₀, h1, ht, he⟩ := stream_prefix_twin sp devp dev hl hp s d h qs
  obtain ⟨s₀', g, _⟩ := symtab_twin _ s₀.reader _ ht ty v s' hq
  rw [he] at g
  exact ⟨s₀, d₀, s₀', h1, g⟩

theorem stream_dynamic_prefix (sp : Spec) (devp dev : Device) (hl : Legal dev.sched)
    (hp : PrefixOf devp.content dev.content) (s : ElfStream) (d : Device)
    (h : openStream sp devp = (.ok s, d)) (qs : List Query)
    (v : Option (Table Dyn)) (s' : ElfStream)
    (hq : (qs.foldl (fun s q => q.after s) s).dynamic = (.ok v, s')) :
    ∃ s₀ d₀ s₀', openStream sp dev = (.ok s₀, d₀) ∧ s₀.dynamic = (.ok v, s₀') := by
  obtain ⟨s₀, d₀, h1, ht, he⟩ := stream_prefix_twin sp devp dev hl hp s d h qs
  obtain ⟨s₀', g, _⟩ := dynamic_twin _ s₀.reader _ ht v s' hq
  rw [he] at g
  exact ⟨s₀, d₀, s₀', h1, g⟩

theorem stream_symbol_versions_prefix (sp : Spec) (devp dev : Device) (hl : Legal dev.sched)
    (hp : PrefixOf devp.content dev.content) (s : ElfStream) (d : Device)
    (h : openStream sp devp = (.ok s, d)) (qs : List Query)
    (v : Option SymbolVersionTable) (s' : ElfStream)
    (hq : (qs.foldl (fun s q => q.after s) s).symbolVersionTable = (.ok v, s')) :
    ∃ s₀ d₀ s₀', openStream sp dev = (.ok s₀, d₀) ∧ s₀.symbolVersionTable = (.ok v, s₀') := by
  obtain ⟨s₀, d₀, h1, ht, he⟩ := stream_prefix_twin sp devp dev hl hp s d h qs
  obtain ⟨s₀', g, _⟩ := symver_twin _ s₀.reader _ ht v s' hq
  rw [he] at g
  exact ⟨s₀, d₀, s₀', h1, g⟩

theorem stream_by_name_prefix (sp : Spec) (devp dev : Device) (hl : Legal dev.sched)
    (hp : PrefixOf devp.content dev.content) (s : ElfStream) (d : Device)
    (h : openStream sp devp = (.ok s, d)) (qs : List Query) (name : Slice)
    (v : Option SectionHeader) (s' : ElfStream)
    (hq : (qs.foldl (fun s q => q.after s) s).sectionHeaderByName name = (.ok v, s')) :
    ∃ s₀ d₀ s₀', openStream sp dev = (.ok s₀, d₀) ∧ s₀.sectionHeaderByName name = (.ok v, s₀') := by
  obtain ⟨s₀, d₀, h1, ht, he⟩ := stream_prefix_twin sp devp dev hl hp s d h qs
  obtain ⟨s₀', g, _⟩ := byName_twin _ s₀.reader _ ht name v s' hq
  rw [he] at g
  exact ⟨s₀, d₀, s₀', h1, g⟩

example : PrefixOf (#[1, 2, 3, 4, 5].extract 0 3 : Array UInt8) #[1, 2, 3, 4, 5] := by
  constructor <;> decide

/- Non-vacuity: a 3-byte prefix of a 5-byte window; a range that fits both. -/
example : Prefix ⟨#[1, 2, 3, 4, 5], 0, 3⟩ ⟨#[1, 2, 3, 4, 5], 0, 5⟩ := ⟨rfl, rfl, by decide⟩
example : (⟨#[1, 2, 3, 4, 5], 0, 3⟩ : Slice).getBytes 1 3 = (⟨#[1, 2, 3, 4, 5], 0, 5⟩ : Slice).getBytes 1 3 := by decide
example : ((⟨#[1, 2, 3, 4, 5], 0, 3⟩ : Slice).getBytes 1 4).isOk = false := by decide

end Elf.C18
