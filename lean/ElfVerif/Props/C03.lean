/-
  Props/C03 — returned data is the exact header-designated byte range of the input.

  A slice is a *window* `(buf, start, stop)` of the caller's buffer, so "borrows from the caller's
  buffer at exactly this range" is a statement about `buf`, `start` and `stop`.
-/
import ElfVerif.Lemmas.NoPanic
import ElfVerif.Props.C14
namespace Elf.C03

/-- The window `[a, a+n)` of the file. -/
def fileRange (f : ElfBytes) (a n : Nat) : Slice := ⟨f.data.buf, f.data.start + a, f.data.start + (a + n)⟩

theorem getBytes_eq (s : Slice) (a n : Nat) :
    s.getBytes a (a + n) =
      if a + n ≤ s.len then .ok ⟨s.buf, s.start + a, s.start + (a + n)⟩
      else .err (.SliceReadError a (a + n)) := by
  unfold Slice.getBytes Slice.get? Out.ofOption
  by_cases h : a + n ≤ s.len
  · have : a ≤ a + n ∧ a + n ≤ s.len := ⟨by omega, h⟩
    simp [this, h]
  · have : ¬ (a ≤ a + n ∧ a + n ≤ s.len) := fun hh => h hh.2
    simp [this, h]

theorem dataRange_eq (a n : Nat) :
    dataRange a n = if a + n < USZ then .ok (a, a + n) else .err .IntegerOverflow := by
  unfold dataRange checkedAdd
  by_cases h : a + n < USZ <;> simp [h]

/-- **The range a section header designates is `[sh_offset, sh_offset + sh_size)`** — `SectionHeader::get_data_range`
    as translated from /repo on this run (`Gen.acc_SectionHeader_get_data_range`; its parameter list says it reads
    `sh_offset` and `sh_size` and nothing else) is the model's `dataRange` of those two fields. -/
theorem section_range_is_offset_size (sh : SectionHeader) (ho : sh.sh_offset < USZ) (hs : sh.sh_size < USZ) :
    Gen.acc_SectionHeader_get_data_range (sh_offset := sh.sh_offset) (sh_size := sh.sh_size) =
      dataRange sh.sh_offset sh.sh_size := by
  unfold Gen.acc_SectionHeader_get_data_range tryIntoUsize dataRange
  simp only [ho, hs, if_true, Out.bind]
  cases checkedAdd sh.sh_offset sh.sh_size <;> rfl

/-- **The range a program header designates in the file is `[p_offset, p_offset + p_filesz)`** — `p_memsz`, the size
    in memory, is not a parameter of the translated `ProgramHeader::get_file_data_range`. -/
theorem segment_range_is_offset_filesz (ph : ProgramHeader) (ho : ph.p_offset < USZ) (hs : ph.p_filesz < USZ) :
    Gen.acc_ProgramHeader_get_file_data_range (p_offset := ph.p_offset) (p_filesz := ph.p_filesz) =
      dataRange ph.p_offset ph.p_filesz := by
  unfold Gen.acc_ProgramHeader_get_file_data_range tryIntoUsize dataRange
  simp only [ho, hs, if_true, Out.bind]
  cases checkedAdd ph.p_offset ph.p_filesz <;> rfl

/-- **SHT_NOBITS sections yield the empty slice.** -/
theorem section_data_nobits (f : ElfBytes) (sh : SectionHeader) (h : sh.sh_type = Abi.SHT_NOBITS) :
    f.sectionData sh = .ok (Slice.empty, none) := by
  unfold ElfBytes.sectionData; simp [h]

/-- **Uncompressed section data is exactly `[sh_offset, sh_offset + sh_size)` of the input, or an
    error** — never a clamped, shifted or copied slice.  A complete equation: success iff the range
    fits (and does not overflow `usize`). -/
theorem section_data_plain (f : ElfBytes) (sh : SectionHeader)
    (hnb : sh.sh_type ≠ Abi.SHT_NOBITS) (hnc : sh.sh_flags &&& Abi.SHF_COMPRESSED = 0) :
    f.sectionData sh =
      if sh.sh_offset + sh.sh_size < USZ then
        if sh.sh_offset + sh.sh_size ≤ f.data.len then .ok (fileRange f sh.sh_offset sh.sh_size, none)
        else .err (.SliceReadError sh.sh_offset (sh.sh_offset + sh.sh_size))
      else .err .IntegerOverflow := by
  unfold ElfBytes.sectionData
  simp only [hnb, if_false, dataRange_eq]
  by_cases h1 : sh.sh_offset + sh.sh_size < USZ
  · simp only [h1, if_true, Out.bind, getBytes_eq]
    by_cases h2 : sh.sh_offset + sh.sh_size ≤ f.data.len
    · simp [h2, hnc, fileRange]
    · simp [h2]
  · simp [h1, Out.bind]

/-- **Compressed sections**: the header is the `Chdr` parsed at `sh_offset`; the payload is
    exactly `[sh_offset + chdr_size, sh_offset + sh_size)`; a section shorter than its compression
    header is an error. -/
theorem section_data_compressed (f : ElfBytes) (sh : SectionHeader)
    (hnb : sh.sh_type ≠ Abi.SHT_NOBITS) (hc : sh.sh_flags &&& Abi.SHF_COMPRESSED ≠ 0)
    (w : Slice) (ch : Option CompressionHeader) (h : f.sectionData sh = .ok (w, ch)) :
    let csz := (CompressionHeader.ep.prog f.ehdr.cls).size
    sh.sh_offset + sh.sh_size ≤ f.data.len ∧ csz ≤ sh.sh_size ∧
    w = ⟨f.data.buf, f.data.start + sh.sh_offset + csz, f.data.start + (sh.sh_offset + sh.sh_size)⟩ ∧
    ∃ c, ch = some c ∧
      (CompressionHeader.ep.parse f.ehdr.little f.ehdr.cls (fileRange f sh.sh_offset sh.sh_size) 0).1 = .ok c := by
  intro csz
  unfold ElfBytes.sectionData at h
  simp only [hnb, if_false, dataRange_eq] at h
  by_cases h1 : sh.sh_offset + sh.sh_size < USZ
  · simp only [h1, if_true, Out.bind, getBytes_eq] at h
    by_cases h2 : sh.sh_offset + sh.sh_size ≤ f.data.len
    · simp only [h2, if_true, hc, if_false] at h
      generalize hp : CompressionHeader.ep.parse f.ehdr.little f.ehdr.cls
        ⟨f.data.buf, f.data.start + sh.sh_offset, f.data.start + (sh.sh_offset + sh.sh_size)⟩ 0 = r at h
      obtain ⟨r1, r2⟩ := r
      cases r1 with
      | panic => simp at h
      | err e => simp at h
      | ok c =>
        have hs := EntryParser.parse_ok_shape CompressionHeader.ep f.ehdr.little f.ehdr.cls
          (by cases f.ehdr.cls <;> decide) _ 0 c r2 hp
        simp only at h
        unfold Slice.getFrom? Out.ofOption at h
        have hlen : (⟨f.data.buf, f.data.start + sh.sh_offset,
            f.data.start + (sh.sh_offset + sh.sh_size)⟩ : Slice).len = sh.sh_size := by
          simp [Slice.len]; omega
        rw [hlen] at h hs
        obtain ⟨hs1, hs2, _⟩ := hs
        simp only [Nat.zero_add] at hs1 hs2
        subst hs2
        simp only [hs1, if_true] at h
        injection h with h
        injection h with hw hch
        refine ⟨h2, hs1, ?_, c, hch.symm, ?_⟩
        · rw [← hw]
        · unfold fileRange; rw [hp]
    · simp [h2] at h
  · simp [h1, Out.bind] at h

/-- **Segment data is exactly `[p_offset, p_offset + p_filesz)`, or an error.** -/
theorem segment_data_eq (f : ElfBytes) (ph : ProgramHeader) :
    f.segmentData ph =
      if ph.p_offset + ph.p_filesz < USZ then
        if ph.p_offset + ph.p_filesz ≤ f.data.len then .ok (fileRange f ph.p_offset ph.p_filesz)
        else .err (.SliceReadError ph.p_offset (ph.p_offset + ph.p_filesz))
      else .err .IntegerOverflow := by
  unfold ElfBytes.segmentData
  simp only [dataRange_eq]
  by_cases h1 : ph.p_offset + ph.p_filesz < USZ
  · simp only [h1, if_true, Out.bind, getBytes_eq]
    by_cases h2 : ph.p_offset + ph.p_filesz ≤ f.data.len <;> simp [h2, fileRange]
  · simp [h1, Out.bind]

/-- `p_memsz` plays no part in what bytes a segment yields. -/
theorem segment_data_ignores_memsz (f : ElfBytes) (ph : ProgramHeader) (m : Nat) :
    f.segmentData { ph with p_memsz := m } = f.segmentData ph := rfl

/-- Typed views hand out the section's own window. -/
theorem strtab_view_is_section_data (f : ElfBytes) (sh : SectionHeader) (w : Slice)
    (h : f.sectionDataAsStrtab sh = .ok w) : ∃ ch, f.sectionData sh = .ok (w, ch) := by
  unfold ElfBytes.sectionDataAsStrtab ElfBytes.typedSection at h
  split at h
  · simp at h
  · cases hd : f.sectionData sh with
    | ok r => simp [hd, Out.bind] at h; exact ⟨r.2, by rw [← h]⟩
    | err e => simp [hd, Out.bind] at h
    | panic => simp [hd, Out.bind] at h

theorem notes_view_is_section_data (f : ElfBytes) (sh : SectionHeader) (it : NoteIter)
    (h : f.sectionDataAsNotes sh = .ok it) :
    (∃ ch, f.sectionData sh = .ok (it.data, ch)) ∧ it.offset = 0 ∧ it.align = sh.sh_addralign ∧
      sh.sh_type = Abi.SHT_NOTE := by
  unfold ElfBytes.sectionDataAsNotes ElfBytes.typedSection at h
  split at h
  · simp [Out.bind] at h
  · rename_i hty
    cases hd : f.sectionData sh with
    | ok r =>
      simp [hd, Out.bind] at h; subst h
      exact ⟨⟨r.2, rfl⟩, rfl, rfl, by simpa using hty⟩
    | err e => simp [hd, Out.bind] at h
    | panic => simp [hd, Out.bind] at h

/-- String-table entries are sub-windows of the table at the requested offset (see also C15). -/
theorem strtab_entry_provenance (t : Slice) (off : Nat) (w : Slice) (h : strGetRaw t off = .ok w) :
    w.buf = t.buf ∧ w.start = t.start + off := by
  unfold strGetRaw Slice.getFrom? at h
  split at h
  · simp at h
  · split at h
    · simp at h
    · rename_i s hs
      split at hs
      · injection hs with hs; subst hs
        split at h
        · simp at h
        · simp at h; subst h; simp
      · cases hs

/- Non-vacuity: a 64-byte ELF64 header followed by data; section [70, 74) of an 80-byte file. -/
example : (fileRange ⟨default, Slice.ofArray (Array.replicate 80 0), none, none⟩ 70 4).len = 4 := by decide

/-! ### notes: names, descriptors and build-ids are windows of the section / segment bytes -/

/-- **The name and descriptor of the record at `off` are exactly the ABI-designated sub-windows of the
    note section's (or segment's) window `d`** — same buffer, `name = [off+12, off+12+namesz)`,
    `desc = [pad(off+12+namesz), … + descsz)`, both inside `d`; never a copy, never clamped. -/
theorem note_windows (le : Bool) (align : Nat) (d : Slice) (off ntype : Nat) (name desc : Slice) (nx : Nat)
    (h : C14.recordAt le align d off = some (ntype, name, desc, nx)) :
    let namesz := decode le d off 4
    let descsz := decode le d (off + 4) 4
    let descStart := C14.padUp align (off + 12 + namesz)
    name = ⟨d.buf, d.start + (off + 12), d.start + (off + 12 + namesz)⟩ ∧
    desc = ⟨d.buf, d.start + descStart, d.start + (descStart + descsz)⟩ ∧
    off + 12 + namesz ≤ d.len ∧ descStart + descsz ≤ d.len ∧ ntype = decode le d (off + 8) 4 := by
  unfold C14.recordAt at h
  split at h
  · dsimp only at h
    split at h
    · rename_i hc
      injection h with h
      simp only [Prod.mk.injEq] at h
      obtain ⟨h1, h2, h3, _⟩ := h
      exact ⟨h2.symm, h3.symm, hc.1, hc.2.1, h1.symm⟩
    · cases h
  · cases h

/-- the typed reading hands out those very windows: a build-id is the descriptor window, an untyped
    note carries the name and descriptor windows, an ABI tag is the four words decoded from the
    descriptor window -/
theorem typed_note_windows (le : Bool) (cls : Class) (ntype : Nat) (name desc : Slice) (n : Note)
    (h : C14.typeNote le cls ntype name desc = .ok n) :
    n = .gnuBuildId desc ∨ n = .unknown ntype name desc ∨
    ∃ t, n = .gnuAbiTag t ∧ (NoteGnuAbiTag.ep.parse le cls desc 0).1 = .ok t := by
  unfold C14.typeNote at h
  split at h
  · split at h
    · cases hp : (NoteGnuAbiTag.ep.parse le cls desc 0).1 with
      | ok t => rw [hp] at h; injection h with h; exact Or.inr (Or.inr ⟨t, h.symm, rfl⟩)
      | err e => rw [hp] at h; cases h
      | panic => rw [hp] at h; cases h
    · split at h
      · injection h with h; exact Or.inl h.symm
      · injection h with h; exact Or.inr (Or.inl h.symm)
  · injection h with h; exact Or.inr (Or.inl h.symm)

end Elf.C03
