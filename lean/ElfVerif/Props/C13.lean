/-
  Props/C13 — GNU symbol-version queries resolve to the right requirement / definition.
-/
import ElfVerif.Lemmas.AccVersion
import ElfVerif.Props.C09
import ElfVerif.Props.C16
import ElfVerif.Lemmas.SymVerComplete
import ElfVerif.Lemmas.SymVerEnc
namespace Elf.C13

/-- what `findAux` returns is an aux record of the iterated chain with the wanted index -/
theorem find_aux_index (idx fuel : Nat) (it : VerIter) (vna : VerNeedAux)
    (h : findAux idx fuel it = .ok (some vna)) : vna.vna_other = idx := by
  induction fuel generalizing it with
  | zero => simp [findAux] at h
  | succ n ih =>
    unfold findAux at h
    generalize verNeedAuxNext it = r at h
    obtain ⟨r1, r2⟩ := r
    cases r1 with
    | panic => simp at h
    | err e => simp at h
    | ok o =>
      cases o with
      | none => simp at h
      | some a =>
        simp only at h
        split at h
        · rename_i hi; simp at h; rw [← h]; exact hi
        · exact ih r2 h

/-- **A requirement returned for symbol `i` is built from a Verneed record `vn` and an aux record
    `vna` of its chain with `vna_other = versym[i] & 0x7fff`**: file = string at `vn_file`, name =
    string at `vna_name`, hash = `vna_hash`, flags = `vna_flags`, hidden = bit 15 of `versym[i]`. -/
theorem req_loop_spec (strs : Slice) (verNdx fuel : Nat) (it : VerIter) (r : SymbolRequirement)
    (h : reqLoop strs verNdx fuel it = .ok (some r)) :
    ∃ (vn : VerNeed) (vna : VerNeedAux),
      vna.vna_other = VersionIndex.index verNdx ∧
      strGet strs vn.vn_file = .ok r.file ∧ strGet strs vna.vna_name = .ok r.name ∧
      r.hash = vna.vna_hash ∧ r.flags = vna.vna_flags ∧ r.hidden = VersionIndex.isHidden verNdx := by
  induction fuel generalizing it with
  | zero => simp [reqLoop] at h
  | succ n ih =>
    unfold reqLoop at h
    generalize verNeedNext it = q at h
    obtain ⟨q1, q2⟩ := q
    cases q1 with
    | panic => simp at h
    | err e => simp at h
    | ok o =>
      cases o with
      | none => simp at h
      | some p =>
        obtain ⟨vn, vnaIt⟩ := p
        simp only at h
        cases hf : findAux (VersionIndex.index verNdx) (vnaIt.count + 1) vnaIt with
        | panic => simp [hf] at h
        | err e => simp [hf] at h
        | ok o2 =>
          cases o2 with
          | none => simp only [hf] at h; exact ih q2 h
          | some vna =>
            simp only [hf] at h
            cases h1 : strGet strs vn.vn_file with
            | panic => simp [h1, Out.bind] at h
            | err e => simp [h1, Out.bind] at h
            | ok file =>
              cases h2 : strGet strs vna.vna_name with
              | panic => simp [h1, h2, Out.bind] at h
              | err e => simp [h1, h2, Out.bind] at h
              | ok nm =>
                simp [h1, h2, Out.bind] at h
                subst h
                exact ⟨vn, vna, find_aux_index _ _ _ _ hf, h1, h2, rfl, rfl, rfl⟩

theorem get_requirement_spec (t : SymbolVersionTable) (i : Nat) (r : SymbolRequirement)
    (h : t.getRequirement i = .ok (some r)) :
    ∃ (verNdx : Nat) (vn : VerNeed) (vna : VerNeedAux) (strs : Slice) (it : VerIter),
      t.verneeds = some (it, strs) ∧ t.versionIds.get i = .ok verNdx ∧
      vna.vna_other = verNdx % 2 ^ 15 ∧ strGet strs vn.vn_file = .ok r.file ∧
      strGet strs vna.vna_name = .ok r.name ∧ r.hash = vna.vna_hash ∧ r.flags = vna.vna_flags ∧
      r.hidden = VersionIndex.isHidden verNdx := by
  unfold SymbolVersionTable.getRequirement at h
  split at h
  · simp at h
  · rename_i it strs hn
    cases hv : t.versionIds.get i with
    | panic => simp [hv, Out.bind] at h
    | err e => simp [hv, Out.bind] at h
    | ok verNdx =>
      simp only [hv, Out.bind] at h
      obtain ⟨vn, vna, h1, h2, h3, h4, h5, h6⟩ := req_loop_spec strs verNdx _ it r h
      refine ⟨verNdx, vn, vna, strs, it, hn, rfl, ?_, h2, h3, h4, h5, h6⟩
      rw [h1]; exact VersionIndex.index_eq verNdx

/-- **A definition returned for symbol `i` comes from a Verdef record with
    `vd_ndx = versym[i] & 0x7fff`**; its names iterator is that record's aux chain. -/
theorem def_loop_spec (strs : Slice) (verNdx fuel : Nat) (it : VerIter) (r : SymbolDefinition)
    (h : defLoop strs verNdx fuel it = .ok (some r)) :
    ∃ (vd : VerDef), vd.vd_ndx = VersionIndex.index verNdx ∧ r.hash = vd.vd_hash ∧
      r.flags = vd.vd_flags ∧ r.hidden = VersionIndex.isHidden verNdx ∧ r.strtab = strs ∧
      r.names.count = vd.vd_cnt := by
  induction fuel generalizing it with
  | zero => simp [defLoop] at h
  | succ n ih =>
    unfold defLoop at h
    generalize hq : verDefNext it = q at h
    obtain ⟨q1, q2⟩ := q
    cases q1 with
    | panic => simp at h
    | err e => simp at h
    | ok o =>
      cases o with
      | none => simp at h
      | some p =>
        obtain ⟨vd, vdaIt⟩ := p
        simp only at h
        split at h
        · exact ih q2 h
        · rename_i hne
          simp at h; subst h
          refine ⟨vd, by simpa using hne, rfl, rfl, rfl, rfl, ?_⟩
          -- the aux iterator handed out carries the record's own count
          unfold verDefNext VerIter.nextRec at hq
          split at hq
          · simp at hq
          · split at hq
            · simp at hq
            · simp at hq
            · split at hq
              · simp at hq
              · simp at hq
              · split at hq
                · simp at hq
                  obtain ⟨⟨h1, h2⟩, _⟩ := hq
                  rw [← h2, ← h1]
                · simp at hq
                · simp at hq

/-- **Symbol indexes beyond the versym table never give a record** (for tables over the generated
    `VersionIndex` entry program, as `symbol_version_table` builds them). -/
theorem beyond_versym (t : SymbolVersionTable) (hep : t.versionIds.ep = VersionIndex.ep)
    (hwf : t.versionIds.data.len < 2 ^ 63) (i : Nat) (hi : t.versionIds.len ≤ i) :
    (∀ r, t.getRequirement i ≠ .ok (some r)) ∧ (∀ r, t.getDefinition i ≠ .ok (some r)) := by
  have hr : C09.Regular t.versionIds.ep t.versionIds.cls := by rw [hep]; exact C09.regular_VersionIndex _
  have hno : ¬ ∃ a, t.versionIds.get i = .ok a := by
    rw [C09.get_ok_iff t.versionIds hr hwf i]; omega
  constructor
  · intro r h
    unfold SymbolVersionTable.getRequirement at h
    split at h
    · simp at h
    · cases hv : t.versionIds.get i with
      | ok v => exact hno ⟨v, hv⟩
      | err e => simp [hv, Out.bind] at h
      | panic => simp [hv, Out.bind] at h
  · intro r h
    unfold SymbolVersionTable.getDefinition at h
    split at h
    · simp at h
    · cases hv : t.versionIds.get i with
      | ok v => exact hno ⟨v, hv⟩
      | err e => simp [hv, Out.bind] at h
      | panic => simp [hv, Out.bind] at h

/-- No VERNEED / VERDEF section: no requirement / definition. -/
theorem no_section_no_record (t : SymbolVersionTable) (i : Nat) :
    (t.verneeds = none → t.getRequirement i = .ok none) ∧
    (t.verdefs = none → t.getDefinition i = .ok none) := by
  constructor <;> intro h
  · unfold SymbolVersionTable.getRequirement; simp [h]
  · unfold SymbolVersionTable.getDefinition; simp [h]

/-- The version table of a file: versym's `sh_link`/`sh_info` wiring — the Verneed/Verdef
    iterators start at offset 0 of their sections with `sh_info` as the record count, and their
    strings come from the section at `sh_link`. -/
theorem ver_records_wiring (f : ElfBytes) (shdrs : Table SectionHeader) (sh : SectionHeader)
    (it : VerIter) (strs : Slice) (h : f.verRecords shdrs (some sh) = .ok (some (it, strs))) :
    it.offset = 0 ∧ it.count = sh.sh_info ∧ it.little = f.ehdr.little ∧ it.cls = f.ehdr.cls ∧
    (∃ r, dataRange sh.sh_offset sh.sh_size = .ok r ∧ f.data.getBytes r.1 r.2 = .ok it.data) ∧
    (∃ ss r2, shdrs.get sh.sh_link = .ok ss ∧ dataRange ss.sh_offset ss.sh_size = .ok r2 ∧
      f.data.getBytes r2.1 r2.2 = .ok strs) := by
  unfold ElfBytes.verRecords at h
  cases hr : dataRange sh.sh_offset sh.sh_size with
  | panic => simp [hr, Out.bind] at h
  | err e => simp [hr, Out.bind] at h
  | ok r =>
    cases hb : f.data.getBytes r.1 r.2 with
    | panic => simp [hr, hb, Out.bind] at h
    | err e => simp [hr, hb, Out.bind] at h
    | ok buf =>
      cases hs : shdrs.get sh.sh_link with
      | panic => simp [hr, hb, hs, Out.bind] at h
      | err e => simp [hr, hb, hs, Out.bind] at h
      | ok ss =>
        cases hr2 : dataRange ss.sh_offset ss.sh_size with
        | panic => simp [hr, hb, hs, hr2, Out.bind] at h
        | err e => simp [hr, hb, hs, hr2, Out.bind] at h
        | ok r2 =>
          cases hsb : f.data.getBytes r2.1 r2.2 with
          | panic => simp [hr, hb, hs, hr2, hsb, Out.bind] at h
          | err e => simp [hr, hb, hs, hr2, hsb, Out.bind] at h
          | ok sb =>
            simp [hr, hb, hs, hr2, hsb, Out.bind] at h
            obtain ⟨h1, h2⟩ := h
            subst h1 h2
            exact ⟨rfl, rfl, rfl, rfl, ⟨r, rfl, hb⟩, ⟨ss, r2, rfl, hr2, hsb⟩⟩

/-! ## Completeness on well-formed chains, in any forward layout

  `NeedChain` / `RecChain` / `AuxChain` (Lemmas/SymVerComplete.lean) say what a well-formed
  `.gnu.version_r` / `.gnu.version_d` section is: `sh_info` records, each readable at its offset,
  linked by `vn_next`/`vd_next` (non-zero except possibly on the last), each pointing to its
  auxiliary chain by `vn_aux`/`vd_aux` with `vn_cnt`/`vd_cnt` entries linked by `vna_next`/`vda_next`.
  Nothing is assumed about where the records lie relative to each other — interleaved, all headers
  first, gaps, out of order — only that the offsets stay below 2^64. -/

/-- **Requirement**: on a well-formed Verneed chain the answer for symbol `i` is the first auxiliary
    record in traversal order whose `vna_other` equals the low 15 bits of `versym[i]` — file from its
    Verneed record, name/hash/flags from the aux record, hidden = bit 15 — and `None` when no record
    has that index (local 0 / global 1 included). -/
theorem get_requirement_complete (t : SymbolVersionTable) (i verNdx : Nat) (strs : Slice)
    (le : Bool) (cls : Class) (data : Slice) (count : Nat) (recs : List (VerNeed × List VerNeedAux))
    (hv : t.verneeds = some (⟨le, cls, count, data, 0⟩, strs)) (hne : data.isEmpty = false)
    (hidx : t.versionIds.get i = .ok verNdx)
    (hc : NeedChain le cls data count 0 recs) :
    t.getRequirement i =
      match firstReq (verNdx % 2 ^ 15) recs with
      | none => .ok none
      | some (vn, vna) =>
        (strGet strs vn.vn_file).bind fun file =>
        (strGet strs vna.vna_name).bind fun name =>
        .ok (some ⟨file, name, vna.vna_hash, vna.vna_flags, VersionIndex.isHidden verNdx⟩) := by
  have hix : VersionIndex.index verNdx = verNdx % 2 ^ 15 := VersionIndex.index_eq verNdx
  unfold SymbolVersionTable.getRequirement
  rw [hv]
  show (t.versionIds.get i).bind _ = _
  rw [hidx]
  show reqLoop strs verNdx (count + 1) ⟨le, cls, count, data, 0⟩ = _
  rw [← hix]
  exact reqLoop_complete strs verNdx le cls data hne count 0 (count + 1) recs hc (by omega)

/-- **Definition**: on a well-formed Verdef chain the answer for symbol `i` is the first definition
    in traversal order with `vd_ndx` = low 15 bits of `versym[i]` (hash, flags, hidden = bit 15),
    and its names iterator is that record's aux chain; `None` when no definition has that index. -/
theorem get_definition_complete (t : SymbolVersionTable) (i verNdx : Nat) (strs : Slice)
    (le : Bool) (cls : Class) (data : Slice) (count : Nat) (recs : List (VerDef × VerIter))
    (hv : t.verdefs = some (⟨le, cls, count, data, 0⟩, strs)) (hne : data.isEmpty = false)
    (hidx : t.versionIds.get i = .ok verNdx)
    (hc : RecChain VerDef.ep VerDef.vd_cnt VerDef.vd_aux VerDef.vd_next le cls data count 0 recs) :
    t.getDefinition i =
      .ok ((firstDef (verNdx % 2 ^ 15) recs).map fun x =>
        ⟨x.1.vd_hash, x.1.vd_flags, x.2, strs, VersionIndex.isHidden verNdx⟩) := by
  have hix : VersionIndex.index verNdx = verNdx % 2 ^ 15 := VersionIndex.index_eq verNdx
  unfold SymbolVersionTable.getDefinition
  rw [hv]
  show (t.versionIds.get i).bind _ = _
  rw [hidx]
  show defLoop strs verNdx (count + 1) ⟨le, cls, count, data, 0⟩ = _
  rw [← hix]
  exact defLoop_complete strs verNdx le cls data hne count 0 (count + 1) recs hc (by omega)

/-- **Ordered names**: the names of a definition are the strings at `vda_name` of its aux chain, in
    chain order. -/
theorem definition_names_complete (d : SymbolDefinition) (le : Bool) (cls : Class) (data : Slice)
    (count off : Nat) (auxs : List VerDefAux)
    (hn : d.names = ⟨le, cls, count, data, off⟩) (hne : data.isEmpty = false)
    (hc : AuxChain VerDefAux.ep VerDefAux.vda_next le cls data count off auxs) :
    d.collectNames = .ok (auxs.map fun a => strGet d.strtab a.vda_name) := by
  unfold SymbolDefinition.collectNames VerIter.collectAux
  rw [hn]
  have := drainAux_complete VerDefAux.ep VerDefAux.vda_next le cls data hne count off (count + 1) auxs [] hc (by omega)
  generalize drainFuel (VerIter.nextAux VerDefAux.ep VerDefAux.vda_next) (count + 1) ⟨le, cls, count, data, off⟩ [] = q at this
  obtain ⟨q1, q2⟩ := q
  simp only at this
  subst this
  simp

/-- no matching record ⇒ `None` (corollaries) -/
theorem requirement_absent (t : SymbolVersionTable) (i verNdx : Nat) (strs : Slice)
    (le : Bool) (cls : Class) (data : Slice) (count : Nat) (recs : List (VerNeed × List VerNeedAux))
    (hv : t.verneeds = some (⟨le, cls, count, data, 0⟩, strs)) (hne : data.isEmpty = false)
    (hidx : t.versionIds.get i = .ok verNdx) (hc : NeedChain le cls data count 0 recs)
    (habs : firstReq (verNdx % 2 ^ 15) recs = none) : t.getRequirement i = .ok none := by
  rw [get_requirement_complete t i verNdx strs le cls data count recs hv hne hidx hc, habs]

theorem definition_absent (t : SymbolVersionTable) (i verNdx : Nat) (strs : Slice)
    (le : Bool) (cls : Class) (data : Slice) (count : Nat) (recs : List (VerDef × VerIter))
    (hv : t.verdefs = some (⟨le, cls, count, data, 0⟩, strs)) (hne : data.isEmpty = false)
    (hidx : t.versionIds.get i = .ok verNdx)
    (hc : RecChain VerDef.ep VerDef.vd_cnt VerDef.vd_aux VerDef.vd_next le cls data count 0 recs)
    (habs : firstDef (verNdx % 2 ^ 15) recs = none) : t.getDefinition i = .ok none := by
  rw [get_definition_complete t i verNdx strs le cls data count recs hv hne hidx hc, habs]; rfl

/- Non-vacuity: a 28-byte `.gnu.version_d` (one Verdef with `vd_ndx = 2`, `vd_cnt = 1`, `vd_aux = 20`,
   one Verdaux) is a `RecChain` with an `AuxChain`. -/
def exDefs : Slice := Slice.ofArray #[1,0, 0,0, 2,0, 1,0, 0x34,0x12,0,0, 20,0,0,0, 0,0,0,0,  1,0,0,0, 0,0,0,0]
example : RecChain VerDef.ep VerDef.vd_cnt VerDef.vd_aux VerDef.vd_next true .ELF64 exDefs 1 0
    [(⟨0, 2, 1, 0x1234, 20, 0⟩, ⟨true, .ELF64, 1, exDefs, 20⟩)] :=
  RecChain.step 0 0 (⟨0, 2, 1, 0x1234, 20, 0⟩ : VerDef) [] (by decide) (by decide) (by decide) (Or.inl rfl) (RecChain.done _)
example : AuxChain VerDefAux.ep VerDefAux.vda_next true .ELF64 exDefs 1 20 [⟨1, 0⟩] :=
  AuxChain.step 0 20 (⟨1, 0⟩ : VerDefAux) [] (by decide) (by decide) (Or.inl rfl) (AuxChain.done _)

/-! ## From the bytes: sections laid out per the GNU ABI

  `EncNeeds` / `EncDefs` / `EncDefAuxs` (Lemmas/SymVerEnc.lean) are stated on the bytes: at each record's
  offset the window holds the ABI encoding of the record's fields (revision word 1, 16- and 32-bit fields
  in the file's byte order), records are linked by their `next` offsets and point to their auxiliary
  chain by `aux`, in any forward layout.  With C02's structure-level round trip these imply the chain
  predicates above, so the completeness theorems hold for every such byte layout. -/

/-- **Requirement, from the bytes**: for a `.gnu.version_r` whose bytes are `count` Verneed records and
    their Vernaux chains laid out per the GNU ABI, the answer for symbol `i` is the first auxiliary
    record in traversal order with `vna_other = versym[i] mod 2^15`, `None` if there is none. -/
theorem requirement_on_abi_layout (t : SymbolVersionTable) (i verNdx : Nat) (strs : Slice)
    (le : Bool) (cls : Class) (data : Slice) (count : Nat) (recs : List (VerNeed × List VerNeedAux))
    (hv : t.verneeds = some (⟨le, cls, count, data, 0⟩, strs)) (hne : data.isEmpty = false)
    (hlen : data.len < 2 ^ 63) (hidx : t.versionIds.get i = .ok verNdx)
    (hb : EncNeeds le data count 0 recs) :
    t.getRequirement i =
      match firstReq (verNdx % 2 ^ 15) recs with
      | none => .ok none
      | some (vn, vna) =>
        (strGet strs vn.vn_file).bind fun file =>
        (strGet strs vna.vna_name).bind fun name =>
        .ok (some ⟨file, name, vna.vna_hash, vna.vna_flags, VersionIndex.isHidden verNdx⟩) :=
  get_requirement_complete t i verNdx strs le cls data count recs hv hne hidx (hb.toChain cls hlen)

/-- **Definition, from the bytes**: for a `.gnu.version_d` whose bytes are `count` Verdef records laid
    out per the GNU ABI, the answer for symbol `i` is the first definition in traversal order with
    `vd_ndx = versym[i] mod 2^15` (hash, flags, hidden bit, aux iterator at `vd_aux`), `None` if none. -/
theorem definition_on_abi_layout (t : SymbolVersionTable) (i verNdx : Nat) (strs : Slice)
    (le : Bool) (cls : Class) (data : Slice) (count : Nat) (recs : List (VerDef × VerIter))
    (hv : t.verdefs = some (⟨le, cls, count, data, 0⟩, strs)) (hne : data.isEmpty = false)
    (hlen : data.len < 2 ^ 63) (hidx : t.versionIds.get i = .ok verNdx)
    (hb : EncDefs le cls data count 0 recs) :
    t.getDefinition i =
      .ok ((firstDef (verNdx % 2 ^ 15) recs).map fun x =>
        ⟨x.1.vd_hash, x.1.vd_flags, x.2, strs, VersionIndex.isHidden verNdx⟩) :=
  get_definition_complete t i verNdx strs le cls data count recs hv hne hidx (hb.toChain hlen)

/-- **Ordered names, from the bytes**: the names of a definition whose Verdaux records are laid out per
    the GNU ABI are the strings at their `vda_name`, in chain order. -/
theorem definition_names_on_abi_layout (d : SymbolDefinition) (le : Bool) (cls : Class) (data : Slice)
    (count off : Nat) (auxs : List VerDefAux)
    (hn : d.names = ⟨le, cls, count, data, off⟩) (hne : data.isEmpty = false) (hlen : data.len < 2 ^ 63)
    (hb : EncDefAuxs le data count off auxs) :
    d.collectNames = .ok (auxs.map fun a => strGet d.strtab a.vda_name) :=
  definition_names_complete d le cls data count off auxs hn hne (hb.toChain cls hlen)

/- Non-vacuity: the 28 example bytes are such a layout. -/
example : EncDefs true .ELF64 exDefs 1 0 [(⟨0, 2, 1, 0x1234, 20, 0⟩, ⟨true, .ELF64, 1, exDefs, 20⟩)] :=
  EncDefs.step 0 0 (⟨0, 2, 1, 0x1234, 20, 0⟩ : VerDef) [] (by decide) (by unfold VerDef.InRange; decide)
    (by simp [encDef, C02.encodeFields, C04.encodeLE, C04.HoldsAt, Ty.width, Slice.byte, exDefs, Slice.ofArray])
    (Or.inl rfl) (EncDefs.done _)
example : EncDefAuxs true exDefs 1 20 [⟨1, 0⟩] :=
  EncDefAuxs.step 0 20 (⟨1, 0⟩ : VerDefAux) [] (by decide) (by unfold VerDefAux.InRange; decide)
    (by simp [encDefAux, C02.encodeFields, C04.encodeLE, C04.HoldsAt, Ty.width, Slice.byte, exDefs, Slice.ofArray])
    (Or.inl rfl) (EncDefAuxs.done _)

end Elf.C13
