/-
  Props/C12 — SysV hash lookup is sound on any table (and complete on well-formed ones).
-/
import ElfVerif.Lemmas.Hash
namespace Elf.C12

/-- **Soundness, for any table bytes**: if a lookup returns `(i, sym)` then `sym` is the symbol
    table entry at index `i` and its name — the NUL-terminated string at `st_name` — has exactly the
    queried bytes. -/
theorem find_sound (t : SysVHashTable) (name : Slice) (symtab : Table Symbol) (strtab : Slice)
    (r : Nat × Symbol) (h : t.find name symtab strtab = .ok (some r)) :
    symtab.get r.1 = .ok r.2 ∧
    ∃ w, strGetRaw strtab r.2.st_name = .ok w ∧ w.len = name.len ∧ ∀ j, j < w.len → w.byte j = name.byte j := by
  unfold SysVHashTable.find SysVHashTable.findSteps at h
  split at h
  · simp at h
  · cases hm : umod (sysvHash name) t.buckets.len with
    | panic => simp [hm] at h
    | err e => simp [hm] at h
    | ok start =>
      simp only [hm] at h
      cases hg : t.buckets.get start with
      | panic => simp [hg] at h
      | err e => simp [hg] at h
      | ok index =>
        simp only [hg] at h
        obtain ⟨h1, w, h2, h3⟩ := sysvLoop_sound t name symtab strtab _ index 0 r h
        exact ⟨h1, w, h2, (Slice.beqBytes_iff w name).mp h3⟩

/-- An empty bucket array means "not found" (and no division by zero). -/
theorem find_empty (t : SysVHashTable) (name : Slice) (symtab : Table Symbol) (strtab : Slice)
    (h : t.buckets.len = 0) : t.find name symtab strtab = .ok none := by
  unfold SysVHashTable.find SysVHashTable.findSteps
  simp [Table.isEmpty, h]

/-- The walk makes at most `nchain` chain steps (see C16). -/
theorem steps_le_nchain (t : SysVHashTable) (name : Slice) (symtab : Table Symbol) (strtab : Slice)
    (fuel index steps : Nat) : (sysvLoop t name symtab strtab fuel index steps).2 ≤ steps + fuel := by
  induction fuel generalizing index steps with
  | zero => simp [sysvLoop]
  | succ n ih =>
    unfold sysvLoop
    split
    · simp
    · split
      · simp
      · simp
      · split
        · simp
        · simp
        · split
          · simp
          · split
            · simp
            · simp
            · rename_i nxt _; have := ih nxt (steps + 1); omega

/- Non-vacuity: nbucket=1, nchain=2, bucket[0]=1, chain=[0,0]; symbol 1 named "a" -/
example :
    (match SysVHashTable.new true .ELF32 (Slice.ofArray #[1,0,0,0, 2,0,0,0, 1,0,0,0, 0,0,0,0, 0,0,0,0]) with
     | .ok t => (t.find (Slice.ofArray #[97])
         (symTable true .ELF32 (Slice.ofArray #[0,0,0,0, 0,0,0,0, 0,0,0,0, 0,0,0,0,
                                                  1,0,0,0, 0,0,0,0, 0,0,0,0, 0x12,0,1,0]))
         (Slice.ofArray #[0, 97, 0])).isOk
     | _ => false) = true := by decide

end Elf.C12
