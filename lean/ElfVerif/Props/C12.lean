/-
  Props/C12 — SysV hash lookup is sound on any table (and complete on well-formed ones).
-/
import ElfVerif.Lemmas.Hash
import ElfVerif.Lemmas.SysVHash
import ElfVerif.Lemmas.SysVComplete
import ElfVerif.Lemmas.SysVBuild
namespace Elf.C12

/-- **Soundness, for any table bytes**: if a lookup returns `(i, sym)` then `sym` is the symbol
    table entry at index `i` and its name — the NUL-terminated string at `st_name` — has exactly the
    queried bytes. -/
theorem find_sound (t : SysVHashTable) (name : Slice) (symtab : Table Symbol) (strtab : Slice)
    (r : Nat × Symbol) (h : t.find name symtab strtab = .ok (some r)) :
    symtab.get r.1 = .ok r.2 ∧
    ∃ w, strGetRaw strtab r.2.st_name = .ok w ∧ w.len = name.len ∧ ∀ j, j < w.len → w.byte j = name.byte j := by
  unfold SysVHashTable.find SysVHashTable.findSteps at h
  split at h
  · simp at h
  · cases hm : umod (sysvHash name) t.buckets.len with
    | panic => simp [hm] at h
    | err e => simp [hm] at h
    | ok start =>
      simp only [hm] at h
      cases hg : t.buckets.get start with
      | panic => simp [hg] at h
      | err e => simp [hg] at h
      | ok index =>
        simp only [hg] at h
        obtain ⟨h1, w, h2, h3⟩ := sysvLoop_sound t name symtab strtab _ index 0 r h
        exact ⟨h1, w, h2, (Slice.beqBytes_iff w name).mp h3⟩

/-- An empty bucket array means "not found" (and no division by zero). -/
theorem find_empty (t : SysVHashTable) (name : Slice) (symtab : Table Symbol) (strtab : Slice)
    (h : t.buckets.len = 0) : t.find name symtab strtab = .ok none := by
  unfold SysVHashTable.find SysVHashTable.findSteps
  simp [Table.isEmpty, h]

/-- The walk makes at most `nchain` chain steps (see C16). -/
theorem steps_le_nchain (t : SysVHashTable) (name : Slice) (symtab : Table Symbol) (strtab : Slice)
    (fuel index steps : Nat) : (sysvLoop t name symtab strtab fuel index steps).2 ≤ steps + fuel := by
  induction fuel generalizing index steps with
  | zero => simp [sysvLoop]
  | succ n ih =>
    unfold sysvLoop
    split
    · simp
    · split
      · simp
      · simp
      · split
        · simp
        · simp
        · split
          · simp
          · split
            · simp
            · simp
            · rename_i nxt _; have := ih nxt (steps + 1); omega

/-! ## The exported hash function -/

/-- **`sysv_hash` equals the gABI `elf_hash` reference** (`h = (h << 4) + c; if (g = h & 0xf0000000)
    h ^= g >> 24; h &= ~g` on a 32-bit word), for every byte string.  The crate computes it with a
    different round (`h ^= (h >> 24) & 0xf0`, top nibble cleared once at the end); the proof is the
    invariant "reference state = crate state mod 2^28" (Lemmas/SysVHash.lean). -/
theorem hash_eq_elf_hash (name : Slice) : sysvHash name = elfHash name := sysv_hash_eq_elf_hash name

/-! ## Completeness on well-formed tables

  `WFSysV t symtab strtab`: `nbucket ≠ 0`, and every bucket holds the head of a chain
  (`SysVChain`: non-zero indices whose symbol, name and chain entry are readable, ending at index 0)
  no longer than `nchain`.  This is what a `.hash` section built per the gABI for a symbol table
  satisfies; the correspondence harness's builder emits exactly such tables (and the harness's
  oracle checks the built tables against an independent lookup). -/

/-- **On a well-formed table the lookup is the first symbol with the queried name on the chain of
    the name's bucket** (bucket index = `elf_hash(name) mod nbucket`). -/
theorem find_wf (t : SysVHashTable) (name : Slice) (symtab : Table Symbol) (strtab : Slice)
    (hw : WFSysV t symtab strtab) :
    ∃ start path, t.buckets.get (sysvHash name % t.buckets.len) = .ok start ∧
      SysVChain t symtab strtab start path ∧
      t.find name symtab strtab = .ok (firstNamed name path) :=
  sysv_find_wf t name symtab strtab hw

/-- **Finds every symbol by name**: a symbol that sits on the chain of its name's bucket is found —
    the answer is a symbol on that chain whose name has the queried bytes (the first such, when
    several symbols share the name). -/
theorem find_complete (t : SysVHashTable) (name : Slice) (symtab : Table Symbol) (strtab : Slice)
    (hw : WFSysV t symtab strtab) (start : Nat) (path : List (Nat × Symbol × Slice))
    (hb : t.buckets.get (sysvHash name % t.buckets.len) = .ok start)
    (hp : SysVChain t symtab strtab start path)
    (i : Nat) (sym : Symbol) (w : Slice) (hm : (i, sym, w) ∈ path) (hn : w.beqBytes name = true) :
    ∃ j s, t.find name symtab strtab = .ok (some (j, s)) ∧
      ∃ w', (j, s, w') ∈ path ∧ w'.beqBytes name = true := by
  obtain ⟨start', path', h1, h2, h3⟩ := sysv_find_wf t name symtab strtab hw
  rw [hb] at h1; injection h1 with h1; subst h1
  have hpe : path' = path := SysVChain.unique h2 hp
  subst hpe
  obtain ⟨j, s, hf, hw'⟩ := firstNamed_some name path' i sym w hm hn
  exact ⟨j, s, by rw [h3, hf], hw'⟩

/-- **Returns `None` for every absent name**: if no symbol on the chain of the name's bucket
    carries the name — whether or not the hash or the bucket collides with present names — the
    answer is `None`. -/
theorem find_absent (t : SysVHashTable) (name : Slice) (symtab : Table Symbol) (strtab : Slice)
    (hw : WFSysV t symtab strtab) (start : Nat) (path : List (Nat × Symbol × Slice))
    (hb : t.buckets.get (sysvHash name % t.buckets.len) = .ok start)
    (hp : SysVChain t symtab strtab start path)
    (habs : ∀ e, e ∈ path → e.2.2.beqBytes name = false) :
    t.find name symtab strtab = .ok none := by
  obtain ⟨start', path', h1, h2, h3⟩ := sysv_find_wf t name symtab strtab hw
  rw [hb] at h1; injection h1 with h1; subst h1
  have hpe : path' = path := SysVChain.unique h2 hp
  subst hpe
  rw [h3, firstNamed_none name path' habs]

/- Non-vacuity: nbucket=1, nchain=2, bucket[0]=1, chain=[0,0]; symbol 1 named "a" -/
example :
    (match SysVHashTable.new true .ELF32 (Slice.ofArray #[1,0,0,0, 2,0,0,0, 1,0,0,0, 0,0,0,0, 0,0,0,0]) with
     | .ok t => (t.find (Slice.ofArray #[97])
         (symTable true .ELF32 (Slice.ofArray #[0,0,0,0, 0,0,0,0, 0,0,0,0, 0,0,0,0,
                                                  1,0,0,0, 0,0,0,0, 0,0,0,0, 0x12,0,1,0]))
         (Slice.ofArray #[0, 97, 0])).isOk
     | _ => false) = true := by decide

/- Non-vacuity of `WFSysV`: the same table (nbucket=1, nchain=2, bucket[0]=1, chain=[0,0]) is
   well-formed for the symbol table whose symbol 1 is named "a". -/
def exData : Slice := Slice.ofArray #[1,0,0,0, 2,0,0,0, 1,0,0,0, 0,0,0,0, 0,0,0,0]
def exT : SysVHashTable := ⟨u32Table true .ELF32 ⟨exData.buf, 8, 12⟩, u32Table true .ELF32 ⟨exData.buf, 12, 20⟩⟩
def exSym : Table Symbol := symTable true .ELF32 (Slice.ofArray #[0,0,0,0, 0,0,0,0, 0,0,0,0, 0,0,0,0,
                                                  1,0,0,0, 0,0,0,0, 0,0,0,0, 0x12,0,1,0])
def exStr : Slice := Slice.ofArray #[0, 97, 0]
theorem exWF : WFSysV exT exSym exStr := by
  refine ⟨by decide, ?_⟩
  intro b hb
  have hb0 : b = 0 := by
    have : exT.buckets.len = 1 := by decide
    omega
  subst hb0
  refine ⟨1, [(1, ⟨1,1,0x12,0,0,0⟩, ⟨exStr.buf, 1, 2⟩)], by decide, ?_, by decide⟩
  exact SysVChain.cons 1 _ _ 0 [] (by decide) (by decide) (by decide) (by decide) SysVChain.nil
example : (exT.find (Slice.ofArray #[97]) exSym exStr).isOk = true := by decide
example : elfHash (Slice.ofArray #[97]) = 97 := by decide

/-! ## Tables laid out by the standard construction -/

/-- **Any table laid out by the standard construction is well-formed** (symbols 1…n inserted at the
    head of the chain of bucket `elf_hash(name) mod nbucket`, `nchain = n + 1`): so the hypotheses
    of `find_wf`/`find_complete`/`find_absent` are met by every linker-style table, for every
    number of symbols and buckets and every set of names. -/
theorem built_table_wf {t : SysVHashTable} {symtab : Table Symbol} {strtab : Slice} {n : Nat}
    {sym : Nat → Symbol} {w : Nat → Slice} (hd : SysVBuild.Decodes t symtab strtab n sym w) :
    WFSysV t symtab strtab := SysVBuild.wf hd

/-- **The lookup finds every symbol by name** in such a table: querying the bytes of symbol `i`'s
    name returns a symbol of the table whose name has exactly those bytes. -/
theorem built_table_finds_every_symbol {t : SysVHashTable} {symtab : Table Symbol} {strtab : Slice} {n : Nat}
    {sym : Nat → Symbol} {w : Nat → Slice} (hd : SysVBuild.Decodes t symtab strtab n sym w)
    (i : Nat) (hi0 : i ≠ 0) (hin : i ≤ n) (name : Slice) (hname : (w i).beqBytes name = true) :
    ∃ j s, t.find name symtab strtab = .ok (some (j, s)) ∧
      ∃ w', symtab.get j = .ok s ∧ strGetRaw strtab s.st_name = .ok w' ∧ w'.beqBytes name = true :=
  SysVBuild.finds_every_symbol hd i hi0 hin name hname

/-- **…and returns `None` for every name none of the n symbols carries.** -/
theorem built_table_absent {t : SysVHashTable} {symtab : Table Symbol} {strtab : Slice} {n : Nat}
    {sym : Nat → Symbol} {w : Nat → Slice} (hd : SysVBuild.Decodes t symtab strtab n sym w)
    (name : Slice) (habs : ∀ j, j ≠ 0 → j ≤ n → (w j).beqBytes name = false) :
    t.find name symtab strtab = .ok none := SysVBuild.absent_is_none hd name habs

/- Non-vacuity: the example table is the construction's output for one symbol named "a". -/
theorem exDecodes : SysVBuild.Decodes exT exSym exStr 1 (fun _ => ⟨1,1,0x12,0,0,0⟩) (fun _ => ⟨exStr.buf, 1, 2⟩) := by
  refine ⟨by decide, by decide, ?_, ?_, ?_⟩
  · intro j h0 h1
    have : j = 1 := by omega
    subst this; exact ⟨by decide, by decide⟩
  · intro b hb
    have hb0 : b = 0 := by
      have : exT.buckets.len = 1 := by decide
      omega
    subst hb0; decide
  · intro j hj
    have : j = 0 ∨ j = 1 := by omega
    rcases this with h | h <;> subst h <;> decide

end Elf.C12
