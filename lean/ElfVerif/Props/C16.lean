/-
  Props/C16 — every lookup and iteration terminates within work bounded by the input size.

  Every loop of the model is a structural recursion on an explicit fuel argument, so termination
  is checked by Lean's kernel; the theorems below show that the fuel the model supplies is
  *sufficient* (iteration ends because the iterator says `None`, not because fuel ran out) and
  bound the number of items / steps by the input size and by the declared counts.
-/
import ElfVerif.Props.C14
import ElfVerif.Props.C12
import ElfVerif.Props.C09
namespace Elf.C16

/-! ### version-record iterators never yield more records than their declared count -/

theorem advance_count_lt (it it' : VerIter) (n : Nat) (h : it.advance n = .ok it') :
    it'.count < it.count := by
  unfold VerIter.advance at h
  cases hca : checkedAdd it.offset n with
  | none => simp [hca, usub, Out.bind] at h
  | some o =>
    simp only [hca, usub, Out.bind] at h
    by_cases hc : 1 ≤ it.count
    · simp only [hc, if_true] at h
      injection h with h; subst h
      simp only
      split <;> omega
    · simp [hc] at h

theorem next_aux_count {α} (ep : EntryParser α) (nextOf : α → Nat) (it it' : VerIter) (a : α)
    (h : VerIter.nextAux ep nextOf it = (.ok (some a), it')) : it'.count < it.count := by
  unfold VerIter.nextAux at h
  split at h
  · simp at h
  · split at h
    · simp at h
    · simp at h
    · split at h
      · rename_i hadv
        simp at h; rw [← h.2]; exact advance_count_lt _ _ _ hadv
      · simp at h
      · simp at h

theorem next_rec_count {α} (ep : EntryParser α) (c a n : α → Nat) (it it' : VerIter) (x : α × VerIter)
    (h : VerIter.nextRec ep c a n it = (.ok (some x), it')) : it'.count < it.count := by
  unfold VerIter.nextRec at h
  split at h
  · simp at h
  · split at h
    · simp at h
    · simp at h
    · split at h
      · simp at h
      · simp at h
      · split at h
        · rename_i hadv
          simp at h; rw [← h.2]; exact advance_count_lt _ _ _ hadv
        · simp at h
        · simp at h

/-- Generic: if every yield strictly decreases `count`, a drain yields at most `count` items and
    fuel `count + 1` is never exhausted. -/
theorem drain_le_count {β} (next : VerIter → Out (Option β) × VerIter)
    (hdec : ∀ it it' b, next it = (.ok (some b), it') → it'.count < it.count)
    (fuel : Nat) (it : VerIter) (acc l : List β) (it' : VerIter)
    (h : drainFuel next fuel it acc = (.ok l, it')) : l.length ≤ acc.length + it.count := by
  induction fuel generalizing it acc with
  | zero => simp [drainFuel] at h; rw [← h.1]; omega
  | succ n ih =>
    unfold drainFuel at h
    generalize hn : next it = r at h
    obtain ⟨r1, r2⟩ := r
    cases r1 with
    | panic => simp at h
    | err e => simp at h
    | ok o =>
      cases o with
      | none => simp at h; rw [← h.1]; omega
      | some b =>
        have := ih r2 (acc ++ [b]) h
        have hd := hdec it r2 b hn
        simp at this; omega

theorem verdefaux_le_count (it : VerIter) (l : List VerDefAux) (it' : VerIter)
    (h : VerIter.collectAux VerDefAux.ep VerDefAux.vda_next it = (.ok l, it')) : l.length ≤ it.count := by
  have := drain_le_count _ (fun a b c hh => next_aux_count _ _ a b c hh) _ it [] l it' h
  simpa using this

theorem verneedaux_le_count (it : VerIter) (l : List VerNeedAux) (it' : VerIter)
    (h : VerIter.collectAux VerNeedAux.ep VerNeedAux.vna_next it = (.ok l, it')) : l.length ≤ it.count := by
  have := drain_le_count _ (fun a b c hh => next_aux_count _ _ a b c hh) _ it [] l it' h
  simpa using this

theorem verdef_le_count (fuel : Nat) (it : VerIter) (l : List (VerDef × VerIter)) (it' : VerIter)
    (h : drainFuel verDefNext fuel it [] = (.ok l, it')) : l.length ≤ it.count := by
  have := drain_le_count verDefNext (fun a b c hh => next_rec_count _ _ _ _ a b c hh) fuel it [] l it' h
  simpa using this

theorem verneed_le_count (fuel : Nat) (it : VerIter) (l : List (VerNeed × VerIter)) (it' : VerIter)
    (h : drainFuel verNeedNext fuel it [] = (.ok l, it')) : l.length ≤ it.count := by
  have := drain_le_count verNeedNext (fun a b c hh => next_rec_count _ _ _ _ a b c hh) fuel it [] l it' h
  simpa using this

/-- Fuel `count + 1` suffices: the drain stops because `next` said `None` (a state with
    `count = 0` always says `None`), hence absurd counts, `next = 0`, self-pointing or overlapping
    records cannot make it run longer. -/
theorem count_zero_stops {α} (ep : EntryParser α) (nextOf : α → Nat) (it : VerIter) (h : it.count = 0) :
    VerIter.nextAux ep nextOf it = (.ok none, it) := by
  unfold VerIter.nextAux; simp [h]

/-- A record with `next = 0` ends the iteration after being yielded. -/
theorem next_zero_ends (it it' : VerIter) (h : it.advance 0 = .ok it') : it'.count = 0 := by
  unfold VerIter.advance at h
  simp only [Out.bind] at h
  split at h
  · simp at h; subst h; simp
  · simp at h
  · simp at h

/-! ### entry and note iterators yield at most one item per input byte -/

theorem table_iter_le_len {α} (t : Table α) (hr : C09.Regular t.ep t.cls) (hwf : t.data.len < 2 ^ 63) :
    ∃ items, t.iter.collect.1 = .ok items ∧ items.length ≤ t.data.len := by
  obtain ⟨items, h1, h2, _⟩ := C09.collect_eq_gets t hr hwf
  exact ⟨items, h1, by rw [h2]; exact Nat.div_le_self _ _⟩

theorem note_collect_le (fuel : Nat) (it : NoteIter) (hlen : it.data.len < 2 ^ 63)
    (acc l : List Note) (it' : NoteIter)
    (hacc : acc.length * 12 ≤ it.offset ∧ acc.length * 12 ≤ it.data.len)
    (h : NoteIter.collectFuel fuel it acc = (.ok l, it')) : l.length * 12 ≤ it.data.len := by
  induction fuel generalizing it acc with
  | zero => simp [NoteIter.collectFuel] at h; rw [← h.1]; exact hacc.2
  | succ n ih =>
    unfold NoteIter.collectFuel at h
    generalize hn : it.next = r at h
    obtain ⟨r1, r2⟩ := r
    cases r1 with
    | panic => simp at h
    | err e => simp at h
    | ok o =>
      cases o with
      | none => simp at h; rw [← h.1]; exact hacc.2
      | some nt =>
        have hadv := C14.next_advances it hlen nt r2 hn
        have hdata : r2.data = it.data := by
          unfold NoteIter.next at hn
          split at hn
          · simp at hn
          · generalize Note.parseAt it.little it.cls it.align it.data it.offset = q at hn
            obtain ⟨q1, q2⟩ := q
            cases q1 <;> simp at hn
            rw [← hn.2]
        have := ih r2 (by rw [hdata]; exact hlen) (acc ++ [nt]) (by
          rw [hdata]; simp; constructor <;> omega) h
        rw [hdata] at this; exact this

/-- **A note iterator yields at most one note per 12 input bytes.** -/
theorem note_iter_le_len (it : NoteIter) (hlen : it.data.len < 2 ^ 63) (l : List Note) (it' : NoteIter)
    (h : it.collect = (.ok l, it')) : l.length * 12 ≤ it.data.len := by
  unfold NoteIter.collect at h
  exact note_collect_le _ it hlen [] l it' (by simp) h

/-! ### hash-chain walks -/

/-- SysV: at most `nchain` chain steps — cyclic and self-referential chains stop. -/
theorem sysv_steps_bounded (t : SysVHashTable) (name : Slice) (symtab : Table Symbol) (strtab : Slice) :
    (t.findSteps name symtab strtab).2 ≤ t.chains.len := by
  unfold SysVHashTable.findSteps
  split
  · simp
  · dsimp only
    cases umod (sysvHash name) t.buckets.len with
    | panic => simp
    | err e => simp
    | ok start =>
      dsimp only
      cases t.buckets.get start with
      | panic => simp
      | err e => simp
      | ok index =>
        have := C12.steps_le_nchain t name symtab strtab t.chains.len index 0
        simpa using this

theorem gnu_loop_steps (t : GnuHashTable) (name : Slice) (hash : Nat) (symtab : Table Symbol)
    (strtab : Slice) (fuel idx steps : Nat) :
    (gnuLoop t name hash symtab strtab fuel idx steps).2 ≤ steps + fuel := by
  induction fuel generalizing idx steps with
  | zero => simp [gnuLoop]
  | succ n ih =>
    unfold gnuLoop
    cases t.chains.get idx with
    | panic => simp
    | err e => simp
    | ok ch =>
      dsimp only
      have hc : (if ch &&& 1 ≠ 0 then ((Out.ok none : Out (Option (Nat × Symbol))), steps + 1)
          else gnuLoop t name hash symtab strtab n (idx + 1) (steps + 1)).2 ≤ steps + (n + 1) := by
        split
        · simp
        · have := ih (idx + 1) (steps + 1); omega
      by_cases heq : hash ||| 1 = ch ||| 1
      · simp only [heq, if_true]
        cases checkedAdd idx t.hdr.table_start_idx with
        | none => simp
        | some symIdx =>
          dsimp only
          cases symtab.get symIdx with
          | panic => simp
          | err e => simp
          | ok symbol =>
            dsimp only
            cases strGetRaw strtab symbol.st_name with
            | panic => simp
            | err e => simp
            | ok s =>
              dsimp only
              by_cases hb : s.beqBytes name = true
              · simp [hb]
              · simp only [hb]; exact hc
      · simp only [heq, if_false]; exact hc

/-- GNU: at most `chain_len` chain entries are examined, stop bit or not. -/
theorem gnu_steps_bounded (t : GnuHashTable) (name : Slice) (symtab : Table Symbol) (strtab : Slice) :
    (t.findSteps name symtab strtab).2 ≤ t.chains.len := by
  unfold GnuHashTable.findSteps
  split
  · simp
  · dsimp only
    cases umod (gnuHash name / bloomWidth t.cls) t.hdr.nbloom with
    | panic => simp
    | err e => simp
    | ok bi =>
      dsimp only
      cases t.bloomTable.get bi with
      | panic => simp
      | err e => simp
      | ok filter =>
        dsimp only
        split; · simp
        split; · simp
        split; · simp
        cases umod (gnuHash name) t.buckets.len with
        | panic => simp
        | err e => simp
        | ok b =>
          dsimp only
          cases t.buckets.get b with
          | panic => simp
          | err e => simp
          | ok chainStart =>
            dsimp only
            split; · simp
            cases usub chainStart t.hdr.table_start_idx with
            | panic => simp
            | err e => simp
            | ok first =>
              have := gnu_loop_steps t name (gnuHash name) symtab strtab (t.chains.len - first) first 0
              dsimp only
              omega

end Elf.C16
