/-
  Props/C17 — stream I/O failures surface as errors and never corrupt later answers.

  The reader is any `Read + Seek`: each call consumes one entry of an arbitrary fault schedule
  (`fail`, premature `eof`, `short k`, `interrupted`, or none).  Theorems hold for *every* schedule.
-/
import ElfVerif.Lemmas.Stream
import ElfVerif.Lemmas.FaultEquiv
import ElfVerif.Lemmas.FailSurface
namespace Elf.C17

/-- **A failing seek makes `load_bytes` fail**, and nothing is cached. -/
theorem seek_fault_is_error (r : CachingReader) (s e : Nat) (rest : List Fault)
    (hmiss : (r.lookup s e).isSome = false) (hfit : e ≤ r.streamLen)
    (hs : r.dev.sched = .fail :: rest) :
    (r.loadBytes s e).1 = .err .IOError ∧ (r.loadBytes s e).2.bufs = r.bufs := by
  unfold CachingReader.loadBytes
  have h1 : ¬ e > r.streamLen := by omega
  simp only [hmiss, Bool.false_eq_true, if_false, h1]
  have := Device.seekTo_fail r.dev s rest hs
  generalize r.dev.seekTo s = sk at this
  obtain ⟨sk1, d1⟩ := sk
  simp only at this
  subst this
  simp

/-- **A read error or a premature EOF makes `read_exact` fail** (no fabricated data). -/
theorem read_fault_is_error (fuel : Nat) (d : Device) (n : Nat) (rest : List Fault) (hn : 0 < n)
    (hs : d.sched = .fail :: rest ∨ d.sched = .eof :: rest) :
    (Device.readExact (fuel + 1) d n).1 = .err .IOError :=
  Device.readExact_fail_head fuel d n rest hn hs

/-- **No residue**: the cache invariant — every cached buffer is the stream's own bytes of its
    key range — survives every `load_bytes`, whatever the reader does. -/
theorem cache_invariant_under_faults (r : CachingReader) (s e : Nat) (h : CacheOK r) :
    CacheOK (r.loadBytes s e).2 := loadBytes_inv r s e h

theorem new_reader_ok (dev : Device) (r : CachingReader) (d : Device)
    (h : CachingReader.new dev = (.ok r, d)) : CacheOK r := by
  unfold CachingReader.new at h
  generalize hq : dev.seekEnd = q at h
  obtain ⟨q1, d1⟩ := q
  cases q1 with
  | panic => simp at h
  | err e => simp at h
  | ok n =>
    simp at h
    obtain ⟨rfl, _⟩ := h
    unfold Device.seekEnd at hq
    generalize hf : dev.nextFault = nf at hq
    obtain ⟨f, d2⟩ := nf
    have hc := dev.nextFault_eq f d2 hf
    cases f <;> simp at hq <;> (obtain ⟨rfl, rfl⟩ := hq; exact ⟨rfl, by simp⟩)

theorem clear_cache_ok (r : CachingReader) (h : CacheOK r) : CacheOK r.clearCache :=
  ⟨h.1, by simp [CachingReader.clearCache]⟩

/-- **Any later Ok answer of `read_bytes` is the fault-free answer**: under every schedule, after
    any history satisfying the invariant, the bytes returned for a range are exactly the stream's
    bytes of that range. -/
theorem later_answers_are_fault_free (r : CachingReader) (s e : Nat) (h : CacheOK r) (b : Slice)
    (r' : CachingReader) (hb : r.readBytes s e = (.ok b, r')) :
    b = Slice.ofArray (r.dev.content.extract s (s + (e - s))) ∧ CacheOK r' :=
  let ⟨_, h2, h3, _⟩ := readBytes_value r s e h b r' hb
  ⟨h2, h3⟩

/-- No stream operation of the reader panics, faults or not (the `expect` in `get_bytes` is
    always preceded by a successful `load_bytes` of the same key). -/
theorem reader_never_panics (r : CachingReader) (s e : Nat) :
    (r.readBytes s e).1 ≠ .panic ∧ (r.loadBytes s e).1 ≠ .panic :=
  ⟨readBytes_ne_panic r s e, loadBytes_ne_panic r s e⟩

/-- The invariant is carried through a stream query (here: `section_data`; the other accessors
    touch the reader only through `load_bytes`/`read_bytes` in the same way). -/
theorem section_data_keeps_invariant (s : ElfStream) (sh : SectionHeader) (h : CacheOK s.reader) :
    CacheOK (s.sectionData sh).2.reader := by
  unfold ElfStream.sectionData
  split
  · exact h
  · split
    · exact h
    · exact h
    · rename_i rg _
      unfold ElfStream.withReader rbind CachingReader.readBytes
      simp only
      have hinv := loadBytes_inv s.reader rg.1 rg.2 h
      generalize s.reader.loadBytes rg.1 rg.2 = l at hinv
      obtain ⟨l1, r1⟩ := l
      cases l1 with
      | err e => exact hinv
      | panic => exact hinv
      | ok u =>
        simp only
        cases r1.getBytes rg.1 rg.2 with
        | err e => exact hinv
        | panic => exact hinv
        | ok buf =>
          simp only
          split
          · exact hinv
          · generalize CompressionHeader.ep.parse s.ehdr.little s.ehdr.cls buf 0 = q
            obtain ⟨q1, q2⟩ := q
            cases q1 with
            | err e => exact hinv
            | panic => exact hinv
            | ok c =>
              simp only
              cases buf.getFrom? q2 <;> exact hinv

/-! ## Query level: no residue, no fabricated data

  `WInv r c` (Lemmas/FaultEquiv.lean): the reader's cache holds exactly the file's bytes for every
  cached key and the contents are `c`.  It holds after `open_stream` under ANY schedule
  (`open_leaves_no_residue`) and survives every query under ANY schedule whatever the query returned
  (`queries_leave_no_residue`).  Given `WInv`, whatever a query answers with `Ok` is — as a value —
  what the same query answers on a fault-free reader over the same contents (`*_fault_free`):
  a failure leaves no residue, and no later answer is fabricated. -/

theorem open_leaves_no_residue (sp : Spec) (dev : Device) (s : ElfStream) (d : Device)
    (h : openStream sp dev = (.ok s, d)) : WInv s.reader dev.content :=
  openStream_winv sp dev s d h

/-- **No residue, for every history**: errors, early EOFs, short and interrupted reads at any
    points of any sequence of queries leave the reader's cache equal to the file's bytes. -/
theorem queries_leave_no_residue (qs : List Query) (s : ElfStream) (c : Array UInt8) (hw : WInv s.reader c) :
    WInv (qs.foldl (fun s q => q.after s) s).reader c :=
  history_winv qs s c hw

/-- …and the parsed headers are never touched by a query. -/
theorem queries_keep_headers (q : Query) (s : ElfStream) :
    (q.after s).ehdr = s.ehdr ∧ (q.after s).shdrs = s.shdrs ∧ (q.after s).phdrs = s.phdrs :=
  q.after_headers s

/-- After opening under any schedule and any history of (possibly failing) queries, the state
    is a `Twin` of every fault-free reader over the same contents. -/
theorem reachable_twin (sp : Spec) (dev : Device) (s : ElfStream) (d : Device)
    (h : openStream sp dev = (.ok s, d)) (qs : List Query) (r₀ : CachingReader) (h₀ : RInv r₀ dev.content) :
    Twin (qs.foldl (fun s q => q.after s) s).reader r₀ dev.content :=
  Twin.mk' (history_winv qs s _ (openStream_winv sp dev s d h)) h₀

/-- **Any later `Ok` answer is the fault-free answer** — one theorem per query; `s.twin r₀` is the
    same parser state on the fault-free reader `r₀`. -/
theorem section_data_fault_free (s : ElfStream) (r₀ : CachingReader) (c : Array UInt8) (ht : Twin s.reader r₀ c)
    (sh : SectionHeader) (v : Slice × Option CompressionHeader) (s' : ElfStream)
    (h : s.sectionData sh = (.ok v, s')) :
    ∃ s₀', (s.twin r₀).sectionData sh = (.ok v, s₀') ∧ Twin s'.reader s₀'.reader c :=
  sectionData_twin s r₀ c ht sh v s' h

theorem section_strtab_fault_free (s : ElfStream) (r₀ : CachingReader) (c : Array UInt8) (ht : Twin s.reader r₀ c)
    (sh : SectionHeader) (v : Slice) (s' : ElfStream) (h : s.sectionDataAsStrtab sh = (.ok v, s')) :
    ∃ s₀', (s.twin r₀).sectionDataAsStrtab sh = (.ok v, s₀') ∧ Twin s'.reader s₀'.reader c :=
  strtab_twin s r₀ c ht sh v s' h

theorem section_rels_fault_free (s : ElfStream) (r₀ : CachingReader) (c : Array UInt8) (ht : Twin s.reader r₀ c)
    (sh : SectionHeader) (v : Iter Rel) (s' : ElfStream) (h : s.sectionDataAsRels sh = (.ok v, s')) :
    ∃ s₀', (s.twin r₀).sectionDataAsRels sh = (.ok v, s₀') ∧ Twin s'.reader s₀'.reader c :=
  rels_twin s r₀ c ht sh v s' h

theorem section_relas_fault_free (s : ElfStream) (r₀ : CachingReader) (c : Array UInt8) (ht : Twin s.reader r₀ c)
    (sh : SectionHeader) (v : Iter Rela) (s' : ElfStream) (h : s.sectionDataAsRelas sh = (.ok v, s')) :
    ∃ s₀', (s.twin r₀).sectionDataAsRelas sh = (.ok v, s₀') ∧ Twin s'.reader s₀'.reader c :=
  relas_twin s r₀ c ht sh v s' h

theorem section_notes_fault_free (s : ElfStream) (r₀ : CachingReader) (c : Array UInt8) (ht : Twin s.reader r₀ c)
    (sh : SectionHeader) (v : NoteIter) (s' : ElfStream) (h : s.sectionDataAsNotes sh = (.ok v, s')) :
    ∃ s₀', (s.twin r₀).sectionDataAsNotes sh = (.ok v, s₀') ∧ Twin s'.reader s₀'.reader c :=
  section_notes_twin s r₀ c ht sh v s' h

theorem segment_notes_fault_free (s : ElfStream) (r₀ : CachingReader) (c : Array UInt8) (ht : Twin s.reader r₀ c)
    (ph : ProgramHeader) (v : NoteIter) (s' : ElfStream) (h : s.segmentDataAsNotes ph = (.ok v, s')) :
    ∃ s₀', (s.twin r₀).segmentDataAsNotes ph = (.ok v, s₀') ∧ Twin s'.reader s₀'.reader c :=
  segment_notes_twin s r₀ c ht ph v s' h

theorem shstrtab_fault_free (s : ElfStream) (r₀ : CachingReader) (c : Array UInt8) (ht : Twin s.reader r₀ c)
    (v : Option Slice) (s' : ElfStream) (h : s.sectionHeadersWithStrtab = (.ok v, s')) :
    ∃ s₀', (s.twin r₀).sectionHeadersWithStrtab = (.ok v, s₀') ∧ Twin s'.reader s₀'.reader c := by
  obtain ⟨s₀', g1, g2, _⟩ := shstrtab_twin s r₀ c ht v s' h
  exact ⟨s₀', g1, g2⟩

theorem by_name_fault_free (s : ElfStream) (r₀ : CachingReader) (c : Array UInt8) (ht : Twin s.reader r₀ c)
    (name : Slice) (v : Option SectionHeader) (s' : ElfStream) (h : s.sectionHeaderByName name = (.ok v, s')) :
    ∃ s₀', (s.twin r₀).sectionHeaderByName name = (.ok v, s₀') ∧ Twin s'.reader s₀'.reader c :=
  byName_twin s r₀ c ht name v s' h

theorem symbol_table_fault_free (s : ElfStream) (r₀ : CachingReader) (c : Array UInt8) (ht : Twin s.reader r₀ c)
    (ty : Nat) (v : Option (Table Symbol × Slice)) (s' : ElfStream)
    (h : s.symbolTableOfType ty = (.ok v, s')) :
    ∃ s₀', (s.twin r₀).symbolTableOfType ty = (.ok v, s₀') ∧ Twin s'.reader s₀'.reader c :=
  symtab_twin s r₀ c ht ty v s' h

theorem dynamic_fault_free (s : ElfStream) (r₀ : CachingReader) (c : Array UInt8) (ht : Twin s.reader r₀ c)
    (v : Option (Table Dyn)) (s' : ElfStream) (h : s.dynamic = (.ok v, s')) :
    ∃ s₀', (s.twin r₀).dynamic = (.ok v, s₀') ∧ Twin s'.reader s₀'.reader c :=
  dynamic_twin s r₀ c ht v s' h

theorem symbol_version_table_fault_free (s : ElfStream) (r₀ : CachingReader) (c : Array UInt8)
    (ht : Twin s.reader r₀ c) (v : Option SymbolVersionTable) (s' : ElfStream)
    (h : s.symbolVersionTable = (.ok v, s')) :
    ∃ s₀', (s.twin r₀).symbolVersionTable = (.ok v, s₀') ∧ Twin s'.reader s₀'.reader c :=
  symver_twin s r₀ c ht v s' h

/-- **`open_stream` fabricates nothing either**: if it succeeds under ANY schedule, the fault-free
    open of the same contents succeeds with the same file header, section headers and program
    headers (and the two parser states are twins). -/
theorem open_fault_free (sp : Spec) (devf dev : Device) (hl : Legal dev.sched) (hc : devf.content = dev.content)
    (s : ElfStream) (d : Device) (h : openStream sp devf = (.ok s, d)) :
    ∃ s₀ d₀, openStream sp dev = (.ok s₀, d₀) ∧ s₀.ehdr = s.ehdr ∧ s₀.shdrs = s.shdrs ∧
      s₀.phdrs = s.phdrs ∧ Twin s.reader s₀.reader dev.content :=
  open_twin sp devf dev hl (by rw [hc]; exact PrefixOf.refl _) s d h

/-- the two primitives, for completeness -/
theorem read_bytes_fault_free (r r₀ : CachingReader) (c : Array UInt8) (ht : Twin r r₀ c) (s e : Nat) (hse : s ≤ e)
    (b : Slice) (r' : CachingReader) (h : r.readBytes s e = (.ok b, r')) :
    ∃ r₀', r₀.readBytes s e = (.ok b, r₀') ∧ Twin r' r₀' c :=
  readBytes_twin r r₀ c ht s e hse b r' h

/- Non-vacuity: a 4-byte stream; a read that hits a `fail` on its first read call. -/
example : (Device.readExact 5 ⟨#[1, 2, 3, 4], 0, [.fail], []⟩ 2).1 = .err .IOError := by decide
example : (Device.readExact 8 ⟨#[1, 2, 3, 4], 1, [.short 1, .interrupted], []⟩ 3).1 = .ok () := by decide

/- Non-vacuity at the parser level: a 64-byte ELF64 header; a hard error on the second I/O call makes
   `open_stream` fail; with only short/interrupted reads it succeeds (and `open_leaves_no_residue`
   applies to that schedule, which is not a legal-reader-only statement: `.fail` entries after the
   calls made by `open` stay in the schedule for later queries). -/
def hdr64 : Array UInt8 := #[0x7f,0x45,0x4c,0x46, 2,1,1,0, 0,0,0,0,0,0,0,0,
  2,0, 62,0, 1,0,0,0, 0,0,0,0,0,0,0,0, 0,0,0,0,0,0,0,0, 0,0,0,0,0,0,0,0, 0,0,0,0, 64,0, 56,0, 0,0, 64,0, 0,0, 0,0]
example : (openStream .any ⟨hdr64, 0, [.none, .fail], []⟩).1.isOk = false := by decide +kernel
example : (openStream .any ⟨hdr64, 0, [.none, .none, .eof], []⟩).1.isOk = false := by decide +kernel
example : (openStream .any ⟨hdr64, 0, [.none, .none, .short 3, .interrupted, .none, .none, .none, .fail, .eof], []⟩).1.isOk = true := by
  decide +kernel

/-! ## Every I/O failure surfaces as an error

  `Clean d d'`: the schedule entries consumed between device states `d` and `d'` contain no `fail`
  (on a seek or a read) and no premature `eof` on a read.  Contrapositive reading: if any I/O call an
  operation makes fails, the operation returns `Err`. -/

/-- **`open_stream` returns `Ok` only if none of its I/O calls failed.** -/
theorem open_ok_means_no_failed_io (sp : Spec) (dev : Device) (s : ElfStream) (d : Device)
    (h : openStream sp dev = (.ok s, d)) : Clean dev s.reader.dev := openStream_ok_clean sp dev s d h

/-- **A query returns `Ok` only if none of its I/O calls failed** — all 12 queries, any state, any schedule. -/
theorem query_ok_means_no_failed_io (q : Query) (s : ElfStream) (h : q.isOk s = true) :
    Clean s.reader.dev (q.after s).reader.dev := Query.ok_clean q s h

/-- every query of the history returned `Ok` -/
def AllOk : List Query → ElfStream → Prop
  | [], _ => True
  | q :: qs, s => q.isOk s = true ∧ AllOk qs (q.after s)

/-- **…and so for every history**: if every query of a history returned `Ok`, no I/O call made during
    the whole history failed. -/
theorem history_ok_means_no_failed_io (qs : List Query) (s : ElfStream) (h : AllOk qs s) :
    Clean s.reader.dev (qs.foldl (fun s q => q.after s) s).reader.dev := by
  induction qs generalizing s with
  | nil => exact Clean.refl _
  | cons q qs ih => exact (Query.ok_clean q s h.1).trans (ih _ h.2)

/-- reading `Clean` on a single consumed entry: it was not a hard failure -/
theorem clean_single (d d' : Device) (f : Fault) (h : Clean d d') (hs : d.sched = f :: d'.sched) : f ≠ .fail := by
  obtain ⟨used, e, p⟩ := h
  rw [hs] at e
  have : used.map (·.1) = [f] := by
    have : [f] ++ d'.sched = used.map (·.1) ++ d'.sched := by simpa using e
    exact (List.append_cancel_right this).symm
  match used, this with
  | [x], hx =>
    simp only [List.map_cons, List.map_nil, List.cons.injEq, and_true] at hx
    rw [← hx]; exact (p x (List.mem_cons_self ..)).1

/- Non-vacuity: the successful open above consumed `[none, none, short 3, interrupted, none, none, none]`
   and left `[fail, eof]` for later calls. -/
example : ((openStream .any ⟨hdr64, 0, [.none, .none, .short 3, .interrupted, .none, .none, .none, .fail, .eof], []⟩).2).sched
    = [.fail, .eof] := by decide +kernel

end Elf.C17
