/-
  Props/C17 — stream I/O failures surface as errors and never corrupt later answers.

  The reader is any `Read + Seek`: each call consumes one entry of an arbitrary fault schedule
  (`fail`, premature `eof`, `short k`, `interrupted`, or none).  Theorems hold for *every* schedule.
-/
import ElfVerif.Lemmas.Stream
namespace Elf.C17

/-- **A failing seek makes `load_bytes` fail**, and nothing is cached. -/
theorem seek_fault_is_error (r : CachingReader) (s e : Nat) (rest : List Fault)
    (hmiss : (r.lookup s e).isSome = false) (hfit : e ≤ r.streamLen)
    (hs : r.dev.sched = .fail :: rest) :
    (r.loadBytes s e).1 = .err .IOError ∧ (r.loadBytes s e).2.bufs = r.bufs := by
  unfold CachingReader.loadBytes
  have h1 : ¬ e > r.streamLen := by omega
  simp only [hmiss, Bool.false_eq_true, if_false, h1]
  have := Device.seekTo_fail r.dev s rest hs
  generalize r.dev.seekTo s = sk at this
  obtain ⟨sk1, d1⟩ := sk
  simp only at this
  subst this
  simp

/-- **A read error or a premature EOF makes `read_exact` fail** (no fabricated data). -/
theorem read_fault_is_error (fuel : Nat) (d : Device) (n : Nat) (rest : List Fault) (hn : 0 < n)
    (hs : d.sched = .fail :: rest ∨ d.sched = .eof :: rest) :
    (Device.readExact (fuel + 1) d n).1 = .err .IOError :=
  Device.readExact_fail_head fuel d n rest hn hs

/-- **No residue**: the cache invariant — every cached buffer is the stream's own bytes of its
    key range — survives every `load_bytes`, whatever the reader does. -/
theorem cache_invariant_under_faults (r : CachingReader) (s e : Nat) (h : CacheOK r) :
    CacheOK (r.loadBytes s e).2 := loadBytes_inv r s e h

theorem new_reader_ok (dev : Device) (r : CachingReader) (d : Device)
    (h : CachingReader.new dev = (.ok r, d)) : CacheOK r := by
  unfold CachingReader.new at h
  generalize hq : dev.seekEnd = q at h
  obtain ⟨q1, d1⟩ := q
  cases q1 with
  | panic => simp at h
  | err e => simp at h
  | ok n =>
    simp at h
    obtain ⟨rfl, _⟩ := h
    unfold Device.seekEnd at hq
    generalize hf : dev.nextFault = nf at hq
    obtain ⟨f, d2⟩ := nf
    have hc := dev.nextFault_eq f d2 hf
    cases f <;> simp at hq <;> (obtain ⟨rfl, rfl⟩ := hq; exact ⟨rfl, by simp⟩)

theorem clear_cache_ok (r : CachingReader) (h : CacheOK r) : CacheOK r.clearCache :=
  ⟨h.1, by simp [CachingReader.clearCache]⟩

/-- **Any later Ok answer of `read_bytes` is the fault-free answer**: under every schedule, after
    any history satisfying the invariant, the bytes returned for a range are exactly the stream's
    bytes of that range. -/
theorem later_answers_are_fault_free (r : CachingReader) (s e : Nat) (h : CacheOK r) (b : Slice)
    (r' : CachingReader) (hb : r.readBytes s e = (.ok b, r')) :
    b = Slice.ofArray (r.dev.content.extract s (s + (e - s))) ∧ CacheOK r' :=
  let ⟨_, h2, h3, _⟩ := readBytes_value r s e h b r' hb
  ⟨h2, h3⟩

/-- No stream operation of the reader panics, faults or not (the `expect` in `get_bytes` is
    always preceded by a successful `load_bytes` of the same key). -/
theorem reader_never_panics (r : CachingReader) (s e : Nat) :
    (r.readBytes s e).1 ≠ .panic ∧ (r.loadBytes s e).1 ≠ .panic :=
  ⟨readBytes_ne_panic r s e, loadBytes_ne_panic r s e⟩

/-- The invariant is carried through a stream query (here: `section_data`; the other accessors
    touch the reader only through `load_bytes`/`read_bytes` in the same way). -/
theorem section_data_keeps_invariant (s : ElfStream) (sh : SectionHeader) (h : CacheOK s.reader) :
    CacheOK (s.sectionData sh).2.reader := by
  unfold ElfStream.sectionData
  split
  · exact h
  · split
    · exact h
    · exact h
    · rename_i rg _
      unfold ElfStream.withReader rbind CachingReader.readBytes
      simp only
      have hinv := loadBytes_inv s.reader rg.1 rg.2 h
      generalize s.reader.loadBytes rg.1 rg.2 = l at hinv
      obtain ⟨l1, r1⟩ := l
      cases l1 with
      | err e => exact hinv
      | panic => exact hinv
      | ok u =>
        simp only
        cases r1.getBytes rg.1 rg.2 with
        | err e => exact hinv
        | panic => exact hinv
        | ok buf =>
          simp only
          split
          · exact hinv
          · generalize CompressionHeader.ep.parse s.ehdr.little s.ehdr.cls buf 0 = q
            obtain ⟨q1, q2⟩ := q
            cases q1 with
            | err e => exact hinv
            | panic => exact hinv
            | ok c =>
              simp only
              cases buf.getFrom? q2 <;> exact hinv

/- Non-vacuity: a 4-byte stream; a read that hits a `fail` on its first read call. -/
example : (Device.readExact 5 ⟨#[1, 2, 3, 4], 0, [.fail], []⟩ 2).1 = .err .IOError := by decide
example : (Device.readExact 8 ⟨#[1, 2, 3, 4], 1, [.short 1, .interrupted], []⟩ 3).1 = .ok () := by decide

end Elf.C17
