/-
  Props/C14 — note iteration yields exactly the notes laid out in the section/segment.
-/
import ElfVerif.Lemmas.NoPanic
import ElfVerif.Props.C02
namespace Elf.C14

/-- Round `x` up to the next multiple of `align` (the ABI's padding rule). -/
def padUp (align x : Nat) : Nat := if x % align > 0 then x + (align - x % align) else x

theorem padUp_spec (align x : Nat) (ha : 0 < align) :
    padUp align x % align = 0 ∧ x ≤ padUp align x ∧ padUp align x < x + align := by
  unfold padUp
  have hm := Nat.mod_lt x ha
  split
  · rename_i h
    refine ⟨?_, by omega, by omega⟩
    have hx := Nat.div_add_mod x align
    have : x + (align - x % align) = align * (x / align + 1) := by
      rw [Nat.mul_add, Nat.mul_one]; omega
    rw [this]; exact Nat.mul_mod_right _ _
  · omega

/-- What the ABI says sits at `off`: a 12-byte header of three 32-bit words (name size, descriptor
    size, type) in the file's byte order — for both classes —, then the name, padding to `align`,
    the descriptor, padding to `align`.  Returns the type, the name window, the descriptor window
    and the offset of the next record; `none` if the record does not fit. -/
def recordAt (le : Bool) (align : Nat) (d : Slice) (off : Nat) : Option (Nat × Slice × Slice × Nat) :=
  if off + 12 ≤ d.len then
    let namesz := decode le d off 4
    let descsz := decode le d (off + 4) 4
    let ntype := decode le d (off + 8) 4
    let nameEnd := off + 12 + namesz
    let descStart := padUp align nameEnd
    let descEnd := descStart + descsz
    if nameEnd ≤ d.len ∧ descEnd ≤ d.len ∧ padUp align descEnd < USZ then
      some (ntype, ⟨d.buf, d.start + (off + 12), d.start + nameEnd⟩,
            ⟨d.buf, d.start + descStart, d.start + descEnd⟩, padUp align descEnd)
    else none
  else none

/-- The crate's typed reading of a raw record: "GNU\0" + NT_GNU_ABI_TAG (four words, needs a
    16-byte descriptor) / NT_GNU_BUILD_ID, otherwise untyped. -/
def typeNote (le : Bool) (cls : Class) (ntype : Nat) (name desc : Slice) : Out Note :=
  if isGnuName name then
    if ntype = Abi.NT_GNU_ABI_TAG then
      match (NoteGnuAbiTag.ep.parse le cls desc 0).1 with
      | .ok t => .ok (.gnuAbiTag t)
      | .err e => .err e
      | .panic => .panic
    else if ntype = Abi.NT_GNU_BUILD_ID then .ok (.gnuBuildId desc)
    else .ok (.unknown ntype name desc)
  else .ok (.unknown ntype name desc)

theorem note_header_parse (le : Bool) (d : Slice) (off : Nat) (h1 : off + 12 ≤ d.len) (h2 : off + 12 < USZ) :
    NoteHeader.ep.parse le .ELF32 d off =
      (.ok ⟨decode le d off 4, decode le d (off + 4) 4, decode le d (off + 8) 4⟩, off + 12) := by
  have := C02.parse_abi_encoded NoteHeader.ep le .ELF32 d off (by simpa [NoteHeader.ep, Gen.prog_NoteHeader, Prog.size, Ty.width] using h1)
    (by simpa [NoteHeader.ep, Gen.prog_NoteHeader, Prog.size, Ty.width] using h2) (by simp [NoteHeader.ep, Gen.prog_NoteHeader, guardAccepts])
  rw [this]
  have hz : ∀ o, castInt .u64 (tyVal le .u32 d o) = (decode le d o 4 : Int) := by
    intro o
    have hlt := decode_lt le d o 4
    simp only [tyVal, Ty.signed, Ty.width, castInt, Bool.false_eq_true, if_false]
    have : ((2 ^ (8 * 8) : Nat) : Int) = 2 ^ 64 := by norm_cast
    rw [this]; omega
  simp [NoteHeader.ep, Gen.prog_NoteHeader, valsAt, Expr.eval, NoteHeader.ofVals, Prog.size, Ty.width, hz]

theorem notePad_eq (align x : Nat) (ha : align ≠ 0) (hx : x < USZ) :
    notePad align x = if padUp align x < USZ then .ok (padUp align x) else .err .IntegerOverflow := by
  unfold notePad padUp umod usub checkedAdd
  simp only [ha, if_false, Out.bind]
  have hm := Nat.mod_lt x (Nat.pos_of_ne_zero ha)
  by_cases hr : x % align > 0
  · have : x % align ≤ align := by omega
    simp only [hr, if_true, this, Out.ofOption]
    by_cases hlt : x + (align - x % align) < USZ <;> simp [hlt]
  · simp [hr, hx]

theorem header_fails (le : Bool) (d : Slice) (off : Nat) (h : ¬ off + 12 ≤ d.len) :
    ∃ e o, NoteHeader.ep.parse le .ELF32 d off = (.err e, o) := by
  have hnp := EntryParser.parse_no_panic NoteHeader.ep total_NoteHeader le .ELF32 d off
  have hno : ¬ ∃ a, (NoteHeader.ep.parse le .ELF32 d off).1 = .ok a := by
    rw [EntryParser.parse_ok_iff NoteHeader.ep total_NoteHeader le .ELF32 rfl (by decide)]
    intro hh; apply h
    have : (NoteHeader.ep.prog .ELF32).size = 12 := rfl
    omega
  generalize NoteHeader.ep.parse le .ELF32 d off = r at hnp hno
  obtain ⟨r1, r2⟩ := r
  cases r1 with
  | ok a => exact absurd ⟨a, rfl⟩ hno
  | err e => exact ⟨e, r2, rfl⟩
  | panic => simp at hnp

/-- **One step of note iteration = the ABI record at the cursor.**  If a record fits at `off`, the
    parser returns its typed reading and moves the cursor to the padded end of the descriptor;
    if none fits (truncated header, name or descriptor, or zero alignment) it fails. -/
theorem parse_at_spec (le : Bool) (cls : Class) (align : Nat) (d : Slice) (off : Nat)
    (ha : align ≠ 0) (hlen : d.len < 2 ^ 63) :
    match recordAt le align d off with
    | some (ntype, name, desc, nx) =>
      Note.parseAt le cls align d off =
        (match typeNote le cls ntype name desc with
         | .ok n => (.ok n, nx)
         | .err e => (.err e, nx)
         | .panic => (.panic, nx))
    | none => ∃ e o, Note.parseAt le cls align d off = (.err e, o) := by
  have husz := USZ_eq
  unfold recordAt
  by_cases h12 : off + 12 ≤ d.len
  · simp only [h12, if_true]
    have hn := decode_lt le d off 4
    have hd := decode_lt le d (off + 4) 4
    have hp256 : (256 : Nat) ^ 4 = 2 ^ 32 := by decide
    rw [hp256] at hn hd
    unfold Note.parseAt
    simp only [ha, if_false]
    rw [note_header_parse le d off h12 (by omega)]
    simp only
    have hca : checkedAdd (off + 12) (decode le d off 4) = some (off + 12 + decode le d off 4) := by
      unfold checkedAdd; have : off + 12 + decode le d off 4 < USZ := by omega
      simp [this]
    rw [hca]; simp only
    by_cases hne : off + 12 + decode le d off 4 ≤ d.len
    · have hg : d.get? (off + 12) (off + 12 + decode le d off 4) =
          some ⟨d.buf, d.start + (off + 12), d.start + (off + 12 + decode le d off 4)⟩ := by
        unfold Slice.get?
        have : off + 12 ≤ off + 12 + decode le d off 4 ∧ off + 12 + decode le d off 4 ≤ d.len := ⟨by omega, hne⟩
        simp [this]
      rw [hg]; simp only
      rw [notePad_eq align _ ha (by omega)]
      by_cases hp1 : padUp align (off + 12 + decode le d off 4) < USZ
      · simp only [hp1, if_true]
        have hcd : checkedAdd (padUp align (off + 12 + decode le d off 4)) (decode le d (off + 4) 4) =
            if padUp align (off + 12 + decode le d off 4) + decode le d (off + 4) 4 < USZ
            then some (padUp align (off + 12 + decode le d off 4) + decode le d (off + 4) 4) else none := rfl
        rw [hcd]
        by_cases hde : padUp align (off + 12 + decode le d off 4) + decode le d (off + 4) 4 ≤ d.len
        · have hlt : padUp align (off + 12 + decode le d off 4) + decode le d (off + 4) 4 < USZ := by omega
          simp only [hlt, if_true]
          have hg2 : d.get? (padUp align (off + 12 + decode le d off 4))
              (padUp align (off + 12 + decode le d off 4) + decode le d (off + 4) 4) =
              some ⟨d.buf, d.start + padUp align (off + 12 + decode le d off 4),
                    d.start + (padUp align (off + 12 + decode le d off 4) + decode le d (off + 4) 4)⟩ := by
            unfold Slice.get?
            have : padUp align (off + 12 + decode le d off 4) ≤
                padUp align (off + 12 + decode le d off 4) + decode le d (off + 4) 4 ∧
                padUp align (off + 12 + decode le d off 4) + decode le d (off + 4) 4 ≤ d.len := ⟨by omega, hde⟩
            simp [this]
          rw [hg2]; simp only
          rw [notePad_eq align _ ha hlt]
          by_cases hp2 : padUp align (padUp align (off + 12 + decode le d off 4) + decode le d (off + 4) 4) < USZ
          · simp only [hne, hde, hp2, and_self, if_true]
            unfold typeNote
            split
            · split
              · cases (NoteGnuAbiTag.ep.parse le cls _ 0).1 <;> rfl
              · split <;> rfl
            · rfl
          · simp only [hp2, if_false, and_false]
            exact ⟨_, _, rfl⟩
        · have : ¬ (off + 12 + decode le d off 4 ≤ d.len ∧
              padUp align (off + 12 + decode le d off 4) + decode le d (off + 4) 4 ≤ d.len ∧
              padUp align (padUp align (off + 12 + decode le d off 4) + decode le d (off + 4) 4) < USZ) :=
            fun hh => hde hh.2.1
          simp only [this, if_false]
          by_cases hlt : padUp align (off + 12 + decode le d off 4) + decode le d (off + 4) 4 < USZ
          · simp only [hlt, if_true]
            have hg2 : d.get? (padUp align (off + 12 + decode le d off 4))
                (padUp align (off + 12 + decode le d off 4) + decode le d (off + 4) 4) = none := by
              unfold Slice.get?
              have : ¬ (padUp align (off + 12 + decode le d off 4) ≤
                  padUp align (off + 12 + decode le d off 4) + decode le d (off + 4) 4 ∧
                  padUp align (off + 12 + decode le d off 4) + decode le d (off + 4) 4 ≤ d.len) := fun hh => hde hh.2
              simp; omega
            rw [hg2]; exact ⟨_, _, rfl⟩
          · simp only [hlt, if_false]
            exact ⟨_, _, rfl⟩
      · have hps := padUp_spec align (off + 12 + decode le d off 4) (Nat.pos_of_ne_zero ha)
        have : ¬ (off + 12 + decode le d off 4 ≤ d.len ∧
            padUp align (off + 12 + decode le d off 4) + decode le d (off + 4) 4 ≤ d.len ∧
            padUp align (padUp align (off + 12 + decode le d off 4) + decode le d (off + 4) 4) < USZ) := by
          intro hh; omega
        simp only [hp1, this, if_false]
        exact ⟨_, _, rfl⟩
    · have hg : d.get? (off + 12) (off + 12 + decode le d off 4) = none := by
        unfold Slice.get?
        simp; omega
      have : ¬ (off + 12 + decode le d off 4 ≤ d.len ∧
          padUp align (off + 12 + decode le d off 4) + decode le d (off + 4) 4 ≤ d.len ∧
          padUp align (padUp align (off + 12 + decode le d off 4) + decode le d (off + 4) 4) < USZ) :=
        fun hh => hne hh.1
      rw [hg]; simp only [this, if_false]
      exact ⟨_, _, rfl⟩
  · simp only [h12, if_false]
    unfold Note.parseAt
    simp only [ha, if_false]
    obtain ⟨e, o, he⟩ := header_fails le d off h12
    rw [he]; exact ⟨e, o, rfl⟩

/-- **A zero alignment yields nothing.** -/
theorem zero_align_yields_nothing (le : Bool) (cls : Class) (d : Slice) (off : Nat) :
    (NoteIter.next ⟨le, cls, 0, d, off⟩).1 = .ok none := by
  unfold NoteIter.next Note.parseAt
  split <;> simp

/-- An untyped note's name string: the name bytes when they are valid UTF-8, with all trailing
    NULs removed; `trimNulLen` is the length of the longest prefix not ending in NUL. -/
theorem trim_spec (s : Slice) (n : Nat) :
    trimNulLen s n ≤ n ∧ (∀ i, trimNulLen s n ≤ i → i < n → s.byte i = 0) ∧
    (0 < trimNulLen s n → s.byte (trimNulLen s n - 1) ≠ 0) := by
  induction n with
  | zero => simp [trimNulLen]
  | succ n ih =>
    unfold trimNulLen
    split
    · rename_i h0
      obtain ⟨i1, i2, i3⟩ := ih
      refine ⟨by omega, ?_, i3⟩
      intro i hi1 hi2
      by_cases hin : i = n
      · rw [hin]; exact h0
      · exact i2 i hi1 (by omega)
    · rename_i h0
      refine ⟨Nat.le_refl _, fun i h1 h2 => by omega, fun _ => by simpa using h0⟩

theorem name_str_spec (name : Slice) :
    noteNameStr name =
      if validUtf8 name then .ok ⟨name.buf, name.start, name.start + trimNulLen name name.len⟩
      else .err .Utf8Error := rfl

/-- Iteration is "apply `next` until it yields `None`": the collected list is a prefix-closed
    sequence of successful steps (definitionally `collectFuel`), and never longer than the data. -/
theorem next_advances (it : NoteIter) (hlen : it.data.len < 2 ^ 63) (n : Note) (it' : NoteIter)
    (h : it.next = (.ok (some n), it')) : it.offset + 12 ≤ it'.offset ∧ it.offset + 12 ≤ it.data.len := by
  unfold NoteIter.next at h
  split at h
  · simp at h
  · by_cases ha : it.align = 0
    · unfold Note.parseAt at h; simp [ha] at h
    · have hs := parse_at_spec it.little it.cls it.align it.data it.offset ha hlen
      cases hr : recordAt it.little it.align it.data it.offset with
      | none =>
        rw [hr] at hs; obtain ⟨e, o, he⟩ := hs
        rw [he] at h; simp at h
      | some r =>
        obtain ⟨ntype, name, desc, nx⟩ := r
        rw [hr] at hs; simp only at hs
        rw [hs] at h
        -- the cursor after success is the padded descriptor end ≥ off + 12
        unfold recordAt at hr
        split at hr
        · rename_i h12
          dsimp only at hr
          split at hr
          · injection hr with hr
            have hnx : nx = padUp it.align (padUp it.align (it.offset + 12 + decode it.little it.data it.offset 4) +
                decode it.little it.data (it.offset + 4) 4) := by
              have := congrArg (fun x => x.2.2.2) hr; simpa using this.symm
            have p1 := padUp_spec it.align (it.offset + 12 + decode it.little it.data it.offset 4) (Nat.pos_of_ne_zero ha)
            have p2 := padUp_spec it.align (padUp it.align (it.offset + 12 + decode it.little it.data it.offset 4) +
                decode it.little it.data (it.offset + 4) 4) (Nat.pos_of_ne_zero ha)
            cases ht : typeNote it.little it.cls ntype name desc with
            | ok n' => rw [ht] at h; simp at h; rw [← h.2]; simp; omega
            | err e => rw [ht] at h; simp at h
            | panic => rw [ht] at h; simp at h
          · cases hr
        · cases hr

/-! ## List level: iteration yields exactly the records laid out back to back from offset 0 -/

/-- **The layout the ABI describes**: starting at `off`, as long as a whole record fits (`recordAt`)
    and its typed reading succeeds (`typeNote`: only a "GNU\0"/NT_GNU_ABI_TAG record with a short
    descriptor fails), one note per record, each starting where the previous one's padded
    descriptor ended; the list ends at the first record that does not fit.  `fuel` bounds the
    number of records (every record is at least 12 bytes). -/
def layout (le : Bool) (cls : Class) (align : Nat) (d : Slice) : Nat → Nat → List Note
  | 0, _ => []
  | fuel + 1, off =>
    match recordAt le align d off with
    | some (ntype, name, desc, nx) =>
      match typeNote le cls ntype name desc with
      | .ok n => n :: layout le cls align d fuel nx
      | _ => []
    | none => []

theorem typeNote_ne_panic (le : Bool) (cls : Class) (ntype : Nat) (name desc : Slice) :
    typeNote le cls ntype name desc ≠ .panic := by
  unfold typeNote
  split
  · split
    · have := EntryParser.parse_no_panic NoteGnuAbiTag.ep total_NoteGnuAbiTag le cls desc 0
      cases hp : (NoteGnuAbiTag.ep.parse le cls desc 0).1 with
      | ok t => simp
      | err e => simp
      | panic => exact absurd hp this
    · split <;> simp
  · simp

/-- **Iterating a note section / segment yields exactly `layout`**: in order, one note per record
    laid out back to back from the iterator's offset, ending at the first record that does not
    fit — for every byte string, both classes and byte orders, every non-zero alignment. -/
theorem collect_eq_layout (le : Bool) (cls : Class) (align : Nat) (d : Slice) (ha : align ≠ 0)
    (hlen : d.len < 2 ^ 63) (n off : Nat) (acc : List Note) :
    (NoteIter.collectFuel n ⟨le, cls, align, d, off⟩ acc).1 = .ok (acc ++ layout le cls align d n off) := by
  induction n generalizing off acc with
  | zero => simp [NoteIter.collectFuel, layout]
  | succ n ih =>
    unfold NoteIter.collectFuel layout
    have hs := parse_at_spec le cls align d off ha hlen
    unfold NoteIter.next
    by_cases hE : d.isEmpty = true
    · -- empty data: nothing fits
      have h0 : d.len = 0 := by simpa [Slice.isEmpty] using hE
      have hr : recordAt le align d off = none := by
        unfold recordAt
        have : ¬ off + 12 ≤ d.len := by omega
        simp [this]
      simp only [hE, if_true, hr]
      simp
    · simp only [hE, Bool.false_eq_true, if_false]
      cases hr : recordAt le align d off with
      | none =>
        rw [hr] at hs; obtain ⟨e, o, he⟩ := hs
        simp only [he]
        simp
      | some r =>
        obtain ⟨ntype, name, desc, nx⟩ := r
        rw [hr] at hs; simp only at hs
        simp only [hs]
        cases ht : typeNote le cls ntype name desc with
        | ok note =>
          simp only
          rw [ih nx (acc ++ [note])]
          simp
        | err e => simp
        | panic => exact absurd ht (typeNote_ne_panic le cls ntype name desc)

/-- the iterator as the crate builds it (offset 0, fuel = length + 1) -/
theorem iteration_is_layout (le : Bool) (cls : Class) (align : Nat) (d : Slice) (ha : align ≠ 0)
    (hlen : d.len < 2 ^ 63) :
    (NoteIter.collect ⟨le, cls, align, d, 0⟩).1 = .ok (layout le cls align d (d.len + 1) 0) := by
  unfold NoteIter.collect
  have := collect_eq_layout le cls align d ha hlen (d.len + 1) 0 []
  simpa using this

/-- **A zero alignment yields nothing**, whatever the bytes. -/
theorem zero_align_collect (le : Bool) (cls : Class) (d : Slice) (off n : Nat) :
    (NoteIter.collectFuel n ⟨le, cls, 0, d, off⟩ []).1 = .ok [] := by
  cases n with
  | zero => rfl
  | succ n =>
    unfold NoteIter.collectFuel
    have h := zero_align_yields_nothing le cls d off
    generalize (NoteIter.next ⟨le, cls, 0, d, off⟩) = q at h
    obtain ⟨q1, q2⟩ := q
    simp only at h
    subst h
    rfl

/- Non-vacuity: one record, align 4, LSB: namesz=4 ("abc\0"), descsz=2, type=7 -/
example : recordAt true 4 (Slice.ofArray #[4,0,0,0, 2,0,0,0, 7,0,0,0, 97,98,99,0, 1,2,0,0]) 0
    = some (7, ⟨#[4,0,0,0, 2,0,0,0, 7,0,0,0, 97,98,99,0, 1,2,0,0], 12, 16⟩,
            ⟨#[4,0,0,0, 2,0,0,0, 7,0,0,0, 97,98,99,0, 1,2,0,0], 16, 18⟩, 20) := by decide
example : padUp 4 13 = 16 ∧ padUp 4 16 = 16 ∧ padUp 3 7 = 9 := by decide
/-! ## Round trip: the notes an encoder lays out are the notes the iterator yields -/

/-- an abstract note record: type word, name bytes, descriptor bytes -/
structure RawNote where
  ntype : Nat
  name : List Nat
  desc : List Nat

def enc4 (le : Bool) (v : Nat) : List Nat := if le then C04.encodeLE 4 v else C04.encodeBE 4 v

/-- **The ABI encoding of one record placed at offset `off`**: three 32-bit words (name size,
    descriptor size, type) in the file's byte order, the name, zero padding up to `align`, the
    descriptor, zero padding up to `align`. -/
def encodeNote (le : Bool) (align off : Nat) (r : RawNote) : List Nat :=
  let nameEnd := off + 12 + r.name.length
  let descStart := padUp align nameEnd
  let descEnd := descStart + r.desc.length
  enc4 le r.name.length ++ (enc4 le r.desc.length ++ (enc4 le r.ntype ++ (r.name ++
    (List.replicate (descStart - nameEnd) 0 ++ (r.desc ++ List.replicate (padUp align descEnd - descEnd) 0)))))

/-- records one after the other, the first at `off` -/
def encodeNotes (le : Bool) (align : Nat) : Nat → List RawNote → List Nat
  | _, [] => []
  | off, r :: rs => encodeNote le align off r ++ encodeNotes le align (off + (encodeNote le align off r).length) rs

theorem enc4_length (le : Bool) (v : Nat) : (enc4 le v).length = 4 := by
  unfold enc4; cases le <;> simp [C04.encodeLE_length, C02.encodeBE_length]

theorem le_padUp (align x : Nat) : x ≤ padUp align x := by
  unfold padUp; split <;> omega

theorem encodeNote_length (le : Bool) (align off : Nat) (r : RawNote) :
    off + (encodeNote le align off r).length =
      padUp align (padUp align (off + 12 + r.name.length) + r.desc.length) := by
  have h1 := le_padUp align (off + 12 + r.name.length)
  have h2 := le_padUp align (padUp align (off + 12 + r.name.length) + r.desc.length)
  simp only [encodeNote, List.length_append, enc4_length, List.length_replicate]
  omega

/-- the records `recordAt` finds back to back, before their typed reading -/
def rawLayout (le : Bool) (align : Nat) (d : Slice) : Nat → Nat → List (Nat × Slice × Slice)
  | 0, _ => []
  | fuel + 1, off =>
    match recordAt le align d off with
    | some (ntype, name, desc, nx) => (ntype, name, desc) :: rawLayout le align d fuel nx
    | none => []

/-- typed reading of a list of raw records, ending at the first that fails -/
def typedPrefix (le : Bool) (cls : Class) : List (Nat × Slice × Slice) → List Note
  | [] => []
  | (t, n, de) :: xs =>
    match typeNote le cls t n de with
    | .ok note => note :: typedPrefix le cls xs
    | _ => []

theorem layout_eq_typed (le : Bool) (cls : Class) (align : Nat) (d : Slice) (fuel off : Nat) :
    layout le cls align d fuel off = typedPrefix le cls (rawLayout le align d fuel off) := by
  induction fuel generalizing off with
  | zero => rfl
  | succ n ih =>
    unfold layout rawLayout
    cases hr : recordAt le align d off with
    | none => rfl
    | some r =>
      obtain ⟨t, nm, de, nx⟩ := r
      simp only [typedPrefix]
      cases typeNote le cls t nm de with
      | ok note => simp only [ih nx]
      | err e => rfl
      | panic => rfl

/-- the window has exactly these bytes -/
def Holds (s : Slice) (bs : List Nat) : Prop := s.len = bs.length ∧ C04.HoldsAt s 0 bs

def RawMatches : List (Nat × Slice × Slice) → List RawNote → Prop
  | [], [] => True
  | (t, n, de) :: xs, r :: rs => t = r.ntype ∧ Holds n r.name ∧ Holds de r.desc ∧ RawMatches xs rs
  | _, _ => False

theorem holdsAt_window (d : Slice) (a b : Nat) (bs : List Nat) (i : Nat) (h : C04.HoldsAt d (a + i) bs) :
    C04.HoldsAt ⟨d.buf, d.start + a, b⟩ i bs := by
  induction bs generalizing i with
  | nil => trivial
  | cons x xs ih =>
    obtain ⟨h1, h2⟩ := h
    refine ⟨?_, ih (i + 1) (by rw [← Nat.add_assoc]; exact h2)⟩
    rw [← h1]; unfold Slice.byte; simp only [Nat.add_assoc]

def InWord (r : RawNote) : Prop := r.name.length < 2 ^ 32 ∧ r.desc.length < 2 ^ 32 ∧ r.ntype < 2 ^ 32

/-- **decode ∘ encode = id for note sections**: if the window holds, from `off` to its end, the
    encoding of the records `rs`, the back-to-back layout from `off` is exactly `rs` — same number of
    records, same types, name and descriptor windows holding exactly the encoded bytes. -/
theorem rawLayout_of_encoding (le : Bool) (align : Nat) (d : Slice) (husz : d.len < USZ)
    (rs : List RawNote) (off fuel : Nat) (hr : ∀ r ∈ rs, InWord r)
    (h : C04.HoldsAt d off (encodeNotes le align off rs))
    (hlen : d.len = off + (encodeNotes le align off rs).length) (hfuel : rs.length < fuel) :
    RawMatches (rawLayout le align d fuel off) rs := by
  induction rs generalizing off fuel with
  | nil =>
    cases fuel with
    | zero => exact absurd hfuel (by simp)
    | succ n =>
      simp only [encodeNotes, List.length_nil, Nat.add_zero] at hlen
      have : recordAt le align d off = none := by
        unfold recordAt
        have : ¬ off + 12 ≤ d.len := by omega
        simp [this]
      simp [rawLayout, this, RawMatches]
  | cons r rs ih =>
    cases fuel with
    | zero => exact absurd hfuel (by simp)
    | succ n =>
      obtain ⟨hn, hd, ht⟩ := hr r (List.mem_cons_self ..)
      simp only [encodeNotes] at h hlen
      rw [C04.holdsAt_append] at h
      obtain ⟨hrec, hrest⟩ := h
      have hL := encodeNote_length le align off r
      rw [List.length_append] at hlen
      -- split the record's encoding
      simp only [encodeNote] at hrec
      rw [C04.holdsAt_append] at hrec; obtain ⟨hw1, hrec⟩ := hrec
      rw [C04.holdsAt_append] at hrec; obtain ⟨hw2, hrec⟩ := hrec
      rw [C04.holdsAt_append] at hrec; obtain ⟨hw3, hrec⟩ := hrec
      rw [C04.holdsAt_append] at hrec; obtain ⟨hname, hrec⟩ := hrec
      rw [C04.holdsAt_append] at hrec; obtain ⟨_, hrec⟩ := hrec
      rw [C04.holdsAt_append] at hrec; obtain ⟨hdesc, _⟩ := hrec
      simp only [enc4_length, List.length_replicate] at hw2 hw3 hname hdesc
      have e1 : decode le d off 4 = r.name.length := C04.decode_encode le d off 4 _ (by simpa using hn) hw1
      have e2 : decode le d (off + 4) 4 = r.desc.length := C04.decode_encode le d (off + 4) 4 _ (by simpa using hd) hw2
      have e3 : decode le d (off + 8) 4 = r.ntype :=
        C04.decode_encode le d (off + 8) 4 _ (by simpa using ht) (by rw [Nat.add_assoc] at hw3; exact hw3)
      have p1 := le_padUp align (off + 12 + r.name.length)
      have p2 := le_padUp align (padUp align (off + 12 + r.name.length) + r.desc.length)
      have hrA : recordAt le align d off = some (r.ntype,
          ⟨d.buf, d.start + (off + 12), d.start + (off + 12 + r.name.length)⟩,
          ⟨d.buf, d.start + padUp align (off + 12 + r.name.length),
            d.start + (padUp align (off + 12 + r.name.length) + r.desc.length)⟩,
          padUp align (padUp align (off + 12 + r.name.length) + r.desc.length)) := by
        unfold recordAt
        simp only [e1, e2, e3]
        have c1 : off + 12 ≤ d.len := by omega
        have c2 : off + 12 + r.name.length ≤ d.len ∧
            padUp align (off + 12 + r.name.length) + r.desc.length ≤ d.len ∧
            padUp align (padUp align (off + 12 + r.name.length) + r.desc.length) < USZ := by
          refine ⟨by omega, by omega, by omega⟩
        simp only [c1, c2, and_self, if_true]
      simp only [rawLayout, hrA, RawMatches]
      refine ⟨trivial, ⟨by simp only [Slice.len]; omega, ?_⟩, ⟨by simp only [Slice.len]; omega, ?_⟩, ?_⟩
      · apply holdsAt_window; simpa [Nat.add_assoc] using hname
      · apply holdsAt_window
        have : off + 4 + 4 + 4 + r.name.length + (padUp align (off + 12 + r.name.length) - (off + 12 + r.name.length))
            = padUp align (off + 12 + r.name.length) := by omega
        rw [this] at hdesc; simpa using hdesc
      · rw [← hL]
        exact ih (off + (encodeNote le align off r).length) n (fun x hx => hr x (List.mem_cons_of_mem _ hx)) hrest
          (by omega) (by simpa using hfuel)

/-- …so **iterating a window that holds the encoding of `rs` yields the typed reading of exactly
    those records**, in order (as the crate builds the iterator: offset 0). -/
theorem iterate_encoding (le : Bool) (cls : Class) (align : Nat) (d : Slice) (ha : align ≠ 0) (hlen63 : d.len < 2 ^ 63)
    (rs : List RawNote) (hr : ∀ r ∈ rs, InWord r)
    (h : C04.HoldsAt d 0 (encodeNotes le align 0 rs)) (hlen : d.len = (encodeNotes le align 0 rs).length) :
    ∃ raws, RawMatches raws rs ∧ (NoteIter.collect ⟨le, cls, align, d, 0⟩).1 = .ok (typedPrefix le cls raws) := by
  refine ⟨rawLayout le align d (d.len + 1) 0, ?_, ?_⟩
  · have hfl : rs.length < d.len + 1 := by
      -- every record is at least 12 bytes
      have : ∀ (rs : List RawNote) (off : Nat), rs.length ≤ (encodeNotes le align off rs).length := by
        intro rs
        induction rs with
        | nil => intro _; simp [encodeNotes]
        | cons r rs ih =>
          intro off
          have := ih (off + (encodeNote le align off r).length)
          have h12 : 12 ≤ (encodeNote le align off r).length := by
            simp only [encodeNote, List.length_append, enc4_length]; omega
          simp only [encodeNotes, List.length_append, List.length_cons]; omega
      have := this rs 0
      omega
    exact rawLayout_of_encoding le align d (by unfold USZ; omega) rs 0 (d.len + 1) hr h
      (by simpa using hlen) hfl
  · rw [iteration_is_layout le cls align d ha hlen63, layout_eq_typed]

/- Non-vacuity: two records, align 4, little-endian -/
example : encodeNotes true 4 0 [⟨7, [97, 98, 99, 0], [1, 2]⟩, ⟨9, [], []⟩] =
    [4,0,0,0, 2,0,0,0, 7,0,0,0, 97,98,99,0, 1,2,0,0, 0,0,0,0, 0,0,0,0, 9,0,0,0] := by decide

/- two records back to back (align 4, LSB): "abc\0"/[1,2] type 7, then a bare 12-byte header of type 9 -/
example : (layout true .ELF64 4 (Slice.ofArray #[4,0,0,0, 2,0,0,0, 7,0,0,0, 97,98,99,0, 1,2,0,0,
                                                  0,0,0,0, 0,0,0,0, 9,0,0,0]) 33 0).length = 2 := by decide

end Elf.C14
