/-
  Props/C08 — the stream parser's memory and I/O are bounded by the stream, not by header claims.
-/
import ElfVerif.Lemmas.Stream
import ElfVerif.Lemmas.StreamTotal
import ElfVerif.Lemmas.ReaderInv
import ElfVerif.Lemmas.LazyIO
import ElfVerif.Lemmas.OpenLazyAny
namespace Elf.C08

/-- Every buffer allocation recorded in the trace is at most the stream length. -/
def AllocOK (r : CachingReader) : Prop := ∀ n, IoEvent.alloc n ∈ r.dev.trace → n ≤ r.streamLen

theorem nextFault_trace (d : Device) (f : Fault) (d1 : Device) (h : d.nextFault = (f, d1)) :
    d1.trace = d.trace := (d.nextFault_eq f d1 h).2.2

theorem seekTo_allocs (d : Device) (p n : Nat) (h : IoEvent.alloc n ∈ (d.seekTo p).2.trace) :
    IoEvent.alloc n ∈ d.trace := by
  unfold Device.seekTo at h
  generalize hq : d.nextFault = q at h
  obtain ⟨f, d1⟩ := q
  have := nextFault_trace d f d1 hq
  cases f <;> simp [this] at h <;> exact h

theorem read_allocs (d : Device) (w n : Nat) (h : IoEvent.alloc n ∈ (d.read w).2.trace) :
    IoEvent.alloc n ∈ d.trace := by
  unfold Device.read at h
  generalize hq : d.nextFault = q at h
  obtain ⟨f, d1⟩ := q
  have := nextFault_trace d f d1 hq
  cases f <;> simp [this] at h <;> exact h

theorem readExact_allocs (fuel : Nat) (d : Device) (k n : Nat)
    (h : IoEvent.alloc n ∈ (Device.readExact fuel d k).2.trace) : IoEvent.alloc n ∈ d.trace := by
  induction fuel generalizing d k with
  | zero => unfold Device.readExact at h; split at h <;> exact h
  | succ f ih =>
    unfold Device.readExact at h
    split at h
    · exact h
    · have hr := read_allocs d k n
      generalize d.read k = q at h hr
      obtain ⟨q1, d1⟩ := q
      cases q1 with
      | got j =>
        cases j with
        | zero => exact hr h
        | succ j => exact hr (ih _ _ h)
      | interrupted => exact hr (ih _ _ h)
      | error => exact hr h

/-- **Bounded memory**: `load_bytes` checks the requested end against the stream length *before*
    allocating, so no buffer larger than the stream is ever requested — whatever sizes, counts and
    offsets the headers claim; oversized requests are `BadOffset` errors. -/
theorem alloc_bounded (r : CachingReader) (s e : Nat) (h : AllocOK r) : AllocOK (r.loadBytes s e).2 := by
  unfold CachingReader.loadBytes
  split
  · exact h
  · split
    · exact h
    · rename_i hle
      have hsk := seekTo_allocs r.dev s
      generalize r.dev.seekTo s = sk at hsk
      obtain ⟨sk1, d1⟩ := sk
      cases sk1 with
      | err er => intro n hn; exact h n (hsk n hn)
      | panic => intro n hn; exact h n (hsk n hn)
      | ok u =>
        simp only
        have hre := readExact_allocs (e - s + d1.sched.length + 1)
          { d1 with trace := d1.trace ++ [IoEvent.alloc (e - s)] } (e - s)
        generalize Device.readExact (e - s + d1.sched.length + 1)
          { d1 with trace := d1.trace ++ [IoEvent.alloc (e - s)] } (e - s) = re at hre
        obtain ⟨re1, d2⟩ := re
        have key : ∀ n, IoEvent.alloc n ∈ d2.trace → n ≤ r.streamLen := by
          intro n hn
          have := hre n hn
          simp only [List.mem_append, List.mem_singleton] at this
          rcases this with h1 | h1
          · exact h n (hsk n h1)
          · injection h1 with h1; omega
        cases re1 with
        | err er => exact key
        | panic => exact key
        | ok u2 =>
          intro n hn
          simp only [List.mem_append, List.mem_singleton] at hn
          rcases hn with h1 | h1
          · exact key n h1
          · cases h1

/-- **Oversized requests are reported as errors**, before any I/O or allocation. -/
theorem oversized_is_error (r : CachingReader) (s e : Nat) (hmiss : (r.lookup s e).isSome = false)
    (h : r.streamLen < e) : r.loadBytes s e = (.err (.BadOffset e), r) := by
  unfold CachingReader.loadBytes
  have : e > r.streamLen := h
  simp [hmiss, this]

/-- **Each range is read at most once while cached**: a cached key costs no I/O at all. -/
theorem cached_costs_nothing (r : CachingReader) (s e : Nat) (h : (r.lookup s e).isSome = true) :
    r.loadBytes s e = (.ok (), r) := by
  unfold CachingReader.loadBytes; simp [h]

/-- **The stream parser never panics** in its reader layer. -/
theorem reader_total (r : CachingReader) (s e : Nat) : (r.readBytes s e).1 ≠ .panic :=
  readBytes_ne_panic r s e

theorem strtabAt_total (s : ElfStream) (idx : Nat) : (s.strtabAt idx).1 ≠ .panic := by
  unfold ElfStream.strtabAt
  split
  · simp
  · split
    · simp
    · rename_i hp; exact absurd hp (dataRange_ne_panic _ _)
    · unfold ElfStream.withReader rbind
      simp only
      rename_i rg _
      have := readBytes_ne_panic s.reader rg.1 rg.2
      generalize s.reader.readBytes rg.1 rg.2 = q at this
      obtain ⟨q1, q2⟩ := q
      cases q1 <;> simp_all

/-- `self.shdrs[0]` in `section_headers_with_strtab` is reached only with a non-empty table. -/
theorem shdrs0_guarded (s : ElfStream) : (s.sectionHeadersWithStrtab).1 ≠ .panic := by
  unfold ElfStream.sectionHeadersWithStrtab
  split
  · simp
  · rename_i hne
    split
    · simp
    · have h0 : ∃ s0, s.shdrs[0]? = some s0 := by
        cases hs : s.shdrs with
        | nil => simp [hs] at hne
        | cons a l => exact ⟨a, by simp⟩
      obtain ⟨s0, hs0⟩ := h0
      split
      · rw [hs0]; exact strtabAt_total s _
      · exact strtabAt_total s _

/-! ## The whole stream parser: never panics, bounded buffers, lazy reads -/

/-- **`open_stream` never panics**, on any contents under any reader schedule. -/
theorem open_never_panics (sp : Spec) (dev : Device) : (openStream sp dev).1 ≠ .panic :=
  openStream_ne_panic sp dev

/-- **No query panics**, in any parser state (any cache contents, any schedule): the `expect` in
    `get_bytes` is always preceded by successful loads of the same keys, `shdrs[0]` is reached only
    with a non-empty `Vec`, the arithmetic is checked. -/
theorem queries_never_panic (s : ElfStream) :
    (∀ sh, (s.sectionData sh).1 ≠ .panic) ∧ (∀ sh, (s.sectionDataAsStrtab sh).1 ≠ .panic) ∧
    (∀ sh, (s.sectionDataAsRels sh).1 ≠ .panic) ∧ (∀ sh, (s.sectionDataAsRelas sh).1 ≠ .panic) ∧
    (∀ sh, (s.sectionDataAsNotes sh).1 ≠ .panic) ∧ (∀ ph, (s.segmentDataAsNotes ph).1 ≠ .panic) ∧
    s.sectionHeadersWithStrtab.1 ≠ .panic ∧ (∀ name, (s.sectionHeaderByName name).1 ≠ .panic) ∧
    s.symbolTable.1 ≠ .panic ∧ s.dynamicSymbolTable.1 ≠ .panic ∧ s.dynamic.1 ≠ .panic ∧
    s.symbolVersionTable.1 ≠ .panic :=
  ⟨sectionData_ne_panic s, sectionDataAsStrtab_ne_panic s, sectionDataAsRels_ne_panic s,
   sectionDataAsRelas_ne_panic s, sectionDataAsNotes_ne_panic s, segmentDataAsNotes_ne_panic s,
   shstrtab_ne_panic s, byName_ne_panic s, symbolTableOfType_ne_panic s _, symbolTableOfType_ne_panic s _,
   dynamic_ne_panic s, symbolVersionTable_ne_panic s⟩

/-- **Every read buffer the parser ever allocates is at most the stream's length** — after
    `open_stream` and after any history of queries, under any schedule, whatever sizes the headers
    claim (the model records one `alloc` event per `vec![0; len]` of `load_bytes`). -/
theorem allocs_bounded_after_open (sp : Spec) (dev : Device) (hclean : ∀ n, IoEvent.alloc n ∉ dev.trace)
    (s : ElfStream) (d : Device) (h : openStream sp dev = (.ok s, d)) : AllocOK s.reader := by
  refine openStream_pinv (P := AllocOK) alloc_bounded sp dev ?_ ?_ s d h
  · intro cr d' hn
    unfold CachingReader.new at hn
    generalize hq : dev.seekEnd = q at hn
    obtain ⟨q1, d1⟩ := q
    cases q1 with
    | panic => simp at hn
    | err e => simp at hn
    | ok n =>
      simp at hn
      obtain ⟨rfl, _⟩ := hn
      unfold Device.seekEnd at hq
      generalize hf : dev.nextFault = nf at hq
      obtain ⟨f, d2⟩ := nf
      have ht := nextFault_trace dev f d2 hf
      intro m hm
      exfalso
      cases f <;> simp at hq <;> (obtain ⟨_, rfl⟩ := hq; simp [ht] at hm; exact hclean m hm)
  · intro r hr; exact hr

theorem allocs_bounded_history (qs : List Query) (s : ElfStream) (h : AllocOK s.reader) :
    AllocOK (qs.foldl (fun s q => q.after s) s).reader :=
  history_pinv (P := AllocOK) alloc_bounded qs s h

/-- **Lazy reads**: a `load_bytes(s, e)` leaves the stream position untouched or inside `[s, e]` —
    the bytes it consumes from the stream are bytes of its own range, under any schedule. -/
theorem load_reads_only_its_range (r : CachingReader) (s e : Nat) (hse : s ≤ e) :
    (r.loadBytes s e).2.dev.pos = r.dev.pos ∨
    (s ≤ (r.loadBytes s e).2.dev.pos ∧ (r.loadBytes s e).2.dev.pos ≤ e) :=
  loadBytes_extent r s e hse

/-- …and so does a whole query: `section_data` leaves the stream position where it was or inside the
    section's own range `[sh_offset, sh_offset + sh_size]` (the other single-range queries have the
    same shape; the per-query list of ranges is compared with the real code's I/O trace). -/
theorem section_data_reads_only_its_range (s : ElfStream) (sh : SectionHeader) :
    (s.sectionData sh).2.reader.dev.pos = s.reader.dev.pos ∨
    (sh.sh_offset ≤ (s.sectionData sh).2.reader.dev.pos ∧
      (s.sectionData sh).2.reader.dev.pos ≤ sh.sh_offset + sh.sh_size) :=
  sectionData_extent s sh

/-! ## Lazy reads at trace level

  `Ext A d d'`: every I/O event recorded between device states `d` and `d'` — each seek, each
  read-buffer allocation, each read call, each completed load — belongs to a range `[s, e)` with
  `A s e`: the seek goes to `s`, the allocation is `e - s` bytes, a read call asks for at most
  `e - s` bytes (`EvIn`). -/

/-- **Each query reads no more than the byte ranges it designates** (`Query.designates`): the range of
    the header passed in; the section-name string table the file header names; the first section of
    the wanted type and the string table its `sh_link` names; the SHT_DYNAMIC section, or PT_DYNAMIC
    when there are no section headers; the version sections and their linked string tables — in any
    state, under any schedule, whatever the outcome. -/
theorem query_io_is_designated (q : Query) (s : ElfStream) :
    Ext (q.designates s) s.reader.dev (q.after s).reader.dev := Query.io_designated q s

/-- **Opening reads no more than the file header and the two header tables**: after measuring the
    stream length, a successful `open_stream` touches only the 16 identification bytes, the rest of the
    file header, whole section-header-sized entries at `e_shoff` and whole program-header-sized
    entries at `e_phoff`. -/
theorem open_is_lazy (sp : Spec) (dev : Device) (s : ElfStream) (d : Device)
    (h : openStream sp dev = (.ok s, d)) :
    ∃ d1, dev.seekEnd.2 = d1 ∧ Ext (OpenRange s.ehdr) d1 s.reader.dev := openStream_lazy sp dev s d h

/-- **Opening is lazy whatever it returns** — success, a parse error, an I/O failure at any call, under any schedule:
    every I/O event after the stream's length was measured lies in the 16 identification bytes; or, only if those
    bytes (as the stream's contents hold them) are an acceptable identification for the spec, in the rest of the file
    header; or, only if that header parses, in whole section-header-sized entries at its `e_shoff` / whole
    program-header-sized entries at its `e_phoff`.  The ranges are determined by the file, not by what went wrong. -/
theorem open_is_lazy_whatever_it_returns (sp : Spec) (dev : Device) :
    Ext (OpenRangeOf sp dev.content) dev.seekEnd.2 (openStream sp dev).2 := openStream_lazy_any sp dev

/-- …in particular a stream whose first 16 bytes are not an acceptable identification is never read beyond them. -/
theorem bad_ident_reads_ident_only (sp : Spec) (dev : Device) (er : Err)
    (h : parseIdent sp (identOf dev.content) = .err er) :
    Ext (fun s e => s = 0 ∧ e = Abi.EI_NIDENT) dev.seekEnd.2 (openStream sp dev).2 := by
  refine Ext.mono (fun s e hse => ?_) (openStream_lazy_any sp dev)
  rcases hse with h0 | ⟨ident, hid, _⟩
  · exact h0
  · rw [h] at hid; cases hid

/- Non-vacuity: sixteen bytes with a wrong magic are such contents -/
example : parseIdent .any (identOf #[0x7f, 0x45, 0x4c, 0x00, 2, 1, 1, 0, 0, 0, 0, 0, 0, 0, 0, 0, 9, 9]) =
    .err (.BadMagic 0x7f 0x45 0x4c 0x00) := by decide

/-- reading `Ext`: a completed load recorded during a query is the load of a designated range -/
theorem loads_are_designated (q : Query) (s : ElfStream) (a len : Nat) (pre post : List IoEvent)
    (h : (q.after s).reader.dev.trace = s.reader.dev.trace ++ pre ++ [.load a len] ++ post) :
    ∃ e, q.designates s a e ∧ len = e - a := by
  obtain ⟨ext, he, hp⟩ := Query.io_designated q s
  have : ext = pre ++ [.load a len] ++ post := by
    rw [he] at h
    have h' : s.reader.dev.trace ++ ext = s.reader.dev.trace ++ (pre ++ [.load a len] ++ post) := by
      simpa [List.append_assoc] using h
    exact List.append_cancel_left h'
  obtain ⟨s', e, hA, hin⟩ := hp (.load a len) (by rw [this]; simp)
  obtain ⟨h1, h2⟩ := hin
  subst h1
  exact ⟨e, hA, h2⟩

end Elf.C08
