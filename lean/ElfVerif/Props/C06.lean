/-
  Props/C06 — zero heap allocation in the slice parser; the crate builds in every feature set.

  What a Lean model can carry here (DESIGN.md §5, C06): the cfg logic.  The gate table
  (`Gen.usages`, `Gen.externCrates`, `Gen.crateNoStd`, `Gen.featureImplies`) is regenerated from
  lib.rs / Cargo.toml / every source file on each run; the theorems are evaluated over all eight
  feature subsets.  rustc remains the judge of "compiles" (exhaustive `cargo check` of the 8
  subsets) and the counting allocator the judge of "allocates" — both are measurements and
  are reported as such.
-/
import ElfVerif.Model.CfgEval
namespace Elf.C06
open Elf.Cfg

/-- a use site is compiled in -/
def active (f : FS) (u : Nat × List Pred) : Bool := evalAll (eff f) u.2

/-- a use site is satisfiable: `std::` needs std; `alloc::` needs `extern crate alloc`;
    a heap type/macro needs std's prelude or the alloc crate -/
def provided (f : FS) (u : Nat × List Pred) : Bool :=
  match u.1 with
  | 0 => externAlloc f
  | 1 => hasStd f
  | _ => hasStd f || externAlloc f

/-- **The cfg gates are sound in every feature set**: wherever an item that names `std::`, `alloc::`
    or a heap-allocating type is compiled in, its provider is available. -/
theorem cfg_sound : allSubsets.all (fun f => Gen.usages.all fun u => !active f u || provided f u) = true := by
  decide +kernel

/-- **With default features disabled the crate depends on neither std nor alloc**: it is
    `no_std`, no `extern crate alloc`/`std` is active, there are no external dependencies, and
    no item naming std, alloc or a heap type is compiled in. -/
theorem no_default_features_is_core_only :
    let f : FS := ⟨false, false, false⟩
    (noStd f && !externAlloc f && !externStd f && Nat.beq Gen.externalDependencies 0 &&
      Gen.usages.all (fun u => !active f u)) = true := by
  decide +kernel

/-- The same holds with only `to_str` enabled (names of constants need no allocator). -/
theorem to_str_only_is_core_only :
    let f : FS := ⟨false, false, true⟩
    (noStd f && !externAlloc f && Gen.usages.all (fun u => !active f u)) = true := by
  decide +kernel

/-- predicted linkage per feature set: (no_std, extern crate alloc, std available) -/
def linkage (f : FS) : Bool × Bool × Bool := (noStd f, externAlloc f, hasStd f)

/-- the table the build matrix is compared against (alloc, std, to_str) ↦ linkage -/
theorem linkage_table :
    allSubsets.map linkage =
      [(true, false, false), (true, true, false), (false, false, true), (true, false, false),
       (false, false, true), (true, true, false), (false, false, true), (false, false, true)] := by
  decide +kernel

/-- `std` implies `alloc` (Cargo.toml), so every `cfg(feature = "alloc")` item is also present
    under `std`. -/
theorem std_implies_alloc : allSubsets.all (fun f => !(eff f).std || (eff f).alloc) = true := by decide +kernel

/- Non-vacuity: there are gated use sites, and some are active under the default features. -/
example : 0 < Gen.usages.length ∧ (Gen.usages.any (active ⟨true, true, true⟩)) = true := by decide +kernel

end Elf.C06
