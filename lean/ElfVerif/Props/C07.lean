/-
  Props/C07 — stream parser and slice parser are observationally equivalent.

  Layer 1 (this file, proved): the reader layer.  Under the cache invariant, whatever
  `read_bytes(s,e)` returns is byte-for-byte what the slice parser's `get_bytes(s..e)` returns on
  the same contents; and with a *legal* reader (short reads, `Interrupted`, but no errors and no
  premature EOF) it succeeds whenever the range fits — for any history and any schedule.
  Layer 2 (this file, proved): `open_stream` ≡ `minimal_parse` — same success set, same file header,
  and the stream's header vectors are exactly the entries of the slice parser's lazy tables.
  Layer 3 (query-by-query refinement up to content equality): see the `*_refines` theorems below
  for the queries proved so far; the others are validated by the correspondence harness against
  both the model and the real `ElfBytes`; see DESIGN.md.
-/
import ElfVerif.Lemmas.Stream
import ElfVerif.Lemmas.OpenEquiv
namespace Elf.C07

/- `Elf.SameBytes a b`: same length and same bytes (the stream hands out copies, so location is not
   comparable). -/

theorem extract_byte (c : Array UInt8) (s n i : Nat) (hi : i < n) (hfit : s + n ≤ c.size) :
    (Slice.ofArray (c.extract s (s + n))).byte i = (Slice.ofArray c).byte (s + i) := by
  unfold Slice.byte Slice.ofArray
  simp only [Nat.zero_add]
  have h1 : i < (c.extract s (s + n)).size := by simp; omega
  have h2 : s + i < c.size := by omega
  rw [Array.getD_eq_getD_getElem?, Array.getD_eq_getD_getElem?]
  simp [Array.getElem?_eq_getElem h1, Array.getElem?_eq_getElem h2]

/-- **read_bytes refines get_bytes**: an Ok answer of the caching reader for `(s, e)` has exactly
    the bytes the slice parser's range read returns on the same contents. -/
theorem read_bytes_refines (r : CachingReader) (s e : Nat) (h : CacheOK r) (hse : s ≤ e) (b : Slice)
    (r' : CachingReader) (hb : r.readBytes s e = (.ok b, r')) :
    ∃ w, (Slice.ofArray r.dev.content).getBytes s e = .ok w ∧ SameBytes b w := by
  obtain ⟨h1, h2, _, _⟩ := readBytes_value r s e h b r' hb
  have hlen : (Slice.ofArray r.dev.content).len = r.dev.content.size := by simp [Slice.ofArray, Slice.len]
  refine ⟨⟨r.dev.content, 0 + s, 0 + e⟩, ?_, ?_⟩
  · unfold Slice.getBytes Slice.get? Out.ofOption
    have : s ≤ e ∧ e ≤ (Slice.ofArray r.dev.content).len := ⟨hse, by rw [hlen]; exact h1⟩
    simp only [this, and_self, if_true]
    simp [Slice.ofArray]
  · subst h2
    have hes : s + (e - s) = e := by omega
    constructor
    · simp [Slice.ofArray, Slice.len]; omega
    · intro i hi
      have hi' : i < e - s := by
        simp [Slice.ofArray, Slice.len] at hi; omega
      rw [extract_byte r.dev.content s (e - s) i hi' (by omega)]
      simp [Slice.byte, Slice.ofArray]

/-- With a legal reader (`Elf.Legal`: short reads and `Interrupted` allowed, never an error, never a
    premature EOF) `read_exact` delivers whenever the bytes exist — however the reads are chopped up
    and however often they are interrupted. -/
theorem read_exact_legal (fuel : Nat) (d : Device) (n : Nat) (hl : Legal d.sched)
    (hfit : d.pos + n ≤ d.content.size) (hf : n + d.sched.length < fuel) :
    (Device.readExact fuel d n).1 = .ok () := by
  obtain ⟨d', h, _⟩ := Device.readExact_legal fuel d n hl hfit hf
  rw [h]

/-- **Completeness of `read_bytes` on a legal reader** (the converse of `read_bytes_refines`): with
    the reader invariant, a range that fits the stream is delivered with the stream's own bytes and
    the invariant is kept; a range that does not fit is an error and the invariant is kept. -/
theorem read_bytes_complete (r : CachingReader) (c : Array UInt8) (s e : Nat) (h : RInv r c) (hse : s ≤ e) :
    (e ≤ c.size → ∃ b r', r.readBytes s e = (.ok b, r') ∧ SameBytes b ⟨c, 0 + s, 0 + e⟩ ∧ RInv r' c) ∧
    (c.size < e → ∃ r', r.readBytes s e = (.err (.BadOffset e), r') ∧ RInv r' c) :=
  readBytes_legal r c s e h hse

/-! ## Layer 2: `open_stream` ≡ `minimal_parse` -/

/-- **Section header table**: over a legal reader the stream's locator succeeds exactly when the
    slice parser's does and its `Vec` holds exactly the entries of the slice parser's lazy table. -/
theorem section_headers_equiv (h : FileHeader) (r : CachingReader) (c : Array UInt8) (hinv : RInv r c)
    (hc63 : c.size < 2 ^ 63) :
    ∃ r', RInv r' c ∧
      ((∃ tbl, findShdrs h (Slice.ofArray c) = .ok tbl ∧ parseSectionHeaders h r = (headersOf tbl, r')) ∨
       (∃ e e', findShdrs h (Slice.ofArray c) = .err e' ∧ parseSectionHeaders h r = (.err e, r'))) :=
  Elf.section_headers_equiv h r c hinv hc63

/-- **Program header table**, likewise (including the `PN_XNUM` escape through `shdr[0].sh_info`). -/
theorem program_headers_equiv (h : FileHeader) (r : CachingReader) (c : Array UInt8) (hinv : RInv r c)
    (hc63 : c.size < 2 ^ 63) :
    ∃ r', RInv r' c ∧
      ((∃ tbl, findPhdrs h (Slice.ofArray c) = .ok tbl ∧ parseProgramHeaders h r = (headersOf tbl, r')) ∨
       (∃ e e', findPhdrs h (Slice.ofArray c) = .err e' ∧ parseProgramHeaders h r = (.err e, r'))) :=
  Elf.program_headers_equiv h r c hinv hc63

/-- **Opening through a stream succeeds exactly when opening the same bytes as a slice succeeds,
    and then yields the identical file header, section headers and program headers** — for every
    content (below the 2^63 bytes a Rust slice can hold), either byte-order policy, and every legal
    reader schedule. -/
theorem open_equiv (sp : Spec) (dev : Device) (hl : Legal dev.sched) (hc63 : dev.content.size < 2 ^ 63) :
    (∃ f s d, minimalParse sp (Slice.ofArray dev.content) = .ok f ∧ openStream sp dev = (.ok s, d) ∧
        s.ehdr = f.ehdr ∧ headersOf f.shdrs = .ok s.shdrs ∧ headersOf f.phdrs = .ok s.phdrs ∧
        RInv s.reader dev.content) ∨
    (∃ e e' d, minimalParse sp (Slice.ofArray dev.content) = .err e' ∧ openStream sp dev = (.err e, d)) :=
  Elf.open_equiv sp dev hl hc63

/-- success sets coincide (corollary, as an iff) -/
theorem open_ok_iff (sp : Spec) (dev : Device) (hl : Legal dev.sched) (hc63 : dev.content.size < 2 ^ 63) :
    (∃ f, minimalParse sp (Slice.ofArray dev.content) = .ok f) ↔ (∃ s, (openStream sp dev).1 = .ok s) := by
  rcases Elf.open_equiv sp dev hl hc63 with ⟨f, s, d, h1, h2, _⟩ | ⟨e, e', d, h1, h2⟩
  · exact ⟨fun _ => ⟨s, by rw [h2]⟩, fun _ => ⟨f, h1⟩⟩
  · constructor
    · intro ⟨f, hf⟩; rw [h1] at hf; cases hf
    · intro ⟨s, hs⟩; rw [h2] at hs; cases hs

/- Non-vacuity -/
example : Legal [.short 2, .interrupted, .none] := by
  intro f hf; simp at hf; rcases hf with rfl | rfl | rfl <;> simp

/-- a 64-byte ELF64 little-endian header with no tables -/
def hdr64 : Array UInt8 := #[0x7f,0x45,0x4c,0x46, 2,1,1,0, 0,0,0,0,0,0,0,0,
  2,0, 62,0, 1,0,0,0, 0,0,0,0,0,0,0,0, 0,0,0,0,0,0,0,0, 0,0,0,0,0,0,0,0, 0,0,0,0, 64,0, 56,0, 0,0, 64,0, 0,0, 0,0]

/- Non-vacuity of `open_equiv`: a legal schedule with a short and an interrupted read on which both
   parsers succeed (first disjunct), and an 8-byte file on which both fail (second disjunct). -/
example : (minimalParse .any (Slice.ofArray hdr64)).isOk = true := by decide
example : (openStream .any ⟨hdr64, 0, [.short 3, .interrupted], []⟩).1.isOk = true := by decide +kernel
example : (minimalParse .any (Slice.ofArray (hdr64.extract 0 8))).isOk = false := by decide
example : (openStream .any ⟨hdr64.extract 0 8, 0, [.short 3], []⟩).1.isOk = false := by decide +kernel

end Elf.C07
