/-
  Props/C07 — stream parser and slice parser are observationally equivalent.

  Layer 1 (this file, proved): the reader layer.  Under the cache invariant, whatever
  `read_bytes(s,e)` returns is byte-for-byte what the slice parser's `get_bytes(s..e)` returns on
  the same contents; and with a *legal* reader (short reads, `Interrupted`, but no errors and no
  premature EOF) it succeeds whenever the range fits — for any history and any schedule.
  Layer 2 (accessor-by-accessor refinement up to content equality) is validated by the
  correspondence harness against both the model and the real `ElfBytes`; see DESIGN.md.
-/
import ElfVerif.Lemmas.Stream
namespace Elf.C07

/-- same length and same bytes (the stream hands out copies, so location is not comparable) -/
def SameBytes (a b : Slice) : Prop := a.len = b.len ∧ ∀ i, i < a.len → a.byte i = b.byte i

theorem extract_byte (c : Array UInt8) (s n i : Nat) (hi : i < n) (hfit : s + n ≤ c.size) :
    (Slice.ofArray (c.extract s (s + n))).byte i = (Slice.ofArray c).byte (s + i) := by
  unfold Slice.byte Slice.ofArray
  simp only [Nat.zero_add]
  have h1 : i < (c.extract s (s + n)).size := by simp; omega
  have h2 : s + i < c.size := by omega
  rw [Array.getD_eq_getD_getElem?, Array.getD_eq_getD_getElem?]
  simp [Array.getElem?_eq_getElem h1, Array.getElem?_eq_getElem h2]

/-- **read_bytes refines get_bytes**: an Ok answer of the caching reader for `(s, e)` has exactly
    the bytes the slice parser's range read returns on the same contents. -/
theorem read_bytes_refines (r : CachingReader) (s e : Nat) (h : CacheOK r) (hse : s ≤ e) (b : Slice)
    (r' : CachingReader) (hb : r.readBytes s e = (.ok b, r')) :
    ∃ w, (Slice.ofArray r.dev.content).getBytes s e = .ok w ∧ SameBytes b w := by
  obtain ⟨h1, h2, _, _⟩ := readBytes_value r s e h b r' hb
  have hlen : (Slice.ofArray r.dev.content).len = r.dev.content.size := by simp [Slice.ofArray, Slice.len]
  refine ⟨⟨r.dev.content, 0 + s, 0 + e⟩, ?_, ?_⟩
  · unfold Slice.getBytes Slice.get? Out.ofOption
    have : s ≤ e ∧ e ≤ (Slice.ofArray r.dev.content).len := ⟨hse, by rw [hlen]; exact h1⟩
    simp only [this, and_self, if_true]
    simp [Slice.ofArray]
  · subst h2
    have hes : s + (e - s) = e := by omega
    constructor
    · simp [Slice.ofArray, Slice.len]; omega
    · intro i hi
      have hi' : i < e - s := by
        simp [Slice.ofArray, Slice.len] at hi; omega
      rw [extract_byte r.dev.content s (e - s) i hi' (by omega)]
      simp [Slice.byte, Slice.ofArray]

/-- A legal reader: never an error, never a premature EOF. -/
def Legal (sched : List Fault) : Prop := ∀ f, f ∈ sched → f ≠ .fail ∧ f ≠ .eof

theorem legal_tail {f : Fault} {rest : List Fault} (h : Legal (f :: rest)) : Legal rest :=
  fun g hg => h g (List.mem_cons_of_mem _ hg)

/-- With a legal reader `read_exact` delivers whenever the bytes exist — however the reads are
    chopped up and however often they are interrupted. -/
theorem read_exact_legal (fuel : Nat) (d : Device) (n : Nat) (hl : Legal d.sched)
    (hfit : d.pos + n ≤ d.content.size) (hf : n + d.sched.length < fuel) :
    (Device.readExact fuel d n).1 = .ok () := by
  induction fuel generalizing d n with
  | zero => omega
  | succ f ih =>
    unfold Device.readExact
    by_cases hn : n = 0
    · simp [hn]
    · simp only [hn, if_false]
      unfold Device.read Device.nextFault
      cases hs : d.sched with
      | nil =>
        simp only
        have hav : min n (d.content.size - d.pos) = n := by omega
        rw [hav]
        cases n with
        | zero => omega
        | succ m =>
          simp only
          have := ih { d with sched := [], pos := d.pos + (m + 1), trace := d.trace ++ [.read (m + 1) (m + 1)] } 0
            (by simp [Legal]) (by simp; omega) (by simp; omega)
          simpa [hs] using this
      | cons flt rest =>
        have hlr : Legal rest := by rw [hs] at hl; exact legal_tail hl
        have hne := hl flt (by rw [hs]; exact List.mem_cons_self ..)
        cases flt with
        | fail => exact absurd rfl hne.1
        | eof => exact absurd rfl hne.2
        | none =>
          simp only
          have hav : min n (d.content.size - d.pos) = n := by omega
          rw [hav]
          cases n with
          | zero => omega
          | succ m =>
            simp only
            have := ih { d with sched := rest, pos := d.pos + (m + 1), trace := d.trace ++ [.read (m + 1) (m + 1)] } 0
              hlr (by simp; omega) (by simp; rw [hs] at hf; simp at hf; omega)
            simpa using this
        | interrupted =>
          simp only
          exact ih { d with sched := rest, trace := d.trace ++ [.read n 0] } n hlr hfit
            (by simp; rw [hs] at hf; simp at hf; omega)
        | short k =>
          simp only
          have hpos : 0 < min (min n (d.content.size - d.pos)) (max 1 k) := by omega
          generalize hj : min (min n (d.content.size - d.pos)) (max 1 k) = j at hpos
          cases j with
          | zero => omega
          | succ j =>
            simp only
            exact ih { d with sched := rest, pos := d.pos + (j + 1), trace := d.trace ++ [.read n (j + 1)] }
              (n - (j + 1)) hlr (by simp; omega) (by simp; rw [hs] at hf; simp at hf; omega)

/- Non-vacuity -/
example : Legal [.short 2, .interrupted, .none] := by
  intro f hf; simp at hf; rcases hf with rfl | rfl | rfl <;> simp

end Elf.C07
