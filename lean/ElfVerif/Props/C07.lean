/-
  Props/C07 — stream parser and slice parser are observationally equivalent.

  Layer 1 (this file, proved): the reader layer.  Under the cache invariant, whatever
  `read_bytes(s,e)` returns is byte-for-byte what the slice parser's `get_bytes(s..e)` returns on
  the same contents; and with a *legal* reader (short reads, `Interrupted`, but no errors and no
  premature EOF) it succeeds whenever the range fits — for any history and any schedule.
  Layer 2 (this file, proved): `open_stream` ≡ `minimal_parse` — same success set, same file header,
  and the stream's header vectors are exactly the entries of the slice parser's lazy tables.
  Layer 3 (this file, proved): query-by-query refinement up to content equality in every state
  reachable from `open_stream` (any order, any repetition) for section data, the typed views
  (strtab, rel, rela, notes), segment notes, the section-name string table, lookup by name, both
  symbol tables, the dynamic table and the symbol version table.  The correspondence harness
  compares the same queries between the model, the real `ElfStream` and the real `ElfBytes`.
-/
import ElfVerif.Lemmas.Stream
import ElfVerif.Lemmas.OpenEquiv
import ElfVerif.Lemmas.QueryEquiv
import ElfVerif.Lemmas.QueryConverse
namespace Elf.C07

/- `Elf.SameBytes a b`: same length and same bytes (the stream hands out copies, so location is not
   comparable). -/

theorem extract_byte (c : Array UInt8) (s n i : Nat) (hi : i < n) (hfit : s + n ≤ c.size) :
    (Slice.ofArray (c.extract s (s + n))).byte i = (Slice.ofArray c).byte (s + i) := by
  unfold Slice.byte Slice.ofArray
  simp only [Nat.zero_add]
  have h1 : i < (c.extract s (s + n)).size := by simp; omega
  have h2 : s + i < c.size := by omega
  rw [Array.getD_eq_getD_getElem?, Array.getD_eq_getD_getElem?]
  simp [Array.getElem?_eq_getElem h1, Array.getElem?_eq_getElem h2]

/-- **read_bytes refines get_bytes**: an Ok answer of the caching reader for `(s, e)` has exactly
    the bytes the slice parser's range read returns on the same contents. -/
theorem read_bytes_refines (r : CachingReader) (s e : Nat) (h : CacheOK r) (hse : s ≤ e) (b : Slice)
    (r' : CachingReader) (hb : r.readBytes s e = (.ok b, r')) :
    ∃ w, (Slice.ofArray r.dev.content).getBytes s e = .ok w ∧ SameBytes b w := by
  obtain ⟨h1, h2, _, _⟩ := readBytes_value r s e h b r' hb
  have hlen : (Slice.ofArray r.dev.content).len = r.dev.content.size := by simp [Slice.ofArray, Slice.len]
  refine ⟨⟨r.dev.content, 0 + s, 0 + e⟩, ?_, ?_⟩
  · unfold Slice.getBytes Slice.get? Out.ofOption
    have : s ≤ e ∧ e ≤ (Slice.ofArray r.dev.content).len := ⟨hse, by rw [hlen]; exact h1⟩
    simp only [this, and_self, if_true]
    simp [Slice.ofArray]
  · subst h2
    have hes : s + (e - s) = e := by omega
    constructor
    · simp [Slice.ofArray, Slice.len]; omega
    · intro i hi
      have hi' : i < e - s := by
        simp [Slice.ofArray, Slice.len] at hi; omega
      rw [extract_byte r.dev.content s (e - s) i hi' (by omega)]
      simp [Slice.byte, Slice.ofArray]

/-- With a legal reader (`Elf.Legal`: short reads and `Interrupted` allowed, never an error, never a
    premature EOF) `read_exact` delivers whenever the bytes exist — however the reads are chopped up
    and however often they are interrupted. -/
theorem read_exact_legal (fuel : Nat) (d : Device) (n : Nat) (hl : Legal d.sched)
    (hfit : d.pos + n ≤ d.content.size) (hf : n + d.sched.length < fuel) :
    (Device.readExact fuel d n).1 = .ok () := by
  obtain ⟨d', h, _⟩ := Device.readExact_legal fuel d n hl hfit hf
  rw [h]

/-- **Completeness of `read_bytes` on a legal reader** (the converse of `read_bytes_refines`): with
    the reader invariant, a range that fits the stream is delivered with the stream's own bytes and
    the invariant is kept; a range that does not fit is an error and the invariant is kept. -/
theorem read_bytes_complete (r : CachingReader) (c : Array UInt8) (s e : Nat) (h : RInv r c) (hse : s ≤ e) :
    (e ≤ c.size → ∃ b r', r.readBytes s e = (.ok b, r') ∧ SameBytes b ⟨c, 0 + s, 0 + e⟩ ∧ RInv r' c) ∧
    (c.size < e → ∃ r', r.readBytes s e = (.err (.BadOffset e), r') ∧ RInv r' c) :=
  readBytes_legal r c s e h hse

/-! ## Layer 2: `open_stream` ≡ `minimal_parse` -/

/-- **Section header table**: over a legal reader the stream's locator succeeds exactly when the
    slice parser's does and its `Vec` holds exactly the entries of the slice parser's lazy table. -/
theorem section_headers_equiv (h : FileHeader) (r : CachingReader) (c : Array UInt8) (hinv : RInv r c)
    (hc63 : c.size < 2 ^ 63) :
    ∃ r', RInv r' c ∧
      ((∃ tbl, findShdrs h (Slice.ofArray c) = .ok tbl ∧ parseSectionHeaders h r = (headersOf tbl, r')) ∨
       (∃ e e', findShdrs h (Slice.ofArray c) = .err e' ∧ parseSectionHeaders h r = (.err e, r'))) :=
  Elf.section_headers_equiv h r c hinv hc63

/-- **Program header table**, likewise (including the `PN_XNUM` escape through `shdr[0].sh_info`). -/
theorem program_headers_equiv (h : FileHeader) (r : CachingReader) (c : Array UInt8) (hinv : RInv r c)
    (hc63 : c.size < 2 ^ 63) :
    ∃ r', RInv r' c ∧
      ((∃ tbl, findPhdrs h (Slice.ofArray c) = .ok tbl ∧ parseProgramHeaders h r = (headersOf tbl, r')) ∨
       (∃ e e', findPhdrs h (Slice.ofArray c) = .err e' ∧ parseProgramHeaders h r = (.err e, r'))) :=
  Elf.program_headers_equiv h r c hinv hc63

/-- **Opening through a stream succeeds exactly when opening the same bytes as a slice succeeds,
    and then yields the identical file header, section headers and program headers** — for every
    content (below the 2^63 bytes a Rust slice can hold), either byte-order policy, and every legal
    reader schedule. -/
theorem open_equiv (sp : Spec) (dev : Device) (hl : Legal dev.sched) (hc63 : dev.content.size < 2 ^ 63) :
    (∃ f s d, minimalParse sp (Slice.ofArray dev.content) = .ok f ∧ openStream sp dev = (.ok s, d) ∧
        s.ehdr = f.ehdr ∧ headersOf f.shdrs = .ok s.shdrs ∧ headersOf f.phdrs = .ok s.phdrs ∧
        RInv s.reader dev.content) ∨
    (∃ e e' d, minimalParse sp (Slice.ofArray dev.content) = .err e' ∧ openStream sp dev = (.err e, d)) :=
  Elf.open_equiv sp dev hl hc63

/-- success sets coincide (corollary, as an iff) -/
theorem open_ok_iff (sp : Spec) (dev : Device) (hl : Legal dev.sched) (hc63 : dev.content.size < 2 ^ 63) :
    (∃ f, minimalParse sp (Slice.ofArray dev.content) = .ok f) ↔ (∃ s, (openStream sp dev).1 = .ok s) := by
  rcases Elf.open_equiv sp dev hl hc63 with ⟨f, s, d, h1, h2, _⟩ | ⟨e, e', d, h1, h2⟩
  · exact ⟨fun _ => ⟨s, by rw [h2]⟩, fun _ => ⟨f, h1⟩⟩
  · constructor
    · intro ⟨f, hf⟩; rw [h1] at hf; cases hf
    · intro ⟨s, hs⟩; rw [h2] at hs; cases hs

/- Non-vacuity -/
example : Legal [.short 2, .interrupted, .none] := by
  intro f hf; simp at hf; rcases hf with rfl | rfl | rfl <;> simp

/-! ## Layer 3: every query, in any order, any number of times

  `Sim s f c` (Lemmas/QueryEquiv.lean): stream state `s`, slice parser `f` and contents `c` agree —
  `f` parses `c`, same file header, the header `Vec`s list the lazy tables' entries, and the reader
  invariant `RInv` (cache = the file's bytes, legal schedule) holds.  `open_sim` establishes it,
  `history_sim` keeps it through every history of queries whatever their outcomes, and each
  `*_refines` theorem needs nothing else: so each holds in every reachable state.

  Results are compared up to content: `SameBytes` for byte ranges, `IterSim`/`NoteSim`/`TableSim`/
  `SymVerSim` for iterators and tables over them (same parser, byte order, class, cursor/count,
  and `SameBytes` data) — the stream hands out copies, so addresses are not comparable; what an
  iterator or table yields depends only on those components (`Iter.collect_congr`, `Table.get_congr`,
  `parse_congr`, `strGet_congr`). -/

/-- **Opening establishes the simulation.** -/
theorem open_sim (sp : Spec) (dev : Device) (hl : Legal dev.sched) (hc63 : dev.content.size < 2 ^ 63)
    (f : ElfBytes) (hf : minimalParse sp (Slice.ofArray dev.content) = .ok f) :
    ∃ s d, openStream sp dev = (.ok s, d) ∧ Sim s f dev.content :=
  Elf.open_sim sp dev hl hc63 f hf

/-- **Any order, any number of times**: the simulation holds after every history of queries. -/
theorem history_sim (qs : List Query) (s : ElfStream) (f : ElfBytes) (c : Array UInt8) (hs : Sim s f c) :
    Sim (qs.foldl (fun s q => q.after s) s) f c :=
  Elf.history_sim qs s f c hs

/-- …and therefore in every state reachable from `open_stream` by queries. -/
theorem reachable_sim (sp : Spec) (dev : Device) (hl : Legal dev.sched) (hc63 : dev.content.size < 2 ^ 63)
    (f : ElfBytes) (hf : minimalParse sp (Slice.ofArray dev.content) = .ok f) (qs : List Query) :
    ∃ s d, openStream sp dev = (.ok s, d) ∧ Sim (qs.foldl (fun s q => q.after s) s) f dev.content := by
  obtain ⟨s, d, h1, h2⟩ := Elf.open_sim sp dev hl hc63 f hf
  exact ⟨s, d, h1, Elf.history_sim qs s f _ h2⟩

/-- `section_data` (sections not flagged `SHF_COMPRESSED`, `SHT_NOBITS` included) -/
theorem section_data_refines (s : ElfStream) (f : ElfBytes) (c : Array UInt8) (hs : Sim s f c) (sh : SectionHeader)
    (hnc : sh.sh_flags &&& Abi.SHF_COMPRESSED = 0) (w : Slice) (ch : Option CompressionHeader)
    (h : f.sectionData sh = .ok (w, ch)) :
    ∃ b s', s.sectionData sh = (.ok (b, ch), s') ∧ SameBytes b w ∧ Sim s' f c :=
  sectionData_refines s f c hs sh hnc w ch h

/-- `section_data_as_strtab` -/
theorem section_strtab_refines (s : ElfStream) (f : ElfBytes) (c : Array UInt8) (hs : Sim s f c) (sh : SectionHeader)
    (hnc : sh.sh_flags &&& Abi.SHF_COMPRESSED = 0) (w : Slice) (h : f.sectionDataAsStrtab sh = .ok w) :
    ∃ b s', s.sectionDataAsStrtab sh = (.ok b, s') ∧ SameBytes b w ∧ Sim s' f c :=
  strtab_refines s f c hs sh hnc w h

/-- `section_data_as_rels` / `section_data_as_relas` (relocations) -/
theorem section_rels_refines (s : ElfStream) (f : ElfBytes) (c : Array UInt8) (hs : Sim s f c) (sh : SectionHeader)
    (hnc : sh.sh_flags &&& Abi.SHF_COMPRESSED = 0) (it : Iter Rel) (h : f.sectionDataAsRels sh = .ok it) :
    ∃ it' s', s.sectionDataAsRels sh = (.ok it', s') ∧ IterSim it' it ∧ Sim s' f c :=
  rels_refines s f c hs sh hnc it h

theorem section_relas_refines (s : ElfStream) (f : ElfBytes) (c : Array UInt8) (hs : Sim s f c) (sh : SectionHeader)
    (hnc : sh.sh_flags &&& Abi.SHF_COMPRESSED = 0) (it : Iter Rela) (h : f.sectionDataAsRelas sh = .ok it) :
    ∃ it' s', s.sectionDataAsRelas sh = (.ok it', s') ∧ IterSim it' it ∧ Sim s' f c :=
  relas_refines s f c hs sh hnc it h

/-- `section_data_as_notes` / `segment_data_as_notes` -/
theorem section_notes_refines (s : ElfStream) (f : ElfBytes) (c : Array UInt8) (hs : Sim s f c) (sh : SectionHeader)
    (hnc : sh.sh_flags &&& Abi.SHF_COMPRESSED = 0) (it : NoteIter) (h : f.sectionDataAsNotes sh = .ok it) :
    ∃ it' s', s.sectionDataAsNotes sh = (.ok it', s') ∧ NoteSim it' it ∧ Sim s' f c :=
  Elf.section_notes_refines s f c hs sh hnc it h

theorem segment_notes_refines (s : ElfStream) (f : ElfBytes) (c : Array UInt8) (hs : Sim s f c) (ph : ProgramHeader)
    (it : NoteIter) (h : f.segmentDataAsNotes ph = .ok it) :
    ∃ it' s', s.segmentDataAsNotes ph = (.ok it', s') ∧ NoteSim it' it ∧ Sim s' f c :=
  Elf.segment_notes_refines s f c hs ph it h

/-- `section_headers_with_strtab` (the section-name string table) -/
theorem shstrtab_refines (s : ElfStream) (f : ElfBytes) (c : Array UInt8) (hs : Sim s f c)
    (ot : Option (Table SectionHeader)) (ostr : Option Slice)
    (h : f.sectionHeadersWithStrtab = .ok (ot, ostr)) :
    ∃ o' s', s.sectionHeadersWithStrtab = (.ok o', s') ∧ OptSame o' ostr ∧ Sim s' f c ∧ ot = f.shdrs :=
  strtabLookup_refines s f c hs ot ostr h

/-- `section_header_by_name` (name lookup): the very same header, or the same `None` -/
theorem by_name_refines (s : ElfStream) (f : ElfBytes) (c : Array UInt8) (hs : Sim s f c) (name : Slice)
    (o : Option SectionHeader) (h : f.sectionHeaderByName name = .ok o) :
    ∃ s', s.sectionHeaderByName name = (.ok o, s') ∧ Sim s' f c :=
  byName_refines s f c hs name o h

/-- `symbol_table` and `dynamic_symbol_table` (`ty = SHT_SYMTAB` / `SHT_DYNSYM`) -/
theorem symbol_table_refines (s : ElfStream) (f : ElfBytes) (c : Array UInt8) (hs : Sim s f c) (ty : Nat)
    (o : Option (Table Symbol × Slice)) (h : f.symbolTableOfType ty = .ok o) :
    ∃ o' s', s.symbolTableOfType ty = (.ok o', s') ∧ Sim s' f c ∧
      (match o, o' with
       | none, none => True
       | some (t, st), some (t', st') => TableSim t' t ∧ SameBytes st' st
       | _, _ => False) :=
  symtab_refines s f c hs ty o h

/-- `dynamic` — scoped, as the property is, to files whose section header table is absent or
    non-empty and to an uncompressed `.dynamic` section -/
theorem dynamic_table_refines (s : ElfStream) (f : ElfBytes) (c : Array UInt8) (hs : Sim s f c)
    (hscope : f.shdrs = none ∨ s.shdrs ≠ [])
    (hnc : ∀ sh, s.shdrs.find? (fun sh => sh.sh_type == Abi.SHT_DYNAMIC) = some sh →
      sh.sh_flags &&& Abi.SHF_COMPRESSED = 0)
    (o : Option (Table Dyn)) (h : f.dynamic = .ok o) :
    ∃ o' s', s.dynamic = (.ok o', s') ∧ Sim s' f c ∧
      (match o, o' with
       | none, none => True
       | some t, some t' => TableSim t' t
       | _, _ => False) :=
  dynamic_refines s f c hs hscope hnc o h

/-- `symbol_version_table` -/
theorem symbol_version_table_refines (s : ElfStream) (f : ElfBytes) (c : Array UInt8) (hs : Sim s f c)
    (o : Option SymbolVersionTable) (h : f.symbolVersionTable = .ok o) :
    ∃ o' s', s.symbolVersionTable = (.ok o', s') ∧ Sim s' f c ∧
      (match o, o' with
       | none, none => True
       | some t, some t' => SymVerSim t' t
       | _, _ => False) :=
  symver_refines s f c hs o h

/-! ## Success and failure coincide exactly (section data, segment notes, both symbol tables, the
     symbol version table)

  For these queries the property asks for more than refinement: the stream query succeeds *exactly*
  when the slice query does.  The converse direction — a stream answer implies a slice answer with
  the same content — is proved for each (Lemmas/QueryConverse.lean); together with the refinement
  theorems above this gives the equivalences below. -/

theorem section_data_converse (s : ElfStream) (f : ElfBytes) (c : Array UInt8) (hs : Sim s f c) (sh : SectionHeader)
    (hnc : sh.sh_flags &&& Abi.SHF_COMPRESSED = 0) (b : Slice) (ch : Option CompressionHeader) (s' : ElfStream)
    (h : s.sectionData sh = (.ok (b, ch), s')) :
    ∃ w, f.sectionData sh = .ok (w, ch) ∧ SameBytes b w :=
  sectionData_converse s f c hs sh hnc b ch s' h

theorem segment_notes_converse' (s : ElfStream) (f : ElfBytes) (c : Array UInt8) (hs : Sim s f c) (ph : ProgramHeader)
    (it' : NoteIter) (s' : ElfStream) (h : s.segmentDataAsNotes ph = (.ok it', s')) :
    ∃ it, f.segmentDataAsNotes ph = .ok it ∧ NoteSim it' it :=
  segment_notes_converse s f c hs ph it' s' h

theorem symbol_table_converse (s : ElfStream) (f : ElfBytes) (c : Array UInt8) (hs : Sim s f c) (ty : Nat)
    (o' : Option (Table Symbol × Slice)) (s' : ElfStream) (h : s.symbolTableOfType ty = (.ok o', s')) :
    ∃ o, f.symbolTableOfType ty = .ok o ∧
      (match o, o' with
       | none, none => True
       | some (t, st), some (t', st') => TableSim t' t ∧ SameBytes st' st
       | _, _ => False) :=
  symtab_converse s f c hs ty o' s' h

theorem symbol_version_table_converse (s : ElfStream) (f : ElfBytes) (c : Array UInt8) (hs : Sim s f c)
    (o' : Option SymbolVersionTable) (s' : ElfStream) (h : s.symbolVersionTable = (.ok o', s')) :
    ∃ o, f.symbolVersionTable = .ok o ∧
      (match o, o' with
       | none, none => True
       | some t, some t' => SymVerSim t' t
       | _, _ => False) :=
  symver_converse s f c hs o' s' h

/-- **success/failure coincide**: `section_data` (uncompressed section) -/
theorem section_data_ok_iff (s : ElfStream) (f : ElfBytes) (c : Array UInt8) (hs : Sim s f c) (sh : SectionHeader)
    (hnc : sh.sh_flags &&& Abi.SHF_COMPRESSED = 0) :
    (f.sectionData sh).isOk = (s.sectionData sh).1.isOk := by
  cases hf : f.sectionData sh with
  | ok x =>
    obtain ⟨w, ch⟩ := x
    obtain ⟨b, s', h1, _, _⟩ := sectionData_refines s f c hs sh hnc w ch hf
    rw [h1]; rfl
  | err e =>
    cases hq : (s.sectionData sh) with
    | mk q1 q2 =>
      cases q1 with
      | ok y =>
        obtain ⟨b, ch⟩ := y
        obtain ⟨w, h1, _⟩ := sectionData_converse s f c hs sh hnc b ch q2 hq
        rw [hf] at h1; cases h1
      | err e' => rfl
      | panic => rfl
  | panic =>
    exact absurd hf (C01.section_data_total f sh)

/-- **success/failure coincide**: `segment_data_as_notes` -/
theorem segment_notes_ok_iff (s : ElfStream) (f : ElfBytes) (c : Array UInt8) (hs : Sim s f c) (ph : ProgramHeader) :
    (f.segmentDataAsNotes ph).isOk = (s.segmentDataAsNotes ph).1.isOk := by
  cases hf : f.segmentDataAsNotes ph with
  | ok it =>
    obtain ⟨it', s', h1, _, _⟩ := Elf.segment_notes_refines s f c hs ph it hf
    rw [h1]; rfl
  | err e =>
    cases hq : (s.segmentDataAsNotes ph) with
    | mk q1 q2 =>
      cases q1 with
      | ok y =>
        obtain ⟨it, h1, _⟩ := segment_notes_converse s f c hs ph y q2 hq
        rw [hf] at h1; cases h1
      | err e' => rfl
      | panic => rfl
  | panic =>
    exact absurd hf (C01.segment_data_as_notes_total f ph)

/-- **success/failure coincide**: `symbol_table` / `dynamic_symbol_table` -/
theorem symbol_table_ok_iff (s : ElfStream) (f : ElfBytes) (c : Array UInt8) (hs : Sim s f c) (ho : C01.Opened f) (ty : Nat) :
    (f.symbolTableOfType ty).isOk = (s.symbolTableOfType ty).1.isOk := by
  cases hf : f.symbolTableOfType ty with
  | ok o =>
    obtain ⟨o', s', h1, _, _⟩ := symtab_refines s f c hs ty o hf
    rw [h1]; rfl
  | err e =>
    cases hq : (s.symbolTableOfType ty) with
    | mk q1 q2 =>
      cases q1 with
      | ok y =>
        obtain ⟨o, h1, _⟩ := symtab_converse s f c hs ty y q2 hq
        rw [hf] at h1; cases h1
      | err e' => rfl
      | panic => rfl
  | panic =>
    exact absurd hf (C01.symbol_table_of_type_total f ho ty)

/-- **success/failure coincide**: `symbol_version_table` -/
theorem symbol_version_table_ok_iff (s : ElfStream) (f : ElfBytes) (c : Array UInt8) (hs : Sim s f c) (ho : C01.Opened f) :
    f.symbolVersionTable.isOk = s.symbolVersionTable.1.isOk := by
  cases hf : f.symbolVersionTable with
  | ok o =>
    obtain ⟨o', s', h1, _, _⟩ := symver_refines s f c hs o hf
    rw [h1]; rfl
  | err e =>
    cases hq : s.symbolVersionTable with
    | mk q1 q2 =>
      cases q1 with
      | ok y =>
        obtain ⟨o, h1, _⟩ := symver_converse s f c hs y q2 hq
        rw [hf] at h1; cases h1
      | err e' => rfl
      | panic => rfl
  | panic =>
    exact absurd hf (C01.symbol_version_table_total f ho)

/- The scoping of `dynamic_table_refines` is necessary, not a proof artefact: on this 184-byte
   file (section header table present but empty: `e_shoff ≠ 0`, `e_shnum = 0`, `shdr[0].sh_size = 0`;
   one `PT_DYNAMIC` segment) the slice parser answers `None` from the empty section table while the
   stream parser falls through to the segments and answers `Some`. -/
def scopeFile : Array UInt8 := #[0x7f,0x45,0x4c,0x46, 2,1,1,0, 0,0,0,0,0,0,0,0,
  2,0, 62,0, 1,0,0,0, 0,0,0,0,0,0,0,0, 128,0,0,0,0,0,0,0, 64,0,0,0,0,0,0,0, 0,0,0,0, 64,0, 56,0, 1,0, 64,0, 0,0, 0,0,
  -- shdr[0] (all zero: sh_size = 0 ⇒ zero sections)
  0,0,0,0, 0,0,0,0, 0,0,0,0,0,0,0,0, 0,0,0,0,0,0,0,0, 0,0,0,0,0,0,0,0, 0,0,0,0,0,0,0,0, 0,0,0,0, 0,0,0,0, 0,0,0,0,0,0,0,0, 0,0,0,0,0,0,0,0,
  -- phdr[0]: PT_DYNAMIC, offset 0, filesz 16
  2,0,0,0, 0,0,0,0, 0,0,0,0,0,0,0,0, 0,0,0,0,0,0,0,0, 0,0,0,0,0,0,0,0, 16,0,0,0,0,0,0,0, 16,0,0,0,0,0,0,0, 8,0,0,0,0,0,0,0]
set_option maxRecDepth 4096 in
example : scopeFile.size = 184 := by decide +kernel
example : (match minimalParse .any (Slice.ofArray scopeFile) with
    | .ok f => (match f.dynamic with | .ok none => f.shdrs.isSome | _ => false)
    | _ => false) = true := by decide +kernel
example : (match (openStream .any ⟨scopeFile, 0, [], []⟩).1 with
    | .ok s => (match s.dynamic.1 with | .ok (some _) => s.shdrs.isEmpty | _ => false)
    | _ => false) = true := by decide +kernel

/-- a 64-byte ELF64 little-endian header with no tables -/
def hdr64 : Array UInt8 := #[0x7f,0x45,0x4c,0x46, 2,1,1,0, 0,0,0,0,0,0,0,0,
  2,0, 62,0, 1,0,0,0, 0,0,0,0,0,0,0,0, 0,0,0,0,0,0,0,0, 0,0,0,0,0,0,0,0, 0,0,0,0, 64,0, 56,0, 0,0, 64,0, 0,0, 0,0]

/- Non-vacuity of `open_equiv`: a legal schedule with a short and an interrupted read on which both
   parsers succeed (first disjunct), and an 8-byte file on which both fail (second disjunct). -/
example : (minimalParse .any (Slice.ofArray hdr64)).isOk = true := by decide
example : (openStream .any ⟨hdr64, 0, [.short 3, .interrupted], []⟩).1.isOk = true := by decide +kernel
example : (minimalParse .any (Slice.ofArray (hdr64.extract 0 8))).isOk = false := by decide
example : (openStream .any ⟨hdr64.extract 0 8, 0, [.short 3], []⟩).1.isOk = false := by decide +kernel

end Elf.C07
