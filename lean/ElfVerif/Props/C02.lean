/-
  Props/C02 — every ELF structure decodes exactly per the gABI layout for its class/order.

  The parse programs are *generated from the `impl ParseAt` bodies on every run*
  (Generated/ParseProgs.lean); the reference layouts are hand-vendored from the ABI documents
  (Ref/AbiLayouts.lean).  `prog_matches_abi_*` compares the two syntactically (kernel `decide`);
  the generic theorems say what any such program computes on any buffer.
-/
import ElfVerif.Lemmas.Prog
import ElfVerif.Ref.AbiLayouts
import ElfVerif.Props.C04
namespace Elf.C02
open Elf.Ref

/-! ### 1. Generated programs = reference layouts (both classes, all 19 structures) -/

theorem prog_matches_abi_SectionHeader : ∀ c, Gen.prog_SectionHeader c = (sectionHeader c).toProg := by
  intro c; cases c <;> decide
theorem prog_matches_abi_ProgramHeader : ∀ c, Gen.prog_ProgramHeader c = (programHeader c).toProg := by
  intro c; cases c <;> decide
theorem prog_matches_abi_Symbol : ∀ c, Gen.prog_Symbol c = (symbol c).toProg := by
  intro c; cases c <;> decide
theorem prog_matches_abi_Rel : ∀ c, Gen.prog_Rel c = (rel c).toProg := by
  intro c; cases c <;> decide
theorem prog_matches_abi_Rela : ∀ c, Gen.prog_Rela c = (rela c).toProg := by
  intro c; cases c <;> decide
theorem prog_matches_abi_Dyn : ∀ c, Gen.prog_Dyn c = (dyn c).toProg := by
  intro c; cases c <;> decide
theorem prog_matches_abi_CompressionHeader :
    ∀ c, Gen.prog_CompressionHeader c = (compressionHeader c).toProg := by
  intro c; cases c <;> decide
theorem prog_matches_abi_NoteHeader : ∀ c, Gen.prog_NoteHeader c = (noteHeader c).toProg := by
  intro c; cases c <;> decide
theorem prog_matches_abi_NoteGnuAbiTag : ∀ c, Gen.prog_NoteGnuAbiTag c = (noteGnuAbiTag c).toProg := by
  intro c; cases c <;> decide
theorem prog_matches_abi_SysVHashHeader : ∀ c, Gen.prog_SysVHashHeader c = (sysvHashHeader c).toProg := by
  intro c; cases c <;> decide
theorem prog_matches_abi_GnuHashHeader : ∀ c, Gen.prog_GnuHashHeader c = (gnuHashHeader c).toProg := by
  intro c; cases c <;> decide
theorem prog_matches_abi_u32 : ∀ c, Gen.prog_u32 c = (word32 c).toProg := by
  intro c; cases c <;> decide
theorem prog_matches_abi_u64 : ∀ c, Gen.prog_u64 c = (word64 c).toProg := by
  intro c; cases c <;> decide
theorem prog_matches_abi_VersionIndex : ∀ c, Gen.prog_VersionIndex c = (versionIndex c).toProg := by
  intro c; cases c <;> decide
theorem prog_matches_abi_VerDef : ∀ c, Gen.prog_VerDef c = (verDef c).toProg := by
  intro c; cases c <;> decide
theorem prog_matches_abi_VerDefAux : ∀ c, Gen.prog_VerDefAux c = (verDefAux c).toProg := by
  intro c; cases c <;> decide
theorem prog_matches_abi_VerNeed : ∀ c, Gen.prog_VerNeed c = (verNeed c).toProg := by
  intro c; cases c <;> decide
theorem prog_matches_abi_VerNeedAux : ∀ c, Gen.prog_VerNeedAux c = (verNeedAux c).toProg := by
  intro c; cases c <;> decide
theorem prog_matches_abi_FileHeaderTail : ∀ c, Gen.prog_FileHeaderTail c = (fileHeaderTail c).toProg := by
  intro c; cases c <;> decide

/-- **size_for = the ABI structure size = the bytes the program consumes**, every structure and
    class (sizes per the C declarations of the gABI / GNU documents). -/
theorem size_for_eq_abi :
    (Gen.size_SectionHeader .ELF32 = 40 ∧ Gen.size_SectionHeader .ELF64 = 64) ∧
    (Gen.size_ProgramHeader .ELF32 = 32 ∧ Gen.size_ProgramHeader .ELF64 = 56) ∧
    (Gen.size_Symbol .ELF32 = 16 ∧ Gen.size_Symbol .ELF64 = 24) ∧
    (Gen.size_Rel .ELF32 = 8 ∧ Gen.size_Rel .ELF64 = 16) ∧
    (Gen.size_Rela .ELF32 = 12 ∧ Gen.size_Rela .ELF64 = 24) ∧
    (Gen.size_Dyn .ELF32 = 8 ∧ Gen.size_Dyn .ELF64 = 16) ∧
    (Gen.size_CompressionHeader .ELF32 = 12 ∧ Gen.size_CompressionHeader .ELF64 = 24) ∧
    (Gen.size_NoteHeader .ELF32 = 12) ∧
    (∀ c, Gen.size_NoteGnuAbiTag c = 16) ∧ (∀ c, Gen.size_SysVHashHeader c = 8) ∧
    (∀ c, Gen.size_GnuHashHeader c = 16) ∧ (∀ c, Gen.size_u32 c = 4) ∧ (∀ c, Gen.size_u64 c = 8) ∧
    (∀ c, Gen.size_VersionIndex c = 2) ∧ (∀ c, Gen.size_VerDef c = 20) ∧
    (∀ c, Gen.size_VerDefAux c = 8) ∧ (∀ c, Gen.size_VerNeed c = 16) ∧ (∀ c, Gen.size_VerNeedAux c = 16) ∧
    (Gen.size_FileHeaderTail .ELF32 = 36 ∧ Gen.size_FileHeaderTail .ELF64 = 48) := by
  refine ⟨by decide, by decide, by decide, by decide, by decide, by decide, by decide, by decide,
    ?_, ?_, ?_, ?_, ?_, ?_, ?_, ?_, ?_, ?_, by decide⟩ <;> (intro c; cases c <;> decide)

/-- For every generated program: declared `size_for` = sum of the read widths (the bytes consumed
    on success), no program is empty, and field expressions only mention reads that exist. -/
theorem all_progs_consistent :
    Gen.allProgs.all (fun r => r.2.2.2 == r.2.2.1.size && !r.2.2.1.reads.isEmpty &&
      r.2.2.1.fields.all (Expr.scoped r.2.2.1.reads.length)) = true := by decide

/-! ### 2. What a program computes -/

/-- **Exactly the ABI fields at their ABI offsets, exactly `size` bytes**: if the structure fits at
    `off` (and the version guard, if any, accepts), parsing yields the record built from the field
    expressions over `valsAt` — the values decoded at successive ABI offsets in the file's byte
    order (`tyVal`: unsigned value, or two's complement for signed fields) — and advances the
    cursor by exactly the structure's size. -/
theorem parse_abi_encoded {α} (ep : EntryParser α) (le : Bool) (c : Class) (d : Slice) (off : Nat)
    (hfit : off + (ep.prog c).size ≤ d.len) (husz : off + (ep.prog c).size < USZ)
    (hg : guardAccepts (ep.prog c).guard 0 (valsAt le d (ep.prog c).reads off)) :
    ep.parse le c d off =
      (match ep.build ((ep.prog c).fields.map (Expr.eval (valsAt le d (ep.prog c).reads off))) with
       | some a => .ok a
       | none => .panic, off + (ep.prog c).size) := by
  unfold EntryParser.parse
  rw [interp_ok (ep.prog c) le d off hfit husz hg]
  simp only
  cases ep.build (List.map (Expr.eval (valsAt le d (ep.prog c).reads off)) (ep.prog c).fields) <;> rfl

/-- Values read are in the range of their ABI type. -/
theorem tyVal_range (le : Bool) (t : Ty) (d : Slice) (off : Nat) :
    if t.signed then
      -((2 ^ (8 * t.width - 1) : Nat) : Int) ≤ tyVal le t d off ∧
        tyVal le t d off < ((2 ^ (8 * t.width - 1) : Nat) : Int)
    else 0 ≤ tyVal le t d off ∧ tyVal le t d off < ((2 ^ (8 * t.width) : Nat) : Int) := by
  have hlt := decode_lt le d off t.width
  have hpow : 256 ^ t.width = 2 ^ (8 * t.width) := by
    rw [show (256 : Nat) = 2 ^ 8 from rfl, ← Nat.pow_mul]
  rw [hpow] at hlt
  unfold tyVal
  cases hs : t.signed
  · simp only [Bool.false_eq_true, if_false]
    exact ⟨Int.natCast_nonneg _, by exact_mod_cast hlt⟩
  · simp only [if_true]
    have hsplit : 2 ^ (8 * t.width) = 2 * 2 ^ (8 * t.width - 1) := by
      rw [← Nat.pow_succ']; congr 1; have := t.width_pos; omega
    unfold toSigned
    split <;> omega

/-! ### 3. Widening and packed fields, for every value -/

/-- `u32 as u64` (and any unsigned widening) is the identity on values: zero-extension. -/
theorem zext_exact (vals : List Int) (k : Nat) (v : Int) (hv : vals.getD k 0 = v)
    (h0 : 0 ≤ v) (h1 : v < 2 ^ 64) : (RefField.zext k).toExpr.eval vals = v := by
  simp only [RefField.toExpr, Expr.eval, castInt, hv, Ty.width, Ty.signed]
  simp only [Bool.false_eq_true, if_false]
  have : ((2 ^ (8 * 8) : Nat) : Int) = 2 ^ 64 := by norm_cast
  rw [this]; omega

/-- `i32 as i64` is the identity on values: sign-extension. -/
theorem sext_exact (vals : List Int) (k : Nat) (v : Int) (hv : vals.getD k 0 = v)
    (h0 : -(2 ^ 63) ≤ v) (h1 : v < 2 ^ 63) : (RefField.sext k).toExpr.eval vals = v := by
  simp only [RefField.toExpr, Expr.eval, castInt, hv, Ty.width, Ty.signed]
  simp only [if_true]
  have e1 : ((2 ^ (8 * 8) : Nat) : Int) = 2 ^ 64 := by norm_cast
  have e2 : ((2 ^ (8 * 8 - 1) : Nat) : Int) = 2 ^ 63 := by norm_cast
  rw [e1, e2]
  split <;> omega

theorem same_exact (vals : List Int) (k : Nat) : (RefField.same k).toExpr.eval vals = vals.getD k 0 := rfl

/-- ELF32_R_SYM(i) = i >> 8, ELF32_R_TYPE(i) = (unsigned char) i. -/
theorem r_info32_split (vals : List Int) (k : Nat) (info : Nat) (hv : vals.getD k 0 = (info : Int)) :
    (RefField.rsym32 k).toExpr.eval vals = ((info / 256 : Nat) : Int) ∧
    (RefField.rtype32 k).toExpr.eval vals = ((info % 256 : Nat) : Int) := by
  simp only [RefField.toExpr, Expr.eval, hv, Int.toNat_natCast]
  refine ⟨by norm_cast, ?_⟩
  have : info &&& 255 = info % 256 := Nat.and_two_pow_sub_one_eq_mod info 8
  rw [this]

/-- ELF64_R_SYM(i) = i >> 32, ELF64_R_TYPE(i) = i & 0xffffffff. -/
theorem r_info64_split (vals : List Int) (k : Nat) (info : Nat) (hi : info < 2 ^ 64)
    (hv : vals.getD k 0 = (info : Int)) :
    (RefField.rsym64 k).toExpr.eval vals = ((info / 2 ^ 32 : Nat) : Int) ∧
    (RefField.rtype64 k).toExpr.eval vals = ((info % 2 ^ 32 : Nat) : Int) := by
  simp only [RefField.toExpr, Expr.eval, hv, Int.toNat_natCast, castInt, Ty.width, Ty.signed]
  simp only [Bool.false_eq_true, if_false]
  have e1 : ((2 ^ (8 * 4) : Nat) : Int) = ((2 ^ 32 : Nat) : Int) := by norm_cast
  have hand : info &&& 4294967295 = info % 2 ^ 32 := Nat.and_two_pow_sub_one_eq_mod info 32
  rw [e1, hand]
  constructor
  · have hq : info / 2 ^ 32 < 2 ^ 32 := by omega
    have : ((info : Int) / ((2 ^ 32 : Nat) : Int)) = ((info / 2 ^ 32 : Nat) : Int) := by norm_cast
    rw [this]; norm_cast; exact Nat.mod_eq_of_lt hq
  · norm_cast; exact Nat.mod_mod _ _

/-- ELF32_R_INFO(s,t) = (s << 8) + (unsigned char) t  round-trips through the split. -/
theorem r_info32_roundtrip (s t : Nat) (ht : t < 256) :
    (s * 256 + t) / 256 = s ∧ (s * 256 + t) % 256 = t := by omega

/-- ELF64_R_INFO(s,t) = (s << 32) + t  round-trips through the split. -/
theorem r_info64_roundtrip (s t : Nat) (ht : t < 2 ^ 32) :
    (s * 2 ^ 32 + t) / 2 ^ 32 = s ∧ (s * 2 ^ 32 + t) % 2 ^ 32 = t := by omega

/- Non-vacuity: an Elf32_Rela entry, MSB: offset 0x10, info = (7 << 8) + 2, addend = -4 -/
example : (Rela.ep.parse false .ELF32
    (Slice.ofArray #[0, 0, 0, 0x10, 0, 0, 7, 2, 0xff, 0xff, 0xff, 0xfc]) 0) =
    (.ok ⟨16, 7, 2, -4⟩, 12) := by decide
/- an Elf64_Sym entry, LSB -/
example : (Symbol.ep.parse true .ELF64
    (Slice.ofArray #[1, 0, 0, 0, 0x12, 3, 5, 0, 8, 0, 0, 0, 0, 0, 0, 0, 9, 0, 0, 0, 0, 0, 0, 0]) 0).1 =
    .ok ⟨1, 5, 0x12, 3, 8, 9⟩ := by decide

/-! ## Round trip at structure level: the ABI encoding of any field values parses back to them -/

/-- the ABI encoding of a structure: its fields' raw (unsigned) values one after the other, each in
    `width` bytes of the file's byte order -/
def encodeFields (le : Bool) : List Ty → List Nat → List Nat
  | t :: ts, u :: us => (if le then C04.encodeLE t.width u else C04.encodeBE t.width u) ++ encodeFields le ts us
  | _, _ => []

/-- the value the parser hands out for raw field value `u` of type `t`: `u` itself, or its two's
    complement reading for signed fields -/
def fieldVal (t : Ty) (u : Nat) : Int := if t.signed then toSigned t.width u else (u : Int)

def InRange : List Ty → List Nat → Prop
  | t :: ts, u :: us => u < 256 ^ t.width ∧ InRange ts us
  | [], [] => True
  | _, _ => False

theorem encodeBE_length (w v : Nat) : (C04.encodeBE w v).length = w := by
  unfold C04.encodeBE; simp [C04.encodeLE_length]

/-- **decode ∘ encode = id for whole structures**: if the window holds the ABI encoding of the raw
    field values `us` at `off`, the values the parser reads at successive ABI offsets are exactly
    those values (sign-interpreted for signed fields). -/
theorem valsAt_encoded (le : Bool) (d : Slice) (ts : List Ty) (us : List Nat) (off : Nat)
    (hr : InRange ts us) (h : C04.HoldsAt d off (encodeFields le ts us)) :
    valsAt le d ts off = List.zipWith fieldVal ts us := by
  induction ts generalizing us off with
  | nil =>
    cases us with
    | nil => rfl
    | cons u us => exact absurd hr (by simp [InRange])
  | cons t ts ih =>
    cases us with
    | nil => exact absurd hr (by simp [InRange])
    | cons u us =>
      obtain ⟨hu, hr'⟩ := hr
      simp only [encodeFields] at h
      rw [C04.holdsAt_append] at h
      obtain ⟨h1, h2⟩ := h
      have hlen : (if le then C04.encodeLE t.width u else C04.encodeBE t.width u).length = t.width := by
        cases le <;> simp [C04.encodeLE_length, encodeBE_length]
      rw [hlen] at h2
      simp only [valsAt, List.zipWith_cons_cons]
      rw [ih us (off + t.width) hr' h2]
      congr 1
      unfold tyVal fieldVal
      rw [C04.decode_encode le d off t.width u hu h1]

/-- …hence parsing that encoding yields the record built from exactly those values and consumes
    exactly the structure's size (with `parse_abi_encoded`). -/
theorem parse_of_encoding {α} (ep : EntryParser α) (le : Bool) (c : Class) (d : Slice) (off : Nat) (us : List Nat)
    (hfit : off + (ep.prog c).size ≤ d.len) (husz : off + (ep.prog c).size < USZ)
    (hr : InRange (ep.prog c).reads us) (h : C04.HoldsAt d off (encodeFields le (ep.prog c).reads us))
    (hg : guardAccepts (ep.prog c).guard 0 (List.zipWith fieldVal (ep.prog c).reads us)) :
    ep.parse le c d off =
      (match ep.build ((ep.prog c).fields.map (Expr.eval (List.zipWith fieldVal (ep.prog c).reads us))) with
       | some a => .ok a
       | none => .panic, off + (ep.prog c).size) := by
  have hv := valsAt_encoded le d (ep.prog c).reads us off hr h
  rw [parse_abi_encoded ep le c d off hfit husz (by rw [hv]; exact hg), hv]

/- Non-vacuity: a little-endian ELF64 `Rel` (r_offset = 0x10, r_info = (7 << 32) | 3) laid out by
   `encodeFields`, and its hypotheses. -/
example : encodeFields true [.u64, .u64] [0x10, 0x700000003] =
    [0x10,0,0,0,0,0,0,0, 3,0,0,0,7,0,0,0] := by decide
example : InRange [.u64, .u64] [0x10, 0x700000003] := by simp [InRange, Ty.width]
example : C04.HoldsAt (Slice.ofArray #[0x10,0,0,0,0,0,0,0, 3,0,0,0,7,0,0,0]) 0
    (encodeFields true [.u64, .u64] [0x10, 0x700000003]) := by
  simp [encodeFields, C04.encodeLE, C04.HoldsAt, Ty.width, Slice.byte, Slice.ofArray]

end Elf.C02
