/-
  Props/C11 — GNU hash lookup is sound on any table (and complete on well-formed ones).
-/
import ElfVerif.Lemmas.Hash
namespace Elf.C11

/-- **Soundness, for any table bytes.** -/
theorem find_sound (t : GnuHashTable) (name : Slice) (symtab : Table Symbol) (strtab : Slice)
    (r : Nat × Symbol) (h : t.find name symtab strtab = .ok (some r)) :
    symtab.get r.1 = .ok r.2 ∧
    ∃ w, strGetRaw strtab r.2.st_name = .ok w ∧ w.len = name.len ∧ ∀ j, j < w.len → w.byte j = name.byte j := by
  unfold GnuHashTable.find GnuHashTable.findSteps at h
  split at h
  · simp at h
  · cases hm : umod (gnuHash name / bloomWidth t.cls) t.hdr.nbloom with
    | panic => simp [hm] at h
    | err e => simp [hm] at h
    | ok bi =>
      simp only [hm] at h
      cases hf : t.bloomTable.get bi with
      | panic => simp [hf] at h
      | err e => simp [hf] at h
      | ok filter =>
        simp only [hf] at h
        split at h; · simp at h
        split at h; · simp at h
        split at h; · simp at h
        cases hm2 : umod (gnuHash name) t.buckets.len with
        | panic => simp [hm2] at h
        | err e => simp [hm2] at h
        | ok b =>
          simp only [hm2] at h
          cases hg : t.buckets.get b with
          | panic => simp [hg] at h
          | err e => simp [hg] at h
          | ok chainStart =>
            simp only [hg] at h
            split at h; · simp at h
            cases hu : usub chainStart t.hdr.table_start_idx with
            | panic => simp [hu] at h
            | err e => simp [hu] at h
            | ok first =>
              simp only [hu] at h
              obtain ⟨h1, w, h2, h3⟩ := gnuLoop_sound t name _ symtab strtab _ first 0 r h
              exact ⟨h1, w, h2, (Slice.beqBytes_iff w name).mp h3⟩

/-- **The exported hash is djb2**: `h ← h·33 + c` from seed 5381, reduced modulo 2^32. -/
def djb2 (bytes : List Nat) : Nat := bytes.foldl (fun h c => h * 33 + c) 5381

def sliceBytes (s : Slice) (i : Nat) : Nat → List Nat
  | 0 => []
  | n + 1 => s.byte i :: sliceBytes s (i + 1) n

theorem gnu_hash_aux (name : Slice) (i n h : Nat) :
    gnuHashAux name i n (h % M32) = (sliceBytes name i n).foldl (fun h c => h * 33 + c) h % M32 := by
  induction n generalizing i h with
  | zero => simp [gnuHashAux, sliceBytes, M32]
  | succ n ih =>
    simp only [gnuHashAux, sliceBytes, List.foldl]
    have hstep : gnuStep (h % M32) (name.byte i) = (h * 33 + name.byte i) % M32 := by
      unfold gnuStep
      rw [Nat.mod_mul_mod]
      exact Nat.mod_add_mod _ _ _
    rw [hstep, ih]

theorem gnu_hash_eq_ref (name : Slice) : gnuHash name = djb2 (sliceBytes name 0 name.len) % 2 ^ 32 := by
  unfold gnuHash djb2
  have := gnu_hash_aux name 0 name.len 5381
  simp only [M32] at this
  rw [show (5381 : Nat) % 4294967296 = 5381 from rfl] at this
  rw [this]

/-- Empty bucket array or empty bloom filter means "not found". -/
theorem find_empty (t : GnuHashTable) (name : Slice) (symtab : Table Symbol) (strtab : Slice)
    (h : t.buckets.len = 0 ∨ t.hdr.nbloom = 0) : t.find name symtab strtab = .ok none := by
  unfold GnuHashTable.find GnuHashTable.findSteps
  rcases h with h | h <;> simp [Table.isEmpty, h]

example : gnuHash (Slice.ofArray #[]) = 5381 := by decide
example : gnuHash (Slice.ofArray #[97, 98]) = gnuHash (Slice.ofArray #[98, 65]) := by decide

end Elf.C11
