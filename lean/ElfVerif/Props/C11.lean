/-
  Props/C11 — GNU hash lookup is sound on any table (and complete on well-formed ones).
-/
import ElfVerif.Lemmas.Hash
import ElfVerif.Lemmas.GnuComplete
import ElfVerif.Lemmas.GnuBuild
namespace Elf.C11

/-- **Soundness, for any table bytes.** -/
theorem find_sound (t : GnuHashTable) (name : Slice) (symtab : Table Symbol) (strtab : Slice)
    (r : Nat × Symbol) (h : t.find name symtab strtab = .ok (some r)) :
    symtab.get r.1 = .ok r.2 ∧
    ∃ w, strGetRaw strtab r.2.st_name = .ok w ∧ w.len = name.len ∧ ∀ j, j < w.len → w.byte j = name.byte j := by
  unfold GnuHashTable.find GnuHashTable.findSteps at h
  split at h
  · simp at h
  · cases hm : umod (gnuHash name / bloomWidth t.cls) t.hdr.nbloom with
    | panic => simp [hm] at h
    | err e => simp [hm] at h
    | ok bi =>
      simp only [hm] at h
      cases hf : t.bloomTable.get bi with
      | panic => simp [hf] at h
      | err e => simp [hf] at h
      | ok filter =>
        simp only [hf] at h
        split at h; · simp at h
        split at h; · simp at h
        split at h; · simp at h
        cases hm2 : umod (gnuHash name) t.buckets.len with
        | panic => simp [hm2] at h
        | err e => simp [hm2] at h
        | ok b =>
          simp only [hm2] at h
          cases hg : t.buckets.get b with
          | panic => simp [hg] at h
          | err e => simp [hg] at h
          | ok chainStart =>
            simp only [hg] at h
            split at h; · simp at h
            cases hu : usub chainStart t.hdr.table_start_idx with
            | panic => simp [hu] at h
            | err e => simp [hu] at h
            | ok first =>
              simp only [hu] at h
              obtain ⟨h1, w, h2, h3⟩ := gnuLoop_sound t name _ symtab strtab _ first 0 r h
              exact ⟨h1, w, h2, (Slice.beqBytes_iff w name).mp h3⟩

/-- **The exported hash is djb2**: `h ← h·33 + c` from seed 5381, reduced modulo 2^32. -/
def djb2 (bytes : List Nat) : Nat := bytes.foldl (fun h c => h * 33 + c) 5381

def sliceBytes (s : Slice) (i : Nat) : Nat → List Nat
  | 0 => []
  | n + 1 => s.byte i :: sliceBytes s (i + 1) n

theorem gnu_hash_aux (name : Slice) (i n h : Nat) :
    gnuHashAux name i n (h % M32) = (sliceBytes name i n).foldl (fun h c => h * 33 + c) h % M32 := by
  induction n generalizing i h with
  | zero => simp [gnuHashAux, sliceBytes, M32]
  | succ n ih =>
    simp only [gnuHashAux, sliceBytes, List.foldl]
    have hstep : gnuStep (h % M32) (name.byte i) = (h * 33 + name.byte i) % M32 := by
      unfold gnuStep
      rw [Nat.mod_mul_mod]
      exact Nat.mod_add_mod _ _ _
    rw [hstep, ih]

theorem gnu_hash_eq_ref (name : Slice) : gnuHash name = djb2 (sliceBytes name 0 name.len) % 2 ^ 32 := by
  unfold gnuHash djb2
  have := gnu_hash_aux name 0 name.len 5381
  simp only [M32] at this
  rw [show (5381 : Nat) % 4294967296 = 5381 from rfl] at this
  rw [this]

/-- Empty bucket array or empty bloom filter means "not found". -/
theorem find_empty (t : GnuHashTable) (name : Slice) (symtab : Table Symbol) (strtab : Slice)
    (h : t.buckets.len = 0 ∨ t.hdr.nbloom = 0) : t.find name symtab strtab = .ok none := by
  unfold GnuHashTable.find GnuHashTable.findSteps
  rcases h with h | h <;> simp [Table.isEmpty, h]

/-! ## Completeness on well-formed tables

  `WFGnu t symtab strtab`: `nbucket ≠ 0`, `nbloom ≠ 0`, `nshift < 32`, every bloom word is readable,
  and every bucket is readable and either empty (`< table_start_idx`) or the start of a run
  (`GnuChain`: consecutive chain entries whose symbol and name are readable, ending at the first
  entry with bit 0 set, or at the end of the chain array).  A section built per the GNU format
  additionally sets the two bloom bits of every hashed symbol's name and stores that name's hash
  (bit 0 aside) in the symbol's chain entry; those are the hypotheses `hacc`/`hh` of `find_complete`. -/

/-- **On a well-formed table**: `None` if the bloom filter rejects the hash or the bucket is empty;
    otherwise the first entry of the bucket's run whose stored hash matches and whose name equals
    the query. -/
theorem find_wf (t : GnuHashTable) (name : Slice) (symtab : Table Symbol) (strtab : Slice)
    (hw : WFGnu t symtab strtab) :
    ∃ filter start,
      t.bloomTable.get (gnuHash name / bloomWidth t.cls % t.hdr.nbloom) = .ok filter ∧
      t.buckets.get (gnuHash name % t.buckets.len) = .ok start ∧
      ((¬ bloomAccepts t (gnuHash name) filter ∨ start < t.hdr.table_start_idx) →
        t.find name symtab strtab = .ok none) ∧
      (bloomAccepts t (gnuHash name) filter → ¬ start < t.hdr.table_start_idx →
        ∃ path, GnuChain t symtab strtab (start - t.hdr.table_start_idx) path ∧
          t.find name symtab strtab = .ok (firstGnu name (gnuHash name) path)) :=
  gnu_find_wf t name symtab strtab hw

/-- **Finds every hashed symbol by name**: if the symbol sits in the run of its name's bucket, the
    bloom filter has its two bits, and its chain entry stores its hash, the lookup answers with a
    symbol of that run carrying the queried name (the first such). -/
theorem find_complete (t : GnuHashTable) (name : Slice) (symtab : Table Symbol) (strtab : Slice)
    (hw : WFGnu t symtab strtab) (filter start : Nat) (path : List (Nat × Symbol × Slice × Nat))
    (hf : t.bloomTable.get (gnuHash name / bloomWidth t.cls % t.hdr.nbloom) = .ok filter)
    (hb : t.buckets.get (gnuHash name % t.buckets.len) = .ok start)
    (hacc : bloomAccepts t (gnuHash name) filter) (hge : ¬ start < t.hdr.table_start_idx)
    (hp : GnuChain t symtab strtab (start - t.hdr.table_start_idx) path)
    (e : Nat × Symbol × Slice × Nat) (hm : e ∈ path)
    (hh : gnuHash name ||| 1 = e.2.2.2 ||| 1) (hn : e.2.2.1.beqBytes name = true) :
    ∃ j s, t.find name symtab strtab = .ok (some (j, s)) ∧
      ∃ e', e' ∈ path ∧ e'.1 = j ∧ e'.2.1 = s ∧ e'.2.2.1.beqBytes name = true := by
  obtain ⟨filter', start', h1, h2, _, h4⟩ := gnu_find_wf t name symtab strtab hw
  rw [hf] at h1; injection h1 with h1; subst h1
  rw [hb] at h2; injection h2 with h2; subst h2
  obtain ⟨path', hp', hfind⟩ := h4 hacc hge
  have : path' = path := GnuChain.unique hp' hp
  subst this
  obtain ⟨j, s, hfg, he'⟩ := firstGnu_some name (gnuHash name) path' e hm hh hn
  exact ⟨j, s, by rw [hfind, hfg], he'⟩

/-- **Returns `None` for every absent name**: no entry of the bucket's run carries the name —
    whatever its hash or bucket collides with. -/
theorem find_absent (t : GnuHashTable) (name : Slice) (symtab : Table Symbol) (strtab : Slice)
    (hw : WFGnu t symtab strtab) (start : Nat) (path : List (Nat × Symbol × Slice × Nat))
    (hb : t.buckets.get (gnuHash name % t.buckets.len) = .ok start)
    (hp : ¬ start < t.hdr.table_start_idx → GnuChain t symtab strtab (start - t.hdr.table_start_idx) path)
    (habs : ∀ e, e ∈ path → e.2.2.1.beqBytes name = false) :
    t.find name symtab strtab = .ok none := by
  obtain ⟨filter', start', _, h2, h3, h4⟩ := gnu_find_wf t name symtab strtab hw
  rw [hb] at h2; injection h2 with h2; subst h2
  by_cases hrej : ¬ bloomAccepts t (gnuHash name) filter' ∨ start < t.hdr.table_start_idx
  · exact h3 hrej
  · have hacc : bloomAccepts t (gnuHash name) filter' := by
      by_cases h : bloomAccepts t (gnuHash name) filter'
      · exact h
      · exact absurd (Or.inl h) hrej
    have hge : ¬ start < t.hdr.table_start_idx := fun h => hrej (Or.inr h)
    obtain ⟨path', hp', hfind⟩ := h4 hacc hge
    have : path' = path := GnuChain.unique hp' (hp hge)
    subst this
    rw [hfind, firstGnu_none name (gnuHash name) path' habs]

example : gnuHash (Slice.ofArray #[]) = 5381 := by decide
example : gnuHash (Slice.ofArray #[97, 98]) = gnuHash (Slice.ofArray #[98, 65]) := by decide

/- Non-vacuity of `WFGnu` and of `find_complete`'s hypotheses: a one-bucket, one-word-bloom ELF32
   table for the symbol table whose symbol 1 is named "a" (hash 177670: bloom bits 6 and 24,
   chain entry 177671). -/
def gT : GnuHashTable := ⟨⟨1,1,1,6⟩, true, .ELF32, Slice.ofArray #[0x40,0,0,1],
  u32Table true .ELF32 (Slice.ofArray #[1,0,0,0]), u32Table true .ELF32 (Slice.ofArray #[0x07,0xB6,0x02,0x00])⟩
def gSym : Table Symbol := symTable true .ELF32 (Slice.ofArray #[0,0,0,0, 0,0,0,0, 0,0,0,0, 0,0,0,0,
                                                  1,0,0,0, 0,0,0,0, 0,0,0,0, 0x12,0,1,0])
def gStr : Slice := Slice.ofArray #[0, 97, 0]
theorem gWF : WFGnu gT gSym gStr := by
  refine ⟨by decide, by decide, by decide, ?_, ?_⟩
  · intro w hw
    have : w = 0 := by have : gT.hdr.nbloom = 1 := rfl; omega
    subst this; exact ⟨16777280, by decide⟩
  · intro b hb
    have : b = 0 := by have : gT.buckets.len = 1 := by decide
                       omega
    subst this
    refine ⟨1, by decide, Or.inr ⟨[(1, ⟨1,1,0x12,0,0,0⟩, ⟨gStr.buf, 1, 2⟩, 177671)], ?_⟩⟩
    exact GnuChain.last 0 177671 _ _ (by decide) (by decide) (by decide) (by decide) (by decide) (by decide)
example : (gT.find (Slice.ofArray #[97]) gSym gStr) = .ok (some (1, ⟨1,1,0x12,0,0,0⟩)) := by decide
example : bloomAccepts gT (gnuHash (Slice.ofArray #[97])) 16777280 := by unfold bloomAccepts; decide

/-! ## Tables laid out the linker's way -/

/-- **Any `.gnu.hash` section laid out the linker's way is well-formed** (hashed symbols sorted by
    bucket, chain word = hash with the stop bit on the last symbol of its bucket, bucket head = first
    symbol of the bucket or a value below `symoffset`, both bloom bits of every symbol set) — for
    every number of symbols, buckets and bloom words, every shift, both classes. -/
theorem laid_out_wf {t : GnuHashTable} {symtab : Table Symbol} {strtab : Slice} {m : Nat}
    {sym : Nat → Symbol} {w : Nat → Slice} {c f s : Nat → Nat}
    (h : GnuBuild.LaidOut t symtab strtab m sym w c f s) : WFGnu t symtab strtab := GnuBuild.wf h

/-- **The lookup finds every hashed symbol by name** in such a table. -/
theorem laid_out_finds_every_symbol {t : GnuHashTable} {symtab : Table Symbol} {strtab : Slice} {m : Nat}
    {sym : Nat → Symbol} {w : Nat → Slice} {c f s : Nat → Nat}
    (h : GnuBuild.LaidOut t symtab strtab m sym w c f s)
    (k : Nat) (hk : k < m) (name : Slice) (hname : (w k).beqBytes name = true) :
    ∃ j sy, t.find name symtab strtab = .ok (some (j, sy)) ∧
      ∃ w', symtab.get j = .ok sy ∧ strGetRaw strtab sy.st_name = .ok w' ∧ w'.beqBytes name = true :=
  GnuBuild.finds_every_symbol h k hk name hname

/-- **…and returns `None` for every name no hashed symbol carries**, colliding or not. -/
theorem laid_out_absent {t : GnuHashTable} {symtab : Table Symbol} {strtab : Slice} {m : Nat}
    {sym : Nat → Symbol} {w : Nat → Slice} {c f s : Nat → Nat}
    (h : GnuBuild.LaidOut t symtab strtab m sym w c f s)
    (name : Slice) (habs : ∀ k, k < m → (w k).beqBytes name = false) :
    t.find name symtab strtab = .ok none := GnuBuild.absent_is_none h name habs

/- Non-vacuity: the example table is laid out that way (one hashed symbol "a" at symbol index 1). -/
theorem gLaidOut : GnuBuild.LaidOut gT gSym gStr 1 (fun _ => ⟨1,1,0x12,0,0,0⟩) (fun _ => ⟨gStr.buf, 1, 2⟩)
    (fun _ => 177671) (fun _ => 16777280) (fun _ => 1) := by
  refine ⟨by decide, by decide, by decide, by decide, by decide, ?_, ?_, ?_, ?_, ?_, ?_⟩
  · intro k hk
    have : k = 0 := by omega
    subst this; exact ⟨by decide, by decide, by decide, by decide⟩
  · intro k hk; omega
  · intro k hk
    have : k = 0 := by omega
    subst this; decide
  · intro b hb
    have : b = 0 := by have : gT.buckets.len = 1 := by decide
                       omega
    subst this
    exact ⟨by decide, Or.inr ⟨0, by decide, by decide, by decide, fun k' hk' => by omega⟩⟩
  · intro i hi
    have : i = 0 := by have : gT.hdr.nbloom = 1 := rfl
                       omega
    subst this; decide
  · intro k hk
    unfold bloomAccepts; decide

end Elf.C11
