/-
  Props/C10 — byte-order specs gate files; ident defects are reported as what they are.
  Model: `fromEiData` (endian.rs), `verifyIdent`/`parseIdent` (file.rs), `minimalParse`.
  ABI constants (`ELFMAGIC`, `EI_*`, `ELFCLASS*`, `EV_CURRENT`) come from the generated table.
-/
import ElfVerif.Model.ElfBytes
import ElfVerif.Lemmas.StreamIdent
namespace Elf.C10

/-- What the ABI says the sixteen identification bytes mean, checked in the order
    magic, version, class, data. -/
def identSpec (sp : Spec) (d : Slice) : Out (Bool × Class × Nat × Nat) :=
  if d.len < 16 then .err (.SliceReadError 0 16)
  else if ¬ (d.byte 0 = 0x7f ∧ d.byte 1 = 0x45 ∧ d.byte 2 = 0x4c ∧ d.byte 3 = 0x46) then
    .err (.BadMagic (d.byte 0) (d.byte 1) (d.byte 2) (d.byte 3))
  else if d.byte 6 ≠ 1 then .err (.UnsupportedVersion (d.byte 6) 1)
  else if d.byte 4 ≠ 1 ∧ d.byte 4 ≠ 2 then .err (.UnsupportedElfClass (d.byte 4))
  else
    match fromEiData sp (d.byte 5) with
    | .ok le => .ok (le, if d.byte 4 = 1 then .ELF32 else .ELF64, d.byte 7, d.byte 8)
    | .err e => .err e
    | .panic => .panic

/-- **parse_ident implements the specification on every buffer** (in particular: never panics,
    and each single defect is reported as what it is, carrying the bytes found). -/
theorem parse_ident_spec (sp : Spec) (d : Slice) : parseIdent sp d = identSpec sp d := by
  unfold parseIdent identSpec
  by_cases hlen : d.len < 16
  · simp [hlen, Abi.EI_NIDENT]
  · have h16 : ¬ d.len < Abi.EI_NIDENT := by simpa [Abi.EI_NIDENT] using hlen
    simp only [h16, hlen, if_false]
    have hi : ∀ i, i < 16 → indexByte d i = .ok (d.byte i) := by
      intro i hi; unfold indexByte; have : i < d.len := by omega
      simp [this]
    unfold verifyIdent
    have h4 : ¬ d.len < Abi.EI_CLASS := by simp [Abi.EI_CLASS]; omega
    simp only [h4, if_false, Abi.ELFMAGIC]
    by_cases hm : d.byte 0 = 0x7f ∧ d.byte 1 = 0x45 ∧ d.byte 2 = 0x4c ∧ d.byte 3 = 0x46
    · obtain ⟨m0, m1, m2, m3⟩ := hm
      simp only [m0, m1, m2, m3]
      simp only [hi Abi.EI_VERSION (by decide), hi Abi.EI_CLASS (by decide), hi Abi.EI_DATA (by decide),
        hi Abi.EI_OSABI (by decide), hi Abi.EI_ABIVERSION (by decide)]
      simp only [Abi.EI_VERSION, Abi.EV_CURRENT, Abi.EI_CLASS, Abi.EI_DATA, Abi.EI_OSABI,
        Abi.EI_ABIVERSION, Abi.ELFCLASS32, Abi.ELFCLASS64]
      by_cases hv : d.byte 6 = 1
      · by_cases hc1 : d.byte 4 = 1
        · cases hf : fromEiData sp (d.byte 5) <;> simp [Out.bind, hv, hc1, hf]
        · by_cases hc2 : d.byte 4 = 2
          · cases hf : fromEiData sp (d.byte 5) <;> simp [Out.bind, hv, hc2, hf]
          · simp [Out.bind, hv, hc1, hc2]
      · simp [Out.bind, hv]
    · have : ¬ ([d.byte 0, d.byte 1, d.byte 2, d.byte 3] = [0x7f, 0x45, 0x4c, 0x46]) := by
        intro h; apply hm; simpa using h
      simp [Out.bind, hm, this]

/-- Only defect = bad magic → `BadMagic` with the four bytes found. -/
theorem only_defect_magic (sp : Spec) (d : Slice) (h16 : 16 ≤ d.len)
    (hm : ¬ (d.byte 0 = 0x7f ∧ d.byte 1 = 0x45 ∧ d.byte 2 = 0x4c ∧ d.byte 3 = 0x46)) :
    parseIdent sp d = .err (.BadMagic (d.byte 0) (d.byte 1) (d.byte 2) (d.byte 3)) := by
  rw [parse_ident_spec]; unfold identSpec
  have : ¬ d.len < 16 := by omega
  simp [this, hm]

/-- Only defect = `EI_VERSION ≠ 1` → `UnsupportedVersion (found, 1)`. -/
theorem only_defect_version (sp : Spec) (d : Slice) (h16 : 16 ≤ d.len)
    (hm : d.byte 0 = 0x7f ∧ d.byte 1 = 0x45 ∧ d.byte 2 = 0x4c ∧ d.byte 3 = 0x46)
    (hv : d.byte 6 ≠ 1) :
    parseIdent sp d = .err (.UnsupportedVersion (d.byte 6) 1) := by
  rw [parse_ident_spec]; unfold identSpec
  have : ¬ d.len < 16 := by omega
  simp [this, hm, hv]

/-- Only defect = unsupported `EI_CLASS` → `UnsupportedElfClass found`. -/
theorem only_defect_class (sp : Spec) (d : Slice) (h16 : 16 ≤ d.len)
    (hm : d.byte 0 = 0x7f ∧ d.byte 1 = 0x45 ∧ d.byte 2 = 0x4c ∧ d.byte 3 = 0x46)
    (hv : d.byte 6 = 1) (hc : d.byte 4 ≠ 1 ∧ d.byte 4 ≠ 2) :
    parseIdent sp d = .err (.UnsupportedElfClass (d.byte 4)) := by
  rw [parse_ident_spec]; unfold identSpec
  have : ¬ d.len < 16 := by omega
  simp [this, hm, hv, hc]

/-- The set of `EI_DATA` values a specification stands for. -/
def accepts : Spec → Nat → Bool
  | .little, b => b == 1
  | .big, b => b == 2
  | .any, b => b == 1 || b == 2

/-- A byte order outside the spec's set → `UnsupportedElfEndianness` carrying the byte; the
    little/big specs accept exactly 1 / 2, the any-endian spec accepts both. -/
theorem endianness_gate (sp : Spec) (d : Slice) (h16 : 16 ≤ d.len)
    (hm : d.byte 0 = 0x7f ∧ d.byte 1 = 0x45 ∧ d.byte 2 = 0x4c ∧ d.byte 3 = 0x46)
    (hv : d.byte 6 = 1) (hc : d.byte 4 = 1 ∨ d.byte 4 = 2) :
    parseIdent sp d =
      if accepts sp (d.byte 5) then
        .ok (d.byte 5 == 1, if d.byte 4 = 1 then .ELF32 else .ELF64, d.byte 7, d.byte 8)
      else .err (.UnsupportedElfEndianness (d.byte 5)) := by
  rw [parse_ident_spec]; unfold identSpec
  have h1 : ¬ d.len < 16 := by omega
  have h2 : ¬ (d.byte 4 ≠ 1 ∧ d.byte 4 ≠ 2) := by omega
  simp only [h1, hm, hv, h2, if_false, not_true_eq_false, and_self, ne_eq, not_false_eq_true]
  cases sp <;> simp only [fromEiData, accepts]
  · by_cases h : d.byte 5 = 1 <;> simp [h]
  · by_cases h : d.byte 5 = 2 <;> simp [h]
  · by_cases h : d.byte 5 = 1
    · simp [h]
    · by_cases h' : d.byte 5 = 2 <;> simp [h, h']

/-- Two specs that treat this file's `EI_DATA` byte alike open it identically. -/
theorem parse_ident_congr (sp1 sp2 : Spec) (d : Slice)
    (h : fromEiData sp1 (d.byte 5) = fromEiData sp2 (d.byte 5)) :
    parseIdent sp1 d = parseIdent sp2 d := by
  rw [parse_ident_spec, parse_ident_spec]; unfold identSpec; rw [h]

theorem ident_window_byte (d : Slice) (i : Nat) :
    (⟨d.buf, d.start + 0, d.start + Abi.EI_NIDENT⟩ : Slice).byte i = d.byte i := by
  simp [Slice.byte]

/-- **Any-endian ≡ the matching fixed spec**, on the whole `ElfBytes` value (hence on every
    accessor, which are functions of that value): for a little-endian file … -/
theorem any_equiv_little (d : Slice) (h : d.byte 5 = 1) :
    minimalParse .any d = minimalParse .little d := by
  unfold minimalParse Slice.getBytes Slice.get?
  split
  · simp only [Out.ofOption, Out.bind]
    rw [parse_ident_congr .any .little]
    rw [ident_window_byte, h]; simp [fromEiData]
  · rfl

/-- … and for a big-endian file. -/
theorem any_equiv_big (d : Slice) (h : d.byte 5 = 2) :
    minimalParse .any d = minimalParse .big d := by
  unfold minimalParse Slice.getBytes Slice.get?
  split
  · simp only [Out.ofOption, Out.bind]
    rw [parse_ident_congr .any .big]
    rw [ident_window_byte, h]; simp [fromEiData]
  · rfl

/-- from_ei_data truth tables, all 256 byte values. -/
theorem from_ei_data_little (b : Nat) :
    fromEiData .little b = if b = 1 then .ok true else .err (.UnsupportedElfEndianness b) := rfl
theorem from_ei_data_big (b : Nat) :
    fromEiData .big b = if b = 2 then .ok false else .err (.UnsupportedElfEndianness b) := rfl
theorem from_ei_data_any (b : Nat) :
    fromEiData .any b = if b = 1 then .ok true else if b = 2 then .ok false
                        else .err (.UnsupportedElfEndianness b) := rfl

/-- The generated constants the model uses are the ABI's values. -/
theorem ident_constants :
    Abi.ELFMAGIC = [0x7f, 0x45, 0x4c, 0x46] ∧ Abi.EI_CLASS = 4 ∧ Abi.EI_DATA = 5 ∧ Abi.EI_VERSION = 6 ∧
    Abi.EI_OSABI = 7 ∧ Abi.EI_ABIVERSION = 8 ∧ Abi.EI_NIDENT = 16 ∧ Abi.ELFCLASS32 = 1 ∧
    Abi.ELFCLASS64 = 2 ∧ Abi.ELFDATA2LSB = 1 ∧ Abi.ELFDATA2MSB = 2 ∧ Abi.EV_CURRENT = 1 := by decide

/- Non-vacuity -/
example : parseIdent .little (Slice.ofArray #[0x7f, 0x45, 0x4c, 0x46, 2, 2, 1, 3, 4, 0, 0, 0, 0, 0, 0, 0])
    = .err (.UnsupportedElfEndianness 2) := by decide
example : parseIdent .any (Slice.ofArray #[0x7f, 0x45, 0x4c, 0x46, 2, 2, 1, 3, 4, 0, 0, 0, 0, 0, 0, 0])
    = .ok (false, .ELF64, 3, 4) := by decide
example : parseIdent .any (Slice.ofArray #[0x7f, 0x45, 0x4c]) = .err (.SliceReadError 0 16) := by decide

/-! ## The stream parser reports the same identification defects -/

/-- **Through `ElfStream` too**: over any legal reader, an identification defect of the first sixteen
    bytes (as `identSpec` classifies it: bad magic, unsupported version, class or byte order — each
    carrying the bytes found) is exactly the error `open_stream` returns. -/
theorem stream_ident_defect (sp : Spec) (dev : Device) (hl : Legal dev.sched) (h16 : 16 ≤ dev.content.size)
    (e : Err) (he : identSpec sp (identWindow dev.content) = .err e) :
    ∃ d, openStream sp dev = (.err e, d) :=
  open_stream_ident_error sp dev hl h16 e (by rw [parse_ident_spec]; exact he)

/-- a stream shorter than the identification is refused (`BadOffset(16)`: the stream parser's name for
    what the slice parser calls `SliceReadError(0, 16)`) -/
theorem stream_too_short (sp : Spec) (dev : Device) (hl : Legal dev.sched) (h16 : dev.content.size < 16) :
    ∃ d, openStream sp dev = (.err (.BadOffset 16), d) :=
  open_stream_too_short sp dev hl h16

end Elf.C10
