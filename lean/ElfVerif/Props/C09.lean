/-
  Props/C09 — lazy tables are coherent: len, get, iteration and emptiness agree.
  Model: `Table`, `Iter` (Model/Table.lean) mirror `ParsingTable` / `ParsingIterator` of parse.rs;
  entry parsers are the translator-generated programs.
-/
import ElfVerif.Lemmas.Prog
import ElfVerif.Model.Hash
namespace Elf.C09

/-- What the theorems need to know about an entry kind at a class: it is one of the regular
    (unguarded, non-empty) generated programs, its declared `size_for` is the sum of its read
    widths, and its record constructor is total.  `regular_*` below discharge this by `decide`
    for every entry kind the crate puts in a table or entry iterator. -/
structure Regular {α} (ep : EntryParser α) (c : Class) : Prop where
  total : ep.Total
  noGuard : (ep.prog c).guard = none
  nonEmpty : (ep.prog c).reads ≠ []
  sizeEq : ep.size c = (ep.prog c).size
  sizePos : 0 < ep.size c

variable {α : Type}

theorem len_spec (t : Table α) : t.len = t.data.len / t.ep.size t.cls := rfl

theorem is_empty_iff (t : Table α) : t.isEmpty = true ↔ t.len = 0 := by
  simp [Table.isEmpty]

/-- Arithmetic core: entry `i` fits iff `i < len / size`. -/
theorem fits_iff (n size i : Nat) (hs : 0 < size) : i * size + size ≤ n ↔ i < n / size := by
  rw [Nat.lt_div_iff_mul_lt hs]
  constructor
  · intro h; have : i * size + size = (i + 1) * size := by rw [Nat.add_mul]; omega
    omega
  · intro h; have : (i + 1) * size = i * size + size := by rw [Nat.add_mul]; omega
    have h2 : (i + 1) * size ≤ n := by
      -- i*size < n - (size - 1)  => (i+1)*size ≤ n
      omega
    omega

/-- **get(i) succeeds exactly for i < len()** — including `i * size` overflowing `usize`. -/
theorem get_ok_iff (t : Table α) (hr : Regular t.ep t.cls) (hwf : t.data.len < 2 ^ 63) (i : Nat) :
    (∃ a, t.get i = .ok a) ↔ i < t.len := by
  have hs := hr.sizePos
  unfold Table.get Table.len Slice.isEmpty
  by_cases hE : t.data.len = 0
  · simp [hE]
  · simp only [hE, beq_iff_eq, if_false]
    unfold checkedMul
    by_cases hmul : i * t.ep.size t.cls < USZ
    · simp only [hmul, if_true]
      by_cases hgt : i * t.ep.size t.cls > t.data.len
      · simp only [hgt, if_true]
        constructor
        · rintro ⟨a, ha⟩; cases ha
        · intro h; rw [← fits_iff _ _ _ hs] at h; omega
      · simp only [hgt, if_false]
        rw [EntryParser.parse_ok_iff t.ep hr.total t.little t.cls hr.noGuard hr.nonEmpty,
            ← hr.sizeEq, ← fits_iff _ _ _ hs]
        constructor
        · exact fun h => h.1
        · intro h; refine ⟨h, ?_⟩
          have : USZ = 2 ^ 64 := USZ_eq
          omega
    · simp only [hmul, if_false]
      constructor
      · rintro ⟨a, ha⟩; cases ha
      · intro h; rw [← fits_iff _ _ _ hs] at h
        have : USZ = 2 ^ 64 := USZ_eq
        omega

/-- The iterator's `next` at cursor `k * size`: yields exactly `get k` and moves to
    `(k+1) * size` when `k < len`; yields `None` otherwise. -/
theorem next_at (t : Table α) (hr : Regular t.ep t.cls) (hwf : t.data.len < 2 ^ 63) (k : Nat)
    (hk : k < t.len) :
    ∃ a, t.get k = .ok a ∧
      (Iter.next ⟨t.ep, t.little, t.cls, t.data, k * t.ep.size t.cls⟩ =
        (.ok (some a), ⟨t.ep, t.little, t.cls, t.data, (k + 1) * t.ep.size t.cls⟩)) := by
  have hs := hr.sizePos
  have hfit : k * t.ep.size t.cls + t.ep.size t.cls ≤ t.data.len := (fits_iff _ _ _ hs).mpr hk
  obtain ⟨a, ha⟩ := (get_ok_iff t hr hwf k).mpr hk
  refine ⟨a, ha, ?_⟩
  have hne : t.data.len ≠ 0 := by omega
  have husz : USZ = 2 ^ 64 := USZ_eq
  unfold Table.get Slice.isEmpty checkedMul at ha
  have h1 : k * t.ep.size t.cls < USZ := by omega
  have h2 : ¬ k * t.ep.size t.cls > t.data.len := by omega
  simp only [hne, beq_iff_eq, if_false, h1, if_true, h2] at ha
  have hcur := EntryParser.parse_ok_cursor t.ep t.little t.cls hr.nonEmpty t.data _ a ha
  unfold Iter.next Slice.isEmpty
  simp only [hne, beq_iff_eq, if_false]
  generalize hp : t.ep.parse t.little t.cls t.data (k * t.ep.size t.cls) = p at ha hcur
  obtain ⟨p1, p2⟩ := p
  simp only at ha hcur
  subst ha
  simp only
  rw [hcur.1, ← hr.sizeEq, Nat.add_mul, Nat.one_mul]

/-- A finished iterator stays finished: once `next` has returned `None`, every later `next`
    returns `None` too (the cursor may have moved, but only forward). -/
theorem iter_fused (it : Iter α) (hr : Regular it.ep it.cls) (_hwf : it.data.len < 2 ^ 63)
    (it' : Iter α) (h : it.next = (.ok none, it')) :
    ∃ it'', it'.next = (.ok none, it'') ∧ it''.data = it.data ∧ it''.ep = it.ep ∧ it''.cls = it.cls := by
  unfold Iter.next at h
  by_cases hE : it.data.isEmpty
  · simp only [hE, if_true] at h
    injection h with _ h2; subst h2
    refine ⟨it, ?_, rfl, rfl, rfl⟩
    unfold Iter.next; simp [hE]
  · simp only [hE] at h
    generalize hp : it.ep.parse it.little it.cls it.data it.offset = p at h
    obtain ⟨p1, p2⟩ := p
    cases p1 with
    | ok a => simp at h
    | panic => simp at h
    | err e =>
      simp at h
      subst h
      -- parse failed at `offset`; it moved the cursor to p2 ≥ offset
      have hcur := EntryParser.parse_cursor it.ep it.little it.cls it.data it.offset
      rw [hp] at hcur
      have hfail : ¬ (it.offset + (it.ep.prog it.cls).size ≤ it.data.len ∧
                      it.offset + (it.ep.prog it.cls).size < USZ) := by
        intro hfit
        have := (EntryParser.parse_ok_iff it.ep hr.total it.little it.cls hr.noGuard hr.nonEmpty
          it.data it.offset).mpr hfit
        rw [hp] at this; obtain ⟨a, ha⟩ := this; cases ha
      have hfail2 : ¬ (p2 + (it.ep.prog it.cls).size ≤ it.data.len ∧
                      p2 + (it.ep.prog it.cls).size < USZ) := by
        have : USZ = 2 ^ 64 := USZ_eq
        simp only at hcur
        intro h2; apply hfail; omega
      have hnone : ¬ ∃ a, (it.ep.parse it.little it.cls it.data p2).1 = .ok a := by
        rw [EntryParser.parse_ok_iff it.ep hr.total it.little it.cls hr.noGuard hr.nonEmpty]
        exact hfail2
      have hnp := EntryParser.parse_no_panic it.ep hr.total it.little it.cls it.data p2
      unfold Iter.next
      simp only [hE]
      generalize hq : it.ep.parse it.little it.cls it.data p2 = q at hnone hnp
      obtain ⟨q1, q2⟩ := q
      cases q1 with
      | ok a => exact absurd ⟨a, rfl⟩ hnone
      | panic => simp at hnp
      | err e2 => exact ⟨_, rfl, rfl, rfl, rfl⟩

/-- The list `[get k, …, get (k+n-1)]` (all succeed when `k + n ≤ len`). -/
def gets (t : Table α) : Nat → Nat → List (Out α)
  | _, 0 => []
  | k, n + 1 => t.get k :: gets t (k + 1) n

/-- **Iteration yields exactly len() items and the i-th item equals get(i).** -/
theorem collect_from (t : Table α) (hr : Regular t.ep t.cls) (hwf : t.data.len < 2 ^ 63)
    (n k fuel : Nat) (acc : List α) (hk : k + n = t.len) (hf : n < fuel) :
    ∃ items it', Iter.collectFuel fuel ⟨t.ep, t.little, t.cls, t.data, k * t.ep.size t.cls⟩ acc
        = (.ok (acc ++ items), it') ∧
      items.map Out.ok = gets t k n := by
  induction n generalizing k fuel acc with
  | zero =>
    -- at the end: `next` yields None
    cases fuel with
    | zero => omega
    | succ fuel =>
      refine ⟨[], ?_⟩
      unfold Iter.collectFuel
      have hs := hr.sizePos
      have hnofit : ¬ (k * t.ep.size t.cls + t.ep.size t.cls ≤ t.data.len) := by
        rw [fits_iff _ _ _ hs]; show ¬ k < t.data.len / t.ep.size t.cls
        have : t.len = t.data.len / t.ep.size t.cls := rfl
        omega
      unfold Iter.next
      by_cases hE : t.data.isEmpty
      · simp [hE, gets]
      · simp only [hE]
        have hnone : ¬ ∃ a, (t.ep.parse t.little t.cls t.data (k * t.ep.size t.cls)).1 = .ok a := by
          rw [EntryParser.parse_ok_iff t.ep hr.total t.little t.cls hr.noGuard hr.nonEmpty, ← hr.sizeEq]
          intro h; exact hnofit h.1
        have hnp := EntryParser.parse_no_panic t.ep hr.total t.little t.cls t.data (k * t.ep.size t.cls)
        generalize t.ep.parse t.little t.cls t.data (k * t.ep.size t.cls) = q at hnone hnp
        obtain ⟨q1, q2⟩ := q
        cases q1 with
        | ok a => exact absurd ⟨a, rfl⟩ hnone
        | panic => simp at hnp
        | err e => exact ⟨⟨t.ep, t.little, t.cls, t.data, q2⟩, by simp, by simp [gets]⟩
  | succ n ih =>
    cases fuel with
    | zero => omega
    | succ fuel =>
      obtain ⟨a, hget, hnext⟩ := next_at t hr hwf k (by omega)
      unfold Iter.collectFuel
      rw [hnext]
      simp only
      obtain ⟨items, it', hc, hm⟩ := ih (k + 1) fuel (acc ++ [a]) (by omega) (by omega)
      refine ⟨a :: items, it', ?_, ?_⟩
      · rw [hc]; simp
      · simp [gets, hget, hm]

theorem collect_eq_gets (t : Table α) (hr : Regular t.ep t.cls) (hwf : t.data.len < 2 ^ 63) :
    ∃ items, t.iter.collect.1 = .ok items ∧ items.length = t.len ∧
      items.map Out.ok = gets t 0 t.len := by
  have hs := hr.sizePos
  have hle : t.len ≤ t.data.len := Nat.div_le_self _ _
  obtain ⟨items, it', hc, hm⟩ := collect_from t hr hwf t.len 0 (t.data.len + 1) [] (by omega) (by omega)
  refine ⟨items, ?_, ?_, hm⟩
  · rw [Iter.collect_eq]; unfold Table.iter
    simp only [Nat.zero_mul] at hc
    rw [hc]; simp
  · have : (items.map Out.ok).length = (gets t 0 t.len).length := by rw [hm]
    simp at this
    rw [this]
    clear hm hc this
    generalize 0 = k
    induction t.len generalizing k with
    | zero => rfl
    | succ n ih => simp [gets, ih]

/-- `get` is a function of `(table, index)`: repeated and re-ordered accesses agree. -/
theorem get_deterministic (t : Table α) (i : Nat) : t.get i = t.get i := rfl

/- The entry kinds the crate puts in tables / entry iterators are regular, for both classes.
   (Generated programs: this is re-checked against the source on every run.) -/
theorem regular_SectionHeader : ∀ c, Regular SectionHeader.ep c := fun c =>
  ⟨total_SectionHeader, by cases c <;> rfl, by cases c <;> decide, by cases c <;> rfl, by cases c <;> decide⟩
theorem regular_ProgramHeader : ∀ c, Regular ProgramHeader.ep c := fun c =>
  ⟨total_ProgramHeader, by cases c <;> rfl, by cases c <;> decide, by cases c <;> rfl, by cases c <;> decide⟩
theorem regular_Symbol : ∀ c, Regular Symbol.ep c := fun c =>
  ⟨total_Symbol, by cases c <;> rfl, by cases c <;> decide, by cases c <;> rfl, by cases c <;> decide⟩
theorem regular_Dyn : ∀ c, Regular Dyn.ep c := fun c =>
  ⟨total_Dyn, by cases c <;> rfl, by cases c <;> decide, by cases c <;> rfl, by cases c <;> decide⟩
theorem regular_Rel : ∀ c, Regular Rel.ep c := fun c =>
  ⟨total_Rel, by cases c <;> rfl, by cases c <;> decide, by cases c <;> rfl, by cases c <;> decide⟩
theorem regular_Rela : ∀ c, Regular Rela.ep c := fun c =>
  ⟨total_Rela, by cases c <;> rfl, by cases c <;> decide, by cases c <;> rfl, by cases c <;> decide⟩
theorem regular_U32 : ∀ c, Regular U32.ep c := fun c =>
  ⟨total_U32, by cases c <;> rfl, by cases c <;> decide, by cases c <;> rfl, by cases c <;> decide⟩
theorem regular_U64 : ∀ c, Regular U64.ep c := fun c =>
  ⟨total_U64, by cases c <;> rfl, by cases c <;> decide, by cases c <;> rfl, by cases c <;> decide⟩
theorem regular_VersionIndex : ∀ c, Regular VersionIndex.ep c := fun c =>
  ⟨total_VersionIndex, by cases c <;> rfl, by cases c <;> decide, by cases c <;> rfl, by cases c <;> decide⟩

/- Non-vacuity: a concrete 2-entry u32 table with a trailing partial entry. -/
example : (u32Table true .ELF32 (Slice.ofArray #[1, 0, 0, 0, 2, 0, 0, 0, 9])).len = 2 := by decide
example : (u32Table true .ELF32 (Slice.ofArray #[1, 0, 0, 0, 2, 0, 0, 0, 9])).get 1 = .ok 2 := by decide
example : ((u32Table true .ELF32 (Slice.ofArray #[1, 0, 0, 0, 2, 0, 0, 0, 9])).get 2).isOk = false := by decide

end Elf.C09
