/-
  Props/C04 — endian-aware integer reads return the exact value and advance exactly.

  Model: `readN` / `readTy` (Model/Endian.lean) mirror `safe_from!` of endian.rs:
  `checked_add`, `slice.get`, decode, advance.  The run-time spec (AnyEndian) and the compile-time
  specs all reach this code with `is_little()` as the only parameter, which is the model's `Bool`.
-/
import ElfVerif.Lemmas.Endian
import ElfVerif.Generated.Accessors
namespace Elf.C04

/-- **Success is exactly "the bytes are there"**: a read of `w` bytes at `off` succeeds iff
    `off + w` does not overflow `usize` and `off + w ≤ len`; it then returns the decoded value and
    advances the cursor by exactly `w`. -/
theorem read_ok_iff (le : Bool) (w : Nat) (d : Slice) (off v off' : Nat) :
    readN le w d off = (.ok v, off') ↔
      off + w < USZ ∧ off + w ≤ d.len ∧ off' = off + w ∧ v = decode le d off w := by
  rcases readN_cases le w d off with ⟨h1, h2, h⟩ | ⟨h1, h⟩ | ⟨h1, h2, h⟩
  · rw [h]; constructor
    · intro e; injection e with e1 e2; injection e1 with e1; exact ⟨h1, h2, e2.symm, e1.symm⟩
    · rintro ⟨_, _, rfl, rfl⟩; rfl
  · rw [h]; constructor
    · intro e; injection e with e1 _; cases e1
    · rintro ⟨h', _⟩; omega
  · rw [h]; constructor
    · intro e; injection e with e1 _; cases e1
    · rintro ⟨_, h', _⟩; omega

/-- **Failure kinds**: `IntegerOverflow` iff `off + w` overflows, else `SliceReadError(off, off+w)`. -/
theorem read_err (le : Bool) (w : Nat) (d : Slice) (off : Nat)
    (h : ¬ (off + w < USZ ∧ off + w ≤ d.len)) :
    readN le w d off =
      (.err (if USZ ≤ off + w then .IntegerOverflow else .SliceReadError off (off + w)), off) := by
  rcases readN_cases le w d off with ⟨h1, h2, _⟩ | ⟨h1, e⟩ | ⟨h1, h2, e⟩
  · exact absurd ⟨h1, h2⟩ h
  · rw [e]; simp [h1]
  · rw [e]; have : ¬ USZ ≤ off + w := by omega
    simp [this]

/-- **The cursor is untouched on every failure** (iterators rely on this). -/
theorem read_err_cursor (le : Bool) (w : Nat) (d : Slice) (off : Nat) (e : Err) (off' : Nat)
    (h : readN le w d off = (.err e, off')) : off' = off := by
  rcases readN_cases le w d off with ⟨_, _, h'⟩ | ⟨_, h'⟩ | ⟨_, _, h'⟩ <;> rw [h'] at h <;>
    injection h with h1 h2 <;> first | exact h2.symm | cases h1

/-- Reads never panic. -/
theorem read_no_panic (le : Bool) (t : Ty) (d : Slice) (off : Nat) :
    (readTy le t d off).1 ≠ .panic := readTy_ne_panic le t d off

/-- **"The integer whose bytes, in little-endian order, are buffer[off..off+w]"**: the decoded
    value is the unique natural below `256^w` whose `i`-th base-256 digit is byte `off+i`. -/
theorem decode_little_spec (d : Slice) (off w v : Nat) :
    decode true d off w = v ↔ v < 256 ^ w ∧ ∀ i, i < w → v / 256 ^ i % 256 = d.byte (off + i) := by
  simp only [decode, if_true]
  constructor
  · rintro rfl; exact ⟨decodeLE_lt d off w, fun i hi => decodeLE_digit d off w i hi⟩
  · rintro ⟨hv, hd⟩
    apply eq_of_digits w _ _ (decodeLE_lt d off w) hv
    intro i hi; rw [decodeLE_digit d off w i hi, hd i hi]

/-- Big-endian: digit `w-1-i` is byte `off+i`. -/
theorem decode_big_spec (d : Slice) (off w v : Nat) :
    decode false d off w = v ↔
      v < 256 ^ w ∧ ∀ i, i < w → v / 256 ^ (w - 1 - i) % 256 = d.byte (off + i) := by
  simp only [decode, Bool.false_eq_true, if_false]
  constructor
  · rintro rfl; exact ⟨decodeBE_lt d off w, fun i hi => decodeBE_digit d off w i hi⟩
  · rintro ⟨hv, hd⟩
    apply eq_of_digits w _ _ (decodeBE_lt d off w) hv
    intro i hi
    have hj : w - 1 - i < w := by omega
    have e : w - 1 - (w - 1 - i) = i := by omega
    have h1 := decodeBE_digit d off w (w - 1 - i) hj
    have h2 := hd (w - 1 - i) hj
    rw [e] at h1 h2
    rw [h1, h2]

/-- Signed reads are the two's-complement reading of the unsigned value:
    congruent modulo `2^(8w)` and inside the signed range. -/
theorem signed_spec (w v : Nat) (hw : 0 < w) (hv : v < 2 ^ (8 * w)) :
    (toSigned w v - (v : Int)) % ((2 ^ (8 * w) : Nat) : Int) = 0 ∧
    -((2 ^ (8 * w - 1) : Nat) : Int) ≤ toSigned w v ∧ toSigned w v < ((2 ^ (8 * w - 1) : Nat) : Int) := by
  have hsplit : 2 ^ (8 * w) = 2 * 2 ^ (8 * w - 1) := by
    rw [← Nat.pow_succ']; congr 1; omega
  unfold toSigned
  split
  · rename_i h
    refine ⟨by simp, by omega, by exact_mod_cast h⟩
  · rename_i h
    refine ⟨?_, ?_, ?_⟩
    · have : ((v : Int) - ((2 ^ (8 * w) : Nat) : Int) - (v : Int)) = -((2 ^ (8 * w) : Nat) : Int) := by omega
      rw [this]; simp
    · omega
    · omega

/-- The value a typed read returns on success. -/
theorem readTy_value (le : Bool) (t : Ty) (d : Slice) (off : Nat)
    (h1 : off + t.width < USZ) (h2 : off + t.width ≤ d.len) :
    readTy le t d off =
      (.ok (if t.signed then toSigned t.width (decode le d off t.width)
            else (decode le d off t.width : Int)), off + t.width) :=
  readTy_ok le t d off h1 h2

/-- **The native specification matches the build target.**  `Gen.nativeArms` is regenerated on every run from the
    `#[cfg(target_endian = …)] pub type NativeEndian = …` items of endian.rs: for either target byte order exactly one
    arm is active, and it aliases the fixed specification of that same order. -/
theorem native_is_target (targetLittle : Bool) :
    (Gen.nativeArms.filter (fun a => a.1 == targetLittle)).map (·.2) = [targetLittle] := by
  cases targetLittle <;> decide

/-- Byte-order specifications: which `EI_DATA` values each accepts, and with which order
    (`true` = little).  Exhaustive over all 256 byte values. -/
theorem from_ei_data_table :
    ∀ b, b < 256 →
      fromEiData .little b = (if b = 1 then .ok true else .err (.UnsupportedElfEndianness b)) ∧
      fromEiData .big b = (if b = 2 then .ok false else .err (.UnsupportedElfEndianness b)) ∧
      fromEiData .any b = (if b = 1 then .ok true else if b = 2 then .ok false
                           else .err (.UnsupportedElfEndianness b)) := by
  intro b _; simp [fromEiData]

/- Non-vacuity: concrete reads. -/
example : readN true 4 (Slice.ofArray #[0x78, 0x56, 0x34, 0x12]) 0 = (.ok 0x12345678, 4) := by decide
example : readN false 2 (Slice.ofArray #[0, 0x12, 0x34]) 1 = (.ok 0x1234, 3) := by decide
example : readN true 4 (Slice.ofArray #[1, 2, 3]) 1 = (.err (.SliceReadError 1 5), 1) := by decide
example : (readTy false .i32 (Slice.ofArray #[0xff, 0xff, 0xff, 0xfe]) 0).1 = .ok (-2) := by decide

/-! ## Round trip with the encoder: the bytes of a value, in either order, decode to that value -/

/-- little-endian bytes of `v`, `w` of them (least significant first) -/
def encodeLE : Nat → Nat → List Nat
  | 0, _ => []
  | w + 1, v => v % 256 :: encodeLE w (v / 256)

/-- big-endian bytes of `v`, `w` of them (most significant first) -/
def encodeBE (w v : Nat) : List Nat := (encodeLE w v).reverse

/-- the window holds the listed bytes from `off` on -/
def HoldsAt (d : Slice) (off : Nat) : List Nat → Prop
  | [] => True
  | b :: bs => d.byte off = b ∧ HoldsAt d (off + 1) bs

theorem holdsAt_append (d : Slice) (off : Nat) (xs ys : List Nat) :
    HoldsAt d off (xs ++ ys) ↔ HoldsAt d off xs ∧ HoldsAt d (off + xs.length) ys := by
  induction xs generalizing off with
  | nil => simp [HoldsAt]
  | cons x xs ih =>
    simp only [List.cons_append, HoldsAt, List.length_cons, ih (off + 1)]
    have : off + 1 + xs.length = off + (xs.length + 1) := by omega
    rw [this]
    constructor
    · rintro ⟨h1, h2, h3⟩; exact ⟨⟨h1, h2⟩, h3⟩
    · rintro ⟨⟨h1, h2⟩, h3⟩; exact ⟨h1, h2, h3⟩

theorem encodeLE_length (w v : Nat) : (encodeLE w v).length = w := by
  induction w generalizing v with
  | zero => rfl
  | succ w ih => simp [encodeLE, ih]

/-- **decode ∘ encode = id, little-endian**, for every width and every value that fits -/
theorem decodeLE_encodeLE (d : Slice) (off w v : Nat) (hv : v < 256 ^ w) (h : HoldsAt d off (encodeLE w v)) :
    decodeLE d off w = v := by
  induction w generalizing off v with
  | zero => simp [decodeLE]; simp at hv; omega
  | succ w ih =>
    simp only [encodeLE, HoldsAt] at h
    simp only [decodeLE]
    have hv' : v / 256 < 256 ^ w := by
      rw [Nat.pow_succ] at hv
      exact Nat.div_lt_of_lt_mul (by rw [Nat.mul_comm]; exact hv)
    rw [h.1, ih (off + 1) (v / 256) hv' h.2]
    omega

theorem encodeLE_snoc (w v : Nat) (hv : v < 256 ^ (w + 1)) :
    encodeLE (w + 1) v = encodeLE w (v % 256 ^ w) ++ [v / 256 ^ w] := by
  induction w generalizing v with
  | zero => simp [encodeLE]; omega
  | succ w ih =>
    have hv' : v / 256 < 256 ^ (w + 1) := by
      rw [Nat.pow_succ] at hv
      exact Nat.div_lt_of_lt_mul (by rw [Nat.mul_comm]; exact hv)
    rw [encodeLE, ih (v / 256) hv']
    simp only [encodeLE, List.cons_append]
    have e1 : v % 256 ^ (w + 1) % 256 = v % 256 := by
      rw [Nat.pow_succ, Nat.mod_mul_left_mod]
    have e2 : v % 256 ^ (w + 1) / 256 = v / 256 % 256 ^ w := by
      rw [Nat.pow_succ, Nat.mul_comm, Nat.mod_mul_right_div_self]
    have e3 : v / 256 / 256 ^ w = v / 256 ^ (w + 1) := by
      rw [Nat.div_div_eq_div_mul, Nat.pow_succ, Nat.mul_comm]
    rw [e1, e2, e3]

/-- **decode ∘ encode = id, big-endian** -/
theorem decodeBE_encodeBE (d : Slice) (off w v : Nat) (hv : v < 256 ^ w) (h : HoldsAt d off (encodeBE w v)) :
    decodeBE d off w = v := by
  induction w generalizing off v with
  | zero => simp [decodeBE]; simp at hv; omega
  | succ w ih =>
    unfold encodeBE at h
    rw [encodeLE_snoc w v hv, List.reverse_append] at h
    simp only [List.reverse_cons, List.reverse_nil, List.nil_append, List.cons_append, HoldsAt] at h
    simp only [decodeBE]
    have hlt : v % 256 ^ w < 256 ^ w := Nat.mod_lt _ (Nat.pow_pos (by decide))
    rw [h.1, ih (off + 1) (v % 256 ^ w) hlt h.2]
    have := Nat.div_add_mod v (256 ^ w)
    rw [Nat.mul_comm] at this
    omega

/-- both orders through the model's `decode` -/
theorem decode_encode (le : Bool) (d : Slice) (off w v : Nat) (hv : v < 256 ^ w)
    (h : HoldsAt d off (if le then encodeLE w v else encodeBE w v)) : decode le d off w = v := by
  unfold decode
  cases le
  · simp only [Bool.false_eq_true, if_false] at h ⊢; exact decodeBE_encodeBE d off w v hv h
  · simp only [if_true] at h ⊢; exact decodeLE_encodeLE d off w v hv h

example : encodeLE 4 0x12345678 = [0x78, 0x56, 0x34, 0x12] := by decide
example : encodeBE 4 0x12345678 = [0x12, 0x34, 0x56, 0x78] := by decide

end Elf.C04
