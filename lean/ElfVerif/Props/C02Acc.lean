/-
  Props/C02Acc — C02, second module: the packed-field and derived accessors (`r_info` is in C02.lean with the parse
  programs; here `st_info`, `st_other`, the undefined-symbol test, the version index, `d_val`/`d_ptr`).

  Kept apart from Props/C02.lean because other properties' developments import that file for the structure-level round
  trip: a change to an accessor must break *these* obligations and nothing else's build.
-/
import ElfVerif.Props.C02
import ElfVerif.Lemmas.Accessors
namespace Elf.C02

/-! ## Derived accessors

The accessors are the *generated* translations of the Rust bodies (`Gen.acc_*`, Generated/Accessors.lean, rewritten
from /repo on every run).  Their parameter lists say which fields of the record each reads — `Symbol.isUndefined` etc.
in Model/Structs.lean pass exactly those, by name — and Lemmas/Accessors.lean evaluates them, in the kernel, on
**every** value of the field's type (`u8`: 256 values, `u16`: 65536 values) against the ABI macro
(`st_byte_table`, `undef_table`, `versym_table`).  So the statements below hold for every record, whatever its other fields hold,
and they keep holding under any rewrite of a body that computes the same function. -/

/-- ELF_ST_BIND(i) = i >> 4, ELF_ST_TYPE(i) = i & 0xf, for ELF_ST_INFO(b,t) = (b << 4) + (t & 0xf). -/
theorem st_info_split (s : Symbol) (b t : Nat) (ht : t < 16) (hi : s.st_info < 256) (h : s.st_info = b * 16 + t) :
    s.stBind = b ∧ s.stSymtype = t := by
  rw [Symbol.stBind_eq, Symbol.stSymtype_eq]
  omega

/-- ELF_ST_VISIBILITY(o) = o & 0x3. -/
theorem st_vis_spec (s : Symbol) : s.stVis = s.st_other % 4 := Symbol.stVis_eq s

/-- The undefined-symbol test is `st_shndx == SHN_UNDEF (0)` — a function of `st_shndx` alone: value, size, name,
    binding and type of the symbol do not enter (an undefined symbol may carry a PLT address in `st_value`). -/
theorem is_undefined_spec (s : Symbol) (hx : s.st_shndx < 65536) : s.isUndefined = true ↔ s.st_shndx = 0 := by
  rw [Symbol.isUndefined_eq, Nat.mod_eq_of_lt hx]
  simp

/-- Version index: low 15 bits; hidden flag: bit 15. -/
theorem version_index_spec (v : Nat) (hv : v < 2 ^ 16) :
    VersionIndex.index v = v % 2 ^ 15 ∧ (VersionIndex.isHidden v = true ↔ 2 ^ 15 ≤ v) := by
  refine ⟨VersionIndex.index_eq v, ?_⟩
  rw [VersionIndex.isHidden_eq, Nat.mod_eq_of_lt hv]
  simp

theorem version_local_global (v : Nat) :
    (VersionIndex.isLocal v = true ↔ VersionIndex.index v = 0) ∧
    (VersionIndex.isGlobal v = true ↔ VersionIndex.index v = 1) := by
  rw [VersionIndex.isLocal_eq, VersionIndex.isGlobal_eq, VersionIndex.index_eq]
  simp

/-- `d_val` and `d_ptr` are the two readings of the one `d_un` word. -/
theorem d_val_d_ptr (d : Dyn) : d.dVal = d.d_un ∧ d.dPtr = d.d_un := by
  constructor <;> rfl

/- Non-vacuity: a record as the parsers build them (bytes and halfwords in range), undefined although it carries a value -/
example : (⟨1, 0, 0x12, 3, 0x401020, 9⟩ : Symbol).st_shndx < 65536 ∧
    (⟨1, 0, 0x12, 3, 0x401020, 9⟩ : Symbol).isUndefined = true := by decide

end Elf.C02
