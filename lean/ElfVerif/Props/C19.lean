/-
  Props/C19 — exported ABI definitions agree with the ELF ABI reference.

  `Gen.abiTable`, `Gen.cStructs`, `Gen.toStrArms` are regenerated from abi.rs / the repr(C) structs /
  to_str.rs on every run; `Ref.abiRef`, `Ref.cStructRef` are vendored.  The comparisons are
  Boolean functions evaluated by the kernel over the *whole* tables (`decide +kernel`), lifted to
  the quantified statements by the soundness lemmas below.
-/
import ElfVerif.Generated.AbiConsts
import ElfVerif.Generated.CStructs
import ElfVerif.Generated.ToStr
import ElfVerif.Ref.AbiReference
import ElfVerif.Ref.CStructRef
namespace Elf.C19

/-- (name key, value) pairs of the crate's integer constants -/
def implPairs : List (Nat × Int) := Gen.abiTable.map fun r => (r.1, r.2.2.2)

def strictSorted : List (Nat × Int) → Bool
  | [] => true
  | [_] => true
  | a :: b :: rest => Nat.blt a.1 b.1 && strictSorted (b :: rest)

/-- walk two key-sorted tables; on equal keys the values must be equal -/
def mergeAgree : Nat → List (Nat × Int) → List (Nat × Int) → Bool
  | 0, _, _ => false
  | _ + 1, [], _ => true
  | _ + 1, _, [] => true
  | fuel + 1, a :: xs, b :: ys =>
    if Nat.blt a.1 b.1 then mergeAgree fuel xs (b :: ys)
    else if Nat.blt b.1 a.1 then mergeAgree fuel (a :: xs) ys
    else a.2 == b.2 && mergeAgree fuel xs ys

/-- every value fits the Rust type it is declared with -/
def inRange (r : Nat × Nat × Bool × Int) : Bool :=
  if r.2.2.1 then decide (-(2 ^ (8 * r.2.1 - 1) : Int) ≤ r.2.2.2) && decide (r.2.2.2 < (2 ^ (8 * r.2.1 - 1) : Int))
  else decide (0 ≤ r.2.2.2) && decide (r.2.2.2 < (2 ^ (8 * r.2.1) : Int))

/-- the kernel-evaluated table check -/
theorem abi_tables_checked :
    (strictSorted implPairs && strictSorted Ref.abiRef &&
      mergeAgree (implPairs.length + Ref.abiRef.length + 1) implPairs Ref.abiRef &&
      Gen.abiTable.all inRange) = true := by decide +kernel

theorem strictSorted_tail {a : Nat × Int} {l : List (Nat × Int)} (h : strictSorted (a :: l) = true) :
    strictSorted l = true := by
  cases l with
  | nil => rfl
  | cons b rest => simp [strictSorted] at h; exact h.2

theorem strictSorted_head_lt {a : Nat × Int} {l : List (Nat × Int)} (h : strictSorted (a :: l) = true)
    (x : Nat × Int) (hx : x ∈ l) : a.1 < x.1 := by
  induction l generalizing a with
  | nil => cases hx
  | cons b rest ih =>
    simp [strictSorted] at h
    rcases List.mem_cons.mp hx with rfl | hx
    · exact h.1
    · exact Nat.lt_trans h.1 (ih h.2 hx)

/-- **Lifting lemma**: a successful merge means: wherever a name occurs in both tables, the values
    are equal. -/
theorem mergeAgree_sound (fuel : Nat) (xs ys : List (Nat × Int))
    (hx : strictSorted xs = true) (hy : strictSorted ys = true)
    (h : mergeAgree fuel xs ys = true) :
    ∀ k v v', (k, v) ∈ xs → (k, v') ∈ ys → v = v' := by
  induction fuel generalizing xs ys with
  | zero => simp [mergeAgree] at h
  | succ n ih =>
    cases xs with
    | nil => intro k v v' h1; cases h1
    | cons a xs =>
      cases ys with
      | nil => intro k v v' _ h2; cases h2
      | cons b ys =>
        simp only [mergeAgree] at h
        intro k v v' h1 h2
        by_cases hab : a.1 < b.1
        · have hb : Nat.blt a.1 b.1 = true := by simpa [Nat.blt_eq] using hab
          simp only [hb, if_true] at h
          rcases List.mem_cons.mp h1 with he | h1'
          · -- k = a.1 is smaller than every key of (b :: ys)
            have hk : k = a.1 := by rw [← he]
            rcases List.mem_cons.mp h2 with he2 | h2'
            · have : k = b.1 := by rw [← he2]
              omega
            · have := strictSorted_head_lt hy (k, v') h2'; simp at this; omega
          · exact ih xs (b :: ys) (strictSorted_tail hx) hy h k v v' h1' h2
        · have hb : Nat.blt a.1 b.1 = false := by
            cases hbb : Nat.blt a.1 b.1 with
            | false => rfl
            | true => exact absurd ((Nat.blt_eq).mp hbb) hab
          simp only [hb, Bool.false_eq_true, if_false] at h
          by_cases hba : b.1 < a.1
          · have hb2 : Nat.blt b.1 a.1 = true := by simpa [Nat.blt_eq] using hba
            simp only [hb2, if_true] at h
            rcases List.mem_cons.mp h2 with he2 | h2'
            · have hk : k = b.1 := by rw [← he2]
              rcases List.mem_cons.mp h1 with he | h1'
              · have : k = a.1 := by rw [← he]
                omega
              · have := strictSorted_head_lt hx (k, v) h1'; simp at this; omega
            · exact ih (a :: xs) ys hx (strictSorted_tail hy) h k v v' h1 h2'
          · have hb2 : Nat.blt b.1 a.1 = false := by
              cases hbb : Nat.blt b.1 a.1 with
              | false => rfl
              | true => exact absurd ((Nat.blt_eq).mp hbb) hba
            simp only [hb2, Bool.false_eq_true, if_false, Bool.and_eq_true, beq_iff_eq] at h
            have hkeys : a.1 = b.1 := by omega
            rcases List.mem_cons.mp h1 with he | h1'
            · rcases List.mem_cons.mp h2 with he2 | h2'
              · rw [← he] at h; rw [← he2] at h; exact h.1
              · have hk : k = a.1 := by rw [← he]
                have := strictSorted_head_lt hy (k, v') h2'; simp at this; omega
            · rcases List.mem_cons.mp h2 with he2 | h2'
              · have hk : k = b.1 := by rw [← he2]
                have := strictSorted_head_lt hx (k, v) h1'; simp at this; omega
              · exact ih xs ys (strictSorted_tail hx) (strictSorted_tail hy) h.2 k v v' h1' h2'

/-- **Every exported integer constant that the reference defines has the reference's value.** -/
theorem abi_agrees : ∀ k v v', (k, v) ∈ implPairs → (k, v') ∈ Ref.abiRef → v = v' := by
  have h := abi_tables_checked
  simp only [Bool.and_eq_true] at h
  exact mergeAgree_sound _ _ _ h.1.1.1 h.1.1.2 h.1.2

/-- … and fits the Rust type it is declared with. -/
theorem abi_values_in_range : ∀ r, r ∈ Gen.abiTable → inRange r = true := by
  have h := abi_tables_checked
  simp only [Bool.and_eq_true, List.all_eq_true] at h
  exact h.2

/-! ### C-layout structures -/

/-- repr(C) layout: each field at the next multiple of its alignment; size rounded to the
    largest alignment. Returns (size, offsets). -/
def cLayout (fields : List (Nat × Nat × Nat)) : Nat × List Nat :=
  let step := fun (st : Nat × Nat × List Nat) (f : Nat × Nat × Nat) =>
    let off := (st.1 + f.2.2 - 1) / f.2.2 * f.2.2
    (off + f.2.1, max st.2.1 f.2.2, st.2.2 ++ [off])
  let r := fields.foldl step (0, 1, [])
  ((r.1 + r.2.1 - 1) / r.2.1 * r.2.1, r.2.2)

def structMatches (g : Nat × List (Nat × Nat × Nat)) (r : String × Nat × List (String × Nat)) : Bool :=
  Nat.beq g.1 (Ref.key r.1) &&
  Nat.beq (cLayout g.2).1 r.2.1 &&
  (g.2.map (·.1)) == (r.2.2.map fun f => Ref.key f.1) &&
  (cLayout g.2).2 == (r.2.2.map (·.2))

/-- **Every exported C-layout structure has the ABI's size, field names, order and offsets**
    (all 16 structures; generated field lists vs the vendored reference). -/
theorem cstruct_layout :
    (Nat.beq Gen.cStructs.length Ref.cStructRef.length &&
      (List.zip Gen.cStructs Ref.cStructRef).all fun p => structMatches p.1 p.2) = true := by
  decide +kernel

/-! ### symbolic names -/

def lookupKey : List (Nat × Int) → Nat → Option Int
  | [], _ => none
  | a :: rest, k => if Nat.beq a.1 k then some a.2 else lookupKey rest k

/-- an arm of a symbolic-name helper is right when the returned string *is* the identifier of
    the matched constant and that identifier names an exported constant with the matched value -/
def armOK (a : Nat × Bool × Int × Nat × Nat) : Bool :=
  !a.2.1 || (Nat.beq a.2.2.2.1 a.2.2.2.2 && lookupKey implPairs a.2.2.2.1 == some a.2.2.1)

theorem to_str_arms_checked : Gen.toStrArms.all armOK = true := by decide +kernel

theorem lookupKey_mem (l : List (Nat × Int)) (k : Nat) (v : Int) (h : lookupKey l k = some v) : (k, v) ∈ l := by
  induction l with
  | nil => simp [lookupKey] at h
  | cons a rest ih =>
    simp only [lookupKey] at h
    split at h
    · rename_i hk
      have hk' : a.1 = k := by simpa [Nat.beq_eq] using hk
      injection h with h
      obtain ⟨a1, a2⟩ := a
      simp at hk' h; subst hk' h
      exact List.mem_cons_self ..
    · exact List.mem_cons_of_mem _ (ih h)

/-- **Every symbolic name produced by the to_str helpers is exactly the identifier of an exported
    constant with that value**: for every arm `(f, v) ↦ s` of e_osabi/e_type/e_machine/sh_type/
    p_type/st_symtype/st_bind/st_vis/ch_type/d_tag `_to_str`, `(s, v)` is a row of the constant
    table. -/
theorem to_str_names : ∀ a, a ∈ Gen.toStrArms → a.2.1 = true → (a.2.2.2.1, a.2.2.1) ∈ implPairs := by
  intro a ha hs
  have h := to_str_arms_checked
  rw [List.all_eq_true] at h
  have := h a ha
  simp only [armOK, hs, Bool.not_true, Bool.false_or, Bool.and_eq_true, beq_iff_eq] at this
  exact lookupKey_mem _ _ _ this.2

/-- The `*_to_string` variants fall back to text containing the number (their format string
    mentions the argument). -/
theorem to_string_fallback : Gen.toStringFallbacks.all (fun f => f.2.2) = true := by decide +kernel

/- Non-vacuity: the tables are not empty and contain well-known rows. -/
example : (Ref.key "EM_X86_64", (62 : Int)) ∈ implPairs := by
  apply lookupKey_mem; decide +kernel
example : 1000 < implPairs.length ∧ 3000 < Ref.abiRef.length ∧ 200 < Gen.toStrArms.length := by decide +kernel

end Elf.C19
