/-
  Props/C20 — alternative access paths to the same data agree.
-/
import ElfVerif.Props.C09
import ElfVerif.Props.C03
import ElfVerif.Lemmas.CommonData
namespace Elf.C20
open Elf.C09 Elf.C03

/-! ### typed views are refused on a type mismatch, and otherwise are the raw section bytes -/

theorem typed_view_refused (f : ElfBytes) (sh : SectionHeader) (want : Nat) (h : sh.sh_type ≠ want) :
    f.typedSection sh want = .err (.UnexpectedSectionType sh.sh_type want) := by
  unfold ElfBytes.typedSection; simp [h]

theorem strtab_view_refused (f : ElfBytes) (sh : SectionHeader) (h : sh.sh_type ≠ Abi.SHT_STRTAB) :
    f.sectionDataAsStrtab sh = .err (.UnexpectedSectionType sh.sh_type Abi.SHT_STRTAB) :=
  typed_view_refused f sh _ h

theorem rels_view_refused (f : ElfBytes) (sh : SectionHeader) (h : sh.sh_type ≠ Abi.SHT_REL) :
    f.sectionDataAsRels sh = .err (.UnexpectedSectionType sh.sh_type Abi.SHT_REL) := by
  unfold ElfBytes.sectionDataAsRels; rw [typed_view_refused f sh _ h]; rfl

theorem relas_view_refused (f : ElfBytes) (sh : SectionHeader) (h : sh.sh_type ≠ Abi.SHT_RELA) :
    f.sectionDataAsRelas sh = .err (.UnexpectedSectionType sh.sh_type Abi.SHT_RELA) := by
  unfold ElfBytes.sectionDataAsRelas; rw [typed_view_refused f sh _ h]; rfl

theorem notes_view_refused (f : ElfBytes) (sh : SectionHeader) (h : sh.sh_type ≠ Abi.SHT_NOTE) :
    f.sectionDataAsNotes sh = .err (.UnexpectedSectionType sh.sh_type Abi.SHT_NOTE) := by
  unfold ElfBytes.sectionDataAsNotes; rw [typed_view_refused f sh _ h]; rfl

theorem dynamic_view_refused (f : ElfBytes) (sh : SectionHeader) (h : sh.sh_type ≠ Abi.SHT_DYNAMIC) :
    f.sectionDataAsDynamic sh = .err (.UnexpectedSectionType sh.sh_type Abi.SHT_DYNAMIC) := by
  unfold ElfBytes.sectionDataAsDynamic; simp [h]

theorem segment_notes_refused (f : ElfBytes) (ph : ProgramHeader) (h : ph.p_type ≠ Abi.PT_NOTE) :
    f.segmentDataAsNotes ph = .err (.UnexpectedSegmentType ph.p_type Abi.PT_NOTE) := by
  unfold ElfBytes.segmentDataAsNotes; simp [h]

/-- A matching typed view iterates exactly the bytes `section_data` returns, from offset 0, with
    the file's class and byte order: its entries are the entries decodable from the raw bytes. -/
theorem rels_view_entries (f : ElfBytes) (sh : SectionHeader) (it : Iter Rel)
    (h : f.sectionDataAsRels sh = .ok it) :
    ∃ ch, f.sectionData sh = .ok (it.data, ch) ∧ it.offset = 0 ∧ it.ep = Rel.ep ∧
      it.cls = f.ehdr.cls ∧ it.little = f.ehdr.little := by
  unfold ElfBytes.sectionDataAsRels ElfBytes.typedSection at h
  split at h
  · simp [Out.bind] at h
  · cases hd : f.sectionData sh with
    | ok r => simp [hd, Out.bind] at h; subst h; exact ⟨r.2, rfl, rfl, rfl, rfl, rfl⟩
    | err e => simp [hd, Out.bind] at h
    | panic => simp [hd, Out.bind] at h

theorem relas_view_entries (f : ElfBytes) (sh : SectionHeader) (it : Iter Rela)
    (h : f.sectionDataAsRelas sh = .ok it) :
    ∃ ch, f.sectionData sh = .ok (it.data, ch) ∧ it.offset = 0 ∧ it.ep = Rela.ep ∧
      it.cls = f.ehdr.cls ∧ it.little = f.ehdr.little := by
  unfold ElfBytes.sectionDataAsRelas ElfBytes.typedSection at h
  split at h
  · simp [Out.bind] at h
  · cases hd : f.sectionData sh with
    | ok r => simp [hd, Out.bind] at h; subst h; exact ⟨r.2, rfl, rfl, rfl, rfl, rfl⟩
    | err e => simp [hd, Out.bind] at h
    | panic => simp [hd, Out.bind] at h

/-! ### lookup by name returns the *first* section whose name equals the query -/

/-- First entry among indices `k, …, k+n-1` satisfying `p` (stopping at an entry that fails to
    parse, as the iterator does). -/
def firstFrom {α} (t : Table α) (p : α → Bool) : Nat → Nat → Option α
  | _, 0 => none
  | k, n + 1 =>
    match t.get k with
    | .ok a => if p a then some a else firstFrom t p (k + 1) n
    | _ => none

theorem find_from {α} (t : Table α) (hr : Regular t.ep t.cls) (hwf : t.data.len < 2 ^ 63)
    (p : α → Bool) (n k fuel : Nat) (hk : k + n = t.len) (hf : n < fuel) :
    Iter.findFuel p fuel ⟨t.ep, t.little, t.cls, t.data, k * t.ep.size t.cls⟩ = .ok (firstFrom t p k n) := by
  induction n generalizing k fuel with
  | zero =>
    cases fuel with
    | zero => omega
    | succ fuel =>
      -- at the end of the table `next` yields None
      obtain ⟨items, it', hc, hm⟩ := collect_from t hr hwf 0 k (fuel + 1) [] (by omega) (by omega)
      unfold Iter.collectFuel at hc
      unfold Iter.findFuel
      generalize (Iter.next ⟨t.ep, t.little, t.cls, t.data, k * t.ep.size t.cls⟩) = r at hc
      obtain ⟨r1, r2⟩ := r
      cases r1 with
      | panic => simp at hc
      | err e => simp at hc
      | ok o =>
        cases o with
        | none => simp [firstFrom]
        | some a =>
          simp [gets] at hm
          subst hm
          -- a yielded item would make the collected list non-empty
          simp only [List.nil_append, List.append_nil] at hc
          have := collect_len_ge fuel r2 [a] [] it' hc
          simp at this
  | succ n ih =>
    cases fuel with
    | zero => omega
    | succ fuel =>
      obtain ⟨a, hget, hnext⟩ := next_at t hr hwf k (by omega)
      unfold Iter.findFuel
      rw [hnext]
      simp only [firstFrom, hget]
      split
      · rfl
      · exact ih (k + 1) fuel (by omega) (by omega)
where
  collect_len_ge {α} (fuel : Nat) (it : Iter α) (acc : List α) :
      ∀ l it', Iter.collectFuel fuel it acc = (.ok l, it') → acc.length ≤ l.length := by
    induction fuel generalizing it acc with
    | zero => intro l it' h; simp [Iter.collectFuel] at h; rw [← h.1]; exact Nat.le_refl _
    | succ n ih =>
      intro l it' h
      unfold Iter.collectFuel at h
      generalize it.next = r at h
      obtain ⟨r1, r2⟩ := r
      cases r1 with
      | panic => simp at h
      | err e => simp at h
      | ok o =>
        cases o with
        | none => simp at h; rw [← h.1]; exact Nat.le_refl _
        | some a =>
          have := ih r2 (acc ++ [a]) l it' h
          simp at this; omega

/-- **section_header_by_name returns the first header (in table order) whose name string —
    NUL-terminated at `sh_name` in the section-name string table, valid UTF-8 — equals the query**;
    headers whose name cannot be read are skipped. -/
theorem by_name_first (f : ElfBytes) (shdrs : Table SectionHeader) (strtab name : Slice)
    (hs : f.sectionHeadersWithStrtab = .ok (some shdrs, some strtab))
    (hep : shdrs.ep = SectionHeader.ep) (hwf : shdrs.data.len < 2 ^ 63) :
    f.sectionHeaderByName name =
      .ok (firstFrom shdrs (ElfBytes.nameMatches strtab name) 0 shdrs.len) := by
  unfold ElfBytes.sectionHeaderByName
  rw [hs]
  simp only [Out.bind]
  have hr : Regular shdrs.ep shdrs.cls := by rw [hep]; exact regular_SectionHeader _
  have hle : shdrs.len ≤ shdrs.data.len := Nat.div_le_self _ _
  have := find_from shdrs hr hwf (ElfBytes.nameMatches strtab name) shdrs.len 0 (shdrs.data.len + 1)
    (by omega) (by omega)
  simp only [Nat.zero_mul] at this
  exact this

/-! ### the dynamic table through `.dynamic` equals the one through `PT_DYNAMIC` when both
    designate the same bytes -/

theorem dynamic_paths_agree (f : ElfBytes) (sh : SectionHeader) (ph : ProgramHeader)
    (hnc : sh.sh_flags &&& Abi.SHF_COMPRESSED = 0)
    (hsame : sh.sh_offset = ph.p_offset ∧ sh.sh_size = ph.p_filesz)
    (t : Table Dyn) (hsec : f.sectionDataAsDynamic sh = .ok t) :
    (f.segmentData ph).bind (fun w => Out.ok (f.dynTable w)) = .ok t := by
  unfold ElfBytes.sectionDataAsDynamic at hsec
  split at hsec
  · simp at hsec
  · rename_i hty
    have hnb : sh.sh_type ≠ Abi.SHT_NOBITS := by
      have : sh.sh_type = Abi.SHT_DYNAMIC := by simpa using hty
      rw [this]; decide
    rw [section_data_plain f sh hnb hnc] at hsec
    rw [segment_data_eq, ← hsame.1, ← hsame.2]
    cases hv : Dyn.ep.validateEntsize f.ehdr.cls sh.sh_entsize with
    | panic => simp [hv, Out.bind] at hsec
    | err e => simp [hv, Out.bind] at hsec
    | ok v =>
      simp only [hv, Out.bind] at hsec
      by_cases h1 : sh.sh_offset + sh.sh_size < USZ
      · simp only [h1, if_true] at hsec ⊢
        by_cases h2 : sh.sh_offset + sh.sh_size ≤ f.data.len
        · simp only [h2, if_true] at hsec ⊢
          simpa [Out.bind] using hsec
        · simp [h2] at hsec
      · simp [h1] at hsec

/-! ### one-pass common-data discovery = the targeted accessors

  `find_common_data` is a fold of `commonStep` over the section headers in table order
  (`commonScan_list`); each field is written only by headers of one kind, so after the fold it
  holds the value computed from the *last* header of that kind (`fold_field`), while the targeted
  accessors use the *first* (`iter().find`).  With at most one section of each kind the two
  coincide. -/

/-- at most one section of type `K` -/
def AtMostOne (K : Nat) (l : List SectionHeader) : Prop := (l.filter fun sh => sh.sh_type == K).length ≤ 1

/-- the result of `find_common_data`, field by field, in terms of the section pass's result -/
theorem find_common_data_fields (f : ElfBytes) (cd : ElfBytes.CommonElfData) (h : f.findCommonData = .ok cd) :
    ∃ res, f.sectionScan = .ok res ∧
      cd.symtab = res.symtab ∧ cd.symtabStrs = res.symtabStrs ∧ cd.dynsyms = res.dynsyms ∧
      cd.dynsymsStrs = res.dynsymsStrs ∧ cd.sysvHash = res.sysvHash ∧ cd.gnuHash = res.gnuHash ∧
      (res.dynamic.isNone = false → cd.dynamic = res.dynamic) ∧
      (res.dynamic.isNone = true → f.dynamicFromSegments = .ok cd.dynamic) := by
  unfold ElfBytes.findCommonData at h
  simp only [Out.bind] at h
  cases hsc : f.sectionScan with
  | err e => simp [hsc] at h
  | panic => simp [hsc] at h
  | ok res =>
    simp only [hsc] at h
    refine ⟨res, rfl, ?_⟩
    by_cases hd : res.dynamic.isNone = true
    · simp only [hd, if_true] at h
      cases hseg : f.dynamicFromSegments with
      | err e => simp [hseg] at h
      | panic => simp [hseg] at h
      | ok o =>
        simp only [hseg] at h
        cases o with
        | none =>
          simp only at h
          injection h with h; subst h
          refine ⟨rfl, rfl, rfl, rfl, rfl, rfl, ?_, ?_⟩
          · intro hh; rw [hd] at hh
          · intro _
            cases hq : res.dynamic with
            | none => rfl
            | some x => rw [hq] at hd; simp at hd
        | some t =>
          simp only at h
          injection h with h; subst h
          refine ⟨rfl, rfl, rfl, rfl, rfl, rfl, ?_, ?_⟩
          · intro hh; rw [hd] at hh; cases hh
          · intro _; rfl
    · simp only [hd] at h
      injection h with h; subst h
      exact ⟨rfl, rfl, rfl, rfl, rfl, rfl, fun _ => rfl, fun hh => absurd hh hd⟩

/-- the section scan of `find_common_data` is the fold over the list of headers -/
theorem common_scan_is_fold (f : ElfBytes) (t : Table SectionHeader) (l : List SectionHeader) (hl : Lists t l) :
    f.commonScan t (t.data.len + 1) t.iter {} = foldOut (f.commonStep t) {} l := by
  have hle : t.len ≤ t.data.len := Nat.div_le_self _ _
  have := commonScan_list f hl l.length 0 (t.data.len + 1) {} (by omega) (by rw [hl.len]; omega)
  rw [Table.iterAt_zero] at this
  rw [this]; simp

/-- **Symbol tables** (`K = SHT_SYMTAB` with `symbol_table()`, `K = SHT_DYNSYM` with
    `dynamic_symbol_table()`): with at most one section of the kind, the targeted accessor returns
    exactly the pair the one-pass discovery recorded. -/
theorem common_symtab (f : ElfBytes) (t : Table SectionHeader) (l : List SectionHeader)
    (hsh : f.shdrs = some t) (hl : Lists t l) (hu : AtMostOne Abi.SHT_SYMTAB l)
    (cd : ElfBytes.CommonElfData) (h : f.findCommonData = .ok cd) :
    f.symbolTable = .ok (match cd.symtab, cd.symtabStrs with
                         | some a, some b => some (a, b)
                         | _, _ => none) := by
  obtain ⟨res, hscan, e1, e2, _⟩ := find_common_data_fields f cd h
  simp only [ElfBytes.sectionScan, hsh] at hscan
  rw [common_scan_is_fold f t l hl] at hscan
  have hfield := fold_field f t (fun c => (c.symtab, c.symtabStrs)) Abi.SHT_SYMTAB
    (fun x v => ∃ strShdr r, t.get x.sh_link = .ok strShdr ∧ f.sectionDataAsSymbolTable x strShdr = .ok r ∧
      v = (some r.1, some r.2)) (step_symtab f t) l {} res hscan
  rw [lastOfType_eq_find _ l hu] at hfield
  unfold ElfBytes.symbolTable ElfBytes.symbolTableOfType
  simp only [hsh]
  rw [hl.find]
  simp only [Out.bind]
  cases hfind : l.find? (fun sh => sh.sh_type == Abi.SHT_SYMTAB) with
  | none =>
    simp only [hfind] at hfield ⊢
    injection hfield with h1 h2
    rw [e1, e2, h1, h2]
  | some sh =>
    simp only [hfind] at hfield ⊢
    obtain ⟨strShdr, r, g1, g2, g3⟩ := hfield
    injection g3 with h1 h2
    rw [g1]; simp only; rw [g2]; simp only
    rw [e1, e2, h1, h2]

theorem common_dynsym (f : ElfBytes) (t : Table SectionHeader) (l : List SectionHeader)
    (hsh : f.shdrs = some t) (hl : Lists t l) (hu : AtMostOne Abi.SHT_DYNSYM l)
    (cd : ElfBytes.CommonElfData) (h : f.findCommonData = .ok cd) :
    f.dynamicSymbolTable = .ok (match cd.dynsyms, cd.dynsymsStrs with
                                | some a, some b => some (a, b)
                                | _, _ => none) := by
  obtain ⟨res, hscan, _, _, e1, e2, _⟩ := find_common_data_fields f cd h
  simp only [ElfBytes.sectionScan, hsh] at hscan
  rw [common_scan_is_fold f t l hl] at hscan
  have hfield := fold_field f t (fun c => (c.dynsyms, c.dynsymsStrs)) Abi.SHT_DYNSYM
    (fun x v => ∃ strShdr r, t.get x.sh_link = .ok strShdr ∧ f.sectionDataAsSymbolTable x strShdr = .ok r ∧
      v = (some r.1, some r.2)) (step_dynsym f t) l {} res hscan
  rw [lastOfType_eq_find _ l hu] at hfield
  unfold ElfBytes.dynamicSymbolTable ElfBytes.symbolTableOfType
  simp only [hsh]
  rw [hl.find]
  simp only [Out.bind]
  cases hfind : l.find? (fun sh => sh.sh_type == Abi.SHT_DYNSYM) with
  | none =>
    simp only [hfind] at hfield ⊢
    injection hfield with h1 h2
    rw [e1, e2, h1, h2]
  | some sh =>
    simp only [hfind] at hfield ⊢
    obtain ⟨strShdr, r, g1, g2, g3⟩ := hfield
    injection g3 with h1 h2
    rw [g1]; simp only; rw [g2]; simp only
    rw [e1, e2, h1, h2]

/-- **Dynamic table, found through its section**: with exactly one `SHT_DYNAMIC` section, `dynamic()`
    returns the table the one-pass discovery recorded. -/
theorem common_dynamic_section (f : ElfBytes) (t : Table SectionHeader) (l : List SectionHeader)
    (hsh : f.shdrs = some t) (hl : Lists t l) (hu : AtMostOne Abi.SHT_DYNAMIC l)
    (sh : SectionHeader) (hex : l.find? (fun sh => sh.sh_type == Abi.SHT_DYNAMIC) = some sh)
    (cd : ElfBytes.CommonElfData) (h : f.findCommonData = .ok cd) :
    f.dynamic = .ok cd.dynamic := by
  obtain ⟨res, hscan, _, _, _, _, _, _, e1, _⟩ := find_common_data_fields f cd h
  simp only [ElfBytes.sectionScan, hsh] at hscan
  rw [common_scan_is_fold f t l hl] at hscan
  have hfield := fold_field f t (fun c => c.dynamic) Abi.SHT_DYNAMIC
    (fun x v => ∃ d, f.sectionDataAsDynamic x = .ok d ∧ v = some d) (step_dynamic f t) l {} res hscan
  rw [lastOfType_eq_find _ l hu, hex] at hfield
  obtain ⟨d, g1, g2⟩ := hfield
  unfold ElfBytes.dynamic
  simp only [hsh]
  rw [hl.find, hex]
  simp only [Out.bind, g1]
  rw [e1 (by rw [g2]; rfl), g2]

/-- **Dynamic table, found through `PT_DYNAMIC`**: without a `SHT_DYNAMIC` section the discovery
    falls back to the segment, and records what `dynamic()` returns on the same file read without
    its section header table. -/
theorem common_dynamic_segment (f : ElfBytes) (t : Table SectionHeader) (l : List SectionHeader)
    (hsh : f.shdrs = some t) (hl : Lists t l)
    (hno : l.find? (fun sh => sh.sh_type == Abi.SHT_DYNAMIC) = none)
    (cd : ElfBytes.CommonElfData) (h : f.findCommonData = .ok cd) :
    f.dynamicFromSegments = .ok cd.dynamic ∧
    (⟨f.ehdr, f.data, none, f.phdrs⟩ : ElfBytes).dynamic = .ok cd.dynamic := by
  obtain ⟨res, hscan, _, _, _, _, _, _, _, e2⟩ := find_common_data_fields f cd h
  simp only [ElfBytes.sectionScan, hsh] at hscan
  rw [common_scan_is_fold f t l hl] at hscan
  have hu : AtMostOne Abi.SHT_DYNAMIC l := by
    unfold AtMostOne
    have : (l.filter fun sh => sh.sh_type == Abi.SHT_DYNAMIC) = [] := by
      rw [List.filter_eq_nil_iff]
      intro a ha hp
      exact (List.find?_eq_none.mp hno) a ha hp
    rw [this]; simp
  have hfield := fold_field f t (fun c => c.dynamic) Abi.SHT_DYNAMIC
    (fun x v => ∃ d, f.sectionDataAsDynamic x = .ok d ∧ v = some d) (step_dynamic f t) l {} res hscan
  rw [lastOfType_eq_find _ l hu, hno] at hfield
  simp only at hfield
  have := e2 (by rw [hfield]; rfl)
  exact ⟨this, this⟩

/-- **Hash tables**: the recorded SysV / GNU hash table is `new` applied to the bytes of the one
    `SHT_HASH` / `SHT_GNU_HASH` section (what a caller gets from `section_data` + `new`). -/
theorem common_sysv_hash (f : ElfBytes) (t : Table SectionHeader) (l : List SectionHeader)
    (hsh : f.shdrs = some t) (hl : Lists t l) (hu : AtMostOne Abi.SHT_HASH l)
    (cd : ElfBytes.CommonElfData) (h : f.findCommonData = .ok cd) :
    match l.find? (fun sh => sh.sh_type == Abi.SHT_HASH) with
    | none => cd.sysvHash = none
    | some x => ∃ r buf tbl, dataRange x.sh_offset x.sh_size = .ok r ∧ f.data.getBytes r.1 r.2 = .ok buf ∧
        SysVHashTable.new f.ehdr.little f.ehdr.cls buf = .ok tbl ∧ cd.sysvHash = some tbl := by
  obtain ⟨res, hscan, _, _, _, _, e1, _⟩ := find_common_data_fields f cd h
  simp only [ElfBytes.sectionScan, hsh] at hscan
  rw [common_scan_is_fold f t l hl] at hscan
  have hfield := fold_field f t (fun c => c.sysvHash) Abi.SHT_HASH
    (fun x v => ∃ r buf tbl, dataRange x.sh_offset x.sh_size = .ok r ∧ f.data.getBytes r.1 r.2 = .ok buf ∧
        SysVHashTable.new f.ehdr.little f.ehdr.cls buf = .ok tbl ∧ v = some tbl) (step_sysv f t) l {} res hscan
  rw [lastOfType_eq_find _ l hu] at hfield
  rw [e1]
  cases hfind : l.find? (fun sh => sh.sh_type == Abi.SHT_HASH) with
  | none => simp only [hfind] at hfield ⊢; exact hfield
  | some x => simp only [hfind] at hfield ⊢; exact hfield

theorem common_gnu_hash (f : ElfBytes) (t : Table SectionHeader) (l : List SectionHeader)
    (hsh : f.shdrs = some t) (hl : Lists t l) (hu : AtMostOne Abi.SHT_GNU_HASH l)
    (cd : ElfBytes.CommonElfData) (h : f.findCommonData = .ok cd) :
    match l.find? (fun sh => sh.sh_type == Abi.SHT_GNU_HASH) with
    | none => cd.gnuHash = none
    | some x => ∃ r buf tbl, dataRange x.sh_offset x.sh_size = .ok r ∧ f.data.getBytes r.1 r.2 = .ok buf ∧
        GnuHashTable.new f.ehdr.little f.ehdr.cls buf = .ok tbl ∧ cd.gnuHash = some tbl := by
  obtain ⟨res, hscan, _, _, _, _, _, e1, _⟩ := find_common_data_fields f cd h
  simp only [ElfBytes.sectionScan, hsh] at hscan
  rw [common_scan_is_fold f t l hl] at hscan
  have hfield := fold_field f t (fun c => c.gnuHash) Abi.SHT_GNU_HASH
    (fun x v => ∃ r buf tbl, dataRange x.sh_offset x.sh_size = .ok r ∧ f.data.getBytes r.1 r.2 = .ok buf ∧
        GnuHashTable.new f.ehdr.little f.ehdr.cls buf = .ok tbl ∧ v = some tbl) (step_gnu f t) l {} res hscan
  rw [lastOfType_eq_find _ l hu] at hfield
  rw [e1]
  cases hfind : l.find? (fun sh => sh.sh_type == Abi.SHT_GNU_HASH) with
  | none => simp only [hfind] at hfield ⊢; exact hfield
  | some x => simp only [hfind] at hfield ⊢; exact hfield

/-- the hypothesis `Lists t l` is met by every section header table `minimal_parse` builds -/
theorem lists_exist (t : Table SectionHeader) (hep : t.ep = SectionHeader.ep) (hlen : t.data.len < 2 ^ 63) :
    ∃ l, Lists t l := by
  have hr : Regular t.ep t.cls := by rw [hep]; exact regular_SectionHeader _
  obtain ⟨items, h1, _, _⟩ := collect_eq_gets t hr hlen
  exact ⟨items, lists_of_collect t hr hlen items h1⟩

/-- Without the "at most one section of each kind" premise the two paths genuinely differ (last
    versus first): `lastOfType` and `find?` disagree on two sections of the same type. -/
example : lastOfType 2 [⟨0,2,0,0,0,0,0,0,0,0⟩, ⟨1,2,0,0,0,0,0,0,0,0⟩] ≠
    [⟨0,2,0,0,0,0,0,0,0,0⟩, ⟨1,2,0,0,0,0,0,0,0,0⟩].find? (fun (sh : SectionHeader) => sh.sh_type == 2) := by decide

end Elf.C20
