/-
  Props/C20 — alternative access paths to the same data agree.
-/
import ElfVerif.Props.C09
import ElfVerif.Props.C03
namespace Elf.C20
open Elf.C09 Elf.C03

/-! ### typed views are refused on a type mismatch, and otherwise are the raw section bytes -/

theorem typed_view_refused (f : ElfBytes) (sh : SectionHeader) (want : Nat) (h : sh.sh_type ≠ want) :
    f.typedSection sh want = .err (.UnexpectedSectionType sh.sh_type want) := by
  unfold ElfBytes.typedSection; simp [h]

theorem strtab_view_refused (f : ElfBytes) (sh : SectionHeader) (h : sh.sh_type ≠ Abi.SHT_STRTAB) :
    f.sectionDataAsStrtab sh = .err (.UnexpectedSectionType sh.sh_type Abi.SHT_STRTAB) :=
  typed_view_refused f sh _ h

theorem rels_view_refused (f : ElfBytes) (sh : SectionHeader) (h : sh.sh_type ≠ Abi.SHT_REL) :
    f.sectionDataAsRels sh = .err (.UnexpectedSectionType sh.sh_type Abi.SHT_REL) := by
  unfold ElfBytes.sectionDataAsRels; rw [typed_view_refused f sh _ h]; rfl

theorem relas_view_refused (f : ElfBytes) (sh : SectionHeader) (h : sh.sh_type ≠ Abi.SHT_RELA) :
    f.sectionDataAsRelas sh = .err (.UnexpectedSectionType sh.sh_type Abi.SHT_RELA) := by
  unfold ElfBytes.sectionDataAsRelas; rw [typed_view_refused f sh _ h]; rfl

theorem notes_view_refused (f : ElfBytes) (sh : SectionHeader) (h : sh.sh_type ≠ Abi.SHT_NOTE) :
    f.sectionDataAsNotes sh = .err (.UnexpectedSectionType sh.sh_type Abi.SHT_NOTE) := by
  unfold ElfBytes.sectionDataAsNotes; rw [typed_view_refused f sh _ h]; rfl

theorem dynamic_view_refused (f : ElfBytes) (sh : SectionHeader) (h : sh.sh_type ≠ Abi.SHT_DYNAMIC) :
    f.sectionDataAsDynamic sh = .err (.UnexpectedSectionType sh.sh_type Abi.SHT_DYNAMIC) := by
  unfold ElfBytes.sectionDataAsDynamic; simp [h]

theorem segment_notes_refused (f : ElfBytes) (ph : ProgramHeader) (h : ph.p_type ≠ Abi.PT_NOTE) :
    f.segmentDataAsNotes ph = .err (.UnexpectedSegmentType ph.p_type Abi.PT_NOTE) := by
  unfold ElfBytes.segmentDataAsNotes; simp [h]

/-- A matching typed view iterates exactly the bytes `section_data` returns, from offset 0, with
    the file's class and byte order: its entries are the entries decodable from the raw bytes. -/
theorem rels_view_entries (f : ElfBytes) (sh : SectionHeader) (it : Iter Rel)
    (h : f.sectionDataAsRels sh = .ok it) :
    ∃ ch, f.sectionData sh = .ok (it.data, ch) ∧ it.offset = 0 ∧ it.ep = Rel.ep ∧
      it.cls = f.ehdr.cls ∧ it.little = f.ehdr.little := by
  unfold ElfBytes.sectionDataAsRels ElfBytes.typedSection at h
  split at h
  · simp [Out.bind] at h
  · cases hd : f.sectionData sh with
    | ok r => simp [hd, Out.bind] at h; subst h; exact ⟨r.2, rfl, rfl, rfl, rfl, rfl⟩
    | err e => simp [hd, Out.bind] at h
    | panic => simp [hd, Out.bind] at h

theorem relas_view_entries (f : ElfBytes) (sh : SectionHeader) (it : Iter Rela)
    (h : f.sectionDataAsRelas sh = .ok it) :
    ∃ ch, f.sectionData sh = .ok (it.data, ch) ∧ it.offset = 0 ∧ it.ep = Rela.ep ∧
      it.cls = f.ehdr.cls ∧ it.little = f.ehdr.little := by
  unfold ElfBytes.sectionDataAsRelas ElfBytes.typedSection at h
  split at h
  · simp [Out.bind] at h
  · cases hd : f.sectionData sh with
    | ok r => simp [hd, Out.bind] at h; subst h; exact ⟨r.2, rfl, rfl, rfl, rfl, rfl⟩
    | err e => simp [hd, Out.bind] at h
    | panic => simp [hd, Out.bind] at h

/-! ### lookup by name returns the *first* section whose name equals the query -/

/-- First entry among indices `k, …, k+n-1` satisfying `p` (stopping at an entry that fails to
    parse, as the iterator does). -/
def firstFrom {α} (t : Table α) (p : α → Bool) : Nat → Nat → Option α
  | _, 0 => none
  | k, n + 1 =>
    match t.get k with
    | .ok a => if p a then some a else firstFrom t p (k + 1) n
    | _ => none

theorem find_from {α} (t : Table α) (hr : Regular t.ep t.cls) (hwf : t.data.len < 2 ^ 63)
    (p : α → Bool) (n k fuel : Nat) (hk : k + n = t.len) (hf : n < fuel) :
    Iter.findFuel p fuel ⟨t.ep, t.little, t.cls, t.data, k * t.ep.size t.cls⟩ = .ok (firstFrom t p k n) := by
  induction n generalizing k fuel with
  | zero =>
    cases fuel with
    | zero => omega
    | succ fuel =>
      -- at the end of the table `next` yields None
      obtain ⟨items, it', hc, hm⟩ := collect_from t hr hwf 0 k (fuel + 1) [] (by omega) (by omega)
      unfold Iter.collectFuel at hc
      unfold Iter.findFuel
      generalize (Iter.next ⟨t.ep, t.little, t.cls, t.data, k * t.ep.size t.cls⟩) = r at hc
      obtain ⟨r1, r2⟩ := r
      cases r1 with
      | panic => simp at hc
      | err e => simp at hc
      | ok o =>
        cases o with
        | none => simp [firstFrom]
        | some a =>
          simp [gets] at hm
          subst hm
          -- a yielded item would make the collected list non-empty
          simp only [List.nil_append, List.append_nil] at hc
          have := collect_len_ge fuel r2 [a] [] it' hc
          simp at this
  | succ n ih =>
    cases fuel with
    | zero => omega
    | succ fuel =>
      obtain ⟨a, hget, hnext⟩ := next_at t hr hwf k (by omega)
      unfold Iter.findFuel
      rw [hnext]
      simp only [firstFrom, hget]
      split
      · rfl
      · exact ih (k + 1) fuel (by omega) (by omega)
where
  collect_len_ge {α} (fuel : Nat) (it : Iter α) (acc : List α) :
      ∀ l it', Iter.collectFuel fuel it acc = (.ok l, it') → acc.length ≤ l.length := by
    induction fuel generalizing it acc with
    | zero => intro l it' h; simp [Iter.collectFuel] at h; rw [← h.1]; exact Nat.le_refl _
    | succ n ih =>
      intro l it' h
      unfold Iter.collectFuel at h
      generalize it.next = r at h
      obtain ⟨r1, r2⟩ := r
      cases r1 with
      | panic => simp at h
      | err e => simp at h
      | ok o =>
        cases o with
        | none => simp at h; rw [← h.1]; exact Nat.le_refl _
        | some a =>
          have := ih r2 (acc ++ [a]) l it' h
          simp at this; omega

/-- **section_header_by_name returns the first header (in table order) whose name string —
    NUL-terminated at `sh_name` in the section-name string table, valid UTF-8 — equals the query**;
    headers whose name cannot be read are skipped. -/
theorem by_name_first (f : ElfBytes) (shdrs : Table SectionHeader) (strtab name : Slice)
    (hs : f.sectionHeadersWithStrtab = .ok (some shdrs, some strtab))
    (hep : shdrs.ep = SectionHeader.ep) (hwf : shdrs.data.len < 2 ^ 63) :
    f.sectionHeaderByName name =
      .ok (firstFrom shdrs (ElfBytes.nameMatches strtab name) 0 shdrs.len) := by
  unfold ElfBytes.sectionHeaderByName
  rw [hs]
  simp only [Out.bind]
  have hr : Regular shdrs.ep shdrs.cls := by rw [hep]; exact regular_SectionHeader _
  have hle : shdrs.len ≤ shdrs.data.len := Nat.div_le_self _ _
  have := find_from shdrs hr hwf (ElfBytes.nameMatches strtab name) shdrs.len 0 (shdrs.data.len + 1)
    (by omega) (by omega)
  simp only [Nat.zero_mul] at this
  exact this

/-! ### the dynamic table through `.dynamic` equals the one through `PT_DYNAMIC` when both
    designate the same bytes -/

theorem dynamic_paths_agree (f : ElfBytes) (sh : SectionHeader) (ph : ProgramHeader)
    (hnc : sh.sh_flags &&& Abi.SHF_COMPRESSED = 0)
    (hsame : sh.sh_offset = ph.p_offset ∧ sh.sh_size = ph.p_filesz)
    (t : Table Dyn) (hsec : f.sectionDataAsDynamic sh = .ok t) :
    (f.segmentData ph).bind (fun w => Out.ok (f.dynTable w)) = .ok t := by
  unfold ElfBytes.sectionDataAsDynamic at hsec
  split at hsec
  · simp at hsec
  · rename_i hty
    have hnb : sh.sh_type ≠ Abi.SHT_NOBITS := by
      have : sh.sh_type = Abi.SHT_DYNAMIC := by simpa using hty
      rw [this]; decide
    rw [section_data_plain f sh hnb hnc] at hsec
    rw [segment_data_eq, ← hsame.1, ← hsame.2]
    cases hv : Dyn.ep.validateEntsize f.ehdr.cls sh.sh_entsize with
    | panic => simp [hv, Out.bind] at hsec
    | err e => simp [hv, Out.bind] at hsec
    | ok v =>
      simp only [hv, Out.bind] at hsec
      by_cases h1 : sh.sh_offset + sh.sh_size < USZ
      · simp only [h1, if_true] at hsec ⊢
        by_cases h2 : sh.sh_offset + sh.sh_size ≤ f.data.len
        · simp only [h2, if_true] at hsec ⊢
          simpa [Out.bind] using hsec
        · simp [h2] at hsec
      · simp [h1] at hsec

end Elf.C20
