import ElfVerif.Model.Basic
import ElfVerif.Model.Bytes
import ElfVerif.Model.Endian
