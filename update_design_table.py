#!/usr/bin/env python3
"""Replace the §11.6 table of DESIGN.md by the current seeded/*/meta.json results (seed_table.py)."""
import subprocess, re
s = open("/verif/DESIGN.md").read()
tbl = subprocess.run(["python3", "/verif/seed_table.py"], capture_output=True, text=True).stdout.strip("\n")
lines = s.split("\n")
start = next(i for i, l in enumerate(lines) if l.startswith("| change | property | caught by"))
end = start
while end < len(lines) and lines[end].startswith("|"):
    end += 1
lines[start:end] = tbl.split("\n")
open("/verif/DESIGN.md", "w").write("\n".join(lines))
rows = [l for l in tbl.split("\n")[2:]]
print(len(rows), "rows;", sum("with failing input" in r for r in rows), "with input;", sum("no-failing-input-found" in r for r in rows), "without;", sum("| NO |" in r for r in rows), "missed")
