#!/usr/bin/env python3
"""Writes MANIFEST.json from checks_config.py (kept valid at all times)."""
import json, os, sys
sys.path.insert(0, os.path.dirname(os.path.abspath(__file__)))
from checks_config import PROPS, LEVEL_TEXT, NOT_APPLICABLE

checks = []
for pid in sorted(PROPS):
    lt = LEVEL_TEXT[pid]
    checks.append({
        "property_id": pid,
        "quick_cmd": "./check %s --tier quick" % pid,
        "thorough_cmd": "./check %s --tier thorough" % pid,
        "evidence_file": "/verif/evidence/%s.json" % pid,
        "replay_cmd_template": "./check %s --replay {path}" % pid,
        "engine": "lean4-proof+correspondence",
        "level_claimed": {"category": "proof", "text": lt["text"], "design_ref": lt.get("design_ref", "DESIGN.md §5 " + pid)},
        "level_note": lt["note"],
        "technique": lt["technique"],
    })
m = {
    "version": 1,
    "setup_cmd": "./setup.sh",
    "hooks": {
        "guard": "elf_verif",
        "enable": "none needed: every observation goes through the public API, a custom Read+Seek and a global allocator in /verif/harness",
        "baseline_off_cmd": "cd /repo && cargo test --workspace --no-fail-fast --offline",
        "source_commits": [],
        "add_only": True,
    },
    "engines": [{
        "name": "lean4-proof+correspondence",
        "path": "/verif/check",
        "serves_properties": sorted(PROPS),
        "kind_free_text": "Lean 4 theorems over an executable model (lean/ElfVerif) whose tabular parts are regenerated from "
                          "/repo/src by translator/translate.py on every run and whose control-flow parts are tied to the "
                          "code by a differential correspondence harness (harness/), plus implementation-side oracles "
                          "used only to find failing inputs",
    }],
    "checks": checks,
    "not_applicable": NOT_APPLICABLE,
    "notes": "Genuine defects repaired by fix: commits are listed in known_findings.json (fixed entries suppress nothing).",
}
json.dump(m, open(os.path.join(os.path.dirname(os.path.abspath(__file__)), "MANIFEST.json"), "w"), indent=1)
print("MANIFEST.json: %d checks, %d not_applicable" % (len(checks), len(NOT_APPLICABLE)))
