#!/bin/bash
# usage: seedtest.sh <patch.diff> <Cxx> [<Cyy> ...]   — apply a seeded change to /repo, run checks, undo.
patch="$1"; shift
cd /repo && git apply "$patch" || { echo "patch does not apply"; exit 2; }
for c in "$@"; do
  (cd /verif && VERIF_KEEP_EVIDENCE=1 ./check "$c" 2>&1 | tail -3)
done
cd /repo && git checkout -- . && git status --short | head -3
