//! Case generators for the stand-alone streams.  Every random choice derives from one `Rng`.
//! Each case is (request line, annotation); the annotation carries ground truth for the oracle
//! (`-` when the oracle recomputes everything from the request itself).
use crate::enc::*;
use crate::prng::Rng;
use crate::show::hex;

pub type Case = (String, String);

const TYS: [(&str, usize); 6] = [("u8", 1), ("u16", 2), ("u32", 4), ("u64", 8), ("i32", 4), ("i64", 8)];

fn boundary_bytes(rng: &mut Rng, n: usize) -> Vec<u8> {
    match rng.below(6) {
        0 => vec![0; n],
        1 => vec![0xff; n],
        2 => (0..n).map(|i| (i as u8).wrapping_mul(17).wrapping_add(1)).collect(),
        3 => {
            let mut v = vec![0u8; n];
            if n > 0 {
                let i = rng.below(n as u64) as usize;
                v[i] = *rng.pick(&[0x80u8, 0x7f, 0x01, 0xff]);
            }
            v
        }
        _ => rng.bytes(n),
    }
}

pub fn gen_int(rng: &mut Rng, n: usize, thorough: bool) -> Vec<Case> {
    let mut out = vec![];
    if thorough {
        // exhaustive: u8 over all byte values at every offset of buffers up to 4 bytes
        for len in 1..=4usize {
            for pos in 0..len {
                for v in 0..=255u8 {
                    let mut b = vec![0xa5u8; len];
                    b[pos] = v;
                    for le in [0, 1] {
                        out.push((format!("int {} u8 {} {}", le, pos, hex(&b)), "-".into()));
                    }
                }
            }
        }
        // exhaustive: u16 over all two-byte combinations at offsets 0..2 of 4-byte buffers
        for pos in 0..=2usize {
            for v in 0..=0xffffu32 {
                let mut b = vec![0x5au8; 4];
                b[pos] = (v >> 8) as u8;
                b[pos + 1] = v as u8;
                for le in [0, 1] {
                    out.push((format!("int {} u16 {} {}", le, pos, hex(&b)), "-".into()));
                }
            }
        }
    } else {
        for pos in 0..=2usize {
            for _ in 0..200 {
                let v = rng.below(0x10000) as u32;
                let mut b = vec![0x5au8; 4];
                b[pos] = (v >> 8) as u8;
                b[pos + 1] = v as u8;
                for le in [0, 1] {
                    out.push((format!("int {} u16 {} {}", le, pos, hex(&b)), "-".into()));
                }
            }
        }
    }
    // every type at every offset 0..len+9 and near usize::MAX, boundary + random contents
    for _ in 0..n {
        let len = rng.below(25) as usize;
        let b = boundary_bytes(rng, len);
        let (ty, _) = *rng.pick(&TYS);
        let le = rng.below(2);
        let off = match rng.below(10) {
            0 => u64::MAX - rng.below(9),
            1 => (1u64 << 63) + rng.below(16),
            2 => (1u64 << 32) - 4 + rng.below(8),
            _ => rng.below(len as u64 + 10),
        };
        out.push((format!("int {} {} {} {}", le, ty, off, hex(&b)), "-".into()));
    }
    // systematic sweep: each type, each offset 0..len+9 for one buffer per length
    for len in [0usize, 1, 2, 3, 4, 7, 8, 9, 16] {
        let b = rng.bytes(len);
        for (ty, _) in TYS {
            for off in 0..=(len + 9) {
                for le in [0, 1] {
                    out.push((format!("int {} {} {} {}", le, ty, off, hex(&b)), "-".into()));
                }
            }
            for k in 0..=8u64 {
                out.push((format!("int 1 {} {} {}", ty, u64::MAX - k, hex(&b)), "-".into()));
            }
        }
    }
    out
}

fn field_value(rng: &mut Rng, width: usize) -> u64 {
    let mask = if width == 8 { u64::MAX } else { (1u64 << (8 * width)) - 1 };
    let v = match rng.below(8) {
        0 => 0,
        1 => 1,
        2 => mask,
        3 => mask >> 1,        // 0x7f..
        4 => (mask >> 1) + 1,  // 0x80..
        5 => 0x0102030405060708u64,
        _ => rng.next(),
    };
    v & mask
}

pub fn gen_parse(rng: &mut Rng, n: usize, _thorough: bool) -> Vec<Case> {
    let mut out = vec![];
    let per = (n / (ALL_TYPES.len() * 4)).max(4);
    for ty in ALL_TYPES {
        for is64 in [false, true] {
            for le in [false, true] {
                let lay = layout(ty, is64);
                let size = abi_size(ty, is64);
                for k in 0..per {
                    let mut vals: Vec<u64> = lay.iter().map(|f| field_value(rng, f.1)).collect();
                    // per-byte distinct pattern every few cases
                    if k % 5 == 4 {
                        let mut c = 1u64;
                        for (i, f) in lay.iter().enumerate() {
                            let mut v = 0u64;
                            for _ in 0..f.1 {
                                v = (v << 8) | (c & 0xff);
                                c += 1;
                            }
                            vals[i] = v;
                        }
                    }
                    let guarded = ty == "VerDef" || ty == "VerNeed";
                    let bad_version = guarded && k % 4 == 3;
                    if guarded {
                        vals[0] = if bad_version { *rng.pick(&[0u64, 2, 0x100, 0xffff]) } else { 1 };
                    }
                    let npre = rng.below(6) as usize;
                    let pre = rng.bytes(npre);
                    let npost = rng.below(6) as usize;
                    let post = rng.bytes(npost);
                    let mut buf = pre.clone();
                    buf.extend(encode(ty, is64, le, &vals));
                    buf.extend(&post);
                    let off = pre.len();
                    let expect = if bad_version {
                        format!("err UnsupportedVersion({},1) {}", vals[0], off + 2)
                    } else {
                        format!("ok {} {}", expected_show(ty, is64, &vals).unwrap(), off + size)
                    };
                    out.push((
                        format!("parse {} {} {} {} {}", ty, le as u8, if is64 { 64 } else { 32 }, off, hex(&buf)),
                        format!("expect={}", expect),
                    ));
                }
                // zero / all-ones patterns: each field zero among non-zero neighbours, and each ordered pair
                // (field i zero, field j all ones) — a value must not depend on what another field holds
                if !(ty == "VerDef" || ty == "VerNeed") || true {
                    let guarded = ty == "VerDef" || ty == "VerNeed";
                    let nf = lay.len();
                    let mut pats: Vec<Vec<u64>> = vec![];
                    for i in 0..nf {
                        let mut v: Vec<u64> = lay.iter().map(|f| field_value(rng, f.1) | 1).collect();
                        v[i] = 0;
                        pats.push(v);
                        for j in 0..nf {
                            if i == j || (nf > 8 && (i + j) % 3 != 0) { continue; }
                            let mut v: Vec<u64> = lay.iter().map(|f| field_value(rng, f.1) | 1).collect();
                            v[i] = 0;
                            v[j] = if lay[j].1 == 8 { u64::MAX } else { (1u64 << (8 * lay[j].1)) - 1 };
                            pats.push(v);
                        }
                    }
                    pats.push(vec![0; nf]);
                    for mut vals in pats {
                        if guarded { vals[0] = 1; }
                        let buf = encode(ty, is64, le, &vals);
                        out.push((
                            format!("parse {} {} {} 0 {}", ty, le as u8, if is64 { 64 } else { 32 }, hex(&buf)),
                            format!("expect=ok {} {}", expected_show(ty, is64, &vals).unwrap(), size),
                        ));
                    }
                }
                // truncations: every length 0..size-1 must fail (status only)
                let vals: Vec<u64> = lay.iter().map(|f| field_value(rng, f.1)).collect();
                let mut full = encode(ty, is64, le, &vals);
                if ty == "VerDef" || ty == "VerNeed" {
                    put_at(&mut full, 0, le, 2, 1);
                }
                for cut in 0..size {
                    out.push((
                        format!("parse {} {} {} 0 {}", ty, le as u8, if is64 { 64 } else { 32 }, hex(&full[..cut])),
                        "expect=err".into(),
                    ));
                }
                // offsets near usize::MAX
                out.push((
                    format!("parse {} {} {} {} {}", ty, le as u8, if is64 { 64 } else { 32 }, u64::MAX - rng.below(8), hex(&full)),
                    "expect=err".into(),
                ));
            }
        }
    }
    out
}

pub fn gen_table(rng: &mut Rng, n: usize, thorough: bool) -> Vec<Case> {
    let mut out = vec![];
    let kmax = if thorough { 4 } else { 2 };
    for ty in ALL_TYPES {
        for is64 in [false, true] {
            let size = abi_size(ty, is64);
            let lens: Vec<usize> = if thorough {
                (0..=(kmax * size + size - 1)).collect()
            } else {
                let mut v: Vec<usize> = vec![0, 1, size - 1, size, size + 1, 2 * size - 1, 2 * size, 2 * size + size - 1];
                for _ in 0..(n / 200).max(2) {
                    v.push(rng.below((kmax * size + size) as u64) as usize);
                }
                v
            };
            for len in lens {
                let le = rng.below(2);
                let mut data = rng.bytes(len);
                if ty == "VerDef" || ty == "VerNeed" {
                    // mostly valid version words so entries parse; sometimes not
                    for e in 0..(len / size) {
                        if rng.chance(5, 6) {
                            put_at(&mut data, e * size, le == 1, 2, 1);
                        }
                    }
                }
                let cnt = len / size;
                let mut ops: Vec<String> = vec!["len".into(), "empty".into()];
                let mut idxs: Vec<u64> = (0..(cnt as u64 + 3)).collect();
                idxs.push(u64::MAX);
                idxs.push(u64::MAX / size as u64);
                idxs.push(u64::MAX / size as u64 + 1);
                idxs.push((1u64 << 63) / size as u64 + rng.below(3));
                idxs.push(1u64 << 62);
                // random order, with repetition
                for _ in 0..idxs.len() {
                    let i = rng.below(idxs.len() as u64) as usize;
                    let j = rng.below(idxs.len() as u64) as usize;
                    idxs.swap(i, j);
                }
                let extra = idxs[rng.below(idxs.len() as u64) as usize];
                idxs.push(extra);
                let at = rng.below(idxs.len() as u64 + 1) as usize;
                for (k, i) in idxs.iter().enumerate() {
                    if k == at {
                        ops.push("iter".into());
                    }
                    ops.push(format!("g{}", i));
                }
                if at >= idxs.len() {
                    ops.push("iter".into());
                }
                ops.push("len".into());
                out.push((
                    format!("table {} {} {} {} {}", ty, le, if is64 { 64 } else { 32 }, ops.join(","), hex(&data)),
                    "-".into(),
                ));
            }
        }
    }
    out
}

pub fn gen_strtab(rng: &mut Rng, n: usize, thorough: bool) -> Vec<Case> {
    let mut out = vec![];
    const ALPHA: [u8; 4] = [0x00, b'a', 0xC3, 0xA9];
    let max_len = if thorough { 7 } else { 4 };
    // exhaustive over the 4-symbol alphabet
    for len in 0..=max_len {
        let total = 4usize.pow(len as u32);
        for code in 0..total {
            let mut c = code;
            let t: Vec<u8> = (0..len).map(|_| { let x = ALPHA[c % 4]; c /= 4; x }).collect();
            for off in 0..=(len + 2) {
                out.push((format!("strtab {} {}", off, hex(&t)), "-".into()));
            }
        }
    }
    // strings made of bytes a word-at-a-time NUL search can mistake for a terminator (0x01, 0x80, 0x81, 0xff),
    // ending right before their NUL, at every alignment within an 8-byte word
    for pre in 0..9usize {
        for body in [&[0x01u8][..], &[b'a', 0x01], &[0x01, 0x01, 0x01], &[0x80], &[b's', b'y', b'm', b'.', 0x01], &[0x81, 0x01], &[0x7f, 0x01]] {
            let mut t = vec![0u8];
            t.extend(std::iter::repeat(b'p').take(pre));
            let start = t.len() - pre;
            t.extend(body);
            t.push(0);
            t.extend(b"pad_pad_pad_pad\0");
            for off in [start, start + pre, 1] {
                out.push((format!("strtab {} {}", off.min(t.len()), hex(&t)), "-".into()));
            }
        }
    }
    // magnitudes: a NUL-free run whose length sits on either side of a power of two (a scan window, a length narrowed to
    // 8/16 bits, a chunked search) — the run starts at offset 1 and at a late offset, terminated and unterminated
    let mut runs: Vec<usize> = vec![255, 256, 257, 4095, 4096, 4097, 65534, 65535, 65536, 65537];
    if thorough { runs.extend([131071, 131072, 131073, 1 << 20]); }
    for run in runs {
        for terminated in [true, false] {
            let mut t = vec![0u8];
            t.extend((0..run).map(|i| b'a' + (i % 23) as u8));
            if terminated { t.push(0); t.extend(b"tail\0"); }
            for off in [1usize, 2, run / 2, run.saturating_sub(1), run, run + 1] {
                out.push((format!("strtab {} {}", off.min(t.len() + 1), hex(&t)), "magnitude".into()));
            }
        }
    }
    // offsets beyond 32 bits whose low half lies inside the table
    {
        let t = b"\0first\0second\0third\0".to_vec();
        for off in [1u64 << 32, (1 << 32) + 1, (1 << 32) + 7, (1 << 33) + 8, (1 << 48) + 1, (1u64 << 63) + 1, (1 << 16) + 1, (1 << 8) + 1] {
            out.push((format!("strtab {} {}", off, hex(&t)), "magnitude".into()));
        }
    }
    for _ in 0..n {
        let len = match rng.below(4) { 0 => rng.below(4096), _ => rng.below(40) } as usize;
        let mut t: Vec<u8> = (0..len)
            .map(|_| match rng.below(8) {
                0 | 1 => 0u8,
                3 if len > 0 => *rng.pick(&[0x01u8, 0x01, 0x02, 0x7f, 0x80, 0x81, 0xfe]),
                2 => *rng.pick(&[0xC3u8, 0xA9, 0xE2, 0x82, 0xAC, 0xF0, 0x9F, 0x98, 0x80, 0xED, 0xA0, 0xFF, 0xC0]),
                _ => rng.range(0x20, 0x7e) as u8,
            })
            .collect();
        if rng.chance(1, 5) && !t.is_empty() {
            let l = t.len();
            t[l - 1] = b'x'; // unterminated tail
        }
        let off = match rng.below(8) {
            0 => u64::MAX,
            1 => len as u64 + rng.below(3),
            _ => rng.below(len as u64 + 1),
        };
        out.push((format!("strtab {} {}", off, hex(&t)), "-".into()));
    }
    out
}

pub fn gen_utf8(rng: &mut Rng, n: usize, thorough: bool) -> Vec<Case> {
    let mut out = vec![];
    for a in 0..=255u32 {
        out.push((format!("utf8 {}", hex(&[a as u8])), "-".into()));
    }
    let step = if thorough { 1 } else { 7 };
    let mut k = 0u32;
    for a in 0x80..=255u32 {
        for b in 0..=255u32 {
            k += 1;
            if k % step == 0 {
                out.push((format!("utf8 {}", hex(&[a as u8, b as u8])), "-".into()));
            }
        }
    }
    // 3- and 4-byte sequences around every boundary of Table 3-7
    let leads3 = [0xE0u8, 0xE1, 0xEC, 0xED, 0xEE, 0xEF];
    let seconds = [0x7Fu8, 0x80, 0x8F, 0x90, 0x9F, 0xA0, 0xBF, 0xC0];
    let thirds = [0x7Fu8, 0x80, 0xBF, 0xC0];
    for l in leads3 {
        for s in seconds {
            for t in thirds {
                out.push((format!("utf8 {}", hex(&[l, s, t])), "-".into()));
                out.push((format!("utf8 {}", hex(&[b'a', l, s, t, b'b'])), "-".into()));
            }
        }
    }
    for l in [0xF0u8, 0xF1, 0xF3, 0xF4, 0xF5, 0xF8, 0xFF] {
        for s in seconds {
            for t in thirds {
                for f in thirds {
                    out.push((format!("utf8 {}", hex(&[l, s, t, f])), "-".into()));
                }
            }
        }
    }
    for _ in 0..n {
        let len = rng.below(12) as usize;
        let b: Vec<u8> = (0..len)
            .map(|_| match rng.below(3) { 0 => rng.range(0x80, 0xff) as u8, _ => rng.next() as u8 })
            .collect();
        out.push((format!("utf8 {}", hex(&b)), "-".into()));
    }
    out
}

pub const SPECS: [&str; 4] = ["little", "big", "any", "native"];

pub fn good_ident(is64: bool, le: bool) -> Vec<u8> {
    vec![0x7f, b'E', b'L', b'F', if is64 { 2 } else { 1 }, if le { 1 } else { 2 }, 1, 0, 0, 0, 0, 0, 0, 0, 0, 0]
}

pub fn gen_ident(rng: &mut Rng, n: usize, _thorough: bool) -> Vec<Case> {
    let mut out = vec![];
    for sp in SPECS {
        for v in 0..=255u32 {
            out.push((format!("eidata {} {}", sp, v), "-".into()));
        }
        // all 256 values of each of EI_CLASS, EI_DATA, EI_VERSION with everything else valid
        for pos in [4usize, 5, 6] {
            for v in 0..=255u32 {
                let mut id = good_ident(rng.below(2) == 0, rng.below(2) == 0);
                id[pos] = v as u8;
                id[7] = rng.next() as u8;
                id[8] = rng.next() as u8;
                out.push((format!("ident {} {}", sp, hex(&id)), "-".into()));
            }
        }
        // magic corruptions: every single byte, and multi-byte
        for pos in 0..4usize {
            for v in [0u8, 1, 0x7e, 0x80, 0xff, b'E', b'L', b'F', 0x7f] {
                let mut id = good_ident(true, true);
                id[pos] = v;
                out.push((format!("ident {} {}", sp, hex(&id)), "-".into()));
            }
        }
        for _ in 0..n / 8 {
            let mut id = good_ident(rng.below(2) == 0, rng.below(2) == 0);
            for _ in 0..rng.range(1, 3) {
                let p = rng.below(9) as usize;
                id[p] = rng.next() as u8;
            }
            out.push((format!("ident {} {}", sp, hex(&id)), "-".into()));
        }
        // short and long buffers
        for len in 0..=20usize {
            let mut id = good_ident(true, true);
            id.extend([9u8; 4]);
            id.truncate(len);
            out.push((format!("ident {} {}", sp, hex(&id)), "-".into()));
        }
    }
    out
}

/// derived one-byte/two-byte accessors, exhaustively over their whole domain
pub fn gen_acc(rng: &mut Rng, _n: usize, thorough: bool) -> Vec<Case> {
    let mut out = vec![];
    let step = if thorough { 1 } else { 13 };
    let mut v = 0u32;
    while v <= 0xffff {
        out.push((format!("acc versym {}", v), "-".into()));
        v += step;
    }
    for v in [0u32, 1, 2, 0x7fff, 0x8000, 0x8001, 0x8002, 0xffff, 0xfffe] {
        out.push((format!("acc versym {}", v), "-".into()));
    }
    for info in 0..=255u32 {
        out.push((format!("acc sym {} {} {}", info, rng.below(256), rng.below(3)), "-".into()));
    }
    for other in 0..=255u32 {
        out.push((format!("acc sym {} {} {}", rng.below(256), other, rng.below(0x10000)), "-".into()));
    }
    for shndx in [0u32, 1, 0xff00, 0xfff1, 0xffff] {
        out.push((format!("acc sym 0 0 {}", shndx), "-".into()));
    }
    // the derived accessors are functions of the fields the ABI macros name and of nothing else: every other field
    // of the record varies too (an undefined symbol may well carry a value — a PLT address — a size or a name)
    for shndx in [0u64, 0, 1, 0xfff1, 0xffff, rng.below(0x10000)] {
        for value in [0u64, 1, 0x401020, u64::MAX, rng.next()] {
            for size in [0u64, 8, rng.next()] {
                let name = if rng.chance(1, 2) { 0 } else { rng.below(1 << 32) };
                out.push((format!("acc symf {} {} {} {} {} {}", name, shndx, rng.below(256), rng.below(256), value, size), "-".into()));
            }
        }
    }
    for _ in 0..(if thorough { 4000 } else { 400 }) {
        let f = |rng: &mut Rng, w: usize| field_value(rng, w);
        let (name, shndx, info, other, value, size) = (f(rng, 4), if rng.chance(1, 3) { 0 } else { f(rng, 2) }, f(rng, 1), f(rng, 1), f(rng, 8), f(rng, 8));
        out.push((format!("acc symf {} {} {} {} {} {}", name, shndx, info, other, value, size), "-".into()));
    }
    out
}

/// the file header through the stand-alone parsers (`parse_ident` + `FileHeader::parse_tail`): every field of the
/// header tail zero among non-zero neighbours, ordered pairs (field i zero, field j all ones), the all-zero and
/// random tails, both classes, both byte orders, every spec; truncated tails
pub fn gen_ehdr(rng: &mut Rng, n: usize, _thorough: bool) -> Vec<Case> {
    let mut out = vec![];
    for is64 in [false, true] {
        for le in [false, true] {
            let lay = layout("FileHeaderTail", is64);
            let nf = lay.len();
            let ident = |rng: &mut Rng| -> Vec<u8> {
                vec![0x7f, b'E', b'L', b'F', if is64 { 2 } else { 1 }, if le { 1 } else { 2 }, 1, rng.below(20) as u8, rng.below(3) as u8, 0, 0, 0, 0, 0, 0, 0]
            };
            let mut pats: Vec<Vec<u64>> = vec![vec![0; nf]];
            for i in 0..nf {
                let mut v: Vec<u64> = lay.iter().map(|f| field_value(rng, f.1) | 1).collect();
                v[i] = 0;
                pats.push(v);
                for j in 0..nf {
                    if i == j { continue; }
                    let mut v: Vec<u64> = lay.iter().map(|f| field_value(rng, f.1) | 1).collect();
                    v[i] = 0;
                    v[j] = if lay[j].1 == 8 { u64::MAX } else { (1u64 << (8 * lay[j].1)) - 1 };
                    pats.push(v);
                }
            }
            for _ in 0..n.max(8) { pats.push(lay.iter().map(|f| field_value(rng, f.1)).collect()); }
            for vals in pats {
                let mut buf = ident(rng);
                buf.extend(encode("FileHeaderTail", is64, le, &vals));
                let extra = rng.below(4) as usize;
                buf.extend(rng.bytes(extra));
                // expected: the ABI's reading of the bytes (ident bytes 7 and 8, then the fields in ABI order)
                let g = |name: &str| -> u64 { lay.iter().position(|f| f.0 == name).map(|i| vals[i]).unwrap_or(0) };
                let expect = format!("ok ehdr({},{},{},{},{},{},{},{},{},{},{},{},{},{},{},{},{})",
                    if is64 { 64 } else { 32 }, le as u8, g("version"), buf[7], buf[8], g("e_type"), g("e_machine"), g("e_entry"),
                    g("e_phoff"), g("e_shoff"), g("e_flags"), g("e_ehsize"), g("e_phentsize"), g("e_phnum"), g("e_shentsize"),
                    g("e_shnum"), g("e_shstrndx"));
                for spec in ["any", if le { "little" } else { "big" }] {
                    out.push((format!("ehdr {} {}", spec, hex(&buf)), format!("expect={}", expect)));
                }
            }
            // truncated tails
            let vals: Vec<u64> = lay.iter().map(|f| field_value(rng, f.1)).collect();
            let mut full = ident(rng);
            full.extend(encode("FileHeaderTail", is64, le, &vals));
            for cut in 0..full.len() {
                out.push((format!("ehdr any {}", hex(&full[..cut])), "truncated".into()));
            }
        }
    }
    out
}
