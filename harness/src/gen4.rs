//! Operation histories for the stream parser, with reader schedules.
use crate::gen::Case;
use crate::gen3::*;
use crate::prng::Rng;
use crate::show::hex;

fn history(rng: &mut Rng, queries: &[String], len: usize) -> Vec<String> {
    let pool: Vec<&String> = queries.iter().filter(|q| !q.starts_with('C') && !q.starts_with('H')).collect();
    let mut out = vec![];
    if pool.is_empty() {
        return out;
    }
    for _ in 0..len {
        let q = pool[rng.below(pool.len() as u64) as usize].clone();
        out.push(q.clone());
        if rng.chance(1, 4) {
            out.push(q); // immediate repetition: served from the cache
        }
    }
    // the whole-file queries (strtab, symbol tables, dynamic, versions) are few and cheap: each is in every
    // other history, at a random position
    for q in pool.iter().filter(|q| matches!(q.chars().next(), Some('T' | 'Y' | 'D' | 'd' | 'V'))) {
        if !out.contains(*q) && rng.chance(1, 2) {
            let at = rng.below(out.len() as u64 + 1) as usize;
            out.insert(at, (*q).clone());
        }
    }
    out
}

fn legal_sched(rng: &mut Rng, n: usize) -> String {
    if n == 0 {
        return "-".into();
    }
    (0..n)
        .map(|_| match rng.below(6) {
            0 => "i".to_string(),
            1 | 2 => format!("s{}", rng.range(1, 7)),
            _ => "o".to_string(),
        })
        .collect::<Vec<_>>()
        .join(",")
}

pub fn gen_stream(rng: &mut Rng, n: usize, thorough: bool) -> Vec<Case> {
    let mut out = vec![];
    for k in 0..n {
        let fc = rand_object(rng, k % 3 != 2);
        let hl = if thorough { rng.range(4, 30) } else { rng.range(3, 12) } as usize;
        let ops = history(rng, &fc.queries, hl);
        let opss = if ops.is_empty() { "-".to_string() } else { ops.join(",") };
        let spec = *rng.pick(&["any", "any", "any", "little", "big"]);
        let h = hex(&fc.built.bytes);
        out.push((format!("stream {} - {} {}", spec, opss, h), "clean=1".into()));
        // same history under a legal reader (short reads, Interrupted)
        let sl = rng.range(5, 60) as usize;
        let sched = legal_sched(rng, sl);
        out.push((format!("stream any {} {} {}", sched, opss, h), "clean=1|legal".into()));
        // the same under a reader handed over with its cursor somewhere else (inside the ident, inside the file, at
        // and past the end): open_stream positions every read itself
        let p0 = *rng.pick(&[1u64, 4, 5, 16, 17, fc.built.bytes.len() as u64 / 2, fc.built.bytes.len() as u64, fc.built.bytes.len() as u64 + 7]);
        out.push((format!("stream {} p{},{} {} {}", spec, p0, sched, opss, h), "clean=1|legal|handed-over".into()));
        // corrupted variants
        let (b, what) = corrupt_pub(rng, &fc);
        out.push((format!("stream any - {} {}", opss, hex(&b)), format!("clean=0|corrupt={}", what)));
    }
    // every kind of typed section once with SHF_COMPRESSED set in its flags, read through each view of the stream parser
    // (what the stream parser hands out for such a section is outside C07's query-level clause, but it is what the model
    // says it is: a drift shows as a disagreement)
    for _ in 0..2 {
        let fc = crate::gen3::rand_object_kind(rng, true, true);
        let entsz = if fc.obj.is64 { 64usize } else { 40 };
        let (flags_off, flags_w) = if fc.obj.is64 { (8usize, 8usize) } else { (8, 4) };
        let shoff = fc.built.shoff as usize;
        for k in 1..(fc.built.shnum as usize).min(40) {
            let at = shoff + k * entsz;
            if at + entsz > fc.built.bytes.len() { break; }
            let ty = crate::enc::get(&fc.built.bytes[at + 4..at + 8], fc.obj.le, 4) as u32;
            if ![crate::elfbuild::SHT_NOTE, crate::elfbuild::SHT_STRTAB, crate::elfbuild::SHT_REL, crate::elfbuild::SHT_RELA, crate::elfbuild::SHT_PROGBITS].contains(&ty) { continue; }
            let mut b = fc.built.bytes.clone();
            let cur = crate::enc::get(&b[at + flags_off..at + flags_off + flags_w], fc.obj.le, flags_w);
            crate::enc::put_at(&mut b, at + flags_off, fc.obj.le, flags_w, cur | 0x800);
            out.push((format!("stream any - S{},S{} {}", k, k, hex(&b)), format!("clean=0|compressed-flag={}", ty)));
        }
    }
    // header-only files of both classes, with 0..12 trailing bytes (the smallest files either parser can open)
    for is64 in [false, true] {
        for le in [false, true] {
            for extra in 0..13usize {
                let mut o = crate::elfbuild::Obj::new(is64, le);
                o.trailing = rng.bytes(extra);
                let built = o.build(&[]);
                out.push((format!("stream any - T,Y,D,d,V0,S0,P0 {}", hex(&built.bytes)), "clean=1|header-only".into()));
                if extra % 4 == 0 {
                    let sl = rng.range(3, 12) as usize;
                    let sched = legal_sched(rng, sl);
                    out.push((format!("stream any {} T,d,S0 {}", sched, hex(&built.bytes)), "clean=1|legal|header-only".into()));
                }
            }
        }
    }
    // headers claiming huge sizes in small files (C08)
    for _ in 0..(n / 3 + 3) {
        let fc = rand_object(rng, true);
        let mut b = fc.built.bytes.clone();
        let le = fc.obj.le;
        for f in fc.built.fields.iter().filter(|f| f.name.ends_with("sh_size") || f.name.ends_with("p_filesz") || f.name == "e_shnum" || f.name == "e_phnum" || f.name.ends_with("sh_info") || f.name.ends_with("sh_offset")) {
            if rng.chance(1, 3) {
                let mask = if f.width == 8 { u64::MAX } else { (1u64 << (8 * f.width)) - 1 };
                let v = *rng.pick(&[u64::MAX, 1 << 63, 1 << 40, 1 << 32, 0xffff_ffff, 1 << 31, 1 << 24, 1 << 20]) & mask;
                crate::enc::put_at(&mut b, f.off, le, f.width, v);
            }
        }
        let ops = history(rng, &fc.queries, 8);
        out.push((format!("stream any - {} {}", if ops.is_empty() { "-".into() } else { ops.join(",") }, hex(&b)), "clean=0|corrupt=huge".into()));
    }
    out
}

/// truncated / extended streams (C18, stream side)
pub fn gen_sprefix(rng: &mut Rng, n: usize, thorough: bool) -> Vec<Case> {
    let mut out = vec![];
    for k in 0..n {
        let mut fc = rand_object(rng, true);
        if k % 4 != 3 {
            fc.obj.tables_first = true;
            fc.obj.trailing = vec![];
            let name_off = fc.built.name_off.clone();
            fc.built = fc.obj.build(&name_off);
        }
        let len = fc.built.bytes.len();
        let ops = history(rng, &fc.queries, 8);
        let opss = if ops.is_empty() { "-".to_string() } else { ops.join(",") };
        let h = hex(&fc.built.bytes);
        let ks: Vec<usize> = if thorough && k % 4 == 0 { (0..=len).collect() } else {
            let mut v: Vec<usize> = (0..16).map(|_| rng.below(len as u64 + 1) as usize).collect();
            v.extend([0, 16, 52, 64, len.saturating_sub(1), len]);
            for f in fc.built.fields.iter().take(40) { if rng.chance(1, 8) { v.push(f.off + f.width); } }
            for r in fc.built.sec_range.iter() { v.push((r.0 + r.1) as usize); v.push((r.0 + r.1).saturating_sub(1) as usize); }
            v.into_iter().filter(|x| *x <= len).collect()
        };
        for kk in ks {
            out.push((format!("sprefix any {} {} {}", opss, kk, h), "-".into()));
        }
        let mut ext = fc.built.bytes.clone();
        let extra = rng.range(1, 30) as usize;
        ext.extend(rng.bytes(extra));
        out.push((format!("sprefix any {} {} {}", opss, len, hex(&ext)), "suffix".into()));
    }
    out
}

/// header boundary combinations that steer the two table locators (C05/C08 stream side)
pub fn gen_streamhdr(rng: &mut Rng, n: usize, _thorough: bool) -> Vec<Case> {
    let mut out = vec![];
    for _ in 0..n.max(1) {
        for no_sh in [false, true] {
            let mut fc = rand_object(rng, true);
            fc.obj.no_shdrs = no_sh;
            fc.obj.ext_phnum = false;
            fc.obj.ext_shnum = false;
            let name_off = fc.built.name_off.clone();
            fc.built = fc.obj.build(&name_off);
            let le = fc.obj.le;
            let field = |n: &str| fc.built.fields.iter().find(|f| f.name == n).cloned();
            let names = ["e_phnum", "e_shnum", "e_shoff", "e_phoff", "e_shstrndx", "e_shentsize", "e_phentsize", "s0.sh_size", "s0.sh_info", "s0.sh_link"];
            for a in names {
                for va in [0u64, 1, 0xffff, 0xff00] {
                    for b in ["e_phnum", "e_shnum", "s0.sh_size", "s0.sh_info"] {
                        for vb in [0u64, 0xffff, 2] {
                            let (fa, fb) = match (field(a), field(b)) { (Some(x), Some(y)) => (x, y), _ => continue };
                            let mut bytes = fc.built.bytes.clone();
                            crate::enc::put_at(&mut bytes, fa.off, le, fa.width, va);
                            crate::enc::put_at(&mut bytes, fb.off, le, fb.width, vb);
                            out.push((format!("stream any - T,S0,P0,d {}", hex(&bytes)), format!("clean=0|corrupt={}={}+{}={}", a, va, b, vb)));
                        }
                    }
                }
            }
        }
    }
    out
}

/// every single I/O call index faulted (error / premature EOF), transient and permanent; plus
/// random multi-fault schedules
pub fn gen_streamfault(rng: &mut Rng, n: usize, thorough: bool) -> Vec<Case> {
    let mut out = vec![];
    for _ in 0..n {
        let fc = rand_object(rng, true);
        let ops = history(rng, &fc.queries, if thorough { 10 } else { 6 });
        let mut histories = vec![if ops.is_empty() { "-".to_string() } else { ops.join(",") }];
        // directed: read A, then (faulted) C elsewhere, then B which starts exactly where A ended — a reader that
        // trusts a remembered position instead of seeking is exposed by a transient fault on C
        let rg = &fc.built.sec_range;
        'outer: for a in 1..rg.len() {
            if rg[a].1 == 0 { continue; }
            for b in 1..rg.len() {
                if b == a || rg[b].1 == 0 || rg[b].0 != rg[a].0 + rg[a].1 { continue; }
                for c in 1..rg.len() {
                    if c == a || c == b || rg[c].1 == 0 || rg[c].0 == rg[a].0 + rg[a].1 { continue; }
                    histories.push(format!("S{},S{},S{}", a, c, b));
                    histories.push(format!("S{},S{},S{},S{}", a, c, c, b));
                    break 'outer;
                }
            }
        }
        let h = hex(&fc.built.bytes);
        for opss in histories {
            // number of I/O calls of the fault-free run, measured on the implementation
            let clean = crate::stream::run_stream("any", "-", &opss, &fc.built.bytes);
            let ncalls = clean.io_calls;
            let cap = if thorough { ncalls } else { ncalls.min(40) };
            for k in 0..cap {
                // every error kind is a failure of the call (only `Interrupted` is retried by read_exact): the first
                // I/O calls get every kind, later ones rotate through them
                let rot = format!("f{}", 1 + k % 7);
                let mut kinds: Vec<String> = vec!["f".into(), "e".into(), rot];
                if k < 3 { kinds = vec!["f".into(), "e".into(), "f1".into(), "f2".into(), "f3".into(), "f4".into(), "f5".into(), "f6".into(), "f7".into()]; }
                for kind in &kinds {
                    let mut s: Vec<String> = vec!["o".to_string(); k];
                    s.push(kind.clone());
                    out.push((format!("stream any {} {} {}", s.join(","), opss, h), "faults|transient".into()));
                }
                // a short read that delivers part of the range, then the failure (any kind) or a premature end
                if k >= 1 {
                    for (short, kind) in [("s1", format!("f{}", 1 + (k + 3) % 7)), ("s3", "e".to_string()), ("s2", "f".to_string())] {
                        let mut s: Vec<String> = vec!["o".to_string(); k];
                        s.push(short.to_string());
                        s.push(kind);
                        out.push((format!("stream any {} {} {}", s.join(","), opss, h), "faults|short-then-fail".into()));
                    }
                }
                if k % 3 == 0 {
                    let mut s: Vec<&str> = vec!["o"; k];
                    for _ in 0..60 { s.push("f"); }
                    out.push((format!("stream any {} {} {}", s.join(","), opss, h), "faults|permanent".into()));
                }
                // the stream ends early from this call on (a file truncated after it was opened, a source that reports
                // more than it delivers): every later read returns Ok(0)
                if k % 3 == 1 {
                    let mut s: Vec<&str> = vec!["o"; k];
                    for _ in 0..400 { s.push("e"); }
                    out.push((format!("stream any {} {} {}", s.join(","), opss, h), "faults|ends-early".into()));
                }
            }
            for _ in 0..4 {
                let s: Vec<String> = (0..ncalls + 5)
                    .map(|_| match rng.below(10) { 0 => if rng.chance(1, 2) { "f".into() } else { format!("f{}", rng.range(1, 7)) }, 1 => "e".into(), 2 => "i".into(), 3 => format!("s{}", rng.range(1, 5)), _ => "o".into() })
                    .collect();
                out.push((format!("stream any {} {} {}", s.join(","), opss, h), "faults|multi".into()));
            }
        }
    }
    out
}

/// faults during the open of a file that uses the PN_XNUM escape with more than 0xffff segments (the count lives in
/// shdr[0], read by its own I/O calls): a fault at every single I/O call of `open_stream`
pub fn gen_bigfault(rng: &mut Rng, _n: usize, _thorough: bool) -> Vec<Case> {
    use crate::elfbuild::*;
    let mut out = vec![];
    let le = rng.below(2) == 0;
    let mut o = Obj::new(false, le);
    o.tables_first = false;
    for _ in 1..3 { o.add_sec(Sec::new(b".p", SHT_PROGBITS, vec![1, 2, 3, 4])); }
    let nseg = 0x10003usize;
    for i in 0..nseg {
        o.segs.push(Seg { p_type: if i == nseg - 1 { PT_NOTE } else { PT_LOAD }, flags: i as u32, sec: None, offset: 0, filesz: 0, memsz: 0, vaddr: 0, paddr: 0, align: 4 });
    }
    let name_off = o.finish_names();
    let built = o.build(&name_off);
    let h = hex(&built.bytes);
    let clean = crate::stream::run_stream("any", "-", "-", &built.bytes);
    out.push((format!("stream any - P0,P65538 {}", h), "clean=1|big".into()));
    for k in 0..clean.io_calls {
        for kind in ["f", "e", ["f1", "f2", "f3", "f4", "f5", "f6", "f7"][k % 7]] {
            let mut s: Vec<&str> = vec!["o"; k];
            s.push(kind);
            out.push((format!("stream any {} P0,P65538 {}", s.join(","), h), "faults|transient|big".into()));
        }
    }
    out
}

/// stream open on the extended-numbering files (stream side of C05)
pub fn gen_bigstream(rng: &mut Rng, n: usize, thorough: bool) -> Vec<Case> {
    crate::gen3::gen_bigfile(rng, n, thorough)
        .into_iter()
        .map(|(req, ann)| {
            let t: Vec<&str> = req.split(' ').collect();
            (format!("stream any - T,S0,S1,P0,N{} {}", hex(b".shstrtab"), t[3]), ann)
        })
        .collect()
}

/// extended-numbering escapes with absurd values in shdr[0], through the slice parser (and the stream parser):
/// `e_shnum = 0` with `shdr[0].sh_size` up to 2^64-1 (products and sums with e_shoff that wrap), `e_phnum = 0xffff`
/// with every 32-bit `sh_info`, `e_shstrndx = 0xffff` with every 32-bit `sh_link` — opening and the first queries
pub fn gen_filehdr(rng: &mut Rng, n: usize, _thorough: bool) -> Vec<Case> {
    let mut out = vec![];
    for k in 0..n.max(1) * 2 {
        let mut fc = rand_object(rng, true);
        fc.obj.no_shdrs = false;
        fc.obj.ext_phnum = false;
        fc.obj.ext_shnum = false;
        if k % 2 == 0 { fc.obj.tables_first = true; }
        let name_off = fc.built.name_off.clone();
        fc.built = fc.obj.build(&name_off);
        let le = fc.obj.le;
        let field = |n: &str| fc.built.fields.iter().find(|f| f.name == n).cloned();
        let entsz: u64 = if fc.obj.is64 { 64 } else { 40 };
        let shoff = fc.built.shoff;
        let mut sizes: Vec<u64> = vec![0, 1, 2, 1 << 31, (1 << 32) - 1, 1 << 32, 1 << 57, (1 << 58) - 1, 1 << 58, (1 << 58) + 1,
                                       1 << 59, 1 << 62, 1 << 63, u64::MAX, u64::MAX - 1, u64::MAX / entsz, u64::MAX / entsz + 1];
        let wrap = (u64::MAX - shoff) / entsz;
        sizes.extend([wrap, wrap + 1, wrap.saturating_sub(1)]);
        let combos: [(&str, u64, &str, Vec<u64>); 3] = [
            ("e_shnum", 0, "s0.sh_size", sizes),
            ("e_phnum", 0xffff, "s0.sh_info", vec![0, 1, 2, 0xffff, 0x10000, 1 << 31, (1 << 32) - 1, (1 << 32) - 2]),
            ("e_shstrndx", 0xffff, "s0.sh_link", vec![0, 1, 2, 0xffff, 0x10000, 1 << 31, (1 << 32) - 1]),
        ];
        for (a, va, b, vbs) in combos.iter() {
            let (fa, fb) = match (field(a), field(b)) { (Some(x), Some(y)) => (x, y), _ => continue };
            for vb in vbs {
                let mask = if fb.width == 8 { u64::MAX } else { (1u64 << (8 * fb.width)) - 1 };
                let mut bytes = fc.built.bytes.clone();
                crate::enc::put_at(&mut bytes, fa.off, le, fa.width, *va);
                crate::enc::put_at(&mut bytes, fb.off, le, fb.width, *vb & mask);
                let h = hex(&bytes);
                out.push((format!("file any T,C,S0,S1,P0,d {}", h), format!("clean=0|corrupt={}={}+{}={}", a, va, b, vb & mask)));
                out.push((format!("stream any - T,S0,P0,d {}", h), format!("clean=0|corrupt={}={}+{}={}", a, va, b, vb & mask)));
            }
        }
    }
    out
}
