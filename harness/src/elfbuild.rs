//! A structured ELF builder, written from the gABI / GNU format descriptions and independent of
//! the crate under test.  It knows what it built (`Built`), which is the ground truth the
//! implementation-side oracles use.
use crate::enc::*;
use crate::prng::Rng;

pub const SHT_NULL: u32 = 0;
pub const SHT_PROGBITS: u32 = 1;
pub const SHT_SYMTAB: u32 = 2;
pub const SHT_STRTAB: u32 = 3;
pub const SHT_RELA: u32 = 4;
pub const SHT_HASH: u32 = 5;
pub const SHT_DYNAMIC: u32 = 6;
pub const SHT_NOTE: u32 = 7;
pub const SHT_NOBITS: u32 = 8;
pub const SHT_REL: u32 = 9;
pub const SHT_DYNSYM: u32 = 11;
pub const SHT_GNU_HASH: u32 = 0x6ffffff6;
pub const SHT_GNU_VERDEF: u32 = 0x6ffffffd;
pub const SHT_GNU_VERNEED: u32 = 0x6ffffffe;
pub const SHT_GNU_VERSYM: u32 = 0x6fffffff;
pub const SHF_COMPRESSED: u64 = 0x800;
pub const PT_LOAD: u32 = 1;
pub const PT_DYNAMIC: u32 = 2;
pub const PT_NOTE: u32 = 4;

#[derive(Clone, Debug)]
pub struct Sec {
    pub name: Vec<u8>,
    pub sh_type: u32,
    pub flags: u64,
    pub addr: u64,
    pub link: u32,
    pub info: u32,
    pub addralign: u64,
    pub entsize: u64,
    pub data: Vec<u8>,
    /// explicit overrides applied after layout (corruption / adversarial ranges)
    pub off_override: Option<u64>,
    pub size_override: Option<u64>,
}

impl Sec {
    pub fn new(name: &[u8], sh_type: u32, data: Vec<u8>) -> Sec {
        Sec {
            name: name.to_vec(), sh_type, flags: 0, addr: 0, link: 0, info: 0, addralign: 1, entsize: 0,
            data, off_override: None, size_override: None,
        }
    }
}

#[derive(Clone, Debug)]
pub struct Seg {
    pub p_type: u32,
    pub flags: u32,
    /// cover this section's file range (offset/filesz filled in at layout), or explicit values
    pub sec: Option<usize>,
    pub offset: u64,
    pub filesz: u64,
    pub memsz: u64,
    pub vaddr: u64,
    pub paddr: u64,
    pub align: u64,
}

#[derive(Clone, Debug)]
pub struct Obj {
    pub is64: bool,
    pub le: bool,
    pub osabi: u8,
    pub abiversion: u8,
    pub e_type: u16,
    pub e_machine: u16,
    pub e_entry: u64,
    pub e_flags: u32,
    pub secs: Vec<Sec>, // secs[0] is the null section when any section exists
    pub segs: Vec<Seg>,
    pub shstrndx: u32,
    pub tables_first: bool,
    pub pad: usize,
    pub no_shdrs: bool,
    pub no_phdrs: bool,
    pub ext_shnum: bool,    // e_shnum = 0, count in shdr[0].sh_size
    pub ext_phnum: bool,    // e_phnum = 0xffff, count in shdr[0].sh_info
    pub ext_shstrndx: bool, // e_shstrndx = 0xffff, index in shdr[0].sh_link
    pub trailing: Vec<u8>,
}

#[derive(Clone, Debug)]
pub struct Field {
    pub name: String,
    pub off: usize,
    pub width: usize,
}

#[derive(Clone, Debug, Default)]
pub struct Built {
    pub bytes: Vec<u8>,
    pub fields: Vec<Field>,
    pub sec_range: Vec<(u64, u64)>, // (sh_offset, sh_size) as written
    pub seg_range: Vec<(u64, u64)>,
    pub shoff: u64,
    pub phoff: u64,
    pub shnum: u64,
    pub phnum: u64,
    pub name_off: Vec<u32>,
}

pub fn ehdr_size(is64: bool) -> usize {
    if is64 { 64 } else { 52 }
}

fn align_up(v: usize, a: usize) -> usize {
    if a <= 1 { v } else { (v + a - 1) / a * a }
}

impl Obj {
    pub fn new(is64: bool, le: bool) -> Obj {
        Obj {
            is64, le, osabi: 0, abiversion: 0, e_type: 3, e_machine: if is64 { 62 } else { 3 }, e_entry: 0,
            e_flags: 0, secs: vec![], segs: vec![], shstrndx: 0, tables_first: false, pad: 0,
            no_shdrs: false, no_phdrs: false, ext_shnum: false, ext_phnum: false, ext_shstrndx: false,
            trailing: vec![],
        }
    }

    pub fn add_sec(&mut self, s: Sec) -> usize {
        if self.secs.is_empty() {
            self.secs.push(Sec::new(b"", SHT_NULL, vec![]));
            self.secs[0].addralign = 0;
        }
        self.secs.push(s);
        self.secs.len() - 1
    }

    /// Reorder the sections (the null section stays first), remapping `sh_link` and the segments'
    /// section references; `perm[k]` is the old index of the section that moves to position `k + 1`.
    /// Call before `finish_names`.
    pub fn permute_secs(&mut self, perm: &[usize]) {
        if self.secs.len() <= 2 { return; }
        assert_eq!(perm.len(), self.secs.len() - 1);
        let mut new_index = vec![0usize; self.secs.len()];
        for (k, &old) in perm.iter().enumerate() { new_index[old] = k + 1; }
        let old_secs = std::mem::take(&mut self.secs);
        let mut secs = vec![old_secs[0].clone()];
        for &old in perm { secs.push(old_secs[old].clone()); }
        for s in secs.iter_mut() {
            if (s.link as usize) < new_index.len() && s.link != 0 { s.link = new_index[s.link as usize] as u32; }
        }
        for g in self.segs.iter_mut() {
            if let Some(i) = g.sec { g.sec = Some(new_index[i]); }
        }
        self.secs = secs;
    }

    /// Append a `.shstrtab` built from the section names and make it e_shstrndx.
    pub fn finish_names(&mut self) -> Vec<u32> {
        let idx = self.add_sec(Sec::new(b".shstrtab", SHT_STRTAB, vec![]));
        let mut tab = vec![0u8];
        let mut offs = vec![];
        for s in &self.secs {
            if s.name.is_empty() {
                offs.push(0u32);
            } else {
                offs.push(tab.len() as u32);
                tab.extend(&s.name);
                tab.push(0);
            }
        }
        self.secs[idx].data = tab;
        self.shstrndx = idx as u32;
        offs
    }

    pub fn build(&self, name_off: &[u32]) -> Built {
        let is64 = self.is64;
        let le = self.le;
        let shentsize = abi_size("SectionHeader", is64);
        let phentsize = abi_size("ProgramHeader", is64);
        let nsec = if self.no_shdrs { 0 } else { self.secs.len() };
        let nseg = if self.no_phdrs { 0 } else { self.segs.len() };
        let mut b = Built::default();
        let mut pos = ehdr_size(is64) + self.pad;
        let mut phoff = 0usize;
        let mut shoff = 0usize;
        if self.tables_first {
            if nseg > 0 {
                phoff = pos;
                pos += nseg * phentsize;
            }
            if nsec > 0 {
                pos = align_up(pos, 8);
                shoff = pos;
                pos += nsec * shentsize;
            }
        }
        // section data
        let mut ranges = vec![];
        for s in &self.secs {
            if s.sh_type == SHT_NULL {
                ranges.push((0u64, 0u64));
                continue;
            }
            let a = (s.addralign.min(64) as usize).max(1);
            pos = align_up(pos, if a.is_power_of_two() { a } else { 1 });
            let off = pos as u64;
            let size = s.data.len() as u64;
            if s.sh_type != SHT_NOBITS {
                pos += s.data.len();
            }
            ranges.push((off, size));
        }
        if !self.tables_first {
            if nseg > 0 {
                pos = align_up(pos, 8);
                phoff = pos;
                pos += nseg * phentsize;
            }
            if nsec > 0 {
                pos = align_up(pos, 8);
                shoff = pos;
                pos += nsec * shentsize;
            }
        }
        let mut bytes = vec![0u8; pos];
        // write section contents
        for (s, r) in self.secs.iter().zip(&ranges) {
            if s.sh_type != SHT_NULL && s.sh_type != SHT_NOBITS {
                bytes[r.0 as usize..r.0 as usize + s.data.len()].copy_from_slice(&s.data);
            }
        }
        // header
        let mut fields = vec![];
        let ident = [0x7f, b'E', b'L', b'F', if is64 { 2 } else { 1 }, if le { 1 } else { 2 }, 1, self.osabi, self.abiversion];
        bytes[..9].copy_from_slice(&ident);
        for (i, n) in ["ei_mag0", "ei_mag1", "ei_mag2", "ei_mag3", "ei_class", "ei_data", "ei_version", "ei_osabi", "ei_abiversion"].iter().enumerate() {
            fields.push(Field { name: n.to_string(), off: i, width: 1 });
        }
        let e_shnum = if self.ext_shnum || nsec >= 0xff00 { 0 } else { nsec as u64 };
        let e_phnum = if (self.ext_phnum && nsec > 0) || nseg >= 0xffff { 0xffff } else { nseg as u64 };
        let e_shstrndx = if nsec == 0 { 0 } else if self.ext_shstrndx || self.shstrndx >= 0xff00 { 0xffff } else { self.shstrndx as u64 };
        let tail_vals: Vec<u64> = vec![
            self.e_type as u64, self.e_machine as u64, 1, self.e_entry, phoff as u64, shoff as u64,
            self.e_flags as u64, ehdr_size(is64) as u64, if nseg > 0 { phentsize as u64 } else { 0 },
            e_phnum, if nsec > 0 { shentsize as u64 } else { 0 }, e_shnum, e_shstrndx,
        ];
        let mut p = 16;
        for ((n, w, _), v) in layout("FileHeaderTail", is64).iter().zip(&tail_vals) {
            put_at(&mut bytes, p, le, *w, *v);
            fields.push(Field { name: n.to_string(), off: p, width: *w });
            p += w;
        }
        // section headers
        for i in 0..nsec {
            let s = &self.secs[i];
            let (mut off, mut size) = ranges[i];
            if let Some(o) = s.off_override { off = o; }
            if let Some(z) = s.size_override { size = z; }
            let mut link = s.link as u64;
            let mut info = s.info as u64;
            if i == 0 {
                if e_shnum == 0 { size = nsec as u64; }
                if e_shstrndx == 0xffff { link = self.shstrndx as u64; }
                if e_phnum == 0xffff { info = nseg as u64; }
            }
            let vals = vec![
                name_off.get(i).copied().unwrap_or(0) as u64, s.sh_type as u64, s.flags, s.addr, off, size, link,
                info, s.addralign, s.entsize,
            ];
            let mut p = shoff + i * shentsize;
            for ((n, w, _), v) in layout("SectionHeader", is64).iter().zip(&vals) {
                put_at(&mut bytes, p, le, *w, *v);
                if i < 24 {
                    fields.push(Field { name: format!("s{}.{}", i, n), off: p, width: *w });
                }
                p += w;
            }
            b.sec_range.push((off, size));
        }
        // program headers
        for i in 0..nseg {
            let g = &self.segs[i];
            let (off, filesz) = match g.sec {
                // a segment tied to a section covers it entirely, or — when `filesz` is set — only its first `filesz` bytes
                Some(si) if si < ranges.len() => (ranges[si].0, if self.secs[si].sh_type == SHT_NOBITS { 0 } else if g.filesz != 0 { g.filesz.min(ranges[si].1) } else { ranges[si].1 }),
                _ => (g.offset, g.filesz),
            };
            let memsz = if g.memsz == u64::MAX { filesz } else { g.memsz };
            let lay = layout("ProgramHeader", is64);
            let mut p = phoff + i * phentsize;
            for (n, w, _) in lay.iter() {
                let v = match *n {
                    "p_type" => g.p_type as u64,
                    "p_flags" => g.flags as u64,
                    "p_offset" => off,
                    "p_vaddr" => g.vaddr,
                    "p_paddr" => g.paddr,
                    "p_filesz" => filesz,
                    "p_memsz" => memsz,
                    _ => g.align,
                };
                put_at(&mut bytes, p, le, *w, v);
                if i < 12 {
                    fields.push(Field { name: format!("p{}.{}", i, n), off: p, width: *w });
                }
                p += w;
            }
            b.seg_range.push((off, filesz));
        }
        bytes.extend(&self.trailing);
        b.bytes = bytes;
        b.fields = fields;
        b.shoff = shoff as u64;
        b.phoff = phoff as u64;
        b.shnum = nsec as u64;
        b.phnum = nseg as u64;
        b.name_off = name_off.to_vec();
        b
    }
}

// ------------------------------------------------------------------------------------------
// content builders
// ------------------------------------------------------------------------------------------

pub fn build_strtab(names: &[Vec<u8>]) -> (Vec<u8>, Vec<u32>) {
    let mut tab = vec![0u8];
    let mut offs = vec![];
    for n in names {
        if n.is_empty() {
            offs.push(0);
        } else {
            offs.push(tab.len() as u32);
            tab.extend(n);
            tab.push(0);
        }
    }
    (tab, offs)
}

#[derive(Clone, Debug)]
pub struct SymSpec {
    pub name: Vec<u8>,
    pub info: u8,
    pub other: u8,
    pub shndx: u16,
    pub value: u64,
    pub size: u64,
}

pub fn build_symtab(is64: bool, le: bool, syms: &[SymSpec], name_offs: &[u32]) -> Vec<u8> {
    let mut out = vec![];
    for (s, no) in syms.iter().zip(name_offs) {
        let lay = layout("Symbol", is64);
        for (n, w, _) in lay {
            let v = match n {
                "st_name" => *no as u64,
                "st_info" => s.info as u64,
                "st_other" => s.other as u64,
                "st_shndx" => s.shndx as u64,
                "st_value" => s.value,
                _ => s.size,
            };
            put(&mut out, le, w, v);
        }
    }
    out
}

/// `.hash` per the gABI: nbucket, nchain, bucket[], chain[]; symbol i is pushed on the front of
/// the chain of bucket `elf_hash(name_i) % nbucket`.  Symbol 0 is the undefined symbol.
pub fn build_sysv_hash(le: bool, nbucket: u32, names: &[Vec<u8>]) -> Vec<u8> {
    let n = names.len() as u32;
    let mut bucket = vec![0u32; nbucket as usize];
    let mut chain = vec![0u32; n as usize];
    if nbucket > 0 {
        for i in 1..n {
            let b = (ref_sysv_hash(&names[i as usize]) % nbucket) as usize;
            chain[i as usize] = bucket[b];
            bucket[b] = i;
        }
    }
    let mut out = vec![];
    put(&mut out, le, 4, nbucket as u64);
    put(&mut out, le, 4, n as u64);
    for v in bucket { put(&mut out, le, 4, v as u64); }
    for v in chain { put(&mut out, le, 4, v as u64); }
    out
}

/// `.hash` with each bucket's chain threaded in a given order: `order = 0` as `build_sysv_hash` (newest
/// first, indexes descend along a chain — what ld emits), `1` ascending, `2` the order given by `perm`
/// (any permutation: the gABI puts no constraint on the order of a chain).
pub fn build_sysv_hash_ordered(le: bool, nbucket: u32, names: &[Vec<u8>], order: u8, perm: &[usize]) -> Vec<u8> {
    let n = names.len();
    let mut lists: Vec<Vec<usize>> = vec![vec![]; nbucket as usize];
    if nbucket > 0 {
        let idxs: Vec<usize> = match order { 0 => (1..n).rev().collect(), 1 => (1..n).collect(), _ => perm.iter().copied().filter(|i| *i >= 1 && *i < n).collect() };
        for i in idxs {
            lists[(ref_sysv_hash(&names[i]) % nbucket) as usize].push(i);
        }
    }
    let mut bucket = vec![0u32; nbucket as usize];
    let mut chain = vec![0u32; n];
    for (b, l) in lists.iter().enumerate() {
        if let Some(f) = l.first() { bucket[b] = *f as u32; }
        for w in l.windows(2) { chain[w[0]] = w[1] as u32; }
    }
    let mut out = vec![];
    put(&mut out, le, 4, nbucket as u64);
    put(&mut out, le, 4, n as u64);
    for v in bucket { put(&mut out, le, 4, v as u64); }
    for v in chain { put(&mut out, le, 4, v as u64); }
    out
}

/// `.gnu.hash` per the GNU format.  `names[symoffset..]` are the hashed symbols; they are
/// returned re-ordered (stable) by `hash % nbucket` as the format requires — the caller must lay
/// the symbol table out in the returned order.
pub fn build_gnu_hash(is64: bool, le: bool, nbucket: u32, nbloom: u32, shift: u32, symoffset: u32,
                      names: &[Vec<u8>]) -> (Vec<u8>, Vec<usize>) {
    let symoffset = symoffset.min(names.len() as u32);
    let mut order: Vec<usize> = (0..names.len()).collect();
    let hashed: Vec<usize> = (symoffset as usize..names.len()).collect();
    let mut sorted = hashed.clone();
    let nb = nbucket.max(1);
    sorted.sort_by_key(|&i| ref_gnu_hash(&names[i]) % nb);
    for (k, &i) in sorted.iter().enumerate() {
        order[symoffset as usize + k] = i;
    }
    let c: u32 = if is64 { 64 } else { 32 };
    let mut bloom = vec![0u64; nbloom as usize];
    let mut buckets = vec![0u32; nbucket as usize];
    let mut chain = vec![0u32; sorted.len()];
    for (k, &i) in sorted.iter().enumerate() {
        let h = ref_gnu_hash(&names[i]);
        if nbloom > 0 {
            let w = ((h / c) % nbloom) as usize;
            bloom[w] |= 1u64 << (h % c);
            bloom[w] |= 1u64 << ((h >> (shift % 32)) % c);
        }
        if nbucket > 0 {
            let bkt = (h % nbucket) as usize;
            if buckets[bkt] == 0 {
                buckets[bkt] = symoffset + k as u32;
            }
            let last = k + 1 == sorted.len() || ref_gnu_hash(&names[sorted[k + 1]]) % nbucket != h % nbucket;
            chain[k] = (h & !1) | (last as u32);
        }
    }
    let mut out = vec![];
    put(&mut out, le, 4, nbucket as u64);
    put(&mut out, le, 4, symoffset as u64);
    put(&mut out, le, 4, nbloom as u64);
    put(&mut out, le, 4, shift as u64);
    for w in bloom { put(&mut out, le, if is64 { 8 } else { 4 }, w); }
    for v in buckets { put(&mut out, le, 4, v as u64); }
    for v in chain { put(&mut out, le, 4, v as u64); }
    (out, order)
}

#[derive(Clone, Debug)]
pub struct NoteSpec {
    pub n_type: u32,
    pub name: Vec<u8>,
    pub desc: Vec<u8>,
}

pub fn build_notes(le: bool, align: usize, notes: &[NoteSpec]) -> Vec<u8> {
    let mut out = vec![];
    for n in notes {
        put(&mut out, le, 4, n.name.len() as u64);
        put(&mut out, le, 4, n.desc.len() as u64);
        put(&mut out, le, 4, n.n_type as u64);
        out.extend(&n.name);
        if align > 0 { while out.len() % align != 0 { out.push(0); } }
        out.extend(&n.desc);
        if align > 0 { while out.len() % align != 0 { out.push(0); } }
    }
    out
}

#[derive(Clone, Debug)]
pub struct VerNeedSpec {
    pub file: Vec<u8>,
    pub auxs: Vec<(Vec<u8>, u32, u16, u16)>, // (name, hash, flags, other)
}
#[derive(Clone, Debug)]
pub struct VerDefSpec {
    pub flags: u16,
    pub ndx: u16,
    pub hash: u32,
    pub names: Vec<Vec<u8>>,
}

/// .gnu.version_r: records linked by next/aux offsets.  `interleaved = false`: each Verneed is
/// followed by its Vernaux array (the usual layout); `true`: all Verneed records first, then all
/// aux arrays, with `gap` bytes of filler between records (any forward layout is legal).
pub fn build_verneed(le: bool, needs: &[VerNeedSpec], str_off: &dyn Fn(&[u8]) -> u32, interleaved: bool, gap: usize) -> Vec<u8> {
    let rec = 16usize;
    let aux = 16usize;
    // positions
    let mut pos_rec = vec![];
    let mut pos_aux: Vec<Vec<usize>> = vec![];
    let mut p = 0usize;
    if !interleaved {
        for n in needs {
            pos_rec.push(p);
            p += rec + gap;
            let mut v = vec![];
            for _ in &n.auxs { v.push(p); p += aux + gap; }
            pos_aux.push(v);
        }
    } else {
        for _ in needs { pos_rec.push(p); p += rec + gap; }
        for n in needs {
            let mut v = vec![];
            for _ in &n.auxs { v.push(p); p += aux + gap; }
            pos_aux.push(v);
        }
    }
    let mut out = vec![0xEEu8; p];
    for (i, n) in needs.iter().enumerate() {
        let at = pos_rec[i];
        let vn_aux = if n.auxs.is_empty() { 0 } else { (pos_aux[i][0] - at) as u64 };
        let vn_next = if i + 1 < needs.len() { (pos_rec[i + 1] - at) as u64 } else { 0 };
        let vals = [1u64, n.auxs.len() as u64, str_off(&n.file) as u64, vn_aux, vn_next];
        let e = encode("VerNeed", false, le, &vals);
        out[at..at + rec].copy_from_slice(&e);
        for (j, a) in n.auxs.iter().enumerate() {
            let aat = pos_aux[i][j];
            let next = if j + 1 < n.auxs.len() { (pos_aux[i][j + 1] - aat) as u64 } else { 0 };
            let vals = [a.1 as u64, a.2 as u64, a.3 as u64, str_off(&a.0) as u64, next];
            let e = encode("VerNeedAux", false, le, &vals);
            out[aat..aat + aux].copy_from_slice(&e);
        }
    }
    out
}

pub fn build_verdef(le: bool, defs: &[VerDefSpec], str_off: &dyn Fn(&[u8]) -> u32, interleaved: bool, gap: usize) -> Vec<u8> {
    let rec = 20usize;
    let aux = 8usize;
    let mut pos_rec = vec![];
    let mut pos_aux: Vec<Vec<usize>> = vec![];
    let mut p = 0usize;
    if !interleaved {
        for d in defs {
            pos_rec.push(p);
            p += rec + gap;
            let mut v = vec![];
            for _ in &d.names { v.push(p); p += aux + gap; }
            pos_aux.push(v);
        }
    } else {
        for _ in defs { pos_rec.push(p); p += rec + gap; }
        for d in defs {
            let mut v = vec![];
            for _ in &d.names { v.push(p); p += aux + gap; }
            pos_aux.push(v);
        }
    }
    let mut out = vec![0xEEu8; p];
    for (i, d) in defs.iter().enumerate() {
        let at = pos_rec[i];
        let vd_aux = if d.names.is_empty() { 0 } else { (pos_aux[i][0] - at) as u64 };
        let vd_next = if i + 1 < defs.len() { (pos_rec[i + 1] - at) as u64 } else { 0 };
        let vals = [1u64, d.flags as u64, d.ndx as u64, d.names.len() as u64, d.hash as u64, vd_aux, vd_next];
        let e = encode("VerDef", false, le, &vals);
        out[at..at + rec].copy_from_slice(&e);
        for (j, nm) in d.names.iter().enumerate() {
            let aat = pos_aux[i][j];
            let next = if j + 1 < d.names.len() { (pos_aux[i][j + 1] - aat) as u64 } else { 0 };
            let vals = [str_off(nm) as u64, next];
            let e = encode("VerDefAux", false, le, &vals);
            out[aat..aat + aux].copy_from_slice(&e);
        }
    }
    out
}

pub fn rand_name(rng: &mut Rng) -> Vec<u8> {
    let len = rng.range(1, 10) as usize;
    (0..len)
        .map(|_| match rng.below(12) {
            0 => rng.range(0x80, 0xff) as u8,
            _ => *rng.pick(b"abcdefghijklmnopqrstuvwxyz_0123456789ABCXYZ."),
        })
        .collect()
}

/// A set of symbol names with the awkward cases: duplicates, empty, non-UTF-8, prefixes of each
/// other, known djb2 collisions.
pub fn name_set(rng: &mut Rng, n: usize) -> Vec<Vec<u8>> {
    let mut v: Vec<Vec<u8>> = vec![];
    for _ in 0..n {
        match rng.below(10) {
            0 if !v.is_empty() => {
                let k = rng.below(v.len() as u64) as usize;
                v.push(v[k].clone()); // duplicate
            }
            1 if !v.is_empty() => {
                let k = rng.below(v.len() as u64) as usize;
                let mut x = v[k].clone();
                x.extend(b"_v2"); // proper extension: prefix relation
                v.push(x);
            }
            2 => v.push(rng.pick(&[&b"ab"[..], b"bA", b"c ", b"item0", b"item1"]).to_vec()), // gnu: ab/bA/"c " collide
            3 => v.push(vec![]),
            _ => v.push(rand_name(rng)),
        }
    }
    v
}
